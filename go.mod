module verif

go 1.26
