// Package core is the in-process half of the deterministic simulator: it
// switches the patched runtime (detrt) on around one testing/synctest bubble,
// owns the event sequence, the harness PRNG, the violation/probe/fault
// counters, and implements the worker protocol spoken with cmd/simcheck.
//
// Nothing in here takes a lock or touches a channel on the hot path, so
// logging and bookkeeping never add scheduling points to a run.
package core

import (
	"fmt"
	"os"
	"runtime"
	"runtime/debug"
	"strings"
	"testing"
	"testing/synctest"
	"time"
	_ "unsafe"
)

//go:linkname simEnable runtime.simEnable
func simEnable(schedSeed, auxSeed uint64, yieldThr uint32)

//go:linkname simDisable runtime.simDisable
func simDisable() (picks, multi, yields, sites, hash, diverge, spins uint64)

//go:linkname simSetPCT runtime.simSetPCT
func simSetPCT(depth, steps uint32)

//go:linkname simSetSiteDelay runtime.simSetSiteDelay
func simSetSiteDelay(K, k uint32, lifo bool)

//go:linkname simDeferrals runtime.simDeferrals
func simDeferrals() uint64

//go:linkname simChargedUntil runtime.simChargedUntil
func simChargedUntil() int64

// ChargedUntil returns the instant (bubble clock) at which the last virtual-time
// sleep that the runtime's spin guard charged to the calling goroutine ended;
// the zero time if it was never charged. A deadline oracle must not count that
// sleep against the code under test: the goroutine could not notice anything
// while it was held.
func ChargedUntil() time.Time {
	if t := simChargedUntil(); t > 0 {
		return time.Unix(0, t)
	}
	return time.Time{}
}

//go:linkname simSpinSleepers runtime.simSpinSleepers
func simSpinSleepers() (n int32, end int64)

// SpinSleepers reports how many goroutines are inside a virtual-time sleep
// injected by the runtime's spin guard (they are runnable work that was merely
// charged time) and how long from now the latest of them lasts. A quiescence
// oracle must wait until there is none.
func (e *Env) SpinSleepers() (int, time.Duration) {
	n, end := simSpinSleepers()
	if n <= 0 {
		return 0, 0
	}
	d := time.Duration(end - time.Now().UnixNano()) // both on the bubble's clock
	if d < 0 {
		d = 0
	}
	return int(n), d
}

//go:linkname simSetPlayback runtime.simSetPlayback
func simSetPlayback(p *uint8, n int)

//go:linkname simSetSiteTrace runtime.simSetSiteTrace
func simSetSiteTrace(on bool)

//go:linkname simGetSiteTrace runtime.simGetSiteTrace
func simGetSiteTrace(i uint32) (pcs [4]uintptr, ok bool)

//go:linkname simGetDecisions runtime.simGetDecisions
func simGetDecisions(p *uint8, n int) (total int, overflow bool)

// Sched is the scheduler part of a scenario. It is embedded in every
// scenario so that a replay file carries it explicitly.
type Sched struct {
	SchedSeed uint64 `json:"sched_seed"`
	AuxSeed   uint64 `json:"aux_seed"`
	YieldThr  uint32 `json:"yield_thr"` // of 65536
	// Decisions, when non-nil, switches the runtime to scripted playback:
	// run-length encoded decision vector (see EncodeDecisions).
	Decisions string `json:"decisions,omitempty"`
	// PCTDepth > 0 selects PCT-style priority scheduling (random priorities,
	// highest runs, PCTDepth priority-change points uniform in [1,PCTSteps]
	// scheduling points) instead of uniform random picks.
	PCTDepth uint32 `json:"pct_depth,omitempty"`
	PCTSteps uint32 `json:"pct_steps,omitempty"`
	// SDMod > 0 selects site delays: a goroutine reaching a scheduling point
	// whose call-stack hash % SDMod == SDRes is set aside until every other
	// goroutine is blocked or set aside too (one code location is "slow" for
	// the whole run: the race window starting there is held open for every
	// goroutine that passes). SDLifo: of several set aside, the last resumes
	// first. Works on top of uniform picks or PCT. The hash is over return
	// addresses, i.e. it belongs to one build; the recorded Decisions do not
	// depend on it.
	SDMod  uint32 `json:"sd_mod,omitempty"`
	SDRes  uint32 `json:"sd_res,omitempty"`
	SDLifo bool   `json:"sd_lifo,omitempty"`
}

// Violation is one oracle failure.
type Violation struct {
	Oracle string `json:"oracle"`
	Msg    string `json:"msg"`
	Seq    uint64 `json:"seq"`
	SimNs  int64  `json:"sim_ns"`
}

// Stats are the runtime's counters for one run.
type Stats struct {
	Picks     uint64 `json:"picks"`
	Multi     uint64 `json:"multi"`
	Yields    uint64 `json:"yields"`
	Sites     uint64 `json:"sites"`
	SchedHash uint64 `json:"sched_hash"`
	Diverge   uint64 `json:"diverge"`
	// SpinSleeps: virtual-time sleeps the runtime injected because a goroutine
	// busy-looped at one virtual instant (see rt/mkpatch.py).
	SpinSleeps uint64 `json:"spin_sleeps,omitempty"`
	// Deferrals: goroutines set aside by site delays.
	Deferrals uint64 `json:"deferrals,omitempty"`
	// Mode: scheduling mode of the run: uniform | pct | sd | pct+sd | playback.
	Mode     string `json:"mode,omitempty"`
	NDec     int    `json:"ndec"`
	Overflow bool   `json:"overflow,omitempty"`
}

// Env is handed to the body of a run.
type Env struct {
	Seq     uint64
	R       *Rand
	Viol    []Violation
	Probes  map[string]int
	Faults  map[string]int
	Notes   map[string]string
	logOn   bool
	log     []string
	logHash uint64
	t0      time.Time
	Leaked  bool
}

// Next returns the next global event sequence number.
func (e *Env) Next() uint64 { e.Seq++; return e.Seq }

// SimNs is the simulated time since the start of the run.
func (e *Env) SimNs() int64 { return int64(time.Since(e.t0)) }

// Logf appends to the event log (hash always, text only when enabled).
func (e *Env) Logf(format string, a ...any) {
	s := fmt.Sprintf(format, a...)
	e.Seq++
	for i := 0; i < len(s); i++ {
		e.logHash = (e.logHash ^ uint64(s[i])) * 1099511628211
	}
	e.logHash = (e.logHash ^ 0xff) * 1099511628211
	if e.logOn && len(e.log) < 200000 {
		e.log = append(e.log, fmt.Sprintf("%d t=%d %s", e.Seq, e.SimNs(), s))
	}
}

// Violate records an oracle failure.
func (e *Env) Violate(oracle, format string, a ...any) {
	msg := fmt.Sprintf(format, a...)
	e.Logf("VIOLATION %s: %s", oracle, msg)
	if stacksOnViolation && len(e.Viol) == 0 {
		e.LogStacks("at first violation")
	}
	if len(e.Viol) < 20 {
		e.Viol = append(e.Viol, Violation{Oracle: oracle, Msg: msg, Seq: e.Seq, SimNs: e.SimNs()})
	}
}

// SIM_STACKS=1: dump the bubble's goroutine stacks into the event log at the
// first violation of a run (debugging aid; replay/one print the log).
var stacksOnViolation = os.Getenv("SIM_STACKS") != ""

// Probe counts that a rare condition was reached.
func (e *Env) Probe(name string) { e.Probes[name]++ }

// ProbeN adds n to a probe.
func (e *Env) ProbeN(name string, n int) { e.Probes[name] += n }

// Fault counts an injected fault that actually fired.
func (e *Env) Fault(kind string) { e.Faults[kind]++ }

// Outcome is everything one run produced.
type Outcome struct {
	Viol     []Violation       `json:"violations,omitempty"`
	Probes   map[string]int    `json:"probes,omitempty"`
	Faults   map[string]int    `json:"faults,omitempty"`
	Notes    map[string]string `json:"notes,omitempty"`
	Stats    Stats             `json:"stats"`
	SimNs    int64             `json:"sim_ns"`
	Events   uint64            `json:"events"`
	LogHash  uint64            `json:"log_hash"`
	Panic    string            `json:"panic,omitempty"`
	Deadlock bool              `json:"deadlock,omitempty"`
	Log      []string          `json:"log,omitempty"`
	DecRLE   string            `json:"decisions,omitempty"`
	WallMs   int64             `json:"wall_ms"`
}

// siteTraceFile (env SIM_SITETRACE=<path>): debugging aid for determinism
// hunts. The call stack (4 frames) of every yield site of the LAST run of the
// process is written there, one line per site; run the same seed in two
// processes and diff the files to find the first diverging scheduling point.
var siteTraceFile = os.Getenv("SIM_SITETRACE")

func dumpSiteTrace() {
	var sb strings.Builder
	for i := uint32(0); ; i++ {
		pcs, ok := simGetSiteTrace(i)
		if !ok {
			break
		}
		fmt.Fprintf(&sb, "%d", i)
		for _, pc := range pcs {
			if pc == 0 {
				continue
			}
			f := runtime.FuncForPC(pc - 1)
			if f == nil {
				continue
			}
			_, line := f.FileLine(pc - 1)
			fmt.Fprintf(&sb, " %s:%d", f.Name(), line)
		}
		sb.WriteByte('\n')
	}
	os.WriteFile(siteTraceFile, []byte(sb.String()), 0o644)
}

// GCBetween: run two GC cycles (emptying sync.Pools) before every run, which
// isolates a run from pooled state left by its predecessors. It must be the
// same for every run of a world (a GC changes the next run's sync.Pool slow
// paths, i.e. its scheduling points); micro worlds with no pooled state turn
// it off for throughput and keep their batches short instead.
var GCBetween = true

// Run executes body inside one synctest bubble under the deterministic
// scheduler. body runs on the bubble's root goroutine; when it returns, every
// goroutine it started must have exited or the bubble reports a deadlock,
// which is returned as Outcome.Deadlock (oracles decide whether it matters).
func Run(t *testing.T, sc Sched, wantLog, wantDec bool, body func(e *Env)) Outcome {
	if GCBetween {
		runtime.GC()
		runtime.GC()
	}
	wall0 := time.Now() // outside the bubble: real clock
	e := &Env{R: NewRand(sc.AuxSeed ^ 0x5851f42d4c957f2d), Probes: map[string]int{}, Faults: map[string]int{}, Notes: map[string]string{}, logOn: wantLog, logHash: 14695981039346656037}
	var out Outcome
	var play []byte
	if sc.Decisions != "" {
		var err error
		play, err = DecodeDecisions(sc.Decisions)
		if err != nil {
			out.Panic = "bad decisions: " + err.Error()
			return out
		}
	}
	runtime.Gosched()
	if play != nil {
		if len(play) == 0 {
			play = []byte{0}
		}
		simSetPlayback(&play[0], len(play))
	}
	var simNs int64
	func() {
		defer func() {
			if r := recover(); r != nil {
				s := fmt.Sprint(r)
				if strings.Contains(s, "deadlock: main bubble goroutine has exited but blocked goroutines remain") || strings.Contains(s, "deadlock: all goroutines in bubble are blocked") {
					out.Deadlock = true
					if wantLog {
						buf := make([]byte, 1<<20)
						buf = buf[:runtime.Stack(buf, true)]
						out.Panic = s + "\n" + bubbleStacks(string(buf))
					}
					return
				}
				out.Panic = s + "\n" + string(debug.Stack())
			}
		}()
		simSetSiteTrace(siteTraceFile != "")
		if sc.Decisions == "" {
			simSetPCT(sc.PCTDepth, sc.PCTSteps)
			simSetSiteDelay(sc.SDMod, sc.SDRes, sc.SDLifo)
		} else {
			simSetPCT(0, 0)
			simSetSiteDelay(0, 0, false)
		}
		simEnable(sc.SchedSeed, sc.AuxSeed, sc.YieldThr)
		synctest.Test(t, func(t *testing.T) {
			e.t0 = time.Now()
			defer func() { simNs = int64(time.Since(e.t0)) }()
			body(e)
		})
	}()
	p, m, y, s, h, d, sp := simDisable()
	out.Stats = Stats{Picks: p, Multi: m, Yields: y, Sites: s, SchedHash: h, Diverge: d, SpinSleeps: sp, Deferrals: simDeferrals()}
	switch {
	case sc.Decisions != "":
		out.Stats.Mode = "playback"
	case sc.PCTDepth > 0 && sc.SDMod > 0:
		out.Stats.Mode = "pct+sd"
	case sc.PCTDepth > 0:
		out.Stats.Mode = "pct"
	case sc.SDMod > 0:
		out.Stats.Mode = "sd"
	default:
		out.Stats.Mode = "uniform"
	}
	n, over := simGetDecisions(nil, 0)
	out.Stats.NDec, out.Stats.Overflow = n, over
	if wantDec && n > 0 && !over {
		buf := make([]byte, n)
		simGetDecisions(&buf[0], n)
		out.DecRLE = EncodeDecisions(buf)
	}
	out.Viol, out.Probes, out.Faults, out.Notes = e.Viol, e.Probes, e.Faults, e.Notes
	out.SimNs, out.Events, out.LogHash = simNs, e.Seq, e.logHash
	out.WallMs = time.Since(wall0).Milliseconds()
	if siteTraceFile != "" {
		dumpSiteTrace()
	}
	if wantLog {
		out.Log = e.log
	}
	return out
}

// LogStacks appends the stacks of all bubble goroutines to the event log
// (debugging aid; only when the log is on).
func (e *Env) LogStacks(why string) {
	if !e.logOn {
		return
	}
	buf := make([]byte, 1<<20)
	buf = buf[:runtime.Stack(buf, true)]
	e.log = append(e.log, "STACKS "+why+"\n"+bubbleStacks(string(buf)))
}

// bubbleStacks keeps the goroutines that belong to a synctest bubble.
func bubbleStacks(all string) string {
	var keep []string
	for _, g := range strings.Split(all, "\n\n") {
		if strings.Contains(g, "synctest") && !strings.Contains(g, "core.Run(") {
			keep = append(keep, g)
		}
	}
	return strings.Join(keep, "\n\n")
}

// Rand is the harness PRNG (splitmix64): deterministic, lock-free, cheap.
type Rand struct{ s uint64 }

func NewRand(seed uint64) *Rand { return &Rand{s: seed} }

func (r *Rand) Uint64() uint64 {
	r.s += 0x9e3779b97f4a7c15
	z := r.s
	z = (z ^ (z >> 30)) * 0xbf58476d1ce4e5b9
	z = (z ^ (z >> 27)) * 0x94d049bb133111eb
	return z ^ (z >> 31)
}

// Intn returns a value in [0,n); n<=0 yields 0.
func (r *Rand) Intn(n int) int {
	if n <= 1 {
		return 0
	}
	return int(r.Uint64() % uint64(n))
}

// Range returns a value in [lo,hi].
func (r *Rand) Range(lo, hi int) int {
	if hi <= lo {
		return lo
	}
	return lo + r.Intn(hi-lo+1)
}

// Chance is true with probability num/den.
func (r *Rand) Chance(num, den int) bool { return r.Intn(den) < num }

// Pick returns one of the given values.
func Pick[T any](r *Rand, xs ...T) T { return xs[r.Intn(len(xs))] }

// LogUniform returns a value in [lo,hi] with log-uniform density.
func (r *Rand) LogUniform(lo, hi int) int {
	if lo < 1 {
		lo = 1
	}
	if hi <= lo {
		return lo
	}
	bl, bh := 0, 0
	for v := lo; v > 1; v >>= 1 {
		bl++
	}
	for v := hi; v > 1; v >>= 1 {
		bh++
	}
	b := r.Range(bl, bh)
	v := (1 << b) + r.Intn(1<<b)
	if v < lo {
		v = lo
	}
	if v > hi {
		v = hi
	}
	return v
}

// Fork derives an independent stream.
func (r *Rand) Fork() *Rand { return NewRand(r.Uint64()) }

// Mix derives a seed from a base seed and labels.
func Mix(seed uint64, ks ...uint64) uint64 {
	z := seed
	for _, k := range ks {
		z = (z ^ k) * 0x9e3779b97f4a7c15
		z = (z ^ (z >> 30)) * 0xbf58476d1ce4e5b9
		z = (z ^ (z >> 27)) * 0x94d049bb133111eb
		z ^= z >> 31
	}
	return z
}

// EncodeDecisions run-length encodes a decision vector as "v*n,v*n,...".
func EncodeDecisions(b []byte) string {
	var sb strings.Builder
	for i := 0; i < len(b); {
		j := i
		for j < len(b) && b[j] == b[i] {
			j++
		}
		if sb.Len() > 0 {
			sb.WriteByte(',')
		}
		if j-i == 1 {
			fmt.Fprintf(&sb, "%d", b[i])
		} else {
			fmt.Fprintf(&sb, "%d*%d", b[i], j-i)
		}
		i = j
	}
	return sb.String()
}

// DecodeDecisions is the inverse of EncodeDecisions.
func DecodeDecisions(s string) ([]byte, error) {
	out := []byte{}
	if s == "" || s == "-" {
		return out, nil
	}
	for _, part := range strings.Split(s, ",") {
		var v, n int
		if strings.Contains(part, "*") {
			if _, err := fmt.Sscanf(part, "%d*%d", &v, &n); err != nil {
				return nil, err
			}
		} else {
			if _, err := fmt.Sscanf(part, "%d", &v); err != nil {
				return nil, err
			}
			n = 1
		}
		if v < 0 || v > 255 || n < 0 || len(out)+n > 1<<22 {
			return nil, fmt.Errorf("bad decision %q", part)
		}
		for i := 0; i < n; i++ {
			out = append(out, byte(v))
		}
	}
	return out, nil
}
