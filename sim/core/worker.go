package core

import (
	"bufio"
	"encoding/json"
	"fmt"
	"hash/fnv"
	"os"
	"runtime"
	"runtime/debug"
	"testing"
)

// Scenario is implemented by every world's scenario type (pointer receiver).
type Scenario interface {
	SchedP() *Sched
}

// Shaper lets a scenario describe its structural shape (for distinctness).
type Shaper interface{ Shape() string }

// Validator lets a scenario reject shrunk variants that make no sense.
type Validator interface{ Validate() error }

type propEntry struct {
	id  string
	gen func(seed uint64, tier string) Scenario
	dec func(raw json.RawMessage) (Scenario, error)
	run func(e *Env, s Scenario)
}

var registry = map[string]*propEntry{}

// Warmups is the number of throw-away runs at process start.
var Warmups = 3

// Register adds a property check to this worker binary.
func Register[S any, PS interface {
	*S
	Scenario
}](id string, gen func(seed uint64, tier string) PS, run func(e *Env, s PS)) {
	registry[id] = &propEntry{
		id: id,
		gen: func(seed uint64, tier string) Scenario {
			s := gen(seed, tier)
			applyPCT(s.SchedP(), seed)
			return s
		},
		dec: func(raw json.RawMessage) (Scenario, error) {
			var s S
			if err := json.Unmarshal(raw, &s); err != nil {
				return nil, err
			}
			ps := PS(&s)
			if v, ok := any(ps).(Validator); ok {
				if err := v.Validate(); err != nil {
					return nil, err
				}
			}
			return ps, nil
		},
		run: func(e *Env, s Scenario) { run(e, s.(PS)) },
	}
}

// Scheduling modes. Uniform picks advance every runnable goroutine at the same
// rate, so a bug that needs one goroutine to run far ahead while others sit
// inside a window one scheduling point wide is practically unreachable for
// them. A function of the seed only: PCTPercent of the generated scenarios use
// PCT-style priority scheduling (Sched.PCTDepth), SDPercent use site delays
// (Sched.SDMod) on top of uniform picks, and PCTSDPercent use both.
var (
	PCTPercent   = 10
	PCTSDPercent = 5
	SDPercent    = 15
)

var forceMode = os.Getenv("SIM_SCHED_MODE")

func applyPCT(s *Sched, seed uint64) {
	if s.PCTDepth != 0 || s.SDMod != 0 || s.Decisions != "" {
		return
	}
	h := Mix(seed, 0x9c7)
	r := int(h % 100)
	pct := r < PCTPercent+PCTSDPercent
	sd := r >= PCTPercent && r < PCTPercent+PCTSDPercent+SDPercent
	switch forceMode { // experiments only (SIM_SCHED_MODE)
	case "uniform":
		pct, sd = false, false
	case "pct":
		pct, sd = true, false
	case "sd":
		pct, sd = false, true
	case "pct+sd":
		pct, sd = true, true
	}
	if pct {
		s.PCTDepth = 1 + uint32((h>>8)%3)
		s.PCTSteps = []uint32{50, 300, 2000, 20000, 200000}[(h>>16)%5]
	}
	if sd {
		s.SDMod = []uint32{3, 8, 16, 64, 256}[(h>>24)%5]
		s.SDRes = uint32(h>>32) % s.SDMod
		s.SDLifo = (h>>56)&1 == 1
	}
}

// Request is what cmd/simcheck sends (env SIM_REQ = path of a JSON file).
type Request struct {
	Prop     string          `json:"prop"`
	Mode     string          `json:"mode"` // seeds | replay
	Tier     string          `json:"tier"`
	Seeds    []uint64        `json:"seeds,omitempty"`
	Scenario json.RawMessage `json:"scenario,omitempty"`
	WantLog  bool            `json:"want_log,omitempty"`
	WantSc   bool            `json:"want_scenario,omitempty"`
	WantDec  bool            `json:"want_dec,omitempty"`
	// SampleEvery: include scenario for every n-th run (evidence samples).
	SampleEvery int `json:"sample_every,omitempty"`
}

// Reply is one line of SIM_OUT per run.
type Reply struct {
	Seed     uint64          `json:"seed"`
	Invalid  string          `json:"invalid,omitempty"`
	Shape    string          `json:"shape,omitempty"`
	Outcome  *Outcome        `json:"outcome,omitempty"`
	Scenario json.RawMessage `json:"scenario,omitempty"`
}

// WorkerMain is called from each world's TestSimWorker.
func WorkerMain(t *testing.T) {
	reqPath := os.Getenv("SIM_REQ")
	if reqPath == "" {
		t.Skip("SIM_REQ not set: not running under simcheck")
	}
	if runtime.GOMAXPROCS(0) != 1 {
		fmt.Fprintln(os.Stderr, "worker: GOMAXPROCS must be 1")
		os.Exit(2)
	}
	debug.SetGCPercent(-1)
	runtime.MemProfileRate = 0
	b, err := os.ReadFile(reqPath)
	if err != nil {
		fmt.Fprintln(os.Stderr, "worker:", err)
		os.Exit(2)
	}
	var req Request
	if err := json.Unmarshal(b, &req); err != nil {
		fmt.Fprintln(os.Stderr, "worker: bad request:", err)
		os.Exit(2)
	}
	pe := registry[req.Prop]
	if pe == nil {
		fmt.Fprintf(os.Stderr, "worker: property %s not in this binary\n", req.Prop)
		os.Exit(2)
	}
	of, err := os.OpenFile(os.Getenv("SIM_OUT"), os.O_CREATE|os.O_WRONLY|os.O_APPEND, 0o644)
	if err != nil {
		fmt.Fprintln(os.Stderr, "worker:", err)
		os.Exit(2)
	}
	w := bufio.NewWriter(of)
	emit := func(r *Reply) {
		jb, err := json.Marshal(r)
		if err != nil {
			fmt.Fprintln(os.Stderr, "worker: marshal:", err)
			os.Exit(2)
		}
		w.Write(jb)
		w.WriteByte('\n')
		w.Flush() // outside the run: syscalls are fine here
	}
	runOne := func(seed uint64, raw json.RawMessage, idx int) {
		rep := &Reply{Seed: seed}
		sc, err := pe.dec(raw)
		if err != nil {
			rep.Invalid = err.Error()
			emit(rep)
			return
		}
		if sh, ok := sc.(Shaper); ok {
			rep.Shape = sh.Shape()
		} else {
			h := fnv.New64a()
			h.Write(raw)
			rep.Shape = fmt.Sprintf("%x", h.Sum64())
		}
		out := Run(t, *sc.SchedP(), req.WantLog, req.WantDec, func(e *Env) { pe.run(e, sc) })
		rep.Outcome = &out
		bad := len(out.Viol) > 0 || out.Panic != ""
		if req.WantSc || bad || (req.SampleEvery > 0 && idx%req.SampleEvery == 0) {
			rep.Scenario = raw
		}
		emit(rep)
		if out.Deadlock || out.Panic != "" {
			// leaked bubble goroutines: do not run further scenarios in
			// this process; simcheck reschedules the remaining seeds.
			w.Flush()
			of.Close()
			os.Exit(3)
		}
	}
	// Warm-up: lazily initialised process-global state (sync.Once paths in the
	// runtime, testing, grpc registries, codecs ...) adds scheduling points to
	// whichever run happens to come first. A few throw-away runs of fixed
	// scenarios make every reported run start from the same warmed state, so a
	// seed behaves the same alone and inside a batch.
	for i := 0; i < Warmups && req.Mode != "gen"; i++ {
		sc := pe.gen(Mix(0x77a2, uint64(i)), "quick")
		raw, _ := json.Marshal(sc)
		if dsc, err := pe.dec(raw); err == nil {
			out := Run(t, *dsc.SchedP(), false, false, func(e *Env) { pe.run(e, dsc) })
			if out.Deadlock || out.Panic != "" {
				break // the real runs will report it
			}
		}
	}
	switch req.Mode {
	case "seeds":
		for i, seed := range req.Seeds {
			sc := pe.gen(seed, req.Tier)
			raw, err := json.Marshal(sc)
			if err != nil {
				fmt.Fprintln(os.Stderr, "worker: marshal scenario:", err)
				os.Exit(2)
			}
			runOne(seed, raw, i)
		}
	case "gen":
		for _, seed := range req.Seeds {
			raw, _ := json.Marshal(pe.gen(seed, req.Tier))
			emit(&Reply{Seed: seed, Scenario: raw})
		}
	case "replay":
		runOne(0, req.Scenario, 0)
	default:
		fmt.Fprintln(os.Stderr, "worker: bad mode")
		os.Exit(2)
	}
	w.Flush()
	of.Close()
}
