package wx

import (
	"fmt"
	"math"
	"sort"
	"strings"
)

const inf = uint64(math.MaxUint64)

// exemptFrom returns the seq from which requests on tr are not judged: the
// start of the earliest operation that may have been closing the channel when
// Transport.Close was observed (an unwatch in progress, a response of a
// higher-priority server, client Close). While a channel shuts down the
// client may legitimately refuse a response it has just read.
func (wd *world) exemptFrom(tr *ftransport) uint64 {
	if tr.closeSeq == 0 {
		return inf
	}
	c := tr.closeSeq
	from := c
	for _, wt := range wd.watchers {
		if wt.usSeq != 0 && wt.usSeq <= c && (wt.ueSeq == 0 || wt.ueSeq >= c) && wt.usSeq < from {
			from = wt.usSeq
		}
	}
	if wd.closeSeq != 0 && wd.closeSeq <= c && wd.closeSeq < from {
		from = wd.closeSeq
	}
	var last uint64
	for _, rr := range wd.respList {
		if rr.srv < tr.srv.idx && rr.kind == "resp" && rr.seq < c && rr.seq > last {
			last = rr.seq
		}
	}
	if last != 0 && last < from {
		from = last
	}
	return from
}

// possiblyWatchedIn: some watcher of (typ,name) may have been registered at
// some instant of [lo,hi].
func (wd *world) possiblyWatchedIn(typ int, name string, lo, hi uint64) bool {
	for _, wt := range wd.watchers {
		if wt.spec.Typ != typ || wt.name != name || wt.wsSeq == 0 {
			continue
		}
		if wt.wsSeq <= hi && (wt.ueSeq == 0 || wt.ueSeq >= lo) {
			return true
		}
	}
	return false
}

// watchedThroughout: at every instant of [lo,hi] some watcher of (typ,name)
// was certainly registered (its WatchResource had returned and its cancel had
// not been called).
func (wd *world) watchedThroughout(typ int, name string, lo, hi uint64) bool {
	t := lo
	for {
		best := uint64(0)
		found := false
		for _, wt := range wd.watchers {
			if wt.spec.Typ != typ || wt.name != name || wt.weSeq == 0 || wt.weSeq > t {
				continue
			}
			end := inf
			if wt.usSeq != 0 {
				end = wt.usSeq
			}
			if end <= t {
				continue
			}
			found = true
			if end > best {
				best = end
			}
		}
		if !found {
			return false
		}
		if best > hi {
			return true
		}
		t = best
	}
}

// lowestPriorityAlive: no transport of a lower-priority server (higher index)
// was alive at any instant of [lo,hi].
func (wd *world) lowestPriorityAlive(tr *ftransport, lo, hi uint64) bool {
	for _, o := range wd.transports {
		if o.srv.idx <= tr.srv.idx {
			continue
		}
		if o.buildSeq <= hi && (o.closeSeq == 0 || o.closeSeq >= lo) {
			return false
		}
	}
	return true
}

// orphanedByRevert: name (watched at seq at) may be missing from a request on
// tr because its watch was registered while a lower-priority server was in
// use (so it was subscribed there only) and the client has reverted since.
func (wd *world) orphanedByRevert(tr *ftransport, typ int, name string, at uint64) bool {
	for _, o := range wd.transports {
		if o.srv.idx <= tr.srv.idx || o.buildSeq >= at {
			continue
		}
		for _, wt := range wd.watchers {
			if wt.spec.Typ == typ && wt.name == name && wt.weSeq != 0 && wt.weSeq <= at && (wt.usSeq == 0 || wt.usSeq > at) && wt.weSeq > o.buildSeq {
				return true
			}
		}
	}
	return false
}

type vn struct{ ver, nonce string }

// checkRequests is the C42 oracle over the captured DiscoveryRequests.
func (wd *world) checkRequests() {
	e := wd.e
	for _, tr := range wd.transports {
		exFrom := wd.exemptFrom(tr)
		var acked [2]string // last accepted version per type on this channel
		for _, st := range tr.streams {
			var cur [2]vn
			var pending [2]*respRec
			for t := 0; t < 2; t++ {
				cur[t] = vn{acked[t], ""}
			}
			first := true
			for _, it := range st.items {
				switch {
				case it.resp != nil:
					rr := it.resp
					if rr.kind != "resp" {
						continue
					}
					pending[rr.typ] = rr
				case it.recvEnter != 0:
					for t := 0; t < 2; t++ {
						if p := pending[t]; p != nil && it.recvEnter < exFrom {
							e.Violate("ack_before_next_read", "%s stream %d: Recv entered at seq %d although response %s (type %d, nonce %s) has been neither ACKed nor NACKed", tr.name(), st.idx, it.recvEnter, p.tag, t, p.nonce)
							pending[t] = nil
						}
					}
				case it.req != nil:
					q := it.req
					if first {
						first = false
						if !q.hasNode || q.nodeID != "wx-node" {
							e.Violate("first_request_node", "%s stream %d: first request on the stream (seq %d) carries node=%v id=%q", tr.name(), st.idx, q.seq, q.hasNode, q.nodeID)
						}
					}
					if q.typ < 0 {
						e.Violate("request_type", "%s stream %d: request (seq %d) for type URL %q which nobody subscribed to", tr.name(), st.idx, q.seq, q.url)
						continue
					}
					if q.dupName {
						e.Violate("request_names", "%s stream %d: request (seq %d) lists a name twice: %v", tr.name(), st.idx, q.seq, q.names)
					}
					wd.checkNames(tr, st, q, q.seq >= exFrom)
					if q.seq >= exFrom {
						e.Probe("request_exempt_closing")
						continue
					}
					if !q.ok {
						continue // not delivered: the stream was already broken
					}
					t := q.typ
					got := vn{q.ver, q.nonce}
					p := pending[t]
					var post vn
					if p != nil {
						post = vn{cur[t].ver, p.nonce}
						if !p.rejected {
							post.ver = p.ver
						}
					}
					switch {
					case p != nil && got == post && (post != cur[t] || q.hasErr == p.rejected):
						// the ACK / NACK of p
						if p.rejected {
							e.Probe("nack_seen")
							if !q.hasErr || q.errMsg == "" {
								e.Violate("nack_error_detail", "%s stream %d: NACK (seq %d) of rejected response %s carries no error detail", tr.name(), st.idx, q.seq, p.tag)
							}
							if cur[t].ver != "" {
								e.Probe("nack_keeps_previous_version")
							}
						} else {
							e.Probe("ack_seen")
							if q.hasErr {
								e.Violate("ack_with_error_detail", "%s stream %d: request (seq %d) acknowledging accepted response %s carries error detail %q", tr.name(), st.idx, q.seq, p.tag, q.errMsg)
							}
						}
						cur[t] = post
						if !p.rejected {
							acked[t] = p.ver
						}
						pending[t] = nil
					case got == cur[t]:
						if p != nil {
							e.Probe("request_between_read_and_ack")
						}
						if q.hasErr {
							e.Violate("spurious_nack", "%s stream %d: request (seq %d) carries error detail %q but rejects nothing", tr.name(), st.idx, q.seq, q.errMsg)
						}
						if st.idx > 0 && cur[t].ver != "" && q.nonce == "" {
							e.Probe("version_survives_restart")
						}
					default:
						want := fmt.Sprintf("version %q nonce %q", cur[t].ver, cur[t].nonce)
						if p != nil {
							want += fmt.Sprintf(" or (after response %s) version %q nonce %q", p.tag, post.ver, post.nonce)
						}
						e.Violate("version_nonce", "%s stream %d: request (seq %d) for type %d carries version %q nonce %q; expected %s", tr.name(), st.idx, q.seq, t, q.ver, q.nonce, want)
						// resynchronise on what was sent to avoid cascades
						cur[t] = got
						pending[t] = nil
					}
				}
			}
		}
		wd.checkConverged(tr)
	}
}

// checkNames: every listed name was (possibly) watched at some instant since
// the stream was created; every name of the type that is missing was not
// certainly watched during that whole time (only judged on the transport of
// the lowest-priority server in use, which carries every subscription).
func (wd *world) checkNames(tr *ftransport, st *fstream, q *reqRec, closing bool) {
	e := wd.e
	lo, hi := st.newSeq, q.seq
	have := map[string]bool{}
	for _, n := range q.names {
		have[n] = true
		if !wd.possiblyWatchedIn(q.typ, n, tr.buildSeq, hi) {
			e.Violate("request_names", "%s stream %d: request (seq %d) for type %d lists %q which no watcher asked for", tr.name(), st.idx, q.seq, q.typ, n)
		} else if !wd.possiblyWatchedIn(q.typ, n, lo, hi) {
			e.Violate("request_names", "%s stream %d: request (seq %d) for type %d lists %q; its last watcher was gone before this stream started (seq %d)", tr.name(), st.idx, q.seq, q.typ, n, lo)
		}
	}
	if closing || tr.srv.idx != 0 || !wd.lowestPriorityAlive(tr, lo, hi) {
		// a channel being released is unsubscribed name by name, and a
		// fallback channel is subscribed name by name at an unobservable
		// instant after its creation: only convergence is judged there
		return
	}
	for _, n := range resNames {
		if !have[n] && wd.watchedThroughout(q.typ, n, lo, hi) {
			if wd.orphanedByRevert(tr, q.typ, n, hi) {
				e.Violate("revert_orphans_subscription", "%s stream %d: request (seq %d) for type %d lists %v but %q is watched; its watch was registered while a lower-priority server was in use and the name was never subscribed on this server", tr.name(), st.idx, q.seq, q.typ, q.names, n)
				continue
			}
			wd.deferViol("request_names", "%s stream %d: request (seq %d) for type %d lists %v but %q was watched during the whole life of the stream (since seq %d)", tr.name(), st.idx, q.seq, q.typ, q.names, n, lo)
		}
	}
}

// checkConverged: at quiescence the last request of each type on a live
// stream lists exactly the watched names (lowest-priority server in use), or
// a subset of them (other servers).
func (wd *world) checkConverged(tr *ftransport) {
	e := wd.e
	q := wd.quietSeq
	if (tr.closeSeq != 0 && tr.closeSeq < q) || len(tr.streams) == 0 {
		return
	}
	st := tr.streams[len(tr.streams)-1]
	if st.failSeq != 0 && st.failSeq < q {
		return
	}
	// flow control must not wedge: every watcher has called done() long ago,
	// so the client must be waiting in Recv for the next message
	lastKind := ""
	for _, it := range st.items {
		switch {
		case it.recvEnter != 0 && it.recvEnter < q:
			lastKind = "enter"
		case it.resp != nil && it.resp.seq < q:
			lastKind = "resp " + it.resp.tag
			if it.resp.kind == "unk" {
				lastKind = "unk " + it.resp.tag
			}
		}
	}
	if strings.HasPrefix(lastKind, "unk") {
		e.Violate("unknown_type_response_wedges_stream", "%s stream %d: after reading a response of a resource type it does not know (%s) the client never called Recv again (quiescent, stream still up)", tr.name(), st.idx, lastKind)
	} else if strings.HasPrefix(lastKind, "resp") {
		wd.deferViol("reading_resumes", "%s stream %d: at quiescence every watcher has finished, but the client never called Recv again after reading %s", tr.name(), st.idx, lastKind)
	} else if lastKind == "enter" {
		e.Probe("reading_checked")
	}
	active := wd.lowestPriorityAlive(tr, q, q)
	for t := 0; t < 2; t++ {
		var want []string
		for _, n := range resNames {
			if wd.watchedThroughout(t, n, q, q) {
				want = append(want, n)
			}
		}
		var last *reqRec
		for _, it := range st.items {
			if it.req != nil && it.req.typ == t && it.req.ok && it.req.seq < q {
				last = it.req
			}
		}
		if last == nil {
			if len(want) > 0 && active {
				orphan := true
				for _, n := range want {
					if !wd.orphanedByRevert(tr, t, n, q) {
						orphan = false
					}
				}
				if orphan {
					e.Violate("revert_orphans_subscription", "%s stream %d: at quiescence %v of type %d are watched but no request for the type was sent on the live stream; they were registered while a lower-priority server was in use", tr.name(), st.idx, want, t)
					continue
				}
				wd.deferViol("names_converge", "%s stream %d: at quiescence %v of type %d are watched but no request for the type was sent on the live stream", tr.name(), st.idx, want, t)
			}
			continue
		}
		sort.Strings(want)
		if active {
			e.Probe("converged_checked")
			if strings.Join(want, ",") != strings.Join(last.names, ",") {
				have := map[string]bool{}
				for _, n := range last.names {
					have[n] = true
				}
				orphan := len(last.names) < len(want)
				for _, n := range want {
					if !have[n] && !wd.orphanedByRevert(tr, t, n, q) {
						orphan = false
					}
				}
				for _, n := range last.names {
					if !wd.watchedThroughout(t, n, q, q) {
						orphan = false
					}
				}
				if orphan {
					e.Violate("revert_orphans_subscription", "%s stream %d: at quiescence the last request for type %d (seq %d) lists %v but the watched names are %v; the missing ones were registered while a lower-priority server was in use and were never subscribed on this server", tr.name(), st.idx, t, last.seq, last.names, want)
					continue
				}
				wd.deferViol("names_converge", "%s stream %d: at quiescence the last request for type %d (seq %d) lists %v but the watched names are %v", tr.name(), st.idx, t, last.seq, last.names, want)
			}
		} else {
			for _, n := range last.names {
				if !wd.watchedThroughout(t, n, q, q) {
					wd.deferViol("names_converge", "%s stream %d: at quiescence the last request for type %d (seq %d) still lists %q which nobody watches", tr.name(), st.idx, t, last.seq, n)
				}
			}
		}
	}
}
