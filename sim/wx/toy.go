// Package wx is the xDS-client world: the real generic xDS client
// (internal/xds/clients/xdsclient) with toy resource types, talking to 1..3
// scripted management servers through a harness clients.Transport. No
// network, no grpc channel.
package wx

import (
	"fmt"
	"io"
	"strings"

	"google.golang.org/grpc/grpclog"
	"google.golang.org/grpc/internal/xds/clients/xdsclient"
)

func init() {
	grpclog.SetLoggerV2(grpclog.NewLoggerV2(io.Discard, io.Discard, io.Discard))
}

// Two toy resource types. Type 0 ("A") requires all resources in every
// state-of-the-world response (absence = deletion), type 1 ("B") does not.
var typeURLs = [2]string{"type.googleapis.com/wx.toy.A", "type.googleapis.com/wx.toy.B"}

const unknownTypeURL = "type.googleapis.com/wx.toy.Unknown"

var resNames = [3]string{"r0", "r1", "r2"}

// toyData is the decoded resource. Equal compares name and value only; the
// tag says which scripted response supplied the bytes and is not part of the
// resource's identity.
type toyData struct {
	name, val, tag string
	raw            []byte
}

func (d *toyData) Equal(o xdsclient.ResourceData) bool {
	od, ok := o.(*toyData)
	if !ok || od == nil {
		return false
	}
	return d.name == od.name && d.val == od.val
}
func (d *toyData) Bytes() []byte { return d.raw }

// Wire form of a toy resource: "name|val|tag|ok" or "name|val|tag|bad"; any
// other payload cannot be deserialised at all (no name known).
func encodeToy(name, val, tag string, bad bool) []byte {
	f := "ok"
	if bad {
		f = "bad"
	}
	return []byte(name + "|" + val + "|" + tag + "|" + f)
}

func parseToy(b []byte) (name, val, tag string, bad, ok bool) {
	p := strings.Split(string(b), "|")
	if len(p) != 4 || (p[3] != "ok" && p[3] != "bad") {
		return "", "", "", false, false
	}
	return p[0], p[1], p[2], p[3] == "bad", true
}

type toyDecoder struct{ typ int }

// Error texts carry tokens the oracles recognise: "wxjunk<tag>" for an
// undecodable resource, "wxbad<tag>:<name>" for a named invalid resource.
func (d toyDecoder) Decode(r *xdsclient.AnyProto, _ xdsclient.DecodeOptions) (*xdsclient.DecodeResult, error) {
	a := r.ToAny()
	name, val, tag, bad, ok := parseToy(a.Value)
	if !ok {
		return nil, fmt.Errorf("wxjunk<%s>", strings.TrimPrefix(string(a.Value), "junk|"))
	}
	if bad {
		return &xdsclient.DecodeResult{Name: name}, fmt.Errorf("wxbad<%s:%s>", tag, name)
	}
	return &xdsclient.DecodeResult{Name: name, Resource: &toyData{name: name, val: val, tag: tag, raw: a.Value}}, nil
}

func toyTypes() map[string]xdsclient.ResourceType {
	return map[string]xdsclient.ResourceType{
		typeURLs[0]: {TypeURL: typeURLs[0], TypeName: "ToyA", AllResourcesRequiredInSotW: true, Decoder: toyDecoder{0}},
		typeURLs[1]: {TypeURL: typeURLs[1], TypeName: "ToyB", AllResourcesRequiredInSotW: false, Decoder: toyDecoder{1}},
	}
}
