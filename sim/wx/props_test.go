package wx

import "google.golang.org/grpc/internal/zzverif/core"

func init() {
	for _, p := range []string{"C42", "C43", "C44"} {
		core.Register(p,
			func(seed uint64, tier string) *wxScenario { return genWX(seed, tier, p) },
			func(e *core.Env, s *wxScenario) { runWX(e, s, p) })
	}
}
