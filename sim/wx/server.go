package wx

import (
	"context"
	"errors"
	"fmt"
	"sort"
	"strings"
	"time"

	v3discoverypb "github.com/envoyproxy/go-control-plane/envoy/service/discovery/v3"
	"google.golang.org/grpc/internal/xds/clients"
	"google.golang.org/protobuf/proto"
	"google.golang.org/protobuf/types/known/anypb"
)

// ---- records ----

// reqRec is one DiscoveryRequest handed to Stream.Send.
type reqRec struct {
	seq     uint64
	ns      int64
	ok      bool // Send returned nil
	typ     int  // index into typeURLs, -1 for anything else
	url     string
	ver     string
	nonce   string
	names   []string // sorted
	dupName bool
	hasNode bool
	nodeID  string
	errMsg  string // ErrorDetail.Message ("" when no ErrorDetail)
	hasErr  bool
}

// respRec is one scripted message returned from Stream.Recv.
type respRec struct {
	seq      uint64 // Recv return
	ns       int64
	srv      int
	step     int
	tag      string
	kind     string // resp | unk
	typ      int
	ver      string
	nonce    string
	res      []resSpec
	rejected bool // at least one resource in it does not decode/validate
	tr       *ftransport
	st       *fstream
	gidx     int // 1-based index of the Recv call on the transport that returned it
}

// item is a stream-local event in order of occurrence.
type item struct {
	req       *reqRec
	resp      *respRec
	recvEnter uint64 // seq of a Recv entry
	fail      uint64 // seq at which Recv returned an error
	ns        int64
}

type fstream struct {
	tr      *ftransport
	idx     int
	ctx     context.Context
	broken  bool
	reqSeen [2]bool
	anyReq  bool
	reqCh   chan struct{}
	newSeq  uint64 // NewStream return
	newNs   int64
	items   []item
	nresp   int    // messages delivered on this stream
	failSeq uint64 // Recv returned an error (0: not yet)
	failNs  int64
}

type ftransport struct {
	w           *world
	srv         *srvState
	gen         int
	buildSeq    uint64
	buildNs     int64
	closeSeq    uint64 // 0 while open
	closeNs     int64
	closes      int
	streams     []*fstream
	recvEntries int
	// newStreamCalls/fails: seqs of NewStream calls and of failed returns.
	newCalls []uint64
	newFails []failRec
}

// failRec is a connectivity failure of a transport before any response was
// delivered on the stream concerned (NewStream error, or Recv error on a
// stream that delivered nothing).
type failRec struct {
	seq    uint64
	ns     int64
	tok    string
	next   uint64 // seq of the next NewStream call on the transport (0: none)
	nextNs int64
}

type srvState struct {
	idx       int
	spec      *serverSpec
	next      int // script cursor
	failNew   int
	lastNonce string
	gens      int
}

func (tr *ftransport) name() string { return fmt.Sprintf("s%d#%d", tr.srv.idx, tr.gen) }

// ---- clients.TransportBuilder ----

func (w *world) Build(si clients.ServerIdentifier) (clients.Transport, error) {
	var srv *srvState
	for _, s := range w.servers {
		if fmt.Sprintf("s%d", s.idx) == si.ServerURI {
			srv = s
		}
	}
	if srv == nil {
		return nil, fmt.Errorf("wx: unknown server %q", si.ServerURI)
	}
	tr := &ftransport{w: w, srv: srv, gen: srv.gens}
	srv.gens++
	w.e.Logf("build %s", tr.name())
	tr.buildSeq, tr.buildNs = w.e.Seq, w.e.SimNs()
	w.transports = append(w.transports, tr)
	return tr, nil
}

// ---- clients.Transport ----

func (tr *ftransport) NewStream(ctx context.Context, method string) (clients.Stream, error) {
	e := tr.w.e
	e.Logf("%s newstream call", tr.name())
	tr.newCalls = append(tr.newCalls, e.Seq)
	for i := range tr.newFails {
		if tr.newFails[i].next == 0 {
			tr.newFails[i].next, tr.newFails[i].nextNs = e.Seq, e.SimNs()
		}
	}
	if tr.closeSeq != 0 {
		e.Logf("%s newstream on closed transport", tr.name())
		return nil, errors.New("wx: transport closed")
	}
	if ctx.Err() != nil {
		return nil, ctx.Err()
	}
	if tr.srv.failNew > 0 {
		tr.srv.failNew--
		e.Fault("newstream_fail")
		tok := fmt.Sprintf("wxbreak<%s.new%d>", tr.name(), len(tr.newCalls))
		e.Logf("%s newstream fails %s", tr.name(), tok)
		tr.newFails = append(tr.newFails, failRec{seq: e.Seq, ns: e.SimNs(), tok: tok})
		return nil, errors.New(tok)
	}
	st := &fstream{tr: tr, idx: len(tr.streams), ctx: ctx, reqCh: make(chan struct{}, 1)}
	tr.streams = append(tr.streams, st)
	e.Logf("%s newstream ok -> stream %d", tr.name(), st.idx)
	st.newSeq, st.newNs = e.Seq, e.SimNs()
	return st, nil
}

func (tr *ftransport) Close() {
	e := tr.w.e
	e.Logf("close %s", tr.name())
	tr.closes++
	if tr.closeSeq == 0 {
		tr.closeSeq, tr.closeNs = e.Seq, e.SimNs()
	}
}

// ---- clients.Stream ----

func (st *fstream) Send(b []byte) error {
	e := st.tr.w.e
	var req v3discoverypb.DiscoveryRequest
	r := &reqRec{typ: -1}
	if err := proto.Unmarshal(b, &req); err != nil {
		e.Violate("request_undecodable", "%s stream %d: Send of bytes that are no DiscoveryRequest: %v", st.tr.name(), st.idx, err)
		return nil
	}
	r.url, r.ver, r.nonce = req.GetTypeUrl(), req.GetVersionInfo(), req.GetResponseNonce()
	for i, u := range typeURLs {
		if u == r.url {
			r.typ = i
		}
	}
	r.names = append([]string{}, req.GetResourceNames()...)
	sort.Strings(r.names)
	for i := 1; i < len(r.names); i++ {
		if r.names[i] == r.names[i-1] {
			r.dupName = true
		}
	}
	if req.GetNode() != nil {
		r.hasNode, r.nodeID = true, req.GetNode().GetId()
	}
	if req.GetErrorDetail() != nil {
		r.hasErr, r.errMsg = true, req.GetErrorDetail().GetMessage()
	}
	r.ok = !st.broken && st.ctx.Err() == nil && st.tr.closeSeq == 0
	em := ""
	if r.hasErr {
		em = fmt.Sprintf(" err=%q", r.errMsg)
	}
	e.Logf("%s stream %d send typ=%d ver=%q nonce=%q names=%v node=%v%s ok=%v", st.tr.name(), st.idx, r.typ, r.ver, r.nonce, r.names, r.hasNode, em, r.ok)
	r.seq, r.ns = e.Seq, e.SimNs()
	st.items = append(st.items, item{req: r})
	if !r.ok {
		return errors.New("wx: send on a broken stream")
	}
	if r.typ >= 0 {
		st.reqSeen[r.typ] = true
	}
	st.anyReq = true
	select {
	case st.reqCh <- struct{}{}:
	default:
	}
	return nil
}

func (st *fstream) fail(tok string) error {
	e := st.tr.w.e
	st.broken = true
	e.Logf("%s stream %d recv fails %s (delivered %d)", st.tr.name(), st.idx, tok, st.nresp)
	st.failSeq, st.failNs = e.Seq, e.SimNs()
	st.items = append(st.items, item{fail: e.Seq, ns: e.SimNs()})
	if st.nresp == 0 {
		st.tr.newFails = append(st.tr.newFails, failRec{seq: e.Seq, ns: e.SimNs(), tok: tok})
	}
	return errors.New(tok)
}

func (st *fstream) Recv() ([]byte, error) {
	tr := st.tr
	w := tr.w
	e := w.e
	tr.recvEntries++
	e.Logf("%s stream %d recv enter #%d", tr.name(), st.idx, tr.recvEntries)
	st.items = append(st.items, item{recvEnter: e.Seq, ns: e.SimNs()})
	w.onRecvEnter(tr)
	if st.broken {
		return nil, st.fail(fmt.Sprintf("wxbreak<%s.%d.again>", tr.name(), st.idx))
	}
	srv := tr.srv
nextStep:
	if srv.next >= len(srv.spec.Steps) {
		<-st.ctx.Done()
		return nil, st.fail(fmt.Sprintf("wxbreak<%s.%d.ctx>", tr.name(), st.idx))
	}
	k := srv.next
	sp := srv.spec.Steps[k]
	srv.next++
	if sp.DelayNs > 0 {
		t := time.NewTimer(time.Duration(sp.DelayNs))
		select {
		case <-t.C:
		case <-st.ctx.Done():
			t.Stop()
			return nil, st.fail(fmt.Sprintf("wxbreak<%s.%d.ctx>", tr.name(), st.idx))
		}
	}
	tag := fmt.Sprintf("s%d.%d", srv.idx, k)
	switch sp.Kind {
	case "break":
		srv.failNew += sp.FailNew
		if st.nresp == 0 {
			e.Fault("break_before_response")
		} else {
			e.Fault("break_after_response")
		}
		return nil, st.fail(fmt.Sprintf("wxbreak<%s>", tag))
	case "resp", "unk":
		typ := sp.Typ
		if typ < 0 || typ > 1 {
			typ = 0
		}
		// A management server answers requests: nothing of a type is sent on a
		// stream before a request for that type (any request for the unknown
		// type) arrived on that stream.
		if (sp.Kind == "resp" && !st.reqSeen[typ]) || (sp.Kind == "unk" && !st.anyReq) {
			// wait a while for such a request, then give the step up
			t := time.NewTimer(3 * time.Second)
			for (sp.Kind == "resp" && !st.reqSeen[typ]) || (sp.Kind == "unk" && !st.anyReq) {
				select {
				case <-st.reqCh:
					continue
				case <-t.C:
					e.Logf("%s stream %d step %s dropped: type never requested on this stream", tr.name(), st.idx, tag)
					goto nextStep
				case <-st.ctx.Done():
					t.Stop()
					return nil, st.fail(fmt.Sprintf("wxbreak<%s.%d.ctx>", tr.name(), st.idx))
				}
			}
			t.Stop()
		}
		if st.ctx.Err() != nil {
			return nil, st.fail(fmt.Sprintf("wxbreak<%s.%d.ctx>", tr.name(), st.idx))
		}
		nonce := "n" + tag
		if sp.DupNonce && srv.lastNonce != "" {
			nonce = srv.lastNonce
			e.Probe("dup_nonce")
		}
		srv.lastNonce = nonce
		rr := &respRec{srv: srv.idx, step: k, tag: tag, kind: sp.Kind, typ: typ, ver: fmt.Sprintf("v%d", sp.Ver), nonce: nonce, res: sp.Res, tr: tr, st: st, gidx: tr.recvEntries}
		resp := &v3discoverypb.DiscoveryResponse{VersionInfo: rr.ver, Nonce: nonce, TypeUrl: typeURLs[typ]}
		if sp.Kind == "unk" {
			rr.typ = -1
			resp.TypeUrl = unknownTypeURL
		}
		var desc []string
		for _, r := range sp.Res {
			var val []byte
			switch {
			case r.Junk:
				val = []byte("junk|" + tag)
				rr.rejected = true
				desc = append(desc, "junk")
			default:
				val = encodeToy(resName(r.N), fmt.Sprintf("%d", r.V), tag, r.Bad)
				if r.Bad {
					rr.rejected = true
					desc = append(desc, resName(r.N)+"=BAD")
				} else {
					desc = append(desc, fmt.Sprintf("%s=%d", resName(r.N), r.V))
				}
			}
			resp.Resources = append(resp.Resources, &anypb.Any{TypeUrl: resp.TypeUrl, Value: val})
		}
		b, err := proto.Marshal(resp)
		if err != nil {
			panic(err)
		}
		st.nresp++
		e.Logf("%s stream %d recv #%d returns %s %s typ=%d ver=%s nonce=%s [%s]", tr.name(), st.idx, rr.gidx, sp.Kind, tag, rr.typ, rr.ver, nonce, strings.Join(desc, " "))
		rr.seq, rr.ns = e.Seq, e.SimNs()
		st.items = append(st.items, item{resp: rr})
		w.resps[tag] = rr
		w.respList = append(w.respList, rr)
		return b, nil
	}
	// unknown step kind (shrunk scenario): treat as a no-op break
	return nil, st.fail(fmt.Sprintf("wxbreak<%s>", tag))
}

func resName(i int) string {
	if i < 0 || i >= len(resNames) {
		i = 0
	}
	return resNames[i]
}
