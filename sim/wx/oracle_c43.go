package wx

import (
	"fmt"
	"strings"
)

func (wd *world) findFail(tok string) *failRec {
	for _, tr := range wd.transports {
		for i := range tr.newFails {
			if tr.newFails[i].tok == "wxbreak<"+tok+">" {
				return &tr.newFails[i]
			}
		}
	}
	return nil
}

// view folds a callback history into what the watcher holds at the end:
// the tag of the resource it was last given, "" after a ResourceError (or
// when it never got anything). AmbientError leaves the resource in place.
func view(h []*cbRec) string {
	v := ""
	for _, c := range h {
		switch c.kind {
		case 'C':
			v = c.tag
		case 'R':
			v = ""
		}
	}
	return v
}

// checkWatchers: the order-independent C43 rules, then the reference model.
func (wd *world) checkWatchers() {
	e := wd.e
	for _, wt := range wd.watchers {
		var held *cbRec // last ResourceChanged not yet invalidated
		for _, c := range wt.hist {
			switch {
			case c.kind == 'C':
				rr := wd.resps[c.tag]
				ok := rr != nil && rr.kind == "resp" && rr.typ == wt.spec.Typ && rr.seq < c.seq
				if ok {
					ok = false
					for _, rs := range rr.res {
						if !rs.Junk && !rs.Bad && resName(rs.N) == wt.name && fmt.Sprintf("%s=%d", wt.name, rs.V) == c.val {
							ok = true
						}
					}
				}
				if !ok {
					e.Violate("changed_accepted_only", "watcher %d (type %d %s): ResourceChanged %s (seq %d) is no valid resource of that name read from a server before", wt.idx, wt.spec.Typ, wt.name, c, c.seq)
				}
				if held != nil && held.val == c.val {
					e.Violate("changed_duplicate", "watcher %d: ResourceChanged %s (seq %d) repeats the value it already holds from %s (seq %d) with no rejection or removal in between", wt.idx, c, c.seq, held, held.seq)
				}
				held = c
			case c.class == "bad":
				p := strings.SplitN(c.tok, ":", 2)
				rr := wd.resps[p[0]]
				ok := len(p) == 2 && rr != nil && rr.kind == "resp" && rr.typ == wt.spec.Typ && rr.seq < c.seq && p[1] == wt.name
				if ok {
					ok = false
					for _, rs := range rr.res {
						if rs.Bad && resName(rs.N) == wt.name {
							ok = true
						}
					}
				}
				if !ok {
					e.Violate("error_origin", "watcher %d (type %d %s): error callback %s (seq %d) does not stem from a rejected resource of that name", wt.idx, wt.spec.Typ, wt.name, c, c.seq)
				}
				held = nil
			case c.class == "junk":
				e.Violate("error_origin", "watcher %d: error callback %s (seq %d) blames an undecodable resource, which has no name", wt.idx, c, c.seq)
			case c.class == "conn":
				if f := wd.findFail(c.tok); f == nil || f.seq > c.seq {
					e.Violate("error_origin", "watcher %d: connectivity error %s (seq %d) matches no stream failure that happened before a response was read", wt.idx, c, c.seq)
				}
			default: // does-not-exist
				held = nil
			}
		}
	}
	// agreement at quiescence
	for typ := 0; typ < 2; typ++ {
		for _, name := range resNames {
			var first *watcher
			for _, wt := range wd.watchers {
				if wt.spec.Typ != typ || wt.name != name || wt.weSeq == 0 || wt.usSeq != 0 {
					continue
				}
				if first == nil {
					first = wt
					d, ok := wd.dump[fmt.Sprintf("%d/%s", typ, name)]
					if !ok {
						e.Violate("cache_dump_agree", "type %d %s is watched (watcher %d) but absent from DumpResources", typ, name, wt.idx)
					} else if v := view(wt.hist); (v != "") != d.cached || v != d.tag {
						e.Violate("cache_dump_agree", "type %d %s: watcher %d ends up holding %q; the client's cache holds cached=%v tag=%q", typ, name, wt.idx, v, d.cached, d.tag)
					}
					continue
				}
				e.Probe("agreement_checked")
				if a, b := view(first.hist), view(wt.hist); a != b {
					e.Violate("watchers_agree", "type %d %s: at quiescence watcher %d holds %q but watcher %d holds %q", typ, name, first.idx, a, wt.idx, b)
				}
			}
		}
	}
	wd.checkExpiryLiveness()
	wd.checkModel()
}

// checkExpiryLiveness (one server only): a resource that was requested on a
// stream that stayed up for longer than the watch expiry timeout, and that no
// response ever named, must have been reported as not existing.
func (wd *world) checkExpiryLiveness() {
	e := wd.e
	if len(wd.s.Servers) != 1 || len(wd.transports) == 0 {
		return
	}
	tr := wd.transports[len(wd.transports)-1]
	if tr.closeSeq != 0 && tr.closeSeq < wd.quietSeq || len(tr.streams) == 0 {
		return
	}
	st := tr.streams[len(tr.streams)-1]
	if st.failSeq != 0 && st.failSeq < wd.quietSeq {
		return
	}
	for _, wt := range wd.watchers {
		if wt.weSeq == 0 || wt.usSeq != 0 {
			continue
		}
		named := false
		for _, rr := range wd.respList {
			if rr.tr == tr && rr.kind == "resp" && rr.typ == wt.spec.Typ && respNames(rr)[wt.name] {
				named = true
			}
		}
		if named {
			continue
		}
		var t0 int64 = -1
		for _, it := range st.items {
			if q := it.req; q != nil && q.ok && q.typ == wt.spec.Typ && t0 < 0 {
				for _, n := range q.names {
					if n == wt.name {
						t0 = q.ns
					}
				}
			}
		}
		if t0 < 0 || wd.quietNs-t0 <= wd.s.ExpiryNs {
			continue
		}
		e.Probe("expiry_liveness_checked")
		got := false
		for _, c := range wt.hist {
			if c.kind == 'R' && c.class == "other" {
				got = true
			}
		}
		if !got {
			e.Violate("expiry_liveness", "watcher %d (type %d %s): requested at t=%d on a stream that is still up at t=%d, never answered, expiry %d ns, but no does-not-exist error was delivered", wt.idx, wt.spec.Typ, wt.name, t0, wd.quietNs, wd.s.ExpiryNs)
		}
	}
}

// checkFallback: order-independent C44 rules (the model does the rest).
func (wd *world) checkFallback() {
	e := wd.e
	for _, tr := range wd.transports {
		if tr.srv.idx == 0 {
			continue
		}
		ok := false
		for _, o := range wd.transports {
			if o.srv.idx >= tr.srv.idx {
				continue
			}
			for _, f := range o.newFails {
				if f.seq < tr.buildSeq {
					ok = true
				}
			}
		}
		if !ok {
			e.Violate("fallback_without_failure", "%s was created (seq %d) although no higher-priority server had failed before delivering a response", tr.name(), tr.buildSeq)
			continue
		}
		// The switch must be caused by a failure of the server in use, i.e.
		// of the next-higher-priority server (servers are taken in order), and
		// it happens while that failure is being handled (before the failed
		// transport tries its next stream).
		ok = false
		for _, o := range wd.transports {
			if o.srv.idx != tr.srv.idx-1 {
				continue
			}
			for _, f := range o.newFails {
				if f.seq < tr.buildSeq && (f.next == 0 || tr.buildSeq < f.next) {
					ok = true
				}
			}
		}
		if !ok {
			e.Violate("fallback_trigger", "%s was created (seq %d) although the server in use (s%d) had not just failed before delivering a response", tr.name(), tr.buildSeq, tr.srv.idx-1)
		}
	}
}
