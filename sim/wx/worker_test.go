package wx

import (
	"testing"

	"google.golang.org/grpc/internal/zzverif/core"
)

func TestSimWorker(t *testing.T) {
	// The scenarios of this world reach many lazily initialised process-global
	// paths (protobuf message types, fmt/reflect caches, error wrapping) only
	// in some runs (NACK, fallback, unknown type ...): more throw-away runs than
	// the default make every reported run start from the same warmed state.
	core.Warmups = 16
	core.WorkerMain(t)
}
