package wx

import (
	"fmt"
	"math"
	"sort"
	"strings"
)

// Reference model for C43/C44.
//
// The client's authority processes a sequence of atomic events: watch,
// unwatch, response read from a server, connectivity failure of a server
// (stream ended before any response), watch expiry. The harness sees when
// each event was handed to the client only as a window of event sequence
// numbers (a WatchResource call is an interval; a response is enqueued
// between the return of Recv and the next call of Recv; ...). The oracle
// searches for an order of the events, consistent with those windows, under
// which a sequential model of the property statement (C43) and of gRFC A71
// (C44) produces exactly the observed per-watcher callback sequences, the
// observed transport creations and the observed transport closes. Cross
// watcher order is not compared.

const (
	evWatch = iota
	evUnwatch
	evResp
	evFail
	evExpiry
)

type mev struct {
	kind     int
	w        *watcher
	rr       *respRec
	tr       *ftransport
	tok      string
	typ      int
	name     string
	loSeq    uint64
	hiSeq    uint64
	loNs     int64
	hiNs     int64
	optional bool
	stale    bool // expiry of a timer that had been stopped (only used when diagnosing)
	desc     string
}

// Deviations of the client from the statement that were found with this
// model. When the strict search fails, the search is repeated tolerating
// them, and a contradiction that disappears is reported under the name of the
// deviation instead of the generic oracle.
const (
	relaxStaleTimer    = 1 << iota // a watch-expiry timer fires although it was stopped
	relaxForeignExpiry             // expiry reported by a server that is not in use is honoured
	relaxInactiveFail              // failure of a server other than the active one triggers fallback
)

var relaxNames = map[int]string{
	relaxStaleTimer:    "expiry_after_timer_stopped",
	relaxForeignExpiry: "expiry_from_server_not_in_use",
	relaxInactiveFail:  "fallback_on_inactive_server_failure",
}

const (
	stRequested = iota
	stAcked
	stNacked
	stNotExist
)

type mkey struct {
	typ  int
	name string
}

type mres struct {
	watchers []int
	has      bool
	val, tag string
	status   int
	errTok   string
}

type mstate struct {
	res     map[mkey]*mres
	active  int
	gen     [3]int // generation of the live transport per server, -1: none
	nextGen [3]int
	pos     []int // per watcher: callbacks explained so far
	bpos    int   // observed builds explained
	cpos    int   // observed closes explained
}

func (s *mstate) clone() *mstate {
	n := &mstate{res: make(map[mkey]*mres, len(s.res)), active: s.active, gen: s.gen, nextGen: s.nextGen, bpos: s.bpos, cpos: s.cpos}
	for k, v := range s.res {
		c := *v
		c.watchers = append([]int(nil), v.watchers...)
		n.res[k] = &c
	}
	n.pos = append([]int(nil), s.pos...)
	return n
}

func (s *mstate) key() string {
	var sb strings.Builder
	ks := make([]mkey, 0, len(s.res))
	for k := range s.res {
		ks = append(ks, k)
	}
	sort.Slice(ks, func(i, j int) bool {
		if ks[i].typ != ks[j].typ {
			return ks[i].typ < ks[j].typ
		}
		return ks[i].name < ks[j].name
	})
	for _, k := range ks {
		r := s.res[k]
		ws := append([]int(nil), r.watchers...)
		sort.Ints(ws)
		fmt.Fprintf(&sb, "%d%s:%v:%v:%s:%s:%d:%s;", k.typ, k.name, ws, r.has, r.val, r.tag, r.status, r.errTok)
	}
	fmt.Fprintf(&sb, "|%d|%v|%v|%v|%d|%d", s.active, s.gen, s.nextGen, s.pos, s.bpos, s.cpos)
	return sb.String()
}

type model struct {
	wd       *world
	evs      []*mev
	closes   []*ftransport // transports closed before client Close, in order
	nsrv     int
	relax    int // diagnosis only: behaviours of known defects the model tolerates
	budget   int
	memo     map[string]bool
	best     int
	bestMsg  string
	bestKind string
}

func (wd *world) nextRecvEnter(tr *ftransport, after uint64) (uint64, int64) {
	bs, bn := inf, int64(math.MaxInt64)
	for _, st := range tr.streams {
		for _, it := range st.items {
			if it.recvEnter > after && it.recvEnter < bs {
				bs, bn = it.recvEnter, it.ns
			}
		}
	}
	return bs, bn
}

func (wd *world) buildEvents(stale bool) []*mev {
	var evs []*mev
	for _, wt := range wd.watchers {
		if wt.wsSeq == 0 {
			continue
		}
		ev := &mev{kind: evWatch, w: wt, typ: wt.spec.Typ, name: wt.name, loSeq: wt.wsSeq, hiSeq: wt.weSeq, loNs: wt.wsNs, hiNs: wt.weNs, desc: fmt.Sprintf("watch w%d", wt.idx)}
		if wt.weSeq == 0 {
			ev.hiSeq, ev.hiNs = inf, math.MaxInt64
		}
		evs = append(evs, ev)
		if wt.usSeq != 0 {
			ev := &mev{kind: evUnwatch, w: wt, typ: wt.spec.Typ, name: wt.name, loSeq: wt.usSeq, hiSeq: wt.ueSeq, loNs: wt.usNs, hiNs: wt.ueNs, desc: fmt.Sprintf("unwatch w%d", wt.idx)}
			if wt.ueSeq == 0 {
				ev.hiSeq, ev.hiNs = inf, math.MaxInt64
			}
			evs = append(evs, ev)
		}
	}
	for _, rr := range wd.respList {
		if rr.kind != "resp" || rr.seq >= wd.closeSeq {
			continue
		}
		hs, hn := wd.nextRecvEnter(rr.tr, rr.seq)
		ev := &mev{kind: evResp, rr: rr, tr: rr.tr, typ: rr.typ, loSeq: rr.seq, loNs: rr.ns, hiSeq: hs, hiNs: hn, desc: "resp " + rr.tag}
		ev.optional = hs >= wd.exemptFrom(rr.tr)
		evs = append(evs, ev)
	}
	for _, tr := range wd.transports {
		ex := wd.exemptFrom(tr)
		for _, f := range tr.newFails {
			if f.seq >= wd.closeSeq || strings.HasSuffix(f.tok, ".ctx>") || strings.HasSuffix(f.tok, ".again>") {
				continue
			}
			ev := &mev{kind: evFail, tr: tr, tok: strings.TrimSuffix(strings.TrimPrefix(f.tok, "wxbreak<"), ">"), loSeq: f.seq, loNs: f.ns, hiSeq: f.next, hiNs: f.nextNs, desc: "fail " + f.tok}
			if f.next == 0 {
				ev.hiSeq, ev.hiNs = inf, math.MaxInt64
			}
			ev.optional = ev.hiSeq >= ex
			evs = append(evs, ev)
		}
		raced := map[string][]int64{}
		for _, st := range tr.streams {
			for typ := 0; typ < 2; typ++ {
				prev := map[string]bool{}
				for _, it := range st.items {
					q := it.req
					if q == nil || !q.ok || q.typ != typ {
						continue
					}
					cur := map[string]bool{}
					for _, n := range q.names {
						cur[n] = true
						if prev[n] {
							continue
						}
						fire := q.ns + wd.s.ExpiryNs
						if fire > wd.quietNs {
							continue
						}
						// The timer is stopped by a stream failure, by the channel
						// being released or by a response naming the resource.
						cancelNs := int64(math.MaxInt64)
						if st.failSeq != 0 && st.failNs < cancelNs {
							cancelNs = st.failNs
						}
						if tr.closeSeq != 0 && tr.closeNs < cancelNs {
							cancelNs = tr.closeNs
						}
						for _, it2 := range st.items {
							if it2.resp != nil && it2.resp.kind == "resp" && it2.resp.typ == typ && it2.resp.seq > q.seq && respNames(it2.resp)[n] && it2.resp.ns < cancelNs {
								cancelNs = it2.resp.ns
							}
						}
						ev := &mev{kind: evExpiry, tr: tr, typ: typ, name: n, loNs: fire, hiNs: fire, optional: true, desc: fmt.Sprintf("expiry %s typ=%d %s @%d", tr.name(), typ, n, fire)}
						switch {
						case cancelNs > fire:
							// fires before anything stops it
						case cancelNs == fire:
							// stopped at the very instant it fires: either outcome is
							// legal, but the stop may come too late for a client that
							// does not re-check (diagnosis of expiry_after_timer_stopped)
							raced[fmt.Sprintf("%s/%d/%s", tr.name(), typ, n)] = append(raced[fmt.Sprintf("%s/%d/%s", tr.name(), typ, n)], fire)
						default:
							// stopped earlier: only a timer leaked by such a race (armed
							// at the instant the raced one fired) can still go off
							ev.stale = true
							leaked := false
							for _, f := range raced[fmt.Sprintf("%s/%d/%s", tr.name(), typ, n)] {
								if f == q.ns {
									leaked = true
								}
							}
							if !stale || !leaked {
								continue
							}
						}
						evs = append(evs, ev)
					}
					prev = cur
				}
			}
		}
	}
	return evs
}

// respNames: names of the resources a response carries (valid or invalid).
func respNames(rr *respRec) map[string]bool {
	m := map[string]bool{}
	for _, r := range rr.res {
		if !r.Junk {
			m[resName(r.N)] = true
		}
	}
	return m
}

// before: x was certainly handed to the client before y.
func before(x, y *mev) bool {
	switch {
	case x.kind == evExpiry && y.kind == evExpiry:
		return x.loNs < y.loNs
	case x.kind == evExpiry:
		return x.hiNs < y.loNs
	case y.kind == evExpiry:
		return x.hiNs < y.loNs
	default:
		return x.hiSeq < y.loSeq
	}
}

func (m *model) score(s *mstate) int {
	n := s.bpos + s.cpos
	for _, p := range s.pos {
		n += p
	}
	return n
}

func (m *model) fail(s *mstate, kind, msg string) {
	if sc := m.score(s); sc >= m.best {
		m.best, m.bestMsg, m.bestKind = sc, msg, kind
	}
}

// ---- outputs ----

func (m *model) emitCB(s *mstate, w int, kind byte, tag, class, tok string, ev *mev) bool {
	wt := m.wd.watchers[w]
	if s.pos[w] >= len(wt.hist) {
		m.fail(s, "cb", fmt.Sprintf("after %q the model expects callback %s for watcher %d, which received nothing more", ev.desc, cbString(kind, tag, class, tok), w))
		return false
	}
	c := wt.hist[s.pos[w]]
	ok := c.kind == kind
	if ok && kind == 'C' {
		ok = c.tag == tag
	} else if ok {
		ok = c.class == class && c.tok == tok
	}
	if ok && ev.kind != evExpiry && c.seq < ev.loSeq {
		ok = false
	}
	if !ok {
		m.fail(s, "cb", fmt.Sprintf("after %q the model expects callback %s for watcher %d, whose next observed callback (#%d, seq %d) is %s", ev.desc, cbString(kind, tag, class, tok), w, s.pos[w], c.seq, c))
		return false
	}
	s.pos[w]++
	return true
}

func cbString(kind byte, tag, class, tok string) string {
	if kind == 'C' {
		return fmt.Sprintf("C(%s)", tag)
	}
	return fmt.Sprintf("%c(%s %s)", kind, class, tok)
}

func (m *model) emitBuild(s *mstate, srv int, ev *mev) bool {
	if s.bpos >= len(m.wd.transports) {
		m.fail(s, "fb", fmt.Sprintf("after %q the model expects a transport to server %d to be created; none was", ev.desc, srv))
		return false
	}
	tr := m.wd.transports[s.bpos]
	if tr.srv.idx != srv || tr.gen != s.nextGen[srv] || (ev.kind != evExpiry && tr.buildSeq < ev.loSeq) {
		m.fail(s, "fb", fmt.Sprintf("after %q the model expects a transport to server %d to be created; the next transport created is %s (seq %d)", ev.desc, srv, tr.name(), tr.buildSeq))
		return false
	}
	s.gen[srv] = tr.gen
	s.nextGen[srv]++
	s.bpos++
	return true
}

func (m *model) emitClose(s *mstate, srv int, ev *mev) bool {
	if s.cpos >= len(m.closes) {
		m.fail(s, "fb", fmt.Sprintf("after %q the model expects the transport to server %d to be closed; it was not (before the client was closed)", ev.desc, srv))
		return false
	}
	tr := m.closes[s.cpos]
	if tr.srv.idx != srv || tr.gen != s.gen[srv] {
		m.fail(s, "fb", fmt.Sprintf("after %q the model expects the transport s%d#%d to be closed; the next transport closed is %s", ev.desc, srv, s.gen[srv], tr.name()))
		return false
	}
	s.gen[srv] = -1
	s.cpos++
	return true
}

func (m *model) alive(s *mstate, tr *ftransport) bool {
	return s.gen[tr.srv.idx] == tr.gen
}

func (m *model) errorToAll(s *mstate, class, tok string, ev *mev) bool {
	for _, r := range s.res {
		for _, w := range r.watchers {
			k := byte('R')
			if r.has {
				k = 'A'
			}
			if !m.emitCB(s, w, k, "", class, tok, ev) {
				return false
			}
		}
	}
	return true
}

// apply returns the successor states of s under ev (none: the observations
// contradict the model on this path).
func (m *model) apply(s0 *mstate, ev *mev) []*mstate {
	s := s0.clone()
	switch ev.kind {
	case evWatch:
		k := mkey{ev.typ, ev.name}
		if s.active < 0 {
			if !m.emitBuild(s, 0, ev) {
				return nil
			}
			s.active = 0
		}
		r := s.res[k]
		if r == nil {
			r = &mres{status: stRequested}
			s.res[k] = r
		}
		r.watchers = append(r.watchers, ev.w.idx)
		if r.has && !m.emitCB(s, ev.w.idx, 'C', r.tag, "", "", ev) {
			return nil
		}
		if r.status == stNacked {
			kd := byte('R')
			if r.has {
				kd = 'A'
			}
			if !m.emitCB(s, ev.w.idx, kd, "", "bad", r.errTok, ev) {
				return nil
			}
		}
		if r.status == stNotExist && !m.emitCB(s, ev.w.idx, 'R', "", "other", "", ev) {
			return nil
		}
		return []*mstate{s}

	case evUnwatch:
		k := mkey{ev.typ, ev.name}
		r := s.res[k]
		if r == nil {
			return []*mstate{s}
		}
		for i, w := range r.watchers {
			if w == ev.w.idx {
				r.watchers = append(r.watchers[:i], r.watchers[i+1:]...)
				break
			}
		}
		if len(r.watchers) == 0 {
			delete(s.res, k)
		}
		if len(s.res) == 0 {
			for i := 0; i < m.nsrv; i++ {
				if s.gen[i] >= 0 && !m.emitClose(s, i, ev) {
					return nil
				}
			}
			s.active = -1
		}
		return []*mstate{s}

	case evResp:
		var out []*mstate
		j := ev.tr.srv.idx
		if s.gen[j] < 0 || s.active < 0 {
			return []*mstate{s} // read from a channel already released: dropped
		}
		if ev.optional || !m.alive(s, ev.tr) {
			// refused while the channel shuts down; or handed over by a
			// channel instance that has been released since, while a new
			// channel to the same server exists (the client tells servers
			// apart, not channel instances): either outcome is accepted.
			out = append(out, s0.clone())
		}
		if j > s.active {
			return append(out, s) // below the active server: ignored
		}
		if j < s.active {
			// a higher-priority server is back: revert, release the others
			for i := j + 1; i < m.nsrv; i++ {
				if s.gen[i] >= 0 && !m.emitClose(s, i, ev) {
					return out
				}
			}
			s.active = j
		}
		rr := ev.rr
		present := map[string]bool{}
		for _, rs := range rr.res {
			if rs.Junk {
				continue
			}
			name := resName(rs.N)
			present[name] = true
			r := s.res[mkey{rr.typ, name}]
			if r == nil {
				continue
			}
			if rs.Bad {
				tok := rr.tag + ":" + name
				for _, w := range r.watchers {
					kd := byte('R')
					if r.has {
						kd = 'A'
					}
					if !m.emitCB(s, w, kd, "", "bad", tok, ev) {
						return out
					}
				}
				r.status, r.errTok = stNacked, tok
				continue
			}
			val := fmt.Sprintf("%s=%d", name, rs.V)
			if !r.has || r.val != val || r.status == stNacked {
				r.has, r.val, r.tag = true, val, rr.tag
				for _, w := range r.watchers {
					if !m.emitCB(s, w, 'C', rr.tag, "", "", ev) {
						return out
					}
				}
			}
			r.status, r.errTok = stAcked, ""
		}
		if rr.typ == 0 && !m.wd.s.Servers[j].IgnoreDel {
			for k, r := range s.res {
				if k.typ != 0 || !r.has || present[k.name] || r.status == stNotExist {
					continue
				}
				r.has, r.val, r.tag, r.status, r.errTok = false, "", "", stNotExist, ""
				for _, w := range r.watchers {
					if !m.emitCB(s, w, 'R', "", "other", "", ev) {
						return out
					}
				}
			}
		}
		return append(out, s)

	case evFail:
		j := ev.tr.srv.idx
		if s.active < 0 {
			return []*mstate{s}
		}
		var out []*mstate
		if ev.optional || !m.alive(s, ev.tr) {
			// (a failure reported by a channel instance released since is
			// attributed to the server, see evResp)
			out = append(out, s0.clone())
		}
		must, may := false, false
		for _, r := range s.res {
			if r.status == stRequested {
				must = true
			}
			if !r.has && r.status == stNacked {
				may = true // no cached value, but an answer was seen: the statement allows either
			}
		}
		// Strict: only a failure of the active server moves the client to the
		// next server (channels then always form a prefix of the list).
		// Diagnosis of fallback_on_inactive_server_failure: a failure of any
		// server j creates the first server after j that has no channel.
		next := -1
		if j == s.active && s.active+1 < m.nsrv {
			next = s.active + 1
		}
		if m.relax&relaxInactiveFail != 0 {
			next = -1
			for i := j + 1; i < m.nsrv; i++ {
				if s.gen[i] < 0 {
					next = i
					break
				}
			}
		}
		if next >= 0 && (must || may) {
			f := s.clone()
			if m.emitBuild(f, next, ev) {
				f.active = next
				out = append(out, f)
			}
			if must {
				return out
			}
		}
		if !m.errorToAll(s, "conn", ev.tok, ev) {
			return out
		}
		return append(out, s)

	case evExpiry:
		out := []*mstate{s0.clone()} // the timer may have been stopped
		r := s.res[mkey{ev.typ, ev.name}]
		// the timer's report counts if its server is in use: it has a channel
		// and is not below the active one (as for responses and failures the
		// client tells servers apart, not channel instances)
		if j := ev.tr.srv.idx; r == nil || s.active < 0 || ((s.gen[j] < 0 || j > s.active) && m.relax&relaxForeignExpiry == 0) {
			return out
		}
		r.has, r.val, r.tag, r.status, r.errTok = false, "", "", stNotExist, ""
		for _, w := range r.watchers {
			if !m.emitCB(s, w, 'R', "", "other", "", ev) {
				return out
			}
		}
		return append(out, s)
	}
	return nil
}

func (m *model) final(s *mstate) bool {
	for i, wt := range m.wd.watchers {
		if s.pos[i] != len(wt.hist) {
			c := wt.hist[s.pos[i]]
			m.fail(s, "cb", fmt.Sprintf("watcher %d received callback #%d %s (seq %d) which no event explains", i, s.pos[i], c, c.seq))
			return false
		}
	}
	if s.bpos != len(m.wd.transports) {
		tr := m.wd.transports[s.bpos]
		m.fail(s, "fb", fmt.Sprintf("transport %s was created (seq %d) although no event calls for it", tr.name(), tr.buildSeq))
		return false
	}
	if s.cpos != len(m.closes) {
		tr := m.closes[s.cpos]
		m.fail(s, "fb", fmt.Sprintf("transport %s was closed (seq %d) although no event calls for it", tr.name(), tr.closeSeq))
		return false
	}
	return true
}

func (m *model) search(s *mstate, done uint64) bool {
	if done == uint64(1)<<uint(len(m.evs))-1 {
		return m.final(s)
	}
	if m.budget <= 0 {
		return false
	}
	m.budget--
	key := fmt.Sprintf("%x/%s", done, s.key())
	if m.memo[key] {
		return false
	}
	for i, x := range m.evs {
		if done&(1<<uint(i)) != 0 {
			continue
		}
		blocked := false
		for j, y := range m.evs {
			if j != i && done&(1<<uint(j)) == 0 && before(y, x) {
				blocked = true
				break
			}
		}
		if blocked {
			continue
		}
		for _, n := range m.apply(s, x) {
			if m.search(n, done|1<<uint(i)) {
				return true
			}
		}
	}
	m.memo[key] = true
	return false
}

// runModel searches once; relax selects tolerated deviations.
func (wd *world) runModel(relax int) *model {
	m := &model{wd: wd, nsrv: len(wd.s.Servers), relax: relax, budget: modelBudget, memo: map[string]bool{}}
	m.evs = wd.buildEvents(relax&relaxStaleTimer != 0)
	sort.SliceStable(m.evs, func(i, j int) bool {
		a, b := m.evs[i], m.evs[j]
		if a.loNs != b.loNs {
			return a.loNs < b.loNs
		}
		return a.loSeq < b.loSeq
	})
	for _, tr := range wd.transports {
		if tr.closeSeq != 0 && tr.closeSeq < wd.closeSeq {
			m.closes = append(m.closes, tr)
		}
	}
	sort.Slice(m.closes, func(i, j int) bool { return m.closes[i].closeSeq < m.closes[j].closeSeq })
	return m
}

func (m *model) run() (ok, decided bool) {
	if len(m.evs) > 62 {
		return false, false
	}
	s := &mstate{res: map[mkey]*mres{}, active: -1, gen: [3]int{-1, -1, -1}, pos: make([]int, len(m.wd.watchers))}
	if m.search(s, 0) {
		return true, true
	}
	return false, m.budget > 0
}

// checkModel runs the search and reports the deepest contradiction.
func (wd *world) checkModel() {
	e := wd.e
	m := wd.runModel(0)
	ok, decided := m.run()
	e.ProbeN("model_nodes", modelBudget-m.budget)
	if modelBudget-m.budget > 20000 {
		e.Probe("model_search_large")
	}
	if !decided {
		e.Probe("model_undecided")
		return
	}
	if ok {
		e.Probe("model_explained")
		return
	}
	var evd []string
	for _, x := range m.evs {
		evd = append(evd, x.desc)
	}
	detail := fmt.Sprintf("closest attempt: %s   [events: %s]", m.bestMsg, strings.Join(evd, "; "))
	// diagnosis: does tolerating a known deviation explain the run?
	for _, relax := range []int{1, 2, 4, 3, 5, 6, 7} {
		if relax&relaxInactiveFail != 0 && len(wd.s.Servers) < 3 {
			continue
		}
		if relax&relaxForeignExpiry != 0 && len(wd.s.Servers) < 2 {
			continue
		}
		rm := wd.runModel(relax)
		rm.budget = modelBudget / 4
		if ok, _ := rm.run(); !ok {
			continue
		}
		wd.explainedBy = relax
		for _, bit := range []int{relaxStaleTimer, relaxForeignExpiry, relaxInactiveFail} {
			if relax&bit != 0 {
				e.Violate(relaxNames[bit], "the observations have no explanation under the model, but they have one if the client is allowed the deviation %q; strict model: %s", relaxNames[bit], detail)
			}
		}
		return
	}
	oracle := "watcher_history"
	if m.bestKind == "fb" {
		oracle = "fallback_model"
	}
	e.Violate(oracle, "no order of the events explains the observations; %s", detail)
}

// modelBudget bounds the search (nodes). A run whose search does not finish is
// counted under the probe model_undecided and not judged by the model.
const modelBudget = 60000
