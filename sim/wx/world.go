package wx

import (
	"fmt"
	"sort"
	"strings"
	"sync"
	"testing/synctest"
	"time"

	v3statuspb "github.com/envoyproxy/go-control-plane/envoy/service/status/v3"
	"google.golang.org/grpc/internal/xds/clients"
	"google.golang.org/grpc/internal/xds/clients/xdsclient"
	"google.golang.org/grpc/internal/zzverif/core"
	"google.golang.org/protobuf/proto"
)

// ---- scenario ----

type resSpec struct {
	N    int  `json:"n"` // index into resNames
	V    int  `json:"v"` // value
	Bad  bool `json:"bad,omitempty"`
	Junk bool `json:"junk,omitempty"` // cannot be deserialised at all (no name)
}

type step struct {
	Kind     string    `json:"kind"` // resp | unk | break
	DelayNs  int64     `json:"delay_ns,omitempty"`
	Typ      int       `json:"typ,omitempty"`
	Ver      int       `json:"ver,omitempty"`
	DupNonce bool      `json:"dup_nonce,omitempty"` // reuse the previous nonce of this server
	Res      []resSpec `json:"res,omitempty"`
	FailNew  int       `json:"fail_new,omitempty"` // break: that many following NewStream calls fail
}

type serverSpec struct {
	IgnoreDel bool   `json:"ignore_del,omitempty"`
	InitFail  int    `json:"init_fail,omitempty"` // NewStream failures from the start
	Steps     []step `json:"steps"`
}

type watcherSpec struct {
	Typ    int   `json:"typ"`
	N      int   `json:"n"`
	SlowNs int64 `json:"slow_ns,omitempty"` // every callback takes that long before done()
	Async  bool  `json:"async,omitempty"`   // callback returns at once, done() is called later from another goroutine
}

type actorOp struct {
	Kind string `json:"kind"` // watch | unwatch | sleep
	W    int    `json:"w,omitempty"`
	Ns   int64  `json:"ns,omitempty"`
}

type wxScenario struct {
	Sched    core.Sched    `json:"sched"`
	ExpiryNs int64         `json:"expiry_ns"`
	Servers  []serverSpec  `json:"servers"`
	Watchers []watcherSpec `json:"watchers"`
	Actors   [][]actorOp   `json:"actors"`
}

func (s *wxScenario) SchedP() *core.Sched { return &s.Sched }

// tailNs: idle time after the last actor finished, longer than anything the
// scenario can still have pending (script delays, slow callbacks, watch
// expiry, reconnect backoff after a bounded number of failed attempts).
func (s *wxScenario) tailNs() int64 {
	t := 400*sec + 20*s.ExpiryNs
	for _, sv := range s.Servers {
		for _, st := range sv.Steps {
			t += 4 * st.DelayNs
		}
	}
	for _, w := range s.Watchers {
		t += 40 * w.SlowNs
	}
	return t
}

func (s *wxScenario) Shape() string {
	ns, nb := 0, 0
	for _, sv := range s.Servers {
		ns += len(sv.Steps)
		for _, st := range sv.Steps {
			if st.Kind == "break" {
				nb++
			}
		}
	}
	no := 0
	for _, a := range s.Actors {
		no += len(a)
	}
	return fmt.Sprintf("srv=%d steps=%d breaks=%d w=%d actors=%d ops=%d", len(s.Servers), ns, nb, len(s.Watchers), len(s.Actors), no)
}

func (s *wxScenario) Validate() error {
	if len(s.Servers) < 1 || len(s.Servers) > 3 {
		return fmt.Errorf("1..3 servers")
	}
	if s.ExpiryNs <= 0 {
		return fmt.Errorf("expiry must be positive")
	}
	for _, w := range s.Watchers {
		if w.Typ < 0 || w.Typ > 1 || w.N < 0 || w.N >= len(resNames) {
			return fmt.Errorf("bad watcher")
		}
	}
	owner := map[int]int{}
	for ai, a := range s.Actors {
		for _, op := range a {
			switch op.Kind {
			case "watch", "unwatch":
				if op.W < 0 || op.W >= len(s.Watchers) {
					return fmt.Errorf("watcher index")
				}
				if o, ok := owner[op.W]; ok && o != ai {
					return fmt.Errorf("watcher %d used by two actors", op.W)
				}
				owner[op.W] = ai
			case "sleep":
			default:
				return fmt.Errorf("bad op")
			}
		}
	}
	for _, sv := range s.Servers {
		for _, st := range sv.Steps {
			if st.Typ < 0 || st.Typ > 1 {
				return fmt.Errorf("bad step type")
			}
			for _, r := range st.Res {
				if r.N < 0 || r.N >= len(resNames) {
					return fmt.Errorf("bad resource index")
				}
			}
		}
	}
	return nil
}

// ---- run-time state ----

type cbRec struct {
	w       *watcher
	idx     int
	kind    byte // 'C' ResourceChanged, 'R' ResourceError, 'A' AmbientError
	tag     string
	val     string
	class   string // bad | junk | conn | other   (errors)
	tok     string
	seq     uint64
	ns      int64
	doneSeq uint64
	retSeq  uint64
}

func (c *cbRec) String() string {
	switch c.kind {
	case 'C':
		return fmt.Sprintf("C(%s=%s)", c.tag, c.val)
	default:
		return fmt.Sprintf("%c(%s %s)", c.kind, c.class, c.tok)
	}
}

type watcher struct {
	wd      *world
	idx     int
	spec    watcherSpec
	name    string
	hist    []*cbRec
	wsSeq   uint64 // WatchResource called
	weSeq   uint64 // WatchResource returned
	usSeq   uint64 // cancel called
	ueSeq   uint64 // cancel returned
	wsNs    int64
	weNs    int64
	usNs    int64
	ueNs    int64
	cancel  func()
	running int // callbacks currently executing (serial delivery check)
}

type world struct {
	e          *core.Env
	s          *wxScenario
	prop       string
	servers    []*srvState
	transports []*ftransport
	resps      map[string]*respRec
	respList   []*respRec
	watchers   []*watcher
	wg         sync.WaitGroup // async done() goroutines
	closeSeq   uint64         // client.Close called
	quietSeq   uint64         // quiescence observed
	quietNs    int64
	dump       map[string]dumpRec // "typ/name" -> cache at quiescence
	// explainedBy: deviations (relax bits) under which the reference model
	// explains the run although the strict model does not.
	explainedBy int
	// deferred: liveness/subscription findings that are reported after the
	// model has run: if the run is only explicable by the known deviation
	// "fallback on a failure of a server that is not the active one" (which
	// leaves the client with an active server that is not the lowest-priority
	// one in use), they are its consequences and are reported under its name.
	deferred []deferredViol
}

type deferredViol struct{ oracle, msg string }

func (wd *world) deferViol(oracle, format string, a ...any) {
	wd.deferred = append(wd.deferred, deferredViol{oracle, fmt.Sprintf(format, a...)})
}

type dumpRec struct {
	status string
	tag    string
	val    string
	cached bool
}

func (w *world) onRecvEnter(tr *ftransport) {}

// ---- watcher callbacks ----

func classify(err error) (class, tok string) {
	s := err.Error()
	for _, c := range []struct{ pre, class string }{{"wxbad<", "bad"}, {"wxjunk<", "junk"}, {"wxbreak<", "conn"}} {
		if i := strings.Index(s, c.pre); i >= 0 {
			rest := s[i+len(c.pre):]
			if j := strings.Index(rest, ">"); j >= 0 {
				return c.class, rest[:j]
			}
		}
	}
	return "other", ""
}

func (wt *watcher) deliver(c *cbRec, done func()) {
	wd := wt.wd
	e := wd.e
	c.w, c.idx = wt, len(wt.hist)
	e.Logf("w%d cb %s", wt.idx, c.String())
	c.seq, c.ns = e.Seq, e.SimNs()
	wt.hist = append(wt.hist, c)
	if wt.running > 0 {
		e.Violate("callbacks_serial", "watcher %d: callback %s invoked while another callback of the same watcher is still executing", wt.idx, c)
	}
	wd.fcCheck(c, "invoked")
	fin := func() {
		e.Logf("w%d done %d", wt.idx, c.idx)
		if c.doneSeq == 0 {
			c.doneSeq = e.Seq
		}
		wd.fcCheck(c, "done")
		done()
	}
	wt.running++
	switch {
	case wt.spec.SlowNs > 0 && wt.spec.Async:
		e.Probe("async_done")
		wd.wg.Add(1)
		go func() {
			defer wd.wg.Done()
			time.Sleep(time.Duration(wt.spec.SlowNs))
			fin()
		}()
	case wt.spec.SlowNs > 0:
		e.Probe("slow_callback")
		time.Sleep(time.Duration(wt.spec.SlowNs))
		fin()
	default:
		fin()
	}
	wt.running--
	c.retSeq = e.Next()
}

func (wt *watcher) ResourceChanged(d xdsclient.ResourceData, done func()) {
	td, ok := d.(*toyData)
	if !ok || td == nil {
		wt.wd.e.Violate("changed_accepted_only", "watcher %d: ResourceChanged with data %T the decoder never produced", wt.idx, d)
		done()
		return
	}
	wt.deliver(&cbRec{kind: 'C', tag: td.tag, val: td.name + "=" + td.val}, done)
}

func (wt *watcher) ResourceError(err error, done func()) {
	cl, tok := classify(err)
	wt.deliver(&cbRec{kind: 'R', class: cl, tok: tok}, done)
}

func (wt *watcher) AmbientError(err error, done func()) {
	cl, tok := classify(err)
	wt.deliver(&cbRec{kind: 'A', class: cl, tok: tok}, done)
}

// fcCheck is the flow-control oracle (C42): a callback that hands response R
// (recognised by the tag in the data or error text) to a watcher registered
// before R was read must be invoked, and its done() called, before the client
// calls Recv again on the transport R came from.
func (wd *world) fcCheck(c *cbRec, when string) {
	tag := c.tag
	if c.kind != 'C' {
		if c.class != "bad" {
			return
		}
		tag = c.tok
		if i := strings.Index(tag, ":"); i >= 0 {
			tag = tag[:i]
		}
	}
	rr := wd.resps[tag]
	if rr == nil {
		return
	}
	if c.w.weSeq == 0 || c.w.weSeq > rr.seq {
		return // may be the cached delivery to a new watcher: carries no flow-control token
	}
	wd.e.Probe("fc_checked")
	if rr.tr.recvEntries != rr.gidx {
		wd.e.Violate("flow_control", "%s: Recv #%d was entered although callback %s of watcher %d for response %s (Recv #%d) is only now %s", rr.tr.name(), rr.tr.recvEntries, c, c.w.idx, rr.tag, rr.gidx, when)
	} else if when == "done" && c.doneSeq > c.seq+1 {
		wd.e.Probe("fc_held_by_slow_watcher")
	}
}

// ---- the run ----

func runWX(e *core.Env, s *wxScenario, prop string) {
	wd := &world{e: e, s: s, prop: prop, resps: map[string]*respRec{}}
	cfg := xdsclient.Config{
		Node:               clients.Node{ID: "wx-node", UserAgentName: "wx"},
		TransportBuilder:   wd,
		ResourceTypes:      toyTypes(),
		WatchExpiryTimeout: time.Duration(s.ExpiryNs),
	}
	for i := range s.Servers {
		sp := &s.Servers[i]
		wd.servers = append(wd.servers, &srvState{idx: i, spec: sp, failNew: sp.InitFail})
		sc := xdsclient.ServerConfig{ServerIdentifier: clients.ServerIdentifier{ServerURI: fmt.Sprintf("s%d", i)}}
		if sp.IgnoreDel {
			sc.ServerFeature = xdsclient.ServerFeatureIgnoreResourceDeletion
		}
		cfg.Servers = append(cfg.Servers, sc)
	}
	for i, ws := range s.Watchers {
		wd.watchers = append(wd.watchers, &watcher{wd: wd, idx: i, spec: ws, name: resName(ws.N)})
	}
	c, err := xdsclient.New(cfg)
	if err != nil {
		e.Violate("harness", "xdsclient.New: %v", err)
		return
	}
	var awg sync.WaitGroup
	for ai, ops := range s.Actors {
		awg.Add(1)
		go func() {
			defer awg.Done()
			for _, op := range ops {
				switch op.Kind {
				case "sleep":
					time.Sleep(time.Duration(op.Ns))
				case "watch":
					wt := wd.watchers[op.W]
					if wt.wsSeq != 0 {
						continue
					}
					e.Logf("a%d watch w%d typ=%d %s", ai, wt.idx, wt.spec.Typ, wt.name)
					wt.wsSeq, wt.wsNs = e.Seq, e.SimNs()
					cancel := c.WatchResource(typeURLs[wt.spec.Typ], wt.name, wt)
					e.Logf("a%d watch w%d returned", ai, wt.idx)
					wt.weSeq, wt.weNs = e.Seq, e.SimNs()
					wt.cancel = cancel
				case "unwatch":
					wt := wd.watchers[op.W]
					if wt.cancel == nil || wt.usSeq != 0 {
						continue
					}
					e.Logf("a%d unwatch w%d", ai, wt.idx)
					wt.usSeq, wt.usNs = e.Seq, e.SimNs()
					wt.cancel()
					e.Logf("a%d unwatch w%d returned", ai, wt.idx)
					wt.ueSeq, wt.ueNs = e.Seq, e.SimNs()
				}
			}
		}()
	}
	awg.Wait()
	// Let everything settle: the liveness rules are judged at quiescence with
	// no timer of the scenario still pending. The tail is derived from the
	// scenario (not a scenario field the minimiser could shrink).
	time.Sleep(time.Duration(s.tailNs()))
	synctest.Wait()
	e.Logf("quiescent")
	wd.quietSeq, wd.quietNs = e.Seq, e.SimNs()
	wd.takeDump(c)
	e.Logf("client close")
	wd.closeSeq = e.Seq
	c.Close()
	wd.wg.Wait()
	synctest.Wait()
	e.Logf("closed")
	wd.probes()
	wd.checkRequests()
	wd.checkWatchers()
	wd.checkFallback()
	wd.checkRelease()
	for _, d := range wd.deferred {
		if wd.explainedBy&relaxInactiveFail != 0 {
			e.Violate("fallback_on_inactive_server_failure", "consequence (the active server is not the lowest-priority server in use): %s: %s", d.oracle, d.msg)
			continue
		}
		e.Violate(d.oracle, "%s", d.msg)
	}
}

func (wd *world) takeDump(c *xdsclient.XDSClient) {
	wd.dump = map[string]dumpRec{}
	b, err := c.DumpResources()
	if err != nil {
		wd.e.Violate("harness", "DumpResources: %v", err)
		return
	}
	var resp v3statuspb.ClientStatusResponse
	if err := proto.Unmarshal(b, &resp); err != nil {
		wd.e.Violate("harness", "DumpResources undecodable: %v", err)
		return
	}
	var keys []string
	for _, cc := range resp.GetConfig() {
		for _, g := range cc.GetGenericXdsConfigs() {
			typ := -1
			for i, u := range typeURLs {
				if u == g.GetTypeUrl() {
					typ = i
				}
			}
			d := dumpRec{status: g.GetClientStatus().String()}
			if g.GetXdsConfig() != nil {
				if n, v, tag, _, ok := parseToy(g.GetXdsConfig().GetValue()); ok {
					d.cached, d.tag, d.val = true, tag, n+"="+v
				}
			}
			k := fmt.Sprintf("%d/%s", typ, g.GetName())
			wd.dump[k] = d
			keys = append(keys, k)
		}
	}
	sort.Strings(keys)
	for _, k := range keys {
		d := wd.dump[k]
		wd.e.Logf("dump %s status=%s cached=%v tag=%s val=%s", k, d.status, d.cached, d.tag, d.val)
	}
}

// checkRelease: after Close every transport the client built was closed
// exactly once.
func (wd *world) checkRelease() {
	for _, tr := range wd.transports {
		if tr.closes != 1 {
			wd.e.Violate("transport_release", "%s: Close called %d times by the end of the run", tr.name(), tr.closes)
		}
	}
}

func (wd *world) probes() {
	e := wd.e
	for _, tr := range wd.transports {
		if len(tr.streams) > 1 {
			e.Probe("reconnected")
		}
		if tr.srv.idx > 0 {
			e.Probe("fallback_transport_built")
		}
		if tr.gen > 0 {
			e.Probe("transport_rebuilt")
		}
	}
	for _, rr := range wd.respList {
		switch {
		case rr.kind == "unk":
			e.Probe("resp_unknown_type")
		case len(rr.res) == 0:
			e.Probe("resp_empty")
		case rr.rejected:
			e.Probe("resp_rejected")
		default:
			e.Probe("resp_valid")
		}
	}
	for _, wt := range wd.watchers {
		for _, c := range wt.hist {
			switch {
			case c.kind == 'C':
				e.Probe("cb_changed")
			case c.kind == 'R' && c.class == "other":
				e.Probe("cb_reserr_notfound")
			case c.kind == 'R':
				e.Probe("cb_reserr_" + c.class)
			default:
				e.Probe("cb_ambient_" + c.class)
			}
		}
	}
}
