package wx

import (
	"google.golang.org/grpc/internal/zzverif/core"
)

const (
	ms  = int64(1000000)
	sec = 1000 * ms
)

func genSched(r *core.Rand, seed uint64) core.Sched {
	return core.Sched{SchedSeed: core.Mix(seed, 11), AuxSeed: core.Mix(seed, 12), YieldThr: core.Pick(r, uint32(0), 200, 700, 3300, 13000, 30000)}
}

// genDelay draws a delay; now and then exactly the watch-expiry timeout, so
// that a response, a stream break or an unwatch coincides with a timer.
func genDelay(r *core.Rand, expiry int64) int64 {
	if r.Chance(1, 12) {
		return expiry
	}
	switch r.Intn(6) {
	case 0, 1:
		return 0
	case 2:
		return int64(r.Range(1, 50)) * ms
	case 3:
		return int64(r.Range(1, 10)) * 100 * ms
	case 4:
		return int64(r.Range(10, 40)) * 100 * ms
	default:
		return int64(r.Range(1, 3000)) * ms
	}
}

// genWX builds one scenario. prop selects the bias: C42 protocol bookkeeping
// on one (sometimes two) servers, C43 watcher histories on one server, C44
// two or three servers with connectivity failures.
func genWX(seed uint64, tier, prop string) *wxScenario {
	r := core.NewRand(core.Mix(seed, 0x7778))
	s := &wxScenario{Sched: genSched(r, seed)}
	big := tier == "thorough"

	nsrv := 1
	switch prop {
	case "C44":
		nsrv = r.Range(2, 3)
	}
	nNames := r.Range(1, 3)
	nTypes := r.Range(1, 2)
	typBase := 0
	if nTypes == 1 && r.Chance(1, 3) {
		typBase = 1
	}
	pickTyp := func() int {
		if nTypes == 2 {
			return r.Intn(2)
		}
		return typBase
	}
	s.ExpiryNs = core.Pick(r, 300*ms, 800*ms, 2*sec, 5*sec, 15*sec)

	// watchers and actors
	nw := r.Range(1, 4)
	if big {
		nw = r.Range(1, 6)
	}
	for i := 0; i < nw; i++ {
		ws := watcherSpec{Typ: pickTyp(), N: r.Intn(nNames)}
		if r.Chance(2, 5) {
			ws.SlowNs = core.Pick(r, 1*ms, 100*ms, 700*ms, 2*sec)
			ws.Async = r.Chance(1, 2)
		}
		s.Watchers = append(s.Watchers, ws)
	}
	na := r.Range(1, 3)
	if na > nw {
		na = nw
	}
	s.Actors = make([][]actorOp, na)
	for i := 0; i < nw; i++ {
		a := i % na
		if i >= na || r.Chance(1, 3) {
			s.Actors[a] = append(s.Actors[a], actorOp{Kind: "sleep", Ns: genDelay(r, s.ExpiryNs)})
		}
		s.Actors[a] = append(s.Actors[a], actorOp{Kind: "watch", W: i})
		if r.Chance(1, 2) {
			if r.Chance(2, 3) {
				s.Actors[a] = append(s.Actors[a], actorOp{Kind: "sleep", Ns: genDelay(r, s.ExpiryNs)})
			}
			s.Actors[a] = append(s.Actors[a], actorOp{Kind: "unwatch", W: i})
		}
	}

	// re-subscription: an actor that removed a watch registers a fresh watcher
	// of the same type later (same or another name), so that a type can lose
	// all its names and get some again, also across a stream restart
	for a := range s.Actors {
		n := len(s.Actors[a])
		if n == 0 || s.Actors[a][n-1].Kind != "unwatch" || len(s.Watchers) >= 7 || !r.Chance(1, 2) {
			continue
		}
		old := s.Watchers[s.Actors[a][n-1].W]
		nw := watcherSpec{Typ: old.Typ, N: old.N}
		if r.Chance(1, 3) {
			nw.N = r.Intn(nNames)
		}
		s.Watchers = append(s.Watchers, nw)
		s.Actors[a] = append(s.Actors[a], actorOp{Kind: "sleep", Ns: genDelay(r, s.ExpiryNs)}, actorOp{Kind: "watch", W: len(s.Watchers) - 1})
	}

	// servers
	ver := 0
	for si := 0; si < nsrv; si++ {
		sv := serverSpec{IgnoreDel: r.Chance(1, 4)}
		if prop == "C44" {
			if si < nsrv-1 && r.Chance(3, 5) {
				sv.InitFail = r.Range(1, 3)
			} else if r.Chance(1, 6) {
				sv.InitFail = r.Range(1, 2)
			}
		} else if r.Chance(1, 8) {
			sv.InitFail = r.Range(1, 2)
		}
		maxSteps := 7
		if big {
			maxSteps = 12
		}
		if nsrv > 1 {
			maxSteps = maxSteps*2/3 + 1
		}
		n := r.Range(1, maxSteps)
		for k := 0; k < n; k++ {
			st := step{DelayNs: genDelay(r, s.ExpiryNs)}
			x := r.Intn(100)
			pBreak := 22
			if prop == "C44" {
				pBreak = 30
			}
			switch {
			case x < pBreak:
				st.Kind = "break"
				if r.Chance(1, 3) {
					st.FailNew = r.Range(1, 2)
				}
			case x < pBreak+7:
				st.Kind = "unk"
				st.Ver = ver
				if r.Chance(1, 2) {
					st.Res = []resSpec{{N: r.Intn(nNames), V: r.Intn(3)}}
				}
			default:
				st.Kind = "resp"
				st.Typ = s.Watchers[r.Intn(len(s.Watchers))].Typ
				if r.Chance(1, 12) {
					st.Typ = pickTyp()
				}
				if !r.Chance(1, 6) {
					ver++
				}
				st.Ver = ver
				st.DupNonce = r.Chance(1, 10)
				if !r.Chance(1, 9) { // else: empty response
					for nmi := 0; nmi < nNames; nmi++ {
						if !r.Chance(7, 10) {
							continue
						}
						rs := resSpec{N: nmi, V: r.Intn(3)}
						if r.Chance(1, 7) {
							rs.Bad = true
						}
						st.Res = append(st.Res, rs)
					}
					if r.Chance(1, 16) {
						st.Res = append(st.Res, resSpec{Junk: true})
					}
				}
			}
			sv.Steps = append(sv.Steps, st)
		}
		s.Servers = append(s.Servers, sv)
	}
	return s
}
