package we

// A small JSON reader for the extension's own configuration. encoding/json is
// avoided inside a run on purpose: it consults process-global reflection caches
// (sync.Map), whose internal layout - and therefore the number of scheduling
// points a lookup costs in this runtime - differs from process to process.
// This reader has no global state.

import (
	"fmt"
	"strconv"
)

type lbJSON struct {
	b []byte
	i int
}

// lbNum keeps the literal so that 64-bit seeds survive.
type lbNum string

func (p *lbJSON) ws() {
	for p.i < len(p.b) && (p.b[p.i] == ' ' || p.b[p.i] == '\n' || p.b[p.i] == '\t' || p.b[p.i] == '\r') {
		p.i++
	}
}

func (p *lbJSON) value() (any, error) {
	p.ws()
	if p.i >= len(p.b) {
		return nil, fmt.Errorf("unexpected end")
	}
	switch c := p.b[p.i]; {
	case c == '{':
		p.i++
		m := map[string]any{}
		p.ws()
		if p.i < len(p.b) && p.b[p.i] == '}' {
			p.i++
			return m, nil
		}
		for {
			p.ws()
			k, err := p.str()
			if err != nil {
				return nil, err
			}
			p.ws()
			if p.i >= len(p.b) || p.b[p.i] != ':' {
				return nil, fmt.Errorf("expected ':' at %d", p.i)
			}
			p.i++
			v, err := p.value()
			if err != nil {
				return nil, err
			}
			m[k] = v
			p.ws()
			if p.i < len(p.b) && p.b[p.i] == ',' {
				p.i++
				continue
			}
			if p.i < len(p.b) && p.b[p.i] == '}' {
				p.i++
				return m, nil
			}
			return nil, fmt.Errorf("expected ',' or '}' at %d", p.i)
		}
	case c == '[':
		p.i++
		a := []any{}
		p.ws()
		if p.i < len(p.b) && p.b[p.i] == ']' {
			p.i++
			return a, nil
		}
		for {
			v, err := p.value()
			if err != nil {
				return nil, err
			}
			a = append(a, v)
			p.ws()
			if p.i < len(p.b) && p.b[p.i] == ',' {
				p.i++
				continue
			}
			if p.i < len(p.b) && p.b[p.i] == ']' {
				p.i++
				return a, nil
			}
			return nil, fmt.Errorf("expected ',' or ']' at %d", p.i)
		}
	case c == '"':
		return p.str()
	case c == 't' && p.lit("true"):
		return true, nil
	case c == 'f' && p.lit("false"):
		return false, nil
	case c == 'n' && p.lit("null"):
		return nil, nil
	case c == '-' || (c >= '0' && c <= '9'):
		j := p.i
		for p.i < len(p.b) {
			d := p.b[p.i]
			if d == '-' || d == '+' || d == '.' || d == 'e' || d == 'E' || (d >= '0' && d <= '9') {
				p.i++
				continue
			}
			break
		}
		return lbNum(p.b[j:p.i]), nil
	}
	return nil, fmt.Errorf("unexpected character at %d", p.i)
}

func (p *lbJSON) lit(s string) bool {
	if p.i+len(s) <= len(p.b) && string(p.b[p.i:p.i+len(s)]) == s {
		p.i += len(s)
		return true
	}
	return false
}

// str reads a string; the configuration only contains plain ASCII, escapes are
// handled through strconv.Unquote.
func (p *lbJSON) str() (string, error) {
	if p.i >= len(p.b) || p.b[p.i] != '"' {
		return "", fmt.Errorf("expected string at %d", p.i)
	}
	j := p.i
	p.i++
	for p.i < len(p.b) && p.b[p.i] != '"' {
		if p.b[p.i] == '\\' {
			p.i++
		}
		p.i++
	}
	if p.i >= len(p.b) {
		return "", fmt.Errorf("unterminated string")
	}
	p.i++
	s, err := strconv.Unquote(string(p.b[j:p.i]))
	if err != nil {
		return "", err
	}
	return s, nil
}

// ---- typed access (missing or mistyped fields read as zero: the minimiser may
// produce such variants) ----

func lbObj(v any) map[string]any { m, _ := v.(map[string]any); return m }
func lbArr(v any) []any          { a, _ := v.([]any); return a }
func lbStr(v any) string         { s, _ := v.(string); return s }
func lbBool(v any) bool          { b, _ := v.(bool); return b }
func lbInt(v any) int64 {
	n, _ := v.(lbNum)
	i, err := strconv.ParseInt(string(n), 10, 64)
	if err != nil {
		f, _ := strconv.ParseFloat(string(n), 64)
		return int64(f)
	}
	return i
}
func lbUint(v any) uint64 {
	n, _ := v.(lbNum)
	u, _ := strconv.ParseUint(string(n), 10, 64)
	return u
}
func lbInts(v any) []int {
	var out []int
	for _, e := range lbArr(v) {
		out = append(out, int(lbInt(e)))
	}
	return out
}
func lbStrs(v any) []string {
	var out []string
	for _, e := range lbArr(v) {
		out = append(out, lbStr(e))
	}
	return out
}

func lbDecodeCfg(raw []byte) (lbCfg, error) {
	var c lbCfg
	p := &lbJSON{b: raw}
	v, err := p.value()
	if err != nil {
		return c, err
	}
	m := lbObj(v)
	c.Seed = lbUint(m["lb_seed"])
	c.Addrs = lbStrs(m["addrs"])
	c.StrictHeader = lbBool(m["strict_header"])
	c.StrictAddrs = lbBool(m["strict_addrs"])
	c.Check = lbStrs(m["check"])
	for _, iv := range lbArr(m["insts"]) {
		im := lbObj(iv)
		ic := lbInstCfg{AutoConnect: lbBool(im["auto_connect"]), Reactive: lbBool(im["reactive"]), ShutOnClose: lbBool(im["shut_on_close"]), Spec: lbStrs(im["spec"])}
		for _, sv := range lbArr(im["steps"]) {
			sm := lbObj(sv)
			ic.Steps = append(ic.Steps, lbStep{AtNs: lbInt(sm["at_ns"]), Op: lbStr(sm["op"]), SC: int(lbInt(sm["sc"])), Spec: lbStrs(sm["spec"]), State: int(lbInt(sm["state"])), Addrs: lbInts(sm["addrs"]), ViaCC: lbBool(sm["via_cc"])})
		}
		ic.HCMask = int(lbInt(im["hc_mask"]))
		ic.InitSCs = int(lbInt(im["init_scs"]))
		c.Insts = append(c.Insts, ic)
	}
	for _, wv := range lbArr(m["watchers"]) {
		wm := lbObj(wv)
		wc := lbWatchCfg{TimeoutNs: lbInt(wm["timeout_ns"]), Timeouts: int(lbInt(wm["timeouts"]))}
		for _, s := range lbArr(wm["states"]) {
			wc.States = append(wc.States, int(lbInt(s)))
		}
		c.Watchers = append(c.Watchers, wc)
	}
	for _, cv := range lbArr(m["cancels"]) {
		cm := lbObj(cv)
		c.Cancels = append(c.Cancels, lbCancelCfg{RPC: uint32(lbUint(cm["rpc_id"])), AtNs: lbInt(cm["at_ns"])})
	}
	if hm := lbObj(m["health"]); hm != nil {
		h := &lbHealthCfg{Init: lbInts(hm["init"]), DelayNs: lbInt(hm["delay_ns"])}
		for _, sv := range lbArr(hm["steps"]) {
			sm := lbObj(sv)
			h.Steps = append(h.Steps, lbHealthStep{AtNs: lbInt(sm["at_ns"]), Addr: int(lbInt(sm["addr"])), Status: int(lbInt(sm["status"]))})
		}
		c.Health = h
	}
	if rm := lbObj(m["retry"]); rm != nil {
		c.Retry = &lbRetryCfg{MaxAttempts: int(lbInt(rm["max_attempts"])), Codes: lbStrs(rm["codes"]), BackoffNs: lbInt(rm["backoff_ns"])}
	}
	return c, nil
}
