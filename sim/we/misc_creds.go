package we

// misc_creds.go: C58 - per-RPC credentials that require transport security
// never go over a connection below PrivacyAndIntegrity.
//
// The "creds" extension chooses the client's transport credentials (insecure,
// local over a TCP-like or UDS-like simnet address, or a harness credential
// that reports a chosen SecurityLevel through CommonAuthInfo), dial-level and
// call-level PerRPCCredentials with RequireTransportSecurity true/false. Every
// credential returns its own marker metadata pair. The transport credentials
// can also be handed over inside a credentials.Bundle
// (grpc.WithCredentialsBundle) whose PerRPCCredentials() is a further
// connection-level credential (or nil), alone and combined with dial- and
// call-level credentials.
//
// Oracles:
//   creds_on_weak_connection   marker of a security-requiring credential in a
//                              request HEADERS block on the wire (private tap)
//                              or in a handler's metadata
//   weak_rpc_not_failed        an RPC whose call credential requires security
//                              over a weak connection (or any RPC when a dial
//                              credential does) finished OK / reached a handler
//                              / put HEADERS on the wire
//   creds_not_delivered        sufficient connection (or credential that does
//                              not require security): a handler ran without
//                              seeing the exact marker value
//   insecure_dial_creds_accepted  grpc.NewClient accepted insecure transport
//                              credentials together with security-requiring
//                              dial-level credentials

import (
	"context"
	"encoding/hex"
	"encoding/json"
	"net"
	"strings"

	"google.golang.org/grpc"
	"google.golang.org/grpc/codes"
	"google.golang.org/grpc/credentials"
	"google.golang.org/grpc/credentials/insecure"
	"google.golang.org/grpc/credentials/local"
	"google.golang.org/grpc/internal/zzverif/core"
)

type miscCred struct {
	Require bool   `json:"require,omitempty"`
	K       string `json:"k"`
	V       string `json:"v,omitempty"`
	VHex    string `json:"v_hex,omitempty"`
}

func (c *miscCred) val() string {
	if c.VHex != "" {
		b, _ := hex.DecodeString(c.VHex)
		return string(b)
	}
	return c.V
}

type miscCallCred struct {
	ID   uint32   `json:"rpc_id"`
	Cred miscCred `json:"cred"`
}

type miscCredsCfg struct {
	// Transport: insecure | local | custom | custom_noinfo
	Transport string `json:"transport"`
	// Level: credentials.SecurityLevel reported by the custom credentials
	// (0 invalid/unspecified, 1 none, 2 integrity only, 3 privacy and integrity)
	Level int `json:"level,omitempty"`
	// AddrNet: Network() of the simulated addresses (tcp | unix)
	AddrNet string         `json:"addr_net,omitempty"`
	Dial    []miscCred     `json:"dial,omitempty"`
	Calls   []miscCallCred `json:"calls,omitempty"`
	// ProbeDial: additionally try grpc.NewClient with insecure credentials
	// and a security-requiring dial-level credential; it must be refused.
	// ProbeViaBundle: that probe supplies the insecure transport credentials
	// through a credentials.Bundle.
	ProbeDial      bool `json:"probe_dial,omitempty"`
	ProbeViaBundle bool `json:"probe_via_bundle,omitempty"`
	// Bundle: the transport credentials described by Transport/Level are the
	// TransportCredentials() of a credentials.Bundle given with
	// grpc.WithCredentialsBundle instead of grpc.WithTransportCredentials.
	Bundle *miscBundleCfg `json:"bundle,omitempty"`
}

type miscBundleCfg struct {
	// Cred: the bundle's PerRPCCredentials(); nil: the bundle has none
	Cred *miscCred `json:"cred,omitempty"`
}

type miscCredsExt struct {
	BaseExt
	cfg miscCredsCfg
	sh  *miscShared
}

func init() {
	RegisterExt("creds", func(raw json.RawMessage) (Ext, error) {
		x := &miscCredsExt{}
		if err := json.Unmarshal(raw, &x.cfg); err != nil {
			return nil, err
		}
		return x, nil
	})
	core.Register("C58", miscGenC58, Run)
}

// encoding/json's process-global type cache must not grow inside or between
// runs (see the warm-up in misc_comp.go): decode a configuration that uses
// every type of this file once at process start.
func init() {
	src := &miscCredsCfg{Transport: "custom", Level: 1, Dial: []miscCred{{Require: true, K: "k", V: "v"}}, ProbeDial: true, ProbeViaBundle: true,
		Bundle: &miscBundleCfg{Cred: &miscCred{Require: true, K: "k", V: "v", VHex: "00"}}}
	b, err := json.Marshal(src)
	if err != nil {
		panic(err)
	}
	if err := json.Unmarshal(b, &miscCredsCfg{}); err != nil {
		panic(err)
	}
}

// ---- harness credentials ----

type miscPerRPC struct{ c miscCred }

func (p miscPerRPC) GetRequestMetadata(ctx context.Context, uri ...string) (map[string]string, error) {
	return map[string]string{p.c.K: p.c.val()}, nil
}
func (p miscPerRPC) RequireTransportSecurity() bool { return p.c.Require }

type miscAuthInfo struct {
	credentials.CommonAuthInfo
}

func (miscAuthInfo) AuthType() string { return "simsec" }

// miscBareAuthInfo does not embed CommonAuthInfo (pre-SecurityLevel style).
type miscBareAuthInfo struct{}

func (miscBareAuthInfo) AuthType() string { return "simsec-bare" }

type miscTC struct {
	level credentials.SecurityLevel
	bare  bool
}

func (t *miscTC) ai() credentials.AuthInfo {
	if t.bare {
		return miscBareAuthInfo{}
	}
	return miscAuthInfo{credentials.CommonAuthInfo{SecurityLevel: t.level}}
}
func (t *miscTC) ClientHandshake(_ context.Context, _ string, c net.Conn) (net.Conn, credentials.AuthInfo, error) {
	return c, t.ai(), nil
}
func (t *miscTC) ServerHandshake(c net.Conn) (net.Conn, credentials.AuthInfo, error) {
	return c, t.ai(), nil
}
func (t *miscTC) Info() credentials.ProtocolInfo {
	return credentials.ProtocolInfo{SecurityProtocol: "simsec"}
}
func (t *miscTC) Clone() credentials.TransportCredentials { c := *t; return &c }
func (t *miscTC) OverrideServerName(string) error         { return nil }

// miscBundle is a credentials.Bundle made of harness parts.
type miscBundle struct {
	tc credentials.TransportCredentials
	pr credentials.PerRPCCredentials // nil interface when the bundle has none
}

func (b *miscBundle) TransportCredentials() credentials.TransportCredentials { return b.tc }
func (b *miscBundle) PerRPCCredentials() credentials.PerRPCCredentials       { return b.pr }
func (b *miscBundle) NewWithMode(string) (credentials.Bundle, error) {
	c := *b
	return &c, nil
}

// ---- the model ----

const (
	miscConnNone    = iota // no connection can be established at all
	miscConnWeak           // below PrivacyAndIntegrity
	miscConnStrong         // PrivacyAndIntegrity
	miscConnUnknown        // no (valid) SecurityLevel reported: nothing asserted about refusal
)

// strength of the connections this configuration produces, from the
// documentation of the credentials packages (insecure: no security; local:
// UDS = privacy and integrity, loopback TCP = none, anything else refused).
func (x *miscCredsExt) strength(w *run) int {
	switch x.cfg.Transport {
	case "insecure":
		return miscConnWeak
	case "local":
		loopback := strings.HasPrefix(x.target(w), "127.") || strings.HasPrefix(x.target(w), "[::1]:")
		switch {
		case x.cfg.AddrNet == "unix" && loopback:
			return miscConnUnknown // contradictory address: not generated
		case x.cfg.AddrNet == "unix":
			return miscConnStrong
		case loopback:
			return miscConnWeak
		}
		return miscConnNone
	case "custom":
		switch credentials.SecurityLevel(x.cfg.Level) {
		case credentials.NoSecurity, credentials.IntegrityOnly:
			return miscConnWeak
		case credentials.PrivacyAndIntegrity:
			return miscConnStrong
		}
	}
	return miscConnUnknown
}

func (x *miscCredsExt) target(w *run) string {
	t := w.sc.Target
	if t == "" {
		return "srv0"
	}
	return strings.TrimPrefix(t, "passthrough:///")
}

func (x *miscCredsExt) call(id uint32) *miscCred {
	for i := range x.cfg.Calls {
		if x.cfg.Calls[i].ID == id {
			return &x.cfg.Calls[i].Cred
		}
	}
	return nil
}

// connCreds: the credentials attached to every RPC of a connection: the
// dial-level ones and the bundle's.
func (x *miscCredsExt) connCreds() []*miscCred {
	var out []*miscCred
	for i := range x.cfg.Dial {
		out = append(out, &x.cfg.Dial[i])
	}
	if b := x.cfg.Bundle; b != nil && b.Cred != nil {
		out = append(out, b.Cred)
	}
	return out
}

func (x *miscCredsExt) dialRequires() bool {
	for _, c := range x.connCreds() {
		if c.Require {
			return true
		}
	}
	return false
}

func (x *miscCredsExt) ServerOpts(w *run) []grpc.ServerOption {
	x.sh = miscState(w)
	if x.cfg.AddrNet != "" {
		w.net.AddrNet = x.cfg.AddrNet
	}
	return nil
}

func (x *miscCredsExt) transport() credentials.TransportCredentials {
	switch x.cfg.Transport {
	case "local":
		return local.NewCredentials()
	case "custom":
		return &miscTC{level: credentials.SecurityLevel(x.cfg.Level)}
	case "custom_noinfo":
		return &miscTC{bare: true}
	}
	return insecure.NewCredentials()
}

func (x *miscCredsExt) bundle() credentials.Bundle {
	b := &miscBundle{tc: x.transport()}
	if c := x.cfg.Bundle.Cred; c != nil {
		b.pr = miscPerRPC{*c}
	}
	return b
}

func (x *miscCredsExt) DialOpts(w *run) []grpc.DialOption {
	var o []grpc.DialOption
	if x.cfg.Bundle != nil {
		// a bundle and transport credentials exclude each other: take back the
		// world's own WithTransportCredentials
		o = []grpc.DialOption{grpc.WithTransportCredentials(nil), grpc.WithCredentialsBundle(x.bundle())}
	} else {
		o = []grpc.DialOption{grpc.WithTransportCredentials(x.transport())}
	}
	for _, c := range x.cfg.Dial {
		o = append(o, grpc.WithPerRPCCredentials(miscPerRPC{c}))
	}
	return o
}

func (x *miscCredsExt) Start(w *run) {
	if !x.cfg.ProbeDial {
		return
	}
	e := w.e
	tc := grpc.WithTransportCredentials(insecure.NewCredentials())
	how := ""
	if x.cfg.ProbeViaBundle {
		tc = grpc.WithCredentialsBundle(&miscBundle{tc: insecure.NewCredentials()})
		how = " (supplied through a credentials bundle)"
	}
	cc, err := grpc.NewClient("passthrough:///srv0", tc, grpc.WithContextDialer(w.net.Dialer()),
		grpc.WithPerRPCCredentials(miscPerRPC{miscCred{Require: true, K: "x-misc-probe", V: "secret"}}))
	if err == nil {
		cc.Close()
		e.Violate("insecure_dial_creds_accepted", "grpc.NewClient accepted insecure transport credentials%s together with dial-level per-RPC credentials that require transport security", how)
		return
	}
	e.Probe("c58_newclient_refused")
	if x.cfg.ProbeViaBundle {
		e.Probe("c58_newclient_refused_bundle")
	}
}

func (x *miscCredsExt) Call(w *run, st *rpcState, ctx context.Context) (context.Context, []grpc.CallOption) {
	if c := x.call(st.r.ID); c != nil {
		return ctx, []grpc.CallOption{grpc.PerRPCCredentials(miscPerRPC{*c})}
	}
	return ctx, nil
}

func (x *miscCredsExt) AtQuiescence(w *run) {
	e := w.e
	strength := x.strength(w)
	weak := strength == miscConnWeak || strength == miscConnNone
	dialReq := x.dialRequires()
	// ---- never on the wire / never at a handler ----
	onWire := func(k string) (int, *miscStream) {
		k = strings.ToLower(k)
		n := 0
		var where *miscStream
		for _, ws := range x.sh.wire.order {
			for _, h := range ws.C.Hdrs {
				if len(h.get(k)) > 0 {
					n++
					where = ws
				}
			}
		}
		return n, where
	}
	type req struct {
		c   *miscCred
		rpc uint32 // 0: connection level (dial option or bundle)
	}
	var all []req
	for _, c := range x.connCreds() {
		all = append(all, req{c, 0})
	}
	for i := range x.cfg.Calls {
		all = append(all, req{&x.cfg.Calls[i].Cred, x.cfg.Calls[i].ID})
	}
	if weak {
		for _, q := range all {
			if !q.c.Require {
				continue
			}
			e.Probe("c58_requiring_cred_on_weak_config")
			if b := x.cfg.Bundle; b != nil && q.c == b.Cred {
				e.Probe("c58_requiring_bundle_cred_on_weak_config")
			}
			if n, ws := onWire(q.c.K); n > 0 {
				e.Violate("creds_on_weak_connection", "credential %q requires transport security but was written to the wire %d times (e.g. conn %d stream %d, rpc %d) on connections of strength %s", q.c.K, n, ws.Conn, ws.SID, ws.RPC, miscStrengthName(strength))
			}
			for _, id := range miscSortedRPCs(w.sc) {
				st := w.rpcs[id]
				for att := 0; att < st.invocations; att++ {
					if len(st.srvMD[att].Get(strings.ToLower(q.c.K))) > 0 {
						e.Violate("creds_on_weak_connection", "credential %q requires transport security but reached the handler of rpc %d over a connection of strength %s", q.c.K, id, miscStrengthName(strength))
					}
				}
			}
		}
	}
	for _, id := range miscSortedRPCs(w.sc) {
		st := w.rpcs[id]
		if st == nil || !st.clientDone {
			continue
		}
		cc := x.call(id)
		mustFail := weak && (dialReq || (cc != nil && cc.Require))
		if strength == miscConnNone {
			mustFail = true
		}
		if mustFail {
			e.Probe("c58_rpc_must_fail")
			sent := len(x.sh.wire.streamsOf(id))
			if st.clientStatus.Code() == codes.OK || st.invocations > 0 || sent > 0 {
				e.Violate("weak_rpc_not_failed", "rpc %d needs a connection with privacy and integrity (connection-level requirement, by dial option or bundle: %v, call-level %v) but connections are %s: finished with %v, %d handler invocations, %d request HEADERS on the wire", id, dialReq, cc != nil && cc.Require, miscStrengthName(strength), st.clientStatus.Code(), st.invocations, sent)
			}
			continue
		}
		// every credential applies; delivered unchanged to every invocation
		want := x.connCreds()
		if cc != nil {
			want = append(want, cc)
		}
		if strength == miscConnUnknown {
			// refusal or delivery are both acceptable for requiring
			// credentials; if the RPC was sent, delivery must be exact
			if st.invocations == 0 {
				continue
			}
		}
		for att := 0; att < st.invocations; att++ {
			for _, c := range want {
				got := st.srvMD[att].Get(strings.ToLower(c.K))
				dup := 0
				for _, o := range want {
					if strings.EqualFold(o.K, c.K) {
						dup++
					}
				}
				ok := false
				if dup == 1 {
					ok = len(got) == 1 && got[0] == c.val()
				} else {
					ok = miscIn(got, c.val()) && len(got) <= dup
				}
				if !ok {
					e.Violate("creds_not_delivered", "rpc %d attempt %d: credential %q=%q (requires security: %v; connection %s) arrived at the handler as %q", id, att, c.K, c.val(), c.Require, miscStrengthName(strength), trunc(got))
				} else {
					e.Probe("c58_cred_delivered")
					if c.Require {
						e.Probe("c58_requiring_cred_delivered_on_strong")
					}
					if b := x.cfg.Bundle; b != nil && c == b.Cred {
						e.Probe("c58_bundle_cred_delivered")
					}
				}
			}
		}
		if !w.faulty && miscClean(st) && st.invocations == 0 && strength != miscConnUnknown {
			e.Violate("creds_not_delivered", "rpc %d: nothing forbids sending its credentials (connection %s) but no handler ran; client finished with %v", id, miscStrengthName(strength), st.clientStatus.Code())
		}
	}
}

func miscStrengthName(s int) string {
	return [...]string{"none(refused)", "weak", "privacy_and_integrity", "unspecified"}[s]
}

// ---- generator ----

func miscGenC58(seed uint64, tier string) *Scenario {
	r, s := genBase(seed, tier)
	s.Oracles = []string{"status_error"}
	s.Client.DisableRetry = r.Chance(1, 2)
	var c miscCredsCfg
	switch r.Intn(7) {
	case 0:
		c.Transport = "insecure"
	case 1, 2:
		c.Transport = "local"
		switch r.Intn(5) {
		case 0: // TCP to a non-local address: refused by the credentials
			c.AddrNet = "tcp"
		case 1, 2: // UDS-like address
			c.AddrNet = "unix"
		default: // loopback TCP
			c.AddrNet = "tcp"
			addr := core.Pick(r, "127.0.0.1:7001", "127.8.8.8:443", "[::1]:50051")
			s.Target = "passthrough:///" + addr
			s.Listeners = []string{addr}
		}
	case 6:
		c.Transport = "custom_noinfo"
	default:
		c.Transport = "custom"
		c.Level = r.Intn(4)
		if r.Chance(1, 3) {
			c.AddrNet = core.Pick(r, "tcp", "unix")
		}
	}
	cred := func(tag string, i int) miscCred {
		mc := miscCred{Require: r.Chance(1, 2)}
		switch r.Intn(4) {
		case 0:
			mc.K = "Authorization"
			if tag == "call" {
				mc.K = "X-Call-Token-" + string(rune('A'+i))
			}
			if tag == "bundle" {
				mc.K = "X-Bundle-Token"
			}
			mc.V = "Bearer " + tag + "-tok-" + string(rune('a'+i))
		case 1:
			mc.K = "x-misc-" + tag + string(rune('0'+i)) + "-bin"
			b := make([]byte, r.Range(0, 40))
			for j := range b {
				b[j] = byte(r.Intn(256))
			}
			mc.VHex = hex.EncodeToString(b)
			if len(b) == 0 {
				mc.V = ""
			}
		default:
			mc.K = "x-misc-" + tag + string(rune('0'+i))
			mc.V = tag + " secret value " + string(rune('a'+i))
		}
		return mc
	}
	for i := r.Intn(3); i > 0; i-- {
		d := cred("dial", i)
		dupe := false
		for _, o := range c.Dial {
			if strings.EqualFold(o.K, d.K) {
				dupe = true
			}
		}
		if !dupe {
			c.Dial = append(c.Dial, d)
		}
	}
	if r.Chance(2, 5) {
		// the same transport credentials, handed over inside a bundle, with or
		// without a per-RPC credential of the bundle's own
		c.Bundle = &miscBundleCfg{}
		if r.Chance(4, 5) {
			bc := cred("bundle", 0)
			c.Bundle.Cred = &bc
		}
	}
	if c.Transport == "insecure" {
		// grpc.NewClient refuses this combination: exercise it separately
		for i := range c.Dial {
			if c.Dial[i].Require {
				c.Dial[i].Require = false
				c.ProbeDial = true
			}
		}
		if c.ProbeDial {
			c.ProbeViaBundle = c.Bundle != nil || r.Chance(1, 3)
		}
	}
	n := r.Range(1, 6)
	for i := 0; i < n; i++ {
		rpc := RPC{ID: uint32(i + 1), StartNs: int64(r.Intn(3)) * int64(r.Intn(2000000))}
		if r.Chance(1, 3) {
			rpc.StartNs += int64(r.LogUniform(1000, 3000000000))
		}
		rpc.WaitReady = r.Chance(1, 6)
		if rpc.WaitReady {
			rpc.DeadlineNs = int64(r.LogUniform(1000000, 20000000000))
		}
		var srv []Op
		if r.Chance(1, 2) {
			rpc.Client = append(rpc.Client, Op{Op: "send", N: r.Intn(3000)})
			srv = append(srv, Op{Op: "recv"})
		}
		for k := r.Intn(3); k > 0; k-- {
			srv = append(srv, Op{Op: "send", N: r.Intn(3000)})
		}
		if r.Chance(1, 5) {
			srv = append(srv, Op{Op: "return", Code: r.Range(1, 16), Msg: "x"})
		}
		rpc.Client = append(rpc.Client, Op{Op: "close_send"}, Op{Op: "recv_all"})
		rpc.Server = [][]Op{srv}
		s.RPCs = append(s.RPCs, rpc)
		if r.Chance(2, 3) {
			c.Calls = append(c.Calls, miscCallCred{ID: rpc.ID, Cred: cred("call", i)})
		}
	}
	if r.Chance(1, 4) {
		// a second connection: every connection is judged on its own
		s.Faults = append(s.Faults, simnetFault("reset", 0))
		s.Faults[len(s.Faults)-1].AtNs = int64(r.LogUniform(1000, 2000000000))
		s.Faults[len(s.Faults)-1].Dir = "both"
	}
	s.Ext = map[string]json.RawMessage{"creds": ExtJSON(&c)}
	miscTameNet(s)
	return s
}
