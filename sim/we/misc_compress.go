package we

// misc_compress.go: C27 - compression is negotiated and applied consistently.
//
// Wire oracles (private tap, per HTTP/2 stream and direction):
//   compressed_flag_without_encoding  a message prefix has the compressed flag
//                                     set although the sender announced no
//                                     (or identity) grpc-encoding on that stream
//   uncompressed_on_encoded_stream    a non-empty message has the flag clear
//                                     although the sender announced a
//                                     non-identity grpc-encoding
//   response_encoding_not_advertised  the server's grpc-encoding is neither in
//                                     the request's grpc-accept-encoding nor
//                                     the request's own grpc-encoding (servers
//                                     without the legacy RPCCompressor option)
// Application oracles (at quiescence, fault-free runs):
//   unsupported_request_encoding      request encoding the server cannot decode:
//                                     client must see UNIMPLEMENTED, handler no data
//   unsupported_response_encoding     response encoding the client cannot decode:
//                                     client must see INTERNAL, no data delivered
//   compression_roundtrip_failed      everything supported: handler's status and
//                                     every message delivered (contents are
//                                     compared by the world's recv_payload oracle)

import (
	"context"
	"encoding/json"
	"sort"
	"strconv"
	"strings"

	"google.golang.org/grpc"
	"google.golang.org/grpc/codes"
	"google.golang.org/grpc/encoding"
	"google.golang.org/grpc/experimental"
	"google.golang.org/grpc/internal/grpcutil"
	"google.golang.org/grpc/internal/zzverif/core"
	"google.golang.org/grpc/metadata"
)

type miscCompCall struct {
	ID uint32 `json:"rpc_id"`
	// Use: grpc.UseCompressor(name) ("" = option absent)
	Use string `json:"use,omitempty"`
	// Accept: experimental.AcceptCompressors(names...) (nil = option absent)
	Accept []string `json:"accept,omitempty"`
	// SetSend: the server interceptor calls grpc.SetSendCompressor(ctx, name)
	// before the handler runs ("" = no call)
	SetSend string `json:"set_send,omitempty"`
}

type miscCompressCfg struct {
	// Advertise: the registered compressors are advertised
	// (grpc-accept-encoding) and selectable by name in this run.
	Advertise bool `json:"advertise"`
	// legacy API, by type name ("" = option absent)
	ClientLegacyComp   string         `json:"client_legacy_comp,omitempty"`
	ClientLegacyDecomp string         `json:"client_legacy_decomp,omitempty"`
	ServerLegacyComp   string         `json:"server_legacy_comp,omitempty"`
	ServerLegacyDecomp string         `json:"server_legacy_decomp,omitempty"`
	Calls              []miscCompCall `json:"calls,omitempty"`
}

type miscCompressExt struct {
	BaseExt
	cfg miscCompressCfg
	sh  *miscShared
	// SetSendCompressor results per rpc: "" not called, "ok", or the error
	setSend map[uint32]string
}

func init() {
	RegisterExt("compress", func(raw json.RawMessage) (Ext, error) {
		x := &miscCompressExt{setSend: map[uint32]string{}}
		if err := json.Unmarshal(raw, &x.cfg); err != nil {
			return nil, err
		}
		return x, nil
	})
	core.Register("C27", miscGenC27, Run)
}

func miscCompressOf(w *run) *miscCompressExt {
	for _, x := range w.exts {
		if c, ok := x.(*miscCompressExt); ok {
			return c
		}
	}
	return nil
}

func (x *miscCompressExt) call(id uint32) *miscCompCall {
	for i := range x.cfg.Calls {
		if x.cfg.Calls[i].ID == id {
			return &x.cfg.Calls[i]
		}
	}
	return nil
}

// registered: the name is installed in package encoding in this binary.
// (Advertise=false only hides the names from grpc-accept-encoding and from
// the name checks of SetSendCompressor/AcceptCompressors; the generator then
// does not select registered compressors by name.)
func (x *miscCompressExt) registered(name string) bool {
	for _, n := range miscAllComp {
		if n == name {
			return true
		}
	}
	return false
}

func (x *miscCompressExt) ServerOpts(w *run) []grpc.ServerOption {
	x.sh = miscState(w)
	miscCompReset()
	if x.cfg.Advertise {
		grpcutil.RegisteredCompressorNames = append([]string(nil), miscAllComp...)
	}
	o := []grpc.ServerOption{grpc.ChainStreamInterceptor(x.intercept)}
	if t := x.cfg.ServerLegacyComp; t != "" {
		o = append(o, grpc.RPCCompressor(miscNewLegacy(t)))
	}
	if t := x.cfg.ServerLegacyDecomp; t != "" {
		o = append(o, grpc.RPCDecompressor(&miscLegacyD{miscNewLegacy(t).x}))
	}
	return o
}

func (x *miscCompressExt) DialOpts(w *run) []grpc.DialOption {
	var o []grpc.DialOption
	if t := x.cfg.ClientLegacyComp; t != "" {
		o = append(o, grpc.WithCompressor(miscNewLegacy(t)))
	}
	if t := x.cfg.ClientLegacyDecomp; t != "" {
		o = append(o, grpc.WithDecompressor(&miscLegacyD{miscNewLegacy(t).x}))
	}
	return o
}

func (x *miscCompressExt) Call(w *run, st *rpcState, ctx context.Context) (context.Context, []grpc.CallOption) {
	c := x.call(st.r.ID)
	if c == nil {
		return ctx, nil
	}
	var o []grpc.CallOption
	if c.Use != "" {
		o = append(o, grpc.UseCompressor(c.Use))
	}
	if c.Accept != nil {
		o = append(o, experimental.AcceptCompressors(c.Accept...))
	}
	return ctx, o
}

func (x *miscCompressExt) intercept(srv any, ss grpc.ServerStream, info *grpc.StreamServerInfo, handler grpc.StreamHandler) error {
	ctx := ss.Context()
	md, _ := metadata.FromIncomingContext(ctx)
	if v := md.Get("x-sim-rpc"); len(v) == 1 {
		id64, _ := strconv.ParseUint(v[0], 10, 32)
		id := uint32(id64)
		if c := x.call(id); c != nil && c.SetSend != "" {
			if err := grpc.SetSendCompressor(ctx, c.SetSend); err != nil {
				x.setSend[id] = "err"
				x.sh.w.e.Logf("rpc %d SetSendCompressor(%q) -> error", id, c.SetSend)
			} else {
				x.setSend[id] = "ok"
				x.sh.w.e.Logf("rpc %d SetSendCompressor(%q) -> nil", id, c.SetSend)
			}
		}
	}
	return handler(srv, ss)
}

func (x *miscCompressExt) AfterTeardown(w *run) {
	grpcutil.RegisteredCompressorNames = nil
	miscCompCalls = nil
}

// reqEnc: the request encoding the configuration asks for ("" identity) and
// whether the client can produce it at all.
func (x *miscCompressExt) reqEnc(id uint32) (name string, ok bool) {
	if c := x.call(id); c != nil && c.Use != "" {
		if c.Use == encoding.Identity {
			return "", true
		}
		return c.Use, x.registered(c.Use)
	}
	return x.cfg.ClientLegacyComp, true
}

// simpleEnc is for C21: request/response encodings in configurations that
// only use UseCompressor with a registered name and the server's default
// (answer with the request's encoding).
func (x *miscCompressExt) simpleEnc(id uint32) (req, resp string) {
	c := &x.cfg
	if c.ClientLegacyComp != "" || c.ClientLegacyDecomp != "" || c.ServerLegacyComp != "" || c.ServerLegacyDecomp != "" {
		return "?", "?"
	}
	if cl := x.call(id); cl != nil {
		if cl.SetSend != "" || cl.Accept != nil {
			return "?", "?"
		}
		if cl.Use != "" && cl.Use != encoding.Identity {
			if !x.registered(cl.Use) {
				return "?", "?"
			}
			return cl.Use, cl.Use
		}
	}
	return "", ""
}

func miscSplitList(vs []string) []string {
	var out []string
	for _, v := range vs {
		for _, p := range strings.Split(v, ",") {
			if p = strings.TrimSpace(p); p != "" {
				out = append(out, p)
			}
		}
	}
	return out
}

func miscSortedKeys(m map[string]int) []string {
	ks := make([]string, 0, len(m))
	for k := range m {
		ks = append(ks, k)
	}
	sort.Strings(ks)
	return ks
}

func miscIn(xs []string, v string) bool {
	for _, x := range xs {
		if x == v {
			return true
		}
	}
	return false
}

func (x *miscCompressExt) AtQuiescence(w *run) {
	e := w.e
	for _, k := range miscSortedKeys(miscCompCalls) {
		e.ProbeN("c27_calls_"+k, miscCompCalls[k])
	}
	knownBad := map[uint32]bool{}
	// ---- wire oracles: every stream, also under faults ----
	for _, ws := range x.sh.wire.order {
		if len(ws.C.Hdrs) == 0 {
			continue
		}
		reqE, respE := ws.reqEncoding(), ws.respEncoding()
		check := func(who string, enc string, msgs []miscMsg) {
			for i, m := range msgs {
				switch {
				case m.Flag == 1 && enc == "":
					e.Violate("compressed_flag_without_encoding", "conn %d stream %d (rpc %d): %s message %d has the compressed flag set but the %s announced no grpc-encoding", ws.Conn, ws.SID, ws.RPC, who, i, who)
				case m.Flag == 0 && enc != "" && m.Len > 0:
					e.Violate("uncompressed_on_encoded_stream", "conn %d stream %d (rpc %d): %s message %d (%d bytes) is not compressed although the %s announced grpc-encoding %q", ws.Conn, ws.SID, ws.RPC, who, i, m.Len, who, enc)
				case m.Flag > 1:
					e.Violate("compressed_flag_without_encoding", "conn %d stream %d: %s message %d has flag byte %d", ws.Conn, ws.SID, who, i, m.Flag)
				case m.Flag == 1:
					e.Probe("c27_compressed_message_" + who)
				case enc != "" && m.Len == 0:
					e.Probe("c27_empty_message_on_encoded_stream")
				}
			}
		}
		if x.cfg.ServerLegacyComp != "" && ws.HaveRPC && x.setSend[ws.RPC] == "ok" {
			if c := x.call(ws.RPC); c != nil && c.SetSend == "identity" && respE == "" {
				// separate oracle name: see the C27 findings
				for i, m := range ws.S.Msgs {
					if m.Flag == 1 {
						e.Violate("set_send_identity_ignored_with_legacy_compressor", "conn %d stream %d (rpc %d): server option RPCCompressor(%q) and handler SetSendCompressor(\"identity\") (accepted): the response announces no grpc-encoding but message %d is compressed", ws.Conn, ws.SID, ws.RPC, x.cfg.ServerLegacyComp, i)
						break
					}
				}
				knownBad[ws.RPC] = true
				check("client", reqE, ws.C.Msgs)
				continue
			}
		}
		check("client", reqE, ws.C.Msgs)
		check("server", respE, ws.S.Msgs)
		if respE != "" && x.cfg.ServerLegacyComp == "" {
			adv := miscSplitList(ws.C.Hdrs[0].get("grpc-accept-encoding"))
			if !miscIn(adv, respE) && respE != reqE {
				e.Violate("response_encoding_not_advertised", "conn %d stream %d (rpc %d): server answered with grpc-encoding %q; the client advertised %q and used %q", ws.Conn, ws.SID, ws.RPC, respE, adv, reqE)
			} else if respE != reqE {
				e.Probe("c27_response_encoding_differs_from_request")
			}
		}
	}
	if w.faulty || len(w.sc.Actions) > 0 || w.sc.Ext["limits"] != nil {
		return
	}
	// ---- application oracles ----
	for _, id := range miscSortedRPCs(w.sc) {
		st := w.rpcs[id]
		if !miscClean(st) {
			continue
		}
		if knownBad[id] {
			continue
		}
		got := st.clientStatus.Code()
		var cmsgs, smsgs []int
		for _, op := range st.r.Client {
			if op.Op == "send" {
				cmsgs = append(cmsgs, op.N)
			}
		}
		for _, op := range st.r.Server[0] {
			if op.Op == "send" {
				smsgs = append(smsgs, op.N)
			}
		}
		reqE, canSend := x.reqEnc(id)
		if !canSend {
			// UseCompressor names something that is not installed: the RPC
			// cannot start
			e.Probe("c27_use_unregistered")
			if got == codes.OK || st.invocations > 0 {
				e.Violate("unregistered_compressor_used", "rpc %d: UseCompressor(%q) is not registered but the RPC finished with %v after %d handler invocations", id, reqE, got, st.invocations)
			}
			continue
		}
		if cl := x.call(id); cl != nil {
			badAccept := false
			for _, a := range cl.Accept {
				if a = strings.TrimSpace(a); a != "" && a != "identity" && (!x.cfg.Advertise || !x.registered(a)) {
					badAccept = true
				}
			}
			if badAccept { // the option itself fails the call (only in hand-edited scenarios)
				continue
			}
		}
		// does the server understand the request encoding?
		if reqE != "" && x.cfg.ServerLegacyDecomp != reqE && !x.registered(reqE) {
			e.Probe("c27_unsupported_request_encoding")
			if got != codes.Unimplemented {
				e.Violate("unsupported_request_encoding", "rpc %d: the server has no decompressor for request encoding %q but the client finished with %v instead of UNIMPLEMENTED", id, reqE, got)
			}
			if st.srvRecv[0] > 0 {
				e.Violate("unsupported_request_encoding", "rpc %d: the server has no decompressor for request encoding %q but the handler received %d messages", id, reqE, st.srvRecv[0])
			}
			continue
		}
		// what did the server answer with? (wire truth; the rules for the
		// choice are the wire oracles above)
		wss := x.sh.wire.streamsOf(id)
		if len(wss) != 1 || st.invocations != 1 {
			e.Violate("compression_roundtrip_failed", "rpc %d: supported request encoding %q but %d streams / %d handler invocations; client finished with %v", id, reqE, len(wss), st.invocations, got)
			continue
		}
		respE := wss[0].respEncoding()
		want, _ := st.lastReturned()
		cl := x.call(id)
		allowed := true
		if cl != nil && respE != "" {
			// the option ignores "identity" and empty names; an empty rest
			// means no restriction; an unregistered name fails the call
			var eff []string
			for _, a := range cl.Accept {
				if a = strings.TrimSpace(a); a == "" || a == "identity" {
					continue
				}
				eff = append(eff, a)
			}
			allowed = len(eff) == 0 || miscIn(eff, respE)
		}
		supported := respE == "" || x.cfg.ClientLegacyDecomp == respE || x.registered(respE)
		if st.srvRecv[0] != len(cmsgs) {
			e.Violate("compression_roundtrip_failed", "rpc %d: request encoding %q is supported by the server but the handler received %d of %d messages", id, reqE, st.srvRecv[0], len(cmsgs))
		}
		if !supported || !allowed {
			// the client must refuse to decode: first non-empty message when
			// merely unsupported, first message when not allowed
			firstBad := -1
			for i, n := range smsgs {
				if n > 0 || !allowed {
					firstBad = i
					break
				}
			}
			if !supported {
				e.Probe("c27_unsupported_response_encoding")
			} else {
				e.Probe("c27_response_encoding_not_accepted")
			}
			if firstBad < 0 {
				continue // nothing to decode: either outcome is fine
			}
			if st.recvd > firstBad {
				e.Violate("unsupported_response_encoding", "rpc %d: the client cannot or must not decode response encoding %q but received %d messages", id, respE, st.recvd)
			}
			if got != codes.Internal {
				e.Violate("unsupported_response_encoding", "rpc %d: the client cannot or must not decode response encoding %q (supported=%v allowed=%v) but finished with %v instead of INTERNAL", id, respE, supported, allowed, got)
			}
			continue
		}
		e.Probe("c27_roundtrip")
		if reqE != "" {
			e.Probe("c27_roundtrip_request_compressed")
		}
		if respE != "" {
			e.Probe("c27_roundtrip_response_compressed")
		}
		if want == nil || got != want.Code() || st.recvd != len(smsgs) {
			wc := codes.Code(99)
			if want != nil {
				wc = want.Code()
			}
			e.Violate("compression_roundtrip_failed", "rpc %d: encodings %q/%q are supported on both sides but the client finished with %v (handler returned %v) and received %d of %d messages", id, reqE, respE, got, wc, st.recvd, len(smsgs))
		}
	}
}

// ---- generator ----

// miscC27AvoidKnown (development aid): do not generate the configuration of
// the known finding set_send_identity_ignored_with_legacy_compressor.
const miscC27AvoidKnown = false

func miscGenC27(seed uint64, tier string) *Scenario {
	r, s := genBase(seed, tier)
	s.Oracles = []string{"recv_payload", "status_error"}
	s.Client.DisableRetry = true
	names := []string{"gzip", "simxor", "simxor2", "simpat"}
	var c miscCompressCfg
	c.Advertise = !r.Chance(1, 12)
	legacy := func() string { return core.Pick(r, "simxor", "simxor2", "simlegacy", "simlegacy") }
	if r.Chance(1, 4) {
		c.ClientLegacyComp = legacy()
	}
	if r.Chance(1, 4) {
		c.ClientLegacyDecomp = legacy()
	}
	if r.Chance(1, 5) {
		c.ServerLegacyComp = legacy()
	}
	if r.Chance(1, 4) {
		c.ServerLegacyDecomp = legacy()
	}
	if !c.Advertise {
		for _, p := range []*string{&c.ClientLegacyComp, &c.ClientLegacyDecomp, &c.ServerLegacyComp, &c.ServerLegacyDecomp} {
			if *p != "" {
				*p = "simlegacy"
			}
		}
	}
	n := r.Range(1, 6)
	for i := 0; i < n; i++ {
		rpc := RPC{ID: uint32(i + 1), StartNs: int64(r.Intn(2)) * int64(r.Intn(300000))}
		size := func() int {
			switch r.Intn(8) {
			case 0:
				return 0
			case 1:
				return r.Range(1, 20)
			}
			return genSize(r, 20000)
		}
		var srv []Op
		nc, ns := r.Intn(4), r.Intn(4)
		for k := 0; k < nc; k++ {
			rpc.Client = append(rpc.Client, Op{Op: "send", N: size()})
		}
		rpc.Client = append(rpc.Client, Op{Op: "close_send"}, Op{Op: "recv_all"})
		srv = append(srv, Op{Op: "recv_all"})
		for k := 0; k < ns; k++ {
			srv = append(srv, Op{Op: "send", N: size()})
		}
		if r.Chance(1, 6) {
			srv = append(srv, Op{Op: "return", Code: r.Range(1, 16), Msg: "scripted"})
		}
		rpc.Server = [][]Op{srv}
		s.RPCs = append(s.RPCs, rpc)
		cc := miscCompCall{ID: rpc.ID}
		switch r.Intn(8) {
		case 0, 1, 2, 3:
			cc.Use = core.Pick(r, names...)
		case 4:
			cc.Use = "identity"
		case 5:
			if r.Chance(1, 3) {
				cc.Use = "simunreg"
			}
		}
		if r.Chance(1, 3) {
			k := r.Range(1, 3)
			cc.Accept = []string{}
			for j := 0; j < k; j++ {
				cc.Accept = append(cc.Accept, core.Pick(r, names...))
			}
			if r.Chance(1, 4) {
				cc.Accept = append(cc.Accept, "identity")
			}
		}
		if r.Chance(1, 2) {
			cc.SetSend = core.Pick(r, "gzip", "simxor", "simxor2", "simpat", "identity", "simunreg", "simlegacy")
		}
		if miscC27AvoidKnown && c.ServerLegacyComp != "" && cc.SetSend == "identity" {
			cc.SetSend = ""
		}
		if !c.Advertise {
			// nothing is registered by name in this run
			cc.Accept = nil
			if cc.Use != "identity" && cc.Use != "simunreg" {
				cc.Use = ""
			}
		}
		if cc.Use != "" || cc.Accept != nil || cc.SetSend != "" {
			c.Calls = append(c.Calls, cc)
		}
	}
	if r.Chance(1, 8) {
		genFaults(r, s, "stall", "cut_after", "reset")
	}
	s.Ext = map[string]json.RawMessage{"compress": ExtJSON(&c)}
	miscTameNet(s)
	return s
}
