package we

// Extension "lb": a harness LB policy ("sim_lb") plus resolver, per-pick
// bookkeeping, channel state watchers and the oracles of C23 (Done exactly
// once, blocked picks woken), C30 (connectivity state reporting) and C32 (RPCs
// only on READY subchannels via the latest picker), plus the A54 clause of
// C24 for picker errors.
//
// All bookkeeping is lock-free (HARNESS.md rule 3); every record carries an
// e.Next() stamp so that oracles can order causes and effects.

import (
	"context"
	"encoding/json"
	"fmt"
	"strconv"
	"testing/synctest"
	"time"

	"golang.org/x/net/http2"
	"google.golang.org/grpc"
	"google.golang.org/grpc/balancer"
	"google.golang.org/grpc/codes"
	"google.golang.org/grpc/connectivity"
	"google.golang.org/grpc/internal"
	"google.golang.org/grpc/resolver"
	"google.golang.org/grpc/serviceconfig"
	"google.golang.org/grpc/status"

	"google.golang.org/grpc/internal/zzverif/core"
	"google.golang.org/grpc/internal/zzverif/simnet"
	"google.golang.org/grpc/internal/zzverif/tap"
)

// ---- configuration (Scenario.Ext["lb"]) ----

// lbStep is one scripted action of a policy instance, AtNs after the previous
// step (the first one: after the instance received its first resolver update).
type lbStep struct {
	AtNs  int64    `json:"at_ns"`
	Op    string   `json:"op"` // connect | shutdown | newsc | publish | spec | state | addrs | addrs_empty
	SC    int      `json:"sc,omitempty"`
	Spec  []string `json:"spec,omitempty"`
	State int      `json:"state,omitempty"` // op=state: 1+connectivity.State to publish instead of the aggregate; 0 clears
	// op=addrs: UpdateAddresses on SubConn SC with the addresses
	// cfg.Addrs[Addrs[k] mod n] (duplicates and addresses that another live
	// SubConn of the instance holds are dropped; nothing left: no call);
	// op=addrs_empty: UpdateAddresses with an empty list. ViaCC: through
	// balancer.ClientConn.UpdateAddresses instead of SubConn.UpdateAddresses.
	Addrs []int `json:"addrs,omitempty"`
	ViaCC bool  `json:"via_cc,omitempty"`
}

// lbInstCfg scripts the k-th policy instance of a run (a new instance is built
// every time the channel leaves idle mode).
type lbInstCfg struct {
	AutoConnect bool     `json:"auto_connect,omitempty"` // Connect on creation and whenever a SubConn reports IDLE
	Reactive    bool     `json:"reactive,omitempty"`     // publish a new picker on every SubConn state update
	ShutOnClose bool     `json:"shut_on_close,omitempty"`
	Spec        []string `json:"spec,omitempty"` // initial picker spec (see lbPicker.Pick)
	Steps       []lbStep `json:"steps,omitempty"`
	// HCMask: bit (k mod 8) set = the k-th SubConn the instance creates asks for
	// client-side health checking (NewSubConnOptions.HealthCheckEnabled); only
	// effective when lbCfg.Health is set.
	HCMask int `json:"hc_mask,omitempty"`
	// InitSCs > 0: SubConns are created for the first InitSCs resolver addresses
	// only; the others stay free for newsc / addrs steps.
	InitSCs int `json:"init_scs,omitempty"`
}

// lbHealthStep changes the status the simulated backend's health service
// reports, AtNs after the previous step (the first: after the run's start).
type lbHealthStep struct {
	AtNs   int64 `json:"at_ns"`
	Addr   int   `json:"addr,omitempty"` // 0: every address; k>0: cfg.Addrs[(k-1) mod n]
	Status int   `json:"status"`         // see lbHealthCfg.Init
}

// lbHealthCfg switches client-side health checking on: the service config
// carries healthCheckConfig{serviceName:"sim"} and the simulated server answers
// /grpc.health.v1.Health/Watch according to a scripted per-address status:
// 0 UNKNOWN, 1 SERVING, 2 NOT_SERVING, 3 SERVICE_UNKNOWN (the values of
// grpc.health.v1.HealthCheckResponse.ServingStatus), 4: the stream ends with
// UNIMPLEMENTED (no health service: the client treats the backend as healthy),
// 5: the stream ends with UNAVAILABLE.
type lbHealthCfg struct {
	Init    []int          `json:"init,omitempty"`     // initial status of cfg.Addrs[k] = Init[k mod len]; empty: SERVING
	DelayNs int64          `json:"delay_ns,omitempty"` // the handler waits this long before its first response on a stream
	Steps   []lbHealthStep `json:"steps,omitempty"`
}

type lbWatchCfg struct {
	// States[i%len] (1+connectivity.State; 0 = "the current state") is the
	// source state of the i-th WaitForStateChange call.
	States    []int `json:"states,omitempty"`
	TimeoutNs int64 `json:"timeout_ns,omitempty"` // >0: the first calls use a context with this timeout
	Timeouts  int   `json:"timeouts,omitempty"`   // how many calls use the timeout
}

type lbCancelCfg struct {
	RPC  uint32 `json:"rpc_id"`
	AtNs int64  `json:"at_ns"` // after the RPC's start
}

type lbRetryCfg struct {
	MaxAttempts int      `json:"max_attempts"`
	Codes       []string `json:"codes"`
	BackoffNs   int64    `json:"backoff_ns"`
}

type lbCfg struct {
	Seed     uint64        `json:"lb_seed"`
	Addrs    []string      `json:"addrs"`
	Insts    []lbInstCfg   `json:"insts"`
	Watchers []lbWatchCfg  `json:"watchers,omitempty"`
	Cancels  []lbCancelCfg `json:"cancels,omitempty"`
	Retry    *lbRetryCfg   `json:"retry,omitempty"`
	Health   *lbHealthCfg  `json:"health,omitempty"`
	// StrictHeader turns the known loss of a picker status inside
	// ClientStream.Header() (probe picker_status_lost_in_header) into a violation.
	StrictHeader bool `json:"strict_header,omitempty"`
	// StrictAddrs turns the known finding "a health-checked SubConn keeps a
	// connection to an address that UpdateAddresses removed" (probe
	// unlisted_connection_kept_after_update_addresses) into a violation.
	StrictAddrs bool `json:"strict_addrs,omitempty"`
	// Check selects the oracle groups: c23, c30, c32 (empty: all).
	Check []string `json:"check,omitempty"`
}

// ---- run-time records ----

type lbCall struct {
	id       uint32
	st       *rpcState
	startSeq uint64
	startT   time.Time
	cancelAt time.Time // zero: no harness cancel
	cancel   context.CancelFunc
	timer    *time.Timer
	picks    []*lbPick
	stormT   time.Time // picks of this RPC in one virtual instant (see lbPicker.Pick)
	stormN   int
}

type lbCtxKey struct{}

type lbPub struct {
	gen        int
	inst       *lbInst
	aSeq, bSeq uint64
	aT, bT     time.Time
	state      connectivity.State
}

type lbWatcher struct {
	cfg      lbWatchCfg
	blocked  bool
	src      connectivity.State
	sinceSeq uint64
	sinceT   time.Time
	exited   bool
}

type lbExt struct {
	BaseExt
	cfg lbCfg
	w   *run
	e   *core.Env
	t0  time.Time

	insts   []*lbInst
	scs     []*lbSC // all SubConns of the run, creation order
	pubs    []*lbPub
	picks   []*lbPick
	calls   []*lbCall
	nextGen int

	pubBusy  bool
	pubQueue []*lbInst

	scriptCtx    context.Context
	scriptCancel context.CancelFunc
	watchCtx     context.Context
	watchCancel  context.CancelFunc
	watchers     []*lbWatcher

	storm      bool // a retry storm was cut: virtual time may have been warped by the runtime's spin guard
	quiesced   bool
	quiesceSeq uint64
	noPickHdrs []uint32 // RPC ids of request HEADERS without a pick id
	dupPickHdr []int

	// health service of the simulated backends (lb_health.go)
	hstatus []int // per cfg.Addrs index
	hwatch  []*lbHWatch
	hcauses []lbHCause
}

// lbCur is the extension of the run in progress (one run at a time per
// process); the globally registered balancer builder reads it.
var lbCur *lbExt

func init() {
	balancer.Register(lbBuilder{})
	lbParseServiceConfigs()
	// "max retries exhausted" wraps a status error; status.FromError on a
	// wrapped status clones the Status proto, and the first proto.Clone of a
	// process initialises protobuf's reflection tables lazily. Do that here,
	// outside any run, so that it costs no scheduling points in whichever
	// run happens to retry first.
	status.FromError(fmt.Errorf("warm-up: %w", status.Error(codes.Unavailable, "warm-up")))
	RegisterExt("lb", func(raw json.RawMessage) (Ext, error) {
		x := &lbExt{}
		var err error
		if x.cfg, err = lbDecodeCfg(raw); err != nil {
			return nil, err
		}
		if len(x.cfg.Addrs) == 0 {
			x.cfg.Addrs = []string{"srv0"}
		}
		if len(x.cfg.Insts) == 0 {
			x.cfg.Insts = []lbInstCfg{{AutoConnect: true, Reactive: true}}
		}
		return x, nil
	})
}

func (x *lbExt) has(group string) bool {
	if len(x.cfg.Check) == 0 {
		return true
	}
	for _, g := range x.cfg.Check {
		if g == group {
			return true
		}
	}
	return false
}

// ---- resolver ----

type lbResBuilder struct{ x *lbExt }

func (b *lbResBuilder) Scheme() string { return "simres" }
func (b *lbResBuilder) Build(_ resolver.Target, cc resolver.ClientConn, _ resolver.BuildOptions) (resolver.Resolver, error) {
	var as []resolver.Address
	for _, a := range b.x.cfg.Addrs {
		as = append(as, resolver.Address{Addr: a})
	}
	b.x.e.Logf("lb resolver build addrs=%v", b.x.cfg.Addrs)
	key := lbSCKey(b.x.cfg.Retry)
	if b.x.cfg.Health != nil {
		key += "+hc"
	}
	cc.UpdateState(resolver.State{Addresses: as, ServiceConfig: lbParsedSC[key]})
	return lbRes{}, nil
}

type lbRes struct{}

func (lbRes) ResolveNow(resolver.ResolveNowOptions) {}
func (lbRes) Close()                                {}

// ---- Ext ----

// Service configs are parsed once per process, outside any run: parsing JSON
// inside a run goes through process-global reflection caches (sync.Map) whose
// internal layout, and with it the number of scheduling points, differs from
// process to process. The resolver hands the pre-parsed config to the channel.
var lbRetryAttempts = []int{2, 3, 4}
var lbRetryBackoffs = []int64{1000, 30000, 1000000, 10000000}
var lbParsedSC = map[string]*serviceconfig.ParseResult{}

func lbSCKey(rc *lbRetryCfg) string {
	if rc == nil || rc.MaxAttempts < 2 {
		return "plain"
	}
	a := min(rc.MaxAttempts, lbRetryAttempts[len(lbRetryAttempts)-1])
	b := lbRetryBackoffs[len(lbRetryBackoffs)-1]
	for _, v := range lbRetryBackoffs {
		if rc.BackoffNs <= v {
			b = v
			break
		}
	}
	return fmt.Sprintf("%d/%d", a, b)
}

func lbParseServiceConfigs() {
	parse := internal.ParseServiceConfig.(func(string) *serviceconfig.ParseResult)
	const lb = `"loadBalancingConfig":[{"sim_lb":{}}]`
	const hc = `,"healthCheckConfig":{"serviceName":"` + lbHealthService + `"}`
	lbParsedSC["plain"] = parse(`{` + lb + `}`)
	lbParsedSC["plain+hc"] = parse(`{` + lb + hc + `}`)
	for _, a := range lbRetryAttempts {
		for _, b := range lbRetryBackoffs {
			sec := fmt.Sprintf("%d.%09ds", b/1e9, b%1e9)
			mc := fmt.Sprintf(`"methodConfig":[{"name":[{}],"retryPolicy":{"maxAttempts":%d,"initialBackoff":"%s","maxBackoff":"%s","backoffMultiplier":1.5,"retryableStatusCodes":["UNAVAILABLE"]}}]`, a, sec, sec)
			lbParsedSC[fmt.Sprintf("%d/%d", a, b)] = parse(`{` + lb + `,` + mc + `}`)
			lbParsedSC[fmt.Sprintf("%d/%d+hc", a, b)] = parse(`{` + lb + `,` + mc + hc + `}`)
		}
	}
	for k, v := range lbParsedSC {
		if v == nil || v.Err != nil {
			panic(fmt.Sprint("sim_lb: service config ", k, ": ", v))
		}
	}
}

// bind attaches the extension to the run (ServerOpts is the first hook).
func (x *lbExt) bind(w *run) {
	if x.w == w {
		return
	}
	x.w, x.e, x.t0 = w, w.e, time.Now()
	lbCur = x
	x.scriptCtx, x.scriptCancel = context.WithCancel(context.Background())
	x.watchCtx, x.watchCancel = context.WithCancel(context.Background())
	if h := x.cfg.Health; h != nil {
		x.hstatus = make([]int, len(x.cfg.Addrs))
		for k := range x.hstatus {
			x.hstatus[k] = lbHealthServing
			if len(h.Init) > 0 {
				x.hstatus[k] = h.Init[k%len(h.Init)]
			}
		}
	}
}

func (x *lbExt) ServerOpts(w *run) []grpc.ServerOption {
	x.bind(w)
	if x.cfg.Health == nil {
		return nil
	}
	// the world's handler for everything except the health service (a later
	// UnknownServiceHandler option replaces the world's)
	return []grpc.ServerOption{grpc.UnknownServiceHandler(func(srv any, ss grpc.ServerStream) error {
		if m, _ := grpc.MethodFromServerStream(ss); m == lbHealthMethod {
			return x.healthWatch(ss)
		}
		return w.handler(srv, ss)
	})}
}

func (x *lbExt) DialOpts(w *run) []grpc.DialOption {
	x.bind(w)
	opts := []grpc.DialOption{grpc.WithResolvers(&lbResBuilder{x})}
	if x.cfg.Health != nil {
		// the health-check stream marshals protobuf messages; everything else
		// stays on the world's raw codec
		opts = append(opts, grpc.WithDefaultCallOptions(grpc.ForceCodecV2(lbCodec{})))
	}
	return opts
}

func (x *lbExt) Start(w *run) {
	// observe the client's request HEADERS (pick id -> connection, event seq)
	// next to the world's own tap
	old := w.net.OnConn
	w.net.OnConn = func(p *simnet.Pair) {
		if old != nil {
			old(p)
		}
		cw, cr, sw, sr := p.C.OnWrite, p.C.OnRead, p.S.OnWrite, p.S.OnRead
		t := tap.Attach(x.e, p, x.wireSink)
		p.C.OnRead, p.S.OnRead, p.S.OnWrite = cr, sr, sw
		mineC := t.CW.Feed
		p.C.OnWrite = func(b []byte) {
			if cw != nil {
				cw(b)
			}
			mineC(b)
		}
	}
	go x.stuckGuard()
	if x.cfg.Health != nil && len(x.cfg.Health.Steps) > 0 {
		go x.healthScript()
	}
	for i := range x.cfg.Watchers {
		if i >= 4 {
			break
		}
		wt := &lbWatcher{cfg: x.cfg.Watchers[i]}
		x.watchers = append(x.watchers, wt)
		go x.watch(i, wt)
	}
}

func (x *lbExt) wireSink(f *tap.Frame) {
	if f.Phase != 'w' {
		return
	}
	if f.From != 'c' || f.Type != http2.FrameHeaders {
		return
	}
	rv := f.Header("x-sim-rpc")
	if len(rv) != 1 {
		return
	}
	pv := f.Header("x-sim-pick")
	if len(pv) != 1 {
		id, _ := strconv.ParseUint(rv[0], 10, 32)
		x.noPickHdrs = append(x.noPickHdrs, uint32(id))
		return
	}
	id, _ := strconv.Atoi(pv[0])
	if id < 1 || id > len(x.picks) {
		return
	}
	pk := x.picks[id-1]
	if pk.hdrSeq != 0 {
		x.dupPickHdr = append(x.dupPickHdr, id)
		return
	}
	pk.hdrSeq, pk.hdrConn = f.Seq, f.Conn
}

func (x *lbExt) Call(w *run, st *rpcState, ctx context.Context) (context.Context, []grpc.CallOption) {
	c := &lbCall{id: st.r.ID, st: st, startSeq: x.e.Next(), startT: time.Now()}
	x.calls = append(x.calls, c)
	ctx = context.WithValue(ctx, lbCtxKey{}, c)
	for _, cc := range x.cfg.Cancels {
		if cc.RPC == st.r.ID && c.cancel == nil {
			ctx, c.cancel = context.WithCancel(ctx)
			d := time.Duration(cc.AtNs)
			if d < 0 {
				d = 0
			}
			c.cancelAt = c.startT.Add(d)
			id := c.id
			cancel := c.cancel
			c.timer = time.AfterFunc(d, func() {
				x.e.Logf("lb cancel rpc %d", id)
				cancel()
			})
		}
	}
	return ctx, nil
}

// stuckGuard turns an RPC that is still not finished one virtual minute after
// every context of the run has ended into a violation (instead of a run that
// never ends), then tries to get the run going again: it cancels what it can
// and publishes pickers that fail every pick.
func (x *lbExt) stuckGuard() {
	var last int64
	for i := range x.w.sc.RPCs {
		r := &x.w.sc.RPCs[i]
		d := r.DeadlineNs
		if d <= 0 {
			d = int64(defaultDeadline)
		}
		if r.StartNs+d > last {
			last = r.StartNs + d
		}
	}
	t := time.NewTimer(time.Duration(last) + time.Minute)
	select {
	case <-t.C:
	case <-x.scriptCtx.Done():
		t.Stop()
		return
	}
	stuck := false
	for _, id := range sortedIDs(x.w.rpcs) {
		if st := x.w.rpcs[id]; !st.clientDone {
			stuck = true
			x.e.Violate("rpc_stuck_after_context_end", "rpc %d has not finished one minute after its deadline", id)
		}
	}
	if !stuck {
		return
	}
	for _, c := range x.calls {
		if c.cancel != nil {
			c.cancel()
		}
	}
	for _, i := range x.insts {
		if !i.closed {
			i.spec = []string{"st:14"}
			i.publish("stuck guard")
		}
	}
}

func lbState(v int) connectivity.State {
	switch v {
	case 1:
		return connectivity.Idle
	case 2:
		return connectivity.Connecting
	case 3:
		return connectivity.Ready
	case 4:
		return connectivity.TransientFailure
	}
	return connectivity.Shutdown
}

// watch is one WaitForStateChange/GetState caller.
func (x *lbExt) watch(idx int, wt *lbWatcher) {
	defer func() { wt.exited = true }()
	e, conn, ctx := x.e, x.w.Conn, x.watchCtx
	immediate := false
	timeouts := 0
	for it := 0; it < 400 && ctx.Err() == nil; it++ {
		cur := conn.GetState()
		src := cur
		if n := len(wt.cfg.States); n > 0 && !immediate {
			if v := wt.cfg.States[it%n]; v >= 1 && v <= 4 {
				src = lbState(v)
			}
		}
		cctx := ctx
		var cancel context.CancelFunc
		if wt.cfg.TimeoutNs > 0 && timeouts < wt.cfg.Timeouts {
			timeouts++
			cctx, cancel = context.WithTimeout(ctx, time.Duration(wt.cfg.TimeoutNs))
		}
		t0 := time.Now()
		wt.blocked, wt.src, wt.sinceSeq, wt.sinceT = true, src, e.Next(), t0
		ok := conn.WaitForStateChange(cctx, src)
		wt.blocked = false
		ctxDone := cctx.Err() != nil
		if cancel != nil {
			cancel()
		}
		e.Logf("lb watcher %d: cur=%v wait(%v) -> %v", idx, cur, src, ok)
		if ok {
			e.Probe("wfsc_true")
		} else {
			e.Probe("wfsc_false")
			if !ctxDone && x.has("c30") {
				e.Violate("wfsc_false_without_ctx", "watcher %d: WaitForStateChange(%v) returned false although its context is not done", idx, src)
			}
		}
		immediate = ok && time.Now().Equal(t0) && src != cur
	}
}

// AtQuiescence: all client scripts are done and the world has settled.
func (x *lbExt) AtQuiescence(w *run) {
	e := x.e
	// stop the policy scripts first, then let whatever they started last
	// (Shutdown, Connect, UpdateState) take effect
	x.scriptCancel()
	w.settle()
	x.quiesced = true
	x.quiesceSeq = e.Next()
	for _, c := range x.calls {
		if c.timer != nil {
			c.timer.Stop()
		}
		if c.cancel != nil {
			c.cancel()
		}
	}
	if x.has("c30") {
		x.checkChannelAtQuiescence()
	}
	x.watchCancel()
	synctest.Wait()
	if x.has("c30") {
		x.checkSubConnsAtQuiescence()
	}
}

func (x *lbExt) AfterTeardown(w *run) {
	e := x.e
	if lbCur == x {
		lbCur = nil
	}
	for i, wt := range x.watchers {
		if !wt.exited {
			e.Violate("harness", "watcher %d did not exit", i)
		}
	}
	if x.has("c30") {
		if st := w.Conn.GetState(); st != connectivity.Shutdown {
			e.Violate("chan_left_shutdown", "GetState after Close returned %v", st)
		}
		ctx, cancel := context.WithTimeout(context.Background(), time.Millisecond)
		if w.Conn.WaitForStateChange(ctx, connectivity.Shutdown) {
			e.Violate("chan_left_shutdown", "WaitForStateChange(SHUTDOWN) returned true after Close")
		}
		cancel()
		x.checkSubConnLogs()
	}
	x.attribute()
	if x.has("c23") {
		x.checkDone()
		x.checkWake()
		x.checkPickerErrors()
	}
	if x.has("c32") {
		x.checkGenerations()
		x.checkAttempts()
		x.checkBlockingResults()
	}
	x.probes()
}
