package we

import (
	"sort"
	"strings"

	"google.golang.org/grpc/codes"
	"google.golang.org/grpc/metadata"
	"google.golang.org/grpc/status"
	"google.golang.org/protobuf/proto"
)

// lastInvocation returns what the last handler invocation for the RPC returned.
func (st *rpcState) lastReturned() (*status.Status, int) {
	att := st.invocations - 1
	if att < 0 {
		return nil, att
	}
	return st.srvReturned[att], att
}

// localCodes are the codes the client library itself may produce when the
// network is faulty or the RPC is cancelled / times out.
func localCode(c codes.Code) bool {
	switch c {
	case codes.Canceled, codes.DeadlineExceeded, codes.Unavailable, codes.Internal:
		return true
	}
	return false
}

// expectedMessage: invalid UTF-8 bytes are replaced by U+FFFD (one per byte).
func expectedMessage(m string) string { return string([]rune(m)) }

// checkStatus: C10. In a fault-free run without cancellation, deadline or
// server stop the client must observe exactly the handler's status. Otherwise
// it observes either exactly that or a locally generated status; a non-OK
// handler result never becomes nil and a foreign server-looking status never
// appears.
func (w *run) checkStatus(st *rpcState) {
	e := w.e
	id := st.r.ID
	want, att := st.lastReturned()
	got := st.clientStatus
	// clean: nothing but the handler can have produced the status
	clean := !w.faulty && !st.cancelled && st.r.DeadlineNs == 0 && len(w.sc.Actions) == 0 && st.finishedAt.Before(st.deadline)
	if clean {
		if att < 0 {
			e.Violate("status_mismatch", "rpc %d: handler never ran but client finished with %v", id, got.Code())
			return
		}
		if want == nil {
			e.Violate("status_mismatch", "rpc %d: handler attempt %d did not return but client finished with %v", id, att, got.Code())
			return
		}
	}
	same := func(a, b *status.Status) bool {
		if a.Code() == codes.OK && b.Code() == codes.OK {
			return true // a nil error carries no message or details
		}
		if a.Code() != b.Code() || expectedMessage(a.Message()) != b.Message() {
			return false
		}
		da, db := a.Proto().GetDetails(), b.Proto().GetDetails()
		if len(da) != len(db) {
			return false
		}
		for i := range da {
			if !proto.Equal(da[i], db[i]) {
				return false
			}
		}
		return true
	}
	if want != nil && same(want, got) {
		if len(want.Proto().GetDetails()) > 0 {
			e.Probe("status_details_delivered")
		}
		if want.Message() != expectedMessage(want.Message()) {
			e.Probe("status_invalid_utf8_replaced")
		}
		return
	}
	if want != nil && want.Code() == got.Code() && expectedMessage(want.Message()) == got.Message() && len(want.Proto().GetDetails()) > 0 && len(got.Proto().GetDetails()) == 0 && want.Message() != expectedMessage(want.Message()) {
		// separate oracle name: see known_findings.json
		e.Violate("status_details_lost_invalid_utf8", "rpc %d: handler returned code %v with %d details and a message containing invalid UTF-8; the client received the code and the message but no details", id, want.Code(), len(want.Proto().GetDetails()))
		return
	}
	if clean {
		e.Violate("status_mismatch", "rpc %d: handler returned (%v, %q, %d details), client observed (%v, %q, %d details)", id, want.Code(), want.Message(), len(want.Proto().GetDetails()), got.Code(), got.Message(), len(got.Proto().GetDetails()))
		return
	}
	// relaxed: any status some invocation returned, or a local code
	for _, s := range st.srvReturned {
		if s != nil && same(s, got) {
			return
		}
	}
	if got.Code() == codes.OK {
		// OK only if some invocation returned OK (checked above)
		e.Violate("status_ok_without_handler_ok", "rpc %d: client observed OK but no handler invocation returned OK", id)
		return
	}
	if !localCode(got.Code()) {
		// a handler status forwarded by the handler's own receive error is a
		// status the handler returned, so it was matched above; anything else
		// server-looking is foreign
		e.Violate("status_foreign", "rpc %d: client observed (%v, %q) which no handler invocation returned and the client library does not generate locally", id, got.Code(), got.Message())
	}
}

func mdKeys(md metadata.MD) []string {
	var ks []string
	for k := range md {
		ks = append(ks, k)
	}
	sort.Strings(ks)
	return ks
}

func sameVals(a, b []string) bool {
	if len(a) != len(b) {
		return false
	}
	for i := range a {
		if a[i] != b[i] {
			return false
		}
	}
	return true
}

// expectedClientMD computes what the handler must see for the user's pairs.
func expectedClientMD(r *RPC) (metadata.MD, bool) {
	md := metadata.MD{}
	invalid := false
	for _, p := range r.MD {
		if p.Append {
			continue
		}
		k := p.K
		if !p.RawKey {
			k = strings.ToLower(k)
		}
		md[k] = append(md[k], p.val())
	}
	for _, p := range r.MD {
		if p.Append {
			md[strings.ToLower(p.K)] = append(md[strings.ToLower(p.K)], p.val())
		}
	}
	for k, vs := range md {
		if reservedName(k) {
			continue // dropped by the transport, never validated or sent
		}
		if !validKey(k) {
			invalid = true
		}
		if !strings.HasSuffix(k, "-bin") {
			for _, v := range vs {
				for i := 0; i < len(v); i++ {
					if v[i] < 0x20 || v[i] > 0x7e {
						invalid = true
					}
				}
			}
		}
	}
	return md, invalid
}

// validKey: the statement's alphabet: lowercase [0-9a-z-_.], non-empty.
func validKey(k string) bool {
	if k == "" {
		return false
	}
	for i := 0; i < len(k); i++ {
		c := k[i]
		if !(c >= '0' && c <= '9' || c >= 'a' && c <= 'z' || c == '-' || c == '_' || c == '.') {
			return false
		}
	}
	return true
}

func reservedName(k string) bool {
	if strings.HasPrefix(k, ":") {
		return true
	}
	switch k {
	case "content-type", "user-agent", "te", "grpc-status", "grpc-message", "grpc-encoding", "grpc-timeout", "grpc-message-type", "grpc-accept-encoding", "grpc-status-details-bin":
		return true
	}
	return false
}

// checkMetadata: C09, per RPC.
func (w *run) checkMetadata(st *rpcState) {
	e := w.e
	id := st.r.ID
	want, invalid := expectedClientMD(st.r)
	if invalid {
		e.Probe("invalid_user_metadata")
		if st.clientStatus.Code() != codes.Internal {
			e.Violate("invalid_metadata_not_internal", "rpc %d: invalid user metadata, but the RPC finished with %v instead of INTERNAL", id, st.clientStatus.Code())
		}
		if st.invocations > 0 {
			e.Violate("invalid_metadata_sent", "rpc %d: invalid user metadata, but a handler was invoked", id)
		}
		return
	}
	if st.invocations == 0 && !w.faulty && !st.cancelled && st.r.DeadlineNs == 0 && len(w.sc.Actions) == 0 && st.finishedAt.Before(st.deadline) {
		// valid metadata, nothing else in the way: the request must reach a handler
		e.Violate("valid_metadata_not_delivered", "rpc %d: valid user metadata, fault-free run, but no handler was invoked; client status %v %q", id, st.clientStatus.Code(), st.clientStatus.Message())
	}
	for att := 0; att < st.invocations; att++ {
		got := st.srvMD[att]
		for _, k := range mdKeys(want) {
			if reservedName(k) {
				// user-supplied reserved names must not be surfaced as user
				// metadata (except :authority / user-agent, whose values are
				// the transport's, not the user's)
				for _, v := range got[k] {
					for _, uv := range want[k] {
						if v == uv && strings.HasPrefix(uv, "user-marker-") {
							e.Violate("reserved_name_leaked", "rpc %d: user-supplied value for reserved header %q reached the handler", id, k)
						}
					}
				}
				continue
			}
			if !sameVals(got[k], want[k]) {
				e.Violate("metadata_mismatch", "rpc %d attempt %d: key %q: handler saw %d values %q, client sent %d values %q", id, att, k, len(got[k]), trunc(got[k]), len(want[k]), trunc(want[k]))
			}
		}
		for _, k := range mdKeys(got) {
			if _, ok := want[k]; ok {
				continue
			}
			switch k {
			case ":authority", "user-agent", "content-type", "x-sim-rpc", "grpc-previous-rpc-attempts":
			default:
				e.Violate("metadata_extra_key", "rpc %d attempt %d: handler saw key %q that the client did not send", id, att, k)
			}
		}
		if len(want) > 0 {
			e.Probe("metadata_delivered")
		}
	}
	// server -> client: headers and trailers of the last invocation, when the
	// client got that invocation's status
	ret, att := st.lastReturned()
	if att < 0 || ret == nil || st.clientStatus == nil {
		return
	}
	if ret.Code() != st.clientStatus.Code() || w.faulty || st.cancelled || st.r.DeadlineNs != 0 || len(w.sc.Actions) != 0 {
		return
	}
	script := st.r.Server[min(att, len(st.r.Server)-1)]
	wantH, wantT := metadata.MD{}, metadata.MD{}
	for _, op := range script {
		switch op.Op {
		case "set_header", "send_header":
			wantH = metadata.Join(wantH, kvToMD(op.MD))
		case "set_trailer":
			wantT = metadata.Join(wantT, kvToMD(op.MD))
		}
	}
	cmp := func(what string, want, got metadata.MD) {
		for _, k := range mdKeys(want) {
			if !sameVals(got[k], want[k]) {
				e.Violate("response_metadata_mismatch", "rpc %d: %s key %q: client saw %q, handler set %q", id, what, k, trunc(got[k]), trunc(want[k]))
			}
		}
		for _, k := range mdKeys(got) {
			if _, ok := want[k]; ok {
				continue
			}
			switch k {
			case "x-sim-att", "content-type":
			default:
				e.Violate("response_metadata_extra_key", "rpc %d: %s contains key %q that the handler did not set", id, what, k)
			}
		}
	}
	if st.haveHdr {
		cmp("header", wantH, st.hdr)
	}
	cmp("trailer", wantT, st.trailer)
	if len(wantH)+len(wantT) > 0 {
		e.Probe("response_metadata_delivered")
	}
}

func trunc(vs []string) []string {
	out := make([]string, len(vs))
	for i, v := range vs {
		if len(v) > 40 {
			v = v[:40] + "..."
		}
		out[i] = v
	}
	return out
}

// checkWireMetadata: nothing user-supplied travels under a reserved name, and
// RPCs with invalid metadata never put HEADERS on the wire.
func (w *run) checkWireMetadata() {
	e := w.e
	for _, h := range w.reqHeaders {
		st := w.rpcs[h.rpc]
		if st == nil {
			continue
		}
		if _, invalid := expectedClientMD(st.r); invalid {
			e.Violate("invalid_metadata_sent", "rpc %d: invalid user metadata, but HEADERS for it appeared on the wire", h.rpc)
		}
		for _, f := range h.fields {
			if reservedName(f[0]) && strings.HasPrefix(f[1], "user-marker-") {
				e.Violate("reserved_name_sent", "rpc %d: user-supplied value travelled under reserved header name %q", h.rpc, f[0])
			}
		}
	}
}

// checkDeadlineSemantics: C22, per RPC, at quiescence.
func (w *run) checkDeadlineSemantics(st *rpcState) {
	e := w.e
	id := st.r.ID
	if st.clientStatus.Code() == codes.DeadlineExceeded {
		e.Probe("deadline_exceeded")
		if st.finishedAt.Before(st.deadline) && st.invocations == 0 {
			e.Violate("deadline_exceeded_early", "rpc %d: DEADLINE_EXCEEDED %v before the deadline and no handler ever ran", id, st.deadline.Sub(st.finishedAt))
		}
	}
	if st.cancelled && st.clientStatus.Code() == codes.Canceled {
		e.Probe("cancelled")
	}
	for att := 0; att < st.invocations; att++ {
		dl, ok := st.srvDeadline[att]
		if !ok {
			e.Violate("server_deadline_missing", "rpc %d attempt %d: handler context has no deadline although the client set one", id, att)
			continue
		}
		if dl.Before(st.deadline) {
			e.Violate("server_deadline_shortened", "rpc %d attempt %d: handler deadline is %v earlier than the client's", id, att, st.deadline.Sub(dl))
		}
	}
	// handler contexts of finished RPCs are cancelled (fault-free runs: the
	// RST_STREAM / deadline reaches the server)
	if !w.faulty && !w.unsettled {
		for att := 0; att < st.invocations; att++ {
			if st.waitingCtx[att] && st.srvReturned[att] == nil {
				e.Violate("server_ctx_not_cancelled", "rpc %d attempt %d: client finished with %v but the handler's context is still not done at quiescence", id, att, st.clientStatus.Code())
			}
		}
	}
}
