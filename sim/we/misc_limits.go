package we

// misc_limits.go: C21 - effective message size limits are the minimum of all
// configured limits.
//
// The "limits" extension owns every limit source of a run (service config,
// dial-level default call options, per-call options, server options), so the
// oracle's model and the configuration cannot drift apart when a replay file
// is minimised. Compression (which decides the *encoded* size the send limit
// applies to) comes from the "compress" extension.

import (
	"context"
	"encoding/json"
	"fmt"
	"math"

	"google.golang.org/grpc"
	"google.golang.org/grpc/codes"
	"google.golang.org/grpc/internal/zzverif/core"
)

type miscCallLim struct {
	ID   uint32 `json:"rpc_id"`
	Recv *int   `json:"recv,omitempty"`
	Send *int   `json:"send,omitempty"`
}

type miscLimitsCfg struct {
	// service config: which name selects the limits (0 none, 1 default entry
	// {}, 2 service entry, 3 method entry); Decoy adds an entry for another
	// method with other limits, which must not apply.
	SCMode int  `json:"sc_mode"`
	SCReq  *int `json:"sc_req,omitempty"`
	SCResp *int `json:"sc_resp,omitempty"`
	Decoy  bool `json:"decoy,omitempty"`
	// dial level: grpc.WithDefaultCallOptions(MaxCall{Recv,Send}MsgSize)
	DialRecv *int `json:"dial_recv,omitempty"`
	DialSend *int `json:"dial_send,omitempty"`
	// call level
	Calls []miscCallLim `json:"calls,omitempty"`
	// server options
	SrvRecv *int `json:"srv_recv,omitempty"`
	SrvSend *int `json:"srv_send,omitempty"`
}

type miscLimitsExt struct {
	BaseExt
	cfg miscLimitsCfg
	sh  *miscShared
}

func init() {
	RegisterExt("limits", func(raw json.RawMessage) (Ext, error) {
		x := &miscLimitsExt{}
		if err := json.Unmarshal(raw, &x.cfg); err != nil {
			return nil, err
		}
		return x, nil
	})
	core.Register("C21", miscGenC21, Run)
}

// Documented defaults (grpc.MaxCallRecvMsgSize, MaxCallSendMsgSize,
// MaxRecvMsgSize, MaxSendMsgSize).
const (
	miscDefRecv = 4 * 1024 * 1024
	miscDefSend = math.MaxInt32
)

func (x *miscLimitsExt) serviceConfig() string {
	c := &x.cfg
	if c.SCMode == 0 {
		return ""
	}
	lim := func(req, resp *int) string {
		s := ""
		if req != nil {
			s += fmt.Sprintf(`,"maxRequestMessageBytes":%d`, *req)
		}
		if resp != nil {
			s += fmt.Sprintf(`,"maxResponseMessageBytes":%d`, *resp)
		}
		return s
	}
	name := `{}`
	switch c.SCMode {
	case 2:
		name = `{"service":"sim.Svc"}`
	case 3:
		name = `{"service":"sim.Svc","method":"M"}`
	}
	entries := fmt.Sprintf(`{"name":[%s]%s}`, name, lim(c.SCReq, c.SCResp))
	if c.Decoy {
		one, big := 1, 1<<30
		// a different method of the same service, and (when ours is more
		// specific than the default entry) a default entry: neither applies
		entries += fmt.Sprintf(`,{"name":[{"service":"sim.Svc","method":"Other"}]%s}`, lim(&one, &one))
		if c.SCMode >= 2 {
			entries += fmt.Sprintf(`,{"name":[{}]%s}`, lim(&big, &one))
		}
	}
	return `{"methodConfig":[` + entries + `]}`
}

func (x *miscLimitsExt) ServerOpts(w *run) []grpc.ServerOption {
	x.sh = miscState(w)
	var o []grpc.ServerOption
	if x.cfg.SrvRecv != nil {
		o = append(o, grpc.MaxRecvMsgSize(*x.cfg.SrvRecv))
	}
	if x.cfg.SrvSend != nil {
		o = append(o, grpc.MaxSendMsgSize(*x.cfg.SrvSend))
	}
	return o
}

func (x *miscLimitsExt) DialOpts(w *run) []grpc.DialOption {
	var o []grpc.DialOption
	var co []grpc.CallOption
	if x.cfg.DialRecv != nil {
		co = append(co, grpc.MaxCallRecvMsgSize(*x.cfg.DialRecv))
	}
	if x.cfg.DialSend != nil {
		co = append(co, grpc.MaxCallSendMsgSize(*x.cfg.DialSend))
	}
	if len(co) > 0 {
		o = append(o, grpc.WithDefaultCallOptions(co...))
	}
	if sc := x.serviceConfig(); sc != "" {
		o = append(o, grpc.WithDefaultServiceConfig(sc))
	}
	return o
}

func (x *miscLimitsExt) call(id uint32) *miscCallLim {
	for i := range x.cfg.Calls {
		if x.cfg.Calls[i].ID == id {
			return &x.cfg.Calls[i]
		}
	}
	return nil
}

func (x *miscLimitsExt) Call(w *run, st *rpcState, ctx context.Context) (context.Context, []grpc.CallOption) {
	var o []grpc.CallOption
	if c := x.call(st.r.ID); c != nil {
		if c.Recv != nil {
			o = append(o, grpc.MaxCallRecvMsgSize(*c.Recv))
		}
		if c.Send != nil {
			o = append(o, grpc.MaxCallSendMsgSize(*c.Send))
		}
	}
	return ctx, o
}

// miscEff: the statement's rule. sc and opt are nil when unset.
func miscEff(sc, opt *int, def int) int {
	switch {
	case sc == nil && opt == nil:
		return def
	case sc == nil:
		return *opt
	case opt == nil:
		return *sc
	}
	return min(*sc, *opt)
}

// effective limits of one RPC: client send, client recv, server recv, server send
func (x *miscLimitsExt) effective(id uint32) (cs, cr, sr, ss int) {
	c := &x.cfg
	var scReq, scResp *int
	if c.SCMode != 0 {
		scReq, scResp = c.SCReq, c.SCResp
	}
	optS, optR := c.DialSend, c.DialRecv
	if cl := x.call(id); cl != nil {
		if cl.Send != nil {
			optS = cl.Send
		}
		if cl.Recv != nil {
			optR = cl.Recv
		}
	}
	cs = miscEff(scReq, optS, miscDefSend)
	cr = miscEff(scResp, optR, miscDefRecv)
	sr, ss = miscDefRecv, miscDefSend
	if c.SrvRecv != nil {
		sr = *c.SrvRecv
	}
	if c.SrvSend != nil {
		ss = *c.SrvSend
	}
	return
}

// bigProbes reports which of the "which limit sources are set" combinations a
// message next to the documented 4 MiB default met (coverage only).
func (x *miscLimitsExt) bigProbes(w *run, id uint32, cmsgs, smsgs []int) {
	e := w.e
	c := &x.cfg
	near := func(n int) bool { return n >= miscDefRecv-(1<<17) && n <= miscDefRecv+(1<<17) }
	var scResp, scReq *int
	if c.SCMode != 0 {
		scReq, scResp = c.SCReq, c.SCResp
	}
	optS, optR := c.DialSend, c.DialRecv
	if cl := x.call(id); cl != nil {
		if cl.Send != nil {
			optS = cl.Send
		}
		if cl.Recv != nil {
			optR = cl.Recv
		}
	}
	combo := func(sc, opt *int) string {
		switch {
		case sc != nil && opt != nil:
			return "both"
		case sc != nil:
			return "sc_only"
		case opt != nil:
			return "option_only"
		}
		return "neither"
	}
	for _, n := range smsgs {
		if !near(n) {
			continue
		}
		e.Probe("c21_big_response_client_recv_" + combo(scResp, optR))
		if eff := miscEff(scResp, optR, miscDefRecv); n > miscDefRecv && n <= eff {
			e.Probe("c21_big_response_above_default_within_" + combo(scResp, optR))
		}
	}
	for _, n := range cmsgs {
		if !near(n) {
			continue
		}
		e.Probe("c21_big_request_client_send_" + combo(scReq, optS))
		if c.SrvRecv != nil {
			e.Probe("c21_big_request_server_recv_option")
			if n > miscDefRecv && n <= *c.SrvRecv {
				e.Probe("c21_big_request_above_default_within_server_option")
			}
		} else {
			e.Probe("c21_big_request_server_recv_default")
		}
	}
}

// AtQuiescence: the C21 oracle. It assumes the generator's script shape:
// client sends its messages, half-closes and drains; the handler reads
// everything, then sends its messages and returns; no faults, no cancellation,
// no retry policy.
func (x *miscLimitsExt) AtQuiescence(w *run) {
	e := w.e
	if w.faulty || len(w.sc.Actions) > 0 {
		return
	}
	comp := miscCompressOf(w)
	for _, id := range miscSortedRPCs(w.sc) {
		st := w.rpcs[id]
		if !miscClean(st) {
			continue
		}
		cs, cr, sr, ss := x.effective(id)
		reqEnc, respEnc := "", ""
		if comp != nil {
			reqEnc, respEnc = comp.simpleEnc(id)
		}
		var cmsgs, smsgs []int
		for _, op := range st.r.Client {
			if op.Op == "send" {
				cmsgs = append(cmsgs, op.N)
			}
		}
		script := st.r.Server[0]
		for _, op := range script {
			if op.Op == "send" {
				smsgs = append(smsgs, op.N)
			}
		}
		x.bigProbes(w, id, cmsgs, smsgs)
		// ---- wire: nothing above the sender's limit is ever transmitted ----
		for _, ws := range x.sh.wire.streamsOf(id) {
			for i, m := range ws.C.Msgs {
				if m.Len > cs {
					e.Violate("send_limit_exceeded_on_wire", "rpc %d: client message %d with %d encoded bytes was transmitted although the effective client send limit is %d", id, i, m.Len, cs)
				}
			}
			for i, m := range ws.S.Msgs {
				if m.Len > ss {
					e.Violate("send_limit_exceeded_on_wire", "rpc %d: server message %d with %d encoded bytes was transmitted although the server send limit is %d", id, i, m.Len, ss)
				}
			}
		}
		// ---- model ----
		over := false // some message on the reached path is over a limit
		srvMax := 0   // messages the handler may receive at most
		cliMax := 0   // messages the client may receive at most
		exact := true // encoded sizes known to the harness
		clientPathOK := true
		for _, n := range cmsgs {
			enc, ok := miscEncLen(reqEnc, n)
			if !ok || (n == 0 && reqEnc != "") {
				exact = false
				break
			}
			if enc > cs {
				e.Probe("c21_client_send_over")
				over, clientPathOK = true, false
				break
			}
			if enc > sr || n > sr {
				if n > sr && enc <= sr {
					e.Probe("c21_server_recv_over_after_decompress")
				} else {
					e.Probe("c21_server_recv_over")
				}
				over, clientPathOK = true, false
				break
			}
			srvMax++
		}
		if exact && clientPathOK {
			for _, n := range smsgs {
				enc, ok := miscEncLen(respEnc, n)
				if !ok || (n == 0 && respEnc != "") {
					exact = false
					break
				}
				if enc > ss {
					e.Probe("c21_server_send_over")
					over = true
					break
				}
				if enc > cr || n > cr {
					if n > cr && enc <= cr {
						e.Probe("c21_client_recv_over_after_decompress")
					} else {
						e.Probe("c21_client_recv_over")
					}
					over = true
					break
				}
				cliMax++
			}
		}
		if !exact {
			e.Probe("c21_unmodelled")
			continue
		}
		got := st.clientStatus.Code()
		if st.srvRecv[0] > srvMax {
			e.Violate("over_limit_message_delivered", "rpc %d: handler received %d messages, but message %d exceeds a limit (client send %d, server recv %d)", id, st.srvRecv[0], srvMax, cs, sr)
		}
		if st.recvd > cliMax {
			e.Violate("over_limit_message_delivered", "rpc %d: client received %d messages, but message %d exceeds a limit (server send %d, client recv %d) or could not have been sent", id, st.recvd, cliMax, ss, cr)
		}
		if over {
			if got != codes.ResourceExhausted {
				e.Violate("over_limit_not_resource_exhausted", "rpc %d: a message exceeds a limit (client send %d recv %d, server recv %d send %d; encodings %q/%q; client sizes %v, server sizes %v) but the RPC finished with %v instead of RESOURCE_EXHAUSTED", id, cs, cr, sr, ss, reqEnc, respEnc, cmsgs, smsgs, got)
			}
			continue
		}
		// everything within the limits: delivered intact (contents are
		// compared by the world's recv_payload oracle), handler's status
		e.Probe("c21_within_limits")
		want, _ := st.lastReturned()
		if st.invocations != 1 || want == nil {
			e.Violate("within_limits_failed", "rpc %d: every message is within the limits (client send %d recv %d, server recv %d send %d) but the handler ran %d times and the client finished with %v", id, cs, cr, sr, ss, st.invocations, got)
			continue
		}
		if got != want.Code() || st.srvRecv[0] != len(cmsgs) || st.recvd != len(smsgs) {
			e.Violate("within_limits_failed", "rpc %d: every message is within the limits (client send %d recv %d, server recv %d send %d; encodings %q/%q; client sizes %v, server sizes %v) but the client finished with %v (handler %v), handler got %d/%d messages, client got %d/%d", id, cs, cr, sr, ss, reqEnc, respEnc, cmsgs, smsgs, got, want.Code(), st.srvRecv[0], len(cmsgs), st.recvd, len(smsgs))
		}
	}
}

// ---- generator ----

func miscIntP(v int) *int { return &v }

func miscGenC21(seed uint64, tier string) *Scenario {
	r := core.NewRand(seed)
	s := &Scenario{Sched: genSched(r, seed), Net: genNet(r, seed)}
	s.Oracles = []string{"recv_payload", "status_error"}
	s.Client.DisableRetry = true
	s.Server.StreamWindow, s.Server.ConnWindow, s.Server.Static = genWindows(r)
	s.Client.StreamWindow, s.Client.ConnWindow, s.Client.Static = genWindows(r)
	// focus size: the message size the limits are placed around
	focus := r.LogUniform(1, 70000)
	if r.Chance(1, 3) {
		focus = r.Range(1, 40)
	}
	if r.Chance(1, 25) {
		// messages and limits around the documented 4 MiB receive default
		return miscGenC21Big(r, s)
	}
	if s.Net.SegMax > 0 && s.Net.SegMax < 100 && focus > 20000 {
		focus = r.Range(1, 20000)
	}
	small := r.LogUniform(1, 3000)
	enc := core.Pick(r, "", "", "simxor", "simpat", "simxor2")
	overhead := 0
	if enc == "simxor" || enc == "simxor2" {
		overhead = miscXorOverhead
	}
	lim := func() *int {
		switch r.Intn(9) {
		case 0, 1, 2:
			return nil
		case 3:
			return miscIntP(small)
		case 4:
			return miscIntP(max(focus-1, 0))
		case 5:
			return miscIntP(focus)
		case 6:
			return miscIntP(focus + 1)
		case 7:
			return miscIntP(focus*2 + 7)
		}
		if r.Chance(1, 4) {
			return miscIntP(0)
		}
		return miscIntP(focus + r.Range(-3, 3) + overhead)
	}
	var c miscLimitsCfg
	c.SCMode = r.Intn(4)
	if c.SCMode != 0 {
		c.SCReq, c.SCResp = lim(), lim()
		c.Decoy = r.Chance(1, 2)
	}
	c.DialRecv, c.DialSend = lim(), lim()
	c.SrvRecv, c.SrvSend = lim(), lim()
	size := func() int {
		var n int
		switch r.Intn(8) {
		case 0:
			n = focus - 1
		case 1, 2:
			n = focus
		case 3:
			n = focus + 1
		case 4:
			n = focus - overhead + r.Range(-1, 1)
		case 5:
			n = small + r.Range(-1, 1) - overhead*r.Intn(2)
		case 6:
			n = r.Range(1, 30)
		default:
			n = r.LogUniform(1, focus)
		}
		if n < 1 {
			n = 1
			if enc == "" && r.Chance(1, 2) {
				n = 0
			}
		}
		return n
	}
	nr := r.Range(1, 5)
	var calls []miscCompCall
	for i := 0; i < nr; i++ {
		rpc := RPC{ID: uint32(i + 1), StartNs: int64(r.Intn(2)) * int64(r.Intn(300000))}
		var srv []Op
		nc, ns := r.Intn(4), r.Intn(4)
		for k := 0; k < nc; k++ {
			rpc.Client = append(rpc.Client, Op{Op: "send", N: size()})
		}
		rpc.Client = append(rpc.Client, Op{Op: "close_send"}, Op{Op: "recv_all"})
		srv = append(srv, Op{Op: "recv_all"})
		for k := 0; k < ns; k++ {
			srv = append(srv, Op{Op: "send", N: size()})
		}
		if r.Chance(1, 6) {
			srv = append(srv, Op{Op: "return", Code: r.Range(1, 16), Msg: "scripted"})
		}
		rpc.Server = [][]Op{srv}
		s.RPCs = append(s.RPCs, rpc)
		if r.Chance(1, 2) {
			cl := miscCallLim{ID: rpc.ID}
			if r.Chance(2, 3) {
				cl.Recv = lim()
			}
			if r.Chance(2, 3) {
				cl.Send = lim()
			}
			if cl.Recv != nil || cl.Send != nil {
				c.Calls = append(c.Calls, cl)
			}
		}
		if enc != "" {
			calls = append(calls, miscCompCall{ID: rpc.ID, Use: enc})
		}
	}
	s.Ext = map[string]json.RawMessage{"limits": ExtJSON(&c)}
	if enc != "" {
		s.Ext["compress"] = ExtJSON(&miscCompressCfg{Advertise: true, Calls: calls})
	}
	miscTameNet(s)
	return s
}

// miscGenC21Big: one RPC with one message next to the documented 4 MiB receive
// default, with every combination of "which limit sources are set" (service
// config, dial/call option, both, neither) in the direction under test, limits
// on either side of the default. Directions with a reachable default: the
// client's receive limit (responses) and the server's receive limit (requests;
// the client's send limits, whose default MaxInt32 is out of reach, are then
// placed around the same size). Big messages are expensive to simulate: ideal
// network, a single RPC, one big message.
func miscGenC21Big(r *core.Rand, s *Scenario) *Scenario {
	const D = miscDefRecv
	s.Net.SegMax, s.Net.SegMin, s.Net.LatencyNs, s.Net.StallPct, s.Net.InflightCap, s.Net.ReadMax = 0, 0, 0, 0, 0, 0
	s.Server.StreamWindow, s.Server.ConnWindow, s.Client.StreamWindow, s.Client.ConnWindow = 1<<20, 4<<20, 1<<20, 4<<20
	// simpat: 4 MiB decoded, 16 bytes on the wire; identity moves every byte
	// through both transports and four wire taps (about a second of wall time)
	enc := core.Pick(r, "", "simpat", "simpat", "simpat")
	near := func() int {
		d := core.Pick(r, 1, 1, 2, 1024, 65536, r.Range(1, 65536))
		if r.Chance(1, 4) {
			return D - d
		}
		return D + d
	}
	var c miscLimitsCfg
	// the sources of the limit under test
	which := r.Intn(4) // bit 0: service config, bit 1: option
	var sc, opt *int
	if which&1 != 0 {
		sc = miscIntP(near())
	}
	if which&2 != 0 {
		opt = miscIntP(near())
		if sc != nil && r.Chance(1, 3) {
			*opt = *sc + core.Pick(r, -1, 0, 1)
		}
	}
	c.SCMode = r.Intn(4)
	if sc != nil && c.SCMode == 0 {
		c.SCMode = r.Range(1, 3)
	}
	c.Decoy = c.SCMode != 0 && r.Chance(1, 2)
	rpc := RPC{ID: 1}
	var call miscCallLim
	call.ID = rpc.ID
	// an option reaches the RPC as dial-level default, per call, or per call
	// overriding a dial-level decoy
	place := func(v *int, dial, percall **int) {
		if v == nil {
			return
		}
		switch r.Intn(3) {
		case 0:
			*dial = v
		case 1:
			*percall = v
		default:
			*dial, *percall = miscIntP(core.Pick(r, 1, 100, D, 2*D, *v+1, max(*v-1, 0))), v
		}
	}
	eff := 0 // the effective limit the big message is placed around
	reqDir := r.Chance(1, 3)
	if reqDir {
		// request direction: server receive limit (option or default) and client
		// send limit (service config / option, default out of reach)
		if r.Chance(1, 2) {
			c.SrvRecv = miscIntP(near())
		}
		c.SCReq = sc
		place(opt, &c.DialSend, &call.Send)
		srv := D
		if c.SrvRecv != nil {
			srv = *c.SrvRecv
		}
		eff = min(srv, miscEff(sc, opt, miscDefSend))
		if r.Chance(1, 4) {
			eff = srv
		}
		if c.SCMode != 0 && r.Chance(1, 3) {
			c.SCResp = miscIntP(core.Pick(r, 0, 50, 5000, D, near()))
		}
	} else {
		// response direction: client receive limit
		c.SCResp = sc
		place(opt, &c.DialRecv, &call.Recv)
		eff = miscEff(sc, opt, D)
		if r.Chance(1, 6) {
			c.SrvSend = miscIntP(near())
		}
		if c.SCMode != 0 && r.Chance(1, 3) {
			c.SCReq = miscIntP(core.Pick(r, 0, 50, 5000, D, near()))
		}
	}
	if call.Recv != nil || call.Send != nil {
		c.Calls = append(c.Calls, call)
	}
	cands := []int{eff - 1, eff, eff, eff + 1, D - 1, D, D + 1}
	if sc != nil {
		cands = append(cands, *sc, *sc+1)
	}
	if opt != nil {
		cands = append(cands, *opt, *opt+1)
	}
	big := cands[r.Intn(len(cands))]
	if big < 1 {
		big = 1
	}
	small := func() int { return core.Pick(r, 1, 20, 3000) }
	var srv []Op
	if reqDir {
		if r.Chance(1, 4) {
			rpc.Client = append(rpc.Client, Op{Op: "send", N: small()})
		}
		rpc.Client = append(rpc.Client, Op{Op: "send", N: big})
	} else if r.Chance(1, 2) {
		rpc.Client = append(rpc.Client, Op{Op: "send", N: small()})
	}
	rpc.Client = append(rpc.Client, Op{Op: "close_send"}, Op{Op: "recv_all"})
	srv = append(srv, Op{Op: "recv_all"})
	if !reqDir {
		if r.Chance(1, 4) {
			srv = append(srv, Op{Op: "send", N: small()})
		}
		srv = append(srv, Op{Op: "send", N: big})
	} else if r.Chance(1, 2) {
		srv = append(srv, Op{Op: "send", N: small()})
	}
	if r.Chance(1, 8) {
		srv = append(srv, Op{Op: "return", Code: r.Range(1, 16), Msg: "scripted"})
	}
	rpc.Server = [][]Op{srv}
	s.RPCs = append(s.RPCs, rpc)
	s.Ext = map[string]json.RawMessage{"limits": ExtJSON(&c)}
	if enc != "" {
		s.Ext["compress"] = ExtJSON(&miscCompressCfg{Advertise: true, Calls: []miscCompCall{{ID: rpc.ID, Use: enc}}})
	}
	miscTameNet(s)
	return s
}
