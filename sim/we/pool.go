package we

import (
	"unsafe"

	"google.golang.org/grpc/internal/zzverif/core"
)

// trackPool is a mem.BufferPool that never reuses memory: every Get is a
// fresh allocation, every Put poisons the buffer. Double Puts, Puts of
// foreign buffers and buffers never returned are detected by identity.
type trackPool struct {
	e     *core.Env
	live  map[unsafe.Pointer]int
	freed map[unsafe.Pointer]bool
	gets  int
	puts  int
	keep  [][]byte // keeps freed memory reachable so addresses stay unique
}

func newTrackPool(e *core.Env) *trackPool {
	return &trackPool{e: e, live: map[unsafe.Pointer]int{}, freed: map[unsafe.Pointer]bool{}}
}

func (p *trackPool) Get(n int) *[]byte {
	c := n
	if c == 0 {
		c = 1
	}
	b := make([]byte, n, c)
	p.live[unsafe.Pointer(unsafe.SliceData(b))] = n
	p.gets++
	return &b
}

func (p *trackPool) Put(bp *[]byte) {
	if bp == nil {
		return
	}
	b := *bp
	k := unsafe.Pointer(unsafe.SliceData(b))
	if _, ok := p.live[k]; ok {
		delete(p.live, k)
		p.freed[k] = true
		p.puts++
		b = b[:cap(b)]
		for i := range b {
			b[i] = 0xDB
		}
		p.keep = append(p.keep, b)
		return
	}
	if p.freed[k] {
		p.e.Violate("buffer_double_put", "a pooled buffer (cap %d) was returned to the pool twice", cap(b))
		return
	}
	p.e.Probe("pool_foreign_put")
}

func (p *trackPool) checkEnd(strict bool) {
	p.e.ProbeN("pool_gets", p.gets)
	if len(p.live) > 0 {
		if strict {
			total := 0
			for _, n := range p.live {
				total += n
			}
			p.e.Violate("buffer_leak", "%d pooled buffers (%d bytes) were never returned to the pool after both endpoints were closed", len(p.live), total)
		} else {
			p.e.ProbeN("pool_unreturned", len(p.live))
		}
	}
}
