package we

import (
	"context"
	"encoding/json"
	"fmt"
	"sort"

	"google.golang.org/grpc"
	"google.golang.org/grpc/internal/zzverif/core"
)

// Ext is an optional extension of the end-to-end world: a property-specific
// piece of configuration, observation and oracle that plugs into the shared
// runner without editing it. An extension is selected by a key in
// Scenario.Ext; its value is the extension's own JSON configuration (explicit
// and replayable like the rest of the scenario).
//
// All methods run inside the bubble. State shared with grpc callbacks needs
// no locks (see HARNESS.md on atomicity) and must not use any.
type Ext interface {
	// ServerOpts / DialOpts add options before the server / client is built.
	ServerOpts(w *run) []grpc.ServerOption
	DialOpts(w *run) []grpc.DialOption
	// Start runs once after the ClientConn was created (w.Conn, w.Srv set),
	// before any RPC goroutine starts.
	Start(w *run)
	// Call may derive the per-RPC context and add call options.
	Call(w *run, st *rpcState, ctx context.Context) (context.Context, []grpc.CallOption)
	// AtQuiescence runs after all client scripts finished and the world
	// settled (no goroutine runnable, no byte in flight), before teardown.
	AtQuiescence(w *run)
	// AfterTeardown runs after ClientConn.Close, Server.Stop and a grace hour.
	AfterTeardown(w *run)
}

// BaseExt provides no-op defaults.
type BaseExt struct{}

func (BaseExt) ServerOpts(w *run) []grpc.ServerOption { return nil }
func (BaseExt) DialOpts(w *run) []grpc.DialOption     { return nil }
func (BaseExt) Start(w *run)                          {}
func (BaseExt) Call(w *run, st *rpcState, ctx context.Context) (context.Context, []grpc.CallOption) {
	return ctx, nil
}
func (BaseExt) AtQuiescence(w *run)  {}
func (BaseExt) AfterTeardown(w *run) {}

var extFactories = map[string]func(raw json.RawMessage) (Ext, error){}

// RegisterExt registers an extension factory under a scenario key.
func RegisterExt(key string, f func(raw json.RawMessage) (Ext, error)) { extFactories[key] = f }

func (s *Scenario) buildExts() error {
	s.exts = nil
	keys := make([]string, 0, len(s.Ext))
	for k := range s.Ext {
		keys = append(keys, k)
	}
	sort.Strings(keys)
	for _, k := range keys {
		f := extFactories[k]
		if f == nil {
			return fmt.Errorf("unknown extension %q", k)
		}
		x, err := f(s.Ext[k])
		if err != nil {
			return fmt.Errorf("extension %q: %v", k, err)
		}
		s.exts = append(s.exts, x)
	}
	return nil
}

func (w *run) initExts() bool {
	w.exts = w.sc.exts
	return true
}

// ExtJSON marshals an extension config for a generator.
func ExtJSON(v any) json.RawMessage {
	b, err := json.Marshal(v)
	if err != nil {
		panic(fmt.Sprint("ExtJSON: ", err))
	}
	return b
}

// Accessors for extensions (the run's fields are unexported on purpose).
func (w *run) Env() *core.Env          { return w.e }
func (w *run) Scenario() *Scenario     { return w.sc }
func (w *run) RPC(id uint32) *rpcState { return w.rpcs[id] }
