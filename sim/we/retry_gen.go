package we

import (
	"encoding/json"
	"time"

	"google.golang.org/grpc/internal/zzverif/core"
	"google.golang.org/grpc/internal/zzverif/simnet"
)

type rawJSON = json.RawMessage

const rtPbKey = "grpc-retry-pushback-ms"

func rtGenPolicy(r *core.Rand) *rtPolicy {
	p := &rtPolicy{MaxAttempts: r.Range(2, 5)}
	if r.Chance(1, 6) {
		p.MaxAttempts = r.Range(6, 9) // above the channel's default cap
	}
	p.InitialNs = int64(core.Pick(r, 1, 10, 10, 50, 100, 100, 1000, 3000)) * int64(time.Millisecond)
	switch r.Intn(4) {
	case 0:
		p.MaxNs = p.InitialNs
	case 1:
		p.MaxNs = p.InitialNs * int64(core.Pick(r, 2, 3, 10))
	case 2:
		p.MaxNs = int64(core.Pick(r, 5, 20)) * int64(time.Second)
	default:
		p.MaxNs = p.InitialNs/2 + 1 // cap below the initial backoff
	}
	p.Mult = core.Pick(r, 1.0, 1.5, 2.0, 2.0, 3.7, 0.5, 10.0)
	all := []int{14, 14, 10, 13, 8, 2, 4, 1}
	n := r.Range(1, 3)
	seen := map[int]bool{}
	for len(p.Codes) < n {
		c := all[r.Intn(len(all))]
		if !seen[c] {
			seen[c] = true
			p.Codes = append(p.Codes, c)
		}
	}
	return p
}

func rtGenThrottle(r *core.Rand) *rtThrottle {
	t := &rtThrottle{}
	t.MaxMilli = int64(core.Pick(r, 1000, 2000, 3000, 4000, 5000, 10000, 2500, 1500, 100000))
	t.RatioMilli = int64(core.Pick(r, 500, 1000, 250, 125, 2000, 100, 300, 750, 1, 4000))
	return t
}

func rtPushbackMD(r *core.Rand, kind int) []KV {
	switch kind {
	case 0: // valid
		return []KV{{K: rtPbKey, V: core.Pick(r, "0", "1", "37", "250", "2000", "12345")}}
	case 1: // negative
		return []KV{{K: rtPbKey, V: core.Pick(r, "-1", "-250", "-2147483648")}}
	case 2: // malformed
		return []KV{{K: rtPbKey, V: core.Pick(r, "abc", "1.5", "", "5ms", "0x10", "99999999999999999999", "1e3", "ten")}}
	default: // several values
		return []KV{{K: rtPbKey, V: core.Pick(r, "10", "0", "-1")}, {K: rtPbKey, V: core.Pick(r, "20", "x", "10")}}
	}
}

type rtGenOpts struct {
	sizes      func() int
	maxMsgs    int
	commitPct  int // % of failing scripts that send headers or a message first
	pushbackPc int // % of failing scripts that carry a pushback trailer
	sleepPct   int // % of failing scripts that sleep first (client runs ahead)
	headerOp   bool
	headerPct  int
	// noMsgFail: failing scripts never send a message. The world's wire ledger
	// attributes a response stream without x-sim-att header (scripts without
	// sends) to invocation 0, which is only right if invocation 0 sent nothing
	// or no later invocation exists; under connection faults a message of
	// invocation 0 can get lost and the RPC be retried.
	noMsgFail bool
}

// rtGenRPC builds one logical RPC: a client script and one handler script per
// invocation: nFail failing ones, then the final one.
func rtGenRPC(r *core.Rand, id uint32, p *rtPolicy, o rtGenOpts, nFail int) RPC {
	rpc := RPC{ID: id}
	style := r.Intn(4)
	k := r.Range(0, o.maxMsgs)
	if style == 0 {
		k = 1
	}
	if style == 2 && k == 0 {
		k = 1
	}
	nap := func() Op {
		return Op{Op: "sleep", Ns: int64(core.Pick(r, 1000, 1000000, 5000000, 30000000, 400000000))}
	}
	nResp := r.Range(0, 2)
	var okSrv []Op
	switch style {
	case 0, 1: // unary-like / client streaming
		for i := 0; i < k; i++ {
			rpc.Client = append(rpc.Client, Op{Op: "send", N: o.sizes()})
			if style == 1 && r.Chance(1, 3) {
				rpc.Client = append(rpc.Client, nap())
			}
		}
		rpc.Client = append(rpc.Client, Op{Op: "close_send"})
		okSrv = append(okSrv, Op{Op: "recv_all"})
		for i := 0; i < nResp; i++ {
			okSrv = append(okSrv, Op{Op: "send", N: o.sizes()})
		}
	case 2: // bidi ping-pong
		for i := 0; i < k; i++ {
			rpc.Client = append(rpc.Client, Op{Op: "send", N: o.sizes()}, Op{Op: "recv"})
			okSrv = append(okSrv, Op{Op: "recv"}, Op{Op: "send", N: o.sizes()})
		}
		rpc.Client = append(rpc.Client, Op{Op: "close_send"})
		okSrv = append(okSrv, Op{Op: "recv_all"})
	default: // client never half-closes
		for i := 0; i < k; i++ {
			rpc.Client = append(rpc.Client, Op{Op: "send", N: o.sizes()})
			if r.Chance(1, 3) {
				rpc.Client = append(rpc.Client, nap())
			}
		}
		for i := 0; i < k; i++ {
			okSrv = append(okSrv, Op{Op: "recv"})
		}
		for i := 0; i < nResp; i++ {
			okSrv = append(okSrv, Op{Op: "send", N: o.sizes()})
		}
	}
	if o.headerOp && r.Intn(100) < max(o.headerPct, 17) {
		rpc.Client = append(rpc.Client, Op{Op: "header"})
	}
	rpc.Client = append(rpc.Client, Op{Op: "recv_all"})

	code := func(retryable bool) int {
		if retryable {
			return p.Codes[r.Intn(len(p.Codes))]
		}
		for {
			c := core.Pick(r, 3, 5, 7, 9, 11, 12, 15, 16, 13, 14, 10)
			ok := true
			for _, x := range p.Codes {
				if x == c {
					ok = false
				}
			}
			if ok {
				return c
			}
		}
	}
	failScript := func(retryable bool) []Op {
		var s []Op
		if r.Intn(100) < o.sleepPct {
			s = append(s, nap())
		}
		// how much of the request the handler reads first
		switch style {
		case 2:
			if r.Chance(1, 2) {
				s = append(s, Op{Op: "recv"})
			}
		case 3:
			for i := r.Intn(k + 1); i > 0; i-- {
				s = append(s, Op{Op: "recv"})
			}
		default:
			switch r.Intn(3) {
			case 0:
			case 1:
				for i := r.Intn(k + 1); i > 0; i-- {
					s = append(s, Op{Op: "recv"})
				}
			default:
				s = append(s, Op{Op: "recv_all"})
			}
		}
		if r.Intn(100) < o.commitPct {
			v := r.Intn(3)
			if o.noMsgFail {
				v = r.Intn(2)
			}
			switch v {
			case 0:
				s = append(s, Op{Op: "send_header", MD: []KV{{K: "urt", V: "h"}}})
			case 1:
				s = append(s, Op{Op: "set_header", MD: []KV{{K: "urt", V: "s"}}})
			default:
				s = append(s, Op{Op: "send", N: o.sizes()})
			}
		}
		if r.Intn(100) < o.pushbackPc {
			s = append(s, Op{Op: "set_trailer", MD: rtPushbackMD(r, core.Pick(r, 0, 0, 0, 1, 2, 3))})
		}
		return append(s, Op{Op: "return", Code: code(retryable), Msg: "scripted failure"})
	}
	for i := 0; i < nFail; i++ {
		rpc.Server = append(rpc.Server, failScript(r.Chance(5, 6)))
	}
	if r.Chance(3, 4) {
		rpc.Server = append(rpc.Server, okSrv)
	} else {
		rpc.Server = append(rpc.Server, failScript(r.Chance(1, 2)))
	}
	return rpc
}

func rtSmallSizes(r *core.Rand) func() int {
	return func() int { return core.Pick(r, 0, 1, 7, 100, 100, 1000, 3000) }
}

// ---- C19: backoff and throttling arithmetic, ideal network ----

func genC19(seed uint64, tier string) *Scenario {
	if i, ok := rtIsWarm(seed); ok {
		return rtWarm(i, seed)
	}
	r, s := genBase(seed, tier)
	// virtual time with zero network latency (DESIGN 3, C19)
	s.Net.LatencyNs, s.Net.StallPct, s.Net.StallNs, s.Net.DialDelayNs = 0, 0, 0, 0
	s.Oracles = []string{"recv_payload", "bytes", "streams", "status_error"}
	cfg := rtCfg{C18: true, C19: true, Policy: rtGenPolicy(r)}
	if r.Chance(3, 4) {
		cfg.Throttle = rtGenThrottle(r)
	}
	if r.Chance(1, 4) {
		cfg.MaxCallAttempts = core.Pick(r, 2, 3, 4, 8)
	}
	n := r.Range(2, 8)
	if tier == "thorough" {
		n = r.Range(2, 16)
	}
	if cfg.Throttle != nil && r.Chance(1, 3) {
		rtGenStorm(r, s, &cfg, tier)
		s.Ext = map[string]rawJSON{"retry": ExtJSON(cfg)}
		return s
	}
	spacing := int64(core.Pick(r, 0, 0, 1000000, 1000000000, 300000000000, 300000000000))
	eff := min(cfg.Policy.MaxAttempts, 5)
	if cfg.MaxCallAttempts >= 2 {
		eff = min(cfg.Policy.MaxAttempts, cfg.MaxCallAttempts)
	}
	o := rtGenOpts{sizes: rtSmallSizes(r), maxMsgs: 2, commitPct: 8, pushbackPc: 35, sleepPct: 15}
	if cfg.Throttle != nil && r.Chance(1, 2) {
		o.pushbackPc = 10 // more plain failures: the bucket drains faster
	}
	for i := 0; i < n; i++ {
		nFail := r.Intn(eff + 2)
		if r.Chance(1, 4) {
			nFail = 0
		}
		rpc := rtGenRPC(r, uint32(i+1), cfg.Policy, o, nFail)
		rpc.StartNs = int64(i)*spacing + int64(r.Intn(2))*int64(r.Intn(1000000))
		if spacing == 0 && r.Chance(1, 2) {
			rpc.StartNs = 0
		}
		s.RPCs = append(s.RPCs, rpc)
	}
	s.Ext = map[string]rawJSON{"retry": ExtJSON(cfg)}
	return s
}

// rtGenStorm: several unary RPCs on one channel whose attempts fail (or
// succeed) at the same virtual instant while the bucket is within a few tokens
// of the threshold. The throttling decision of each failure must be the one for
// the bucket value left by ITS removal in some order of the simultaneous
// outcomes (the token ledger tries every order); a removal and a decision that
// are not one atomic step (seeded change C19b) give decisions that no order
// explains. Handlers hold for the same time so that all attempts are in flight
// before the first one ends and the trailers reach the client together.
func rtGenStorm(r *core.Rand, s *Scenario, cfg *rtCfg, tier string) {
	cfg.Throttle = &rtThrottle{
		MaxMilli:   int64(core.Pick(r, 2000, 3000, 4000, 4000, 5000, 6000, 10000)),
		RatioMilli: int64(core.Pick(r, 250, 500, 1000, 2000)),
	}
	cfg.MaxCallAttempts = 0
	k := r.Range(3, 8)
	if tier == "thorough" {
		k = r.Range(3, 12)
	}
	hold := int64(core.Pick(r, 0, 1000, 1000000, 1000000, 50000000))
	held := func(ops ...Op) []Op {
		if hold > 0 {
			return append([]Op{{Op: "sleep", Ns: hold}}, ops...)
		}
		return ops
	}
	for i := 0; i < k; i++ {
		rpc := RPC{ID: uint32(i + 1)}
		rpc.Client = []Op{{Op: "send", N: core.Pick(r, 0, 1, 100)}, {Op: "close_send"}, {Op: "recv_all"}}
		for j := core.Pick(r, 1, 1, 1, 2, 0); j > 0; j-- {
			c := cfg.Policy.Codes[r.Intn(len(cfg.Policy.Codes))]
			rpc.Server = append(rpc.Server, held(Op{Op: "return", Code: c, Msg: "scripted failure"}))
		}
		rpc.Server = append(rpc.Server, held(Op{Op: "recv_all"}))
		s.RPCs = append(s.RPCs, rpc)
	}
}

// ---- C18: bounded, policy-driven retries with exact replay ----

func genC18(seed uint64, tier string) *Scenario {
	if i, ok := rtIsWarm(seed); ok {
		return rtWarm(i, seed)
	}
	r, s := genBase(seed, tier)
	if costCap == 0 && (s.Net.StallPct > 0 || s.Client.WriteBuf == 1 || s.Server.WriteBuf == 1 || s.Net.ReadMax == 1 || s.Net.InflightCap == 1) {
		costCap = 20000 // every byte or frame is expensive on such a network
	}
	s.Oracles = []string{"recv_payload", "bytes", "streams", "status_error"}
	cfg := rtCfg{C18: true, C19: true}
	if r.Chance(11, 12) {
		cfg.Policy = rtGenPolicy(r)
		cfg.Policy.InitialNs = int64(core.Pick(r, 1, 10, 100)) * int64(time.Millisecond)
		cfg.Policy.MaxNs = cfg.Policy.InitialNs * int64(core.Pick(r, 1, 4))
	}
	pol := cfg.Policy
	if pol == nil { // scripts still need codes to pick from
		pol = &rtPolicy{MaxAttempts: 3, Codes: []int{14}}
	}
	if r.Chance(1, 3) {
		cfg.Throttle = rtGenThrottle(r)
	}
	cfg.MaxCallAttempts = core.Pick(r, 0, 0, 0, 1, 2, 3, 4, 6)
	cfg.BufBytes = core.Pick(r, 0, 0, 0, 1, 50, 500, 5000, 70000)
	s.Client.DisableRetry = r.Chance(1, 14)
	bigSizes := func() int {
		if b := cfg.BufBytes; b > 0 && r.Chance(1, 2) {
			// around fractions of the replay buffer limit (5 bytes of framing per message)
			n := max(0, core.Pick(r, b/4, b/3, b/2-5, b/2, b-5, b-4, b+1, b/2-6))
			if costCap > 0 && n > costCap {
				n = r.Range(0, costCap)
			}
			return n
		}
		if r.Chance(1, 3) {
			return genSize(r, 65535)
		}
		return core.Pick(r, 0, 1, 20, 49, 51, 300, 499, 2000, 6000)
	}
	class := r.Intn(100)
	o := rtGenOpts{sizes: bigSizes, maxMsgs: 4, commitPct: 20, pushbackPc: 15, sleepPct: 35, headerOp: true, noMsgFail: class >= 60}
	if class >= 70 && class < 82 && r.Chance(2, 3) {
		// unsent streams, Header() before any response and a small bucket whose
		// refills matter: the combination that exposes wrong success accounting
		cfg.Throttle = &rtThrottle{MaxMilli: int64(core.Pick(r, 2000, 3000, 4000)), RatioMilli: int64(core.Pick(r, 2000, 4000))}
		o.headerPct = 50
	}
	n := r.Range(1, 5)
	if tier == "thorough" {
		n = r.Range(1, 9)
	}
	if class >= 70 && class < 82 {
		n = max(n, 4)
	}
	for i := 0; i < n; i++ {
		nFail := r.Intn(pol.MaxAttempts + 2)
		if nFail > 7 {
			nFail = 7
		}
		rpc := rtGenRPC(r, uint32(i+1), pol, o, nFail)
		rpc.StartNs = int64(r.Intn(3)) * int64(r.Intn(3000000))
		s.RPCs = append(s.RPCs, rpc)
	}
	switch {
	case class < 50: // clean
	case class < 60: // cancellation and deadlines racing with the backoff
		for i := range s.RPCs {
			if r.Chance(1, 2) {
				at := r.Intn(len(s.RPCs[i].Client) + 1)
				ops := append([]Op{}, s.RPCs[i].Client[:at]...)
				ops = append(ops, Op{Op: "sleep", Ns: int64(r.LogUniform(1, 300000000))}, Op{Op: "cancel"})
				s.RPCs[i].Client = append(ops, s.RPCs[i].Client[at:]...)
			} else {
				s.RPCs[i].DeadlineNs = int64(r.LogUniform(1000, 500000000))
			}
		}
	case class < 70: // connection cut or reset: attempts die half processed
		genFaults(r, s, "cut_after", "reset", "cut_after")
		for i := range s.Faults {
			if s.Faults[i].Kind == "cut_after" {
				s.Faults[i].Bytes = r.LogUniform(1, 20000)
			} else {
				s.Faults[i].AtNs = int64(r.LogUniform(1, 50000000))
			}
			s.Faults[i].Conn = r.Intn(2)
		}
	case class < 82: // the connection dies while streams are still unsent: transparent retries
		for c := 0; c < r.Range(1, 2); c++ {
			s.Faults = append(s.Faults, simnet.Fault{Kind: "cut_after", Conn: c, Dir: "c2s", Bytes: r.LogUniform(60, 3000)})
		}
		for i := range s.RPCs {
			s.RPCs[i].WaitReady = r.Chance(4, 5)
			s.RPCs[i].StartNs = int64(r.Intn(2)) * int64(r.Intn(100000))
		}
	case class < 86: // server-initiated GOAWAY while streams are being created
		s.Server.MaxAgeNs = int64(r.LogUniform(5000000, 100000000))
		s.Server.MaxAgeGraceNs = int64(core.Pick(r, 1000000, 100000000))
		if s.Net.LatencyNs == 0 {
			s.Net.LatencyNs = int64(core.Pick(r, 1000, 100000, 2000000))
		}
		for i := range s.RPCs {
			s.RPCs[i].WaitReady = r.Chance(1, 2)
			s.RPCs[i].StartNs = int64(r.LogUniform(1, 60000000))
			s.RPCs[i].DeadlineNs = int64(2 * time.Second)
		}
	case class < 92:
		s.Actions = append(s.Actions, Action{AtNs: int64(r.LogUniform(1, 30000000)), Kind: core.Pick(r, "graceful_stop", "stop")})
		// After the server closed the connection the client's writes fail at
		// once but its reader sees the end only when the data in flight has
		// arrived; in between every new attempt fails with "transport is
		// closing" and is retried transparently in a loop that never blocks, so
		// simulated time cannot advance (only the runtime's spin guard ends
		// it, after minutes of wall time). Zero latency closes that window.
		s.Net.LatencyNs = 0
	default: // the first dials fail: fail-fast attempts end without a stream
		for d := 0; d < r.Range(1, 3); d++ {
			s.Faults = append(s.Faults, simnetFault("dial_fail", d))
		}
		cfg.Backoff = &rtBackoff{BaseNs: int64(time.Millisecond), MaxNs: int64(20 * time.Millisecond), Mult: 1.6, Jitter: 0.2, MinConnectNs: int64(time.Second)}
		for i := range s.RPCs {
			s.RPCs[i].WaitReady = r.Chance(1, 3)
		}
	}
	if class >= 60 {
		rtYieldFloor(r, s)
	}
	if class >= 60 && class < 82 {
		// see the server-stop class: a connection whose write side is dead and
		// whose read side has not noticed yet makes attempts spin
		s.Net.LatencyNs, s.Net.StallPct = 0, 0
	}
	rtGenSplit(r, s, &cfg, class < 60)
	s.Ext = map[string]rawJSON{"retry": ExtJSON(cfg)}
	return s
}

// rtGenSplit puts some RPCs into split mode (see retry_ext.go): the script's
// goroutine sends while a second goroutine receives on the same stream, so a
// failed attempt is noticed and replaced by the receiver while the sender is
// inside SendMsg or CloseSend. Header() is a receiving operation: a "header"
// step of the script moves to the receiver. In half of those runs the stats
// handler takes simulated time in one of its callbacks (napOK; not in the
// classes whose connection faults and server stops can make attempts spin at
// one simulated instant: a sleeper cannot wake while simulated time stands
// still, and the run then lasts until the runtime's spin guard ends it).
func rtGenSplit(r *core.Rand, s *Scenario, cfg *rtCfg, napOK bool) {
	pct := core.Pick(r, 0, 0, 30, 60, 100)
	if pct == 0 {
		return
	}
	for i := range s.RPCs {
		if r.Intn(100) >= pct {
			continue
		}
		sl := rtSplit{ID: s.RPCs[i].ID, Header: r.Chance(1, 6)}
		var ops []Op
		for _, op := range s.RPCs[i].Client {
			if op.Op == "header" {
				sl.Header = true
				continue
			}
			ops = append(ops, op)
		}
		s.RPCs[i].Client = ops
		cfg.Split = append(cfg.Split, sl)
		if costCap == 0 && r.Chance(1, 3) && rtGenPressure(r, &s.RPCs[i]) {
			cfg.BufBytes = 0 // the default limit: the messages below stay replayable
		}
	}
	if len(cfg.Split) > 0 && r.Chance(1, 2) && napOK {
		cfg.NapNs = int64(core.Pick(r, 1000, 100000, 1000000, 5000000, 30000000))
		cfg.NapOn = core.Pick(r, "out_payload", "out_payload", "out_payload", "in_payload", "in_header")
	}
}

// rtYieldFloor: an attempt on a transport that is already closing is retried
// transparently at once, and again, until another goroutine has published the
// new picker; with a low yield rate that goroutine is starved for tens of
// thousands of iterations (the runtime's spin guard ends it). Give it a chance.
func rtYieldFloor(r *core.Rand, s *Scenario) {
	if s.Sched.YieldThr < 6500 {
		s.Sched.YieldThr = core.Pick(r, uint32(6500), 20000)
	}
}

// ---- C20: connection backoff ----

func rtGenBackoff(r *core.Rand) *rtBackoff {
	b := &rtBackoff{}
	switch r.Intn(8) {
	case 0:
		return nil // documented default
	case 1: // jitter above 1: the raw value can go negative
		b.BaseNs = int64(core.Pick(r, 10, 100, 1000)) * int64(time.Millisecond)
		b.Mult = core.Pick(r, 1.0, 1.6, 2.0)
		b.Jitter = core.Pick(r, 1.5, 2.0, 5.0)
		b.MaxNs = b.BaseNs * int64(core.Pick(r, 4, 20))
	case 2: // multiplier below 1
		b.BaseNs = int64(core.Pick(r, 100, 1000)) * int64(time.Millisecond)
		b.Mult = core.Pick(r, 0.5, 0.9, 0.0)
		b.Jitter = core.Pick(r, 0.0, 0.2)
		b.MaxNs = b.BaseNs * int64(core.Pick(r, 1, 20))
	default:
		b.BaseNs = int64(core.Pick(r, 1, 10, 50, 100, 1000, 2000)) * int64(time.Millisecond)
		b.Mult = core.Pick(r, 1.0, 1.3, 1.6, 2.0, 3.0, 10.0)
		b.Jitter = core.Pick(r, 0.0, 0.1, 0.2, 0.5, 1.0)
		switch r.Intn(3) {
		case 0:
			b.MaxNs = b.BaseNs * int64(core.Pick(r, 2, 3, 5))
		case 1:
			b.MaxNs = int64(120 * time.Second)
		default:
			b.MaxNs = b.BaseNs * 1000
		}
	}
	b.MinConnectNs = int64(core.Pick(r, 100, 1000, 5000, 20000)) * int64(time.Millisecond)
	return b
}

func genC20(seed uint64, tier string) *Scenario {
	if i, ok := rtIsWarm(seed); ok {
		return rtWarm(i, seed)
	}
	r, s := genBase(seed, tier)
	s.Oracles = []string{"recv_payload", "status_error"}
	s.Net.StallPct, s.Net.StallNs = 0, 0
	// no latency: after a cut the client's writes fail at once while its reader
	// sees the end only when the data in flight has arrived; in that window new
	// attempts are retried transparently in a loop that never blocks, which
	// freezes simulated time (see genC18)
	s.Net.LatencyNs = 0
	if r.Chance(1, 4) {
		s.Net.DialDelayNs = int64(core.Pick(r, 1000, 1000000, 50000000))
	}
	s.Client.IdleNs = int64(100000 * time.Hour) // channel idleness would replace the subchannel
	cfg := rtCfg{C20: true, Backoff: rtGenBackoff(r)}
	b := rtDefaultBackoff
	if cfg.Backoff != nil {
		b = *cfg.Backoff
	}
	// outcome plan per dial index
	nd := r.Range(2, 9)
	if tier == "thorough" {
		nd = r.Range(2, 14)
	}
	pairs := 0
	var expected int64 // rough upper estimate of the simulated time the plan needs
	fails := 0
	wait := func() {
		cur := float64(b.BaseNs)
		for i := 0; i < fails && cur < float64(b.MaxNs); i++ {
			cur *= b.Mult
		}
		if fails > 0 && cur > float64(b.MaxNs) {
			cur = float64(b.MaxNs)
		}
		expected += int64(cur*(1+b.Jitter)) + 1
		fails++
	}
	for d := 0; d < nd; d++ {
		switch x := r.Intn(100); {
		case x < 50:
			f := simnetFault("dial_fail", d)
			if r.Chance(1, 4) {
				f.DurNs = int64(r.LogUniform(1000, 300000000))
				expected += f.DurNs
			}
			s.Faults = append(s.Faults, f)
			wait()
		case x < 60:
			s.Faults = append(s.Faults, simnetFault("dial_hang", d))
			expected += max(b.MinConnectNs, b.MaxNs)
			wait()
		case x < 72: // the connection is accepted and dies during the handshake
			f := simnet.Fault{Kind: "cut_after", Conn: pairs}
			if r.Chance(1, 2) {
				f.Dir, f.Bytes = "s2c", r.Intn(9)
			} else {
				f.Dir, f.Bytes = "c2s", r.Intn(24)
			}
			s.Faults = append(s.Faults, f)
			pairs++
			wait()
		case x < 90: // succeeds, and is lost later
			f := simnet.Fault{Kind: "cut_after", Conn: pairs, Dir: core.Pick(r, "c2s", "s2c"), Bytes: r.LogUniform(60, 3000)}
			if r.Chance(1, 3) {
				f = simnet.Fault{Kind: "reset", Conn: pairs, Dir: "both", AtNs: expected + int64(r.LogUniform(1000, 2000000000))}
			}
			s.Faults = append(s.Faults, f)
			pairs++
			fails = 0
		default: // succeeds and stays
			pairs++
			fails = 0
		}
	}
	if expected > int64(8*time.Minute) {
		expected = int64(8 * time.Minute)
	}
	// traffic that keeps asking for a connection
	n := r.Range(2, 6)
	for i := 0; i < n; i++ {
		rpc := RPC{ID: uint32(i + 1), WaitReady: r.Chance(3, 4)}
		rpc.StartNs = int64(r.Intn(int(expected/1000)+1)) * 1000
		if i == 0 {
			rpc.StartNs = 0
			rpc.WaitReady = true
		}
		for k := r.Range(1, 4); k > 0; k-- {
			rpc.Client = append(rpc.Client, Op{Op: "send", N: core.Pick(r, 10, 200, 900)})
		}
		rpc.Client = append(rpc.Client, Op{Op: "close_send"}, Op{Op: "recv_all"})
		rpc.Server = [][]Op{{{Op: "recv_all"}, {Op: "send", N: core.Pick(r, 10, 500)}}}
		s.RPCs = append(s.RPCs, rpc)
	}
	for k := r.Intn(4); k > 0; k-- {
		s.Actions = append(s.Actions, Action{AtNs: int64(r.Intn(int(expected/1000)+1)) * 1000, Kind: "connect"})
	}
	if r.Chance(1, 3) {
		for k := r.Range(1, 4); k > 0; k-- {
			s.Actions = append(s.Actions, Action{AtNs: int64(r.Intn(int(expected/1000)+1)) * 1000, Kind: "reset_backoff"})
		}
	}
	rtYieldFloor(r, s)
	s.Ext = map[string]rawJSON{"retry": ExtJSON(cfg)}
	return s
}

func init() {
	core.Register("C18", genC18, Run)
	core.Register("C19", genC19, Run)
	core.Register("C20", genC20, Run)
}

// ---- warm-up scenarios ----
//
// The worker runs three throw-away scenarios (seeds Mix(0x77a2, i)) before the
// reported ones so that lazily initialised process-global state (JSON and
// protobuf type caches, sync.Once paths ...) is the same for a seed run alone
// and inside a batch. Random scenarios leave too many of the paths of these
// properties cold (throttling config, pushback trailers, transparent retries,
// dial failures, GOAWAY, connectivity subscriptions ...), so for exactly those
// seeds the generators return fixed scenarios that walk through all of them.

func rtIsWarm(seed uint64) (int, bool) {
	for i := 0; i < 3; i++ {
		if seed == core.Mix(0x77a2, uint64(i)) {
			return i, true
		}
	}
	return 0, false
}

func rtWarm(i int, seed uint64) *Scenario {
	r := core.NewRand(seed)
	s := &Scenario{Sched: genSched(r, seed), Net: simnet.Cfg{Seed: core.Mix(seed, 21)}}
	s.Sched.YieldThr = 6500
	s.Oracles = []string{"recv_payload", "bytes", "streams", "status_error"}
	cfg := rtCfg{C18: true, C19: true, C20: true,
		Policy:          &rtPolicy{MaxAttempts: 4, InitialNs: int64(10 * time.Millisecond), MaxNs: int64(40 * time.Millisecond), Mult: 2, Codes: []int{14, 10}},
		Throttle:        &rtThrottle{MaxMilli: 10000, RatioMilli: 100},
		MaxCallAttempts: 3, BufBytes: 5000,
		Backoff: &rtBackoff{BaseNs: int64(10 * time.Millisecond), MaxNs: int64(100 * time.Millisecond), Mult: 2, Jitter: 0.2, MinConnectNs: int64(500 * time.Millisecond)},
	}
	fail := func(code int, pre []Op, md []KV) []Op {
		out := append([]Op{}, pre...)
		if md != nil {
			out = append(out, Op{Op: "set_trailer", MD: md})
		}
		return append(out, Op{Op: "return", Code: code, Msg: "scripted failure"})
	}
	ok := []Op{{Op: "recv_all"}, {Op: "send", N: 100}}
	unary := []Op{{Op: "send", N: 300}, {Op: "close_send"}, {Op: "recv_all"}}
	add := func(start int64, client []Op, server ...[]Op) *RPC {
		s.RPCs = append(s.RPCs, RPC{ID: uint32(len(s.RPCs) + 1), StartNs: start, Client: client, Server: server})
		return &s.RPCs[len(s.RPCs)-1]
	}
	ms := int64(time.Millisecond)
	switch i {
	case 0: // every retry decision
		add(0, unary, fail(14, nil, nil), fail(10, []Op{{Op: "recv_all"}}, []KV{{K: rtPbKey, V: "5"}}), ok)
		add(0, unary, fail(14, []Op{{Op: "send_header", MD: []KV{{K: "urt", V: "h"}}}}, nil), ok)
		add(1*ms, unary, fail(14, nil, []KV{{K: rtPbKey, V: "-1"}}), ok)
		add(1*ms, unary, fail(14, nil, []KV{{K: rtPbKey, V: "1"}, {K: rtPbKey, V: "2"}}), ok)
		add(2*ms, []Op{{Op: "send", N: 4000}, {Op: "send", N: 4000}, {Op: "close_send"}, {Op: "recv_all"}}, fail(14, []Op{{Op: "sleep", Ns: 5 * ms}}, nil), ok)
		add(2*ms, unary, fail(3, nil, nil), ok)
		add(3*ms, unary, fail(14, nil, nil), fail(14, nil, nil), fail(14, nil, nil), fail(14, nil, nil), ok)
		add(3*ms, []Op{{Op: "send", N: 10}, {Op: "recv"}, {Op: "send", N: 10}, {Op: "recv"}, {Op: "close_send"}, {Op: "recv_all"}}, fail(10, []Op{{Op: "recv"}}, nil), []Op{{Op: "recv"}, {Op: "send", N: 5}, {Op: "recv"}, {Op: "send", N: 5}, {Op: "recv_all"}})
		add(4*ms, []Op{{Op: "send", N: 10}, {Op: "sleep", Ns: 20 * ms}, {Op: "cancel"}, {Op: "recv_all"}}, fail(14, []Op{{Op: "sleep", Ns: 5 * ms}}, nil), ok)
		p := add(4*ms, unary, fail(14, nil, nil), fail(14, nil, []KV{{K: rtPbKey, V: "2000"}}), ok)
		p.DeadlineNs = 50 * ms
		add(5*ms, []Op{{Op: "send", N: 10}, {Op: "header"}, {Op: "close_send"}, {Op: "recv_all"}}, fail(14, nil, nil), ok)
		// split mode (sender + receiver goroutine), a napping stats handler
		add(6*ms, []Op{{Op: "send", N: 10}, {Op: "send", N: 20}, {Op: "close_send"}, {Op: "recv_all"}}, fail(14, nil, nil), fail(14, []Op{{Op: "recv"}}, nil), ok)
		add(6*ms, []Op{{Op: "send", N: 10}, {Op: "recv"}, {Op: "close_send"}, {Op: "recv_all"}}, fail(10, nil, nil), []Op{{Op: "recv"}, {Op: "send", N: 5}, {Op: "recv_all"}})
		cfg.Split = []rtSplit{{ID: 12}, {ID: 13, Header: true}}
		cfg.NapNs, cfg.NapOn = 1000, "out_payload"
	case 1: // connection loss, transparent retries, dial failures, backoff
		s.Faults = []simnet.Fault{
			{Kind: "cut_after", Conn: 0, Dir: "c2s", Bytes: 400},
			simnetFault("dial_fail", 1), simnetFault("dial_fail", 2), simnetFault("dial_hang", 3),
			{Kind: "cut_after", Conn: 1, Dir: "s2c", Bytes: 3},
			{Kind: "reset", Conn: 2, Dir: "both", AtNs: 3000 * ms},
		}
		for k := 0; k < 4; k++ {
			p := add(0, unary, fail(14, nil, nil), ok)
			p.WaitReady = k%2 == 0
		}
		p := add(2500*ms, unary, ok)
		p.WaitReady = true
		p = add(3100*ms, unary, ok)
		p.WaitReady = true
		s.Actions = []Action{{AtNs: 100 * ms, Kind: "reset_backoff"}, {AtNs: 200 * ms, Kind: "connect"}}
		s.Client.IdleNs = int64(100000 * time.Hour)
	default: // GOAWAY, server stop, latency
		s.Net.LatencyNs = 100000
		s.Net.SegMax = 100
		s.Server.MaxAgeNs, s.Server.MaxAgeGraceNs = 20*ms, 5*ms
		for k := 0; k < 4; k++ {
			p := add(int64(k)*15*ms, unary, fail(14, []Op{{Op: "sleep", Ns: 10 * ms}}, nil), ok)
			p.WaitReady = true
			p.DeadlineNs = 2000 * ms
		}
		cfg.Throttle = nil
		cfg.MaxCallAttempts, cfg.BufBytes, cfg.Backoff = 0, 0, nil
		s.Actions = []Action{{AtNs: 300 * ms, Kind: "graceful_stop"}}
		p := add(400*ms, unary, ok)
		p.DeadlineNs = 100 * ms
	}
	s.Ext = map[string]rawJSON{"retry": ExtJSON(cfg)}
	return s
}

// rtGenPressure rewrites a send-then-receive script so that the sender gets
// stuck inside SendMsg: three or more messages that together exceed the
// stream's flow-control window and the transport's write quota, against
// failing handlers that sleep first and read little. The attempt then fails
// while SendMsg is blocked in the transport, and sender and receiver learn of
// it at the same simulated instant.
func rtGenPressure(r *core.Rand, rpc *RPC) bool {
	lastSend := -1
	for i, op := range rpc.Client {
		switch op.Op {
		case "send":
			lastSend = i
		case "recv":
			return false // ping-pong: the sender waits for answers
		}
	}
	if lastSend < 0 {
		return false
	}
	big := func() int { return core.Pick(r, 20000, 33000, 50000, 66000, 100000) }
	n := 0
	for i := range rpc.Client {
		if rpc.Client[i].Op == "send" {
			rpc.Client[i].N = big()
			n++
		}
	}
	var extra []Op
	for ; n < 3; n++ {
		extra = append(extra, Op{Op: "send", N: big()})
	}
	ops := append([]Op{}, rpc.Client[:lastSend+1]...)
	ops = append(ops, extra...)
	rpc.Client = append(ops, rpc.Client[lastSend+1:]...)
	for k := 0; k+1 < len(rpc.Server); k++ {
		sv := rpc.Server[k]
		if r.Chance(1, 2) {
			// read nothing: the stream's window fills up
			var kept []Op
			for _, op := range sv {
				if op.Op != "recv" && op.Op != "recv_all" {
					kept = append(kept, op)
				}
			}
			sv = kept
		}
		if len(sv) == 0 || sv[0].Op != "sleep" {
			sv = append([]Op{{Op: "sleep", Ns: int64(core.Pick(r, 1000000, 5000000, 30000000))}}, sv...)
		}
		rpc.Server[k] = sv
	}
	return true
}
