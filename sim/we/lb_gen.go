package we

import (
	"encoding/json"
	"fmt"

	"google.golang.org/grpc/internal/zzverif/core"
	"google.golang.org/grpc/internal/zzverif/simnet"
)

// Generators of C23, C30 and C32: the same machinery (harness policy, scripted
// pickers, flapping subchannels, watchers) with different emphasis.

var lbAllCodes = []int{1, 2, 3, 4, 5, 6, 7, 8, 9, 10, 11, 12, 13, 14, 15, 16}

func lbGenSpec(r *core.Rand, flavour int) []string {
	var sp []string
	add := func(k string, n int) {
		for ; n > 0; n-- {
			sp = append(sp, k)
		}
	}
	st := func() string { return fmt.Sprintf("st:%d", core.Pick(r, lbAllCodes...)) }
	switch flavour {
	case 0: // well-behaved
		add(core.Pick(r, "lazy", "ready"), 1)
		if r.Chance(1, 3) {
			add("lazy", 1)
		}
	case 1: // mostly serving, every other result now and then
		add("ready", r.Range(2, 4))
		add("lazy", r.Range(1, 3))
		for n := r.Range(1, 5); n > 0; n-- {
			add(core.Pick(r, "notready", "any", "shut", "nosc", "err", st(), "ready_nodone", "notready", "any"), 1)
		}
	case 2: // nothing but SubConns in whatever state
		add("any", r.Range(1, 3))
		add("notready", r.Range(0, 2))
		add("shut", r.Range(0, 1))
		add("ready", r.Range(0, 2))
	case 3: // blocking / failing results only
		for n := r.Range(1, 3); n > 0; n-- {
			add(core.Pick(r, "nosc", "nosc", "err", "notready", "shut"), 1)
		}
		if r.Chance(1, 4) {
			add(st(), 1)
		}
	default: // status errors of every code
		for n := r.Range(1, 3); n > 0; n-- {
			add(st(), 1)
		}
		add("lazy", r.Range(0, 2))
	}
	return sp
}

// lbGenAddrs fills an UpdateAddresses step: one or two addresses (indexes into
// the run's address list; the policy drops those that another live SubConn
// holds), now and then the empty list.
func lbGenAddrs(r *core.Rand, st *lbStep) {
	st.Op = "addrs"
	st.Addrs = []int{r.Intn(4)}
	if r.Chance(1, 3) {
		st.Addrs = append(st.Addrs, r.Intn(4))
	}
	st.ViaCC = r.Chance(1, 3)
	if r.Chance(1, 16) {
		st.Op, st.Addrs = "addrs_empty", nil
	}
}

func lbGenSteps(r *core.Rand, n int, focus string, upd bool) []lbStep {
	var out []lbStep
	for k := 0; k < n; k++ {
		st := lbStep{AtNs: int64(r.LogUniform(1, 30000000)), SC: r.Intn(3)}
		if r.Chance(1, 4) {
			st.AtNs = 0
		}
		if r.Chance(1, 10) {
			st.AtNs = int64(r.LogUniform(10000000, 2000000000))
		}
		var ops []string
		switch focus {
		case "C30":
			ops = []string{"connect", "shutdown", "shutdown", "newsc", "newsc", "publish", "spec", "state", "state", "addrs"}
		case "C32":
			ops = []string{"publish", "publish", "publish", "spec", "spec", "spec", "connect", "shutdown", "newsc", "state"}
		default:
			ops = []string{"publish", "spec", "spec", "connect", "shutdown", "newsc", "state"}
		}
		if upd {
			ops = append(ops, "addrs", "addrs", "addrs", "connect")
		}
		st.Op = core.Pick(r, ops...)
		switch st.Op {
		case "addrs":
			lbGenAddrs(r, &st)
		case "spec":
			st.Spec = lbGenSpec(r, core.Pick(r, 0, 0, 1, 1, 2, 3, 4))
		case "state":
			st.State = r.Range(0, 4)
		}
		out = append(out, st)
	}
	// most scripts end with a serving picker so that blocked RPCs are woken
	if r.Chance(3, 4) {
		out = append(out, lbStep{AtNs: int64(r.LogUniform(1, 50000000)), Op: "spec", Spec: lbGenSpec(r, 0)}, lbStep{AtNs: int64(r.LogUniform(1, 1000000)), Op: "state"})
	}
	// ... and some with a burst of channel state changes in one virtual
	// instant: watchers woken by the first are calling WaitForStateChange
	// again while the next ones arrive, and the last one is final
	burst := 1
	if focus == "C30" {
		burst = 2
	}
	if r.Chance(burst, 4) {
		at := int64(r.LogUniform(1, 100000000))
		prev := 0
		for k := r.Range(2, 4); k > 0; k-- {
			st := r.Range(1, 4)
			if st == prev {
				st = st%4 + 1
			}
			prev = st
			out = append(out, lbStep{AtNs: at, Op: "state", State: st})
			at = 0
		}
	}
	return out
}

// lbWarm is the scenario of the worker's k-th warm-up run (core.WorkerMain runs
// gen(core.Mix(0x77a2, k)) before the reported runs so that lazily initialised
// process-global state never falls into a reported run). A random scenario may
// well fail every RPC before it reaches the server, so the warm-up scenarios
// are fixed and walk through everything the generators can produce: RPCs that
// succeed with data in both directions, policy and transparent retries, every
// kind of pick result, cancellation, deadlines, GOAWAY, idle mode and a second
// policy instance, watchers with and without timeouts.
func lbWarm(seed uint64, k int) *Scenario {
	_, s := genBase(seed, "quick")
	s.Net = simnet.Cfg{Seed: core.Mix(seed, 21)}
	s.Sched.YieldThr = 200
	s.Oracles = []string{"status_error"}
	s.Target = "simres:///x"
	s.Listeners = []string{"srv1"}
	ms := int64(1000000)
	ok := []Op{{Op: "send_header"}, {Op: "recv_all"}, {Op: "send", N: 10}, {Op: "send", N: 30000}}
	fail := []Op{{Op: "return", Code: 14, Msg: "try again"}}
	full := []Op{{Op: "send", N: 100}, {Op: "header"}, {Op: "send", N: 20000}, {Op: "close_send"}, {Op: "recv_all"}}
	short := []Op{{Op: "close_send"}, {Op: "recv_all"}}
	s.RPCs = []RPC{
		{ID: 1, DeadlineNs: 1000 * ms, Client: full, Server: [][]Op{ok}},
		{ID: 2, WaitReady: true, DeadlineNs: 1000 * ms, Client: short, Server: [][]Op{fail, {{Op: "send", N: 5}}}},
		{ID: 3, StartNs: 1 * ms, Client: []Op{{Op: "send", N: 5}, {Op: "cancel"}, {Op: "recv_all"}}, Server: [][]Op{{{Op: "sleep", Ns: 10 * ms}}}},
		{ID: 4, StartNs: 2 * ms, DeadlineNs: 1 * ms, Client: short, Server: [][]Op{{{Op: "sleep", Ns: 5 * ms}}}},
		{ID: 5, StartNs: 20 * ms, DeadlineNs: 100 * ms, Client: short, Server: [][]Op{ok}},
		{ID: 6, StartNs: 30 * ms, DeadlineNs: 100 * ms, Client: short, Server: [][]Op{ok}},
		{ID: 7, StartNs: 30 * ms, DeadlineNs: 100 * ms, WaitReady: true, Client: full, Server: [][]Op{ok}},
		{ID: 8, StartNs: 40 * ms, DeadlineNs: 100 * ms, Client: short, Server: [][]Op{{{Op: "return", Code: 10, Msg: "scripted"}}}},
		{ID: 9, StartNs: 41 * ms, DeadlineNs: 2 * ms, Client: short, Server: [][]Op{ok}},
		{ID: 10, StartNs: 300 * ms, DeadlineNs: 100 * ms, Client: full, Server: [][]Op{fail, fail, ok}},
	}
	steps := []lbStep{
		{AtNs: 15 * ms, Op: "spec", Spec: []string{"st:5"}},
		{AtNs: 10 * ms, Op: "spec", Spec: []string{"err"}},
		{AtNs: 10 * ms, Op: "spec", Spec: []string{"nosc", "notready", "shut"}},
		{AtNs: 10 * ms, Op: "spec", Spec: []string{"lazy", "ready", "any", "ready_nodone"}},
		{AtNs: 5 * ms, Op: "shutdown", SC: 1},
		{AtNs: 1 * ms, Op: "addrs", SC: 0, Addrs: []int{1}},
		{AtNs: 0, Op: "addrs", SC: 0, Addrs: []int{1, 0}, ViaCC: true},
		{AtNs: 2 * ms, Op: "addrs", SC: 0, Addrs: []int{0}},
		{AtNs: 2 * ms, Op: "newsc", SC: 1},
		{AtNs: 0, Op: "addrs_empty", SC: 2},
		{AtNs: 1 * ms, Op: "addrs", SC: 2, Addrs: []int{2}},
		{AtNs: 1 * ms, Op: "state", State: 4},
		{AtNs: 0, Op: "state", State: 2},
		{AtNs: 0, Op: "state"},
		{AtNs: 1 * ms, Op: "connect", SC: 2},
		{AtNs: 1 * ms, Op: "publish"},
	}
	inst := lbInstCfg{AutoConnect: true, Reactive: true, ShutOnClose: true, Spec: []string{"lazy"}, Steps: steps}
	lazy := lbInstCfg{Reactive: true, Spec: []string{"lazy"}}
	cfg := lbCfg{Seed: core.Mix(seed, 31), Addrs: []string{"srv0", "srv1", "dead0"}, Insts: []lbInstCfg{inst, lazy},
		Retry:    &lbRetryCfg{MaxAttempts: 3, Codes: []string{"UNAVAILABLE"}, BackoffNs: 1000},
		Watchers: []lbWatchCfg{{}, {States: []int{3, 0, 1}, TimeoutNs: 3 * ms, Timeouts: 4}},
		Cancels:  []lbCancelCfg{{RPC: 9, AtNs: 1 * ms}},
	}
	s.Actions = []Action{{AtNs: 60 * ms, Kind: "connect"}, {AtNs: 61 * ms, Kind: "reset_backoff"}}
	hc := &lbHealthCfg{Init: []int{1, 2, 1}, DelayNs: ms / 2, Steps: []lbHealthStep{
		{AtNs: 5 * ms, Status: 2}, {AtNs: 3 * ms, Status: 1}, {AtNs: 10 * ms, Addr: 2, Status: 3}, {AtNs: 4 * ms, Addr: 1, Status: 0},
		{AtNs: 3 * ms, Status: 1}, {AtNs: 10 * ms, Addr: 1, Status: 5}, {AtNs: 5 * ms, Addr: 2, Status: 4}, {AtNs: 50 * ms, Status: 1},
		{AtNs: 200 * ms, Addr: 1, Status: 2}, {AtNs: 20 * ms, Status: 1},
	}}
	switch k % 3 {
	case 0:
		s.Actions = append(s.Actions, Action{AtNs: 350 * ms, Kind: "graceful_stop"})
	case 1:
		cfg.Health = hc
		cfg.Insts[0].HCMask, cfg.Insts[1].HCMask = 255, 255
		s.Faults = []simnet.Fault{{Kind: "reset", Conn: 0, Dir: "both", AtNs: 45 * ms}, {Kind: "cut_after", Conn: 1, Dir: "c2s", Bytes: 200}}
		s.Actions = append(s.Actions, Action{AtNs: 350 * ms, Kind: "stop"})
	default:
		cfg.Health = hc
		cfg.Insts[0].HCMask, cfg.Insts[1].HCMask = 5, 2
		s.Client.IdleNs = 20 * ms
		s.Faults = []simnet.Fault{{Kind: "dial_fail", Conn: 0}, {Kind: "dial_hang", Conn: 3}}
	}
	s.Ext = map[string]json.RawMessage{"lb": ExtJSON(cfg)}
	return s
}

func lbGen(seed uint64, tier string, focus string) *Scenario {
	for k := 0; k < core.Warmups; k++ {
		if seed == core.Mix(0x77a2, uint64(k)) {
			return lbWarm(seed, k)
		}
	}
	r, s := genBase(seed, tier)
	s.Oracles = []string{"status_error"}
	s.Target = "simres:///x"
	if focus == "C30" && r.Chance(1, 2) {
		// the state manager's windows are a few instructions wide
		s.Sched.YieldThr = core.Pick(r, uint32(700), 2000, 6500, 15000, 30000)
	}
	if r.Chance(1, 2) {
		s.Net.DialDelayNs = int64(core.Pick(r, 1000, 100000, 5000000))
	}
	// flavours that widen the world: the policy re-targets SubConns with
	// UpdateAddresses while dials are slow or hang; SubConns are health-checked
	// against backends whose serving status flips
	upd := r.Chance(1, 8)
	health := false
	switch focus {
	case "C30":
		upd = r.Chance(1, 3)
	case "C32":
		health = r.Chance(2, 5)
	}
	if upd {
		s.Net.DialDelayNs = int64(core.Pick(r, 0, 100000, 5000000, 5000000, 50000000))
	}
	naddr := r.Range(1, 3)
	if upd {
		naddr = r.Range(2, 3)
	}
	all := []string{"srv0", "srv1", "srv2"}
	addrs := append([]string{}, all[:naddr]...)
	s.Listeners = append([]string{}, all[1:naddr]...)
	if r.Chance(1, 6) {
		addrs = append(addrs, "dead0") // nobody listens there: connection refused
	}
	cfg := lbCfg{Seed: core.Mix(seed, 31), Addrs: addrs}
	s.Client.DisableRetry = r.Chance(1, 4)

	// policy instances
	ninst := 1
	idle := r.Chance(1, 4)
	if idle {
		ninst = r.Range(1, 3)
	}
	maxSteps := 6
	if tier == "thorough" {
		maxSteps = 12
	}
	for k := 0; k < ninst; k++ {
		ic := lbInstCfg{AutoConnect: r.Chance(3, 4), Reactive: r.Chance(3, 4), ShutOnClose: r.Chance(1, 2)}
		switch focus {
		case "C23":
			ic.Reactive = r.Chance(1, 2)
			ic.Spec = lbGenSpec(r, core.Pick(r, 0, 1, 1, 1, 2, 3, 4))
		case "C32":
			ic.Reactive = r.Chance(1, 2)
			ic.Spec = lbGenSpec(r, core.Pick(r, 0, 1, 2, 2, 3, 3))
		default:
			ic.Spec = lbGenSpec(r, core.Pick(r, 0, 0, 1, 2, 3))
		}
		ic.Steps = lbGenSteps(r, r.Range(0, maxSteps), focus, upd)
		if upd {
			// leave addresses free for UpdateAddresses, and call it early: while
			// the first dials are on their way
			ic.InitSCs = r.Range(1, naddr-1)
			if r.Chance(7, 8) {
				ic.AutoConnect = true
			}
			var early []lbStep
			for n := r.Range(1, 3); n > 0; n-- {
				st := lbStep{AtNs: int64(r.LogUniform(1, int(2*s.Net.DialDelayNs+2*s.Net.LatencyNs+1000))), SC: r.Intn(3)}
				if r.Chance(1, 3) {
					// in the very instant the SubConns were created and told to
					// connect (with an ideal network: in which they connect)
					st.AtNs = 0
				}
				lbGenAddrs(r, &st)
				early = append(early, st)
			}
			ic.Steps = append(early, ic.Steps...)
		}
		if health {
			ic.HCMask = core.Pick(r, 255, 255, 255, r.Range(1, 255))
		}
		cfg.Insts = append(cfg.Insts, ic)
	}
	if health {
		h := &lbHealthCfg{DelayNs: int64(core.Pick(r, 0, 0, 1000, 1000000, 50000000))}
		status := func() int { return core.Pick(r, 1, 1, 1, 2, 2, 2, 0, 3, 4, 5) }
		for k := 0; k < naddr; k++ {
			h.Init = append(h.Init, status())
		}
		for n := r.Range(0, 5); n > 0; n-- {
			h.Steps = append(h.Steps, lbHealthStep{AtNs: int64(r.LogUniform(1000, 50000000)), Addr: r.Intn(naddr + 1), Status: status()})
		}
		if r.Chance(3, 4) {
			// most backends end up healthy so that queued RPCs get out
			h.Steps = append(h.Steps, lbHealthStep{AtNs: int64(r.LogUniform(1000, 50000000)), Status: 1})
		}
		cfg.Health = h
	}

	// RPCs
	n := r.Range(1, 6)
	if tier == "thorough" {
		n = r.Range(1, 10)
	}
	var at int64
	for i := 0; i < n; i++ {
		at += int64(r.Intn(3)) * int64(r.LogUniform(1, 20000000))
		rpc := RPC{ID: uint32(i + 1), StartNs: at, WaitReady: r.Chance(1, 2)}
		if r.Chance(3, 4) {
			rpc.DeadlineNs = int64(r.LogUniform(100000, 3000000000))
		}
		size := func() int {
			if r.Chance(1, 8) {
				return genSize(r, 65535)
			}
			return r.Intn(2000)
		}
		nap := func() Op { return Op{Op: "sleep", Ns: int64(r.LogUniform(1000, 100000000))} }
		var srv []Op
		for k := r.Intn(3); k > 0; k-- {
			rpc.Client = append(rpc.Client, Op{Op: "send", N: size()})
		}
		if r.Chance(1, 4) {
			rpc.Client = append(rpc.Client, Op{Op: "header"})
		}
		if r.Chance(4, 5) {
			rpc.Client = append(rpc.Client, Op{Op: "close_send"})
			if r.Chance(1, 2) {
				srv = append(srv, Op{Op: "recv_all"})
			}
		}
		if r.Chance(1, 4) {
			srv = append(srv, nap())
		}
		for k := r.Intn(3); k > 0; k-- {
			srv = append(srv, Op{Op: "send", N: size()})
		}
		if r.Chance(1, 6) {
			srv = append(srv, Op{Op: "return", Code: core.Pick(r, 14, 14, 2, 8, 10), Msg: "scripted"})
		}
		rpc.Client = append(rpc.Client, Op{Op: "recv_all"})
		if r.Chance(1, 6) {
			k := r.Intn(len(rpc.Client) + 1)
			ops := append([]Op{}, rpc.Client[:k]...)
			ops = append(ops, Op{Op: "cancel"})
			rpc.Client = append(ops, rpc.Client[k:]...)
		}
		rpc.Server = [][]Op{srv}
		if focus == "C23" && r.Chance(1, 6) {
			// the application starts the RPC, maybe sends, and then walks away
			// by cancelling its context; with every kind of StreamDesc
			rpc.Desc = core.Pick(r, "", "ss", "cs", "unary", "unary")
			rpc.Abandon = true
			rpc.Client = nil
			if r.Chance(3, 4) {
				rpc.Client = append(rpc.Client, Op{Op: "send", N: r.Intn(200)})
			}
			if r.Chance(1, 2) {
				rpc.Client = append(rpc.Client, nap())
			}
			rpc.Server = [][]Op{{{Op: "wait_ctx"}}}
			s.RPCs = append(s.RPCs, rpc)
			continue
		}
		if r.Chance(1, 4) {
			// first invocations fail before sending anything (trailers-only):
			// candidates for a policy retry
			fail := []Op{{Op: "return", Code: 14, Msg: "try again"}}
			rpc.Server = [][]Op{fail, srv}
			if r.Chance(1, 3) {
				rpc.Server = [][]Op{fail, fail, srv}
			}
		}
		s.RPCs = append(s.RPCs, rpc)
		if r.Chance(1, 5) {
			cfg.Cancels = append(cfg.Cancels, lbCancelCfg{RPC: rpc.ID, AtNs: int64(r.LogUniform(1, 30000000))})
		}
	}
	// make some context ends coincide (same virtual instant) with a scripted
	// publication of the first policy instance: the instance starts with the
	// first RPC, step k fires at the sum of the delays up to k
	if steps := cfg.Insts[0].Steps; len(steps) > 0 && len(s.RPCs) > 0 {
		t0 := s.RPCs[0].StartNs
		for i := range s.RPCs {
			if !r.Chance(1, 2) {
				continue
			}
			k := r.Intn(len(steps))
			var at int64
			for _, st := range steps[:k+1] {
				at += st.AtNs
			}
			if d := t0 + at - s.RPCs[i].StartNs; d > 0 {
				if r.Chance(1, 2) {
					s.RPCs[i].DeadlineNs = d
				} else {
					cfg.Cancels = append(cfg.Cancels, lbCancelCfg{RPC: s.RPCs[i].ID, AtNs: d})
				}
			}
		}
	}
	if r.Chance(1, 3) {
		cfg.Retry = &lbRetryCfg{MaxAttempts: core.Pick(r, lbRetryAttempts...), Codes: []string{"UNAVAILABLE"}, BackoffNs: core.Pick(r, lbRetryBackoffs...)}
	}
	if idle {
		s.Client.IdleNs = int64(r.LogUniform(500000, 50000000))
		// leave gaps longer than the idle timeout between some RPCs
		var shift int64
		for i := range s.RPCs {
			// the idle timer re-arms every IdleNs while an RPC is active: keep
			// the number of timer events per RPC bounded
			if d := s.RPCs[i].DeadlineNs; d == 0 || d > 1000*s.Client.IdleNs {
				s.RPCs[i].DeadlineNs = int64(r.LogUniform(100000, int(1000*s.Client.IdleNs)))
			}
			if i > 0 && r.Chance(1, 2) {
				shift += s.Client.IdleNs*int64(r.Range(2, 4)) + int64(r.LogUniform(1000000, 300000000))
			}
			s.RPCs[i].StartNs += shift
		}
	}

	// faults
	nf := 0
	switch r.Intn(4) {
	case 0:
	case 1:
		nf = 1
	default:
		nf = r.Range(1, 3)
	}
	if upd && nf == 0 && r.Chance(1, 2) {
		nf = 1
	}
	for k := 0; k < nf; k++ {
		var kinds []string
		switch focus {
		case "C23":
			kinds = []string{"cut_hdr", "cut_hdr", "cut_after", "reset", "reset", "dial_fail", "dial_hang", "stall"}
		case "C30":
			kinds = []string{"dial_fail", "dial_fail", "dial_hang", "reset", "reset", "cut_after", "cut_hdr", "half_close"}
		default:
			kinds = []string{"reset", "reset", "cut_hdr", "dial_fail", "dial_hang", "cut_after"}
		}
		if upd {
			kinds = append(kinds, "dial_hang", "dial_hang", "dial_fail")
		}
		kind := core.Pick(r, kinds...)
		f := simnet.Fault{Kind: kind, Conn: r.Intn(4), Dir: "both"}
		switch kind {
		case "cut_hdr": // cut the client's byte stream around its first HEADERS frames
			f.Kind, f.Dir, f.Bytes = "cut_after", "c2s", r.Range(24, 500)
		case "cut_after":
			f.Dir, f.Bytes = core.Pick(r, "c2s", "s2c"), r.LogUniform(1, 20000)
		case "reset", "half_close":
			f.AtNs = int64(r.LogUniform(1, 200000000))
			f.Dir = core.Pick(r, "c2s", "s2c", "both")
			if kind == "half_close" {
				// only the server's direction: when the client's own writes
				// fail while its reader sees nothing, the subchannel stays READY
				// and grpc-go retries the RPC transparently in a tight loop (tens
				// of thousands of picks per virtual instant) until the peer
				// reacts; that is legal but makes a run very expensive
				f.Dir = "s2c"
			}
		case "stall":
			f.AtNs, f.DurNs = int64(r.LogUniform(1, 50000000)), int64(r.LogUniform(1000, 2000000000))
		case "dial_fail":
			if r.Chance(1, 2) {
				f.DurNs = int64(r.LogUniform(1000, 100000000))
			}
		}
		s.Faults = append(s.Faults, f)
	}
	// channel-level events
	if r.Chance(1, 5) {
		s.Actions = append(s.Actions, Action{AtNs: int64(r.LogUniform(1, 300000000)), Kind: "graceful_stop"})
	} else if r.Chance(1, 12) {
		s.Actions = append(s.Actions, Action{AtNs: int64(r.LogUniform(1, 300000000)), Kind: "stop"})
	}
	for k := r.Intn(3); k > 0; k-- {
		if r.Chance(1, 2) {
			s.Actions = append(s.Actions, Action{AtNs: int64(r.LogUniform(1, 300000000)), Kind: core.Pick(r, "connect", "connect", "connect", "reset_backoff")})
		}
	}

	// watchers
	nw := r.Range(0, 2)
	if focus == "C30" {
		nw = r.Range(1, 4)
	}
	for k := 0; k < nw; k++ {
		wc := lbWatchCfg{}
		if r.Chance(1, 2) {
			for j := r.Range(1, 4); j > 0; j-- {
				wc.States = append(wc.States, r.Range(0, 4))
			}
		}
		if r.Chance(1, 3) {
			wc.TimeoutNs = int64(r.LogUniform(1000, 100000000))
			wc.Timeouts = r.Range(1, 8)
		}
		cfg.Watchers = append(cfg.Watchers, wc)
	}
	s.Ext = map[string]json.RawMessage{"lb": ExtJSON(cfg)}
	return s
}

func genC23(seed uint64, tier string) *Scenario { return lbGen(seed, tier, "C23") }
func genC30(seed uint64, tier string) *Scenario { return lbGen(seed, tier, "C30") }
func genC32(seed uint64, tier string) *Scenario { return lbGen(seed, tier, "C32") }

func init() {
	core.Register("C23", genC23, Run)
	core.Register("C30", genC30, Run)
	core.Register("C32", genC32, Run)
}
