// Package we is the end-to-end world: a real grpc client and a real grpc
// server talk over simnet inside one bubble; the wire tap and application log
// feed the oracles.
package we

import (
	"context"
	"encoding/hex"
	"encoding/json"
	"errors"
	"fmt"
	"io"
	"os"
	"sort"
	"strconv"
	"strings"
	"sync"
	"testing/synctest"
	"time"

	"golang.org/x/net/http2"
	"google.golang.org/genproto/googleapis/rpc/errdetails"
	"google.golang.org/grpc"
	"google.golang.org/grpc/codes"
	"google.golang.org/grpc/credentials/insecure"
	"google.golang.org/grpc/experimental"
	"google.golang.org/grpc/grpclog"
	"google.golang.org/grpc/keepalive"
	"google.golang.org/grpc/mem"
	"google.golang.org/grpc/metadata"
	"google.golang.org/grpc/status"
	"google.golang.org/protobuf/protoadapt"

	"google.golang.org/grpc/internal/transport"
	"google.golang.org/grpc/internal/zzverif/core"
	"google.golang.org/grpc/internal/zzverif/simnet"
	"google.golang.org/grpc/internal/zzverif/tap"
)

func init() {
	if os.Getenv("SIM_GRPCLOG") != "" { // debugging only: perturbs nothing but costs syscalls
		grpclog.SetLoggerV2(grpclog.NewLoggerV2WithVerbosity(os.Stderr, os.Stderr, os.Stderr, 2))
		return
	}
	grpclog.SetLoggerV2(grpclog.NewLoggerV2(io.Discard, io.Discard, io.Discard))
}

// ---- raw codec ----

type Msg struct{ B []byte }

type rawCodec struct{}

func (rawCodec) Name() string { return "simraw" }
func (rawCodec) Marshal(v any) (mem.BufferSlice, error) {
	m, ok := v.(*Msg)
	if !ok {
		return nil, fmt.Errorf("rawCodec: %T", v)
	}
	return mem.BufferSlice{mem.SliceBuffer(m.B)}, nil
}
func (rawCodec) Unmarshal(data mem.BufferSlice, v any) error {
	m, ok := v.(*Msg)
	if !ok {
		return fmt.Errorf("rawCodec: %T", v)
	}
	m.B = data.Materialize()
	return nil
}

// ---- scenario ----

type KV struct {
	K      string `json:"k"`
	V      string `json:"v,omitempty"`
	VHex   string `json:"v_hex,omitempty"`   // arbitrary bytes (JSON strings cannot carry invalid UTF-8)
	Append bool   `json:"append,omitempty"`  // client: add with AppendToOutgoingContext instead of the base MD
	RawKey bool   `json:"raw_key,omitempty"` // client: put the key into the MD map as is (no lower-casing): invalid-metadata cases
}

func (p KV) val() string {
	if p.VHex != "" {
		b, _ := hex.DecodeString(p.VHex)
		return string(b)
	}
	return p.V
}

type Op struct {
	Op   string `json:"op"` // send recv recv_all close_send cancel sleep header set_header send_header return
	N    int    `json:"n,omitempty"`
	Ns   int64  `json:"ns,omitempty"`
	Code int    `json:"code,omitempty"`
	Msg  string `json:"msg,omitempty"`
	MD   []KV   `json:"md,omitempty"`
	// return: status message as hex (arbitrary bytes) and detail strings
	MsgHex  string   `json:"msg_hex,omitempty"`
	Details []string `json:"details,omitempty"`
}

func (o Op) msg() string {
	if o.MsgHex != "" {
		b, _ := hex.DecodeString(o.MsgHex)
		return string(b)
	}
	return o.Msg
}

type RPC struct {
	ID         uint32 `json:"id"`
	StartNs    int64  `json:"start_ns"`
	DeadlineNs int64  `json:"deadline_ns"` // 0: the world's default (10 simulated minutes)
	WaitReady  bool   `json:"wait_ready,omitempty"`
	MD         []KV   `json:"md,omitempty"`
	// Desc: the StreamDesc the application passes to NewStream: "" bidi
	// (default), "ss" server streaming, "cs" client streaming, "unary" neither
	// (legal for generic clients and proxies; not grpc's private unary desc).
	Desc string `json:"desc,omitempty"`
	// Abandon: when the script ends without a final status the application
	// cancels the context and walks away instead of reading to an error (the
	// documented way to release a stream).
	Abandon bool `json:"abandon,omitempty"`
	Client  []Op `json:"client"`
	// Server[k] is the handler script of the k-th invocation for this RPC
	// (retries re-invoke); the last entry is reused for further invocations.
	Server [][]Op `json:"server"`
}

type ServerCfg struct {
	StreamWindow  int32  `json:"stream_window,omitempty"`
	ConnWindow    int32  `json:"conn_window,omitempty"`
	Static        bool   `json:"static_window,omitempty"`
	MaxStreams    uint32 `json:"max_streams,omitempty"`
	WriteBuf      int    `json:"write_buf,omitempty"` // -1: unbuffered (0), 0: default
	ReadBuf       int    `json:"read_buf,omitempty"`
	NumWorkers    uint32 `json:"num_workers,omitempty"`
	MaxRecv       int    `json:"max_recv,omitempty"`
	MaxSend       int    `json:"max_send,omitempty"`
	KATimeNs      int64  `json:"ka_time_ns,omitempty"`
	KATimeoutNs   int64  `json:"ka_timeout_ns,omitempty"`
	MaxAgeNs      int64  `json:"max_age_ns,omitempty"`
	MaxAgeGraceNs int64  `json:"max_age_grace_ns,omitempty"`
	MaxIdleNs     int64  `json:"max_idle_ns,omitempty"`
}

type ClientCfg struct {
	StreamWindow  int32  `json:"stream_window,omitempty"`
	ConnWindow    int32  `json:"conn_window,omitempty"`
	Static        bool   `json:"static_window,omitempty"`
	WriteBuf      int    `json:"write_buf,omitempty"`
	ReadBuf       int    `json:"read_buf,omitempty"`
	SharedWrite   bool   `json:"shared_write_buf,omitempty"`
	ServiceConfig string `json:"service_config,omitempty"`
	DisableRetry  bool   `json:"disable_retry,omitempty"`
	IdleNs        int64  `json:"idle_ns,omitempty"`
	MaxRecv       int    `json:"max_recv,omitempty"`
	MaxSend       int    `json:"max_send,omitempty"`
	KATimeNs      int64  `json:"ka_time_ns,omitempty"`
	KATimeoutNs   int64  `json:"ka_timeout_ns,omitempty"`
	KAPermit      bool   `json:"ka_permit,omitempty"`
	// MaxStreamID > 0 lowers transport.MaxStreamID for the run (the stream id
	// at which a client transport stops taking new streams and retires itself
	// gracefully while its streams finish; normally about 1.6e9).
	MaxStreamID uint32 `json:"max_stream_id,omitempty"`
}

// Action is a world-level event at a simulated time.
type Action struct {
	AtNs int64  `json:"at_ns"`
	Kind string `json:"kind"` // graceful_stop | stop | connect | reset_backoff
}

type Scenario struct {
	Sched   core.Sched     `json:"sched"`
	Oracles []string       `json:"oracles"`
	Net     simnet.Cfg     `json:"net"`
	Faults  []simnet.Fault `json:"faults"`
	Server  ServerCfg      `json:"server"`
	Client  ClientCfg      `json:"client"`
	RPCs    []RPC          `json:"rpcs"`
	Actions []Action       `json:"actions,omitempty"`
	Pool    bool           `json:"tracking_pool,omitempty"`
	// Ext carries the configuration of optional extensions (see ext.go): the
	// key selects a registered extension, the value is its own JSON config.
	Ext map[string]json.RawMessage `json:"ext,omitempty"`
	// Target overrides the dial target (default "passthrough:///srv0");
	// Listeners lists extra simulated server addresses besides "srv0", all
	// served by the same grpc.Server.
	Target    string   `json:"target,omitempty"`
	Listeners []string `json:"listeners,omitempty"`

	exts []Ext // built by Validate
}

func (s *Scenario) SchedP() *core.Sched { return &s.Sched }

func (s *Scenario) Validate() error {
	// Extension configs are decoded here, outside the bubble (Validate runs in
	// the worker before core.Run): encoding/json goes through process-global
	// sync.Map caches whose depth - hence number of scheduling points - would
	// otherwise depend on what the process decoded before.
	if err := s.buildExts(); err != nil {
		return err
	}
	seen := map[uint32]bool{}
	for i := range s.RPCs {
		r := &s.RPCs[i]
		if seen[r.ID] {
			return fmt.Errorf("duplicate rpc id %d", r.ID)
		}
		seen[r.ID] = true
		if len(r.Server) == 0 {
			return errors.New("rpc without server script")
		}
	}
	return nil
}

func (s *Scenario) Shape() string {
	nc, ns := 0, 0
	kinds := map[string]int{}
	for _, r := range s.RPCs {
		nc += len(r.Client)
		for _, sv := range r.Server {
			ns += len(sv)
		}
		for _, o := range r.Client {
			kinds[o.Op]++
		}
	}
	var ks []string
	for k, v := range kinds {
		ks = append(ks, fmt.Sprintf("%s%d", k, v))
	}
	sort.Strings(ks)
	return fmt.Sprintf("rpcs=%d cops=%d sops=%d faults=%d acts=%d %s", len(s.RPCs), nc, ns, len(s.Faults), len(s.Actions), strings.Join(ks, ","))
}

func (s *Scenario) has(oracle string) bool {
	for _, o := range s.Oracles {
		if o == oracle {
			return true
		}
	}
	return false
}

// ---- run state ----

type rpcState struct {
	r            *RPC
	cStarted     []int // client send sizes, started
	cSubmitted   []int
	invocations  int
	sStarted     map[int][]int // per attempt
	sSubmitted   map[int][]int
	srvReturned  map[int]*status.Status
	srvRetAt     map[int]time.Time
	srvRecv      map[int]int // messages received by handler per attempt
	clientStatus *status.Status
	clientDone   bool
	clientErrs   []error
	recvd        int
	cancelled    bool
	startedAt    time.Time
	deadline     time.Time
	finishedAt   time.Time
	hdr          metadata.MD
	haveHdr      bool
	trailer      metadata.MD
	srvMD        map[int]metadata.MD
	srvDeadline  map[int]time.Time
	srvCtxDoneAt map[int]time.Time
	waitingCtx   map[int]bool
	newStreamErr error
}

type run struct {
	e         *core.Env
	sc        *Scenario
	net       *simnet.Net
	led       *tap.Ledger
	rpcs      map[uint32]*rpcState
	pool      *trackPool
	unsettled bool // a settle() hit its bound: quiescence oracles are off
	faulty    bool
	trace     bool
	exts      []Ext
	Conn      *grpc.ClientConn
	Srv       *grpc.Server
	// request HEADERS seen on the wire (client wrote), for C09
	reqHeaders []reqHdr
}

type reqHdr struct {
	rpc    uint32
	conn   int
	stream uint32
	fields [][2]string
}

// sink sees every frame event before the ledger does.
func (w *run) sink(f *tap.Frame) {
	if f.Phase == 'w' && f.From == 'c' && f.Type == http2.FrameHeaders && w.sc.has("metadata") {
		if v := f.Header("x-sim-rpc"); len(v) == 1 {
			id, _ := strconv.ParseUint(v[0], 10, 32)
			h := reqHdr{rpc: uint32(id), conn: f.Conn, stream: f.StreamID}
			for _, hf := range f.Fields {
				h.fields = append(h.fields, [2]string{hf.Name, hf.Value})
			}
			w.reqHeaders = append(w.reqHeaders, h)
		}
	}
	if w.trace {
		w.e.Logf("frame conn=%d %c%c type=%v stream=%d len=%d flags=%x inc=%d code=%v", f.Conn, f.From, f.Phase, f.Type, f.StreamID, f.Length, f.Flags, f.Increment, f.ErrCode)
	}
	w.led.Sink(f)
}

func (w *run) Submitted(k tap.StreamKey) []int {
	st := w.rpcs[k.RPC]
	if st == nil {
		return nil
	}
	if k.Dir == 'c' {
		return st.cSubmitted
	}
	return st.sSubmitted[k.Att]
}

func (w *run) Started(k tap.StreamKey) []int {
	st := w.rpcs[k.RPC]
	if st == nil {
		return nil
	}
	if k.Dir == 'c' {
		return st.cStarted
	}
	return st.sStarted[k.Att]
}

func kvToMD(kv []KV) metadata.MD {
	md := metadata.MD{}
	for _, p := range kv {
		if p.Append {
			continue
		}
		if p.RawKey {
			md[p.K] = append(md[p.K], p.val())
		} else {
			md.Append(p.K, p.val())
		}
	}
	return md
}

const defaultDeadline = 10 * time.Minute

// Run executes a scenario.
func Run(e *core.Env, sc *Scenario) {
	w := &run{e: e, sc: sc, rpcs: map[uint32]*rpcState{}}
	w.faulty = len(sc.Faults) > 0
	w.trace = sc.has("trace")
	w.net = simnet.New(e, sc.Net, sc.Faults)
	w.led = tap.NewLedger(e, w)
	w.led.CheckWindows = sc.has("windows")
	w.led.CheckBytes = sc.has("bytes")
	w.led.CheckStreams = sc.has("streams")
	w.led.CheckMCS = sc.has("mcs")
	w.net.OnConn = func(p *simnet.Pair) { tap.Attach(e, p, w.sink) }
	if sc.Pool {
		w.pool = newTrackPool(e)
	}
	for i := range sc.RPCs {
		r := &sc.RPCs[i]
		w.rpcs[r.ID] = &rpcState{r: r, sStarted: map[int][]int{}, sSubmitted: map[int][]int{}, srvReturned: map[int]*status.Status{}, srvRetAt: map[int]time.Time{}, srvRecv: map[int]int{}, srvMD: map[int]metadata.MD{}, srvDeadline: map[int]time.Time{}, srvCtxDoneAt: map[int]time.Time{}, waitingCtx: map[int]bool{}}
	}

	if !w.initExts() {
		w.net.Shutdown()
		return
	}
	if sc.Client.MaxStreamID > 0 {
		saved := transport.MaxStreamID
		transport.MaxStreamID = sc.Client.MaxStreamID
		defer func() { transport.MaxStreamID = saved }()
	}

	// server
	sopts := []grpc.ServerOption{grpc.ForceServerCodecV2(rawCodec{}), grpc.UnknownServiceHandler(w.handler)}
	c := sc.Server
	if c.Static {
		if c.StreamWindow > 0 {
			sopts = append(sopts, grpc.StaticStreamWindowSize(c.StreamWindow))
		}
		if c.ConnWindow > 0 {
			sopts = append(sopts, grpc.StaticConnWindowSize(c.ConnWindow))
		}
	} else {
		if c.StreamWindow > 0 {
			sopts = append(sopts, grpc.InitialWindowSize(c.StreamWindow))
		}
		if c.ConnWindow > 0 {
			sopts = append(sopts, grpc.InitialConnWindowSize(c.ConnWindow))
		}
	}
	if c.MaxStreams > 0 {
		sopts = append(sopts, grpc.MaxConcurrentStreams(c.MaxStreams))
	}
	if c.WriteBuf != 0 {
		sopts = append(sopts, grpc.WriteBufferSize(max(c.WriteBuf, 0)))
	}
	if c.ReadBuf != 0 {
		sopts = append(sopts, grpc.ReadBufferSize(max(c.ReadBuf, 0)))
	}
	if c.NumWorkers > 0 {
		sopts = append(sopts, grpc.NumStreamWorkers(c.NumWorkers))
	}
	if c.MaxRecv > 0 {
		sopts = append(sopts, grpc.MaxRecvMsgSize(c.MaxRecv))
	}
	if c.MaxSend > 0 {
		sopts = append(sopts, grpc.MaxSendMsgSize(c.MaxSend))
	}
	if c.KATimeNs > 0 || c.MaxAgeNs > 0 || c.MaxIdleNs > 0 {
		sopts = append(sopts, grpc.KeepaliveParams(keepalive.ServerParameters{Time: time.Duration(c.KATimeNs), Timeout: time.Duration(c.KATimeoutNs), MaxConnectionAge: time.Duration(c.MaxAgeNs), MaxConnectionAgeGrace: time.Duration(c.MaxAgeGraceNs), MaxConnectionIdle: time.Duration(c.MaxIdleNs)}))
	}
	if w.pool != nil {
		sopts = append(sopts, experimental.BufferPool(w.pool))
	}
	for _, x := range w.exts {
		sopts = append(sopts, x.ServerOpts(w)...)
	}
	srv := grpc.NewServer(sopts...)
	w.Srv = srv
	serveDone := make(chan struct{}, 16)
	nlis := 1 + len(sc.Listeners)
	for _, addr := range append([]string{"srv0"}, sc.Listeners...) {
		lis := w.net.Listen(addr)
		go func() { srv.Serve(lis); serveDone <- struct{}{} }()
	}

	// client
	dopts := []grpc.DialOption{grpc.WithTransportCredentials(insecure.NewCredentials()), grpc.WithContextDialer(w.net.Dialer()), grpc.WithDefaultCallOptions(grpc.ForceCodecV2(rawCodec{}))}
	cc := sc.Client
	if cc.Static {
		if cc.StreamWindow > 0 {
			dopts = append(dopts, grpc.WithStaticStreamWindowSize(cc.StreamWindow))
		}
		if cc.ConnWindow > 0 {
			dopts = append(dopts, grpc.WithStaticConnWindowSize(cc.ConnWindow))
		}
	} else {
		if cc.StreamWindow > 0 {
			dopts = append(dopts, grpc.WithInitialWindowSize(cc.StreamWindow))
		}
		if cc.ConnWindow > 0 {
			dopts = append(dopts, grpc.WithInitialConnWindowSize(cc.ConnWindow))
		}
	}
	if cc.WriteBuf != 0 {
		dopts = append(dopts, grpc.WithWriteBufferSize(max(cc.WriteBuf, 0)))
	}
	if cc.ReadBuf != 0 {
		dopts = append(dopts, grpc.WithReadBufferSize(max(cc.ReadBuf, 0)))
	}
	if cc.SharedWrite {
		dopts = append(dopts, grpc.WithSharedWriteBuffer(true))
	}
	if cc.ServiceConfig != "" {
		dopts = append(dopts, grpc.WithDefaultServiceConfig(cc.ServiceConfig))
	}
	if cc.DisableRetry {
		dopts = append(dopts, grpc.WithDisableRetry())
	}
	if cc.IdleNs > 0 {
		dopts = append(dopts, grpc.WithIdleTimeout(time.Duration(cc.IdleNs)))
	}
	var copts []grpc.CallOption
	if cc.MaxRecv > 0 {
		copts = append(copts, grpc.MaxCallRecvMsgSize(cc.MaxRecv))
	}
	if cc.MaxSend > 0 {
		copts = append(copts, grpc.MaxCallSendMsgSize(cc.MaxSend))
	}
	if len(copts) > 0 {
		dopts = append(dopts, grpc.WithDefaultCallOptions(copts...))
	}
	if cc.KATimeNs > 0 {
		dopts = append(dopts, grpc.WithKeepaliveParams(keepalive.ClientParameters{Time: time.Duration(cc.KATimeNs), Timeout: time.Duration(cc.KATimeoutNs), PermitWithoutStream: cc.KAPermit}))
	}
	if w.pool != nil {
		dopts = append(dopts, experimental.WithBufferPool(w.pool))
	}
	for _, x := range w.exts {
		dopts = append(dopts, x.DialOpts(w)...)
	}
	target := sc.Target
	if target == "" {
		target = "passthrough:///srv0"
	}
	conn, err := grpc.NewClient(target, dopts...)
	if err != nil {
		e.Violate("harness", "NewClient: %v", err)
		srv.Stop()
		w.net.Shutdown()
		return
	}
	w.Conn = conn
	for _, x := range w.exts {
		x.Start(w)
	}

	var wg sync.WaitGroup
	for i := range sc.RPCs {
		st := w.rpcs[sc.RPCs[i].ID]
		wg.Add(1)
		go func() {
			defer wg.Done()
			w.clientRPC(conn, st)
		}()
	}
	for _, a := range sc.Actions {
		wg.Add(1)
		go func() {
			defer wg.Done()
			time.Sleep(time.Duration(a.AtNs))
			e.Logf("action %s", a.Kind)
			switch a.Kind {
			case "graceful_stop":
				srv.GracefulStop()
				e.Logf("action graceful_stop returned")
			case "stop":
				srv.Stop()
			case "connect":
				conn.Connect()
			case "reset_backoff":
				conn.ResetConnectBackoff()
			}
		}()
	}
	wg.Wait()
	e.Logf("all client goroutines done")
	w.settle()
	if sc.has("deadline") {
		// let every handler deadline pass, so that "the handler context is
		// cancelled when the deadline passes" can be asserted at quiescence
		var last time.Time
		for _, st := range w.rpcs {
			for _, dl := range st.srvDeadline {
				if dl.After(last) {
					last = dl
				}
			}
		}
		if d := time.Until(last); d > 0 {
			time.Sleep(d + time.Microsecond)
			w.settle()
		}
	}
	if sc.has("stacks") {
		e.LogStacks("at quiescence")
	}
	w.checkAtEnd()
	for _, x := range w.exts {
		x.AtQuiescence(w)
	}
	conn.Close()
	srv.Stop()
	for i := 0; i < nlis; i++ {
		<-serveDone
	}
	w.net.Shutdown()
	// let every timer-driven straggler (dial in progress, backoff, ...) finish;
	// whatever is still blocked after this is a leak
	time.Sleep(time.Hour)
	synctest.Wait()
	if w.pool != nil {
		w.pool.checkEnd(sc.has("pool"))
	}
	for _, x := range w.exts {
		x.AfterTeardown(w)
	}
	e.Notes["ledger"] = w.led.Summary()
}

// settle reaches quiescence in the sense of soundness rule S4: every goroutine
// blocked AND no byte still travelling on the simulated network (a frame that
// is 1 ns away from delivery is not "lost").
func (w *run) settle() {
	quiet := 0
	// at least 10 us per round: the runtime may have put a goroutine to sleep
	// for 1 us (spin guard, rt/mkpatch.py) at a busy instant
	step := time.Duration(w.sc.Net.LatencyNs+w.sc.Net.DialDelayNs) + 10*time.Microsecond
	if w.sc.Net.StallPct > 0 {
		step += time.Duration(w.sc.Net.StallNs)
	}
	// No fixed number of rounds: a byte-at-a-time network (inflight cap 1, 50 us
	// latency) needs seconds of virtual time to drain a queue, and judging
	// before it has drained is unsound (a thorough run once asserted "handler
	// context not cancelled" while the RST_STREAM was still crawling over the
	// wire). Bounded by virtual time instead; hitting the bound is reported.
	t0 := time.Now()
	for i := 0; quiet < 6; i++ {
		if i > 400 && time.Since(t0) > 30*time.Minute {
			w.e.Probe("settle_gave_up")
			w.unsettled = true
			break
		}
		synctest.Wait()
		d := w.net.InFlightDelay()
		// a goroutine inside a sleep injected by the runtime's spin guard is
		// runnable work that was charged virtual time (up to seconds when a
		// retry loop spins): wait it out
		if n, left := w.e.SpinSleepers(); n > 0 {
			w.e.Probe("settle_waited_for_spin_guard")
			d = max(d, left)
			quiet = 0
		} else if d <= 0 {
			quiet++
		} else {
			quiet = 0
		}
		// a chain of reactions (RST -> handler returns -> trailers -> ...) may
		// need several network hops, each with its own latency and stall
		time.Sleep(d + step)
	}
	synctest.Wait()
}

func (w *run) st(err error) *status.Status {
	if err == nil {
		return status.New(codes.OK, "")
	}
	s, ok := status.FromError(err)
	if !ok && w.sc.has("status_error") && err != io.EOF {
		w.e.Violate("non_status_error", "API returned an error without a gRPC status: %T %v", err, err)
	}
	return s
}

func (w *run) clientRPC(conn *grpc.ClientConn, st *rpcState) {
	e := w.e
	r := st.r
	if r.StartNs > 0 {
		time.Sleep(time.Duration(r.StartNs))
	}
	d := defaultDeadline
	if r.DeadlineNs > 0 {
		d = time.Duration(r.DeadlineNs)
	}
	st.startedAt = time.Now()
	st.deadline = st.startedAt.Add(d)
	ctx, cancel := context.WithDeadline(context.Background(), st.deadline)
	defer cancel()
	md := kvToMD(r.MD)
	md.Set("x-sim-rpc", strconv.FormatUint(uint64(r.ID), 10))
	ctx = metadata.NewOutgoingContext(ctx, md)
	for _, p := range r.MD {
		if p.Append {
			ctx = metadata.AppendToOutgoingContext(ctx, p.K, p.val())
		}
	}
	var opts []grpc.CallOption
	if r.WaitReady {
		opts = append(opts, grpc.WaitForReady(true))
	}
	for _, x := range w.exts {
		var o []grpc.CallOption
		ctx, o = x.Call(w, st, ctx)
		opts = append(opts, o...)
	}
	e.Logf("rpc %d start", r.ID)
	var cs grpc.ClientStream
	err := w.api(st, "NewStream", func() (err error) {
		desc := &grpc.StreamDesc{ServerStreams: true, ClientStreams: true}
		switch r.Desc {
		case "ss":
			desc = &grpc.StreamDesc{ServerStreams: true}
		case "cs":
			desc = &grpc.StreamDesc{ClientStreams: true}
		case "unary":
			desc = &grpc.StreamDesc{StreamName: "M"}
		}
		cs, err = conn.NewStream(ctx, desc, "/sim.Svc/M", opts...)
		return err
	})
	if err != nil {
		st.newStreamErr = err
		st.clientStatus = w.st(err)
		st.clientDone = true
		st.finishedAt = time.Now()
		e.Logf("rpc %d NewStream err %v", r.ID, st.clientStatus.Code())
		w.checkDeadline(st)
		return
	}
	final := func(err error) {
		if st.clientDone {
			return
		}
		st.clientDone = true
		st.finishedAt = time.Now()
		if err == io.EOF {
			st.clientStatus = status.New(codes.OK, "")
		} else {
			st.clientStatus = w.st(err)
		}
		st.trailer = cs.Trailer()
		if h, herr := cs.Header(); herr == nil {
			st.hdr, st.haveHdr = h, true
		}
		e.Logf("rpc %d final status %v %q", r.ID, st.clientStatus.Code(), st.clientStatus.Message())
	}
	recvOne := func() error {
		m := &Msg{}
		err := w.api(st, "RecvMsg", func() error { return cs.RecvMsg(m) })
		if err != nil {
			final(err)
			return err
		}
		w.checkRecv(st, 's', m.B, cs)
		return nil
	}
	sendFailed := false
	for oi, op := range r.Client {
		if st.clientDone {
			break
		}
		switch op.Op {
		case "send":
			if sendFailed {
				continue
			}
			b := make([]byte, op.N)
			tap.FillPat(b, r.ID, 'c', len(st.cStarted))
			st.cStarted = append(st.cStarted, op.N)
			err := w.api(st, "SendMsg", func() error { return cs.SendMsg(&Msg{B: b}) })
			e.Logf("rpc %d op %d send %d -> %v", r.ID, oi, op.N, errStr(err))
			if err == nil {
				st.cSubmitted = append(st.cSubmitted, op.N)
			} else {
				if err != io.EOF {
					w.st(err)
					// a non-EOF SendMsg error is the RPC's final status
					final(err)
				} else {
					sendFailed = true // status comes from RecvMsg
					// the message was not accepted: forget the started entry so
					// later indexes line up with what can be on the wire
				}
			}
		case "recv":
			err := recvOne()
			e.Logf("rpc %d op %d recv -> %v", r.ID, oi, errStr(err))
		case "recv_all":
			for {
				if err := recvOne(); err != nil {
					e.Logf("rpc %d op %d recv_all end -> %v", r.ID, oi, errStr(err))
					break
				}
			}
		case "close_send":
			err := w.api(st, "CloseSend", func() error { return cs.CloseSend() })
			e.Logf("rpc %d op %d close_send -> %v", r.ID, oi, errStr(err))
		case "cancel":
			st.cancelled = true
			cancel()
			e.Logf("rpc %d op %d cancel", r.ID, oi)
		case "sleep":
			time.Sleep(time.Duration(op.Ns))
		case "header":
			var h metadata.MD
			err := w.api(st, "Header", func() (err error) { h, err = cs.Header(); return err })
			st.hdr = h
			e.Logf("rpc %d op %d header -> %v", r.ID, oi, errStr(err))
		}
	}
	if !st.clientDone && r.Abandon {
		// the deferred cancel releases the stream; nothing is read any more
		st.cancelled = true
		e.Logf("rpc %d abandoned", r.ID)
		e.Probe("rpc_abandoned_by_cancel")
		st.clientDone = true
		st.finishedAt = time.Now()
		st.clientStatus = status.New(codes.Canceled, "abandoned by the application")
		return
	}
	if !st.clientDone {
		// scripts end by draining the stream so that every RPC reaches a final status
		for {
			if err := recvOne(); err != nil {
				break
			}
		}
	}
	w.checkDeadline(st)
}

func errStr(err error) string {
	if err == nil {
		return "nil"
	}
	if err == io.EOF {
		return "EOF"
	}
	if s, ok := status.FromError(err); ok {
		return s.Code().String()
	}
	return "non-status:" + err.Error()
}

func (w *run) checkDeadline(st *rpcState) {}

// api runs one blocking client API call and checks (C22) that it does not stay
// blocked past the RPC's deadline: it must return no later than
// max(call time, deadline) + slack.
func (w *run) api(st *rpcState, name string, f func() error) error {
	t0 := time.Now()
	err := f()
	if !w.sc.has("deadline") {
		return err
	}
	const slack = 10 * time.Millisecond
	t1 := time.Now()
	limit := st.deadline
	if t0.After(limit) {
		limit = t0
	}
	// time the runtime's spin guard held this goroutine (a busy retry loop is
	// charged virtual time) is not the callee's lateness
	if cu := core.ChargedUntil(); cu.After(limit) {
		limit = cu
		w.e.Probe("api_call_charged_by_spin_guard_past_deadline")
	}
	if t1.After(limit.Add(slack)) {
		w.e.Violate("blocked_past_deadline", "rpc %d: %s returned %v after the deadline", st.r.ID, name, t1.Sub(st.deadline))
	}
	if err != nil && err != io.EOF && t0.Before(st.deadline) && !t1.Before(st.deadline) {
		// blocked across the deadline: the error is DEADLINE_EXCEEDED unless a
		// real final status arrived in the same instant
		if c := status.Code(err); c != codes.DeadlineExceeded && c != codes.Canceled {
			// acceptable only if a handler produced exactly this status so late
			// that it can have reached the client in the same instant as the
			// deadline (within the network's latency/stall bounds); a status
			// from an earlier attempt is not
			lag := time.Duration(w.sc.Net.LatencyNs+w.sc.Net.StallNs) + 10*time.Millisecond
			ok := false
			for att, s := range st.srvReturned {
				if s != nil && s.Code() == c && !st.srvRetAt[att].Before(st.deadline.Add(-lag)) {
					ok = true
				}
			}
			if !ok && !w.faulty {
				w.e.Violate("late_status_not_deadline_exceeded", "rpc %d: %s was blocked across the deadline and returned %v", st.r.ID, name, c)
			}
		} else if c == codes.Canceled && !st.cancelled && !w.faulty {
			// the deadline passed and nobody cancelled: CANCELLED is only right
			// if a handler returned it. (One clock: the server's deadline is
			// never earlier than the client's, so its RST_STREAM(CANCEL) cannot
			// arrive before the client's own deadline.)
			ok := false
			for _, s := range st.srvReturned {
				if s != nil && s.Code() == codes.Canceled {
					ok = true
				}
			}
			if !ok {
				w.e.Violate("deadline_reported_as_cancelled", "rpc %d: %s was blocked across the deadline and returned CANCELLED although the application did not cancel and no handler returned it: %v", st.r.ID, name, err)
			}
		}
	}
	return err
}

// checkRecv verifies an application-level received message (C05/C06 rider).
func (w *run) checkRecv(st *rpcState, from byte, b []byte, cs grpc.ClientStream) {
	if !w.sc.has("recv_payload") {
		st.recvd++
		return
	}
	att := 0
	if cs != nil {
		if h, err := cs.Header(); err == nil {
			if v := h.Get("x-sim-att"); len(v) == 1 {
				att, _ = strconv.Atoi(v[0])
			}
		}
	}
	idx := st.recvd
	st.recvd++
	sent := st.sStarted[att]
	if idx >= len(sent) {
		w.e.Violate("recv_unsent_message", "rpc %d: client received message %d (len %d) but the handler (attempt %d) only started %d sends", st.r.ID, idx, len(b), att, len(sent))
		return
	}
	if sent[idx] != len(b) {
		w.e.Violate("recv_length_mismatch", "rpc %d: client received message %d with %d bytes, handler sent %d", st.r.ID, idx, len(b), sent[idx])
		return
	}
	if off := tap.CheckPat(b, st.r.ID^uint32(att)<<24, 's', idx, 0); off >= 0 {
		w.e.Violate("recv_payload_mismatch", "rpc %d: client received message %d with a wrong byte at offset %d", st.r.ID, idx, off)
	}
}

// handler is the server's UnknownServiceHandler.
func (w *run) handler(_ any, ss grpc.ServerStream) error {
	e := w.e
	ctx := ss.Context()
	md, _ := metadata.FromIncomingContext(ctx)
	v := md.Get("x-sim-rpc")
	if len(v) != 1 {
		return status.Error(codes.InvalidArgument, "no x-sim-rpc")
	}
	id64, _ := strconv.ParseUint(v[0], 10, 32)
	st := w.rpcs[uint32(id64)]
	if st == nil {
		return status.Error(codes.InvalidArgument, "unknown x-sim-rpc")
	}
	r := st.r
	att := st.invocations
	st.invocations++
	st.srvMD[att] = md
	if dl, ok := ctx.Deadline(); ok {
		st.srvDeadline[att] = dl
	}
	script := r.Server[min(att, len(r.Server)-1)]
	for _, op := range script {
		if op.Op == "send" {
			// needed to attribute response payload bytes to this invocation;
			// scripts without sends may produce a trailers-only response
			grpc.SetHeader(ctx, metadata.Pairs("x-sim-att", strconv.Itoa(att)))
			break
		}
	}
	e.Logf("rpc %d handler start att=%d", r.ID, att)
	ret := func(s *status.Status) error {
		st.srvReturned[att] = s
		st.srvRetAt[att] = time.Now()
		e.Logf("rpc %d handler att=%d returns %v", r.ID, att, s.Code())
		return s.Err()
	}
	recvIdx := 0
	recvOne := func() error {
		m := &Msg{}
		if err := ss.RecvMsg(m); err != nil {
			return err
		}
		if w.sc.has("recv_payload") {
			sent := st.cStarted
			if recvIdx >= len(sent) {
				e.Violate("recv_unsent_message", "rpc %d: handler received message %d but the client only started %d sends", r.ID, recvIdx, len(sent))
			} else if sent[recvIdx] != len(m.B) {
				e.Violate("recv_length_mismatch", "rpc %d: handler received message %d with %d bytes, client sent %d", r.ID, recvIdx, len(m.B), sent[recvIdx])
			} else if off := tap.CheckPat(m.B, r.ID, 'c', recvIdx, 0); off >= 0 {
				e.Violate("recv_payload_mismatch", "rpc %d: handler received message %d with a wrong byte at offset %d", r.ID, recvIdx, off)
			}
		}
		recvIdx++
		st.srvRecv[att] = recvIdx
		return nil
	}
	for oi, op := range script {
		switch op.Op {
		case "recv":
			err := recvOne()
			e.Logf("rpc %d h%d op %d recv -> %v", r.ID, att, oi, errStr(err))
			if err != nil && err != io.EOF {
				return ret(status.Convert(err))
			}
		case "recv_all":
			for {
				err := recvOne()
				if err == io.EOF {
					break
				}
				if err != nil {
					e.Logf("rpc %d h%d op %d recv_all -> %v", r.ID, att, oi, errStr(err))
					return ret(status.Convert(err))
				}
			}
		case "send":
			b := make([]byte, op.N)
			tap.FillPat(b, r.ID^uint32(att)<<24, 's', len(st.sStarted[att]))
			st.sStarted[att] = append(st.sStarted[att], op.N)
			err := ss.SendMsg(&Msg{B: b})
			e.Logf("rpc %d h%d op %d send %d -> %v", r.ID, att, oi, op.N, errStr(err))
			if err != nil {
				return ret(status.Convert(err))
			}
			st.sSubmitted[att] = append(st.sSubmitted[att], op.N)
		case "sleep":
			select {
			case <-time.After(time.Duration(op.Ns)):
			case <-ctx.Done():
				st.srvCtxDoneAt[att] = time.Now()
				e.Logf("rpc %d h%d ctx done during sleep", r.ID, att)
				return ret(status.FromContextError(ctx.Err()))
			}
		case "set_header":
			grpc.SetHeader(ctx, kvToMD(op.MD))
		case "send_header":
			grpc.SendHeader(ctx, kvToMD(op.MD))
		case "set_trailer":
			grpc.SetTrailer(ctx, kvToMD(op.MD))
		case "wait_ctx":
			st.waitingCtx[att] = true
			<-ctx.Done()
			st.srvCtxDoneAt[att] = time.Now()
			return ret(status.FromContextError(ctx.Err()))
		case "return":
			rs := status.New(codes.Code(op.Code), op.msg())
			if len(op.Details) > 0 && codes.Code(op.Code) != codes.OK {
				var ds []protoadapt.MessageV1
				for _, d := range op.Details {
					ds = append(ds, &errdetails.DebugInfo{Detail: d})
				}
				if rs2, err := rs.WithDetails(ds...); err == nil {
					rs = rs2
				}
			}
			return ret(rs)
		}
	}
	return ret(status.New(codes.OK, ""))
}

// checkAtEnd: oracles over the recorded history, at quiescence, before teardown.
func (w *run) checkAtEnd() {
	e := w.e
	for _, id := range sortedIDs(w.rpcs) {
		st := w.rpcs[id]
		if !st.clientDone {
			e.Violate("rpc_not_terminated", "rpc %d has no final status at quiescence", id)
			continue
		}
		if w.sc.has("status_exact") {
			w.checkStatus(st)
		}
		if w.sc.has("metadata") {
			w.checkMetadata(st)
		}
		if w.sc.has("deadline") {
			w.checkDeadlineSemantics(st)
		}
	}
	if w.sc.has("metadata") {
		w.checkWireMetadata()
	}
}

func sortedIDs(m map[uint32]*rpcState) []uint32 {
	ids := make([]uint32, 0, len(m))
	for k := range m {
		ids = append(ids, k)
	}
	sort.Slice(ids, func(i, j int) bool { return ids[i] < ids[j] })
	return ids
}
