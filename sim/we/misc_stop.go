package we

// misc_stop.go: C25 (server stop semantics, per-connection handler limit) and
// the end-to-end part of C14 (registered as "C14we": graceful drain under load
// never loses or double-runs accepted work).
//
// The "stop" extension
//   - wraps every handler in a stream interceptor that stamps entry and exit
//     with the global event sequence, counts running handlers per connection,
//     keeps the handler's real context, marks the response trailers with the
//     invocation number ("x-misc-inv", so the private wire tap can tell which
//     HTTP/2 stream was served by which invocation) and optionally hands the
//     handler a context that is never cancelled (a handler that ignores
//     cancellation and keeps its slot busy);
//   - calls Server.GracefulStop / Server.Stop itself at scripted instants,
//     stamping call and return.
//
// Oracles (C25):
//   max_streams_exceeded            more handlers running on one connection than
//                                   MaxConcurrentStreams, at a handler entry
//   graceful_stop_returned_early    GracefulStop returned while a handler was running
//   accepted_after_graceful_stop    a handler started after GracefulStop returned
//   graceful_stop_rpc_not_completed graceful-only runs: an RPC whose handler ran
//                                   did not end with exactly the handler's status
//   graceful_stop_never_returned    no handler running, world quiescent, still blocked
//   stop_handler_ctx_not_cancelled  a handler running when Stop returned (or
//                                   started later) has a live context
//   stop_unfinished_rpc_ok          client saw OK although no invocation of the
//                                   RPC had returned OK by the time Stop returned
//   stop_never_returned
// Oracles (drain, C14we and graceful-only C25 runs; fault-free):
//   handler_ran_twice               > 1 invocation of one logical RPC (no retry policy)
//   accepted_stream_not_served      a stream with id <= the final GOAWAY's
//                                   last-stream-id got no handler response
//   stream_above_goaway_served      a stream above it was served
//   goaway_id_increased             a later GOAWAY on the connection has a larger id
//   accepted_rpc_failed             the RPC's only invocation was served but the
//                                   client saw something else than its status
//   unaccepted_rpc_wrong_status     never accepted: must end UNAVAILABLE
//                                   (DEADLINE_EXCEEDED when waiting for ready)
//   status_without_handler          client saw a handler-made status, no handler ran

import (
	"context"
	"encoding/json"
	"fmt"
	"sort"
	"strconv"
	"testing/synctest"
	"time"

	"golang.org/x/net/http2"
	"google.golang.org/grpc"
	"google.golang.org/grpc/codes"
	"google.golang.org/grpc/internal/zzverif/core"
	"google.golang.org/grpc/metadata"
	"google.golang.org/grpc/peer"
	"google.golang.org/grpc/status"
)

type miscStopEv struct {
	AtNs int64  `json:"at_ns"`
	Kind string `json:"kind"` // graceful | stop
}

type miscStopCfg struct {
	Events []miscStopEv `json:"events,omitempty"`
	// IgnoreCancel: handlers get a context that is never cancelled.
	IgnoreCancel bool `json:"ignore_cancel,omitempty"`
	// Drain: apply the drain oracles even without a GracefulStop event
	// (connection drained by MaxConnectionAge).
	Drain bool `json:"drain,omitempty"`
}

type miscHandlerRec struct {
	rpc      uint32
	n        int
	conn     string
	startSeq uint64
	endSeq   uint64
	ctx      context.Context
	ret      *status.Status
}

type miscEvState struct {
	kind    string
	fired   bool
	callSeq uint64
	retSeq  uint64
}

type miscStopExt struct {
	BaseExt
	cfg     miscStopCfg
	sh      *miscShared
	w       *run
	recs    []*miscHandlerRec
	running map[string]int
	evs     []*miscEvState
	cancel  chan struct{}
	live    int
}

func init() {
	RegisterExt("stop", func(raw json.RawMessage) (Ext, error) {
		x := &miscStopExt{running: map[string]int{}}
		if err := json.Unmarshal(raw, &x.cfg); err != nil {
			return nil, err
		}
		for _, ev := range x.cfg.Events {
			if ev.Kind != "graceful" && ev.Kind != "stop" {
				return nil, fmt.Errorf("bad stop event kind %q", ev.Kind)
			}
		}
		return x, nil
	})
	core.Register("C25", miscGenC25, Run)
	core.Register("C14we", miscGenC14we, Run)
}

type miscNoCancelStream struct {
	grpc.ServerStream
	ctx context.Context
}

func (s *miscNoCancelStream) Context() context.Context { return s.ctx }

func (x *miscStopExt) ServerOpts(w *run) []grpc.ServerOption {
	x.sh = miscState(w)
	x.w = w
	return []grpc.ServerOption{grpc.ChainStreamInterceptor(x.intercept)}
}

func (x *miscStopExt) returned(kind string) *miscEvState {
	for _, ev := range x.evs {
		if ev.kind == kind && ev.retSeq != 0 {
			return ev
		}
	}
	return nil
}

func (x *miscStopExt) intercept(srv any, ss grpc.ServerStream, info *grpc.StreamServerInfo, handler grpc.StreamHandler) error {
	e := x.w.e
	ctx := ss.Context()
	rec := &miscHandlerRec{n: len(x.recs), ctx: ctx}
	x.recs = append(x.recs, rec)
	md, _ := metadata.FromIncomingContext(ctx)
	if v := md.Get("x-sim-rpc"); len(v) == 1 {
		id64, _ := strconv.ParseUint(v[0], 10, 32)
		rec.rpc = uint32(id64)
	}
	if p, ok := peer.FromContext(ctx); ok && p.Addr != nil {
		rec.conn = p.Addr.String()
	}
	x.running[rec.conn]++
	rec.startSeq = e.Next()
	if lim := x.w.sc.Server.MaxStreams; lim > 0 {
		if n := x.running[rec.conn]; uint32(n) > lim {
			e.Violate("max_streams_exceeded", "%d handlers are running on connection %s (rpc %d just started), MaxConcurrentStreams is %d", n, rec.conn, rec.rpc, lim)
		} else if uint32(n) == lim {
			e.Probe("c25_handlers_at_limit")
		}
	}
	if ev := x.returned("graceful"); ev != nil {
		e.Violate("accepted_after_graceful_stop", "handler of rpc %d started (seq %d) after GracefulStop had returned (seq %d)", rec.rpc, rec.startSeq, ev.retSeq)
	}
	if ev := x.returned("stop"); ev != nil {
		e.Probe("c25_handler_started_after_stop_returned")
		if ctx.Err() == nil {
			e.Violate("stop_handler_ctx_not_cancelled", "handler of rpc %d started after Stop had returned and its context is not cancelled", rec.rpc)
		}
	}
	grpc.SetTrailer(ctx, metadata.Pairs("x-misc-inv", strconv.Itoa(rec.n)))
	var s2 grpc.ServerStream = ss
	if x.cfg.IgnoreCancel {
		s2 = &miscNoCancelStream{ss, context.WithoutCancel(ctx)}
	}
	err := handler(srv, s2)
	if rec.ret = status.Convert(err); rec.ret == nil {
		rec.ret = status.New(codes.OK, "")
	}
	x.running[rec.conn]--
	rec.endSeq = e.Next()
	return err
}

func (x *miscStopExt) Start(w *run) {
	e := w.e
	x.cancel = make(chan struct{})
	for _, c := range x.cfg.Events {
		ev := &miscEvState{kind: c.Kind}
		x.evs = append(x.evs, ev)
		at := time.Duration(c.AtNs)
		x.live++
		go func() {
			defer func() { x.live-- }()
			select {
			case <-time.After(at):
			case <-x.cancel:
				return
			}
			ev.fired = true
			e.Logf("misc %s called", ev.kind)
			ev.callSeq = e.Next()
			if ev.kind == "graceful" {
				w.Srv.GracefulStop()
			} else {
				w.Srv.Stop()
			}
			ev.retSeq = e.Next()
			e.Logf("misc %s returned", ev.kind)
			// the code up to the next synchronisation operation is atomic:
			// this is the state at the instant of the return
			for _, rec := range x.recs {
				if rec.endSeq != 0 {
					continue
				}
				if ev.kind == "graceful" {
					e.Violate("graceful_stop_returned_early", "GracefulStop returned (seq %d) while the handler of rpc %d (started seq %d) was still running", ev.retSeq, rec.rpc, rec.startSeq)
				} else {
					e.Probe("c25_handler_running_at_stop_return")
					if rec.ctx.Err() == nil {
						e.Violate("stop_handler_ctx_not_cancelled", "Stop returned (seq %d) but the context of the running handler of rpc %d is not cancelled", ev.retSeq, rec.rpc)
					}
				}
			}
		}()
	}
}

func (x *miscStopExt) runningNow() int {
	n := 0
	for _, rec := range x.recs {
		if rec.endSeq == 0 {
			n++
		}
	}
	return n
}

func miscSameStatus(a, b *status.Status) bool {
	if a == nil || b == nil {
		return false
	}
	if a.Code() == codes.OK && b.Code() == codes.OK {
		return true
	}
	return a.Code() == b.Code() && expectedMessage(a.Message()) == b.Message()
}

func (x *miscStopExt) AtQuiescence(w *run) {
	e := w.e
	// events that did not fire yet never will
	close(x.cancel)
	synctest.Wait()
	// events that fired must return once their handlers are gone
	for i := 0; i < 400 && x.live > 0; i++ {
		time.Sleep(50 * time.Millisecond)
		w.settle()
	}
	anyStop, anyGraceful := false, false
	for _, ev := range x.evs {
		if !ev.fired {
			continue
		}
		if ev.kind == "stop" {
			anyStop = true
		} else {
			anyGraceful = true
		}
		if ev.retSeq == 0 {
			if ev.kind == "stop" {
				e.Violate("stop_never_returned", "Stop was called (seq %d) and has not returned at quiescence", ev.callSeq)
			} else if x.runningNow() == 0 {
				e.Violate("graceful_stop_never_returned", "GracefulStop was called (seq %d), no handler is running, the world is quiescent, and it has not returned", ev.callSeq)
			}
		}
	}
	if anyGraceful {
		e.Probe("c25_graceful_stop_fired")
	}
	if anyStop {
		e.Probe("c25_stop_fired")
	}
	byRPC := map[uint32][]*miscHandlerRec{}
	for _, rec := range x.recs {
		byRPC[rec.rpc] = append(byRPC[rec.rpc], rec)
	}
	// ---- Stop: clients observe non-OK for unfinished RPCs ----
	if stop := x.returned("stop"); stop != nil {
		for _, id := range miscSortedRPCs(w.sc) {
			st := w.rpcs[id]
			if st == nil || !st.clientDone {
				continue
			}
			unfinished := false
			okBefore := false
			for _, rec := range byRPC[id] {
				if rec.endSeq == 0 || rec.endSeq > stop.retSeq {
					unfinished = true
				} else if rec.ret.Code() == codes.OK {
					okBefore = true
				}
			}
			if unfinished {
				e.Probe("c25_rpc_unfinished_at_stop")
			}
			if st.clientStatus.Code() == codes.OK && !okBefore {
				e.Violate("stop_unfinished_rpc_ok", "rpc %d: the client observed OK, but no handler invocation had returned OK when Stop returned (%d invocations, unfinished=%v)", id, len(byRPC[id]), unfinished)
			}
		}
	}
	// a stall only delays bytes: every drain rule still holds; anything else
	// may lose data
	for _, f := range w.sc.Faults {
		if f.Kind != "stall" {
			return
		}
	}
	gracefulOnly := anyGraceful && !anyStop
	if !gracefulOnly && !x.cfg.Drain {
		return
	}
	if anyStop {
		return
	}
	// ---- drain oracles ----
	wire := x.sh.wire
	finals := map[int]*miscGoAway{}
	prev := map[int]*miscGoAway{}
	for _, g := range wire.goaways {
		if p := prev[g.Conn]; p != nil && g.LastID > p.LastID {
			e.Violate("goaway_id_increased", "conn %d: GOAWAY with last-stream-id %d after one with %d", g.Conn, g.LastID, p.LastID)
		}
		prev[g.Conn] = g
		if g.LastID != 1<<31-1 && g.Code == http2.ErrCodeNo {
			finals[g.Conn] = g
			e.Probe("c14_final_goaway")
		}
	}
	skip := func(id uint32) bool {
		st := w.rpcs[id]
		return !miscClean(st)
	}
	// Known defect (see the C14we findings): when the server's wait for the
	// drain PING times out while its writer is blocked, streams it accepted
	// in the meantime are counted in the final GOAWAY id but dropped. Such
	// violations carry their own oracle names.
	timedOut := map[int]bool{}
	for c, g := range finals {
		if wire.drainPingTimedOut(g) {
			timedOut[c] = true
		}
	}
	for _, c := range miscSortedInts(timedOut) {
		_ = c
		e.Probe("c14_drain_ping_timed_out")
	}
	suffix := func(conn int) string {
		if timedOut[conn] {
			return "_after_drain_ping_timeout"
		}
		return ""
	}
	lostConn := map[uint32]int{}
	for _, ws := range wire.order {
		g := finals[ws.Conn]
		if g == nil || len(ws.C.Hdrs) == 0 || !ws.HaveRPC || skip(ws.RPC) {
			continue
		}
		served := false
		for _, h := range ws.S.Hdrs {
			if len(h.get("x-misc-inv")) > 0 {
				served = true
			}
		}
		if ws.SID <= g.LastID {
			if ws.OpenSeq > g.SeqW {
				e.Probe("c14_accepted_stream_written_after_final_goaway") // cannot happen: ids grow
			}
			if !served && !(ws.S.Rst && ws.S.RstC == http2.ErrCodeRefusedStream) && !ws.C.Rst {
				sfx := ""
				if len(byRPC[ws.RPC]) > 0 {
					// the recorded defect loses the response of a handler
					// that ran; a stream without any handler is something else
					sfx = suffix(ws.Conn)
					lostConn[ws.RPC] = ws.Conn + 1
				}
				e.Violate("accepted_stream_not_served"+sfx, "conn %d stream %d (rpc %d): id <= last-stream-id %d of the server's final GOAWAY, but the server never answered it with a handler's response", ws.Conn, ws.SID, ws.RPC, g.LastID)
			}
		} else {
			e.Probe("c14_stream_above_final_goaway")
			if served {
				e.Violate("stream_above_goaway_served", "conn %d stream %d (rpc %d): id > last-stream-id %d of the server's final GOAWAY, but a handler served it", ws.Conn, ws.SID, ws.RPC, g.LastID)
			}
		}
	}
	for _, id := range miscSortedRPCs(w.sc) {
		if skip(id) {
			continue
		}
		st := w.rpcs[id]
		recs := byRPC[id]
		got := st.clientStatus
		if len(wire.streamsOf(id)) > 1 {
			e.Probe("c14_rpc_with_several_wire_attempts")
		}
		if len(recs) > 1 {
			e.Violate("handler_ran_twice", "rpc %d: %d handler invocations for one logical RPC without a retry policy (client saw %v)", id, len(recs), got.Code())
			continue
		}
		if len(recs) == 1 {
			rec := recs[0]
			if rec.endSeq == 0 {
				continue // still running (ignore_cancel): nothing to compare yet
			}
			if !miscSameStatus(rec.ret, got) {
				oracle := "accepted_rpc_failed"
				if gracefulOnly && !x.cfg.Drain {
					oracle = "graceful_stop_rpc_not_completed"
				}
				if c := lostConn[id]; c > 0 {
					oracle += suffix(c - 1)
				}
				e.Violate(oracle, "rpc %d: its handler ran once and returned (%v, %q), but the client observed (%v, %q)", id, rec.ret.Code(), rec.ret.Message(), got.Code(), got.Message())
			} else {
				e.Probe("c14_served_exactly_once")
			}
			continue
		}
		// never accepted
		e.Probe("c14_rpc_never_accepted")
		if got.Code() == codes.OK || len(got.Message()) > 1 && got.Message()[:2] == "h-" {
			e.Violate("status_without_handler", "rpc %d: the client observed (%v, %q) but no handler ran", id, got.Code(), got.Message())
			continue
		}
		if got.Code() != codes.Unavailable && !(st.r.WaitReady && got.Code() == codes.DeadlineExceeded) {
			e.Violate("unaccepted_rpc_wrong_status", "rpc %d: never accepted by the server; the client observed (%v, %q) instead of UNAVAILABLE", id, got.Code(), got.Message())
		}
	}
}

// ---- generators ----

func miscHandlerScript(r *core.Rand, id uint32, maxSleepNs int, linger bool) ([]Op, []Op) {
	var cl, srv []Op
	nap := func() Op { return Op{Op: "sleep", Ns: int64(r.LogUniform(1000, maxSleepNs))} }
	if linger {
		// only sleeps: nothing in the script notices that the stream is gone
		srv = append(srv, nap())
		if r.Chance(1, 2) {
			srv = append(srv, nap())
		}
		cl = append(cl, Op{Op: "close_send"}, Op{Op: "recv_all"})
	} else {
		if r.Chance(1, 2) {
			cl = append(cl, Op{Op: "send", N: r.Intn(2000)})
			srv = append(srv, Op{Op: "recv"})
		}
		if r.Chance(3, 4) {
			srv = append(srv, nap())
		}
		for k := r.Intn(3); k > 0; k-- {
			srv = append(srv, Op{Op: "send", N: r.Intn(3000)})
			if r.Chance(1, 3) {
				srv = append(srv, nap())
			}
		}
		cl = append(cl, Op{Op: "close_send"}, Op{Op: "recv_all"})
	}
	code := 0
	if r.Chance(1, 3) {
		code = r.Range(1, 16)
	}
	srv = append(srv, Op{Op: "return", Code: code, Msg: fmt.Sprintf("h-%d", id)})
	return cl, srv
}

func miscGenC25(seed uint64, tier string) *Scenario {
	r, s := genBase(seed, tier)
	s.Oracles = []string{"status_error"}
	s.Client.DisableRetry = r.Chance(1, 2)
	s.Server.MaxStreams = uint32(r.Range(1, 8))
	if r.Chance(1, 6) {
		s.Server.MaxStreams = 0
	}
	var c miscStopCfg
	mode := r.Intn(6)
	c.IgnoreCancel = r.Chance(1, 2)
	horizon := core.Pick(r, 2000000, 100000000, 1500000000)
	at := func() int64 { return int64(r.LogUniform(1, horizon)) }
	switch mode {
	case 0, 1:
		c.Events = []miscStopEv{{at(), "graceful"}}
	case 2:
		c.Events = []miscStopEv{{at(), "stop"}}
	case 3: // both, in either order, possibly at the same instant
		t := at()
		t2 := t
		if r.Chance(2, 3) {
			t2 = at()
		}
		c.Events = []miscStopEv{{t, "graceful"}, {t2, "stop"}}
	case 4: // no stop at all: the handler limit alone
	default:
		c.Events = []miscStopEv{{at(), "graceful"}, {at(), "graceful"}}
	}
	n := r.Range(2, 10)
	if tier == "thorough" {
		n = r.Range(2, 24)
	}
	burstAt := int64(0)
	for i := 0; i < n; i++ {
		if r.Chance(1, 3) {
			burstAt = int64(r.LogUniform(1, horizon))
		}
		id := uint32(i + 1)
		rpc := RPC{ID: id, StartNs: burstAt}
		if r.Chance(1, 4) {
			rpc.StartNs += int64(r.Intn(50000))
		}
		if len(c.Events) > 0 && r.Chance(1, 3) {
			// arrive while the stop call is in progress
			ev := c.Events[r.Intn(len(c.Events))]
			rpc.StartNs = max(0, ev.AtNs-int64(r.Intn(core.Pick(r, 2, 2000, 300000))))
		}
		linger := c.IgnoreCancel && r.Chance(2, 3)
		cl, srv := miscHandlerScript(r, id, horizon, linger)
		if linger || r.Chance(1, 6) {
			// the client gives up while the handler still runs
			if r.Chance(1, 2) {
				rpc.DeadlineNs = int64(r.LogUniform(1000, horizon))
			} else {
				cl = append([]Op{{Op: "sleep", Ns: int64(r.LogUniform(1000, horizon))}, {Op: "cancel"}}, cl...)
			}
		}
		rpc.Client = cl
		rpc.Server = [][]Op{srv}
		s.RPCs = append(s.RPCs, rpc)
	}
	s.Ext = map[string]json.RawMessage{"stop": ExtJSON(&c)}
	return s
}

func miscGenC14we(seed uint64, tier string) *Scenario {
	r, s := genBase(seed, tier)
	s.Oracles = []string{"status_error"}
	s.Client.DisableRetry = r.Chance(2, 3)
	if r.Chance(1, 3) {
		s.Server.MaxStreams = uint32(r.Range(1, 8))
	}
	// the race is between new streams and the two GOAWAYs: give the network
	// some latency more often than the base generator does
	if s.Net.LatencyNs == 0 && r.Chance(2, 3) {
		s.Net.LatencyNs = int64(core.Pick(r, 1000, 100000, 3000000))
	}
	if r.Chance(1, 4) {
		// the client retires a connection itself (stream ids used up) while
		// its streams are still running; the server's GOAWAY then meets a
		// transport that is already draining
		s.Client.MaxStreamID = uint32(2*r.Range(1, 8) + 1)
	}
	var c miscStopCfg
	c.Drain = true
	horizon := core.Pick(r, 500000, 20000000, 600000000)
	t := int64(r.LogUniform(1000, horizon))
	maxAge := r.Chance(1, 3)
	if maxAge {
		t = max(t, 100000)
		// the server drains each connection when it reaches this age; the
		// listener stays open, so unprocessed streams are retried elsewhere
		s.Server.MaxAgeNs = t
		s.Server.MaxAgeGraceNs = int64(10 * time.Minute)
	} else {
		c.Events = []miscStopEv{{t, "graceful"}}
	}
	n := r.Range(4, 16)
	if tier == "thorough" {
		n = r.Range(4, 40)
	}
	spread := int64(core.Pick(r, 2000, 200000, 20000000))
	for i := 0; i < n; i++ {
		id := uint32(i + 1)
		rpc := RPC{ID: id}
		switch r.Intn(4) {
		case 0: // long before
			rpc.StartNs = int64(r.Intn(int(t) + 1))
		default: // around the drain instant
			rpc.StartNs = max(0, t+int64(r.Intn(int(2*spread)))-spread)
			if maxAge && r.Chance(1, 3) {
				rpc.StartNs += t * int64(r.Range(1, 3))
			}
		}
		rpc.WaitReady = r.Chance(1, 8)
		if rpc.WaitReady {
			rpc.DeadlineNs = 0
		}
		cl, srv := miscHandlerScript(r, id, int(max(spread*4, 1000)), false)
		rpc.Client, rpc.Server = cl, [][]Op{srv}
		s.RPCs = append(s.RPCs, rpc)
	}
	if r.Chance(1, 2) {
		// delay one direction for several seconds around the drain instant:
		// the server's GOAWAY/PING handshake then times out while requests
		// are still in the pipe, or the client learns of the drain late
		f := simnetFault("stall", 0)
		f.Dir = core.Pick(r, "c2s", "s2c", "both")
		f.AtNs = max(0, t+int64(r.Intn(int(2*spread)))-spread)
		f.DurNs = int64(r.Range(3000, 9000)) * 1000000
		s.Faults = append(s.Faults, f)
		for i := range s.RPCs {
			if r.Chance(1, 2) {
				s.RPCs[i].StartNs = f.AtNs + int64(r.Intn(int(f.DurNs)+1000000000))
			}
		}
	}
	if len(s.Faults) > 0 && !maxAge && r.Chance(1, 2) {
		// Aim requests at the instant the server gives up waiting for the
		// drain PING (grpc-go: 5 s after the heads-up GOAWAY): the client has
		// not heard of the drain (server->client path stalled since before
		// it), so its HEADERS are being processed while the final GOAWAY is
		// written. The constant only steers generation; no oracle uses it.
		f := &s.Faults[0]
		f.Dir = "s2c"
		f.AtNs = max(0, t-int64(r.Intn(int(spread)+1)))
		f.DurNs = int64(r.Range(5500, 9000)) * 1000000
		for i := range s.RPCs {
			if r.Chance(1, 2) {
				s.RPCs[i].StartNs = max(0, t+5000000000-int64(r.Intn(int(s.Net.LatencyNs)+1))+int64(r.Intn(4000))-2000)
			}
		}
	}
	if len(s.Faults) > 0 && !maxAge && s.Faults[0].Dir != "s2c" && r.Chance(1, 2) {
		// Both directions stalled across the server's drain wait, with a small
		// send buffer and an early bulky response so that the server's writer
		// blocks: the final-GOAWAY work item waits in its queue, and when the
		// stall ends the writer resumes at the very instant the reader sees
		// the burst of requests the client sent meanwhile.
		f := &s.Faults[0]
		f.Dir = "both"
		f.AtNs = max(0, t-int64(r.Intn(int(spread)+1)))
		f.DurNs = int64(r.Range(5200, 8000)) * 1000000
		s.Net.InflightCap = core.Pick(r, 1, 512, 4096)
		s.Sched.YieldThr = core.Pick(r, uint32(2000), 6500, 20000)
		early := &s.RPCs[0]
		early.StartNs = max(0, f.AtNs-int64(r.Intn(200000))-int64(s.Net.LatencyNs))
		early.Client = []Op{{Op: "close_send"}, {Op: "recv_all"}}
		early.Server = [][]Op{{{Op: "sleep", Ns: int64(r.Range(100000, 3000000))}, {Op: "send", N: r.Range(5000, 12000)}, {Op: "send", N: r.Range(5000, 12000)}, {Op: "return", Msg: "h-" + fmt.Sprint(early.ID)}}}
		for i := 1; i < len(s.RPCs); i++ {
			s.RPCs[i].StartNs = f.AtNs + int64(r.Intn(int(f.DurNs)))
			s.RPCs[i].WaitReady = false
		}
	}
	s.Ext = map[string]json.RawMessage{"stop": ExtJSON(&c)}
	return s
}

func miscSortedInts(m map[int]bool) []int {
	var ks []int
	for k := range m {
		ks = append(ks, k)
	}
	sort.Ints(ks)
	return ks
}
