package we

import (
	"errors"
	"strconv"
	"strings"
	"time"

	"google.golang.org/grpc/balancer"
	"google.golang.org/grpc/codes"
	"google.golang.org/grpc/connectivity"
	"google.golang.org/grpc/metadata"
	"google.golang.org/grpc/resolver"
	"google.golang.org/grpc/status"

	"google.golang.org/grpc/internal/zzverif/core"
)

// ---- builder (registered once, process-global) ----

type lbBuilder struct{}

func (lbBuilder) Name() string { return "sim_lb" }
func (lbBuilder) Build(cc balancer.ClientConn, _ balancer.BuildOptions) balancer.Balancer {
	x := lbCur
	if x == nil {
		return lbInert{}
	}
	idx := len(x.insts)
	i := &lbInst{x: x, idx: idx, cc: cc, cfg: &x.cfg.Insts[min(idx, len(x.cfg.Insts)-1)], stop: make(chan struct{}), builtSeq: x.e.Next()}
	i.spec = i.cfg.Spec
	x.insts = append(x.insts, i)
	x.e.Logf("lb build inst=%d", idx)
	return i
}

// lbInert is what Build returns outside a run (never used by a run).
type lbInert struct{}

func (lbInert) UpdateClientConnState(balancer.ClientConnState) error       { return nil }
func (lbInert) ResolverError(error)                                        {}
func (lbInert) UpdateSubConnState(balancer.SubConn, balancer.SubConnState) {}
func (lbInert) Close()                                                     {}
func (lbInert) ExitIdle()                                                  {}

// ---- SubConn record ----

type lbSCEv struct {
	seq   uint64
	t     time.Time
	state connectivity.State
	late  bool // delivered after the instance's Close returned
}

// lbAddrSet is one address list given to a SubConn (NewSubConn or
// UpdateAddresses); seq is taken before the call.
type lbAddrSet struct {
	seq     uint64
	doneSeq uint64 // after the call returned (0: it has not)
	addrs   []string
}

type lbSC struct {
	id          int
	inst        *lbInst
	addr        string      // current address list, joined with "+" (log text)
	addrHist    []lbAddrSet // [0]: creation
	hc          bool        // health-checked: READY follows the backend's health status
	sc          balancer.SubConn
	createdSeq  uint64
	log         []lbSCEv
	state       connectivity.State // last notified; IDLE before the first notification
	shutCalled  bool
	shutSeq     uint64 // stamp taken before SubConn.Shutdown was called
	shutDoneSeq uint64 // ... after it returned
	connects    []uint64
}

// cur is the address list most recently given to the SubConn.
func (s *lbSC) cur() []string { return s.addrHist[len(s.addrHist)-1].addrs }

func lbHasAddr(l []string, a string) bool {
	for _, v := range l {
		if v == a {
			return true
		}
	}
	return false
}

// had: addr was in a list given to the SubConn before event seq `before`.
func (s *lbSC) had(addr string, before uint64) bool {
	for _, h := range s.addrHist {
		if h.seq < before && lbHasAddr(h.addrs, addr) {
			return true
		}
	}
	return false
}

// listed: addr was in a list that may have been the SubConn's current one at
// some point between the events from and to: a list is current from the start
// of the call that sets it until the call that replaces it has returned.
func (s *lbSC) listed(addr string, from, to uint64) bool {
	for k, h := range s.addrHist {
		if h.seq >= to {
			break
		}
		end := ^uint64(0)
		if k+1 < len(s.addrHist) && s.addrHist[k+1].doneSeq != 0 {
			end = s.addrHist[k+1].doneSeq
		}
		if end > from && lbHasAddr(h.addrs, addr) {
			return true
		}
	}
	return false
}

// updates counts the UpdateAddresses calls started before event seq `before`.
func (s *lbSC) updates(before uint64) int {
	n := 0
	for _, h := range s.addrHist[1:] {
		if h.seq < before {
			n++
		}
	}
	return n
}

// connected: a connection to one of the SubConn's current addresses, dialled
// after the SubConn was created, is open.
func (s *lbSC) connected() bool {
	for _, d := range s.inst.x.w.net.Dials {
		if d.Result == "ok" && d.Seq > s.createdSeq && lbHasAddr(s.cur(), d.Addr) && !s.inst.x.w.net.Pairs[d.Conn].Closed {
			return true
		}
	}
	return false
}

func (s *lbSC) connect(why string) {
	if s.shutCalled {
		return
	}
	x := s.inst.x
	s.connects = append(s.connects, x.e.Next())
	x.e.Logf("lb sc%d connect (%s)", s.id, why)
	s.sc.Connect()
}

// ---- policy instance ----

type lbInst struct {
	x         *lbExt
	idx       int
	cfg       *lbInstCfg
	cc        balancer.ClientConn
	scs       []*lbSC
	spec      []string
	override  int // 1+state, 0 none
	started   bool
	closed    bool
	closedSeq uint64
	builtSeq  uint64
	lastCbSeq uint64 // stamp of the latest call from gRPC into this instance
	stop      chan struct{}

	created     int // NewSubConn calls
	addrUpdates int // UpdateAddresses calls on live SubConns
}

func (i *lbInst) cb() uint64 {
	i.lastCbSeq = i.x.e.Next()
	return i.lastCbSeq
}

func (i *lbInst) newSC(addr string) *lbSC {
	x := i.x
	s := &lbSC{id: len(x.scs), inst: i, addr: addr, state: connectivity.Idle, createdSeq: x.e.Next()}
	s.addrHist = []lbAddrSet{{seq: s.createdSeq, doneSeq: s.createdSeq, addrs: []string{addr}}}
	s.hc = x.cfg.Health != nil && i.cfg.HCMask>>(uint(i.created)%8)&1 == 1
	i.created++
	sc, err := i.cc.NewSubConn([]resolver.Address{{Addr: addr}}, balancer.NewSubConnOptions{HealthCheckEnabled: s.hc, StateListener: func(st balancer.SubConnState) { i.onState(s, st) }})
	if err != nil {
		x.e.Logf("lb inst=%d NewSubConn(%s) failed", i.idx, addr)
		return nil
	}
	s.sc = sc
	x.scs = append(x.scs, s)
	i.scs = append(i.scs, s)
	x.e.Logf("lb inst=%d new sc%d addr=%s hc=%v", i.idx, s.id, addr, s.hc)
	return s
}

// updateAddrs re-targets an existing SubConn (deprecated but supported API:
// SubConn.UpdateAddresses / ClientConn.UpdateAddresses), whatever state it is
// in. Live SubConns of one instance never share an address, so that
// connections can be attributed to SubConns by address.
func (i *lbInst) updateAddrs(s *lbSC, idx []int, empty, viaCC bool) {
	x := i.x
	var list []string
	if !empty {
		n := len(x.cfg.Addrs)
		for _, k := range idx {
			a := x.cfg.Addrs[((k%n)+n)%n]
			ok := !lbHasAddr(list, a)
			for _, o := range i.scs {
				if o != s && !o.shutCalled && lbHasAddr(o.cur(), a) {
					ok = false
				}
			}
			if ok {
				list = append(list, a)
			}
		}
		if len(list) == 0 {
			return
		}
	}
	var as []resolver.Address
	for _, a := range list {
		as = append(as, resolver.Address{Addr: a})
	}
	if !s.shutCalled {
		s.addrHist = append(s.addrHist, lbAddrSet{seq: x.e.Next(), addrs: list})
		s.addr = strings.Join(list, "+")
		i.addrUpdates++
	}
	x.e.Logf("lb sc%d update addresses %v (notified %v, shut=%v, via cc=%v)", s.id, list, s.state, s.shutCalled, viaCC)
	x.e.Probe("update_addresses_in_" + s.state.String())
	live := !s.shutCalled
	k := len(s.addrHist) - 1
	if viaCC {
		i.cc.UpdateAddresses(s.sc, as)
	} else {
		s.sc.UpdateAddresses(as)
	}
	if live {
		s.addrHist[k].doneSeq = x.e.Next()
	}
}

func (i *lbInst) UpdateClientConnState(s balancer.ClientConnState) error {
	i.cb()
	if i.started || i.closed {
		return nil
	}
	i.started = true
	for k, a := range s.ResolverState.Addresses {
		if i.cfg.InitSCs > 0 && k >= i.cfg.InitSCs {
			break
		}
		if sc := i.newSC(a.Addr); sc != nil && i.cfg.AutoConnect {
			sc.connect("auto")
		}
	}
	i.publish("init")
	go i.script()
	return nil
}

func (i *lbInst) ResolverError(error) { i.cb() }

func (i *lbInst) UpdateSubConnState(balancer.SubConn, balancer.SubConnState) {
	i.x.e.Violate("harness", "deprecated UpdateSubConnState called")
}

func (i *lbInst) Close() {
	i.cb()
	i.closed = true
	i.closedSeq = i.x.e.Next()
	close(i.stop)
	i.x.e.Logf("lb close inst=%d", i.idx)
	if i.cfg.ShutOnClose {
		for _, s := range i.scs {
			i.shutdown(s)
		}
	}
}

func (i *lbInst) ExitIdle() {
	i.cb()
	i.x.e.Logf("lb exit_idle inst=%d", i.idx)
	for _, s := range i.scs {
		if s.state == connectivity.Idle {
			s.connect("exit_idle")
		}
	}
}

func (i *lbInst) shutdown(s *lbSC) {
	if s.shutCalled {
		return
	}
	s.shutCalled = true
	s.shutSeq = i.x.e.Next()
	i.x.e.Logf("lb sc%d shutdown", s.id)
	s.sc.Shutdown()
	s.shutDoneSeq = i.x.e.Next()
}

func (i *lbInst) onState(s *lbSC, st balancer.SubConnState) {
	x := i.x
	seq := i.cb()
	s.log = append(s.log, lbSCEv{seq: seq, t: time.Now(), state: st.ConnectivityState, late: i.closed})
	s.state = st.ConnectivityState
	x.e.Logf("lb sc%d (%s) -> %v", s.id, s.addr, st.ConnectivityState)
	if i.closed {
		return
	}
	if st.ConnectivityState == connectivity.Idle && i.cfg.AutoConnect {
		s.connect("auto")
	}
	if i.cfg.Reactive {
		i.publish("listener")
	}
}

// aggregate is the usual aggregation rule over the notified states.
func (i *lbInst) aggregate() connectivity.State {
	if i.override >= 1 && i.override <= 4 {
		return lbState(i.override)
	}
	var n [5]int
	for _, s := range i.scs {
		if !s.shutCalled {
			n[s.state]++
		}
	}
	switch {
	case n[connectivity.Ready] > 0:
		return connectivity.Ready
	case n[connectivity.Connecting] > 0:
		return connectivity.Connecting
	case n[connectivity.Idle] > 0:
		return connectivity.Idle
	}
	return connectivity.TransientFailure
}

// publish hands a new picker generation to gRPC. UpdateState calls of the whole
// run are made one at a time in generation order: a caller that finds another
// publication in progress leaves its request to that publisher (no locks: code
// between two synchronisation operations is atomic in this runtime).
func (i *lbInst) publish(why string) {
	x := i.x
	if i.closed {
		return
	}
	for _, q := range x.pubQueue {
		if q == i {
			return
		}
	}
	x.pubQueue = append(x.pubQueue, i)
	if x.pubBusy {
		x.e.Probe("publish_combined")
		return
	}
	x.pubBusy = true
	for len(x.pubQueue) > 0 {
		q := x.pubQueue[0]
		x.pubQueue = x.pubQueue[1:]
		q.doPublish(why)
	}
	x.pubBusy = false
}

func (i *lbInst) doPublish(why string) {
	x := i.x
	if i.closed {
		return
	}
	x.nextGen++
	gen := x.nextGen
	p := &lbPicker{x: x, inst: i, gen: gen, spec: i.spec, rng: core.NewRand(core.Mix(x.cfg.Seed, uint64(gen)))}
	for _, s := range i.scs {
		p.scs = append(p.scs, lbSnap{s, s.state, s.shutCalled})
	}
	st := i.aggregate()
	pub := &lbPub{gen: gen, inst: i, aSeq: x.e.Next(), aT: time.Now(), state: st}
	x.pubs = append(x.pubs, pub)
	x.e.Logf("lb publish gen=%d inst=%d state=%v spec=%s (%s)", gen, i.idx, st, strings.Join(i.spec, ","), why)
	i.cc.UpdateState(balancer.State{ConnectivityState: st, Picker: p})
	pub.bSeq, pub.bT = x.e.Next(), time.Now()
}

func (i *lbInst) script() {
	x := i.x
	for _, st := range i.cfg.Steps {
		d := time.Duration(st.AtNs)
		if d < 0 {
			d = 0
		}
		t := time.NewTimer(d)
		select {
		case <-t.C:
		case <-i.stop:
			t.Stop()
			return
		case <-x.scriptCtx.Done():
			t.Stop()
			return
		}
		if i.closed || x.scriptCtx.Err() != nil {
			return
		}
		var s *lbSC
		if len(i.scs) > 0 {
			s = i.scs[((st.SC%len(i.scs))+len(i.scs))%len(i.scs)]
		}
		switch st.Op {
		case "connect":
			if s != nil {
				s.connect("script")
			}
		case "shutdown":
			if s != nil && !s.shutCalled {
				i.shutdown(s)
				if i.cfg.Reactive {
					i.publish("shutdown")
				}
			}
		case "newsc":
			// a new SubConn for an address that no live SubConn of this
			// instance uses (lifetimes per address never overlap)
			addrs := x.cfg.Addrs
			a := addrs[((st.SC%len(addrs))+len(addrs))%len(addrs)]
			used := false
			for _, o := range i.scs {
				if !o.shutCalled && lbHasAddr(o.cur(), a) {
					used = true
				}
			}
			if !used {
				if n := i.newSC(a); n != nil {
					if i.cfg.AutoConnect {
						n.connect("auto")
					}
					if i.cfg.Reactive {
						i.publish("newsc")
					}
				}
			}
		case "addrs", "addrs_empty":
			if s != nil && !i.closed {
				i.updateAddrs(s, st.Addrs, st.Op == "addrs_empty", st.ViaCC)
			}
		case "publish":
			i.publish("script")
		case "spec":
			i.spec = st.Spec
			i.publish("spec")
		case "state":
			i.override = st.State
			i.publish("state")
		}
	}
}

// ---- picker ----

type lbSnap struct {
	s     *lbSC
	state connectivity.State
	shut  bool
}

type lbPicker struct {
	x    *lbExt
	inst *lbInst
	gen  int
	spec []string
	scs  []lbSnap
	rng  *core.Rand
}

// lbPick is the record of one Picker.Pick call.
type lbPick struct {
	id      int
	gen     int
	inst    *lbInst
	seq     uint64
	t       time.Time
	call    *lbCall
	kind    string
	sc      *lbSC  // non-nil: the result carried this SubConn (nil error)
	errKind string // "", nosc, status, plain
	code    codes.Code
	hasDone bool
	doneN   int
	doneSeq uint64
	// first DoneInfo
	doneErr  bool
	doneCode codes.Code
	doneSent bool
	doneRecv bool
	// attribution
	hdrSeq  uint64 // request HEADERS carrying this pick's id were written
	hdrConn int
	handler bool // a handler invocation saw this pick's id
}

var errLbPlain = errors.New("sim_lb: scripted plain picker error")

const lbStormLimit = 200

func (p *lbPicker) choose(f func(lbSnap) bool) *lbSC {
	var c []*lbSC
	for _, sn := range p.scs {
		if f(sn) {
			c = append(c, sn.s)
		}
	}
	if len(c) == 0 {
		return nil
	}
	return c[p.rng.Intn(len(c))]
}

// Pick returns a scripted result. It contains no synchronisation operation, so
// the generation it belongs to is the one gRPC loaded immediately before.
//
// spec entries (one is drawn uniformly per call):
//
//	ready, ready_nodone  a SubConn READY in this picker's snapshot (else ErrNoSubConnAvailable)
//	lazy                 like ready; without a READY SubConn: Connect the IDLE ones, ErrNoSubConnAvailable
//	notready             a SubConn not READY in the snapshot, with Done
//	shut                 a SubConn the policy has shut down, with Done
//	any                  any SubConn, with Done
//	nosc                 ErrNoSubConnAvailable
//	err                  a plain (non-status) error
//	st:<code>            a status error with that code (a drop)
func (p *lbPicker) Pick(info balancer.PickInfo) (balancer.PickResult, error) {
	x := p.x
	e := x.e
	pk := &lbPick{id: len(x.picks) + 1, gen: p.gen, inst: p.inst, seq: e.Next(), t: time.Now()}
	x.picks = append(x.picks, pk)
	if info.Ctx != nil {
		pk.call, _ = info.Ctx.Value(lbCtxKey{}).(*lbCall)
	}
	rid := -1
	if pk.call != nil {
		pk.call.picks = append(pk.call.picks, pk)
		rid = int(pk.call.id)
	}
	kind := "lazy"
	if len(p.spec) > 0 {
		kind = p.spec[p.rng.Intn(len(p.spec))]
	}
	if c := pk.call; c != nil {
		// Circuit breaker of the harness: gRPC retries an attempt whose stream
		// could not be created transparently, without backoff and without
		// limit; while a subchannel is still READY although its transport can
		// no longer write (the peer closed, the reader has not noticed yet) this
		// becomes a loop of tens of thousands of picks in one virtual instant.
		// After lbStormLimit picks of one RPC in one instant the picker ends
		// the RPC with UNAVAILABLE.
		if pk.t.Equal(c.stormT) {
			c.stormN++
		} else {
			c.stormT, c.stormN = pk.t, 1
		}
		if c.stormN > lbStormLimit {
			kind = "st:14"
			x.storm = true
			e.Probe("retry_storm_cut")
		}
	}
	pk.kind = kind
	var s *lbSC
	withDone := true
	switch {
	case kind == "ready" || kind == "ready_nodone" || kind == "lazy":
		s = p.choose(func(sn lbSnap) bool { return sn.state == connectivity.Ready && !sn.shut })
		withDone = kind != "ready_nodone"
		if s == nil && kind == "lazy" {
			for _, sn := range p.scs {
				if sn.s.state == connectivity.Idle && !sn.s.shutCalled && !p.inst.closed {
					sn.s.connect("lazy pick")
				}
			}
		}
	case kind == "notready":
		s = p.choose(func(sn lbSnap) bool { return sn.state != connectivity.Ready && !sn.shut })
	case kind == "shut":
		s = p.choose(func(sn lbSnap) bool { return sn.shut })
	case kind == "any":
		s = p.choose(func(sn lbSnap) bool { return true })
	case kind == "err":
		pk.errKind = "plain"
		e.Logf("lb pick %d rpc=%d gen=%d %s -> plain error", pk.id, rid, p.gen, kind)
		return balancer.PickResult{}, errLbPlain
	case strings.HasPrefix(kind, "st:"):
		c, _ := strconv.Atoi(kind[3:])
		if c >= 1 && c <= 16 {
			pk.errKind, pk.code = "status", codes.Code(c)
			e.Logf("lb pick %d rpc=%d gen=%d %s -> status %v", pk.id, rid, p.gen, kind, pk.code)
			return balancer.PickResult{}, status.Error(pk.code, "sim_lb scripted status")
		}
	}
	if s == nil {
		pk.errKind = "nosc"
		e.Logf("lb pick %d rpc=%d gen=%d %s -> ErrNoSubConnAvailable", pk.id, rid, p.gen, kind)
		return balancer.PickResult{}, balancer.ErrNoSubConnAvailable
	}
	pk.sc = s
	if s.hc && s.state != connectivity.Ready && !s.shutCalled && s.connected() {
		// the case in which "has a transport" and "is READY" differ
		e.Probe("pick_healthchecked_subconn_connected_not_ready")
	}
	res := balancer.PickResult{SubConn: s.sc, Metadata: metadata.Pairs("x-sim-pick", strconv.Itoa(pk.id))}
	if withDone {
		pk.hasDone = true
		res.Done = func(di balancer.DoneInfo) {
			pk.doneN++
			seq := e.Next()
			if pk.doneN == 1 {
				pk.doneSeq = seq
				pk.doneErr = di.Err != nil
				pk.doneCode = status.Code(di.Err)
				pk.doneSent, pk.doneRecv = di.BytesSent, di.BytesReceived
			}
			e.Logf("lb pick %d done #%d err=%v sent=%v recv=%v", pk.id, pk.doneN, errStr(di.Err), di.BytesSent, di.BytesReceived)
		}
	}
	e.Logf("lb pick %d rpc=%d gen=%d %s -> sc%d (notified %v, shut=%v) done=%v", pk.id, rid, p.gen, kind, s.id, s.state, s.shutCalled, withDone)
	return res, nil
}
