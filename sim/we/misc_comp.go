package we

// misc_comp.go: harness compressors for C21/C27.
//
//   simxor, simxor2  reversible byte transform, output = 3-byte header + input
//                    (grows by exactly 3 bytes); different magic and key, so a
//                    payload decoded with the wrong one is rejected
//   simpat           dictionary coder specialised on the world's attributable
//                    payload pattern: a pattern message of any size becomes a
//                    16-byte token (shrinks), anything else is stored (+1 byte)
//   gzip             the stock one (google.golang.org/grpc/encoding/gzip)
//   simlegacy        only available through the legacy Compressor/Decompressor
//                    API (grpc.WithCompressor, grpc.RPCCompressor ...), never
//                    registered with package encoding
//
// Registration happens once in init(), as the API demands. The list of
// *advertised* names (internal/grpcutil.RegisteredCompressorNames) is cleared
// again right away and only set for the duration of runs that ask for it
// (compress extension), so the other checks of this world keep seeing exactly
// the wire they saw before these compressors existed.

import (
	"bytes"
	"encoding/binary"
	"encoding/json"
	"errors"
	"io"

	"google.golang.org/grpc/encoding"
	_ "google.golang.org/grpc/encoding/gzip"
	"google.golang.org/grpc/internal"
	"google.golang.org/grpc/internal/grpcutil"
	"google.golang.org/grpc/internal/zzverif/core"
	"google.golang.org/grpc/internal/zzverif/simnet"
	"google.golang.org/grpc/internal/zzverif/tap"
	"google.golang.org/grpc/serviceconfig"
)

// miscAllComp is every name registered with package encoding in this binary.
var miscAllComp []string

// miscCompCalls counts compressor use per run (reset by miscCompReset).
var miscCompCalls map[string]int

func miscCompReset() { miscCompCalls = map[string]int{} }

func miscCount(k string) {
	if miscCompCalls != nil {
		miscCompCalls[k]++
	}
}

func init() {
	encoding.RegisterCompressor(&miscXor{name: "simxor", magic: [2]byte{'X', '1'}, key: 0x5a})
	encoding.RegisterCompressor(&miscXor{name: "simxor2", magic: [2]byte{'X', '2'}, key: 0xc3})
	encoding.RegisterCompressor(miscPat{})
	miscAllComp = append([]string(nil), grpcutil.RegisteredCompressorNames...)
	grpcutil.RegisteredCompressorNames = nil
}

// ---- simxor ----

type miscXor struct {
	name  string
	magic [2]byte
	key   byte
}

const miscXorOverhead = 3

func (c *miscXor) Name() string { return c.name }

type miscBufW struct {
	buf  bytes.Buffer
	done func(b []byte) error
}

func (w *miscBufW) Write(p []byte) (int, error) { return w.buf.Write(p) }
func (w *miscBufW) Close() error                { return w.done(w.buf.Bytes()) }

func (c *miscXor) enc(in []byte) []byte {
	out := make([]byte, 0, len(in)+miscXorOverhead)
	out = append(out, c.magic[0], c.magic[1], c.key)
	for _, b := range in {
		out = append(out, b^c.key)
	}
	return out
}

func (c *miscXor) dec(in []byte) ([]byte, error) {
	if len(in) < miscXorOverhead || in[0] != c.magic[0] || in[1] != c.magic[1] || in[2] != c.key {
		return nil, errors.New(c.name + ": payload was not produced by this compressor")
	}
	out := make([]byte, len(in)-miscXorOverhead)
	for i := range out {
		out[i] = in[i+miscXorOverhead] ^ c.key
	}
	return out, nil
}

func (c *miscXor) Compress(w io.Writer) (io.WriteCloser, error) {
	miscCount(c.name + ".compress")
	return &miscBufW{done: func(b []byte) error { _, err := w.Write(c.enc(b)); return err }}, nil
}

func (c *miscXor) Decompress(r io.Reader) (io.Reader, error) {
	miscCount(c.name + ".decompress")
	in, err := io.ReadAll(r)
	if err != nil {
		return nil, err
	}
	out, err := c.dec(in)
	if err != nil {
		return nil, err
	}
	return bytes.NewReader(out), nil
}

// ---- simpat ----

type miscPat struct{}

const miscPatToken = 16

func (miscPat) Name() string { return "simpat" }

// miscPatFind looks the message up in the "dictionary": the world's payload
// pattern over (rpc 1..64 xor attempt<<24, direction, message index 0..31).
func miscPatFind(b []byte) (rpc uint32, dir byte, msg int, ok bool) {
	if len(b) == 0 {
		return
	}
	for id := uint32(1); id <= 64; id++ {
		for att := uint32(0); att < 4; att++ {
			for _, d := range []byte{'c', 's'} {
				if d == 'c' && att > 0 {
					continue
				}
				for m := 0; m < 32; m++ {
					key := id ^ att<<24
					if tap.PatByte(key, d, m, 0) != b[0] {
						continue
					}
					if tap.CheckPat(b, key, d, m, 0) < 0 {
						return key, d, m, true
					}
				}
			}
		}
	}
	return
}

func miscPatEnc(in []byte) []byte {
	if rpc, dir, msg, ok := miscPatFind(in); ok {
		out := make([]byte, miscPatToken)
		out[0] = 'P'
		out[1] = dir
		binary.BigEndian.PutUint32(out[2:], rpc)
		binary.BigEndian.PutUint32(out[6:], uint32(msg))
		binary.BigEndian.PutUint32(out[10:], uint32(len(in)))
		return out
	}
	return append([]byte{'R'}, in...)
}

// miscPatEncLen is the compressed size of an n-byte pattern message.
func miscPatEncLen(n int) int {
	if n == 0 {
		return 0
	}
	return miscPatToken
}

type miscPatR struct {
	rpc uint32
	dir byte
	msg int
	n   int
	off int
}

func (r *miscPatR) Read(p []byte) (int, error) {
	if r.off >= r.n {
		return 0, io.EOF
	}
	k := min(len(p), r.n-r.off)
	for i := 0; i < k; i++ {
		p[i] = tap.PatByte(r.rpc, r.dir, r.msg, r.off+i)
	}
	r.off += k
	return k, nil
}

func (miscPat) Compress(w io.Writer) (io.WriteCloser, error) {
	miscCount("simpat.compress")
	return &miscBufW{done: func(b []byte) error { _, err := w.Write(miscPatEnc(b)); return err }}, nil
}

func (miscPat) Decompress(r io.Reader) (io.Reader, error) {
	miscCount("simpat.decompress")
	in, err := io.ReadAll(r)
	if err != nil {
		return nil, err
	}
	if len(in) >= 1 && in[0] == 'R' {
		return bytes.NewReader(in[1:]), nil
	}
	if len(in) != miscPatToken || in[0] != 'P' {
		return nil, errors.New("simpat: payload was not produced by this compressor")
	}
	return &miscPatR{dir: in[1], rpc: binary.BigEndian.Uint32(in[2:]), msg: int(binary.BigEndian.Uint32(in[6:])), n: int(binary.BigEndian.Uint32(in[10:]))}, nil
}

// ---- legacy API wrappers ----

// miscLegacy implements grpc.Compressor and grpc.Decompressor (deprecated API)
// with the simxor algorithm under a chosen type name.
type miscLegacy struct {
	x *miscXor
}

func miscNewLegacy(typ string) *miscLegacy {
	switch typ {
	case "simxor":
		return &miscLegacy{&miscXor{name: "simxor", magic: [2]byte{'X', '1'}, key: 0x5a}}
	case "simxor2":
		return &miscLegacy{&miscXor{name: "simxor2", magic: [2]byte{'X', '2'}, key: 0xc3}}
	default:
		return &miscLegacy{&miscXor{name: typ, magic: [2]byte{'L', 'G'}, key: 0x77}}
	}
}

func (l *miscLegacy) Type() string { return l.x.name }

func (l *miscLegacy) Do(w io.Writer, p []byte) error {
	miscCount(l.x.name + ".legacy_compress")
	_, err := w.Write(l.x.enc(p))
	return err
}

type miscLegacyD struct{ x *miscXor }

func (l *miscLegacyD) Type() string { return l.x.name }

func (l *miscLegacyD) Do(r io.Reader) ([]byte, error) {
	miscCount(l.x.name + ".legacy_decompress")
	in, err := io.ReadAll(r)
	if err != nil {
		return nil, err
	}
	return l.x.dec(in)
}

// miscEncLen: wire payload size of an n-byte pattern message under a
// compressor name ("" / identity: n). ok=false when the size is not known to
// the harness (gzip).
func miscEncLen(name string, n int) (int, bool) {
	if n == 0 {
		return 0, true // empty messages are never compressed
	}
	switch name {
	case "", "identity":
		return n, true
	case "simxor", "simxor2", "simlegacy":
		return n + miscXorOverhead, true
	case "simpat":
		return miscPatEncLen(n), true
	}
	return 0, false
}

// ---- process warm-up ----
//
// Everything below runs once at process start, outside any bubble. It walks
// the lazily initialised, process-global paths that the misc extensions reach
// from inside a run (encoding/json's per-type field cache for the extension
// configs and for grpc's service config parser, compress/flate's fixed
// Huffman tables, the gzip writer/reader pools' constructors), so that a run
// behaves the same whether it is the first of its process or the 200th: a
// first-use slow path (sync.Once, sync.Map store) has extra synchronisation
// points and would shift the seeded schedule.
func init() {
	one := 1
	warm := []struct {
		v   any
		src any
	}{
		{&miscLimitsCfg{}, &miscLimitsCfg{SCMode: 1, SCReq: &one, SCResp: &one, Decoy: true, DialRecv: &one, DialSend: &one, Calls: []miscCallLim{{ID: 1, Recv: &one, Send: &one}}, SrvRecv: &one, SrvSend: &one}},
		{&miscCompressCfg{}, &miscCompressCfg{Advertise: true, ClientLegacyComp: "a", ClientLegacyDecomp: "a", ServerLegacyComp: "a", ServerLegacyDecomp: "a", Calls: []miscCompCall{{ID: 1, Use: "a", Accept: []string{"a"}, SetSend: "a"}}}},
		{&miscCredsCfg{}, &miscCredsCfg{Transport: "custom", Level: 1, AddrNet: "tcp", Dial: []miscCred{{Require: true, K: "k", V: "v", VHex: "00"}}, Calls: []miscCallCred{{ID: 1, Cred: miscCred{Require: true, K: "k", V: "v"}}}, ProbeDial: true}},
		{&miscStopCfg{}, &miscStopCfg{Events: []miscStopEv{{AtNs: 1, Kind: "stop"}}, IgnoreCancel: true, Drain: true}},
	}
	// The worker marshals and decodes scenarios and replies between runs
	// (outside the bubble); every struct type it meets for the first time is
	// added to encoding/json's process-global type cache, whose shape decides
	// how many atomic loads a later lookup inside a run performs. Insert them
	// all now, so the cache never changes after process start.
	full := &Scenario{Oracles: []string{"x"}, Faults: []simnet.Fault{{Kind: "stall"}}, RPCs: []RPC{{ID: 1, MD: []KV{{K: "k", V: "v"}}, Client: []Op{{Op: "send", MD: []KV{{K: "k"}}, Details: []string{"d"}}}, Server: [][]Op{{{Op: "recv"}}}}}, Actions: []Action{{AtNs: 1, Kind: "stop"}}, Ext: map[string]json.RawMessage{"x": json.RawMessage(`{}`)}, Target: "t", Listeners: []string{"l"}}
	warm = append(warm, struct {
		v   any
		src any
	}{&Scenario{}, full})
	rep := &core.Reply{Seed: 1, Invalid: "x", Shape: "x", Scenario: json.RawMessage(`{}`), Outcome: &core.Outcome{Viol: []core.Violation{{Oracle: "o"}}, Probes: map[string]int{"p": 1}, Faults: map[string]int{"f": 1}, Notes: map[string]string{"n": "v"}, Log: []string{"l"}, Panic: "p", DecRLE: "0"}}
	warm = append(warm, struct {
		v   any
		src any
	}{&core.Reply{}, rep})
	warm = append(warm, struct {
		v   any
		src any
	}{&core.Request{}, &core.Request{Prop: "p", Mode: "seeds", Tier: "quick", Seeds: []uint64{1}, Scenario: json.RawMessage(`{}`)}})
	for _, w := range warm {
		b, err := json.Marshal(w.src)
		if err != nil {
			panic(err)
		}
		if err := json.Unmarshal(b, w.v); err != nil {
			panic(err)
		}
	}
	if parse, ok := internal.ParseServiceConfig.(func(string) *serviceconfig.ParseResult); ok {
		x := &miscLimitsExt{cfg: miscLimitsCfg{SCMode: 3, SCReq: &one, SCResp: &one, Decoy: true}}
		if r := parse(x.serviceConfig()); r.Err != nil {
			panic(r.Err)
		}
	}
	// gzip round trips: a tiny message (fixed Huffman block) and a larger one
	gz := encoding.GetCompressor("gzip")
	for _, n := range []int{5, 5000} {
		msg := make([]byte, n)
		tap.FillPat(msg, 1, 'c', 0)
		var buf bytes.Buffer
		wc, err := gz.Compress(&buf)
		if err != nil {
			panic(err)
		}
		wc.Write(msg)
		wc.Close()
		rd, err := gz.Decompress(&buf)
		if err != nil {
			panic(err)
		}
		out, _ := io.ReadAll(rd)
		if !bytes.Equal(out, msg) {
			panic("gzip warm-up round trip failed")
		}
	}
}
