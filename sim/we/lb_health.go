package we

// Client-side health checking for the "lb" extension: the simulated backends
// answer /grpc.health.v1.Health/Watch with a per-address serving status that
// the scenario scripts over time, and SubConns created with
// HealthCheckEnabled are READY only while their backend reports SERVING. Such
// a SubConn owns a live transport while it is CONNECTING (connected, first
// health response pending) or in TRANSIENT_FAILURE (NOT_SERVING): the states
// in which "RPCs only on READY subchannels" (C32) needs the state check and
// not just "is there a transport".
//
// The server side is written by hand on the world's raw codec (the request is
// a HealthCheckRequest{service=1}, a response is HealthCheckResponse{status=1},
// both a single short field); the client side is grpc's own health client
// (package health, linked in for its init side effect).

import (
	"fmt"
	"strconv"
	"strings"
	"time"

	"google.golang.org/grpc"
	"google.golang.org/grpc/codes"
	"google.golang.org/grpc/encoding"
	_ "google.golang.org/grpc/encoding/proto"
	_ "google.golang.org/grpc/health"
	healthpb "google.golang.org/grpc/health/grpc_health_v1"
	"google.golang.org/grpc/mem"
	"google.golang.org/grpc/peer"
	"google.golang.org/grpc/status"
)

const (
	lbHealthMethod  = "/grpc.health.v1.Health/Watch"
	lbHealthService = "sim"

	lbHealthUnknown        = 0
	lbHealthServing        = 1
	lbHealthNotServing     = 2
	lbHealthServiceUnknown = 3
	lbHealthUnimplemented  = 4 // the Watch stream ends with UNIMPLEMENTED
	lbHealthUnavailable    = 5 // the Watch stream ends with UNAVAILABLE
)

// lbCodec is the world's raw codec for *Msg and the registered protobuf codec
// for everything else (the health client's messages).
type lbCodec struct{}

var lbProtoCodec = encoding.GetCodecV2("proto")

func (lbCodec) Name() string { return rawCodec{}.Name() }
func (lbCodec) Marshal(v any) (mem.BufferSlice, error) {
	if _, ok := v.(*Msg); ok {
		return rawCodec{}.Marshal(v)
	}
	return lbProtoCodec.Marshal(v)
}
func (lbCodec) Unmarshal(data mem.BufferSlice, v any) error {
	if _, ok := v.(*Msg); ok {
		return rawCodec{}.Unmarshal(data, v)
	}
	return lbProtoCodec.Unmarshal(data, v)
}

func init() {
	// protobuf initialises message and enum tables lazily on first use; do it
	// outside any run (see the note in lb_ext.go's init)
	if lbProtoCodec == nil {
		panic("sim_lb: proto codec not registered")
	}
	b, err := lbCodec{}.Marshal(&healthpb.HealthCheckRequest{Service: lbHealthService})
	if err != nil {
		panic(err)
	}
	if got := b.Materialize(); string(got) != string(lbHealthRequest(lbHealthService)) {
		panic(fmt.Sprintf("sim_lb: health request encoding %x", got))
	}
	for st := 0; st <= 3; st++ {
		r := new(healthpb.HealthCheckResponse)
		if err := (lbCodec{}).Unmarshal(mem.BufferSlice{mem.SliceBuffer(lbHealthResponse(st))}, r); err != nil || int(r.Status) != st {
			panic(fmt.Sprintf("sim_lb: health response encoding %d: %v %v", st, r.Status, err))
		}
		_ = fmt.Errorf("status=%s", r.Status)
	}
}

func lbHealthRequest(service string) []byte {
	return append([]byte{0x0a, byte(len(service))}, service...)
}

func lbHealthResponse(st int) []byte {
	if st == 0 {
		return nil
	}
	return []byte{0x08, byte(st)}
}

// lbHWatch is one open Watch stream.
type lbHWatch struct {
	conn int
	addr string
	ch   chan struct{} // status changed
	done bool
}

// lbHCause is one thing a backend did that can make a health-checked SubConn
// READY: a SERVING response, or the end of the stream with UNIMPLEMENTED. The
// stamp is taken before the response is handed to the server transport.
type lbHCause struct {
	seq  uint64
	conn int
	addr string
}

func (x *lbExt) addrIndex(addr string) int {
	for k, a := range x.cfg.Addrs {
		if a == addr {
			return k
		}
	}
	return -1
}

// healthWatch is the handler of /grpc.health.v1.Health/Watch.
func (x *lbExt) healthWatch(ss grpc.ServerStream) error {
	e := x.e
	ctx := ss.Context()
	hw := &lbHWatch{conn: -1, ch: make(chan struct{}, 1)}
	if p, ok := peer.FromContext(ctx); ok && p.Addr != nil {
		// simnet names the client end of connection k "client:<40000+k>"
		if s := p.Addr.String(); strings.HasPrefix(s, "client:") {
			if n, err := strconv.Atoi(s[len("client:"):]); err == nil && n-40000 >= 0 && n-40000 < len(x.w.net.Pairs) {
				hw.conn = n - 40000
				hw.addr = x.w.net.Pairs[hw.conn].Addr
			}
		}
	}
	ai := x.addrIndex(hw.addr)
	if ai < 0 {
		e.Violate("harness", "health Watch on a connection the harness cannot place (conn %d addr %q)", hw.conn, hw.addr)
		return status.Error(codes.Internal, "sim health: unknown connection")
	}
	req := &Msg{}
	if err := ss.RecvMsg(req); err != nil {
		e.Logf("lb health conn=%d watch: no request (%v)", hw.conn, errStr(err))
		return status.Convert(err).Err()
	}
	if string(req.B) != string(lbHealthRequest(lbHealthService)) {
		e.Violate("harness", "health Watch request %x, want service %q", req.B, lbHealthService)
	}
	x.hwatch = append(x.hwatch, hw)
	defer func() { hw.done = true }()
	e.Logf("lb health conn=%d (%s) watch start", hw.conn, hw.addr)
	e.Probe("health_watch_stream")
	if d := time.Duration(x.cfg.Health.DelayNs); d > 0 {
		t := time.NewTimer(d)
		select {
		case <-t.C:
		case <-ctx.Done():
			t.Stop()
			return status.FromContextError(ctx.Err()).Err()
		}
	}
	last := -1
	for {
		st := x.hstatus[ai]
		switch {
		case st == lbHealthUnimplemented:
			x.hcauses = append(x.hcauses, lbHCause{seq: e.Next(), conn: hw.conn, addr: hw.addr})
			e.Logf("lb health conn=%d watch ends UNIMPLEMENTED", hw.conn)
			return status.Error(codes.Unimplemented, "sim health: no health service")
		case st == lbHealthUnavailable || st < 0 || st > lbHealthUnavailable:
			e.Logf("lb health conn=%d watch ends UNAVAILABLE", hw.conn)
			return status.Error(codes.Unavailable, "sim health: scripted stream failure")
		case st != last:
			if st == lbHealthServing {
				x.hcauses = append(x.hcauses, lbHCause{seq: e.Next(), conn: hw.conn, addr: hw.addr})
			}
			e.Logf("lb health conn=%d (%s) reports %d", hw.conn, hw.addr, st)
			if err := ss.SendMsg(&Msg{B: lbHealthResponse(st)}); err != nil {
				return status.Convert(err).Err()
			}
			last = st
			continue // the status may have changed while SendMsg was blocked
		}
		select {
		case <-ctx.Done():
			e.Logf("lb health conn=%d watch ctx done", hw.conn)
			return status.FromContextError(ctx.Err()).Err()
		case <-hw.ch:
		}
	}
}

// healthScript applies the scripted status changes.
func (x *lbExt) healthScript() {
	h := x.cfg.Health
	for _, st := range h.Steps {
		d := time.Duration(st.AtNs)
		if d < 0 {
			d = 0
		}
		t := time.NewTimer(d)
		select {
		case <-t.C:
		case <-x.scriptCtx.Done():
			t.Stop()
			return
		}
		n := len(x.hstatus)
		for k := range x.hstatus {
			if st.Addr > 0 && (st.Addr-1)%n != k {
				continue
			}
			x.hstatus[k] = st.Status
		}
		x.e.Logf("lb health step addr=%d status=%d", st.Addr, st.Status)
		for _, hw := range x.hwatch {
			if !hw.done {
				wake(hw.ch)
			}
		}
	}
}

func wake(c chan struct{}) {
	select {
	case c <- struct{}{}:
	default:
	}
}
