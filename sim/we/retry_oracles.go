package we

import (
	"fmt"
	"math"
	"sort"
	"strings"
	"time"

	"google.golang.org/grpc/backoff"
	"google.golang.org/grpc/codes"
	"google.golang.org/grpc/connectivity"
	ibackoff "google.golang.org/grpc/internal/backoff"
	"google.golang.org/grpc/status"
)

// ---- shared helpers ----

func (x *rtExt) sortedRPCs() []uint32 { return sortedIDs(x.w.rpcs) }

// effMax: the statement's "effective maximum (policy value capped by the
// channel limit)"; 1 when the method has no retry policy or retries are
// disabled on the channel.
func (x *rtExt) effMax() int {
	p := x.cfg.Policy
	if p == nil || x.w.sc.Client.DisableRetry {
		return 1
	}
	lim := rtDefaultMaxCallAttempts
	if x.cfg.MaxCallAttempts >= 2 { // doc: "A value of 5 will be used if this dial option is not set or n < 2"
		lim = x.cfg.MaxCallAttempts
	}
	return min(p.MaxAttempts, lim)
}

func (x *rtExt) bufLimit() int {
	if x.cfg.BufBytes > 0 {
		return x.cfg.BufBytes
	}
	return rtDefaultBufBytes
}

func (x *rtExt) retryable(c codes.Code) bool {
	if x.cfg.Policy == nil {
		return false
	}
	for _, k := range x.cfg.Policy.Codes {
		if codes.Code(k) == c {
			return true
		}
	}
	return false
}

// cleanRun: nothing but the scripted handlers can end an attempt.
func (x *rtExt) cleanRun() bool {
	sc := x.w.sc
	return !x.w.faulty && len(sc.Actions) == 0 && sc.Server.MaxAgeNs == 0 && sc.Server.MaxIdleNs == 0 && sc.Server.KATimeNs == 0 && sc.Client.KATimeNs == 0
}

func (x *rtExt) cleanRPC(st *rpcState) bool {
	return x.cleanRun() && !st.cancelled && st.clientDone && st.finishedAt.Before(st.deadline)
}

// rtCloseSendCertain: the client script has certainly called CloseSend: only
// sends and sleeps precede it, and all those sends (n of them) returned nil.
func rtCloseSendCertain(st *rpcState, n int) bool {
	k := 0
	for _, op := range st.r.Client {
		switch op.Op {
		case "send":
			k++
		case "sleep":
		case "close_send":
			return k == n && len(st.cSubmitted) == n && len(st.cStarted) == n
		default:
			return false
		}
	}
	return false
}

// cleanRPC2: like cleanRPC but the RPC may have ended at its deadline.
func (x *rtExt) cleanRPC2(st *rpcState) bool {
	return x.cleanRun() && !st.cancelled && st.clientDone
}

func (x *rtExt) invOf(id uint32, att int) *rtInv {
	for _, iv := range x.invs[id] {
		if iv.tag == att {
			return iv
		}
	}
	return nil
}

// attemptCode: the status code with which the attempt ended as far as it can
// be known: the error handed to the attempt's End event, else (clean RPCs
// only) the status returned by the handler invocation this attempt caused.
func (x *rtExt) attemptCode(st *rpcState, a *rtAttempt) (codes.Code, bool) {
	if a.endErr != nil {
		return status.Code(a.endErr), true
	}
	if x.cleanRPC(st) {
		if iv := x.invOf(a.rpc, a.idx); iv != nil {
			if s := st.srvReturned[iv.inv]; s != nil {
				return s.Code(), true
			}
		}
	}
	return codes.Unknown, false
}

// rtPushback classifies the grpc-retry-pushback-ms trailer of an attempt
// according to gRFC A6: an ASCII signed 32-bit integer without unnecessary
// leading zeros; negative or unparseable means "do not retry".
type rtPushback int

const (
	rtPbNone rtPushback = iota
	rtPbValid
	rtPbAbort
	rtPbUnspecified // several values, or a spelling the gRFC does not cover
)

func rtClassifyPushback(vals []string) (rtPushback, int64) {
	if len(vals) == 0 {
		return rtPbNone, 0
	}
	if len(vals) > 1 {
		return rtPbUnspecified, 0
	}
	s := vals[0]
	neg := strings.HasPrefix(s, "-")
	d := strings.TrimPrefix(s, "-")
	if d == "" {
		return rtPbAbort, 0
	}
	for i := 0; i < len(d); i++ {
		if d[i] < '0' || d[i] > '9' {
			if s[0] == '+' || s[0] == ' ' {
				return rtPbUnspecified, 0
			}
			return rtPbAbort, 0
		}
	}
	if len(d) > 1 && d[0] == '0' {
		return rtPbUnspecified, 0
	}
	if len(d) > 10 {
		if len(d) > 19 {
			return rtPbAbort, 0 // unparseable in any integer width
		}
		return rtPbUnspecified, 0
	}
	var v int64
	for i := 0; i < len(d); i++ {
		v = v*10 + int64(d[i]-'0')
	}
	if neg {
		if v == 0 {
			return rtPbUnspecified, 0
		}
		return rtPbAbort, 0
	}
	if v > math.MaxInt32 {
		return rtPbUnspecified, 0
	}
	return rtPbValid, v
}

// timeWindow: how far apart two causally linked events at "the same instant"
// may appear in simulated time: nothing on an ideal network (plus the
// runtime's spin-guard sleeps), one network traversal otherwise.
func (x *rtExt) timeWindow() int64 {
	n := x.w.sc.Net
	w := int64(2 * time.Microsecond)
	w += n.LatencyNs
	if n.StallPct > 0 {
		w += n.StallNs
	}
	return w
}

// buildEff: the attempts that exist as far as the property is concerned. A
// record with a Begin but no pick, no stream and no End, immediately followed
// by another Begin, is not an attempt: grpc-go creates (and announces to the
// stats handler) an attempt object when it decides to retry a failed stream
// creation and then replaces it with a second one before using it. The
// survivor inherits the transparent flag of the discarded one.
func (x *rtExt) buildEff() {
	x.eff = map[uint32][]*rtAttempt{}
	for _, id := range x.sortedRPCs() {
		raw := x.atts[id]
		carry, have := false, false
		for j, a := range raw {
			if have {
				a.transparent = carry
				have = false
			}
			if !a.ended && !a.outHeader && j+1 < len(raw) && raw[j+1].beginAt == a.beginAt {
				carry, have = a.transparent, true
				x.w.e.Probe("rt_phantom_attempt_begin_without_end")
				continue
			}
			x.eff[id] = append(x.eff[id], a)
		}
	}
}

// ---- probes ----

func (x *rtExt) probes() {
	e := x.w.e
	for _, id := range x.sortedRPCs() {
		atts := x.eff[id]
		nt := 0
		for j, a := range atts {
			if !a.transparent {
				nt++
			}
			if j == 0 {
				continue
			}
			if a.transparent {
				e.Probe("rt_transparent_retry")
			} else {
				e.Probe("rt_retry")
				if a.subCount > 0 {
					e.Probe("rt_retry_replays_messages")
				}
				if a.startCount > a.subCount {
					e.Probe("rt_retry_inside_sendmsg")
				}
				switch k, _ := rtClassifyPushback(atts[j-1].endTrailer.Get("grpc-retry-pushback-ms")); k {
				case rtPbValid:
					e.Probe("rt_retry_after_pushback")
				}
			}
		}
		if nt >= 2 && nt == x.effMax() {
			e.Probe("rt_attempts_at_maximum")
		}
		if len(atts) > 0 {
			last := atts[len(atts)-1]
			if last.inHeader && last.ended && last.endErr != nil && x.retryable(status.Code(last.endErr)) {
				e.Probe("rt_committed_by_headers_then_retryable_failure")
			}
			switch k, _ := rtClassifyPushback(last.endTrailer.Get("grpc-retry-pushback-ms")); k {
			case rtPbAbort:
				e.Probe("rt_abort_pushback")
			case rtPbUnspecified:
				e.Probe("rt_multiple_pushback")
			}
			if last.subBytes > x.bufLimit() || x.sumSubmitted(id) > x.bufLimit() {
				e.Probe("rt_buffer_limit_exceeded")
			}
		}
		for _, iv := range x.invs[id] {
			if iv.inv > 0 && iv.eof {
				e.Probe("rt_retry_replays_half_close")
			}
		}
		if sp := x.splits[id]; sp != nil {
			// sender and receiver goroutine on one stream
			e.Probe("rt_split_rpc")
			if nt >= 2 {
				e.Probe("rt_split_rpc_retried")
			}
			// a new attempt began while SendMsg / CloseSend was in progress, and
			// the call still reported success: the operation has to be part of
			// what the new attempt transmits
			if sp.switchedInSend > 0 {
				e.Probe("rt_split_attempt_began_inside_successful_sendmsg")
			}
			if sp.switchedInClose > 0 {
				e.Probe("rt_split_attempt_began_inside_closesend")
			}
		}
	}
}

func (x *rtExt) sumSubmitted(id uint32) int {
	n := 0
	for _, s := range x.w.rpcs[id].cSubmitted {
		n += s
	}
	return n
}

// ---- C18 ----

func (x *rtExt) checkC18() {
	e := x.w.e
	eff := x.effMax()
	for _, id := range x.sortedRPCs() {
		st := x.w.rpcs[id]
		raw := x.atts[id]
		atts := x.eff[id]
		// every handler invocation belongs to exactly one client attempt
		seen := map[int]int{}
		for _, iv := range x.invs[id] {
			if iv.tag < 0 || iv.tag >= len(raw) {
				e.Violate("c18_unattributed_invocation", "rpc %d: handler invocation %d carries attempt tag %d, the client made %d attempts", id, iv.inv, iv.tag, len(raw))
				continue
			}
			seen[iv.tag]++
			if seen[iv.tag] == 2 {
				e.Violate("c18_attempt_processed_twice", "rpc %d: attempt %d reached the handler twice", id, iv.tag)
			}
		}
		nt := 0
		for j, a := range atts {
			if !a.transparent {
				nt++
			}
			if j == 0 {
				if a.transparent {
					e.Violate("c18_first_attempt_transparent", "rpc %d: the first attempt is flagged as a transparent retry", id)
				}
				continue
			}
			p := atts[j-1]
			if !p.ended || p.endSeq > a.beginSeq {
				e.Violate("c18_retry_while_attempt_active", "rpc %d: attempt %d began before attempt %d ended", id, a.idx, p.idx)
				continue
			}
			// committed: a response header or message had arrived on an earlier attempt
			if a.respBefore {
				e.Violate("c18_retry_after_response", "rpc %d: attempt %d (transparent=%v) began although an earlier attempt had received response headers or a message", id, j, a.transparent)
			}
			if a.subBytes > x.bufLimit() {
				e.Violate("c18_retry_after_buffer_limit", "rpc %d: attempt %d (transparent=%v) began although the application had already sent %d payload bytes, more than the replay buffer limit %d", id, j, a.transparent, a.subBytes, x.bufLimit())
			}
			if a.transparent {
				if iv := x.invOf(id, p.idx); iv != nil {
					e.Violate("c18_transparent_retry_of_processed_attempt", "rpc %d: attempt %d is a transparent retry but attempt %d was processed by the server (handler invocation %d)", id, j, p.idx, iv.inv)
				}
				continue
			}
			if code, known := x.attemptCode(st, p); known {
				if !x.retryable(code) {
					e.Violate("c18_retry_after_non_retryable_code", "rpc %d: attempt %d retries attempt %d which ended with %v, not in the policy's retryableStatusCodes", id, j, p.idx, code)
				}
			} else {
				e.Probe("rt_attempt_code_unknown")
			}
		}
		if nt > eff {
			e.Violate("c18_too_many_attempts", "rpc %d: %d non-transparent attempts, the effective maximum is %d", id, nt, eff)
		}
		// a clean RPC without a deadline of its own, on a network without
		// injected stalls, cannot run into the world's default deadline (10
		// simulated minutes; backoffs, pushbacks, handler sleeps and latencies
		// are generated far below that): if it does, a handler waited for
		// something the application had sent, message or half-close, that the
		// attempt never delivered
		if n := len(x.invs[id]); n > 0 && x.cleanRPC2(st) && x.w.sc.Net.StallPct == 0 && st.r.DeadlineNs == 0 && st.clientStatus.Code() == codes.DeadlineExceeded {
			iv := x.invs[id][n-1]
			scripted := false
			for _, rs := range st.srvReturned {
				if rs != nil && rs.Code() == codes.DeadlineExceeded && !st.finishedAt.After(st.deadline.Add(-time.Second)) {
					scripted = true
				}
			}
			// the handler asked for more than it got, and did not see the half-close
			starved := iv.calls > len(iv.sizes) && !iv.eof
			if !scripted && starved {
				got := len(iv.sizes)
				switch {
				case got < len(st.cSubmitted):
					e.Violate("c18_rpc_stuck_until_deadline", "rpc %d: the application sent %d messages successfully; the last handler invocation (%d, attempt %d) asked for more than the %d it received and the RPC hung until the default deadline: a message was not delivered to the attempt", id, len(st.cSubmitted), iv.inv, iv.tag, got)
				case rtCloseSendCertain(st, got):
					e.Violate("c18_rpc_stuck_until_deadline", "rpc %d: the application sent %d messages and CloseSend; the last handler invocation (%d, attempt %d) received all messages, waited for the half-close and the RPC hung until the default deadline: the half-close was not delivered to the attempt", id, got, iv.inv, iv.tag)
				}
			}
		}
		// replay completeness: in a clean RPC a handler that asks for a message
		// the application had already sent before the attempt began gets it
		if x.cleanRPC(st) {
			for _, iv := range x.invs[id] {
				if iv.tag < 0 || iv.tag >= len(raw) || iv.eof {
					continue
				}
				a := raw[iv.tag]
				if iv.calls > len(iv.sizes) && len(iv.sizes) < a.subCount {
					e.Violate("c18_replay_incomplete", "rpc %d: attempt %d began after the application had sent %d messages; its handler asked for more but only %d were delivered", id, a.idx, a.subCount, len(iv.sizes))
				}
			}
		}
	}
}

// ---- C19 ----

func (x *rtExt) checkC19() {
	x.checkRetryDelays()
	if x.cfg.Throttle != nil && !x.w.sc.Client.DisableRetry {
		x.checkTokenLedger()
	}
}

func (x *rtExt) checkRetryDelays() {
	e := x.w.e
	p := x.cfg.Policy
	if p == nil {
		return
	}
	win := x.timeWindow() + int64(time.Millisecond)
	for _, id := range x.sortedRPCs() {
		atts := x.eff[id]
		k := 0
		kKnown := true
		for j := 1; j < len(atts); j++ {
			a, prev := atts[j], atts[j-1]
			if a.transparent || !prev.ended {
				continue
			}
			gap := a.beginAt - prev.endAt
			kind, ms := rtClassifyPushback(prev.endTrailer.Get("grpc-retry-pushback-ms"))
			switch kind {
			case rtPbAbort:
				e.Violate("c19_retry_after_abort_pushback", "rpc %d: attempt %d follows an attempt whose trailer said grpc-retry-pushback-ms=%q (negative or unparseable: do not retry)", id, j, prev.endTrailer.Get("grpc-retry-pushback-ms"))
				kKnown = false
			case rtPbUnspecified:
				e.Probe("rt_retry_after_unspecified_pushback")
				kKnown = false
			case rtPbValid:
				want := ms * int64(time.Millisecond)
				if gap < want || gap > want+win {
					e.Violate("c19_pushback_delay_wrong", "rpc %d: attempt %d began %d ns after attempt %d ended; the server pushback was %d ms", id, j, gap, j-1, ms)
				}
				e.Probe("rt_pushback_delay_checked")
				k = 0
			default:
				if !kKnown {
					continue
				}
				base := math.Min(float64(p.InitialNs)*math.Pow(p.Mult, float64(k)), float64(p.MaxNs))
				lo, hi := 0.8*base-1, 1.2*base+1
				if float64(gap) < lo {
					e.Violate("c19_backoff_below_lower_bound", "rpc %d: attempt %d began %d ns after attempt %d ended; retry %d since the last pushback must wait at least 0.8 x min(initial x mult^%d, max) = %.0f ns", id, j, gap, j-1, k, k, lo+1)
				}
				if float64(gap) > hi+float64(win) {
					e.Violate("c19_backoff_above_upper_bound", "rpc %d: attempt %d began %d ns after attempt %d ended; retry %d since the last pushback must wait at most 1.2 x min(initial x mult^%d, max) = %.0f ns", id, j, gap, j-1, k, k, hi-1)
				}
				e.Probe("rt_backoff_delay_checked")
				if float64(gap) < 0.85*base {
					e.Probe("rt_backoff_low_jitter")
				}
				if float64(gap) > 1.15*base {
					e.Probe("rt_backoff_high_jitter")
				}
				if base == float64(p.MaxNs) && k > 0 {
					e.Probe("rt_backoff_capped_at_max")
				}
				k++
			}
		}
	}
}

// token ledger: replay of the bucket from the observed outcomes.

type rtTokEvent struct {
	at, seq int64
	rpc     uint32
	idx     int
	desc    string
	deltas  []int64 // possible effects in micro-tokens (0, -1e6, +ratio)
	// decision observed: +1 a non-transparent retry followed (bucket above the
	// threshold after the removal), -1 a retry that every other rule allowed
	// did not happen (bucket at or below), 0 nothing to conclude
	decision int
}

func (x *rtExt) checkTokenLedger() {
	e := x.w.e
	th := x.cfg.Throttle
	maxTok := th.MaxMilli * 1000
	ratio := th.RatioMilli * 1000
	thresh := maxTok / 2
	var eps int64 = 1
	if th.MaxMilli%250 == 0 && th.RatioMilli%125 == 0 {
		eps = 0 // binary floating point represents every reachable value exactly
	}
	eff := x.effMax()
	var evs []*rtTokEvent
	for _, id := range x.sortedRPCs() {
		st := x.w.rpcs[id]
		atts := x.eff[id]
		clean := x.cleanRPC(st)
		nt := 0
		for j, a := range atts {
			if !a.transparent {
				nt++
			}
			if !a.ended {
				continue
			}
			var next *rtAttempt
			if j+1 < len(atts) {
				next = atts[j+1]
			}
			ev := &rtTokEvent{at: a.endAt, seq: int64(a.endSeq), rpc: id, idx: j}
			if next == nil && st.clientStatus != nil && st.clientStatus.Code() == codes.OK {
				ev.deltas = []int64{ratio}
				ev.desc = "success"
				evs = append(evs, ev)
				continue
			}
			code, known := x.attemptCode(st, a)
			pb, _ := rtClassifyPushback(a.endTrailer.Get("grpc-retry-pushback-ms"))
			// surely uncommitted when it ended: no response seen on this or an
			// earlier attempt and the replay buffer far from its limit
			uncommitted := !a.respAtEnd && a.endSubBytes+5*a.endSubCount+64 <= x.bufLimit()
			retryableCode := !known || x.retryable(code)
			switch {
			case next != nil && !next.transparent:
				// a retry followed: the failed attempt removed its token and the
				// bucket stayed above the threshold
				ev.deltas = []int64{-1000000}
				ev.decision = +1
				ev.desc = fmt.Sprintf("failed with %v, retried", code)
			case next != nil:
				ev.deltas = []int64{0, -1000000}
				ev.desc = "retried transparently"
			case clean && uncommitted && known && pb == rtPbAbort:
				ev.deltas = []int64{-1000000}
				ev.desc = "abort pushback"
			case clean && uncommitted && known && pb == rtPbUnspecified:
				ev.deltas = []int64{-1000000}
				if !x.retryable(code) {
					ev.deltas = []int64{0, -1000000}
				}
				ev.desc = "several pushback values"
			case clean && uncommitted && known:
				if x.retryable(code) {
					ev.deltas = []int64{-1000000}
					ev.desc = fmt.Sprintf("failed with %v (retryable), not retried", code)
					if nt < eff {
						ev.decision = -1
					}
				} else {
					ev.deltas = []int64{0}
					ev.desc = fmt.Sprintf("failed with %v (not retryable)", code)
				}
			default:
				// committed attempts, unclean RPCs, unknown codes: grpc
				// implementations differ on whether these count as failures
				ev.deltas = []int64{0}
				if retryableCode || pb == rtPbAbort || pb == rtPbUnspecified {
					ev.deltas = []int64{0, -1000000}
				}
				ev.desc = fmt.Sprintf("failed with %v (committed or not clean)", code)
			}
			evs = append(evs, ev)
		}
	}
	sort.Slice(evs, func(i, j int) bool {
		if evs[i].at != evs[j].at {
			return evs[i].at < evs[j].at
		}
		return evs[i].seq < evs[j].seq
	})
	win := x.timeWindow()
	states := map[int64]bool{maxTok: true}
	apply := func(t int64, ev *rtTokEvent, d int64) (int64, bool) {
		t += d
		if t < 0 {
			t = 0
		}
		if t > maxTok {
			t = maxTok
		}
		switch ev.decision {
		case +1:
			if t <= thresh-eps {
				return t, false
			}
			if eps == 0 && t <= thresh {
				return t, false
			}
		case -1:
			if t > thresh+eps {
				return t, false
			}
		}
		return t, true
	}
	for i := 0; i < len(evs); {
		j := i + 1
		for j < len(evs) && evs[j].at-evs[j-1].at <= win {
			j++
		}
		grp := evs[i:j]
		i = j
		if len(grp) > 12 {
			e.Probe("rt_token_ledger_abandoned")
			return
		}
		if len(grp) > 1 {
			e.Probe("rt_token_ledger_concurrent_group")
		}
		full := 1<<len(grp) - 1
		cur := make([]map[int64]bool, full+1)
		cur[0] = states
		for mask := 0; mask <= full; mask++ {
			if len(cur[mask]) == 0 {
				continue
			}
			for gi, ev := range grp {
				if mask&(1<<gi) != 0 {
					continue
				}
				for t := range cur[mask] {
					for _, d := range ev.deltas {
						if nt, ok := apply(t, ev, d); ok {
							nm := mask | 1<<gi
							if cur[nm] == nil {
								cur[nm] = map[int64]bool{}
							}
							cur[nm][nt] = true
						}
					}
				}
			}
		}
		if len(cur[full]) == 0 {
			x.reportLedger(grp, states, maxTok, thresh)
			return
		}
		states = cur[full]
		for _, ev := range grp {
			switch ev.decision {
			case -1:
				e.Probe("rt_retry_throttled")
			case +1:
				e.Probe("rt_retry_allowed_by_throttle")
			}
			if ev.desc == "success" {
				e.Probe("rt_token_refill")
			}
		}
		for t := range states {
			if t == 0 {
				e.Probe("rt_bucket_empty")
			}
		}
	}
}

func rtTokStr(t int64) string { return fmt.Sprintf("%d.%06d", t/1000000, t%1000000) }

func (x *rtExt) reportLedger(grp []*rtTokEvent, states map[int64]bool, maxTok, thresh int64) {
	e := x.w.e
	var ts []int64
	for t := range states {
		ts = append(ts, t)
	}
	sort.Slice(ts, func(i, j int) bool { return ts[i] < ts[j] })
	var before []string
	for _, t := range ts {
		before = append(before, rtTokStr(t))
	}
	if len(grp) == 1 && len(ts) == 1 && len(grp[0].deltas) == 1 {
		ev := grp[0]
		after := ts[0] + ev.deltas[0]
		if after < 0 {
			after = 0
		}
		if ev.decision > 0 {
			e.Violate("c19_retry_despite_throttle", "rpc %d attempt %d %s: the bucket held %s of %s tokens, %s after the removal, which is at or below the threshold %s, yet a retry followed", ev.rpc, ev.idx, ev.desc, before[0], rtTokStr(maxTok), rtTokStr(after), rtTokStr(thresh))
		} else {
			e.Violate("c19_retry_refused_above_threshold", "rpc %d attempt %d %s: the bucket held %s of %s tokens, %s after the removal, above the threshold %s, and no other rule forbids the retry, yet none followed", ev.rpc, ev.idx, ev.desc, before[0], rtTokStr(maxTok), rtTokStr(after), rtTokStr(thresh))
		}
		return
	}
	var ds []string
	for _, ev := range grp {
		ds = append(ds, fmt.Sprintf("[t=%d rpc %d attempt %d: %s]", ev.at, ev.rpc, ev.idx, ev.desc))
	}
	e.Violate("c19_token_ledger_inconsistent", "no order of the simultaneous outcomes %s is consistent with the token arithmetic (bucket before: %s, max %s, threshold %s)", strings.Join(ds, " "), strings.Join(before, "|"), rtTokStr(maxTok), rtTokStr(thresh))
}

// ---- C20 ----

func (x *rtExt) backoffCfg() rtBackoff {
	if x.cfg.Backoff != nil {
		return *x.cfg.Backoff
	}
	return rtDefaultBackoff
}

// documented bounds of the backoff for retry index n; ok=false when the
// statement promises nothing but non-negativity.
func rtBackoffBounds(b rtBackoff, n int) (lo, hi float64, ok bool) {
	if n == 0 {
		return float64(b.BaseNs), float64(b.BaseNs), true
	}
	if b.Mult < 1 || b.Jitter < 0 || b.Jitter > 1 {
		return 0, math.Inf(1), false
	}
	cur := math.Min(float64(b.BaseNs)*math.Pow(b.Mult, float64(n)), float64(b.MaxNs))
	return (1 - b.Jitter) * cur, (1 + b.Jitter) * cur, true
}

// definiteHandshakeFailure: the connection cannot have been established: the
// fault plan cuts it before the server's SETTINGS frame header (9 bytes, RFC
// 7540 4.1) can arrive or before the client preface (24 bytes, RFC 7540 3.5)
// is out.
func (x *rtExt) definiteHandshakeFailure(conn int) bool {
	for _, f := range x.w.sc.Faults {
		if f.Kind == "cut_after" && f.Conn == conn {
			if f.Dir == "s2c" && f.Bytes < 9 {
				return true
			}
			if f.Dir == "c2s" && f.Bytes < 24 {
				return true
			}
		}
	}
	return false
}

func (x *rtExt) resetBetween(from, to int64) bool {
	for _, a := range x.w.sc.Actions {
		if a.Kind == "reset_backoff" && a.AtNs >= from-x.timeWindow() && a.AtNs <= to+x.timeWindow() {
			return true
		}
	}
	return false
}

// resetCertain: some ResetConnectBackoff call happened after the failed dial d
// returned and clearly before its backoff timer (lower bound over the possible
// indexes) could fire, and the next dial followed that call at once.
func (x *rtExt) resetCertain(b rtBackoff, d, next *rtDial, wait map[int]bool) bool {
	lo := math.Inf(1)
	for n := range wait {
		l, _, _ := rtBackoffBounds(b, n)
		lo = math.Min(lo, l)
	}
	w := x.timeWindow()
	for _, a := range x.w.sc.Actions {
		if a.Kind != "reset_backoff" {
			continue
		}
		if a.AtNs > d.endAt+w && float64(a.AtNs) < float64(d.endAt)+lo-float64(w) && next.startAt >= a.AtNs && next.startAt <= a.AtNs+w {
			return true
		}
	}
	return false
}

func (x *rtExt) checkC20() {
	e := x.w.e
	b := x.backoffCfg()
	x.backoffRider(b)
	if x.w.sc.Client.IdleNs > 0 && x.w.sc.Client.IdleNs < int64(1000*time.Hour) {
		return // channel idleness replaces subchannels: per-subchannel reasoning does not apply
	}
	const capIdx = 200
	slack := x.timeWindow() + int64(time.Millisecond)
	idx := map[int]bool{0: true} // possible values of the retry index when the dial starts
	// ready[i]: 0 no READY attributable to dial i, 1 possibly, 2 certainly
	ready := make([]int, len(x.dials))
	for _, s := range x.states {
		if s.state != connectivity.Ready {
			continue
		}
		var cand []int
		for i, d := range x.dials {
			if !d.ended || d.failed || s.at < d.endAt {
				continue
			}
			if i+1 < len(x.dials) && s.at > x.dials[i+1].startAt+x.timeWindow() {
				continue
			}
			cand = append(cand, i)
		}
		for _, i := range cand {
			if len(cand) == 1 {
				ready[i] = 2
			} else if ready[i] == 0 {
				ready[i] = 1
			}
		}
	}
	for i, d := range x.dials {
		if !d.ended {
			break
		}
		var next *rtDial
		if i+1 < len(x.dials) {
			next = x.dials[i+1]
		}
		// classify: a READY publication at time t belongs to the dial whose
		// interval [dial returned, next dial started] contains t; when two
		// intervals qualify (coincident instants) it proves nothing
		readySure := ready[i] == 2
		failSure := d.failed || (d.conn >= 0 && x.definiteHandshakeFailure(d.conn))
		var outcome string
		switch {
		case failSure:
			outcome = "fail"
			if readySure {
				e.Violate("c20_ready_without_connection", "dial %d failed but the channel reported READY before the next dial", i)
			}
		case readySure:
			outcome = "ok"
		default:
			outcome = "unknown"
		}
		d.kind = outcome
		if outcome == "fail" {
			e.Probe("rt_dial_failed")
		}
		resetDuring := x.resetBetween(d.startAt, d.endAt)
		wait := map[int]bool{}
		for n := range idx {
			wait[n] = true
		}
		if resetDuring {
			wait[0] = true
		}
		resetAfter := false
		if next != nil {
			resetAfter = x.resetBetween(d.endAt, next.startAt)
		}
		if outcome == "fail" && next != nil {
			gap := next.startAt - d.endAt
			if resetAfter {
				e.Probe("rt_redial_after_backoff_reset")
			} else {
				lo, hi := math.Inf(1), 0.0
				hiKnown := true
				minN, maxN := capIdx, 0
				for n := range wait {
					l, h, ok := rtBackoffBounds(b, n)
					lo = math.Min(lo, l)
					hi = math.Max(hi, h)
					if !ok {
						hiKnown = false
					}
					minN, maxN = min(minN, n), max(maxN, n)
				}
				if float64(gap) < lo-2 {
					e.Violate("c20_redial_before_backoff", "dial %d (retry index %d) failed at t=%d ns and dial %d started %d ns later; the backoff for that index is at least %.0f ns (base %d ns, multiplier %v, jitter %v, max %d ns) and the backoff was not reset", i, minN, d.endAt, i+1, gap, lo, b.BaseNs, b.Mult, b.Jitter, b.MaxNs)
				}
				if hiKnown && float64(gap) > hi+2+float64(slack) {
					e.Violate("c20_redial_after_backoff_upper_bound", "dial %d (retry index %d) failed at t=%d ns and dial %d started %d ns later; the backoff for that index is at most %.0f ns (base %d ns, multiplier %v, jitter %v, max %d ns)", i, maxN, d.endAt, i+1, gap, hi, b.BaseNs, b.Mult, b.Jitter, b.MaxNs)
				}
				e.Probe("rt_backoff_wait_checked")
				if len(wait) == 1 {
					if maxN == 0 && i > 0 {
						e.Probe("rt_backoff_index_zero_after_success_or_reset")
					}
					if maxN >= 3 {
						e.Probe("rt_backoff_index_ge3")
					}
					if cur := float64(b.BaseNs) * math.Pow(b.Mult, float64(maxN)); maxN > 0 && cur >= float64(b.MaxNs) {
						e.Probe("rt_backoff_capped_at_max_delay")
					}
				}
			}
		}
		// next index
		nidx := map[int]bool{}
		if outcome == "fail" && next != nil && !resetDuring && x.resetCertain(b, d, next, wait) {
			// a reset that lies well inside the backoff wait, before the timer
			// can have fired, woke the subchannel: the next dial starts from 0
			nidx[0] = true
			e.Probe("rt_backoff_reset_certain")
		} else if outcome == "fail" || outcome == "unknown" {
			for n := range wait {
				nidx[min(n+1, capIdx)] = true
			}
			if resetDuring || resetAfter {
				nidx[0], nidx[1] = true, true
			}
		}
		if outcome == "ok" || outcome == "unknown" {
			nidx[0] = true
			if outcome == "ok" {
				e.Probe("rt_dial_succeeded")
			}
		}
		if next != nil && x.resetBetween(next.startAt, next.startAt) {
			nidx[0] = true
		}
		idx = nidx
	}
	// never a busy loop: with a configuration whose lower bound is positive,
	// failed dials cannot pile up at one instant (covered by the lower bound);
	// report how dense dialing got
	e.ProbeN("rt_dials", len(x.dials))
}

// backoffRider evaluates the closed-form clause of C20 (a pure function of
// configuration, retry count and one random draw) on the generated
// configuration. Not simulation: an input-generation rider.
func (x *rtExt) backoffRider(b rtBackoff) {
	e := x.w.e
	bs := ibackoff.Exponential{Config: backoff.Config{BaseDelay: time.Duration(b.BaseNs), Multiplier: b.Mult, Jitter: b.Jitter, MaxDelay: time.Duration(b.MaxNs)}}
	for _, n := range []int{0, 1, 2, 3, 7, 20, 100, 5000} {
		for rep := 0; rep < 3; rep++ {
			d := bs.Backoff(n)
			if d < 0 {
				e.Violate("c20_rider_negative_backoff", "Backoff(%d) = %d ns for base %d ns, multiplier %v, jitter %v, max %d ns", n, int64(d), b.BaseNs, b.Mult, b.Jitter, b.MaxNs)
				return
			}
			lo, hi, ok := rtBackoffBounds(b, n)
			if !ok {
				continue
			}
			tol := 2 + 1e-9*hi
			if float64(d) < lo-tol || float64(d) > hi+tol {
				e.Violate("c20_rider_backoff_out_of_bounds", "Backoff(%d) = %d ns outside [%.0f, %.0f] for base %d ns, multiplier %v, jitter %v, max %d ns", n, int64(d), lo, hi, b.BaseNs, b.Mult, b.Jitter, b.MaxNs)
				return
			}
		}
	}
	e.Probe("rt_backoff_rider_evaluated")
	// "never negative for any configuration ... saturating rather than wrapping
	// for very large delays": delays near the top of time.Duration's range
	for _, c := range []backoff.Config{
		{BaseDelay: time.Second, Multiplier: 1.6, Jitter: 0.2, MaxDelay: time.Duration(math.MaxInt64)},
		{BaseDelay: time.Second, Multiplier: 10, Jitter: 0, MaxDelay: time.Duration(math.MaxInt64)},
		{BaseDelay: time.Duration(math.MaxInt64 / 2), Multiplier: 3, Jitter: 1, MaxDelay: time.Duration(math.MaxInt64)},
		{BaseDelay: time.Hour, Multiplier: 2, Jitter: 0.2, MaxDelay: time.Duration(math.MaxInt64 - 1000)},
	} {
		for _, n := range []int{1, 2, 50, 100, 1000} {
			if d := (ibackoff.Exponential{Config: c}).Backoff(n); d < 0 {
				e.Violate("c20_rider_backoff_wraps_negative", "Backoff(%d) = %d ns (negative) for base %d ns, multiplier %v, jitter %v, max %d ns: the float64 -> int64 conversion wraps instead of saturating", n, int64(d), int64(c.BaseDelay), c.Multiplier, c.Jitter, int64(c.MaxDelay))
				return
			}
		}
	}
}
