package we

import (
	"strconv"
	"time"

	"google.golang.org/grpc/codes"
	"google.golang.org/grpc/connectivity"
)

// lbSlack separates "at the same virtual instant" from "later": the runtime
// may put a spinning goroutine to sleep for microseconds, everything else in a
// bubble takes zero virtual time.
const lbSlack = 10 * time.Millisecond

// ---- helpers ----

func (c *lbCall) tEnd() time.Time {
	t := c.st.deadline
	if !c.cancelAt.IsZero() && c.cancelAt.Before(t) {
		t = c.cancelAt
	}
	return t
}

// blocking: the documented consequence of this pick result is that the pick
// waits for a newer picker (balancer.Picker / balancer.PickResult docs):
// ErrNoSubConnAvailable, a non-status error for a wait-for-ready RPC, or a
// SubConn that was not READY (reported by Done with the zero DoneInfo and no
// attempt on the wire).
func (pk *lbPick) blocking() bool {
	switch pk.errKind {
	case "nosc":
		return true
	case "plain":
		return pk.call != nil && pk.call.st.r.WaitReady
	case "status":
		return false
	}
	return pk.hasDone && pk.doneN >= 1 && !pk.doneErr && !pk.doneSent && !pk.doneRecv && pk.hdrSeq == 0 && !pk.handler
}

func (pk *lbPick) rpcID() int {
	if pk.call == nil {
		return -1
	}
	return int(pk.call.id)
}

// finalReflects: must the RPC's final status reflect the outcome of its k-th
// pick? Not when an earlier attempt had a stream and the script calls Header():
// ClientStream.Header swallows the error of a failed retry and RecvMsg then
// reports the status of the previous attempt's stream (see the finding
// recorded under picker_status_lost_in_header).
func (c *lbCall) finalReflects(k int) bool {
	hdr := false
	for _, op := range c.st.r.Client {
		if op.Op == "header" {
			hdr = true
		}
	}
	if !hdr {
		return true
	}
	for _, pk := range c.picks[:k] {
		if pk.sc != nil && (pk.hdrSeq != 0 || pk.doneSent || !pk.hasDone) {
			return false
		}
	}
	return true
}

func (x *lbExt) handlerReturned(c *lbCall, code codes.Code) bool {
	for _, s := range c.st.srvReturned {
		if s != nil && s.Code() == code {
			return true
		}
	}
	return false
}

func (x *lbExt) idleSeen() bool {
	for _, i := range x.insts {
		if i.closed && (!x.quiesced || i.closedSeq < x.quiesceSeq) {
			return true
		}
	}
	return false
}

// attribute marks the picks whose id reached a handler.
func (x *lbExt) attribute() {
	for _, id := range sortedIDs(x.w.rpcs) {
		st := x.w.rpcs[id]
		for att := 0; att < st.invocations; att++ {
			v := st.srvMD[att].Get("x-sim-pick")
			if len(v) != 1 {
				if x.has("c32") {
					x.e.Violate("attempt_without_pick", "rpc %d attempt %d reached a handler without a pick id", id, att)
				}
				continue
			}
			n, _ := strconv.Atoi(v[0])
			if n >= 1 && n <= len(x.picks) {
				x.picks[n-1].handler = true
			}
		}
	}
}

// ---- C23 ----

func (x *lbExt) checkDone() {
	e := x.e
	for _, pk := range x.picks {
		if !pk.hasDone {
			continue
		}
		if pk.doneN != 1 {
			e.Violate("done_count", "pick %d (rpc %d, picker generation %d, %s -> sc%d): Done was called %d times", pk.id, pk.rpcID(), pk.gen, pk.kind, pk.sc.id, pk.doneN)
			continue
		}
		if pk.doneRecv && !pk.doneSent {
			e.Violate("done_info", "pick %d: DoneInfo has BytesReceived without BytesSent", pk.id)
		}
	}
}

// checkWake: a pick blocked for a picker is woken by the first newer picker and
// by the end of its context.
func (x *lbExt) checkWake() {
	e := x.e
	for _, c := range x.calls {
		if !c.st.clientDone {
			continue
		}
		tEnd := c.tEnd()
		if len(c.picks) == 0 {
			// waiting for the first picker: no Pick call at all although a
			// picker was published while the RPC was waiting
			for _, pub := range x.pubs {
				if pub.aSeq > c.startSeq && pub.bSeq != 0 && !pub.bT.Add(lbSlack).After(tEnd) && !pub.bT.Add(lbSlack).After(c.st.finishedAt) {
					e.Violate("blocked_pick_not_woken", "rpc %d never reached a picker although generation %d was published %v before its context ended (final status %v)", c.id, pub.gen, tEnd.Sub(pub.bT), c.st.clientStatus.Code())
					break
				}
			}
			continue
		}
		// ... or the first Pick call came later than the first picker published
		// while the RPC was waiting
		for _, pub := range x.pubs {
			if pub.aSeq > c.startSeq && pub.bSeq != 0 && pub.bSeq < c.picks[0].seq {
				if !x.storm && c.picks[0].t.After(pub.bT.Add(lbSlack)) && !pub.bT.Add(lbSlack).After(tEnd) {
					e.Violate("blocked_pick_not_woken", "rpc %d was waiting for a picker; generation %d was published at %v but its first Pick came only at %v", c.id, pub.gen, pub.bT.Sub(x.t0), c.picks[0].t.Sub(x.t0))
				}
				break
			}
		}
		for k, pk := range c.picks {
			if !pk.blocking() {
				continue
			}
			var first *lbPub
			for _, pub := range x.pubs {
				if pub.gen > pk.gen && pub.bSeq > pk.seq {
					first = pub
					break
				}
			}
			inTime := first != nil && !first.bT.Add(lbSlack).After(tEnd)
			if k+1 < len(c.picks) {
				e.Probe("blocked_pick_woken_by_picker")
				if !x.storm && c.picks[k+1].t.After(tEnd.Add(lbSlack)) {
					e.Violate("blocked_pick_ctx_late", "rpc %d: pick %d blocked; the RPC's context ended at %v but the pick went on and called Pick again at %v", c.id, pk.id, tEnd.Sub(x.t0), c.picks[k+1].t.Sub(x.t0))
				}
				if !x.storm && inTime && c.picks[k+1].t.After(first.bT.Add(lbSlack)) {
					e.Violate("blocked_pick_not_woken", "rpc %d: pick %d blocked on picker generation %d; generation %d was published at %v but the next Pick came only at %v", c.id, pk.id, pk.gen, first.gen, first.bT.Sub(x.t0), c.picks[k+1].t.Sub(x.t0))
				}
				continue
			}
			if inTime {
				e.Violate("blocked_pick_not_woken", "rpc %d: pick %d blocked on picker generation %d; generation %d was published %v before the RPC's context ended, but Pick was never called again (final status %v)", c.id, pk.id, pk.gen, first.gen, tEnd.Sub(first.bT), c.st.clientStatus.Code())
				continue
			}
			e.Probe("blocked_pick_ended_by_ctx")
			if !c.cancelAt.IsZero() && !c.cancelAt.After(tEnd) {
				e.Probe("blocked_pick_cancelled")
			}
			if !x.storm && c.st.finishedAt.After(tEnd.Add(lbSlack)) {
				e.Violate("blocked_pick_ctx_late", "rpc %d: blocked in pick %d when its context ended, but the call returned %v later", c.id, pk.id, c.st.finishedAt.Sub(tEnd))
			}
		}
	}
}

func lbReserved(c codes.Code) bool {
	switch c {
	case codes.InvalidArgument, codes.NotFound, codes.AlreadyExists, codes.FailedPrecondition, codes.Aborted, codes.OutOfRange, codes.DataLoss:
		return true
	}
	return false
}

// checkPickerErrors: status errors from the picker end the RPC with that
// status; A54-reserved codes surface as INTERNAL.
func (x *lbExt) checkPickerErrors() {
	e := x.e
	for _, c := range x.calls {
		if !c.st.clientDone {
			continue
		}
		for k, pk := range c.picks {
			if pk.errKind != "status" {
				continue
			}
			if k+1 < len(c.picks) {
				e.Violate("picker_status_not_final", "rpc %d: pick %d returned status %v but the RPC picked again", c.id, pk.id, pk.code)
				continue
			}
			got := c.st.clientStatus.Code()
			want := pk.code
			if lbReserved(pk.code) {
				want = codes.Internal
				e.Probe("a54_reserved_code_from_picker")
				if got == pk.code && !x.handlerReturned(c, pk.code) {
					e.Violate("a54_picker_code", "rpc %d: picker returned status %v (reserved for the data plane by gRFC A54) and the RPC finished with that code", c.id, pk.code)
					continue
				}
			} else {
				e.Probe("picker_status_passthrough")
			}
			if got == want {
				continue
			}
			switch {
			case !c.finalReflects(k):
				e.Probe("picker_status_lost_in_header")
				if x.cfg.StrictHeader {
					e.Violate("picker_status_lost_in_header", "rpc %d: a retry attempt started inside ClientStream.Header() was ended by the picker with status %v; the RPC finished with %v (the previous attempt's status)", c.id, pk.code, got)
				}
			case lbReserved(pk.code):
				e.Violate("a54_picker_code", "rpc %d: picker returned status %v (reserved for the data plane by gRFC A54); the RPC finished with %v instead of INTERNAL", c.id, pk.code, got)
			default:
				e.Violate("picker_status_changed", "rpc %d: picker returned status %v; the RPC finished with %v", c.id, pk.code, got)
			}
		}
	}
}

// ---- C32 ----

func (x *lbExt) checkGenerations() {
	e := x.e
	for _, c := range x.calls {
		s := c.startSeq
		for k, pk := range c.picks {
			newest := 0
			for _, pub := range x.pubs {
				if pub.bSeq != 0 && pub.bSeq < s && pub.gen > newest {
					newest = pub.gen
				}
			}
			if pk.gen < newest {
				e.Violate("stale_picker", "rpc %d: pick %d used picker generation %d although generation %d had been published before the pick started or last blocked", c.id, pk.id, pk.gen, newest)
			}
			if k > 0 {
				prev := c.picks[k-1]
				if pk.gen < prev.gen {
					e.Violate("stale_picker", "rpc %d: pick %d used generation %d after pick %d had used generation %d", c.id, pk.id, pk.gen, prev.id, prev.gen)
				} else if prev.blocking() && pk.gen == prev.gen {
					e.Violate("repick_same_picker", "rpc %d: pick %d got a blocking result (%s) from generation %d and pick %d asked the same generation again", c.id, prev.id, prev.kind, prev.gen, pk.id)
				} else if prev.blocking() {
					e.Probe("repick_on_newer_generation")
				}
			}
			s = pk.seq
		}
	}
}

func (x *lbExt) lastOKDial(addr string, before uint64) (seq uint64, conn int, ok bool) {
	for _, d := range x.w.net.Dials {
		if d.Addr == addr && d.Result == "ok" && d.Seq < before {
			seq, conn, ok = d.Seq, d.Conn, true
		}
	}
	return
}

// checkAttempts: every attempt on the wire belongs to exactly one pick, went
// over a connection of the picked SubConn, and that SubConn was READY at some
// point between Pick and the HEADERS.
func (x *lbExt) checkAttempts() {
	e := x.e
	for _, id := range x.noPickHdrs {
		e.Violate("attempt_without_pick", "rpc %d: request HEADERS on the wire without a pick id", id)
	}
	for _, id := range x.dupPickHdr {
		e.Violate("pick_reused", "pick %d: two attempts (request HEADERS) used the same pick result", id)
	}
	for _, pk := range x.picks {
		if pk.sc == nil || pk.hdrSeq == 0 {
			continue
		}
		e.Probe("attempt_attributed_to_pick")
		s := pk.sc
		// the connection goes to an address of the picked SubConn: one of a list
		// that was (possibly) current between the Pick and the HEADERS. Once
		// UpdateAddresses has returned, a connection to an address that is no
		// longer listed is not the SubConn's any more (balancer.ClientConn docs).
		// grpc-go keeps such a connection when a health-checked SubConn is
		// re-targeted while its backend is unhealthy (connected, but
		// TRANSIENT_FAILURE or CONNECTING) and uses it again once the backend
		// reports SERVING: a finding about UpdateAddresses, not about this
		// property (probe; a violation only with strict_addrs, see
		// replays-kept/C32-update-addresses-keeps-unlisted-connection.json).
		if pk.hdrConn < len(x.w.net.Pairs) {
			a := x.w.net.Pairs[pk.hdrConn].Addr
			switch {
			case !s.had(a, pk.hdrSeq) || (!s.hc && !s.listed(a, pk.seq, pk.hdrSeq)):
				e.Violate("attempt_wrong_subconn", "pick %d chose sc%d (%s) but the attempt went over connection %d to %s, which was not among the SubConn's addresses between the Pick and the HEADERS", pk.id, s.id, s.addr, pk.hdrConn, a)
			case !s.listed(a, pk.seq, pk.hdrSeq):
				e.Probe("unlisted_connection_kept_after_update_addresses")
				if x.cfg.StrictAddrs {
					e.Violate("update_addresses_kept_unlisted_connection", "pick %d chose health-checked sc%d (%s); the attempt went over connection %d to %s, an address that UpdateAddresses had removed from the SubConn before the Pick", pk.id, s.id, s.addr, pk.hdrConn, a)
				}
			case len(s.addrHist) > 1:
				e.Probe("attempt_on_retargeted_subconn")
			}
		}
		if s.inst.closed && s.inst.closedSeq < x.quiesceSeq {
			continue // the listener log of an instance closed by idle mode is incomplete
		}
		// lower bound of the j-th READY period: the j-th successful dial to one
		// of the SubConn's addresses since it was created (every READY needs its
		// own); for a health-checked SubConn the j-th time a backend at one of
		// its addresses reported SERVING (or ended the Watch stream with
		// UNIMPLEMENTED): every READY needs its own, too
		var okDials []uint64
		if s.hc {
			for _, c := range x.hcauses {
				if c.seq > s.createdSeq && s.had(c.addr, ^uint64(0)) {
					okDials = append(okDials, c.seq)
				}
			}
		} else {
			for _, d := range x.w.net.Dials {
				if d.Result == "ok" && d.Seq > s.createdSeq && s.had(d.Addr, ^uint64(0)) {
					okDials = append(okDials, d.Seq)
				}
			}
		}
		ok := false
		nReady := 0
		for j, ev := range s.log {
			if ev.state != connectivity.Ready {
				continue
			}
			var begin uint64
			if nReady < len(okDials) {
				begin = okDials[nReady]
			}
			nReady++
			end := ^uint64(0)
			if j+1 < len(s.log) {
				end = s.log[j+1].seq
			}
			if s.shutDoneSeq != 0 && s.shutDoneSeq < end {
				end = s.shutDoneSeq
			}
			if begin < pk.hdrSeq && end > pk.seq {
				ok = true
			}
		}
		if !ok {
			e.Violate("attempt_on_nonready_subconn", "pick %d (rpc %d) chose sc%d which was not READY at any time between the Pick and the attempt's HEADERS (listener log%s)", pk.id, pk.rpcID(), s.id, map[bool]string{true: ", health reports of its backend"}[s.hc])
		} else if pk.kind == "notready" || pk.kind == "any" || pk.kind == "shut" {
			e.Probe("stale_snapshot_subconn_was_ready")
		}
	}
}

// checkBlockingResults: blocking results never fail the RPC (only the end of
// its context does); plain errors fail fail-fast RPCs with UNAVAILABLE.
func (x *lbExt) checkBlockingResults() {
	e := x.e
	retry := lbSCKey(x.cfg.Retry) != "plain"
	for _, c := range x.calls {
		if !c.st.clientDone || len(c.picks) == 0 {
			continue
		}
		got := c.st.clientStatus.Code()
		ctxCode := got == codes.DeadlineExceeded || got == codes.Canceled
		last := c.picks[len(c.picks)-1]
		if !c.finalReflects(len(c.picks) - 1) {
			e.Probe("final_status_from_previous_attempt_possible")
			continue
		}
		if last.blocking() {
			if !ctxCode {
				e.Violate("blocked_pick_failed", "rpc %d: its last pick result (%s from generation %d) only blocks, but the RPC finished with %v", c.id, last.kind, last.gen, got)
			} else if !c.st.cancelled && c.st.finishedAt.Before(c.tEnd()) {
				e.Violate("blocked_pick_failed", "rpc %d: blocked in a pick but finished with %v %v before its context ended", c.id, got, c.tEnd().Sub(c.st.finishedAt))
			}
		}
		for k, pk := range c.picks {
			if pk.errKind != "plain" || c.st.r.WaitReady {
				if pk.errKind == "plain" {
					e.Probe("plain_error_wait_for_ready")
				}
				continue
			}
			e.Probe("plain_error_fail_fast")
			if k+1 < len(c.picks) {
				if !retry {
					e.Violate("failfast_picker_error", "rpc %d (fail-fast, no retry policy): pick %d returned a plain error but the RPC picked again", c.id, pk.id)
				}
				continue
			}
			if got != codes.Unavailable && !(retry && ctxCode) {
				e.Violate("failfast_picker_error", "rpc %d (fail-fast): picker returned a plain error; the RPC finished with %v instead of UNAVAILABLE", c.id, got)
			}
		}
	}
}

// ---- C30 ----

func (x *lbExt) checkChannelAtQuiescence() {
	e := x.e
	cur := x.w.Conn.GetState()
	want := connectivity.Idle
	if n := len(x.insts); n > 0 && !x.insts[n-1].closed {
		l := x.insts[n-1]
		want = connectivity.Connecting
		for _, pub := range x.pubs {
			if pub.inst == l && pub.bSeq != 0 {
				want = pub.state
			}
		}
	}
	e.Probe("chan_state_checked_" + want.String())
	if cur != want {
		e.Violate("chan_state_mismatch", "GetState at quiescence is %v; the most recently published state is %v", cur, want)
	}
	noIdle := x.w.sc.Client.IdleNs == 0 && !x.idleSeen()
	for i, wt := range x.watchers {
		if !wt.blocked {
			continue
		}
		e.Probe("wfsc_blocked_at_quiescence")
		if cur != wt.src {
			e.Violate("wfsc_missed", "watcher %d is still blocked in WaitForStateChange(%v) at quiescence although the state is %v", i, wt.src, cur)
			continue
		}
		if !noIdle {
			continue
		}
		for _, pub := range x.pubs {
			if pub.bSeq != 0 && pub.aT.After(wt.sinceT) && pub.state != wt.src {
				e.Violate("wfsc_missed", "watcher %d has been blocked in WaitForStateChange(%v) since %v; %v was published at %v", i, wt.src, wt.sinceT.Sub(x.t0), pub.state, pub.aT.Sub(x.t0))
				break
			}
		}
	}
}

func (x *lbExt) checkSubConnsAtQuiescence() {
	e := x.e
	for _, i := range x.insts {
		if i.closed {
			continue
		}
		for _, s := range i.scs {
			if s.shutCalled {
				if n := len(s.log); n == 0 || s.log[n-1].state != connectivity.Shutdown {
					e.Violate("sc_shutdown_not_reported", "sc%d: the policy called Shutdown but the final SHUTDOWN update never reached the listener", s.id)
				} else {
					e.Probe("sc_shutdown_reported")
				}
				continue
			}
			if s.state != connectivity.Ready {
				continue
			}
			var last uint64
			for _, ev := range s.log {
				if ev.state == connectivity.Ready {
					last = ev.seq
				}
			}
			if i.addrUpdates > 0 {
				// the instance moved SubConns between addresses: the connection
				// of a READY SubConn is one to an address of its current list,
				// dialled before READY was reported (an address may have
				// belonged to another SubConn earlier)
				// ... or to any address the SubConn was ever given: grpc-go keeps
				// the live connection of a health-checked SubConn in
				// TRANSIENT_FAILURE when UpdateAddresses drops its address
				// (recorded oddity, outside the C30/C32 statements)
				dialled, open := false, false
				for _, d := range x.w.net.Dials {
					if d.Result == "ok" && d.Seq > s.createdSeq && d.Seq < last && s.had(d.Addr, last) {
						dialled = true
						if !x.w.net.Pairs[d.Conn].Closed {
							open = true
						}
					}
				}
				if dialled && !open {
					e.Violate("sc_disconnect_not_reported", "sc%d: last reported state is READY but every connection to an address it was ever given is closed", s.id)
				} else if dialled {
					e.Probe("sc_ready_at_quiescence")
				}
				continue
			}
			if _, conn, ok := x.lastOKDial(s.addr, last); ok && conn < len(x.w.net.Pairs) {
				if x.w.net.Pairs[conn].Closed {
					e.Violate("sc_disconnect_not_reported", "sc%d: last reported state is READY but its connection %d is closed", s.id, conn)
				} else {
					e.Probe("sc_ready_at_quiescence")
				}
			}
		}
	}
}

var lbEdgeOK = map[[2]connectivity.State]bool{
	{connectivity.Idle, connectivity.Connecting}:             true,
	{connectivity.Connecting, connectivity.Ready}:            true,
	{connectivity.Connecting, connectivity.TransientFailure}: true,
	{connectivity.Connecting, connectivity.Idle}:             true, // connected and lost before READY could be reported
	{connectivity.Ready, connectivity.Idle}:                  true,
	{connectivity.TransientFailure, connectivity.Idle}:       true,
}

func (x *lbExt) checkSubConnLogs() {
	e := x.e
	resetBackoff := false
	for _, a := range x.w.sc.Actions {
		if a.Kind == "reset_backoff" {
			resetBackoff = true
		}
	}
	// Dials are attributed by address. UpdateAddresses moves SubConns between
	// addresses, so causes are counted per group of addresses connected
	// through the lists any SubConn ever had (without UpdateAddresses: per
	// address). A group with a health-checked SubConn is not counted: its READY
	// and TRANSIENT_FAILURE reports follow the backend's health status.
	group := map[string]string{}
	var root func(a string) string
	root = func(a string) string {
		if p, ok := group[a]; ok && p != a {
			r := root(p)
			group[a] = r
			return r
		}
		group[a] = a
		return a
	}
	hcGroup := map[string]bool{} // some SubConn of the group is health-checked
	allHC := map[string]bool{}   // all are
	for _, o := range x.scs {
		for _, h := range o.addrHist {
			for _, a := range h.addrs {
				if ra, rb := root(o.addrHist[0].addrs[0]), root(a); ra != rb {
					group[rb] = ra
				}
			}
		}
	}
	for _, o := range x.scs {
		g := root(o.addrHist[0].addrs[0])
		if o.hc {
			hcGroup[g] = true
		}
		if _, ok := allHC[g]; !ok || !o.hc {
			allHC[g] = o.hc
		}
	}
	count := func(g string, st connectivity.State, upto uint64) int {
		n := 0
		for _, o := range x.scs {
			if root(o.addrHist[0].addrs[0]) != g {
				continue
			}
			for _, ev := range o.log {
				if ev.state == st && ev.seq <= upto {
					n++
				}
			}
		}
		return n
	}
	for _, s := range x.scs {
		prev := connectivity.Idle
		var prevT time.Time
		nConn := 0
		g := root(s.addrHist[0].addrs[0])
		for j, ev := range s.log {
			if ev.late {
				e.Violate("sc_update_after_close", "sc%d: %v delivered after the policy was closed", s.id, ev.state)
			}
			if prev == connectivity.Shutdown {
				e.Violate("sc_update_after_shutdown", "sc%d: %v delivered after SHUTDOWN", s.id, ev.state)
				prev = ev.state
				continue
			}
			e.Probe("sc_edge_" + prev.String() + "_" + ev.state.String())
			if s.hc {
				// Client-side health checking (gRPC health checking protocol)
				// moves a connected SubConn between READY and TRANSIENT_FAILURE
				// with the backend's health status; the statement's transition
				// rules describe the connection state machine and are not
				// applied to such a SubConn. The cause of a READY report is a
				// backend saying SERVING (or ending Watch with UNIMPLEMENTED).
				e.Probe("sc_edge_healthchecked")
				if ev.state == connectivity.Ready && allHC[g] {
					nc := 0
					for _, c := range x.hcauses {
						if _, ok := group[c.addr]; ok && c.seq < ev.seq && root(c.addr) == g {
							nc++
						}
					}
					if nr := count(g, connectivity.Ready, ev.seq); nr > nc {
						e.Violate("sc_update_without_cause", "sc%d (%s, health-checked): %d READY updates but its backend reported SERVING only %d times before", s.id, s.addr, nr, nc)
					}
				}
				prev, prevT = ev.state, ev.t
				continue
			}
			// READY -> CONNECTING is a step of the state machine only after
			// UpdateAddresses (connected to an address that is no longer listed)
			nu := s.updates(ev.seq)
			switch {
			case ev.state == connectivity.Ready && prev != connectivity.Connecting:
				e.Violate("sc_illegal_transition", "sc%d: %v -> READY (update %d)", s.id, prev, j)
			case prev == connectivity.TransientFailure && ev.state != connectivity.Idle && ev.state != connectivity.Shutdown:
				e.Violate("sc_illegal_transition", "sc%d: TRANSIENT_FAILURE -> %v (update %d)", s.id, ev.state, j)
			case prev == connectivity.Ready && ev.state == connectivity.Connecting && nu > 0:
				e.Probe("sc_reconnect_after_update_addresses")
				if h := s.addrHist[nu-1 : nu+1]; len(h[0].addrs) == 1 && lbHasAddr(h[1].addrs, h[0].addrs[0]) {
					// not an oracle of C30/C32: the connection was dropped although
					// its (only possible) address is still listed
					e.Probe("update_addresses_dropped_listed_connection")
				}
			case ev.state != connectivity.Shutdown && !lbEdgeOK[[2]connectivity.State{prev, ev.state}]:
				e.Violate("sc_out_of_order", "sc%d: update %d reports %v after %v, which is not a step of the subchannel state machine (updates lost or reordered)", s.id, j, ev.state, prev)
			}
			switch ev.state {
			case connectivity.Connecting:
				nConn++
				nc := 0
				for _, cs := range s.connects {
					if cs < ev.seq {
						nc++
					}
				}
				if nConn > nc+nu {
					e.Violate("sc_update_without_cause", "sc%d: %d CONNECTING updates but the policy called Connect only %d times and UpdateAddresses %d times before", s.id, nConn, nc, nu)
				}
			case connectivity.Ready:
				if hcGroup[g] {
					break
				}
				nd := 0
				for _, d := range x.w.net.Dials {
					if d.Result == "ok" && d.Seq < ev.seq {
						if _, ok := group[d.Addr]; ok && root(d.Addr) == g {
							nd++
						}
					}
				}
				if nr := count(g, connectivity.Ready, ev.seq); nr > nd {
					e.Violate("sc_update_without_cause", "sc%d (%s): %d READY updates but only %d successful dials before", s.id, s.addr, nr, nd)
				}
			case connectivity.TransientFailure:
				if hcGroup[g] {
					break
				}
				nd := 0
				for _, d := range x.w.net.Dials {
					if d.Seq < ev.seq {
						if _, ok := group[d.Addr]; ok && root(d.Addr) == g {
							nd++
						}
					}
				}
				if nf := count(g, connectivity.TransientFailure, ev.seq); nf > nd {
					e.Violate("sc_update_without_cause", "sc%d (%s): %d TRANSIENT_FAILURE updates but only %d dials before", s.id, s.addr, nf, nd)
				}
			case connectivity.Idle:
				if prev == connectivity.TransientFailure && !resetBackoff && ev.t.Sub(prevT) < time.Millisecond {
					e.Violate("sc_tf_left_without_backoff", "sc%d: TRANSIENT_FAILURE -> IDLE after %v", s.id, ev.t.Sub(prevT))
				}
			}
			prev, prevT = ev.state, ev.t
		}
	}
}

// ---- probes ----

func (x *lbExt) probes() {
	e := x.e
	if len(x.insts) > 1 {
		e.Probe("policy_rebuilt_after_idle")
	}
	e.ProbeN("picker_generations", len(x.pubs))
	for _, pk := range x.picks {
		switch {
		case pk.errKind == "nosc":
			e.Probe("pick_no_subconn")
		case pk.errKind != "":
			e.Probe("pick_" + pk.errKind + "_error")
		case pk.hasDone && pk.doneN == 1 && pk.blocking():
			e.Probe("done_nonready_subconn")
			if pk.sc.shutCalled && pk.sc.shutSeq < pk.seq {
				e.Probe("done_shutdown_subconn")
			}
		case pk.hasDone && pk.doneN == 1 && pk.doneErr && !pk.doneSent:
			e.Probe("done_stream_creation_failed")
		case pk.hasDone && pk.doneN == 1 && pk.doneErr:
			e.Probe("done_rpc_error_" + pk.doneCode.String())
		case pk.hasDone && pk.doneN == 1:
			e.Probe("done_rpc_ok")
		case !pk.hasDone:
			e.Probe("pick_without_done")
		}
	}
	for _, c := range x.calls {
		used := 0
		for _, pk := range c.picks {
			if pk.hdrSeq != 0 {
				used++
			}
		}
		if used > 1 {
			e.Probe("rpc_with_several_attempts")
		}
		if len(c.picks) > 1 {
			e.Probe("rpc_with_several_picks")
		}
	}
}
