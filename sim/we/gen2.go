package we

import (
	"encoding/hex"
	"fmt"

	"google.golang.org/grpc/internal/zzverif/core"
)

// ---- C10: a handler's status reaches the client unchanged ----

func genStatusMsg(r *core.Rand) string {
	if r.Chance(1, 3) {
		// printable ASCII with exactly one kind of boundary character: the
		// edges of the printable range, the escape character, and the first
		// bytes beyond ASCII, each on its own
		special := core.Pick(r, "\x00", "\x1f", " ", "%", "~", "\x7f", "\x80", "\xff", "\u00e9", "\n", "\t")
		n := r.Range(0, 12)
		b := make([]byte, 0, n+8)
		at := r.Intn(n + 1)
		for i := 0; i <= n; i++ {
			if i == at {
				b = append(b, special...)
				if r.Chance(1, 3) {
					b = append(b, special...)
				}
			}
			if i < n {
				b = append(b, byte('a'+r.Intn(26)))
			}
		}
		return string(b)
	}
	switch r.Intn(7) {
	case 0:
		return ""
	case 1:
		return "plain ascii message"
	case 2:
		return "percent % and \r\n control \x00 \x7f chars"
	case 3:
		return "unicode: ñ 漢字 🙂 end"
	case 4: // invalid UTF-8
		return "bad \xff\xfe utf8 \xc3\x28 \xe2\x82 tail"
	case 5:
		b := make([]byte, r.Range(1, 40))
		for i := range b {
			b[i] = byte(r.Intn(256))
		}
		return string(b)
	default:
		n := r.LogUniform(100, 20000)
		b := make([]byte, n)
		for i := range b {
			b[i] = byte('a' + r.Intn(26))
		}
		return string(b)
	}
}

func genC10(seed uint64, tier string) *Scenario {
	r, s := genBase(seed, tier)
	s.Oracles = []string{"status_exact", "status_error"}
	s.Client.DisableRetry = true
	n := r.Range(1, 6)
	for i := 0; i < n; i++ {
		rpc := RPC{ID: uint32(i + 1), StartNs: int64(r.Intn(2)) * int64(r.Intn(1000000))}
		var srv []Op
		nc, ns := r.Intn(3), r.Intn(4)
		for k := 0; k < nc; k++ {
			rpc.Client = append(rpc.Client, Op{Op: "send", N: genSize(r, 65535)})
		}
		closes := r.Chance(2, 3)
		if closes {
			rpc.Client = append(rpc.Client, Op{Op: "close_send"})
		}
		if closes && r.Chance(1, 2) {
			srv = append(srv, Op{Op: "recv_all"})
		}
		for k := 0; k < ns; k++ {
			srv = append(srv, Op{Op: "send", N: genSize(r, 65535)})
		}
		code := r.Range(0, 16)
		if r.Chance(1, 8) {
			code = core.Pick(r, 17, 20, 99, 1000)
		}
		ret := Op{Op: "return", Code: code, MsgHex: hex.EncodeToString([]byte(genStatusMsg(r)))}
		for k := r.Intn(4); k > 0 && r.Chance(1, 2); k-- {
			ret.Details = append(ret.Details, fmt.Sprintf("detail-%d-%d", i, k))
		}
		srv = append(srv, ret)
		rpc.Client = append(rpc.Client, Op{Op: "recv_all"})
		rpc.Server = [][]Op{srv}
		s.RPCs = append(s.RPCs, rpc)
	}
	switch r.Intn(5) {
	case 0:
		genFaults(r, s, "stall", "cut_after", "reset", "half_close", "blackhole")
	case 1: // client cancel / deadline racing with the trailers
		for i := range s.RPCs {
			if r.Chance(1, 2) {
				at := r.Intn(len(s.RPCs[i].Client) + 1)
				ops := append([]Op{}, s.RPCs[i].Client[:at]...)
				ops = append(ops, Op{Op: "cancel"})
				s.RPCs[i].Client = append(ops, s.RPCs[i].Client[at:]...)
			} else {
				s.RPCs[i].DeadlineNs = int64(r.LogUniform(1, 100000000))
			}
		}
	}
	return s
}

// ---- C09: metadata ----

const keyAlphabet = "abcdefghijklmnopqrstuvwxyz0123456789-_."

func genKey(r *core.Rand) string {
	n := r.Range(1, 12)
	b := make([]byte, n)
	for i := range b {
		b[i] = keyAlphabet[r.Intn(len(keyAlphabet))]
	}
	k := "u" + string(b) // never collides with reserved names, never starts with "grpc-"
	return k
}

func genVal(r *core.Rand, bin bool) KV {
	n := r.Intn(30)
	if r.Chance(1, 10) {
		n = r.LogUniform(100, 30000) // large: forces CONTINUATION frames
	}
	if r.Chance(1, 8) {
		n = 0
	}
	b := make([]byte, n)
	for i := range b {
		if bin {
			b[i] = byte(r.Intn(256))
		} else {
			b[i] = byte(r.Range(0x20, 0x7e))
		}
	}
	if bin {
		return KV{VHex: hex.EncodeToString(b)}
	}
	return KV{V: string(b)}
}

func genMD(r *core.Rand, client bool) []KV {
	var out []KV
	nk := r.Intn(5)
	for i := 0; i < nk; i++ {
		k := genKey(r)
		bin := r.Chance(1, 3)
		if bin {
			k += "-bin"
		}
		for j := r.Range(1, 3); j > 0; j-- {
			p := genVal(r, bin)
			p.K = k
			if client && r.Chance(1, 3) {
				p.Append = true
				if r.Chance(1, 2) { // mixed case through AppendToOutgoingContext
					kb := []byte(k)
					for x := range kb {
						if kb[x] >= 'a' && kb[x] <= 'z' && r.Chance(1, 2) {
							kb[x] -= 32
						}
					}
					p.K = string(kb)
				}
			}
			out = append(out, p)
		}
	}
	return out
}

func genC09(seed uint64, tier string) *Scenario {
	r, s := genBase(seed, tier)
	s.Oracles = []string{"metadata", "status_error"}
	s.Client.DisableRetry = r.Chance(1, 2)
	n := r.Range(1, 8)
	for i := 0; i < n; i++ {
		rpc := RPC{ID: uint32(i + 1), StartNs: int64(r.Intn(2)) * int64(r.Intn(100000))}
		rpc.MD = genMD(r, true)
		switch r.Intn(12) {
		case 0: // reserved names inside user metadata: dropped, never sent
			rpc.MD = append(rpc.MD, KV{K: core.Pick(r, "content-type", "te", "grpc-status", "grpc-message", ":path", "grpc-encoding", "user-agent", "grpc-timeout"), V: fmt.Sprintf("user-marker-%d", i)})
		case 1: // invalid metadata: must fail INTERNAL before anything is sent
			switch r.Intn(3) {
			case 0:
				rpc.MD = append(rpc.MD, KV{K: "bad key", V: "x", RawKey: true})
			case 1:
				rpc.MD = append(rpc.MD, KV{K: "ubadvalue", VHex: "0102ff"})
			default:
				rpc.MD = append(rpc.MD, KV{K: "UPPER", V: "x", RawKey: true})
			}
		}
		var srv []Op
		if r.Chance(2, 3) {
			srv = append(srv, Op{Op: core.Pick(r, "set_header", "send_header"), MD: genMD(r, false)})
		}
		if r.Chance(1, 2) {
			rpc.Client = append(rpc.Client, Op{Op: "send", N: r.Intn(3000)})
			srv = append(srv, Op{Op: "recv"})
		}
		for k := r.Intn(3); k > 0; k-- {
			srv = append(srv, Op{Op: "send", N: r.Intn(3000)})
		}
		if r.Chance(2, 3) {
			srv = append(srv, Op{Op: "set_trailer", MD: genMD(r, false)})
		}
		if r.Chance(1, 4) {
			srv = append(srv, Op{Op: "return", Code: r.Range(1, 16), Msg: "x"})
		}
		rpc.Client = append(rpc.Client, Op{Op: "close_send"}, Op{Op: "recv_all"})
		rpc.Server = [][]Op{srv}
		s.RPCs = append(s.RPCs, rpc)
	}
	if r.Chance(1, 5) {
		genFaults(r, s, "stall", "cut_after", "reset")
	}
	return s
}

// ---- C22: deadlines and cancellation ----

func genC22(seed uint64, tier string) *Scenario {
	r, s := genBase(seed, tier)
	s.Oracles = []string{"deadline", "status_error"}
	s.Client.DisableRetry = r.Chance(1, 2)
	block := r.Intn(6)
	n := r.Range(1, 5)
	if block == 5 {
		// the RPC sits in a retry backoff (or pushback delay) when the deadline
		// passes or the context is cancelled
		s.Client.DisableRetry = false
		s.Client.ServiceConfig = fmt.Sprintf(`{"methodConfig":[{"name":[{}],"retryPolicy":{"maxAttempts":%d,"initialBackoff":"%ds","maxBackoff":"%ds","backoffMultiplier":%d,"retryableStatusCodes":["UNAVAILABLE"]}}]}`, r.Range(2, 5), r.Range(1, 20), r.Range(20, 100), r.Range(1, 3))
	}
	if block == 1 {
		s.Server.MaxStreams = uint32(r.Range(1, 2))
		n = r.Range(2, 6)
	}
	for i := 0; i < n; i++ {
		rpc := RPC{ID: uint32(i + 1), StartNs: int64(r.Intn(2)) * int64(r.Intn(1000000))}
		rpc.DeadlineNs = int64(r.LogUniform(1000, 4000000000))
		if r.Chance(1, 10) {
			rpc.DeadlineNs = int64(r.Range(1, 1000))
		}
		if r.Chance(1, 10) {
			rpc.DeadlineNs = int64(r.Range(1, 48)) * 3600e9
		}
		var srv []Op
		switch block {
		case 0: // blocked in Recv: the handler sleeps or waits for its context
			rpc.Client = append(rpc.Client, Op{Op: "send", N: r.Intn(2000)}, Op{Op: "close_send"}, Op{Op: "recv"})
			if r.Chance(1, 2) {
				srv = append(srv, Op{Op: "recv"}, Op{Op: "wait_ctx"})
			} else {
				srv = append(srv, Op{Op: "recv"}, Op{Op: "sleep", Ns: int64(r.LogUniform(1000, 8000000000))}, Op{Op: "send", N: 10})
			}
		case 1: // blocked waiting for stream quota: handlers hold their streams
			rpc.Client = append(rpc.Client, Op{Op: "send", N: 10}, Op{Op: "recv"})
			srv = append(srv, Op{Op: "recv"}, Op{Op: "sleep", Ns: int64(r.LogUniform(1000000, 8000000000))}, Op{Op: "send", N: 10})
		case 2: // blocked on flow control: the handler never reads
			for k := r.Range(2, 5); k > 0; k-- {
				rpc.Client = append(rpc.Client, Op{Op: "send", N: r.Range(30000, 120000)})
			}
			rpc.Client = append(rpc.Client, Op{Op: "recv"})
			srv = append(srv, Op{Op: "wait_ctx"})
		case 3: // blocked picking: see dial faults below
			rpc.WaitReady = r.Chance(2, 3)
			rpc.Client = append(rpc.Client, Op{Op: "send", N: 10}, Op{Op: "close_send"}, Op{Op: "recv_all"})
			srv = append(srv, Op{Op: "recv_all"}, Op{Op: "send", N: 10})
		case 5:
			rpc.DeadlineNs = int64(r.LogUniform(1000000, 30000000000))
			rpc.Client = append(rpc.Client, Op{Op: "send", N: r.Intn(2000)}, Op{Op: "close_send"}, Op{Op: "recv_all"})
			fail := []Op{{Op: "return", Code: 14, Msg: "try again later"}}
			rpc.Server = [][]Op{fail, fail, fail, {{Op: "recv_all"}, {Op: "send", N: 10}}}
		default: // ordinary traffic with tight deadlines
			rpc.Client = append(rpc.Client, Op{Op: "send", N: genSize(r, 65535)}, Op{Op: "recv"}, Op{Op: "close_send"}, Op{Op: "recv_all"})
			srv = append(srv, Op{Op: "recv"}, Op{Op: "send", N: genSize(r, 65535)}, Op{Op: "recv_all"})
		}
		if r.Chance(1, 3) { // explicit cancel at a random simulated time
			at := r.Intn(len(rpc.Client) + 1)
			ops := append([]Op{}, rpc.Client[:at]...)
			ops = append(ops, Op{Op: "sleep", Ns: int64(r.LogUniform(1, 2000000000))}, Op{Op: "cancel"})
			rpc.Client = append(ops, rpc.Client[at:]...)
		}
		if rpc.Server == nil {
			rpc.Server = [][]Op{srv}
		}
		s.RPCs = append(s.RPCs, rpc)
	}
	// a dead connection that the reader never notices (blackhole, half-close)
	// leaves the client's transparent-retry loop spinning until the deadline;
	// the runtime charges such a spinner at most ~17 virtual seconds per 50 000
	// scheduling points, so hour-long deadlines would cost minutes of CPU and
	// gigabytes (no GC inside a run)
	for _, f := range s.Faults {
		if f.Kind == "blackhole" || f.Kind == "half_close" {
			for i := range s.RPCs {
				s.RPCs[i].DeadlineNs = min(s.RPCs[i].DeadlineNs, 120e9)
			}
		}
	}
	if block == 3 {
		k := core.Pick(r, "dial_hang", "dial_fail")
		for d := 0; d < r.Range(1, 4); d++ {
			s.Faults = append(s.Faults, simnetFault(k, d))
		}
	} else if r.Chance(1, 6) {
		genFaults(r, s, "stall", "blackhole", "reset")
	}
	return s
}

// ---- C24: every RPC error is a status ----

func genC24(seed uint64, tier string) *Scenario {
	r, s := genBase(seed, tier)
	s.Oracles = []string{"status_error"}
	s.Client.DisableRetry = r.Chance(1, 2)
	genTraffic(r, tier, s, true)
	if r.Chance(1, 4) {
		// retry policy: handlers fail with a retryable code for the first
		// attempts, so RPCs spend time in retry backoff / pushback delays while
		// deadlines pass, contexts are cancelled and faults hit
		s.Client.DisableRetry = false
		s.Client.ServiceConfig = fmt.Sprintf(`{"methodConfig":[{"name":[{}],"retryPolicy":{"maxAttempts":%d,"initialBackoff":"%ds","maxBackoff":"%ds","backoffMultiplier":%d,"retryableStatusCodes":["UNAVAILABLE"]}}]}`, r.Range(2, 5), r.Range(1, 20), r.Range(20, 100), r.Range(1, 3))
		fail := []Op{{Op: "return", Code: 14, Msg: "try again later"}}
		for i := range s.RPCs {
			if r.Chance(2, 3) {
				ok := s.RPCs[i].Server[0]
				var scr [][]Op
				for k := r.Range(1, 4); k > 0; k-- {
					scr = append(scr, fail)
				}
				s.RPCs[i].Server = append(scr, ok)
				if r.Chance(1, 2) {
					s.RPCs[i].DeadlineNs = int64(r.LogUniform(1000000, 30000000000))
				}
			}
		}
	}
	switch r.Intn(4) {
	case 0:
		genFaults(r, s, "stall", "cut_after", "reset", "half_close", "blackhole")
	case 1:
		genFaults(r, s, "cut_after", "reset")
		s.Faults = append(s.Faults, simnetFault(core.Pick(r, "dial_fail", "dial_hang"), r.Range(0, 2)))
	case 2:
		s.Actions = append(s.Actions, Action{AtNs: int64(r.LogUniform(1, 2000000000)), Kind: core.Pick(r, "stop", "graceful_stop")})
	}
	if r.Chance(1, 4) {
		s.Client.MaxRecv = r.LogUniform(1, 100000)
		s.Server.MaxRecv = r.LogUniform(1, 100000)
	}
	return s
}

// ---- C53: pooled buffers (rider on every kind of run) ----

func genC53(seed uint64, tier string) *Scenario {
	r, s := genBase(seed, tier)
	// No leak oracle: grpc-go deliberately drops unread receive buffers on the
	// floor when a stream ends (the GC reclaims them), so "every Get is
	// followed by a Put" does not hold and the property does not demand it.
	s.Oracles = []string{"recv_payload", "bytes"}
	s.Pool = true
	s.Client.DisableRetry = r.Chance(1, 2)
	genTraffic(r, tier, s, true)
	switch r.Intn(3) {
	case 0:
		genFaults(r, s, "stall", "cut_after", "reset", "half_close", "blackhole")
	case 1:
		s.Actions = append(s.Actions, Action{AtNs: int64(r.LogUniform(1, 2000000000)), Kind: core.Pick(r, "stop", "graceful_stop")})
	}
	return s
}

// ---- C29we: the channel's use of the idle manager (clientconn.go) ----

// Idle timeouts of nanoseconds to seconds with bursts of RPCs separated by
// gaps, plus explicit Connect calls: the channel enters and leaves idle mode
// many times while RPCs start, run and end. Entering idle closes every
// transport, so an RPC that is between start and end while the channel goes
// idle fails; in these fault-free runs every RPC must end with exactly its
// handler's status, by its deadline.
func genC29we(seed uint64, tier string) *Scenario {
	r, s := genBase(seed, tier)
	s.Oracles = []string{"status_exact", "status_error", "deadline"}
	s.Client.DisableRetry = true
	scale := int64(core.Pick(r, 1, 1000, 1000000, 100000000))
	s.Client.IdleNs = int64(r.Range(1, 30)) * scale
	// while an RPC is active the idle timer re-arms every IdleNs: keep the
	// number of firings per RPC bounded when the network itself is slow
	if slow := (s.Net.LatencyNs + s.Net.StallNs) / 20; s.Client.IdleNs < slow {
		s.Client.IdleNs = slow
	}
	n := r.Range(1, 8)
	if tier == "thorough" {
		n = r.Range(2, 16)
	}
	t := int64(0)
	for i := 0; i < n; i++ {
		if r.Chance(1, 2) {
			t += int64(r.Range(0, 60)) * scale // gap around the idle timeout
		}
		rpc := RPC{ID: uint32(i + 1), StartNs: t}
		var srv []Op
		if r.Chance(1, 2) {
			rpc.Client = append(rpc.Client, Op{Op: "send", N: r.Intn(3000)})
			srv = append(srv, Op{Op: "recv"})
		}
		if r.Chance(1, 2) {
			// the RPC stays active across one or more idle timeouts
			srv = append(srv, Op{Op: "sleep", Ns: int64(r.Range(0, 90)) * scale})
		}
		srv = append(srv, Op{Op: "send", N: r.Intn(3000)})
		if r.Chance(1, 4) {
			srv = append(srv, Op{Op: "return", Code: r.Range(1, 16), Msg: "scripted"})
		}
		rpc.Client = append(rpc.Client, Op{Op: "close_send"}, Op{Op: "recv_all"})
		rpc.Server = [][]Op{srv}
		s.RPCs = append(s.RPCs, rpc)
	}
	for k := r.Intn(4); k > 0; k-- {
		s.Actions = append(s.Actions, Action{AtNs: int64(r.Range(0, 200)) * scale, Kind: "connect"})
	}
	return s
}

func init() {
	core.Register("C29we", genC29we, Run)
	core.Register("C09", genC09, Run)
	core.Register("C10", genC10, Run)
	core.Register("C22", genC22, Run)
	core.Register("C24", genC24, Run)
	core.Register("C53we", genC53, Run)
}
