package we

// misc_wire.go: a second, private wire observer for the misc extensions
// (limits, stop, compress, creds). It chains behind the world's own tap on
// every simnet pair (the world's hooks keep running first) and keeps, per
// HTTP/2 stream, the header blocks of both sides and the gRPC message
// prefixes (compressed flag + declared length) found in the DATA frames, plus
// every GOAWAY the server wrote. Nothing here looks at grpc-go's internals.

import (
	"sort"
	"strconv"

	"golang.org/x/net/http2"
	"golang.org/x/net/http2/hpack"
	"google.golang.org/grpc/internal/grpcutil"
	"google.golang.org/grpc/internal/zzverif/core"
	"google.golang.org/grpc/internal/zzverif/simnet"
	"google.golang.org/grpc/internal/zzverif/tap"
)

// miscMsg is one gRPC message as announced on the wire by its 5-byte prefix.
type miscMsg struct {
	Flag byte
	Len  int // declared payload length
	Got  int // payload bytes seen so far
	Seq  uint64
}

// miscHdr is one header block written by one side.
type miscHdr struct {
	Fields    []hpack.HeaderField
	EndStream bool
	Seq       uint64
}

func (h *miscHdr) get(name string) []string {
	var out []string
	for _, f := range h.Fields {
		if f.Name == name {
			out = append(out, f.Value)
		}
	}
	return out
}

func (h *miscHdr) first(name string) (string, bool) {
	for _, f := range h.Fields {
		if f.Name == name {
			return f.Value, true
		}
	}
	return "", false
}

type miscDir struct {
	pre   [5]byte
	npre  int
	Msgs  []miscMsg
	Hdrs  []miscHdr
	Ended bool
	Rst   bool
	RstC  http2.ErrCode
}

type miscStream struct {
	Conn    int
	SID     uint32
	RPC     uint32
	HaveRPC bool
	C, S    miscDir
	OpenSeq uint64 // client HEADERS written
	OpenDel uint64 // client HEADERS read by the server (0: never)
}

type miscGoAway struct {
	Conn   int
	LastID uint32
	Code   http2.ErrCode
	SeqW   uint64
	SeqD   uint64 // delivered to the client (0: never)
	NsW    int64
}

// miscPing: a PING the server wrote (Ack=false) or a PING ack of the client
// that the server has read (Ack=true).
type miscPing struct {
	Conn int
	Ack  bool
	Data [8]byte
	Seq  uint64
	Ns   int64
}

type miscSK struct {
	conn int
	sid  uint32
}

type miscWire struct {
	e       *core.Env
	streams map[miscSK]*miscStream
	order   []*miscStream
	goaways []*miscGoAway
	pings   []miscPing
}

func (mw *miscWire) stream(conn int, sid uint32) *miscStream {
	k := miscSK{conn, sid}
	st := mw.streams[k]
	if st == nil {
		st = &miscStream{Conn: conn, SID: sid}
		mw.streams[k] = st
		mw.order = append(mw.order, st)
	}
	return st
}

func (d *miscDir) feed(b []byte, seq uint64) {
	for len(b) > 0 {
		if n := len(d.Msgs); n > 0 && d.Msgs[n-1].Got < d.Msgs[n-1].Len {
			m := &d.Msgs[n-1]
			k := min(m.Len-m.Got, len(b))
			m.Got += k
			b = b[k:]
			continue
		}
		k := copy(d.pre[d.npre:], b)
		d.npre += k
		b = b[k:]
		if d.npre == 5 {
			d.npre = 0
			l := int(d.pre[1])<<24 | int(d.pre[2])<<16 | int(d.pre[3])<<8 | int(d.pre[4])
			d.Msgs = append(d.Msgs, miscMsg{Flag: d.pre[0], Len: l, Seq: seq})
		}
	}
}

func (mw *miscWire) sink(f *tap.Frame) {
	if f.Phase == 'd' {
		switch {
		case f.Type == http2.FrameHeaders && f.From == 'c' && f.StreamID != 0:
			if st := mw.streams[miscSK{f.Conn, f.StreamID}]; st != nil && st.OpenDel == 0 {
				st.OpenDel = f.Seq
			}
		case f.Type == http2.FramePing && f.From == 'c' && f.Ack():
			mw.pings = append(mw.pings, miscPing{Conn: f.Conn, Ack: true, Data: f.PingData, Seq: f.Seq, Ns: f.SimNs})
		case f.Type == http2.FrameGoAway && f.From == 's':
			for _, g := range mw.goaways {
				if g.Conn == f.Conn && g.SeqD == 0 {
					g.SeqD = f.Seq
					break
				}
			}
		}
		return
	}
	switch f.Type {
	case http2.FrameHeaders:
		if f.StreamID == 0 {
			return
		}
		st := mw.stream(f.Conn, f.StreamID)
		d := &st.C
		if f.From == 's' {
			d = &st.S
		}
		h := miscHdr{Fields: append([]hpack.HeaderField(nil), f.Fields...), EndStream: f.Flags&http2.FlagHeadersEndStream != 0, Seq: f.Seq}
		if f.From == 'c' && len(d.Hdrs) == 0 {
			st.OpenSeq = f.Seq
			if v := f.Header("x-sim-rpc"); len(v) == 1 {
				if id, err := strconv.ParseUint(v[0], 10, 32); err == nil {
					st.RPC, st.HaveRPC = uint32(id), true
				}
			}
		}
		d.Hdrs = append(d.Hdrs, h)
		if h.EndStream {
			d.Ended = true
		}
	case http2.FrameData:
		st := mw.stream(f.Conn, f.StreamID)
		d := &st.C
		if f.From == 's' {
			d = &st.S
		}
		d.feed(f.Data, f.Seq)
		if f.EndStream() {
			d.Ended = true
		}
	case http2.FrameRSTStream:
		st := mw.stream(f.Conn, f.StreamID)
		d := &st.C
		if f.From == 's' {
			d = &st.S
		}
		if !d.Rst {
			d.Rst, d.RstC = true, f.ErrCode
		}
	case http2.FramePing:
		if f.From == 's' && !f.Ack() {
			mw.pings = append(mw.pings, miscPing{Conn: f.Conn, Data: f.PingData, Seq: f.Seq, Ns: f.SimNs})
		}
	case http2.FrameGoAway:
		if f.From == 's' {
			mw.goaways = append(mw.goaways, &miscGoAway{Conn: f.Conn, LastID: f.LastStreamID, Code: f.ErrCode, SeqW: f.Seq, NsW: f.SimNs})
		}
	}
}

// streamsOf returns the wire streams of a logical RPC in creation order.
func (mw *miscWire) streamsOf(rpc uint32) []*miscStream {
	var out []*miscStream
	for _, st := range mw.order {
		if st.HaveRPC && st.RPC == rpc {
			out = append(out, st)
		}
	}
	return out
}

// reqEncoding / respEncoding: the stream's grpc-encoding as announced by the
// respective sender ("" = identity).
func (st *miscStream) reqEncoding() string {
	if len(st.C.Hdrs) == 0 {
		return ""
	}
	v, _ := st.C.Hdrs[0].first("grpc-encoding")
	if v == "identity" {
		v = ""
	}
	return v
}

func (st *miscStream) respEncoding() string {
	if len(st.S.Hdrs) == 0 {
		return ""
	}
	v, _ := st.S.Hdrs[0].first("grpc-encoding")
	if v == "identity" {
		v = ""
	}
	return v
}

// ---- per-run shared state of the misc extensions ----

type miscShared struct {
	w    *run
	wire *miscWire
}

// miscCur is the shared state of the run in progress. Runs of one worker
// process are strictly sequential; the state is replaced (never reused) when a
// new *run shows up, so nothing carries over between runs.
var miscCur *miscShared

// miscState returns the shared state of this run, creating it (and hooking
// the private tap behind the world's own) on first use. It must first be
// called from an extension's ServerOpts, i.e. before any connection exists.
func miscState(w *run) *miscShared {
	if miscCur != nil && miscCur.w == w {
		return miscCur
	}
	sh := &miscShared{w: w, wire: &miscWire{e: w.e, streams: map[miscSK]*miscStream{}}}
	miscCur = sh
	// every run starts with no compressor advertised (see misc_comp.go)
	grpcutil.RegisteredCompressorNames = nil
	prev := w.net.OnConn
	w.net.OnConn = func(p *simnet.Pair) {
		if prev != nil {
			prev(p)
		}
		cw, cr, sw, sr := p.C.OnWrite, p.C.OnRead, p.S.OnWrite, p.S.OnRead
		tap.Attach(w.e, p, sh.wire.sink)
		mcw, mcr, msw, msr := p.C.OnWrite, p.C.OnRead, p.S.OnWrite, p.S.OnRead
		chain := func(a, b func([]byte)) func([]byte) {
			if a == nil {
				return b
			}
			return func(x []byte) { a(x); b(x) }
		}
		p.C.OnWrite, p.C.OnRead, p.S.OnWrite, p.S.OnRead = chain(cw, mcw), chain(cr, mcr), chain(sw, msw), chain(sr, msr)
	}
	return sh
}

func miscSortedRPCs(sc *Scenario) []uint32 {
	ids := make([]uint32, 0, len(sc.RPCs))
	for i := range sc.RPCs {
		ids = append(ids, sc.RPCs[i].ID)
	}
	sort.Slice(ids, func(i, j int) bool { return ids[i] < ids[j] })
	return ids
}

// miscClean: the RPC ended without any client-side reason: no cancel, no
// scripted deadline, and the world's default deadline (which a very slow
// simulated network can reach) did not pass.
func miscClean(st *rpcState) bool {
	return st != nil && st.clientDone && !st.cancelled && st.r.DeadlineNs == 0 && st.finishedAt.Before(st.deadline)
}

// miscTameNet keeps the configuration-dominated checks cheap: byte-at-a-time
// transports (write buffer of one byte, one-byte segments or reads) cost one
// simulated event per payload byte and, with write stalls, minutes of virtual
// time per kilobyte; with more than a few kilobytes of payload they are
// replaced by moderately small units.
func miscTameNet(s *Scenario) {
	total := 0
	for i := range s.RPCs {
		for _, op := range s.RPCs[i].Client {
			if op.Op == "send" {
				total += op.N
			}
		}
		for _, sv := range s.RPCs[i].Server {
			for _, op := range sv {
				if op.Op == "send" {
					total += op.N
				}
			}
		}
	}
	tiny := s.Server.WriteBuf == 1 || s.Client.WriteBuf == 1
	if tiny && (s.Net.StallPct > 0 || total > 20000) {
		if s.Server.WriteBuf == 1 {
			s.Server.WriteBuf = 512
		}
		if s.Client.WriteBuf == 1 {
			s.Client.WriteBuf = 512
		}
	}
	if total > 20000 {
		if s.Net.SegMax > 0 && s.Net.SegMax < 50 {
			s.Net.SegMax, s.Net.SegMin = 300, 1
		}
		if s.Net.ReadMax > 0 && s.Net.ReadMax < 50 {
			s.Net.ReadMax = 64
		}
		if s.Net.InflightCap == 1 {
			s.Net.InflightCap = 4096
		}
	}
}

// miscDrainWaitNs is how long grpc-go's server waits for the acknowledgement
// of its drain PING before it sends the final GOAWAY anyway. It is used only
// to give violations that match a recorded defect their own oracle name.
const miscDrainWaitNs = 5000000000

// drainPingTimedOut: the acknowledgement of the PING the server sent right
// after the heads-up GOAWAY of a graceful drain was not read by the server
// within the server's waiting time, i.e. the final GOAWAY g was triggered by
// the timeout.
func (mw *miscWire) drainPingTimedOut(g *miscGoAway) bool {
	var headsUp *miscGoAway
	for _, h := range mw.goaways {
		if h.Conn == g.Conn && h.SeqW < g.SeqW && h.LastID == 1<<31-1 {
			headsUp = h
		}
	}
	if headsUp == nil {
		return false
	}
	for _, p := range mw.pings {
		if p.Conn != g.Conn || p.Ack || p.Seq < headsUp.SeqW || p.Seq > g.SeqW {
			continue
		}
		// the drain ping: first server PING after the heads-up GOAWAY
		for _, a := range mw.pings {
			if a.Conn == g.Conn && a.Ack && a.Data == p.Data && a.Seq > p.Seq && a.Ns-headsUp.NsW < miscDrainWaitNs {
				return false
			}
		}
		return true
	}
	return false
}
