package we

import (
	"google.golang.org/grpc/internal/zzverif/core"
	"google.golang.org/grpc/internal/zzverif/simnet"
)

func genSched(r *core.Rand, seed uint64) core.Sched {
	return core.Sched{SchedSeed: core.Mix(seed, 11), AuxSeed: core.Mix(seed, 12), YieldThr: core.Pick(r, uint32(0), 60, 200, 700, 2000, 6500)}
}

func genNet(r *core.Rand, seed uint64) simnet.Cfg {
	c := simnet.Cfg{Seed: core.Mix(seed, 21)}
	switch r.Intn(4) {
	case 0: // ideal network
	case 1:
		c.SegMax = core.Pick(r, 1, 7, 100, 1000, 16384, 70000)
		if r.Chance(1, 2) {
			c.SegMin = c.SegMax/2 + 1
		}
	case 2:
		c.SegMax = core.Pick(r, 9, 500, 5000, 40000)
		c.LatencyNs = int64(core.Pick(r, 0, 1000, 100000, 5000000))
	default:
		c.SegMax = core.Pick(r, 0, 3, 300, 20000)
		c.LatencyNs = int64(core.Pick(r, 0, 50000, 2000000))
		c.StallPct = core.Pick(r, 0, 5, 30)
		c.StallNs = int64(core.Pick(r, 1000, 1000000, 200000000))
		c.InflightCap = core.Pick(r, 0, 1, 4096, 100000)
		c.ReadMax = core.Pick(r, 0, 1, 64, 5000)
	}
	return c
}

func genSize(r *core.Rand, window int) int {
	n := genSize0(r, window)
	if costCap > 0 && n > costCap {
		n = r.Range(0, costCap)
	}
	return n
}

// costCap bounds message sizes for scenarios whose network settings make every
// byte expensive to simulate (tiny segments); set by genBase.
var costCap int

func genSize0(r *core.Rand, window int) int {
	switch r.Intn(10) {
	case 0:
		return 0
	case 1:
		return r.Range(1, 20)
	case 2:
		return 16384 - 5 + r.Range(-2, 2)
	case 3:
		return window - 5 + r.Range(-2, 2)
	case 4:
		return r.Range(window, 4*window)
	case 5:
		return 16384*r.Range(1, 4) + r.Range(-6, 1)
	default:
		return r.LogUniform(1, 2*window)
	}
}

func genWindows(r *core.Rand) (sw, cw int32, static bool) {
	static = r.Chance(1, 2)
	sw = int32(core.Pick(r, 0, 65535, 65536, 100000, 1<<20))
	cw = int32(core.Pick(r, 0, 65535, 70000, 1<<20, 4<<20))
	return
}

// genTraffic builds bidi RPC scripts that move data in both directions with
// readers that are sometimes slow, so that windows fill up.
func genTraffic(r *core.Rand, tier string, s *Scenario, allowCancel bool) {
	n := r.Range(1, 6)
	maxMsgs := 4
	if tier == "thorough" {
		n = r.Range(1, 12)
		maxMsgs = 8
	}
	win := 65535
	// the windows that really apply to each direction (0 = default 65535)
	effWin := func(sw, cw int32) int {
		w := 65535
		if sw >= 65535 {
			w = int(sw)
		}
		c := 65535
		if cw >= 65535 {
			c = int(cw)
		}
		return min(w, c)
	}
	c2sWin := effWin(s.Server.StreamWindow, s.Server.ConnWindow)
	s2cWin := effWin(s.Client.StreamWindow, s.Client.ConnWindow)
	// boundary pattern: a message that leaves 0..6 bytes of window, followed
	// by empty / tiny messages, sent while the receiver is not reading
	boundary := func(w int) []int {
		out := []int{max(w-5-r.Intn(7), 0)}
		for k := r.Range(1, 3); k > 0; k-- {
			out = append(out, core.Pick(r, 0, 0, 1, 3, 7))
		}
		return out
	}
	for i := 0; i < n; i++ {
		rpc := RPC{ID: uint32(i + 1), StartNs: int64(r.Intn(3)) * int64(r.Intn(2000000))}
		nc := r.Range(0, maxMsgs)
		ns := r.Range(0, maxMsgs)
		var srv []Op
		style := r.Intn(4)
		slowC := r.Chance(1, 3)
		slowS := r.Chance(1, 3)
		nap := func() Op { return Op{Op: "sleep", Ns: int64(core.Pick(r, 1000, 1000000, 50000000, 2000000000))} }
		if r.Chance(1, 6) && (costCap == 0 || costCap > 60000) {
			style = 4
		}
		lateWrite := allowCancel && r.Chance(1, 8)
		if lateWrite {
			style = 5
		}
		switch style {
		case 5:
			// the handler's first header / message is written when its context
			// ends: the server's deadline timer or the client's RST_STREAM
			// closes the stream while the handler is on its way to the write
			if r.Chance(1, 2) {
				rpc.Client = append(rpc.Client, Op{Op: "send", N: r.Intn(100)})
				srv = append(srv, Op{Op: "recv"})
			}
			if r.Chance(1, 2) {
				rpc.DeadlineNs = int64(core.Pick(r, 1000, 50000, 1000000, 30000000))
				rpc.Client = append(rpc.Client, Op{Op: "recv_all"})
			} else {
				rpc.Client = append(rpc.Client, Op{Op: "sleep", Ns: int64(core.Pick(r, 1000, 50000, 1000000, 30000000))}, Op{Op: "cancel"}, Op{Op: "recv_all"})
			}
			srv = append(srv, Op{Op: "wait_ctx"})
			switch r.Intn(3) {
			case 0:
				srv = append(srv, Op{Op: "send_header", MD: []KV{{K: "x-late", V: "1"}}})
			case 1:
				srv = append(srv, Op{Op: "send", N: r.Intn(2000)})
			default:
				srv = append(srv, Op{Op: "send_header", MD: []KV{{K: "x-late", V: "1"}}}, Op{Op: "send", N: r.Intn(2000)})
			}
		case 4: // window-boundary pattern in one direction
			if r.Chance(1, 2) {
				for _, n := range boundary(c2sWin) {
					rpc.Client = append(rpc.Client, Op{Op: "send", N: n})
				}
				rpc.Client = append(rpc.Client, Op{Op: "close_send"}, Op{Op: "recv_all"})
				srv = append(srv, Op{Op: "sleep", Ns: int64(core.Pick(r, 1000, 1000000, 50000000))}, Op{Op: "recv_all"})
			} else {
				rpc.Client = append(rpc.Client, Op{Op: "close_send"}, Op{Op: "sleep", Ns: int64(core.Pick(r, 1000, 1000000, 50000000))}, Op{Op: "recv_all"})
				for _, n := range boundary(s2cWin) {
					srv = append(srv, Op{Op: "send", N: n})
				}
			}
		case 0: // client streams everything, then server answers
			for k := 0; k < nc; k++ {
				rpc.Client = append(rpc.Client, Op{Op: "send", N: genSize(r, win)})
			}
			rpc.Client = append(rpc.Client, Op{Op: "close_send"}, Op{Op: "recv_all"})
			if slowS {
				srv = append(srv, nap())
			}
			srv = append(srv, Op{Op: "recv_all"})
			for k := 0; k < ns; k++ {
				srv = append(srv, Op{Op: "send", N: genSize(r, win)})
			}
		case 1: // ping-pong
			for k := 0; k < nc; k++ {
				rpc.Client = append(rpc.Client, Op{Op: "send", N: genSize(r, win)}, Op{Op: "recv"})
				srv = append(srv, Op{Op: "recv"}, Op{Op: "send", N: genSize(r, win)})
				if slowC && r.Chance(1, 2) {
					rpc.Client = append(rpc.Client, nap())
				}
			}
			rpc.Client = append(rpc.Client, Op{Op: "close_send"}, Op{Op: "recv_all"})
		case 2: // server streams while the client is slow to read
			rpc.Client = append(rpc.Client, Op{Op: "send", N: genSize(r, win)}, Op{Op: "close_send"})
			srv = append(srv, Op{Op: "recv"})
			for k := 0; k < ns; k++ {
				srv = append(srv, Op{Op: "send", N: genSize(r, win)})
				if slowC {
					rpc.Client = append(rpc.Client, nap())
				}
				rpc.Client = append(rpc.Client, Op{Op: "recv"})
			}
			rpc.Client = append(rpc.Client, Op{Op: "recv_all"})
		default: // both directions at once, handler may return early with data queued
			for k := 0; k < nc; k++ {
				rpc.Client = append(rpc.Client, Op{Op: "send", N: genSize(r, win)})
			}
			for k := 0; k < ns; k++ {
				srv = append(srv, Op{Op: "send", N: genSize(r, win)})
			}
			if r.Chance(1, 2) {
				srv = append(srv, Op{Op: "recv_all"})
			}
			if r.Chance(1, 2) {
				rpc.Client = append(rpc.Client, Op{Op: "close_send"})
			}
			if slowC {
				rpc.Client = append(rpc.Client, nap())
			}
			rpc.Client = append(rpc.Client, Op{Op: "recv_all"})
		}
		if r.Chance(1, 5) {
			srv = append(srv, Op{Op: "return", Code: r.Range(1, 16), Msg: "scripted"})
		}
		if allowCancel && !lateWrite && r.Chance(1, 5) && len(rpc.Client) > 0 {
			at := r.Intn(len(rpc.Client) + 1)
			ops := append([]Op{}, rpc.Client[:at]...)
			ops = append(ops, Op{Op: "cancel"})
			rpc.Client = append(ops, rpc.Client[at:]...)
		}
		if allowCancel && !lateWrite && r.Chance(1, 6) {
			rpc.DeadlineNs = int64(core.Pick(r, 1000, 1000000, 30000000, 3000000000))
		}
		rpc.Server = [][]Op{srv}
		s.RPCs = append(s.RPCs, rpc)
	}
}

func genFaults(r *core.Rand, s *Scenario, kinds ...string) {
	n := r.Range(1, 2)
	for i := 0; i < n; i++ {
		k := core.Pick(r, kinds...)
		f := simnet.Fault{Kind: k, Conn: 0, Dir: core.Pick(r, "c2s", "s2c", "both")}
		switch k {
		case "cut_after":
			f.Dir = core.Pick(r, "c2s", "s2c")
			f.Bytes = r.LogUniform(1, 300000)
		case "reset", "half_close", "blackhole":
			f.AtNs = int64(r.LogUniform(1, 3000000000))
		case "stall":
			f.AtNs = int64(r.LogUniform(1, 100000000))
			f.DurNs = int64(r.LogUniform(1000, 5000000000))
		}
		s.Faults = append(s.Faults, f)
		if k == "blackhole" && r.Chance(1, 2) {
			s.Faults = append(s.Faults, simnet.Fault{Kind: "heal", Conn: 0, Dir: "both", AtNs: f.AtNs + int64(r.LogUniform(1000, 2000000000))})
		}
	}
}

func genBase(seed uint64, tier string) (*core.Rand, *Scenario) {
	r := core.NewRand(seed)
	s := &Scenario{Sched: genSched(r, seed), Net: genNet(r, seed)}
	costCap = 0
	if s.Net.SegMax > 0 && s.Net.SegMax < 100 {
		costCap = 20000
		if tier == "thorough" {
			costCap = 70000
		}
	}
	s.Server.StreamWindow, s.Server.ConnWindow, s.Server.Static = genWindows(r)
	s.Client.StreamWindow, s.Client.ConnWindow, s.Client.Static = genWindows(r)
	s.Server.WriteBuf = core.Pick(r, 0, 0, -1, 1, 4096, 100000)
	s.Client.WriteBuf = core.Pick(r, 0, 0, -1, 1, 4096, 100000)
	s.Server.ReadBuf = core.Pick(r, 0, 0, -1, 1, 4096)
	s.Client.ReadBuf = core.Pick(r, 0, 0, -1, 1, 4096)
	s.Client.SharedWrite = r.Chance(1, 4)
	s.Server.NumWorkers = uint32(core.Pick(r, 0, 0, 1, 3))
	return r, s
}

// C01: outbound DATA never exceeds the peer's windows (WE part: real peer).
func genC01(seed uint64, tier string) *Scenario {
	r, s := genBase(seed, tier)
	s.Oracles = []string{"windows"}
	genTraffic(r, tier, s, true)
	if r.Chance(1, 4) {
		genFaults(r, s, "stall", "cut_after", "reset")
	}
	return s
}

// C02: per-stream byte order, completeness, END_STREAM placement.
func genC02(seed uint64, tier string) *Scenario {
	r, s := genBase(seed, tier)
	s.Oracles = []string{"bytes", "streams", "recv_payload"}
	s.Client.DisableRetry = r.Chance(1, 2)
	genTraffic(r, tier, s, true)
	if r.Chance(1, 3) {
		genFaults(r, s, "stall", "cut_after", "reset", "half_close")
	}
	if r.Chance(1, 8) {
		s.Actions = append(s.Actions, Action{AtNs: int64(r.LogUniform(1, 2000000000)), Kind: core.Pick(r, "stop", "graceful_stop")})
	}
	return s
}

func init() {
	core.Register("C01we", genC01, Run)
	core.Register("C02we", genC02, Run)
}

func simnetFault(kind string, conn int) simnet.Fault { return simnet.Fault{Kind: kind, Conn: conn} }
