package we

// Extension "retry": configuration, observation and oracles for
//   C18 retries are bounded, policy-driven and replay the exact request
//   C19 retry backoff and retry throttling follow gRFC A6 arithmetic
//   C20 connection backoff stays within the documented bounds
//
// Observation points (no hooks in /repo):
//   - a client stats.Handler: one record per attempt (Begin with the
//     transparent flag, OutHeader, OutPayload, InHeader, InPayload, InTrailer,
//     End), all with simulated time and the global event sequence number;
//     TagRPC tags every attempt with its ordinal in the request metadata
//     ("x-rt-att") so that a handler invocation can be attributed to the
//     client attempt that caused it;
//   - a server stream interceptor that wraps the ServerStream: per handler
//     invocation the exact sequence of received messages (size + attributable
//     payload) and whether the handler saw the half-close (io.EOF);
//   - a wrapper around the simnet dialer: start and end time and result of
//     every dial;
//   - the channel's connectivity-state publications (READY = the connection
//     attempt succeeded).
//
// Split mode (rtCfg.Split): a client stream interceptor hands the world's
// script a stream whose receiving side is driven by a second goroutine: the
// script's goroutine is the one sender (SendMsg, CloseSend), the extra
// goroutine is the one receiver (optionally Header(), then RecvMsg until the
// final status) of the real stream, both running concurrently as the
// ClientStream documentation allows; the script's recv operations take the
// results from a queue. A failed attempt is then noticed, and the next attempt
// started, by the receiver while the sender is inside SendMsg/CloseSend.
// rtCfg.NapNs makes the client stats handler (user code that may block) sleep
// in one kind of callback, which stretches the time an operation spends
// between "done on the attempt" and "recorded for replay".

import (
	"context"
	"encoding/json"
	"errors"
	"fmt"
	"io"
	"net"
	"strconv"
	"strings"
	"time"

	"google.golang.org/grpc"
	"google.golang.org/grpc/backoff"
	"google.golang.org/grpc/connectivity"
	"google.golang.org/grpc/internal"
	"google.golang.org/grpc/internal/grpcsync"
	"google.golang.org/grpc/metadata"
	"google.golang.org/grpc/stats"

	"google.golang.org/grpc/internal/zzverif/simnet"
	"google.golang.org/grpc/internal/zzverif/tap"
)

// rtPolicy is the retry policy of the method config (gRFC A6).
type rtPolicy struct {
	MaxAttempts int     `json:"max_attempts"`
	InitialNs   int64   `json:"initial_ns"`
	MaxNs       int64   `json:"max_ns"`
	Mult        float64 `json:"mult"`
	Codes       []int   `json:"codes"`
}

// rtThrottle is the channel's retryThrottling config. Values are given in
// thousandths (the service config supports three decimal places).
type rtThrottle struct {
	MaxMilli   int64 `json:"max_milli"`
	RatioMilli int64 `json:"ratio_milli"`
}

// rtBackoff is the connection backoff configuration (grpc.ConnectParams).
type rtBackoff struct {
	BaseNs       int64   `json:"base_ns"`
	MaxNs        int64   `json:"max_ns"`
	Mult         float64 `json:"mult"`
	Jitter       float64 `json:"jitter"`
	MinConnectNs int64   `json:"min_connect_ns"`
}

type rtCfg struct {
	Policy          *rtPolicy   `json:"policy,omitempty"`
	Throttle        *rtThrottle `json:"throttle,omitempty"`
	MaxCallAttempts int         `json:"max_call_attempts,omitempty"` // WithMaxCallAttempts; 0: not set (documented default 5)
	BufBytes        int         `json:"buf_bytes,omitempty"`         // MaxRetryRPCBufferSize; 0: not set (documented default 256 KiB)
	Backoff         *rtBackoff  `json:"backoff,omitempty"`           // nil: the documented default config
	Split           []rtSplit   `json:"split,omitempty"`             // RPCs driven by a sender and a receiver goroutine
	NapNs           int64       `json:"nap_ns,omitempty"`            // the client stats handler sleeps this long ...
	NapOn           string      `json:"nap_on,omitempty"`            // ... in this callback: out_payload (default) | in_payload | in_header
	C18             bool        `json:"c18,omitempty"`
	C19             bool        `json:"c19,omitempty"`
	C20             bool        `json:"c20,omitempty"`
	Trace           bool        `json:"trace,omitempty"`
}

// rtSplit selects split mode for one RPC.
type rtSplit struct {
	ID uint32 `json:"rpc_id"`
	// Header: the receiver goroutine calls Header() before its RecvMsg loop
	Header bool `json:"header,omitempty"`
}

const (
	rtDefaultMaxCallAttempts = 5          // doc of grpc.WithMaxCallAttempts
	rtDefaultBufBytes        = 256 * 1024 // doc of grpc.MaxRetryRPCBufferSize
	rtAttKey                 = "x-rt-att"
)

// documented defaults: https://github.com/grpc/grpc/blob/master/doc/connection-backoff.md
var rtDefaultBackoff = rtBackoff{BaseNs: int64(time.Second), MaxNs: int64(120 * time.Second), Mult: 1.6, Jitter: 0.2, MinConnectNs: int64(20 * time.Second)}

func (c *rtCfg) validate() error {
	if p := c.Policy; p != nil {
		if p.MaxAttempts < 2 || p.InitialNs <= 0 || p.MaxNs <= 0 || p.Mult <= 0 || len(p.Codes) == 0 {
			return errors.New("retry policy outside the parser's limits")
		}
		for _, cd := range p.Codes {
			if cd < 1 || cd > 16 {
				return errors.New("bad retryable code")
			}
		}
	}
	if t := c.Throttle; t != nil {
		if t.MaxMilli <= 0 || t.MaxMilli > 1000000 || t.RatioMilli <= 0 {
			return errors.New("retry throttling outside the parser's limits")
		}
	}
	if b := c.Backoff; b != nil {
		if b.BaseNs < 0 || b.MaxNs < 0 || b.MinConnectNs < 0 {
			return errors.New("negative backoff durations")
		}
	}
	if c.NapNs < 0 || c.NapNs > int64(time.Second) {
		return errors.New("stats handler nap out of range")
	}
	switch c.NapOn {
	case "", "out_payload", "in_payload", "in_header":
	default:
		return errors.New("unknown stats handler nap point")
	}
	return nil
}

func (c *rtCfg) split(id uint32) *rtSplit {
	for i := range c.Split {
		if c.Split[i].ID == id {
			return &c.Split[i]
		}
	}
	return nil
}

func rtDurJSON(ns int64) string { return fmt.Sprintf("%d.%09ds", ns/1e9, ns%1e9) }

func rtMilli(m int64) string { return fmt.Sprintf("%d.%03d", m/1000, m%1000) }

var rtCodeNames = map[int]string{1: "CANCELLED", 2: "UNKNOWN", 3: "INVALID_ARGUMENT", 4: "DEADLINE_EXCEEDED", 5: "NOT_FOUND", 6: "ALREADY_EXISTS", 7: "PERMISSION_DENIED", 8: "RESOURCE_EXHAUSTED", 9: "FAILED_PRECONDITION", 10: "ABORTED", 11: "OUT_OF_RANGE", 12: "UNIMPLEMENTED", 13: "INTERNAL", 14: "UNAVAILABLE", 15: "DATA_LOSS", 16: "UNAUTHENTICATED"}

// serviceConfig renders the JSON service config for the channel.
func (c *rtCfg) serviceConfig() string {
	var parts []string
	if p := c.Policy; p != nil {
		var cs []string
		for _, cd := range p.Codes {
			cs = append(cs, strconv.Quote(rtCodeNames[cd]))
		}
		parts = append(parts, fmt.Sprintf(`"methodConfig":[{"name":[{"service":"sim.Svc"}],"retryPolicy":{"maxAttempts":%d,"initialBackoff":"%s","maxBackoff":"%s","backoffMultiplier":%s,"retryableStatusCodes":[%s]}}]`,
			p.MaxAttempts, rtDurJSON(p.InitialNs), rtDurJSON(p.MaxNs), strconv.FormatFloat(p.Mult, 'g', -1, 64), strings.Join(cs, ",")))
	}
	if t := c.Throttle; t != nil {
		parts = append(parts, fmt.Sprintf(`"retryThrottling":{"maxTokens":%s,"tokenRatio":%s}`, rtMilli(t.MaxMilli), rtMilli(t.RatioMilli)))
	}
	return "{" + strings.Join(parts, ",") + "}"
}

// ---- observation records ----

type rtAttempt struct {
	rpc         uint32
	idx         int
	transparent bool
	beginSeq    uint64
	beginAt     int64
	// application progress when the attempt began
	subCount   int // messages whose SendMsg had returned nil
	subBytes   int // their payload bytes
	startCount int
	outHeader  bool
	outPayload []int
	inHeader   bool
	inPayload  int
	inTrailer  bool
	// respBefore: when this attempt began, an earlier attempt of the RPC had
	// already received response headers or a message; respAtEnd: when this
	// attempt ended, it or an earlier attempt had
	respBefore  bool
	respAtEnd   bool
	endSubCount int
	endSubBytes int
	ended       bool
	endSeq      uint64
	endAt       int64
	endErr      error
	endTrailer  metadata.MD
}

type rtInv struct {
	rpc       uint32
	inv       int
	tag       int // client attempt ordinal from the request metadata, -1 if absent
	sizes     []int
	calls     int // RecvMsg calls started
	done      int // RecvMsg calls returned
	eof       bool
	recvErr   bool
	returned  bool
	startedAt int64
}

type rtDial struct {
	idx     int
	addr    string
	startAt int64
	endAt   int64
	ended   bool
	failed  bool
	conn    int // simnet pair index, -1 if none
	kind    string
}

type rtState struct {
	seq   uint64
	at    int64
	state connectivity.State
}

type rtExt struct {
	BaseExt
	cfg    rtCfg
	w      *run
	atts   map[uint32][]*rtAttempt
	eff    map[uint32][]*rtAttempt
	invs   map[uint32][]*rtInv
	dials  []*rtDial
	states []rtState
	unsub  func()
	splits map[uint32]*rtSplitStream
}

func init() {
	RegisterExt("retry", func(raw json.RawMessage) (Ext, error) {
		x := &rtExt{atts: map[uint32][]*rtAttempt{}, invs: map[uint32][]*rtInv{}, splits: map[uint32]*rtSplitStream{}}
		if err := json.Unmarshal(raw, &x.cfg); err != nil {
			return nil, err
		}
		if err := x.cfg.validate(); err != nil {
			return nil, err
		}
		return x, nil
	})
}

func (x *rtExt) ServerOpts(w *run) []grpc.ServerOption {
	x.w = w
	return []grpc.ServerOption{grpc.ChainStreamInterceptor(x.intercept)}
}

func (x *rtExt) DialOpts(w *run) []grpc.DialOption {
	x.w = w
	c := &x.cfg
	opts := []grpc.DialOption{grpc.WithStatsHandler(&rtStats{x: x})}
	if c.Policy != nil || c.Throttle != nil {
		opts = append(opts, grpc.WithDefaultServiceConfig(c.serviceConfig()))
	}
	if c.MaxCallAttempts != 0 {
		opts = append(opts, grpc.WithMaxCallAttempts(c.MaxCallAttempts))
	}
	if c.BufBytes > 0 {
		opts = append(opts, grpc.WithDefaultCallOptions(grpc.MaxRetryRPCBufferSize(c.BufBytes)))
	}
	if len(c.Split) > 0 {
		opts = append(opts, grpc.WithChainStreamInterceptor(x.splitIntercept))
	}
	if b := c.Backoff; b != nil {
		opts = append(opts, grpc.WithConnectParams(grpc.ConnectParams{
			Backoff:           backoff.Config{BaseDelay: time.Duration(b.BaseNs), Multiplier: b.Mult, Jitter: b.Jitter, MaxDelay: time.Duration(b.MaxNs)},
			MinConnectTimeout: time.Duration(b.MinConnectNs),
		}))
	}
	// replaces the world's dialer (the last option wins): same simnet dial,
	// plus the time at which the dial returned
	opts = append(opts, grpc.WithContextDialer(x.dial))
	return opts
}

func (x *rtExt) dial(ctx context.Context, addr string) (net.Conn, error) {
	e := x.w.e
	d := &rtDial{idx: len(x.dials), addr: addr, startAt: e.SimNs(), conn: -1}
	x.dials = append(x.dials, d)
	c, err := x.w.net.Dial(ctx, addr)
	d.endAt, d.ended, d.failed = e.SimNs(), true, err != nil
	if sc, ok := c.(*simnet.Conn); ok && err == nil {
		d.conn = sc.P.Index
		// grpc may close a connection from two goroutines (handshake failure);
		// simnet's Close is not idempotent across a yield: close it once
		return &rtConn{Conn: c}, nil
	}
	return c, err
}

type rtConn struct {
	net.Conn
	closed bool
}

func (c *rtConn) Close() error {
	if c.closed {
		return nil
	}
	c.closed = true
	return c.Conn.Close()
}

func (x *rtExt) Start(w *run) {
	sub := internal.SubscribeToConnectivityStateChanges.(func(*grpc.ClientConn, grpcsync.Subscriber) func())
	x.unsub = sub(w.Conn, x)
}

// OnMessage: grpcsync.Subscriber; every published channel state, in order.
func (x *rtExt) OnMessage(msg any) {
	s, ok := msg.(connectivity.State)
	if !ok {
		return
	}
	e := x.w.e
	x.states = append(x.states, rtState{seq: e.Next(), at: e.SimNs(), state: s})
	if x.cfg.Trace || x.cfg.C20 {
		e.Logf("channel state %v", s)
	}
}

// ---- client stats handler ----

type rtCtxKey struct{}

type rtStats struct{ x *rtExt }

func (h *rtStats) TagConn(ctx context.Context, _ *stats.ConnTagInfo) context.Context { return ctx }
func (h *rtStats) HandleConn(context.Context, stats.ConnStats)                       {}

func (h *rtStats) TagRPC(ctx context.Context, _ *stats.RPCTagInfo) context.Context {
	md, _ := metadata.FromOutgoingContext(ctx)
	v := md.Get("x-sim-rpc")
	if len(v) != 1 {
		return ctx
	}
	id64, _ := strconv.ParseUint(v[0], 10, 32)
	id := uint32(id64)
	st := h.x.w.rpcs[id]
	if st == nil {
		return ctx
	}
	a := &rtAttempt{rpc: id, idx: len(h.x.atts[id]), subCount: len(st.cSubmitted), startCount: len(st.cStarted)}
	for _, n := range st.cSubmitted {
		a.subBytes += n
	}
	h.x.atts[id] = append(h.x.atts[id], a)
	ctx = metadata.AppendToOutgoingContext(ctx, rtAttKey, strconv.Itoa(a.idx))
	return context.WithValue(ctx, rtCtxKey{}, a)
}

func (h *rtStats) HandleRPC(ctx context.Context, s stats.RPCStats) {
	a, _ := ctx.Value(rtCtxKey{}).(*rtAttempt)
	if a == nil {
		return
	}
	e := h.x.w.e
	switch v := s.(type) {
	case *stats.Begin:
		a.transparent = v.IsTransparentRetryAttempt
		a.beginSeq, a.beginAt = e.Next(), e.SimNs()
		for _, q := range h.x.atts[a.rpc][:a.idx] {
			if q.inHeader || q.inPayload > 0 {
				a.respBefore = true
			}
		}
		e.Logf("rpc %d attempt %d begin transparent=%v submitted=%d", a.rpc, a.idx, a.transparent, a.subCount)
	case *stats.OutHeader:
		a.outHeader = true
	case *stats.OutPayload:
		a.outPayload = append(a.outPayload, v.Length)
		h.nap("out_payload")
	case *stats.InHeader:
		a.inHeader = true
		h.nap("in_header")
	case *stats.InPayload:
		a.inPayload++
		h.nap("in_payload")
	case *stats.InTrailer:
		a.inTrailer = true
	case *stats.End:
		if a.ended {
			e.Violate("c18_attempt_ended_twice", "rpc %d attempt %d: two End events", a.rpc, a.idx)
			return
		}
		a.ended = true
		a.endSeq, a.endAt = e.Next(), e.SimNs()
		a.endErr = v.Error
		a.endTrailer = v.Trailer
		for _, q := range h.x.atts[a.rpc][:a.idx+1] {
			if q.inHeader || q.inPayload > 0 {
				a.respAtEnd = true
			}
		}
		if st := h.x.w.rpcs[a.rpc]; st != nil {
			a.endSubCount = len(st.cSubmitted)
			for _, n := range st.cSubmitted {
				a.endSubBytes += n
			}
		}
		e.Logf("rpc %d attempt %d end err=%v hdr=%v msgs=%d pushback=%q", a.rpc, a.idx, errStr(v.Error), a.inHeader, a.inPayload, v.Trailer.Get("grpc-retry-pushback-ms"))
	}
}

// nap: a stats handler is user code and may take (simulated) time.
func (h *rtStats) nap(at string) {
	c := &h.x.cfg
	if c.NapNs <= 0 {
		return
	}
	on := c.NapOn
	if on == "" {
		on = "out_payload"
	}
	if on == at {
		time.Sleep(time.Duration(c.NapNs))
	}
}

// ---- split mode: one sender goroutine, one receiver goroutine ----

type rtRecvItem struct {
	b   []byte
	err error
}

// rtSplitStream is what the world's script sees of a split-mode RPC. Sending
// goes straight to the real stream from the script's goroutine; receiving is
// done by receiver() on its own goroutine and handed over through q.
type rtSplitStream struct {
	grpc.ClientStream // the real stream
	x                 *rtExt
	id                uint32
	q                 []rtRecvItem
	sig               chan struct{} // capacity 1: q grew or the receiver ended
	done              bool          // receiver goroutine has returned
	lastErr           error
	hdr               metadata.MD
	hdrOK             bool
	hdrErr            error
	hdrTried          bool
	hdrCh             chan struct{} // closed once Header() was tried or the receiver ended
	// coverage
	sendCalls, switchedInSend, switchedInClose int
}

func (x *rtExt) splitIntercept(ctx context.Context, desc *grpc.StreamDesc, cc *grpc.ClientConn, method string, streamer grpc.Streamer, opts ...grpc.CallOption) (grpc.ClientStream, error) {
	cs, err := streamer(ctx, desc, cc, method, opts...)
	if err != nil {
		return nil, err
	}
	md, _ := metadata.FromOutgoingContext(ctx)
	v := md.Get("x-sim-rpc")
	if len(v) != 1 {
		return cs, nil
	}
	id64, _ := strconv.ParseUint(v[0], 10, 32)
	sp := x.cfg.split(uint32(id64))
	if sp == nil || x.w.rpcs[uint32(id64)] == nil {
		return cs, nil
	}
	s := &rtSplitStream{ClientStream: cs, x: x, id: uint32(id64), sig: make(chan struct{}, 1), hdrCh: make(chan struct{})}
	x.splits[s.id] = s
	go s.receiver(sp.Header)
	return s, nil
}

func (s *rtSplitStream) wake() {
	select {
	case s.sig <- struct{}{}:
	default:
	}
}

func (s *rtSplitStream) header() {
	h, err := s.ClientStream.Header()
	if err == nil {
		s.hdr, s.hdrOK = h, true
	}
	s.hdrErr = err
	if !s.hdrTried {
		s.hdrTried = true
		close(s.hdrCh)
	}
}

// receiver is the RPC's one receiving goroutine. It ends with the stream: the
// world cancels the RPC's context when its script is over at the latest.
func (s *rtSplitStream) receiver(header bool) {
	e := s.x.w.e
	if header {
		s.header()
		e.Logf("rpc %d receiver header -> %v", s.id, errStr(s.hdrErr))
	}
	for n := 0; ; n++ {
		m := &Msg{}
		err := s.ClientStream.RecvMsg(m)
		if err == nil && !s.hdrOK {
			s.header() // a message has arrived, so have the headers: returns at once
		}
		s.q = append(s.q, rtRecvItem{m.B, err})
		if err != nil {
			e.Logf("rpc %d receiver ends after %d messages -> %v", s.id, n, errStr(err))
			s.done = true
			if !s.hdrTried {
				s.hdrTried = true
				close(s.hdrCh)
			}
			s.wake()
			return
		}
		s.wake()
	}
}

func (s *rtSplitStream) RecvMsg(m any) error {
	for len(s.q) == 0 {
		if s.done {
			return s.lastErr
		}
		<-s.sig
	}
	it := s.q[0]
	s.q = s.q[1:]
	if it.err != nil {
		s.lastErr = it.err
		return it.err
	}
	m.(*Msg).B = it.b
	return nil
}

func (s *rtSplitStream) Header() (metadata.MD, error) {
	if !s.hdrTried {
		<-s.hdrCh
	}
	if s.hdrOK {
		return s.hdr, nil
	}
	if s.done {
		return s.ClientStream.Header() // nobody else is using the stream any more
	}
	return nil, s.hdrErr
}

// Trailer is valid only after RecvMsg has returned an error; when the script
// asks for it because a SendMsg failed for good (which finishes the stream),
// let the receiver see the end first instead of using the stream next to it.
func (s *rtSplitStream) Trailer() metadata.MD {
	for !s.done {
		<-s.sig
	}
	return s.ClientStream.Trailer()
}

func (s *rtSplitStream) SendMsg(m any) error {
	n := len(s.x.atts[s.id])
	s.sendCalls++
	err := s.ClientStream.SendMsg(m)
	if err == nil && len(s.x.atts[s.id]) > n {
		s.switchedInSend++
	}
	return err
}

func (s *rtSplitStream) CloseSend() error {
	n := len(s.x.atts[s.id])
	err := s.ClientStream.CloseSend()
	if err == nil && len(s.x.atts[s.id]) > n {
		s.switchedInClose++
	}
	return err
}

// ---- server interceptor ----

func (x *rtExt) intercept(srv any, ss grpc.ServerStream, _ *grpc.StreamServerInfo, handler grpc.StreamHandler) error {
	md, _ := metadata.FromIncomingContext(ss.Context())
	v := md.Get("x-sim-rpc")
	if len(v) != 1 {
		return handler(srv, ss)
	}
	id64, _ := strconv.ParseUint(v[0], 10, 32)
	st := x.w.rpcs[uint32(id64)]
	if st == nil {
		return handler(srv, ss)
	}
	// no scheduling point between here and the handler's own
	// "att := st.invocations; st.invocations++"
	iv := &rtInv{rpc: st.r.ID, inv: st.invocations, tag: -1, startedAt: x.w.e.SimNs()}
	if t := md.Get(rtAttKey); len(t) == 1 {
		if n, err := strconv.Atoi(t[0]); err == nil {
			iv.tag = n
		}
	} else if len(t) > 1 {
		x.w.e.Violate("c18_attempt_tag_duplicated", "rpc %d invocation %d: %d attempt tags in the request metadata", iv.rpc, iv.inv, len(t))
	}
	x.invs[iv.rpc] = append(x.invs[iv.rpc], iv)
	err := handler(srv, &rtSrvStream{ServerStream: ss, x: x, iv: iv, st: st})
	iv.returned = true
	return err
}

type rtSrvStream struct {
	grpc.ServerStream
	x  *rtExt
	iv *rtInv
	st *rpcState
}

func rtScriptSends(r *RPC) (sizes []int, beforeClose int) {
	beforeClose = -1
	for _, op := range r.Client {
		switch op.Op {
		case "send":
			sizes = append(sizes, op.N)
		case "close_send":
			if beforeClose < 0 {
				beforeClose = len(sizes)
			}
		}
	}
	return
}

func (s *rtSrvStream) RecvMsg(m any) error {
	iv, e := s.iv, s.x.w.e
	iv.calls++
	err := s.ServerStream.RecvMsg(m)
	iv.done++
	switch {
	case err == nil:
		idx := len(iv.sizes)
		b := m.(*Msg).B
		iv.sizes = append(iv.sizes, len(b))
		if s.x.cfg.C18 {
			// message idx of any attempt is the application's idx-th SendMsg
			sent := s.st.cStarted
			switch {
			case idx >= len(sent):
				e.Violate("c18_replay_sequence", "rpc %d invocation %d (attempt %d): handler received message %d but the application has only sent %d", iv.rpc, iv.inv, iv.tag, idx, len(sent))
			case sent[idx] != len(b):
				e.Violate("c18_replay_sequence", "rpc %d invocation %d (attempt %d): message %d has %d bytes, the application's message %d had %d", iv.rpc, iv.inv, iv.tag, idx, len(b), idx, sent[idx])
			default:
				if off := tap.CheckPat(b, iv.rpc, 'c', idx, 0); off >= 0 {
					e.Violate("c18_replay_sequence", "rpc %d invocation %d (attempt %d): message %d differs from the application's message %d at offset %d", iv.rpc, iv.inv, iv.tag, idx, idx, off)
				}
			}
		}
	case err == io.EOF:
		iv.eof = true
		if s.x.cfg.C18 {
			// END_STREAM implies CloseSend was called, which the scripts do after
			// their last SendMsg: every message whose SendMsg returned nil must
			// have preceded it, and nothing the application did not send
			_, k := rtScriptSends(s.st.r)
			n := len(iv.sizes)
			if k < 0 {
				e.Violate("c18_half_close_not_sent_by_app", "rpc %d invocation %d (attempt %d): handler saw the half-close after %d messages but the application never calls CloseSend", iv.rpc, iv.inv, iv.tag, n)
			} else if n < len(s.st.cSubmitted) || n > len(s.st.cStarted) {
				e.Violate("c18_half_close_misplaced", "rpc %d invocation %d (attempt %d): handler saw the half-close after %d messages; the application had sent %d messages successfully (%d SendMsg calls) before CloseSend", iv.rpc, iv.inv, iv.tag, n, len(s.st.cSubmitted), len(s.st.cStarted))
			}
		}
	default:
		iv.recvErr = true
	}
	return err
}

func (x *rtExt) AtQuiescence(w *run) {
	if x.unsub != nil {
		x.unsub()
	}
	x.buildEff()
	x.probes()
	if x.cfg.C18 {
		x.checkC18()
	}
	if x.cfg.C18 || x.cfg.C19 {
		x.checkC19()
	}
	if x.cfg.C20 {
		x.checkC20()
	}
}
