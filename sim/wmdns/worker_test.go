// Package zzverifwmdns is the DNS half of the "wm" world: the real dns resolver
// (internal/resolver/dns) driven through its resolver.Builder against a
// scripted NetResolver and a recording ClientConn, under virtual time.
//
// It is mounted below internal/resolver/dns because the resolver's test seams
// (internal/resolver/dns/internal) may only be imported from that subtree.
package zzverifwmdns

import (
	"testing"

	"google.golang.org/grpc/internal/zzverif/core"
)

func TestSimWorker(t *testing.T) {
	core.GCBetween = false
	core.WorkerMain(t)
}
