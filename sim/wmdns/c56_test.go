package zzverifwmdns

// C56: DNS resolution is paced (minimum interval after success, exponential
// backoff after failure, nothing after Close); target parsing rider.

import (
	"context"
	"errors"
	"fmt"
	"io"
	"math"
	"net"
	"net/url"
	"sort"
	"strings"
	"sync"
	"testing/synctest"
	"time"

	"google.golang.org/grpc/grpclog"
	"google.golang.org/grpc/internal/resolver/dns"
	dnsinternal "google.golang.org/grpc/internal/resolver/dns/internal"
	"google.golang.org/grpc/internal/zzverif/core"
	"google.golang.org/grpc/resolver"
	"google.golang.org/grpc/serviceconfig"
)

// cur is the run in progress. The resolver's seams are process globals; they
// are pointed once at functions that dispatch to cur, so that consecutive runs
// in one process are independent.
var cur *c56Run

func init() {
	grpclog.SetLoggerV2(grpclog.NewLoggerV2(io.Discard, io.Discard, io.Discard))
	dnsinternal.NewNetResolver = func(authority string) (dnsinternal.NetResolver, error) {
		if cur == nil {
			return nil, errors.New("wmdns: no run in progress")
		}
		return cur.newNetResolver(authority)
	}
	dnsinternal.TimeAfterFunc = func(d time.Duration) <-chan time.Time {
		if cur != nil {
			cur.onTimer(d)
		}
		return time.After(d)
	}
	core.Register("C56", genC56, runC56)
}

// Constants of the documented default backoff (backoff.DefaultConfig /
// connection-backoff.md), not read from the implementation.
const (
	c56Base   = float64(time.Second)
	c56Mult   = 1.6
	c56Jitter = 0.2
	c56Max    = float64(120 * time.Second)
	c56Slack  = 1000 // ns of tolerance for float->duration truncation
)

// ---- scenario ----

type c56Lookup struct {
	Kind      string   `json:"kind"` // ok | empty | notfound | temp | timeout | other | badip | hang
	DelayNs   int64    `json:"delay_ns,omitempty"`
	Addrs     []string `json:"addrs,omitempty"`
	CCFail    bool     `json:"cc_fail,omitempty"`     // ClientConn.UpdateState returns an error
	CCDelayNs int64    `json:"cc_delay_ns,omitempty"` // the ClientConn callback takes this long
	TXT       string   `json:"txt,omitempty"`         // "" (no record) | err | noattr | empty
	SRV       string   `json:"srv,omitempty"`         // "" (no record) | temp | one
}

type c56Op struct {
	Kind string `json:"kind"`         // sleep | rn | burst | wait | sleep_timer | close
	Ns   int64  `json:"ns,omitempty"` // sleep: duration; wait: give up after
	N    int    `json:"n,omitempty"`  // burst: calls; wait: event count
	Ev   string `json:"ev,omitempty"` // wait: lookup | report | ok | timer
}

type c56Target struct {
	Str     string `json:"str"`
	WantErr bool   `json:"want_err"`
	IsIP    bool   `json:"is_ip"`
	Host    string `json:"host"` // expected host handed to the net resolver (names)
	Port    string `json:"port"` // expected port
	Addr    string `json:"addr"` // expected emitted address (IP literals)
}

type c56Scenario struct {
	Sched              core.Sched  `json:"sched"`
	Host               string      `json:"host"`
	Port               string      `json:"port"` // "" = none in the target
	MinIntervalNs      int64       `json:"min_interval_ns"`
	ResolvingTimeoutNs int64       `json:"resolving_timeout_ns"`
	TXT                bool        `json:"txt"`
	SRV                bool        `json:"srv"`
	Lookups            []c56Lookup `json:"lookups"` // outcome of the i-th resolution pass
	Default            c56Lookup   `json:"default"` // outcome of every later pass
	Callers            [][]c56Op   `json:"callers"`
	TailNs             int64       `json:"tail_ns"`
	Riders             []c56Target `json:"riders"`
}

func (s *c56Scenario) SchedP() *core.Sched { return &s.Sched }

func (s *c56Scenario) Shape() string {
	var sb strings.Builder
	for _, l := range s.Lookups {
		c := l.Kind[:1]
		if l.CCFail {
			c = "C"
		}
		sb.WriteString(c)
	}
	nops, closes := 0, 0
	for _, c := range s.Callers {
		nops += len(c)
		for _, op := range c {
			if op.Kind == "close" {
				closes++
			}
		}
	}
	return fmt.Sprintf("mi=%d rt=%d L=%s+%s c=%d ops=%d close=%d txt=%v srv=%v", s.MinIntervalNs, s.ResolvingTimeoutNs, sb.String(), s.Default.Kind[:1], len(s.Callers), nops, closes, s.TXT, s.SRV)
}

func c56ValidLookup(l *c56Lookup) error {
	switch l.Kind {
	case "ok", "empty", "notfound", "temp", "timeout", "other", "badip", "hang":
	default:
		return fmt.Errorf("bad lookup kind %q", l.Kind)
	}
	if l.DelayNs < 0 || l.DelayNs > int64(1000*time.Second) || l.CCDelayNs < 0 || l.CCDelayNs > int64(1000*time.Second) {
		return fmt.Errorf("bad delay")
	}
	switch l.TXT {
	case "", "err", "noattr", "empty":
	default:
		return fmt.Errorf("bad txt")
	}
	switch l.SRV {
	case "", "temp", "one":
	default:
		return fmt.Errorf("bad srv")
	}
	return nil
}

func (s *c56Scenario) Validate() error {
	if s.Host == "" || strings.ContainsAny(s.Host, ":[]/") || net.ParseIP(s.Host) != nil {
		return fmt.Errorf("host must be a DNS name")
	}
	if s.MinIntervalNs < 0 || s.ResolvingTimeoutNs < 1 || s.TailNs < 0 || s.TailNs > int64(100000*time.Second) {
		return fmt.Errorf("bad timing")
	}
	if len(s.Lookups) > 64 || len(s.Callers) > 8 {
		return fmt.Errorf("too large")
	}
	for i := range s.Lookups {
		if err := c56ValidLookup(&s.Lookups[i]); err != nil {
			return err
		}
	}
	if err := c56ValidLookup(&s.Default); err != nil {
		return err
	}
	if s.Default.Kind == "hang" && s.ResolvingTimeoutNs < int64(time.Millisecond) {
		return fmt.Errorf("default hang with tiny timeout would spin the clock")
	}
	for _, c := range s.Callers {
		if len(c) > 64 {
			return fmt.Errorf("too many ops")
		}
		for _, op := range c {
			switch op.Kind {
			case "sleep", "rn", "sleep_timer", "close":
			case "burst":
				if op.N < 0 || op.N > 50 {
					return fmt.Errorf("bad burst")
				}
			case "wait":
				switch op.Ev {
				case "lookup", "report", "ok", "timer":
				default:
					return fmt.Errorf("bad wait event")
				}
				if op.N < 0 || op.N > 1000 {
					return fmt.Errorf("bad wait count")
				}
			default:
				return fmt.Errorf("bad op %q", op.Kind)
			}
			if op.Ns < 0 || op.Ns > int64(100000*time.Second) {
				return fmt.Errorf("bad duration")
			}
		}
	}
	return nil
}

// ---- generator ----

func genSched(r *core.Rand, seed uint64) core.Sched {
	return core.Sched{SchedSeed: core.Mix(seed, 11), AuxSeed: core.Mix(seed, 12), YieldThr: core.Pick(r, uint32(0), 200, 700, 3300, 13000, 30000)}
}

var c56V4 = []string{"10.0.0.1", "192.0.2.55", "127.0.0.1", "255.255.255.255"}
var c56V6 = []string{"::1", "2001:db8::1", "fe80::1234", "::ffff:10.1.2.3", "2001:db8:0:0:0:0:0:2"}

func c56GenLookup(r *core.Rand, profile int, s *c56Scenario) c56Lookup {
	var l c56Lookup
	failPct := []int{15, 50, 85, 100}[profile]
	if r.Intn(100) >= failPct {
		l.Kind = "ok"
		for n := r.Range(1, 3); n > 0; n-- {
			if r.Chance(1, 3) {
				l.Addrs = append(l.Addrs, core.Pick(r, c56V6...))
			} else {
				l.Addrs = append(l.Addrs, core.Pick(r, c56V4...))
			}
		}
		switch r.Intn(12) {
		case 0:
			l.Kind, l.Addrs = "empty", nil
		case 1:
			l.Kind, l.Addrs = "notfound", nil
		}
	} else {
		l.Kind = core.Pick(r, "temp", "temp", "temp", "timeout", "other", "badip", "hang", "ok")
		if l.Kind == "ok" {
			l.Addrs = []string{core.Pick(r, c56V4...)}
			l.CCFail = true
		}
		if l.Kind == "badip" {
			l.Addrs = []string{"10.0.0.1", core.Pick(r, "not-an-ip", "300.1.1.1", "", "1.2.3.4:80")}
		}
	}
	if r.Chance(1, 3) {
		l.DelayNs = int64(core.Pick(r, 1, 1000, 1000000, 20000000, 1000000000, 29000000000, 31000000000))
	}
	if r.Chance(1, 8) {
		l.CCDelayNs = int64(core.Pick(r, 1, 1000000, 500000000, 3000000000))
	}
	if s.TXT {
		l.TXT = core.Pick(r, "", "", "err", "noattr", "empty")
	}
	if s.SRV {
		l.SRV = core.Pick(r, "", "", "temp", "one")
	}
	return l
}

func genC56(seed uint64, tier string) *c56Scenario {
	r := core.NewRand(seed)
	s := &c56Scenario{Sched: genSched(r, seed)}
	s.Host = core.Pick(r, "svc.example.com", "db.internal", "a.b.c.d.example.", "backend-7", "xn--bcher-kva.example")
	s.Port = core.Pick(r, "", "", "80", "8080", "65000")
	sec := int64(time.Second)
	s.MinIntervalNs = core.Pick(r, 30*sec, 30*sec, 30*sec, 0, 1, 1000000, sec, 5*sec, 100*sec)
	s.ResolvingTimeoutNs = core.Pick(r, 30*sec, 30*sec, 30*sec, 1000000, sec, 10*sec)
	s.TXT = r.Chance(1, 3)
	s.SRV = r.Chance(1, 5)
	profile := core.Pick(r, 0, 0, 1, 1, 2, 3)
	nl := r.Range(0, 8)
	if tier == "thorough" {
		nl = r.Range(0, 20)
	}
	for i := 0; i < nl; i++ {
		s.Lookups = append(s.Lookups, c56GenLookup(r, profile, s))
	}
	s.Default = c56GenLookup(r, profile, s)
	if s.Default.Kind == "hang" && s.ResolvingTimeoutNs < sec {
		s.Default.Kind = "temp"
	}
	mi := s.MinIntervalNs
	dur := func() int64 {
		switch r.Intn(10) {
		case 0:
			return 0
		case 1:
			return int64(r.Intn(1000))
		case 2:
			return int64(r.Intn(1000)) * 1000000
		case 3:
			return core.Pick(r, sec*8/10, sec, sec*128/100, sec*16/10, sec*192/100, 2*sec, sec*256/100, 3*sec)
		case 4:
			if v := mi + int64(core.Pick(r, -1, 0, 0, 1)); v >= 0 {
				return v
			}
			return mi
		case 5:
			return core.Pick(r, 29*sec, 30*sec, 31*sec, 60*sec, 120*sec, 144*sec)
		default:
			return int64(r.Intn(40000)) * 1000000
		}
	}
	nc := r.Range(1, 4)
	maxOps := 6
	if tier == "thorough" {
		maxOps = 14
	}
	closer := -1
	if r.Chance(3, 5) {
		closer = r.Intn(nc)
	}
	for ci := 0; ci < nc; ci++ {
		var ops []c56Op
		end := c56Op{Kind: "rn"}
		if ci == closer {
			end = c56Op{Kind: "close"}
		}
		wt := int64(core.Pick(r, 10, 100, 400)) * sec
		switch r.Intn(6) {
		case 0: // something exactly one minimum interval after the k-th success
			d := mi
			if d < 0 {
				d = 0
			}
			ops = append(ops, c56Op{Kind: "wait", Ev: "ok", N: r.Range(1, 3), Ns: wt}, c56Op{Kind: "sleep", Ns: d}, end)
		case 1: // something exactly when the watcher's k-th timer fires
			ops = append(ops, c56Op{Kind: "wait", Ev: "timer", N: r.Range(1, 5), Ns: wt}, c56Op{Kind: "sleep_timer"}, end)
		case 2: // something while the k-th lookup is in flight
			ops = append(ops, c56Op{Kind: "wait", Ev: "lookup", N: r.Range(1, 5), Ns: wt}, c56Op{Kind: "sleep", Ns: int64(core.Pick(r, 0, 0, 1, 1000, 1000000))}, end)
		case 3: // request storm
			for k := r.Range(1, maxOps); k > 0; k-- {
				ops = append(ops, c56Op{Kind: "burst", N: r.Range(1, 5)}, c56Op{Kind: "sleep", Ns: dur()})
			}
			if ci == closer {
				ops = append(ops, end)
			}
		default:
			for k := r.Range(1, maxOps); k > 0; k-- {
				switch r.Intn(6) {
				case 0, 1:
					ops = append(ops, c56Op{Kind: "rn"})
				case 2:
					ops = append(ops, c56Op{Kind: "burst", N: r.Range(2, 6)})
				case 3:
					ops = append(ops, c56Op{Kind: "wait", Ev: core.Pick(r, "lookup", "report", "ok", "timer"), N: r.Range(1, 6), Ns: wt})
				default:
					ops = append(ops, c56Op{Kind: "sleep", Ns: dur()})
				}
			}
			if ci == closer {
				if r.Chance(1, 2) {
					ops = append(ops, c56Op{Kind: "sleep", Ns: dur()})
				}
				ops = append(ops, end)
			}
		}
		if r.Chance(1, 3) {
			ops = append([]c56Op{{Kind: "sleep", Ns: dur()}}, ops...)
		}
		s.Callers = append(s.Callers, ops)
	}
	s.TailNs = core.Pick(r, 0, sec, 40*sec, 200*sec)
	if profile == 3 && r.Chance(1, 2) {
		s.TailNs = int64(core.Pick(r, 200, 700, 2000)) * sec // long failure chains: the backoff reaches its cap
	}
	for n := r.Range(0, 3); n > 0; n-- {
		s.Riders = append(s.Riders, c56GenTarget(r))
	}
	return s
}

// c56GenTarget builds a target string from a grammar; what it must parse to
// is known by construction.
func c56GenTarget(r *core.Rand) c56Target {
	name := core.Pick(r, "svc.example.com", "localhost", "a-b.c", "xn--d1acufc.xn--p1ai", "foo.bar.", "x", "host_1")
	v4 := core.Pick(r, "1.2.3.4", "127.0.0.1", "255.255.255.255", "0.0.0.0", "10.255.0.9")
	v6 := core.Pick(r, "::1", "2001:db8::1", "::", "fe80::1", "::ffff:1.2.3.4", "2001:db8:1:2:3:4:5:6", "1::")
	port := core.Pick(r, "80", "443", "65535", "0", "8080", "1")
	switch r.Intn(12) {
	case 0:
		return c56Target{Str: name, Host: name, Port: "443"}
	case 1:
		return c56Target{Str: name + ":" + port, Host: name, Port: port}
	case 2:
		return c56Target{Str: v4, IsIP: true, Addr: v4 + ":443"}
	case 3:
		return c56Target{Str: v4 + ":" + port, IsIP: true, Addr: v4 + ":" + port}
	case 4:
		return c56Target{Str: v6, IsIP: true, Addr: "[" + v6 + "]:443"}
	case 5:
		return c56Target{Str: "[" + v6 + "]", IsIP: true, Addr: "[" + v6 + "]:443"}
	case 6:
		return c56Target{Str: "[" + v6 + "]:" + port, IsIP: true, Addr: "[" + v6 + "]:" + port}
	case 7:
		return c56Target{Str: name + ":", WantErr: true}
	case 8:
		return c56Target{Str: v4 + ":", WantErr: true}
	case 9:
		return c56Target{Str: "[" + v6 + "]:", WantErr: true}
	case 10:
		// a bare IPv6 address followed by a colon is not an address any more
		// (v6 values ending in "::" would still be addresses: skip those)
		if strings.HasSuffix(v6, ":") {
			return c56Target{Str: v6, IsIP: true, Addr: "[" + v6 + "]:443"}
		}
		return c56Target{Str: v6 + ":", WantErr: true}
	default:
		return c56Target{Str: name + ":" + port, Host: name, Port: port}
	}
}

// ---- run state ----

type c56Pass struct {
	idx        int
	startSeq   uint64
	startT     int64
	lookEndT   int64
	repOutSeq  uint64
	repOutT    int64
	done, ok   bool
	nfail      int // consecutive failures up to and including this pass (0 if ok)
	hostCalled bool
	hostOK     bool
	hostRes    []string
	inFlight   int
}

type c56Call struct {
	a, b uint64
	used bool
}

type c56Waiter struct {
	n  int
	ch chan struct{}
}

type c56Run struct {
	e       *core.Env
	s       *c56Scenario
	port    string
	phase   int
	passes  []*c56Pass
	calls   []*c56Call
	res     resolver.Resolver
	counts  map[string]int
	waiters map[string][]*c56Waiter

	closeCalled, closeReturned bool
	closeCallSeq, closeRetSeq  uint64
	closeCallT                 int64

	lastTimer   time.Duration
	lastTimerAt int64
	fails       int // current run of consecutive failures
	postOK      int // passes that followed a successful pass
	abort       bool // stop feeding the resolver: every further lookup hangs until its context ends

	rider *c56RiderState
}

func (w *c56Run) bump(ev string) {
	w.counts[ev]++
	n := w.counts[ev]
	ws := w.waiters[ev]
	keep := ws[:0]
	for _, x := range ws {
		if x.n <= n {
			close(x.ch)
		} else {
			keep = append(keep, x)
		}
	}
	w.waiters[ev] = keep
}

func (w *c56Run) waitFor(ev string, n int, maxNs int64) {
	if w.counts[ev] >= n {
		return
	}
	x := &c56Waiter{n: n, ch: make(chan struct{})}
	w.waiters[ev] = append(w.waiters[ev], x)
	t := time.NewTimer(time.Duration(maxNs))
	select {
	case <-x.ch:
		t.Stop()
	case <-t.C:
	}
}

func (w *c56Run) onTimer(d time.Duration) {
	if w.phase != 0 {
		return
	}
	w.lastTimer = d
	w.lastTimerAt = w.e.SimNs() + int64(d)
	w.e.Logf("watcher timer %d", int64(d))
	w.bump("timer")
}

func (w *c56Run) spec(p *c56Pass) *c56Lookup {
	if p.idx < len(w.s.Lookups) {
		return &w.s.Lookups[p.idx]
	}
	return &w.s.Default
}

func c56LB(n int) float64 { // earliest legal retry after the n-th consecutive failure
	return (1 - c56Jitter) * math.Min(c56Base*math.Pow(c56Mult, float64(n-1)), c56Max)
}

func c56UB(n int) float64 { // latest legal retry (tolerates an implementation that counts the first retry as index 1)
	return (1 + c56Jitter) * math.Min(c56Base*math.Pow(c56Mult, float64(n)), c56Max)
}

// begin is called at the start of every NetResolver call.
func (w *c56Run) begin(kind, name string) *c56Pass {
	e := w.e
	seq := e.Next()
	t := e.SimNs()
	if w.closeReturned {
		e.Violate("lookup_after_close", "%s lookup of %q started after Close had returned", kind, name)
	}
	var p *c56Pass
	if n := len(w.passes); n > 0 && !w.passes[n-1].done {
		p = w.passes[n-1]
	} else {
		p = &c56Pass{idx: len(w.passes), startSeq: seq, startT: t}
		if n > 0 {
			prev := w.passes[n-1]
			if prev.ok {
				if d := t - prev.lookEndT; d < w.s.MinIntervalNs {
					e.Violate("min_interval", "resolution pass %d started %d ns after the successful pass %d finished; minimum resolution interval is %d ns", p.idx, d, prev.idx, w.s.MinIntervalNs)
				}
				e.Probe("relookup_after_success")
				// every pass after a success needs a ResolveNow call of its own
				// (checked exactly in final()); counted here as well so that a
				// resolver that re-resolves on its own cannot spin the run
				w.postOK++
				if w.postOK > len(w.calls) && !w.abort {
					e.Violate("relookup_without_request", "pass %d is re-resolution #%d after a success but only %d ResolveNow calls were made so far", p.idx, w.postOK, len(w.calls))
					w.abort = true
				}
				if w.s.MinIntervalNs > 0 && t-prev.repOutT == w.s.MinIntervalNs {
					e.Probe("relookup_exactly_at_min_interval")
				}
			} else {
				nf := prev.nfail
				if d := float64(t - prev.lookEndT); d < c56LB(nf)-c56Slack {
					e.Violate("backoff_too_early", "pass %d started %.0f ns after failure #%d in a row (pass %d); exponential backoff allows no retry before %.0f ns", p.idx, d, nf, prev.idx, c56LB(nf))
				}
				if d := float64(t - prev.repOutT); d > c56UB(nf)+c56Slack {
					e.Violate("backoff_too_late", "pass %d started %.0f ns after failure #%d in a row was reported (pass %d); backoff must not exceed %.0f ns", p.idx, d, nf, prev.idx, c56UB(nf))
				}
				e.Probe("retry_after_failure")
				if nf >= 3 {
					e.Probe("retry_after_3_or_more_failures")
				}
				if c56Base*math.Pow(c56Mult, float64(nf-1)) >= c56Max {
					e.Probe("retry_with_capped_backoff")
				}
			}
		}
		w.passes = append(w.passes, p)
		if len(w.passes) > 3000 && !w.abort {
			e.Probe("lookup_storm_valve")
			w.abort = true
		}
		w.bump("lookup")
	}
	if w.closeCalled && !w.closeReturned {
		e.Probe("lookup_started_while_close_in_progress")
	}
	p.inFlight++
	e.Logf("lookup %s %q pass=%d", kind, name, p.idx)
	return p
}

func (w *c56Run) end(p *c56Pass, kind string, err error) {
	p.inFlight--
	p.lookEndT = w.e.SimNs()
	w.e.Logf("lookup %s pass=%d done err=%v", kind, p.idx, err != nil)
}

// wait models the time a lookup takes; a hanging lookup ends with its context.
func (w *c56Run) wait(ctx context.Context, sp *c56Lookup, hang bool) error {
	if w.abort {
		<-ctx.Done()
		return ctx.Err()
	}
	if hang {
		<-ctx.Done()
		if w.closeCalled {
			w.e.Probe("lookup_cancelled_by_close")
		} else {
			w.e.Probe("lookup_hung_until_resolving_timeout")
		}
		return ctx.Err()
	}
	if sp.DelayNs > 0 {
		t := time.NewTimer(time.Duration(sp.DelayNs))
		select {
		case <-t.C:
		case <-ctx.Done():
			t.Stop()
			if w.closeCalled {
				w.e.Probe("lookup_cancelled_by_close")
			} else {
				w.e.Probe("lookup_hung_until_resolving_timeout")
			}
			return ctx.Err()
		}
	}
	return nil
}

const c56LBHost = "lb.zzsim.example."

type c56Net struct{ w *c56Run }

func (n *c56Net) LookupHost(ctx context.Context, host string) (addrs []string, err error) {
	w := n.w
	p := w.begin("A", host)
	defer func() { w.end(p, "A", err) }()
	if host == c56LBHost {
		return []string{"10.9.9.9"}, nil
	}
	if host != w.s.Host {
		w.e.Violate("target_parse", "resolver looked up host %q for target host %q", host, w.s.Host)
	}
	sp := w.spec(p)
	p.hostCalled = true
	if err := w.wait(ctx, sp, sp.Kind == "hang"); err != nil {
		return nil, err
	}
	switch sp.Kind {
	case "ok", "badip":
		p.hostOK = sp.Kind == "ok"
		p.hostRes = sp.Addrs
		return append([]string(nil), sp.Addrs...), nil
	case "empty":
		p.hostOK = true
		return nil, nil
	case "notfound":
		p.hostOK = true // absence of records is not an error for the resolver
		return nil, &net.DNSError{Err: "no such host", Name: host, IsNotFound: true}
	case "temp":
		return nil, &net.DNSError{Err: "server misbehaving", Name: host, IsTemporary: true}
	case "timeout":
		return nil, &net.DNSError{Err: "i/o timeout", Name: host, IsTimeout: true}
	default:
		return nil, errors.New("wmdns: scripted lookup failure")
	}
}

func (n *c56Net) LookupSRV(ctx context.Context, service, proto, name string) (cname string, srvs []*net.SRV, err error) {
	w := n.w
	p := w.begin("SRV", name)
	defer func() { w.end(p, "SRV", err) }()
	switch w.spec(p).SRV {
	case "temp":
		return "", nil, &net.DNSError{Err: "server misbehaving", Name: name, IsTemporary: true}
	case "one":
		return "", []*net.SRV{{Target: c56LBHost, Port: 1234}}, nil
	}
	return "", nil, &net.DNSError{Err: "no such host", Name: name, IsNotFound: true}
}

func (n *c56Net) LookupTXT(ctx context.Context, name string) (txts []string, err error) {
	w := n.w
	p := w.begin("TXT", name)
	defer func() { w.end(p, "TXT", err) }()
	switch w.spec(p).TXT {
	case "err":
		return nil, errors.New("wmdns: scripted TXT failure")
	case "noattr":
		return []string{"v=spf1 -all"}, nil
	case "empty":
		return []string{"grpc_config="}, nil
	}
	return nil, &net.DNSError{Err: "no such host", Name: name, IsNotFound: true}
}

func (w *c56Run) newNetResolver(authority string) (dnsinternal.NetResolver, error) {
	if w.phase == 1 {
		return &c56RiderNet{w.rider}, nil
	}
	return &c56Net{w}, nil
}

func c56Format(ip, port string) string {
	if strings.Contains(ip, ":") {
		return "[" + ip + "]:" + port
	}
	return ip + ":" + port
}

// c56CC is the recording ClientConn.
type c56CC struct {
	resolver.ClientConn
	w *c56Run
}

func (c *c56CC) open() *c56Pass {
	w := c.w
	if n := len(w.passes); n > 0 && !w.passes[n-1].done {
		return w.passes[n-1]
	}
	return nil
}

func (c *c56CC) report(p *c56Pass, ok bool) {
	w := c.w
	sp := w.spec(p)
	if sp.CCDelayNs > 0 {
		time.Sleep(time.Duration(sp.CCDelayNs))
	}
	p.repOutSeq = w.e.Next()
	p.repOutT = w.e.SimNs()
	p.done, p.ok = true, ok
	if ok {
		w.fails = 0
		w.e.Probe("resolved_ok")
	} else {
		w.fails++
		p.nfail = w.fails
		w.e.Probe("resolution_failed")
	}
	w.e.Logf("report pass=%d ok=%v nfail=%d", p.idx, ok, p.nfail)
	w.bump("report")
	if ok {
		w.bump("ok")
	}
}

func (c *c56CC) UpdateState(st resolver.State) error {
	w := c.w
	p := c.open()
	if p == nil {
		w.e.Logf("UpdateState without a lookup")
		return nil
	}
	if w.closeReturned {
		w.e.Probe("update_after_close_returned")
	}
	var want []string
	if p.hostOK {
		for _, a := range p.hostRes {
			want = append(want, c56Format(a, w.port))
		}
	}
	got := make([]string, 0, len(st.Addresses))
	for _, a := range st.Addresses {
		got = append(got, a.Addr)
	}
	if strings.Join(got, " ") != strings.Join(want, " ") {
		w.e.Violate("address_format", "pass %d: lookup returned %v for port %q, resolver emitted %v, want %v", p.idx, p.hostRes, w.port, got, want)
	}
	if len(st.Endpoints) != len(st.Addresses) {
		w.e.Violate("address_format", "pass %d: %d endpoints for %d addresses", p.idx, len(st.Endpoints), len(st.Addresses))
	}
	for _, a := range got {
		if strings.HasPrefix(a, "[") {
			w.e.Probe("ipv6_address_emitted")
			break
		}
	}
	sp := w.spec(p)
	if sp.CCFail {
		w.e.Probe("clientconn_rejected_update")
		c.report(p, false)
		return errors.New("wmdns: scripted bad resolver state")
	}
	c.report(p, true)
	return nil
}

func (c *c56CC) ReportError(err error) {
	p := c.open()
	if p == nil {
		c.w.e.Logf("ReportError without a lookup")
		return
	}
	c.report(p, false)
}

func (c *c56CC) NewAddress([]resolver.Address) {}

func (c *c56CC) ParseServiceConfig(js string) *serviceconfig.ParseResult {
	c.w.e.Probe("service_config_parsed")
	return &serviceconfig.ParseResult{}
}

// ---- callers ----

func (w *c56Run) resolveNow() {
	if w.closeCalled {
		return
	}
	c := &c56Call{a: w.e.Next()}
	w.calls = append(w.calls, c)
	if n := len(w.passes); n > 0 && !w.passes[n-1].done {
		w.e.Probe("resolve_now_during_lookup")
	}
	w.e.Logf("ResolveNow")
	w.res.ResolveNow(resolver.ResolveNowOptions{})
	c.b = w.e.Next()
}

func (w *c56Run) close() {
	if w.closeCalled {
		return
	}
	e := w.e
	w.closeCalled = true
	w.closeCallSeq = e.Next()
	w.closeCallT = e.SimNs()
	if n := len(w.passes); n > 0 && !w.passes[n-1].done {
		e.Probe("close_during_lookup")
	} else if n > 0 && w.passes[n-1].ok {
		e.Probe("close_while_waiting_after_success")
	} else if n > 0 {
		e.Probe("close_during_backoff")
	}
	if w.lastTimerAt == w.closeCallT && w.lastTimer > 0 {
		e.Probe("close_coincides_with_watcher_timer")
	}
	e.Logf("Close called")
	w.res.Close()
	w.closeRetSeq = e.Next()
	w.closeReturned = true
	e.Logf("Close returned")
}

func runC56(e *core.Env, s *c56Scenario) {
	w := &c56Run{e: e, s: s, counts: map[string]int{}, waiters: map[string][]*c56Waiter{}, port: s.Port}
	if w.port == "" {
		w.port = "443" // the documented default port
	}
	cur = w
	oldMin, oldTO, oldSRV := dns.MinResolutionInterval, dns.ResolvingTimeout, dns.EnableSRVLookups
	dns.MinResolutionInterval = time.Duration(s.MinIntervalNs)
	dns.ResolvingTimeout = time.Duration(s.ResolvingTimeoutNs)
	dns.EnableSRVLookups = s.SRV
	defer func() {
		dns.MinResolutionInterval, dns.ResolvingTimeout, dns.EnableSRVLookups = oldMin, oldTO, oldSRV
		cur = nil
	}()

	b := dns.NewBuilder()
	ep := s.Host
	if s.Port != "" {
		ep += ":" + s.Port
	}
	cc := &c56CC{w: w}
	r, err := b.Build(resolver.Target{URL: url.URL{Scheme: "dns", Path: "/" + ep}}, cc, resolver.BuildOptions{DisableServiceConfig: !s.TXT})
	if err != nil {
		e.Violate("target_parse", "Build(%q) failed: %v", ep, err)
		return
	}
	w.res = r
	var wg sync.WaitGroup
	for _, ops := range s.Callers {
		wg.Add(1)
		go func() {
			defer wg.Done()
			for _, op := range ops {
				switch op.Kind {
				case "sleep":
					time.Sleep(time.Duration(op.Ns))
				case "rn":
					w.resolveNow()
				case "burst":
					if op.N > 1 {
						e.Probe("resolve_now_burst")
					}
					for i := 0; i < op.N; i++ {
						w.resolveNow()
					}
				case "wait":
					w.waitFor(op.Ev, op.N, op.Ns)
				case "sleep_timer":
					time.Sleep(w.lastTimer)
				case "close":
					w.close()
				}
			}
		}()
	}
	wg.Wait()
	if s.TailNs > 0 && !w.closeCalled {
		time.Sleep(time.Duration(s.TailNs))
	}
	w.close()
	synctest.Wait()
	w.final()

	// rider: target strings -> host/port/address forms (pure function of the string)
	w.phase = 1
	dns.EnableSRVLookups = false
	for i := range s.Riders {
		w.runRider(b, &s.Riders[i])
	}
}

// final runs the oracles that need the whole timeline.
func (w *c56Run) final() {
	e := w.e
	// 1. the last failed pass must have been retried unless Close came first
	if n := len(w.passes); n > 0 {
		p := w.passes[n-1]
		if p.done && !p.ok && p.repOutSeq < w.closeCallSeq {
			if d := float64(w.closeCallT - p.repOutT); d > c56UB(p.nfail)+c56Slack {
				e.Violate("backoff_too_late", "failure #%d in a row (pass %d) was never retried although the resolver stayed open for %.0f ns; backoff must not exceed %.0f ns", p.nfail, p.idx, d, c56UB(p.nfail))
			}
		}
	}
	// 2. every pass that follows a successful one needs a ResolveNow call of
	// its own. The resolver coalesces requests (one pending flag), so the
	// request consumed after success s_i may be as old as the end of the
	// previous successful pass s_(i-1): window (end(s_(i-1)), start(next)).
	calls := append([]*c56Call(nil), w.calls...)
	sort.Slice(calls, func(i, j int) bool { return calls[i].b < calls[j].b })
	var lastOKEnd uint64 // end of the success before the current one
	for i, p := range w.passes {
		if i+1 < len(w.passes) && p.ok {
			nx := w.passes[i+1]
			var pick *c56Call
			for _, c := range calls {
				if !c.used && c.b > lastOKEnd && c.a < nx.startSeq {
					pick = c
					break
				}
			}
			if pick == nil {
				e.Violate("relookup_without_request", "pass %d started after the successful pass %d although no ResolveNow call can account for it (%d calls in the run)", nx.idx, p.idx, len(calls))
			} else {
				pick.used = true
				if pick.a < p.repOutSeq {
					e.Probe("request_made_before_success_honoured_after_it")
				}
			}
		}
		if p.ok {
			lastOKEnd = p.repOutSeq
		}
	}
	if n := len(w.passes); n > 0 && w.passes[n-1].ok {
		pending := false
		for _, c := range w.calls {
			if c.a > w.passes[n-1].repOutSeq {
				pending = true
			}
		}
		if !pending {
			e.Probe("quiet_after_success_without_request")
		}
	}
}

// ---- rider ----

type c56RiderState struct {
	hosts  []string
	states []resolver.State
	errs   int
}

type c56RiderNet struct{ r *c56RiderState }

func (n *c56RiderNet) LookupHost(ctx context.Context, host string) ([]string, error) {
	n.r.hosts = append(n.r.hosts, host)
	return []string{"192.0.2.7", "2001:db8::7"}, nil
}
func (n *c56RiderNet) LookupSRV(ctx context.Context, service, proto, name string) (string, []*net.SRV, error) {
	return "", nil, &net.DNSError{Err: "no such host", Name: name, IsNotFound: true}
}
func (n *c56RiderNet) LookupTXT(ctx context.Context, name string) ([]string, error) {
	return nil, &net.DNSError{Err: "no such host", Name: name, IsNotFound: true}
}

type c56RiderCC struct {
	resolver.ClientConn
	r *c56RiderState
}

func (c *c56RiderCC) UpdateState(st resolver.State) error {
	c.r.states = append(c.r.states, st)
	return nil
}
func (c *c56RiderCC) ReportError(error)             { c.r.errs++ }
func (c *c56RiderCC) NewAddress([]resolver.Address) {}
func (c *c56RiderCC) ParseServiceConfig(string) *serviceconfig.ParseResult {
	return &serviceconfig.ParseResult{}
}

func (w *c56Run) runRider(b resolver.Builder, t *c56Target) {
	e := w.e
	rd := &c56RiderState{}
	w.rider = rd
	r, err := b.Build(resolver.Target{URL: url.URL{Scheme: "dns", Path: "/" + t.Str}}, &c56RiderCC{r: rd}, resolver.BuildOptions{DisableServiceConfig: true})
	e.Probe("rider_target")
	if t.WantErr {
		if err == nil {
			e.Violate("target_parse", "target %q was accepted; a trailing colon must be rejected", t.Str)
			r.Close()
		}
		return
	}
	if err != nil {
		e.Violate("target_parse", "target %q was rejected: %v", t.Str, err)
		return
	}
	synctest.Wait()
	addrs := func() []string {
		var out []string
		if len(rd.states) > 0 {
			for _, a := range rd.states[0].Addresses {
				out = append(out, a.Addr)
			}
		}
		return out
	}
	if t.IsIP {
		if got := addrs(); len(rd.states) != 1 || len(got) != 1 || got[0] != t.Addr || len(rd.hosts) != 0 {
			e.Violate("target_parse", "IP target %q: emitted %v (updates=%d, lookups=%v), want [%s] without any lookup", t.Str, got, len(rd.states), rd.hosts, t.Addr)
		}
	} else {
		want := []string{"192.0.2.7:" + t.Port, "[2001:db8::7]:" + t.Port}
		got := addrs()
		if len(rd.hosts) != 1 || rd.hosts[0] != t.Host || strings.Join(got, " ") != strings.Join(want, " ") {
			e.Violate("target_parse", "target %q: looked up %v and emitted %v, want host %q and %v", t.Str, rd.hosts, got, t.Host, want)
		}
	}
	r.Close()
}
