package conn

// In-package part of the "wm" world (ALTS record protocol, property C52):
// these files are overlaid into credentials/alts/internal/conn so that the
// harness can reach the unexported conn, Counter and AEAD fields. Nothing in
// /repo is edited; the package's own _test.go files are compiled along but
// never run (the worker runs ^TestSimWorker$ only).

import (
	"testing"

	simcore "google.golang.org/grpc/internal/zzverif/core"
)

func TestSimWorker(t *testing.T) { simcore.WorkerMain(t) }
