package conn

// In-package part of the "wm" world (ALTS record protocol, property C52):
// these files are overlaid into credentials/alts/internal/conn so that the
// harness can reach the unexported conn, Counter and AEAD fields. Nothing in
// /repo is edited; the package's own _test.go files are compiled along but
// never run (the worker runs ^TestSimWorker$ only).

import (
	"bytes"
	"net"
	"testing"
	"time"

	altscore "google.golang.org/grpc/credentials/alts/internal"
	simcore "google.golang.org/grpc/internal/zzverif/core"
)

type c52BufConn struct {
	net.Conn
	in, out *bytes.Buffer
}

func (c *c52BufConn) Read(b []byte) (int, error)  { return c.in.Read(b) }
func (c *c52BufConn) Write(b []byte) (int, error) { return c.out.Write(b) }
func (c *c52BufConn) Close() error                { return nil }

// c52Prewarm touches, outside any run, everything in the record path that
// initialises itself on first use (crypto self-tests and feature detection,
// hmac/sha256 for the rekey KDF, error formatting), so that a run behaves the
// same whether it is the first of its kind in the process or not.
func c52Prewarm() {
	// time.NewTimer consults a lazily registered GODEBUG setting on first use
	tm := time.NewTimer(time.Hour)
	tm.Stop()
	tm.Reset(1)
	<-tm.C
	<-time.After(1)
	for _, p := range []string{"gcm", "rekey"} {
		proto, key := c52Key(p, 1)
		a, b := new(bytes.Buffer), new(bytes.Buffer)
		cc, err := NewConnWithMaxFrameSize(&c52BufConn{in: a, out: b}, altscore.ClientSide, proto, key, nil, 8192)
		if err != nil {
			panic(err)
		}
		sc, err := NewConnWithMaxFrameSize(&c52BufConn{in: b, out: a}, altscore.ServerSide, proto, key, nil, 0)
		if err != nil {
			panic(err)
		}
		msg := c52Fill(7, 700*1024)
		for _, n := range []int{1, 5000, 40000, len(msg)} {
			if _, err := cc.Write(msg[:n]); err != nil {
				panic(err)
			}
			got := 0
			buf := make([]byte, 70000)
			for got < n {
				var k int
				var err error
				if got%2 == 0 {
					k, err = sc.Read(buf[:1+got%50000])
				} else {
					var h *[]byte
					h, k, err = sc.(*conn).ReadOnReady(30000, &c52Pool{})
					_ = h
				}
				if err != nil {
					panic(err)
				}
				got += k
			}
		}
		// authentication failure path
		sc.Write([]byte("x"))
		raw := a.Bytes()
		raw[len(raw)-1] ^= 1
		if _, err := cc.Read(make([]byte, 8)); err == nil {
			panic("prewarm: tampering not detected")
		} else {
			_ = err.Error()
		}
	}
}

func TestSimWorker(t *testing.T) {
	c52Prewarm()
	simcore.WorkerMain(t)
}
