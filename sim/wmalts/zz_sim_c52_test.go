package conn

// C52: ALTS records round-trip exactly under any segmentation, tampering is
// always detected, and a nonce is never used twice.
//
// Two real ALTS record conns (client side / server side, shared key) talk over
// a simnet pair. Between each ALTS conn and its simnet end sits a harness
// conn (c52End) which parses the 4-byte length framing of everything the ALTS
// conn writes, checks the frame size limit, applies the scripted record/byte
// level faults, and forwards the (possibly re-segmented) bytes.

import (
	"bytes"
	"context"
	"crypto/cipher"
	"encoding/binary"
	"fmt"
	"io"
	"net"
	"sort"
	"sync"
	"testing/synctest"
	"time"

	altscore "google.golang.org/grpc/credentials/alts/internal"
	simcore "google.golang.org/grpc/internal/zzverif/core"
	"google.golang.org/grpc/internal/zzverif/simnet"
)

const (
	c52ProtoGCM   = "zzsim-gcm"
	c52ProtoRekey = "zzsim-gcm-rekey"

	// From the property statement: negotiated frame sizes lie in 4 KiB..512 KiB.
	c52MinFrame = 4 * 1024
	c52MaxFrame = 512 * 1024
)

func init() {
	// The package itself registers no protocol (the handshaker package does);
	// register both record protocols it implements under private names.
	if err := RegisterProtocol(c52ProtoGCM, NewAES128GCM); err != nil {
		panic(err)
	}
	if err := RegisterProtocol(c52ProtoRekey, NewAES128GCMRekey); err != nil {
		panic(err)
	}
	simcore.Register("C52", genC52, runC52)
}

// ---- scenario ----

type c52Write struct {
	Size  int   `json:"size"`
	GapNs int64 `json:"gap_ns,omitempty"` // pause before the write
	// HoldBack > 0: the wire keeps the last HoldBack bytes produced by this
	// write back and delivers them glued to the front of the next write's
	// bytes (coalescing across write boundaries).
	HoldBack int `json:"hold_back,omitempty"`
}

type c52Fault struct {
	Kind   string `json:"kind"`   // flip | drop | dup | swap | trunc
	Rec    int    `json:"rec"`    // index of the record (in this direction) the fault applies to
	Region string `json:"region"` // flip: ct (ciphertext+tag) | len | type0 | typehi
	Off    int    `json:"off"`    // flip: offset inside the region; trunc: offset inside the record
	Mask   int    `json:"mask"`   // flip: xor mask (1..255)
}

type c52Dir struct {
	Writes     []c52Write `json:"writes"`
	ReadBufs   []int      `json:"read_bufs"`             // cyclic read buffer sizes (>=1)
	ReadGapNs  int64      `json:"read_gap_ns,omitempty"` // pause after every ReadGapEvery-th read
	ReadGapN   int        `json:"read_gap_every,omitempty"`
	ReadMode   string     `json:"read_mode"`   // read | onready
	ExtraReads int        `json:"extra_reads"` // reads attempted after the first error
	Faults     []c52Fault `json:"faults"`
	// Counter seam: ctr_kind none | overflow | rekey. The sender's outgoing
	// and the receiver's incoming counter are both moved forward to a value
	// CtrRem increments before the low bytes wrap (overflow: all counted bytes;
	// rekey: the low two bytes, middle bytes from CtrMid).
	CtrKind string `json:"ctr_kind"`
	CtrRem  int    `json:"ctr_rem"`
	CtrMid  uint64 `json:"ctr_mid_seed"`
}

type c52Scenario struct {
	Sched   simcore.Sched `json:"sched"`
	Proto   string        `json:"proto"` // gcm | rekey
	KeySeed uint64        `json:"key_seed"`
	// Frame[0] is the negotiated max frame size handed to the client conn,
	// Frame[1] to the server conn (0 = not negotiated = 4 KiB).
	Frame [2]int     `json:"frame"`
	Net   simnet.Cfg `json:"net"`
	// Dirs[0] = client->server, Dirs[1] = server->client.
	Dirs [2]c52Dir `json:"dirs"`
	// Protected: direction whose first write's ciphertext is (partly) handed
	// to the receiving conn as NewConn's `protected` argument (bytes the
	// handshaker read too far) instead of going over the network; -1 = none.
	ProtectedDir int    `json:"protected_dir"`
	ProtectedLen int    `json:"protected_len"`
	DataSeed     uint64 `json:"data_seed"`
}

func (s *c52Scenario) SchedP() *simcore.Sched { return &s.Sched }

func (s *c52Scenario) Shape() string {
	nf := len(s.Dirs[0].Faults) + len(s.Dirs[1].Faults)
	kinds := map[string]bool{}
	for d := range s.Dirs {
		for _, f := range s.Dirs[d].Faults {
			kinds[f.Kind] = true
		}
	}
	ks := make([]string, 0, len(kinds))
	for k := range kinds {
		ks = append(ks, k)
	}
	sort.Strings(ks)
	lg := func(n int) int {
		b := 0
		for ; n > 1; n >>= 1 {
			b++
		}
		return b
	}
	tot := 0
	for d := range s.Dirs {
		for _, w := range s.Dirs[d].Writes {
			tot += w.Size
		}
	}
	return fmt.Sprintf("%s f=%d/%d seg=%d w=%d/%d lgB=%d faults=%d%v ctr=%s/%s prot=%d", s.Proto, lg(s.Frame[0]), lg(s.Frame[1]), lg(s.Net.SegMax),
		len(s.Dirs[0].Writes), len(s.Dirs[1].Writes), lg(tot), nf, ks, s.Dirs[0].CtrKind, s.Dirs[1].CtrKind, s.ProtectedDir)
}

func (s *c52Scenario) Validate() error {
	if s.Proto != "gcm" && s.Proto != "rekey" {
		return fmt.Errorf("bad proto")
	}
	for i := range s.Frame {
		if s.Frame[i] != 0 && (s.Frame[i] < c52MinFrame || s.Frame[i] > c52MaxFrame) {
			return fmt.Errorf("frame size outside 4KiB..512KiB")
		}
	}
	for d := range s.Dirs {
		dd := &s.Dirs[d]
		if len(dd.ReadBufs) == 0 {
			return fmt.Errorf("no read buffers")
		}
		for _, b := range dd.ReadBufs {
			if b < 1 || b > 4<<20 {
				return fmt.Errorf("bad read buffer size")
			}
		}
		for _, w := range dd.Writes {
			if w.Size < 0 || w.Size > 4<<20 || w.HoldBack < 0 || w.GapNs < 0 {
				return fmt.Errorf("bad write")
			}
		}
		if dd.ReadMode != "read" && dd.ReadMode != "onready" {
			return fmt.Errorf("bad read mode")
		}
		if dd.ExtraReads < 0 || dd.ExtraReads > 8 || dd.ReadGapN < 0 || dd.ReadGapNs < 0 {
			return fmt.Errorf("bad reader knobs")
		}
		switch dd.CtrKind {
		case "none", "overflow", "rekey":
		default:
			return fmt.Errorf("bad ctr kind")
		}
		if dd.CtrRem < 0 || dd.CtrRem > 250 {
			return fmt.Errorf("bad ctr_rem")
		}
		for _, f := range dd.Faults {
			switch f.Kind {
			case "flip":
				switch f.Region {
				case "ct", "len", "type0", "typehi":
				default:
					return fmt.Errorf("bad flip region")
				}
				if f.Mask < 1 || f.Mask > 255 {
					return fmt.Errorf("bad flip mask")
				}
			case "drop", "dup", "swap", "trunc":
			default:
				return fmt.Errorf("bad fault kind")
			}
			if f.Rec < 0 || f.Off < 0 {
				return fmt.Errorf("bad fault position")
			}
		}
	}
	if s.ProtectedDir < -1 || s.ProtectedDir > 1 || s.ProtectedLen < 0 {
		return fmt.Errorf("bad protected")
	}
	return nil
}

// ---- generator ----

func c52GenSched(r *simcore.Rand, seed uint64) simcore.Sched {
	return simcore.Sched{SchedSeed: simcore.Mix(seed, 11), AuxSeed: simcore.Mix(seed, 12), YieldThr: simcore.Pick(r, uint32(0), 200, 2000, 13000)}
}

func c52GenNet(r *simcore.Rand, seed uint64) simnet.Cfg {
	c := simnet.Cfg{Seed: simcore.Mix(seed, 21)}
	switch r.Intn(5) {
	case 0: // one segment per write
	case 1:
		c.SegMax = simcore.Pick(r, 1, 2, 3, 5, 7, 16, 100, 1000, 4096, 16384, 70000)
		if r.Chance(1, 2) {
			c.SegMin = c.SegMax/2 + 1
		}
	case 2:
		c.SegMax = simcore.Pick(r, 9, 24, 500, 5000, 40000)
		c.LatencyNs = int64(simcore.Pick(r, 0, 1000, 100000, 5000000))
	case 3:
		c.SegMax = simcore.Pick(r, 0, 4000, 33000, 200000)
		c.ReadMax = simcore.Pick(r, 1, 3, 4, 5, 8, 64, 5000, 33279)
	default:
		c.SegMax = simcore.Pick(r, 0, 3, 300, 20000)
		c.LatencyNs = int64(simcore.Pick(r, 0, 50000, 2000000))
		c.StallPct = simcore.Pick(r, 0, 5, 30)
		c.StallNs = int64(simcore.Pick(r, 1000, 1000000, 200000000))
		c.InflightCap = simcore.Pick(r, 0, 1, 4096, 100000)
		c.ReadMax = simcore.Pick(r, 0, 1, 64, 5000)
	}
	return c
}

// c52Overhead: length field + type field + GCM tag, the framing of the ALTS
// record format (only the generator uses it, to aim write sizes at record
// boundaries; the oracles take the overhead from the conn under test).
const c52Overhead = 4 + 4 + 16

func genC52(seed uint64, tier string) *c52Scenario {
	r := simcore.NewRand(seed)
	s := &c52Scenario{Sched: c52GenSched(r, seed), KeySeed: simcore.Mix(seed, 31), DataSeed: simcore.Mix(seed, 32), ProtectedDir: -1}
	s.Proto = simcore.Pick(r, "gcm", "rekey")
	genFrame := func() int {
		switch r.Intn(8) {
		case 0:
			return 0
		case 1:
			return c52MinFrame
		case 2:
			return c52MaxFrame
		case 3:
			return simcore.Pick(r, 16*1024, 32*1024, 32*1024+512, 33*1024, 64*1024, 128*1024, 256*1024)
		case 4:
			return r.Range(c52MinFrame, c52MinFrame+64)
		default:
			return r.LogUniform(c52MinFrame, c52MaxFrame)
		}
	}
	s.Frame[0] = genFrame()
	if r.Chance(1, 2) {
		s.Frame[1] = s.Frame[0]
	} else {
		s.Frame[1] = genFrame()
	}
	s.Net = c52GenNet(r, seed)
	// byte budget: every delivered segment and every read costs harness work
	seg := s.Net.SegMax
	if seg == 0 {
		seg = 1 << 20
	}
	if s.Net.ReadMax > 0 && s.Net.ReadMax < seg {
		seg = s.Net.ReadMax
	}
	budget := seg * 2500
	hi := simcore.Pick(r, 8, 16, 16, 16, 64, 64, 64, 64, 128, 128, 300, 1400) * 1024 // the last ones exceed the 512 KiB write buffer
	if tier == "thorough" {
		budget = seg * 6000
		if r.Chance(1, 10) {
			hi = 3 << 20
		}
	}
	if budget > hi {
		budget = hi
	}
	faulty := r.Chance(1, 2)
	for d := 0; d < 2; d++ {
		dd := &s.Dirs[d]
		dd.CtrKind = "none"
		dd.ReadMode = simcore.Pick(r, "read", "read", "onready")
		frame := s.Frame[d]
		if frame < c52MinFrame {
			frame = c52MinFrame
		}
		P := frame - c52Overhead
		left := budget
		if d == 1 && r.Chance(1, 3) {
			left = budget / 8
		}
		if r.Chance(1, 10) {
			left = 0
		}
		nw := r.Range(1, 8)
		if tier == "thorough" {
			nw = r.Range(1, 20)
		}
		perFrame := c52MaxFrame / frame // frames per full write buffer
		total := 0
		for i := 0; i < nw && left > 0; i++ {
			var n int
			switch r.Intn(12) {
			case 0:
				n = 0
			case 1:
				n = r.Range(1, 40)
			case 2:
				n = P + r.Range(-2, 2)
			case 3:
				n = r.Range(1, 4)*P + r.Range(-2, 2)
			case 4:
				n = perFrame*P + r.Range(-2, 2) // exactly fills the write buffer
			case 5:
				n = perFrame*P*r.Range(1, 2) + r.Range(-P, P)
			case 6:
				n = c52MaxFrame + r.Range(-40, 40)
			case 7:
				n = r.Range(1, 3) * 16384
			default:
				n = r.LogUniform(1, left+1)
			}
			if n < 0 {
				n = 0
			}
			if n > left {
				n = r.Range(0, left)
			}
			w := c52Write{Size: n}
			if r.Chance(1, 3) {
				w.GapNs = int64(simcore.Pick(r, 1, 1000, 1000000, 50000000))
			}
			if r.Chance(1, 3) {
				w.HoldBack = simcore.Pick(r, 1, 2, 3, 4, 5, 7, 8, 9, 23, 24, 25, 100, 4000, 40000)
			}
			dd.Writes = append(dd.Writes, w)
			left -= n
			total += n
		}
		// read buffers
		nb := r.Range(1, 4)
		for i := 0; i < nb; i++ {
			var b int
			switch r.Intn(9) {
			case 0:
				b = 1
			case 1:
				b = r.Range(2, 16)
			case 2:
				b = P + r.Range(-1, 1)
			case 3:
				b = P + 16 + r.Range(-1, 1) // around the ciphertext length (direct-decrypt threshold)
			case 4:
				b = simcore.Pick(r, 4096, 16384, 32768, 65536)
			case 5:
				b = c52MaxFrame
			default:
				b = r.LogUniform(1, 2*frame)
			}
			if b < 1 {
				b = 1
			}
			dd.ReadBufs = append(dd.ReadBufs, b)
		}
		for {
			sum := 0
			mi := 0
			for i, b := range dd.ReadBufs {
				sum += b
				if b < dd.ReadBufs[mi] {
					mi = i
				}
			}
			if total/(sum/len(dd.ReadBufs)+1) <= 6000 {
				break
			}
			dd.ReadBufs[mi] *= 16
		}
		if r.Chance(1, 4) {
			dd.ReadGapN = r.Range(1, 5)
			dd.ReadGapNs = int64(simcore.Pick(r, 1, 5000, 3000000, 80000000))
		}
		dd.ExtraReads = simcore.Pick(r, 0, 0, 1, 2, 3)
		// number of records this direction will put on the wire
		nrec := 0
		for _, w := range dd.Writes {
			nrec += (w.Size + P - 1) / P
		}
		if faulty && nrec > 0 && r.Chance(2, 3) {
			nf := simcore.Pick(r, 1, 1, 1, 2, 3)
			used := map[int]bool{}
			for i := 0; i < nf; i++ {
				f := c52Fault{Rec: r.Intn(nrec), Off: r.Intn(1 << 20), Mask: 1 << r.Intn(8)}
				if r.Chance(1, 4) {
					f.Mask = r.Range(1, 255)
				}
				if r.Chance(1, 3) {
					f.Rec = simcore.Pick(r, 0, nrec-1, nrec/2)
				}
				if used[f.Rec] {
					continue
				}
				used[f.Rec] = true
				switch r.Intn(10) {
				case 0, 1, 2:
					f.Kind, f.Region = "flip", "ct"
					if r.Chance(1, 4) {
						f.Off = simcore.Pick(r, 0, 1, 15, 16, 17) // first ciphertext bytes / (with short records) the tag
					}
				case 3:
					f.Kind, f.Region = "flip", simcore.Pick(r, "len", "type0", "typehi")
				case 4, 5:
					f.Kind = "drop"
				case 6:
					f.Kind = "dup"
				case 7:
					f.Kind = "swap"
				default:
					f.Kind = "trunc"
					if r.Chance(1, 3) {
						f.Off = simcore.Pick(r, 0, 1, 3, 4, 7, 8, 9)
					}
				}
				dd.Faults = append(dd.Faults, f)
			}
		}
		if r.Chance(1, 6) && nrec > 0 {
			dd.CtrKind = simcore.Pick(r, "overflow", "overflow", "rekey")
			dd.CtrRem = r.Range(0, nrec+2)
			if dd.CtrRem > 250 {
				dd.CtrRem = 250
			}
			dd.CtrMid = simcore.Mix(seed, 41, uint64(d))
		}
	}
	if r.Chance(1, 5) {
		d := r.Intn(2)
		if len(s.Dirs[d].Writes) > 0 {
			s.ProtectedDir = d
			s.ProtectedLen = simcore.Pick(r, 0, 1, 3, 4, 5, 8, 24, 25, 4095, 4096, 4097, 33279, 33280, 33281, 1<<20)
			if r.Chance(1, 3) {
				s.ProtectedLen = r.LogUniform(1, 70000)
			}
		}
	}
	return s
}

// ---- world ----

type c52World struct {
	e       *simcore.Env
	s       *c52Scenario
	dirs    [2]*c52DirState
	closing bool
	sealed  map[string]bool // every nonce handed to a Seal in this run (both sides share the key)
}

// c52DirState is everything the harness knows about one direction.
type c52DirState struct {
	w     *c52World
	idx   int
	name  string
	sc    *c52Dir
	plain []byte // the bytes the application writes, in order
	limit int    // frame size limit of the sender (statement: negotiated, at least 4 KiB)
	ovh   int    // per-record overhead as claimed by the sending conn

	// wire side (sender's harness conn)
	pend                             []byte // incomplete record at the tail of what the sender wrote so far
	nrec                             int
	recPlain                         []int
	faults                           map[int]*c52Fault
	swapHeld                         []byte
	held                             []byte // bytes kept back for coalescing
	capturing                        bool
	captured                         []byte
	cut                              bool // a trunc fault fired: nothing is forwarded any more, reader gets EOF after the rest
	fwd                              int  // bytes forwarded into simnet
	rcount                           int  // bytes the receiving ALTS conn has read from simnet
	poked                            bool
	curHold                          int // hold-back of the write in progress
	handoffRest                      []byte
	emptyWrites                      int
	seenPartial, seenGrown, seenIdle bool
	nfaults                          int
	multiRec                         bool

	// ideal receiver: what an intact, in-order, authenticated stream allows
	expect      int
	deliverable int
	errItems    int
	firstErrOff int
	desync      bool

	// counter seam
	floorLo, floorHi []byte // nonces in [floorLo, floorHi) count as already used

	// sender / receiver progress
	written   int // plaintext bytes whose Write returned nil
	writerErr error
	got       int
	errs      int
	reads     int

	sendInner, recvInner net.Conn
}

// c52Mem keeps large scratch buffers across runs (capacity only, contents are
// rewritten by every run): fresh multi-megabyte allocations per run dominate
// the cost of a run otherwise.
var c52Mem struct {
	plain, out, rbuf [2][]byte
}

func c52Grow(b *[]byte, n int) []byte {
	if cap(*b) < n {
		*b = make([]byte, n+n/4)
	}
	return (*b)[:n]
}

func c52Fill(seed uint64, n int) []byte { return c52FillInto(make([]byte, n), seed) }

func c52FillInto(b []byte, seed uint64) []byte {
	n := len(b)
	x := seed | 1
	for i := 0; i+8 <= n; i += 8 {
		x ^= x << 13
		x ^= x >> 7
		x ^= x << 17
		binary.LittleEndian.PutUint64(b[i:], x)
	}
	for i := n &^ 7; i < n; i++ {
		x ^= x << 13
		x ^= x >> 7
		x ^= x << 17
		b[i] = byte(x)
	}
	return b
}

// c52End is the harness conn between one ALTS conn and its simnet end.
type c52End struct {
	inner net.Conn
	out   *c52DirState // direction this end sends
	in    *c52DirState // direction this end receives
}

func (x *c52End) LocalAddr() net.Addr                { return x.inner.LocalAddr() }
func (x *c52End) RemoteAddr() net.Addr               { return x.inner.RemoteAddr() }
func (x *c52End) SetDeadline(t time.Time) error      { return x.inner.SetDeadline(t) }
func (x *c52End) SetReadDeadline(t time.Time) error  { return x.inner.SetReadDeadline(t) }
func (x *c52End) SetWriteDeadline(t time.Time) error { return x.inner.SetWriteDeadline(t) }
func (x *c52End) Close() error                       { return x.inner.Close() }

// Write receives what the ALTS conn puts on the wire.
func (x *c52End) Write(p []byte) (int, error) {
	d := x.out
	e := d.w.e
	if len(p) == 0 {
		// a conn that keeps issuing empty writes never blocks and never
		// advances: turn the livelock into a failed write
		d.emptyWrites++
		if d.emptyWrites > 64 {
			if d.emptyWrites == 65 {
				e.Violate("write_livelock", "%s: the conn issued %d empty writes to the network in a row", d.name, d.emptyWrites)
			}
			return 0, io.ErrShortWrite
		}
		return 0, nil
	}
	d.emptyWrites = 0
	buf := p
	if len(d.pend) > 0 {
		buf = append(d.pend, p...)
		d.pend = nil
	}
	out := c52Grow(&c52Mem.out[d.idx], len(d.held)+len(buf)+64)[:0]
	if len(d.held) > 0 {
		out = append(out, d.held...)
		e.Probe("coalesced_across_writes")
	}
	d.held = nil
	nrec := 0
	for len(buf) >= 4 {
		l := int(binary.LittleEndian.Uint32(buf))
		total := 4 + l
		if total > d.limit || total < 0 {
			e.Violate("frame_limit", "%s record %d: frame of %d bytes on the wire, limit %d", d.name, d.nrec, total, d.limit)
			if l > 8<<20 {
				// not a plausible frame at all: stop parsing, pass the rest through
				d.desync = true
				out = append(out, buf...)
				buf = nil
				break
			}
		}
		if len(buf) < total {
			break
		}
		out = d.emit(out, buf[:total])
		buf = buf[total:]
		nrec++
	}
	if len(buf) > 0 {
		d.pend = append([]byte(nil), buf...)
	}
	if nrec > 1 {
		d.multiRec = true
	}
	d.forward(out, d.curHold)
	return len(p), nil
}

// forward hands bytes to the network, keeping the last holdBack bytes back.
func (d *c52DirState) forward(out []byte, holdBack int) {
	if holdBack > 0 && !d.cut {
		if holdBack > len(out) {
			holdBack = len(out)
		}
		d.held = append([]byte(nil), out[len(out)-holdBack:]...)
		out = out[:len(out)-holdBack]
	}
	if len(out) == 0 {
		return
	}
	if d.capturing {
		d.captured = append(d.captured, out...)
		return
	}
	d.fwd += len(out)
	if _, err := d.sendInner.Write(out); err != nil && !d.w.closing {
		d.w.e.Logf("%s: simnet write error %v", d.name, err)
	}
}

func (d *c52DirState) ideal(idx int, intact bool) {
	if d.desync || d.cut {
		return
	}
	if intact && idx == d.expect {
		d.deliverable += d.recPlain[idx]
		d.expect++
		return
	}
	d.errItems++
	if d.firstErrOff < 0 {
		d.firstErrOff = d.deliverable
	}
}

func (d *c52DirState) fire(kind string) {
	d.nfaults++
	d.w.e.Fault(kind)
}

// emit applies the fault plan to one complete record and appends what goes on
// the wire to out.
func (d *c52DirState) emit(out, rec []byte) []byte {
	e := d.w.e
	idx := d.nrec
	d.nrec++
	pl := len(rec) - d.ovh
	if pl < 0 {
		e.Violate("wire_framing", "%s record %d: %d bytes is shorter than the record overhead %d", d.name, idx, len(rec), d.ovh)
		pl = 0
	}
	d.recPlain = append(d.recPlain, pl)
	if d.cut {
		return out
	}
	if d.swapHeld != nil {
		out = append(out, rec...)
		d.ideal(idx, true)
		out = append(out, d.swapHeld...)
		d.ideal(idx-1, true)
		d.swapHeld = nil
		d.fire("swap")
		e.Logf("%s fault swap rec %d<->%d", d.name, idx-1, idx)
		return out
	}
	f := d.faults[idx]
	if f == nil {
		d.ideal(idx, true)
		return append(out, rec...)
	}
	switch f.Kind {
	case "flip":
		var off int
		intact := false
		switch f.Region {
		case "len":
			off = f.Off % 4
		case "type0":
			off = 4
		case "typehi":
			off = 5 + f.Off%3
			intact = true // neither authenticated nor interpreted: must stay harmless
		default:
			off = 8 + f.Off%(len(rec)-8)
		}
		if len(rec) <= 8 {
			d.ideal(idx, true)
			return append(out, rec...)
		}
		n0 := len(out)
		out = append(out, rec...)
		out[n0+off] ^= byte(f.Mask)
		d.fire("flip_" + f.Region)
		e.Logf("%s fault flip rec %d off %d/%d mask %#x", d.name, idx, off, len(rec), f.Mask)
		if f.Region == "len" {
			// framing is lost from here on: nothing later can be delivered,
			// the reader may fail or wait for bytes that never come
			d.ideal(idx, false)
			d.desync = true
			return out
		}
		d.ideal(idx, intact)
		return out
	case "drop":
		d.fire("drop")
		e.Logf("%s fault drop rec %d", d.name, idx)
		return out
	case "dup":
		out = append(out, rec...)
		d.ideal(idx, true)
		out = append(out, rec...)
		d.ideal(idx, true)
		d.fire("dup")
		e.Logf("%s fault dup rec %d", d.name, idx)
		return out
	case "swap":
		d.swapHeld = append([]byte(nil), rec...)
		return out
	case "trunc":
		k := f.Off % len(rec)
		out = append(out, rec[:k]...)
		d.fire("trunc")
		e.Logf("%s fault trunc rec %d at %d/%d", d.name, idx, k, len(rec))
		d.ideal(idx, false) // the stream ends inside (or right before) this record: EOF
		d.forward(out, 0)
		d.cut = true
		d.poke()
		return nil
	}
	d.ideal(idx, true)
	return append(out, rec...)
}

// poke wakes a receiver blocked in the simnet Read so that it notices the cut.
func (d *c52DirState) poke() {
	if d.recvInner != nil && !d.capturing {
		d.poked = true
		d.recvInner.SetReadDeadline(time.Now())
	}
}

// finish is called when the sender's script is over: everything kept back
// goes out.
func (d *c52DirState) finish() {
	out := d.held
	d.held = nil
	if d.swapHeld != nil { // no successor arrived: the record goes out in place
		out = append(out, d.swapHeld...)
		d.ideal(d.nrec-1, true)
		d.swapHeld = nil
	}
	if !d.cut {
		d.forward(out, 0)
	}
}

// Read is what the receiving ALTS conn reads from.
func (x *c52End) Read(p []byte) (int, error) {
	d := x.in
	for {
		if d.cut && !d.capturing && len(d.handoffRest) == 0 && d.rcount == d.fwd {
			return 0, io.EOF
		}
		n, err := x.inner.Read(p)
		if n > 0 {
			d.rcount += n
			return n, nil
		}
		if err != nil && d.poked {
			if ne, ok := err.(net.Error); ok && ne.Timeout() {
				d.poked = false
				x.inner.SetReadDeadline(time.Time{})
				continue
			}
		}
		return n, err
	}
}

// ---- nonce recording ----

type c52AEAD struct {
	cipher.AEAD
	d *c52DirState
}

func c52CmpLE(a, b []byte) int {
	for i := len(a) - 1; i >= 0; i-- {
		if a[i] != b[i] {
			if a[i] < b[i] {
				return -1
			}
			return 1
		}
	}
	return 0
}

func (a *c52AEAD) Seal(dst, nonce, plaintext, ad []byte) []byte {
	d := a.d
	w := d.w
	k := string(nonce)
	if w.sealed[k] {
		w.e.Violate("nonce_reuse", "%s: nonce %x used for a second seal under the same key", d.name, nonce)
	}
	w.sealed[k] = true
	for _, o := range w.dirs {
		if o.floorHi != nil && len(nonce) == len(o.floorHi) && c52CmpLE(nonce, o.floorLo) >= 0 && c52CmpLE(nonce, o.floorHi) < 0 {
			w.e.Violate("nonce_reuse", "%s: sealed with nonce %x, which the %s counter already passed (counter was at %x)", d.name, nonce, o.name, o.floorHi)
		}
	}
	return a.AEAD.Seal(dst, nonce, plaintext, ad)
}

// c52Hook installs the nonce recorder into the sender's crypto and applies the
// counter seam to sender (out counter) and receiver (in counter).
func (d *c52DirState) hook(sender, receiver *conn) {
	var outC, inC *Counter
	switch c := sender.crypto.(type) {
	case *aes128gcm:
		c.aead = &c52AEAD{AEAD: c.aead, d: d}
		outC = &c.outCounter
	case *aes128gcmRekey:
		c.outAEAD = &c52AEAD{AEAD: c.outAEAD, d: d}
		outC = &c.outCounter
	}
	switch c := receiver.crypto.(type) {
	case *aes128gcm:
		inC = &c.inCounter
	case *aes128gcmRekey:
		inC = &c.inCounter
	}
	if d.sc.CtrKind == "none" || outC == nil || inC == nil {
		return
	}
	start, _ := outC.Value()
	lo := append([]byte(nil), start...)
	v := append([]byte(nil), start...)
	n := outC.overflowLen
	switch d.sc.CtrKind {
	case "overflow":
		for i := 0; i < n; i++ {
			v[i] = 0xff
		}
		v[0] = byte(0xff - d.sc.CtrRem)
	case "rekey":
		mid := c52Fill(d.sc.CtrMid, 16)
		for i := 2; i < n; i++ {
			v[i] = mid[i] & 0x7f
		}
		v[1] = 0xff
		v[0] = byte(0xff - d.sc.CtrRem)
	}
	*outC = CounterFromValue(v, n)
	*inC = CounterFromValue(v, n)
	d.floorLo, d.floorHi = lo, v
	d.w.e.Logf("%s counter seam %s: %x", d.name, d.sc.CtrKind, v)
}

// ---- reader-side pool for ReadOnReady ----

// c52Pool hands out one reusable backing buffer at a time (the reader has at
// most one buffer outstanding) and poisons the part that was used when it
// comes back, so that a stale read of a returned buffer shows up as wrong
// plaintext.
type c52Pool struct {
	back []byte
	out  bool
	used int
}

func (p *c52Pool) Get(n int) *[]byte {
	if p.out || n > cap(p.back) {
		if p.out {
			b := make([]byte, n)
			return &b
		}
		p.back = make([]byte, n)
	}
	p.out = true
	b := p.back[:n]
	return &b
}

func (p *c52Pool) Put(b *[]byte) {
	if len(*b) > 0 && len(p.back) > 0 && &(*b)[0] == &p.back[0] {
		p.out = false
	}
	n := p.used
	if n > len(*b) {
		n = len(*b)
	}
	for i := 0; i < n; i++ {
		(*b)[i] = 0xA5
	}
	p.used = 0
}

// ---- run ----

func c52Key(proto string, seed uint64) (string, []byte) {
	if proto == "rekey" {
		return c52ProtoRekey, c52Fill(seed, 44)
	}
	return c52ProtoGCM, c52Fill(seed, 16)
}

func runC52(e *simcore.Env, s *c52Scenario) {
	w := &c52World{e: e, s: s, sealed: map[string]bool{}}
	nw := simnet.New(e, s.Net, nil)
	lis := nw.Listen("alts")
	cRaw, err := nw.Dial(context.Background(), "alts")
	if err != nil {
		panic(err)
	}
	sRaw, err := lis.Accept()
	if err != nil {
		panic(err)
	}
	for i := 0; i < 2; i++ {
		sc := &s.Dirs[i]
		tot := 0
		for _, wr := range sc.Writes {
			tot += wr.Size
		}
		d := &c52DirState{w: w, idx: i, name: []string{"c2s", "s2c"}[i], sc: sc, plain: c52FillInto(c52Grow(&c52Mem.plain[i], tot), simcore.Mix(s.DataSeed, uint64(i))), firstErrOff: -1, faults: map[int]*c52Fault{}}
		d.limit = s.Frame[i]
		if d.limit < c52MinFrame {
			d.limit = c52MinFrame
		}
		for k := range sc.Faults {
			f := &sc.Faults[k]
			if d.faults[f.Rec] == nil {
				d.faults[f.Rec] = f
			}
		}
		w.dirs[i] = d
	}
	w.dirs[0].sendInner, w.dirs[0].recvInner = cRaw, sRaw
	w.dirs[1].sendInner, w.dirs[1].recvInner = sRaw, cRaw
	ends := [2]*c52End{{inner: cRaw, out: w.dirs[0], in: w.dirs[1]}, {inner: sRaw, out: w.dirs[1], in: w.dirs[0]}}
	sides := [2]altscore.Side{altscore.ClientSide, altscore.ServerSide}
	proto, key := c52Key(s.Proto, s.KeySeed)
	var alts [2]*conn
	mk := func(i int, protected []byte) {
		c, err := NewConnWithMaxFrameSize(ends[i], sides[i], proto, key, protected, s.Frame[i])
		if err != nil {
			panic(fmt.Sprintf("NewConn: %v", err))
		}
		alts[i] = c.(*conn)
		w.dirs[i].ovh = alts[i].overhead
	}
	first := [2]int{}
	pd := s.ProtectedDir
	if pd >= 0 && len(s.Dirs[pd].Writes) > 0 && s.Dirs[pd].CtrKind == "none" && s.Dirs[1-pd].CtrKind == "none" {
		// the sender of pd exists first and performs its first write before
		// the receiver is created; part of that ciphertext becomes `protected`
		d := w.dirs[pd]
		mk(pd, nil)
		c52HookOne(d, alts[pd])
		d.capturing = true
		w.write(d, alts[pd], 0)
		first[pd] = 1
		k := s.ProtectedLen
		if k > len(d.captured) {
			k = len(d.captured)
		}
		mk(1-pd, append([]byte(nil), d.captured[:k]...))
		c52HookOne(w.dirs[1-pd], alts[1-pd])
		d.capturing = false
		rest := d.captured[k:]
		d.captured = nil
		e.Logf("%s protected handoff %d bytes, %d to the wire", d.name, k, len(rest))
		if k > 0 {
			e.Probe("protected_handoff")
		}
		d.handoffRest = rest // goes out first thing on the sender's goroutine (the network may push back)
	} else {
		mk(0, nil)
		mk(1, nil)
		w.dirs[0].hook(alts[0], alts[1])
		w.dirs[1].hook(alts[1], alts[0])
	}

	var wgW, wgR sync.WaitGroup
	for i := 0; i < 2; i++ {
		d := w.dirs[i]
		sender, receiver := alts[i], alts[1-i]
		wgW.Add(1)
		go func() {
			defer wgW.Done()
			if rest := d.handoffRest; len(rest) > 0 {
				d.handoffRest = nil
				d.fwd += len(rest)
				d.sendInner.Write(rest)
			}
			for k := first[i]; k < len(d.sc.Writes) && d.writerErr == nil; k++ {
				w.write(d, sender, k)
			}
			d.finish()
		}()
		wgR.Add(1)
		go func() {
			defer wgR.Done()
			w.reader(d, receiver)
		}()
	}
	wgW.Wait()
	// let everything in flight arrive and be consumed
	time.Sleep(time.Hour)
	synctest.Wait()
	for _, d := range w.dirs {
		w.quiescence(d)
	}
	w.closing = true
	cRaw.Close()
	sRaw.Close()
	wgR.Wait()
	nw.Shutdown()
}

// c52HookOne installs only the nonce recorder (protected-handoff runs do not
// use the counter seam).
func c52HookOne(d *c52DirState, sender *conn) {
	switch c := sender.crypto.(type) {
	case *aes128gcm:
		c.aead = &c52AEAD{AEAD: c.aead, d: d}
	case *aes128gcmRekey:
		c.outAEAD = &c52AEAD{AEAD: c.outAEAD, d: d}
	}
}

func (w *c52World) write(d *c52DirState, sender *conn, k int) {
	e := w.e
	op := d.sc.Writes[k]
	if op.GapNs > 0 && !d.capturing {
		time.Sleep(time.Duration(op.GapNs))
	}
	off := d.written
	if off+op.Size > len(d.plain) {
		return
	}
	b := d.plain[off : off+op.Size]
	rec0 := d.nrec
	d.curHold = op.HoldBack
	n, err := sender.Write(b)
	d.curHold = 0
	e.Logf("%s write#%d size=%d -> n=%d err=%v records=%d", d.name, k, op.Size, n, err, d.nrec-rec0)
	if err != nil {
		d.writerErr = err
		if d.sc.CtrKind == "overflow" {
			e.Probe("seal_refused_at_counter_overflow")
		} else if d.nfaults == 0 {
			e.Violate("write_failed", "%s write #%d of %d bytes failed without any injected fault: %v", d.name, k, op.Size, err)
		}
		return
	}
	if n != len(b) {
		e.Violate("write_failed", "%s write #%d returned n=%d for %d bytes with a nil error", d.name, k, n, len(b))
	}
	d.written += op.Size
	if d.nrec-rec0 > 1 {
		e.Probe("multi_record_write")
	}
	if op.Size+((d.nrec-rec0)*d.ovh) > c52WriteBufferSize {
		e.Probe("write_larger_than_write_buffer")
	}
	if len(d.pend) > 0 {
		e.Violate("wire_framing", "%s write #%d left %d bytes of an incomplete record on the wire", d.name, k, len(d.pend))
	}
}

// c52WriteBufferSize only decides when a probe is counted.
const c52WriteBufferSize = 512 * 1024

func (w *c52World) reader(d *c52DirState, ac *conn) {
	e := w.e
	maxb := 0
	for _, b := range d.sc.ReadBufs {
		if b > maxb {
			maxb = b
		}
	}
	buf := c52Grow(&c52Mem.rbuf[d.idx], maxb)
	zero := 0
	pool := &c52Pool{back: buf}
	for i := 0; ; i++ {
		size := d.sc.ReadBufs[i%len(d.sc.ReadBufs)]
		var data []byte
		var err error
		var h *[]byte
		if d.sc.ReadMode == "onready" {
			var n int
			h, n, err = ac.ReadOnReady(size, pool)
			if h != nil {
				if n > len(*h) {
					e.Violate("wrong_plaintext", "%s ReadOnReady returned n=%d with a buffer of %d", d.name, n, len(*h))
					n = len(*h)
				}
				data = (*h)[:n]
			} else if n != 0 {
				e.Violate("wrong_plaintext", "%s ReadOnReady returned n=%d without a buffer", d.name, n)
			}
		} else {
			var n int
			n, err = ac.Read(buf[:size])
			if n > size {
				e.Violate("wrong_plaintext", "%s Read returned n=%d for a buffer of %d", d.name, n, size)
				n = size
			}
			data = buf[:n]
		}
		d.reads++
		if len(data) > 0 {
			zero = 0
			end := d.got + len(data)
			if end > len(d.plain) || !bytes.Equal(data, d.plain[d.got:end]) {
				at := 0
				for at < len(data) && d.got+at < len(d.plain) && data[at] == d.plain[d.got+at] {
					at++
				}
				e.Violate("wrong_plaintext", "%s read #%d returned %d bytes that differ from the written stream at stream offset %d (err=%v)", d.name, i, len(data), d.got+at, err)
			} else {
				if end > d.deliverable {
					e.Violate("tamper_undetected", "%s read #%d delivered stream bytes up to %d but only %d bytes arrived intact and in order", d.name, i, end, d.deliverable)
				} else if d.firstErrOff >= 0 && end > d.firstErrOff && d.errs == 0 {
					e.Violate("tamper_undetected", "%s read #%d delivered bytes up to %d; a corrupted/out-of-order record preceded offset %d and no read failed", d.name, i, end, d.firstErrOff)
				}
			}
			if d.errs > 0 {
				e.Probe("stream_continued_after_detected_fault")
			}
			d.got = end
			if ac.protectedHandle == nil {
				d.seenIdle = true
			} else if cap(*ac.protectedHandle) > altsReadBufferInitialSize {
				d.seenGrown = true
			}
			if len(ac.buf) > 0 {
				d.seenPartial = true
			}
		}
		if h != nil {
			pool.used = len(data)
			pool.Put(h)
		}
		if err != nil {
			d.errs++
			if !w.closing {
				e.Logf("%s read #%d error after %d bytes: %v", d.name, i, d.got, err)
				if d.nfaults > 0 {
					e.Probe("fault_detected_by_read_error")
				}
			}
			if d.errs > d.sc.ExtraReads || w.closing {
				break
			}
		} else if len(data) == 0 {
			zero++
			if zero > 3 {
				e.Logf("%s reader: repeated empty reads", d.name)
				break
			}
		}
		if d.sc.ReadGapN > 0 && (i+1)%d.sc.ReadGapN == 0 && !w.closing {
			time.Sleep(time.Duration(d.sc.ReadGapNs))
		}
	}
	// keep the network drained so that a blocked sender can finish
	tmp := make([]byte, 65536)
	for {
		if _, err := d.recvInner.Read(tmp); err != nil {
			if ne, ok := err.(net.Error); ok && ne.Timeout() && !w.closing {
				d.recvInner.SetReadDeadline(time.Time{})
				continue
			}
			return
		}
	}
}

func (w *c52World) quiescence(d *c52DirState) {
	e := w.e
	e.Logf("%s quiescence: written=%d records=%d deliverable=%d got=%d errs=%d faults=%d errItems=%d desync=%v cut=%v", d.name, d.written, d.nrec, d.deliverable, d.got, d.errs, d.nfaults, d.errItems, d.desync, d.cut)
	if d.multiRec {
		e.Probe("several_records_in_one_network_write")
	}
	if d.seenIdle {
		e.Probe("reader_released_idle_buffer")
	}
	if d.seenGrown {
		e.Probe("reader_buffer_grown")
	}
	if d.seenPartial {
		e.Probe("record_read_in_pieces")
	}
	if d.sc.CtrKind == "rekey" && d.floorHi != nil && d.nrec > d.sc.CtrRem+1 {
		e.Probe("rekey_boundary_crossed")
	}
	if d.sc.CtrKind == "overflow" && d.floorHi != nil && d.nrec == d.sc.CtrRem+1 {
		e.Probe("sealed_with_last_counter_value")
	}
	clean := d.nfaults == 0 && d.writerErr == nil
	if clean {
		if d.deliverable != d.written {
			e.Violate("lost_bytes", "%s: %d bytes written without error but the records on the wire carry %d", d.name, d.written, d.deliverable)
		}
		if d.errs > 0 {
			e.Violate("spurious_error", "%s: a read failed although nothing was tampered with (%d of %d bytes delivered)", d.name, d.got, d.written)
		} else if d.got != d.written {
			e.Violate("lost_bytes", "%s: fault-free, everything delivered by the network, but the reader got %d of %d bytes", d.name, d.got, d.written)
		}
		if d.written > 0 {
			e.Probe("clean_direction_roundtrip")
		}
		return
	}
	if d.errs == 0 {
		if d.errItems > 0 && !d.desync {
			e.Violate("tamper_undetected", "%s: a corrupted, duplicated, reordered or truncated record arrived (first at stream offset %d) and no read failed; reader got %d bytes", d.name, d.firstErrOff, d.got)
		}
		if !d.desync && d.got != d.deliverable {
			e.Violate("lost_bytes", "%s: %d bytes arrived intact and in order but the reader got %d and no error", d.name, d.deliverable, d.got)
		}
	}
	if d.errs > 0 && d.errItems == 0 && !d.desync && d.writerErr == nil {
		// e.g. only a benign type-byte flip or a dropped last record: an error
		// here is not wrong plaintext, only counted
		e.Probe("error_without_visible_tamper")
	}
}
