package wx51

import (
	"context"
	"encoding/json"
	"fmt"
	"io"
	"net/url"
	"sort"
	"strings"
	"sync"
	"testing/synctest"
	"time"

	"google.golang.org/grpc"
	"google.golang.org/grpc/grpclog"
	"google.golang.org/grpc/internal"
	iresolver "google.golang.org/grpc/internal/resolver"
	"google.golang.org/grpc/internal/xds/balancer/clustermanager"
	"google.golang.org/grpc/internal/xds/bootstrap"
	"google.golang.org/grpc/internal/xds/clients/lrsclient"
	gxdsclient "google.golang.org/grpc/internal/xds/clients/xdsclient"
	"google.golang.org/grpc/internal/xds/httpfilter"
	_ "google.golang.org/grpc/internal/xds/httpfilter/router"
	_ "google.golang.org/grpc/internal/xds/resolver"
	ixdsclient "google.golang.org/grpc/internal/xds/xdsclient"
	"google.golang.org/grpc/internal/xds/xdsclient/xdsresource"
	"google.golang.org/grpc/internal/zzverif/core"
	"google.golang.org/grpc/resolver"
	"google.golang.org/grpc/serviceconfig"
	"google.golang.org/protobuf/proto"
)

func init() {
	grpclog.SetLoggerV2(grpclog.NewLoggerV2(io.Discard, io.Discard, io.Discard))
	httpfilter.Register(fltBuilder{})
}

const bootstrapJSON = `{
  "xds_servers": [{"server_uri": "wx51-mgmt", "channel_creds": [{"type": "insecure"}], "server_features": ["xds_v3"]}],
  "node": {"id": "wx51-node"}
}`

// ---- the xDS client handed to the resolver ----

// simClient is the internal xdsclient.XDSClient the resolver is given through
// internal.NewXDSResolverWithClientForTesting: the real generic client
// (internal/xds/clients/xdsclient) built from the real bootstrap-derived
// configuration, with only the TransportBuilder replaced.
type simClient struct {
	*gxdsclient.XDSClient
	bc *bootstrap.Config
}

func (c *simClient) BootstrapConfig() *bootstrap.Config { return c.bc }
func (c *simClient) ReportLoad(*bootstrap.ServerConfig) (*lrsclient.LoadStore, func(context.Context)) {
	return nil, func(context.Context) {}
}

// ---- HTTP filter whose interceptors tell when they are closed ----

type fltCfg struct {
	httpfilter.FilterConfig
}

type fltBuilder struct{}

func (fltBuilder) TypeURLs() []string {
	return []string{"type.googleapis.com/google.protobuf.StringValue"}
}
func (fltBuilder) ParseFilterConfig(proto.Message, httpfilter.ParseOptions) (httpfilter.FilterConfig, error) {
	return fltCfg{}, nil
}
func (fltBuilder) ParseFilterConfigOverride(proto.Message, httpfilter.ParseOptions) (httpfilter.FilterConfig, error) {
	return fltCfg{}, nil
}
func (fltBuilder) IsTerminal() bool { return false }
func (fltBuilder) BuildClientFilter(httpfilter.ClientFilterOptions) httpfilter.ClientFilter {
	return &flt{w: curWorld}
}

// curWorld: the world of the run in progress (one run at a time per process);
// the filter registry is process global.
var curWorld *world

type flt struct{ w *world }

func (f *flt) BuildClientInterceptor(_, _ httpfilter.FilterConfig) (httpfilter.ClientInterceptor, error) {
	w := f.w
	ic := &icpt{w: w, id: len(w.icpts)}
	w.icpts = append(w.icpts, ic)
	return ic, nil
}
func (f *flt) Close() {}

type icpt struct {
	w        *world
	id       int
	closeSeq uint64
	rpcs     []*rpcRec
}

type rpcKey struct{}

func (ic *icpt) NewStream(ctx context.Context, _ iresolver.RPCInfo, newStream func(ctx context.Context, opts ...grpc.CallOption) (grpc.ClientStream, error), opts ...grpc.CallOption) (grpc.ClientStream, error) {
	rec, _ := ctx.Value(rpcKey{}).(*rpcRec)
	if rec != nil {
		rec.ic = ic
		ic.rpcs = append(ic.rpcs, rec)
		if ic.closeSeq != 0 {
			ic.w.e.Violate("interceptor_alive", "rpc %d (cluster %s, selected at seq %d): the interceptor handed out with the selection was already closed (at seq %d)", rec.id, rec.cluster, rec.retSeq, ic.closeSeq)
		}
	}
	return nil, nil
}

func (ic *icpt) Close() {
	e := ic.w.e
	e.Logf("interceptor %d closed", ic.id)
	if ic.closeSeq == 0 {
		ic.closeSeq = e.Seq
	}
	if ic.w.resolverClosed {
		return
	}
	for _, rec := range ic.rpcs {
		if rec.commitSeq == 0 {
			e.Violate("interceptor_alive", "interceptor of rpc %d (cluster %s, selected at seq %d) closed before the rpc was committed", rec.id, rec.cluster, rec.retSeq)
		}
	}
}

// ---- records ----

type push struct {
	idx      int
	seq      uint64 // UpdateState entered
	retSeq   uint64
	children []string // sorted cluster names (without the "cluster:" prefix)
	resolved []string // sorted: clusters whose resource data is in the XDSConfig attribute
	refs     []string // sorted: clusters the routes of the config selector's virtual host name
	raw      string
	cs       iresolver.ConfigSelector
	hasSC    bool
}

func (p *push) has(c string) bool { return contains(p.children, c) }

type rpcRec struct {
	id        int
	actor     int
	spec      rpcSpec
	method    string
	push      *push // the push whose config selector was used
	callSeq   uint64
	retSeq    uint64
	err       error
	cluster   string
	cfg       *iresolver.RPCConfig
	ic        *icpt
	selNs     int64
	commitNs  int64
	commitSeq uint64 // OnCommitted about to be called (first time)
	doneSeq   uint64 // first OnCommitted returned
	phase     string // main | final | quiesce
}

type world struct {
	e              *core.Env
	s              *c51Scenario
	sv             *server
	mu             sync.RWMutex // the channel's SafeConfigSelector
	cur            *push
	pushes         []*push
	parsed         map[*serviceconfig.ParseResult]string
	rpcs           []*rpcRec
	icpts          []*icpt
	errs           int
	resolverClosed bool
	finalCh        chan struct{}
}

// ---- resolver.ClientConn ----

type fakeCC struct{ w *world }

type scJSON struct {
	LoadBalancingConfig []map[string]struct {
		Children map[string]json.RawMessage `json:"children"`
	} `json:"loadBalancingConfig"`
}

func parseChildren(js string) ([]string, bool) {
	var sc scJSON
	if err := json.Unmarshal([]byte(js), &sc); err != nil {
		return nil, false
	}
	var out []string
	for _, m := range sc.LoadBalancingConfig {
		cm, ok := m["xds_cluster_manager_experimental"]
		if !ok {
			continue
		}
		for k := range cm.Children {
			out = append(out, strings.TrimPrefix(k, "cluster:"))
		}
	}
	sort.Strings(out)
	return out, true
}

func (c *fakeCC) ParseServiceConfig(js string) *serviceconfig.ParseResult {
	pr := &serviceconfig.ParseResult{}
	c.w.parsed[pr] = js
	return pr
}

func (c *fakeCC) UpdateState(st resolver.State) error {
	w := c.w
	e := w.e
	p := &push{idx: len(w.pushes)}
	if st.ServiceConfig != nil {
		p.raw, p.hasSC = w.parsed[st.ServiceConfig]
		delete(w.parsed, st.ServiceConfig)
	}
	ch, ok := parseChildren(p.raw)
	if !ok {
		e.Violate("harness", "service config is not JSON: %q", p.raw)
	}
	p.children = ch
	p.cs = iresolver.GetConfigSelector(st)
	if xc := xdsresource.XDSConfigFromResolverState(st); xc != nil {
		for name, cr := range xc.Clusters {
			if cr != nil && cr.Err == nil && cr.Config.Cluster != nil {
				p.resolved = append(p.resolved, name)
			}
		}
		sort.Strings(p.resolved)
		if xc.VirtualHost != nil {
			seen := map[string]bool{}
			for _, rt := range xc.VirtualHost.Routes {
				for _, wc := range rt.WeightedClusters {
					if !seen[wc.Name] {
						seen[wc.Name] = true
						p.refs = append(p.refs, wc.Name)
					}
				}
			}
			sort.Strings(p.refs)
		}
	}
	e.Logf("push %d: clusters=%v selector=%v routes-name=%v cluster-resources=%v", p.idx, p.children, p.cs != nil, p.refs, p.resolved)
	p.seq = e.Seq
	w.pushes = append(w.pushes, p)
	// What the channel does with it: swap the config selector, waiting for
	// selections in progress on the old one (iresolver.SafeConfigSelector).
	w.mu.Lock()
	w.cur = p
	w.mu.Unlock()
	p.retSeq = e.Next()
	return nil
}

func (c *fakeCC) ReportError(err error) {
	c.w.errs++
	c.w.e.Logf("resolver error: %v", err)
}
func (c *fakeCC) NewAddress([]resolver.Address) {}

// ---- RPCs ----

func (w *world) newRPC(actor int, sp rpcSpec, phase string) *rpcRec {
	rec := &rpcRec{id: len(w.rpcs), actor: actor, spec: sp, method: methods[sp.M], phase: phase}
	w.rpcs = append(w.rpcs, rec)
	return rec
}

// selectConfig does what the channel does at the start of an RPC.
func (w *world) selectConfig(rec *rpcRec) {
	e := w.e
	ctx := context.WithValue(context.Background(), rpcKey{}, rec)
	w.mu.RLock()
	p := w.cur
	if p == nil || p.cs == nil {
		w.mu.RUnlock()
		rec.err = fmt.Errorf("no config selector")
		e.Logf("rpc %d: no config selector yet", rec.id)
		rec.callSeq, rec.retSeq = e.Seq, e.Seq
		e.Probe("select_without_selector")
		return
	}
	rec.push = p
	e.Logf("rpc %d: select %s on selector of push %d", rec.id, rec.method, p.idx)
	rec.callSeq = e.Seq
	cfg, err := p.cs.SelectConfig(iresolver.RPCInfo{Context: ctx, Method: rec.method})
	if err != nil {
		rec.err = err
		e.Logf("rpc %d: select failed: %v", rec.id, err)
		rec.retSeq = e.Seq
		w.mu.RUnlock()
		e.Probe("select_error")
		return
	}
	rec.cfg = cfg
	rec.cluster = strings.TrimPrefix(clustermanager.PickedCluster(cfg.Context), "cluster:")
	e.Logf("rpc %d: selected %s", rec.id, rec.cluster)
	rec.retSeq, rec.selNs = e.Seq, e.SimNs()
	w.mu.RUnlock()
	if ic, ok := cfg.Interceptor.(httpfilter.ClientInterceptor); ok && ic != nil {
		ic.NewStream(ctx, iresolver.RPCInfo{Context: ctx, Method: rec.method}, func(context.Context, ...grpc.CallOption) (grpc.ClientStream, error) { return nil, nil })
	}
	if rec.ic == nil {
		e.Violate("harness", "rpc %d: the selection carries no interceptor of the scripted filter", rec.id)
	}
}

func (w *world) commit(rec *rpcRec, n int) {
	e := w.e
	if rec.cfg == nil || rec.cfg.OnCommitted == nil {
		return
	}
	e.Logf("rpc %d: commit #%d (%s)", rec.id, n, rec.cluster)
	if rec.commitSeq == 0 {
		rec.commitSeq, rec.commitNs = e.Seq, e.SimNs()
	}
	rec.cfg.OnCommitted()
	e.Logf("rpc %d: commit #%d returned", rec.id, n)
	if rec.doneSeq == 0 {
		rec.doneSeq = e.Seq
	}
}

// settle: run until nothing moves any more (the resolver pushes from its
// serializer goroutine, the client from its own).
func (w *world) settle() {
	for i := 0; i < 50; i++ {
		seq, np := w.e.Seq, len(w.pushes)
		time.Sleep(time.Second)
		synctest.Wait()
		if w.e.Seq == seq && len(w.pushes) == np && i > 0 {
			return
		}
	}
	w.e.Violate("harness", "no quiescence")
}

func runC51(e *core.Env, s *c51Scenario) {
	w := &world{e: e, s: s, parsed: map[*serviceconfig.ParseResult]string{}, finalCh: make(chan struct{})}
	curWorld = w
	defer func() { curWorld = nil }()
	w.sv = newServer(w)

	bc, err := bootstrap.NewConfigFromContents([]byte(bootstrapJSON))
	if err != nil {
		e.Violate("harness", "bootstrap: %v", err)
		return
	}
	gcfg, err := ixdsclient.BuildXDSClientConfig(bc, nil, "xds:///"+listenerName, 15*time.Second)
	if err != nil {
		e.Violate("harness", "BuildXDSClientConfig: %v", err)
		return
	}
	gcfg.TransportBuilder = w.sv
	gc, err := gxdsclient.New(gcfg)
	if err != nil {
		e.Violate("harness", "xdsclient.New: %v", err)
		return
	}
	client := &simClient{XDSClient: gc, bc: bc}
	rb, err := internal.NewXDSResolverWithClientForTesting.(func(ixdsclient.XDSClient) (resolver.Builder, error))(client)
	if err != nil {
		e.Violate("harness", "resolver builder: %v", err)
		return
	}
	target := resolver.Target{URL: *mustURL("xds:///" + listenerName)}
	res, err := rb.Build(target, &fakeCC{w: w}, resolver.BuildOptions{})
	if err != nil {
		e.Violate("harness", "resolver Build: %v", err)
		gc.Close()
		return
	}

	// Setup phase: the first configuration arrives well before T0.
	time.Sleep(time.Duration(t0Ns))
	if len(w.pushes) == 0 {
		e.Violate("harness", "no configuration pushed during setup")
	}

	var wg sync.WaitGroup // actors, committers, step driver
	var lateWG sync.WaitGroup
	wg.Add(1)
	go func() {
		defer wg.Done()
		prev := int64(0)
		for i := range s.Steps {
			st := &s.Steps[i]
			if st.AtNs > prev {
				time.Sleep(time.Duration(st.AtNs - prev))
				prev = st.AtNs
			}
			w.sv.apply(st)
		}
	}()
	for ai, rs := range s.Actors {
		wg.Add(1)
		go func() {
			defer wg.Done()
			for _, sp := range rs {
				if sp.GapNs > 0 {
					time.Sleep(time.Duration(sp.GapNs))
				}
				rec := w.newRPC(ai, sp, "main")
				w.selectConfig(rec)
				if rec.cfg == nil {
					continue
				}
				g := &wg
				if sp.Late {
					g = &lateWG
				}
				g.Add(1)
				go func() {
					defer g.Done()
					if sp.Late {
						<-w.finalCh
					}
					if sp.HoldNs > 0 {
						time.Sleep(time.Duration(sp.HoldNs))
					}
					w.commit(rec, 1)
					if sp.Dbl {
						if sp.Dbl2Ns > 0 {
							time.Sleep(time.Duration(sp.Dbl2Ns))
						}
						w.commit(rec, 2)
					}
				}()
			}
		}()
	}
	wg.Wait()
	w.settle()
	e.Logf("quiescent (late rpcs still uncommitted)")
	w.checkDropped("first quiescence")
	w.checkWatchKept()

	// Fresh selections at quiescence must follow the latest route configuration.
	q0 := len(w.rpcs)
	for m := range methods {
		rec := w.newRPC(-1, rpcSpec{M: m}, "quiesce")
		w.selectConfig(rec)
		w.commit(rec, 1)
	}
	w.checkFresh(w.rpcs[q0:])
	w.settle()

	// End phase: the late RPCs commit.
	np := len(w.pushes)
	e.Logf("final commits")
	close(w.finalCh)
	lateWG.Wait()
	w.settle()
	e.Logf("quiescent (all rpcs committed)")
	if len(w.pushes) > np {
		e.Probe("config_pushed_on_last_commit")
	}
	w.checkDropped("final quiescence")

	w.checkHistory()

	e.Logf("resolver close")
	w.resolverClosed = true
	res.Close()
	gc.Close()
	synctest.Wait()
	if w.errs > 0 {
		e.Violate("unexpected_resolver_error", "the resolver reported %d error(s) to the channel although every scripted resource exists and is valid", w.errs)
	}
}

func mustURL(s string) *url.URL {
	u, err := url.Parse(s)
	if err != nil {
		panic(err)
	}
	return u
}

// clustersOf returns the sorted keys.
func clustersOf(m map[string]bool) []string {
	var out []string
	for k := range m {
		out = append(out, k)
	}
	sort.Strings(out)
	return out
}

// revivedDead is the classifier of the known open finding "dead clusterInfo
// revived" (known_findings.json, oracles dead_clusterinfo_revived_*).
//
// Mechanism in the resolver: an entry of activeClusters whose count reached 0
// has released its dependency-manager subscription for good (sync.OnceFunc)
// but stays in the map until the next prune; prune runs AFTER the next config
// selector is built, and building it takes the entry again (0 -> 1). From
// then on the entry is referenced but has no subscription, until a prune
// removes it.
//
// What the harness can see of this, push by push (every push is one
// xdsResolver.Update here): the entry of x exists over a run of consecutive
// pushes that all list x. It was revived at push j iff
//   - push j-1 lists x (the entry existed) but its config selector's routes do
//     not name x (so no selector held it after the one before was stopped),
//   - push j's routes name x (the new selector took the entry), and
//   - no RPC routed to x held it over the construction of selector j: every
//     such RPC selected before push j had begun its commit before push j
//     (an RPC that began its commit between the construction of the selector
//     and the push itself cannot be ordered by the harness and counts as not
//     holding: the only imprecision, towards "revived").
//
// The state lasts while every following push lists x. A violation about x at
// push i is attributed to the finding iff x is in that state at push i.
func (w *world) revivedDead(x string, upto int) bool {
	z := false
	for j := 0; j <= upto && j < len(w.pushes); j++ {
		p := w.pushes[j]
		if !p.has(x) {
			z = false
			continue
		}
		if j == 0 {
			continue
		}
		q := w.pushes[j-1]
		if !q.has(x) || contains(q.refs, x) || !contains(p.refs, x) {
			continue
		}
		held := false
		for _, rec := range w.rpcs {
			if rec.cfg != nil && rec.cluster == x && rec.retSeq < p.seq && (rec.commitSeq == 0 || rec.commitSeq > p.seq) {
				held = true
			}
		}
		if !held {
			z = true
		}
	}
	return z
}

// checkDropped (clause 3, judged at quiescence only): a cluster in the latest
// service config is referenced by the current route configuration or by an RPC
// that is selected and not yet committed.
func (w *world) checkDropped(when string) {
	e := w.e
	if len(w.pushes) == 0 {
		return
	}
	last := w.pushes[len(w.pushes)-1]
	cur := w.sv.current()
	want := cur.allClusters()
	for _, c := range last.children {
		if want[c] {
			continue
		}
		held := false
		for _, rec := range w.rpcs {
			if rec.cluster == c && rec.cfg != nil && rec.commitSeq == 0 {
				held = true
			}
		}
		if held {
			e.Probe("removed_cluster_kept_for_rpc_at_quiescence")
			continue
		}
		name := "removed_cluster_dropped"
		if w.revivedDead(c, last.idx) {
			name = "dead_clusterinfo_revived_cluster_not_dropped"
		}
		e.Violate(name, "%s: the latest service config (push %d) still contains cluster %s; the current route configuration (v%d %s) references only %v and no uncommitted RPC is routed to it", when, last.idx, c, cur.id, describeRC(cur.spec), clustersOf(want))
	}
}

// checkWatchKept (at quiescence only): the cluster of an RPC that is selected
// and not yet committed still has its cluster resource in the xDS
// configuration handed to the channel with the latest push, i.e. the
// dependency manager kept its watch. Between pushes the resource of a cluster
// that only RPCs hold may be missing for a while (the dependency manager
// re-fetches a cluster it had dropped before the resolver got round to
// subscribing); that is not judged.
func (w *world) checkWatchKept() {
	e := w.e
	if len(w.pushes) == 0 {
		return
	}
	last := w.pushes[len(w.pushes)-1]
	for _, rec := range w.rpcs {
		if rec.cfg == nil || rec.commitSeq != 0 {
			continue
		}
		x := rec.cluster
		if !last.has(x) || contains(last.resolved, x) {
			// (absence from the service config is cluster_kept_until_commit's business)
			continue
		}
		name := "cluster_resource_kept_until_commit"
		if w.revivedDead(x, last.idx) {
			name = "dead_clusterinfo_revived_resource_dropped"
		}
		e.Violate(name, "rpc %d routed to %s (selected at seq %d on push %d) is uncommitted at quiescence: the latest push %d keeps %s in the service config but the xDS configuration handed to the channel with it has cluster resources only for %v (the cluster's watch was dropped)", rec.id, x, rec.retSeq, rec.push.idx, last.idx, x, last.resolved)
	}
}

// checkFresh (convergence half of clause 4, at quiescence): a selection made
// now follows the route configuration the server sent last.
func (w *world) checkFresh(recs []*rpcRec) {
	e := w.e
	cur := w.sv.current()
	for _, rec := range recs {
		want := cur.clustersFor(rec.method)
		switch {
		case rec.push == nil:
			e.Violate("selection_follows_route_config", "at quiescence there is no config selector")
		case rec.err != nil && len(want) > 0:
			e.Violate("selection_follows_route_config", "at quiescence %s fails (%v) although v%d %s routes it to %v", rec.method, rec.err, cur.id, describeRC(cur.spec), want)
		case rec.err == nil && !contains(want, rec.cluster):
			e.Violate("selection_follows_route_config", "at quiescence %s is routed to %s; the current route configuration v%d %s gives %v", rec.method, rec.cluster, cur.id, describeRC(cur.spec), want)
		}
	}
}

// checkHistory: clauses 1, 2 and 4 on the recorded history.
func (w *world) checkHistory() {
	e := w.e
	removedWhile := map[int]bool{}
	for _, rec := range w.rpcs {
		if rec.cfg == nil {
			continue
		}
		x := rec.cluster
		// (4) no phantom: some route-config version that had left the server
		// before the selection returned routes the method to x ...
		ok := false
		for _, v := range w.sv.vers {
			if v.emitSeq != 0 && v.emitSeq < rec.retSeq && contains(v.clustersFor(rec.method), x) {
				ok = true
			}
		}
		if !ok {
			e.Violate("no_phantom_cluster", "rpc %d: %s was routed to %s (returned at seq %d) but no route configuration sent by the server before that does so", rec.id, rec.method, x, rec.retSeq)
		}
		// (1) the configuration in force when the selection was made and every
		// configuration pushed until the commit contains x.
		end := rec.commitSeq
		for _, p := range w.pushes {
			if p.idx < rec.push.idx {
				continue
			}
			if end != 0 && p.seq > end {
				break
			}
			if !p.has(x) {
				kind := "pushed while the rpc was uncommitted"
				if p == rec.push {
					kind = "that came with the config selector used"
				}
				commit := "never committed"
				if end != 0 {
					commit = fmt.Sprintf("committed at seq %d", end)
				}
				e.Violate("cluster_kept_until_commit", "rpc %d routed to %s (selected at seq %d on push %d, %s): service config of push %d (seq %d, %s) has clusters %v", rec.id, x, rec.retSeq, rec.push.idx, commit, p.idx, p.seq, kind, p.children)
				break
			}
			if p.idx > rec.push.idx {
				// was x gone from the route configuration the client knew?
				if !w.inLatestEmitted(x, p.seq) {
					removedWhile[rec.id] = true
				}
			}
		}
	}
	// probes
	for _, rec := range w.rpcs {
		if rec.cfg == nil {
			continue
		}
		if removedWhile[rec.id] {
			e.Probe("cluster_removed_while_rpc_uncommitted")
		}
		if rec.spec.Dbl {
			e.Probe("double_commit")
		}
		if rec.commitSeq == 0 {
			continue
		}
		// a push was in progress (entered, not returned) or happened at the
		// very instant of the commit / selection
		for _, p := range w.pushes {
			if p.seq < rec.commitSeq && rec.commitSeq < p.retSeq || p.seq > rec.commitSeq && p.seq < rec.doneSeq {
				e.Probe("commit_during_push")
			}
			if p.seq < rec.retSeq && rec.callSeq < p.retSeq && p != rec.push {
				e.Probe("select_during_push")
			}
		}
	}
	w.probeTimeline()
}

// inLatestEmitted: does the route configuration most recently sent by the
// server before seq (for the name the listener then designated; approximated
// by "the last version that left the server") reference x?
func (w *world) inLatestEmitted(x string, seq uint64) bool {
	var last *rcVersion
	for _, v := range w.sv.vers {
		if v.emitSeq != 0 && v.emitSeq < seq && (last == nil || v.emitSeq > last.emitSeq) {
			last = v
		}
	}
	return last == nil || last.allClusters()[x]
}

// probeTimeline: rare conditions read off the sequence of pushes.
func (w *world) probeTimeline() {
	e := w.e
	// cluster_readded_while_draining: x absent from the route config the
	// client has, kept for an RPC, and then a later version brings it back
	// before that RPC commits.
	for _, rec := range w.rpcs {
		if rec.cfg == nil {
			continue
		}
		gone := false
		for _, v := range w.sv.vers {
			if v.emitSeq == 0 || v.emitSeq < rec.retSeq || (rec.commitSeq != 0 && v.emitSeq > rec.commitSeq) {
				continue
			}
			has := v.allClusters()[rec.cluster]
			if !has {
				gone = true
			} else if gone {
				e.Probe("cluster_readded_while_draining")
				break
			}
		}
	}
	// a commit / a selection at the very virtual instant at which a listener
	// or route-configuration response left the server
	for _, rec := range w.rpcs {
		if rec.cfg == nil || rec.phase != "main" {
			continue
		}
		for _, ns := range w.sv.updNs {
			if rec.commitSeq != 0 && ns == rec.commitNs {
				e.Probe("commit_at_update_instant")
				break
			}
		}
		for _, ns := range w.sv.updNs {
			if ns == rec.selNs {
				e.Probe("select_at_update_instant")
				break
			}
		}
	}
	for i := 1; i < len(w.pushes); i++ {
		for _, c := range w.pushes[i-1].children {
			if !w.pushes[i].has(c) {
				e.Probe("cluster_dropped_from_config")
			}
		}
	}
	e.ProbeN("pushes", len(w.pushes))
}
