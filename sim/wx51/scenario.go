// Package wx51: the real xDS resolver (internal/xds/resolver) with the real
// dependency manager and the real generic xDS client, fed by a scripted
// management server through a scripted clients.Transport. Property C51.
package wx51

import (
	"fmt"

	"google.golang.org/grpc/internal/zzverif/core"
)

const (
	us  = int64(1000)
	ms  = 1000 * us
	sec = 1000 * ms

	maxClusters = 5
	nRCNames    = 2 // RouteConfiguration resource names the Listener may point at
	t0Ns        = 1 * sec
)

// prefixes a route may match on; the last one matches every method.
var prefixes = []string{"/a/", "/b/", "/"}

// methods an RPC may use.
var methods = []string{"/a/m", "/b/m", "/c/m"}

type clusterW struct {
	C int `json:"c"` // cluster index (name "c<C>")
	W int `json:"w"` // weight, >= 1
}

type routeSpec struct {
	P  int        `json:"p"` // index into prefixes
	Cl []clusterW `json:"cl"`
}

// rcSpec is the content of one version of a route configuration (one virtual
// host matching every authority).
type rcSpec struct {
	Routes []routeSpec `json:"routes"`
}

// step is one action of the management server at T0+AtNs.
//
//	rds: the RouteConfiguration resource <Name> gets new content RC
//	lds: the Listener now points at RouteConfiguration <Name>, or carries RC
//	     inline when Name < 0
type step struct {
	AtNs int64   `json:"at_ns"`
	Kind string  `json:"kind"`
	Name int     `json:"name"`
	RC   *rcSpec `json:"rc,omitempty"`
}

// rpcSpec is one RPC of an actor: GapNs after the previous one it calls
// SelectConfig; HoldNs later a separate goroutine calls OnCommitted (twice,
// Dbl2Ns apart, when Dbl). Late: it commits only in the end phase (after the
// first quiescence check).
type rpcSpec struct {
	GapNs  int64 `json:"gap_ns"`
	M      int   `json:"m"`
	HoldNs int64 `json:"hold_ns"`
	Late   bool  `json:"late,omitempty"`
	Dbl    bool  `json:"dbl,omitempty"`
	Dbl2Ns int64 `json:"dbl2_ns,omitempty"`
}

type c51Scenario struct {
	Sched      core.Sched  `json:"sched"`
	InitName   int         `json:"init_name"` // Listener's initial route config name (<0: inline InitRC[0])
	InitRC     []rcSpec    `json:"init_rc"`   // initial content of the nRCNames route configurations
	Steps      []step      `json:"steps"`
	Actors     [][]rpcSpec `json:"actors"`
	CDSDelayNs int64       `json:"cds_delay_ns"` // server latency before a CDS/EDS response
	RDSDelayNs int64       `json:"rds_delay_ns"` // server latency before an LDS/RDS response
}

func (s *c51Scenario) SchedP() *core.Sched { return &s.Sched }

func (s *c51Scenario) Shape() string {
	n, late, dbl := 0, 0, 0
	for _, a := range s.Actors {
		n += len(a)
		for _, r := range a {
			if r.Late {
				late++
			}
			if r.Dbl {
				dbl++
			}
		}
	}
	nl := 0
	for _, st := range s.Steps {
		if st.Kind == "lds" {
			nl++
		}
	}
	return fmt.Sprintf("actors=%d rpcs=%d late=%d dbl=%d steps=%d lds=%d", len(s.Actors), n, late, dbl, len(s.Steps), nl)
}

func (rc *rcSpec) validate() error {
	if rc == nil {
		return fmt.Errorf("missing route config")
	}
	if len(rc.Routes) > 4 {
		return fmt.Errorf("too many routes")
	}
	for _, rt := range rc.Routes {
		if rt.P < 0 || rt.P >= len(prefixes) {
			return fmt.Errorf("bad prefix index")
		}
		if len(rt.Cl) < 1 || len(rt.Cl) > maxClusters {
			return fmt.Errorf("route needs 1..%d clusters", maxClusters)
		}
		seen := map[int]bool{}
		for _, c := range rt.Cl {
			if c.C < 0 || c.C >= maxClusters || c.W < 1 || c.W > 1000 {
				return fmt.Errorf("bad weighted cluster")
			}
			if seen[c.C] {
				return fmt.Errorf("cluster twice in one route")
			}
			seen[c.C] = true
		}
	}
	return nil
}

func (s *c51Scenario) Validate() error {
	if len(s.InitRC) != nRCNames {
		return fmt.Errorf("init_rc must have %d entries", nRCNames)
	}
	for i := range s.InitRC {
		if err := s.InitRC[i].validate(); err != nil {
			return err
		}
	}
	if s.InitName >= nRCNames {
		return fmt.Errorf("bad init name")
	}
	if len(s.Actors) > 4 {
		return fmt.Errorf("at most 4 actors")
	}
	if s.CDSDelayNs < 0 || s.RDSDelayNs < 0 || s.CDSDelayNs > 100*ms || s.RDSDelayNs > 100*ms {
		return fmt.Errorf("bad delay")
	}
	last := int64(0)
	for _, st := range s.Steps {
		if st.AtNs < last || st.AtNs > 10*sec {
			return fmt.Errorf("steps must be ordered in time")
		}
		last = st.AtNs
		switch st.Kind {
		case "rds":
			if st.Name < 0 || st.Name >= nRCNames {
				return fmt.Errorf("bad rds name")
			}
			if err := st.RC.validate(); err != nil {
				return err
			}
		case "lds":
			if st.Name >= nRCNames {
				return fmt.Errorf("bad lds name")
			}
			if st.Name < 0 {
				if err := st.RC.validate(); err != nil {
					return err
				}
			}
		default:
			return fmt.Errorf("bad step kind")
		}
	}
	n := 0
	for _, a := range s.Actors {
		for _, r := range a {
			n++
			if r.M < 0 || r.M >= len(methods) || r.GapNs < 0 || r.HoldNs < 0 || r.Dbl2Ns < 0 || r.GapNs > 10*sec || r.HoldNs > 10*sec || r.Dbl2Ns > 10*sec {
				return fmt.Errorf("bad rpc")
			}
		}
	}
	if n > 64 {
		return fmt.Errorf("too many rpcs")
	}
	return nil
}

func genSched(r *core.Rand, seed uint64) core.Sched {
	return core.Sched{SchedSeed: core.Mix(seed, 11), AuxSeed: core.Mix(seed, 12), YieldThr: core.Pick(r, uint32(0), 200, 700, 3300, 13000, 30000)}
}

// genRC draws a route configuration over the clusters 0..nc-1.
func genRC(r *core.Rand, nc int) rcSpec {
	var rc rcSpec
	nr := core.Pick(r, 1, 1, 1, 2, 2, 3)
	used := map[int]bool{}
	for i := 0; i < nr; i++ {
		p := len(prefixes) - 1 // catch-all last
		if i < nr-1 || r.Chance(1, 6) {
			p = r.Intn(len(prefixes) - 1)
			if used[p] {
				continue
			}
		}
		used[p] = true
		var rt routeSpec
		rt.P = p
		k := core.Pick(r, 1, 1, 1, 2, 2, 3)
		if k > nc {
			k = nc
		}
		cs := map[int]bool{}
		for len(rt.Cl) < k {
			c := r.Intn(nc)
			if cs[c] {
				continue
			}
			cs[c] = true
			rt.Cl = append(rt.Cl, clusterW{C: c, W: core.Pick(r, 1, 1, 2, 10, 100)})
		}
		rc.Routes = append(rc.Routes, rt)
	}
	if len(rc.Routes) == 0 {
		rc.Routes = []routeSpec{{P: len(prefixes) - 1, Cl: []clusterW{{C: r.Intn(nc), W: 1}}}}
	}
	return rc
}

func genC51(seed uint64, tier string) *c51Scenario {
	r := core.NewRand(core.Mix(seed, 0x5151))
	s := &c51Scenario{Sched: genSched(r, seed)}
	big := tier == "thorough" && r.Chance(1, 3)
	nc := r.Range(2, 4)
	if big {
		nc = r.Range(2, maxClusters)
	}
	// time grid: events fall on few distinct instants so that selections,
	// commits and updates coincide.
	grid := core.Pick(r, 0, 1*us, 100*us, 1*ms, 20*ms)
	slots := core.Pick(r, 1, 2, 3, 5, 8)
	tm := func() int64 { return int64(r.Intn(slots+1)) * grid }

	s.InitName = core.Pick(r, 0, 0, 0, 1, -1)
	for i := 0; i < nRCNames; i++ {
		s.InitRC = append(s.InitRC, genRC(r, nc))
	}
	s.CDSDelayNs = core.Pick(r, 0, 0, 0, 1*us, 50*us, 1*ms)
	s.RDSDelayNs = core.Pick(r, 0, 0, 0, 0, 1*us, 50*us)

	nsteps := r.Range(1, 6)
	if big {
		nsteps = r.Range(4, 14)
	}
	at := int64(0)
	for i := 0; i < nsteps; i++ {
		at += tm()
		st := step{AtNs: at}
		if r.Chance(1, 5) {
			st.Kind = "lds"
			st.Name = core.Pick(r, 0, 1, -1)
			if st.Name < 0 {
				rc := genRC(r, nc)
				st.RC = &rc
			}
		} else {
			st.Kind = "rds"
			st.Name = r.Intn(nRCNames)
			if r.Chance(3, 4) {
				// mostly the one in use at the start
				st.Name = 0
				if s.InitName > 0 {
					st.Name = s.InitName
				}
			}
			rc := genRC(r, nc)
			st.RC = &rc
		}
		s.Steps = append(s.Steps, st)
	}

	na := r.Range(1, 4)
	maxR := 4
	if big {
		maxR = 9
	}
	for a := 0; a < na; a++ {
		var rs []rpcSpec
		for k := r.Range(1, maxR); k > 0; k-- {
			rp := rpcSpec{GapNs: tm(), M: r.Intn(len(methods)), HoldNs: tm() * int64(r.Range(0, 3))}
			if r.Chance(1, 2) {
				// two thirds of the methods hit a catch-all route anyway; bias
				// to one method so that RPCs share routes
				rp.M = 0
			}
			if r.Chance(1, 5) {
				rp.Late = true
			}
			if r.Chance(1, 4) {
				rp.Dbl = true
				rp.Dbl2Ns = tm()
			}
			rs = append(rs, rp)
		}
		s.Actors = append(s.Actors, rs)
	}
	return s
}
