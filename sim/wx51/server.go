package wx51

import (
	"context"
	"errors"
	"fmt"
	"sort"
	"strings"
	"time"

	v3clusterpb "github.com/envoyproxy/go-control-plane/envoy/config/cluster/v3"
	v3corepb "github.com/envoyproxy/go-control-plane/envoy/config/core/v3"
	v3endpointpb "github.com/envoyproxy/go-control-plane/envoy/config/endpoint/v3"
	v3listenerpb "github.com/envoyproxy/go-control-plane/envoy/config/listener/v3"
	v3routepb "github.com/envoyproxy/go-control-plane/envoy/config/route/v3"
	v3routerpb "github.com/envoyproxy/go-control-plane/envoy/extensions/filters/http/router/v3"
	v3httppb "github.com/envoyproxy/go-control-plane/envoy/extensions/filters/network/http_connection_manager/v3"
	v3discoverypb "github.com/envoyproxy/go-control-plane/envoy/service/discovery/v3"
	"google.golang.org/grpc/internal/xds/clients"
	"google.golang.org/protobuf/proto"
	"google.golang.org/protobuf/types/known/anypb"
	"google.golang.org/protobuf/types/known/wrapperspb"
)

const (
	urlLDS = "type.googleapis.com/envoy.config.listener.v3.Listener"
	urlRDS = "type.googleapis.com/envoy.config.route.v3.RouteConfiguration"
	urlCDS = "type.googleapis.com/envoy.config.cluster.v3.Cluster"
	urlEDS = "type.googleapis.com/envoy.config.endpoint.v3.ClusterLoadAssignment"

	listenerName = "wx51.svc"
	filterName   = "wx51flt"
)

var typeURLs = []string{urlLDS, urlRDS, urlCDS, urlEDS}

func typeIdx(u string) int {
	for i, t := range typeURLs {
		if t == u {
			return i
		}
	}
	return -1
}

func clusterName(i int) string { return fmt.Sprintf("c%d", i) }
func rcName(i int) string      { return fmt.Sprintf("rc%d", i) }

// rcVersion is one version of a route configuration the server may hand out.
type rcVersion struct {
	id      int
	spec    *rcSpec
	where   string // rc0 | rc1 | inline
	emitSeq uint64 // first time Recv returned it (0: never left the server)
}

// clustersFor: the clusters of the first route of the version matching the
// method (nil: no route matches).
func (v *rcVersion) clustersFor(method string) []string {
	for _, rt := range v.spec.Routes {
		if strings.HasPrefix(method, prefixes[rt.P]) {
			var out []string
			for _, c := range rt.Cl {
				out = append(out, clusterName(c.C))
			}
			return out
		}
	}
	return nil
}

func (v *rcVersion) allClusters() map[string]bool {
	m := map[string]bool{}
	for _, rt := range v.spec.Routes {
		for _, c := range rt.Cl {
			m[clusterName(c.C)] = true
		}
	}
	return m
}

func mustAny(m proto.Message) *anypb.Any {
	a, err := anypb.New(m)
	if err != nil {
		panic(err)
	}
	return a
}

func buildRouteConfig(name string, v *rcVersion) *v3routepb.RouteConfiguration {
	var routes []*v3routepb.Route
	for _, rt := range v.spec.Routes {
		ra := &v3routepb.RouteAction{}
		if len(rt.Cl) == 1 && rt.Cl[0].W == 1 {
			ra.ClusterSpecifier = &v3routepb.RouteAction_Cluster{Cluster: clusterName(rt.Cl[0].C)}
		} else {
			wc := &v3routepb.WeightedCluster{}
			for _, c := range rt.Cl {
				wc.Clusters = append(wc.Clusters, &v3routepb.WeightedCluster_ClusterWeight{Name: clusterName(c.C), Weight: wrapperspb.UInt32(uint32(c.W))})
			}
			ra.ClusterSpecifier = &v3routepb.RouteAction_WeightedClusters{WeightedClusters: wc}
		}
		routes = append(routes, &v3routepb.Route{
			Match:  &v3routepb.RouteMatch{PathSpecifier: &v3routepb.RouteMatch_Prefix{Prefix: prefixes[rt.P]}},
			Action: &v3routepb.Route_Route{Route: ra},
		})
	}
	return &v3routepb.RouteConfiguration{
		Name: name,
		VirtualHosts: []*v3routepb.VirtualHost{{
			Name:    fmt.Sprintf("vh-v%d", v.id),
			Domains: []string{"*"},
			Routes:  routes,
		}},
	}
}

func buildListener(rdsName string, inline *rcVersion) *v3listenerpb.Listener {
	hcm := &v3httppb.HttpConnectionManager{
		HttpFilters: []*v3httppb.HttpFilter{
			{Name: filterName, ConfigType: &v3httppb.HttpFilter_TypedConfig{TypedConfig: mustAny(wrapperspb.String("wx51"))}},
			{Name: "router", ConfigType: &v3httppb.HttpFilter_TypedConfig{TypedConfig: mustAny(&v3routerpb.Router{})}},
		},
	}
	if inline != nil {
		hcm.RouteSpecifier = &v3httppb.HttpConnectionManager_RouteConfig{RouteConfig: buildRouteConfig("inline", inline)}
	} else {
		hcm.RouteSpecifier = &v3httppb.HttpConnectionManager_Rds{Rds: &v3httppb.Rds{
			ConfigSource:    &v3corepb.ConfigSource{ConfigSourceSpecifier: &v3corepb.ConfigSource_Ads{Ads: &v3corepb.AggregatedConfigSource{}}},
			RouteConfigName: rdsName,
		}}
	}
	return &v3listenerpb.Listener{
		Name:        listenerName,
		ApiListener: &v3listenerpb.ApiListener{ApiListener: mustAny(hcm)},
	}
}

func buildCluster(name string) *v3clusterpb.Cluster {
	return &v3clusterpb.Cluster{
		Name:                 name,
		LbPolicy:             v3clusterpb.Cluster_ROUND_ROBIN,
		ClusterDiscoveryType: &v3clusterpb.Cluster_Type{Type: v3clusterpb.Cluster_EDS},
		EdsClusterConfig: &v3clusterpb.Cluster_EdsClusterConfig{
			EdsConfig: &v3corepb.ConfigSource{ConfigSourceSpecifier: &v3corepb.ConfigSource_Ads{Ads: &v3corepb.AggregatedConfigSource{}}},
		},
	}
}

func buildEndpoints(name string) *v3endpointpb.ClusterLoadAssignment {
	return &v3endpointpb.ClusterLoadAssignment{
		ClusterName: name,
		Endpoints: []*v3endpointpb.LocalityLbEndpoints{{
			Locality:            &v3corepb.Locality{Region: "r", Zone: "z", SubZone: "s"},
			LoadBalancingWeight: wrapperspb.UInt32(1),
			LbEndpoints: []*v3endpointpb.LbEndpoint{{
				HostIdentifier: &v3endpointpb.LbEndpoint_Endpoint{Endpoint: &v3endpointpb.Endpoint{
					Address: &v3corepb.Address{Address: &v3corepb.Address_SocketAddress{SocketAddress: &v3corepb.SocketAddress{
						Protocol: v3corepb.SocketAddress_TCP, Address: "10.0.0.1", PortSpecifier: &v3corepb.SocketAddress_PortValue{PortValue: 443},
					}}},
				}},
				LoadBalancingWeight: wrapperspb.UInt32(1),
			}},
		}},
	}
}

// ---- the scripted management server ----

type outMsg struct {
	typ   int
	delay int64
	desc  string
	bytes []byte
	vers  []*rcVersion // route-config versions carried
}

type sstream struct {
	sv     *server
	idx    int
	ctx    context.Context
	q      []*outMsg
	wake   chan struct{}
	names  [4][]string // last requested names per type
	seen   [4]bool
	nonce  int
	closed bool
}

type server struct {
	w       *world
	nver    int
	ldsName int        // route config the Listener points at (<0: inline)
	inline  *rcVersion // when ldsName < 0
	rds     []*rcVersion
	vers    []*rcVersion // every version ever created, in creation order
	respVer int
	streams []*sstream
	nbuilds int
	updNs   []int64 // instants at which an LDS/RDS response left the server (after T0)
	closes  int
}

func newServer(w *world) *server {
	sv := &server{w: w}
	s := w.s
	for i := 0; i < nRCNames; i++ {
		sv.rds = append(sv.rds, sv.newVersion(&s.InitRC[i], rcName(i)))
	}
	sv.ldsName = s.InitName
	if sv.ldsName < 0 {
		sv.inline = sv.newVersion(&s.InitRC[0], "inline")
	}
	return sv
}

func (sv *server) newVersion(spec *rcSpec, where string) *rcVersion {
	sv.nver++
	v := &rcVersion{id: sv.nver, spec: spec, where: where}
	sv.vers = append(sv.vers, v)
	return v
}

// current: the route-config version the Listener currently designates.
func (sv *server) current() *rcVersion {
	if sv.ldsName < 0 {
		return sv.inline
	}
	return sv.rds[sv.ldsName]
}

func (sv *server) cur() *sstream {
	if len(sv.streams) == 0 {
		return nil
	}
	st := sv.streams[len(sv.streams)-1]
	if st.closed || st.ctx.Err() != nil {
		return nil
	}
	return st
}

// apply executes one scripted step.
func (sv *server) apply(st *step) {
	e := sv.w.e
	switch st.Kind {
	case "rds":
		v := sv.newVersion(st.RC, rcName(st.Name))
		sv.rds[st.Name] = v
		e.Logf("server: %s := v%d %s", rcName(st.Name), v.id, describeRC(st.RC))
		if s := sv.cur(); s != nil && contains(s.names[1], rcName(st.Name)) {
			s.enqueue(1, []string{rcName(st.Name)})
		}
	case "lds":
		sv.ldsName = st.Name
		if st.Name < 0 {
			sv.inline = sv.newVersion(st.RC, "inline")
			e.Logf("server: listener := inline v%d %s", sv.inline.id, describeRC(st.RC))
		} else {
			sv.inline = nil
			e.Logf("server: listener := rds %s", rcName(st.Name))
		}
		if s := sv.cur(); s != nil && contains(s.names[0], listenerName) {
			s.enqueue(0, []string{listenerName})
		}
	}
}

func describeRC(rc *rcSpec) string {
	var sb strings.Builder
	for i, rt := range rc.Routes {
		if i > 0 {
			sb.WriteString("; ")
		}
		sb.WriteString(prefixes[rt.P] + "->")
		for j, c := range rt.Cl {
			if j > 0 {
				sb.WriteString(",")
			}
			fmt.Fprintf(&sb, "%s*%d", clusterName(c.C), c.W)
		}
	}
	return "{" + sb.String() + "}"
}

func contains(xs []string, x string) bool {
	for _, y := range xs {
		if x == y {
			return true
		}
	}
	return false
}

// enqueue builds a response of the given type for the given names from the
// server's present state and queues it on the stream.
func (s *sstream) enqueue(typ int, names []string) {
	sv := s.sv
	sv.respVer++
	s.nonce++
	resp := &v3discoverypb.DiscoveryResponse{VersionInfo: fmt.Sprintf("%d", sv.respVer), Nonce: fmt.Sprintf("n%d.%d", s.idx, s.nonce), TypeUrl: typeURLs[typ]}
	m := &outMsg{typ: typ}
	var desc []string
	for _, n := range names {
		switch typ {
		case 0:
			if n != listenerName {
				continue
			}
			if sv.ldsName < 0 {
				resp.Resources = append(resp.Resources, mustAny(buildListener("", sv.inline)))
				m.vers = append(m.vers, sv.inline)
				desc = append(desc, fmt.Sprintf("listener(inline v%d)", sv.inline.id))
			} else {
				resp.Resources = append(resp.Resources, mustAny(buildListener(rcName(sv.ldsName), nil)))
				desc = append(desc, fmt.Sprintf("listener(rds %s)", rcName(sv.ldsName)))
			}
		case 1:
			for i := 0; i < nRCNames; i++ {
				if n == rcName(i) {
					resp.Resources = append(resp.Resources, mustAny(buildRouteConfig(n, sv.rds[i])))
					m.vers = append(m.vers, sv.rds[i])
					desc = append(desc, fmt.Sprintf("%s=v%d", n, sv.rds[i].id))
				}
			}
		case 2:
			resp.Resources = append(resp.Resources, mustAny(buildCluster(n)))
			desc = append(desc, n)
		case 3:
			resp.Resources = append(resp.Resources, mustAny(buildEndpoints(n)))
			desc = append(desc, n)
		}
	}
	b, err := proto.Marshal(resp)
	if err != nil {
		panic(err)
	}
	m.bytes = b
	m.desc = fmt.Sprintf("typ=%d ver=%s nonce=%s [%s]", typ, resp.VersionInfo, resp.Nonce, strings.Join(desc, " "))
	if typ >= 2 {
		m.delay = sv.w.s.CDSDelayNs
	} else {
		m.delay = sv.w.s.RDSDelayNs
	}
	s.q = append(s.q, m)
	select {
	case s.wake <- struct{}{}:
	default:
	}
}

// ---- clients.TransportBuilder / Transport / Stream ----

func (sv *server) Build(si clients.ServerIdentifier) (clients.Transport, error) {
	sv.nbuilds++
	sv.w.e.Logf("transport build %s", si.ServerURI)
	return sv, nil
}

func (sv *server) NewStream(ctx context.Context, method string) (clients.Stream, error) {
	if ctx.Err() != nil {
		return nil, ctx.Err()
	}
	st := &sstream{sv: sv, idx: len(sv.streams), ctx: ctx, wake: make(chan struct{}, 1)}
	sv.streams = append(sv.streams, st)
	sv.w.e.Logf("server: stream %d opened (%s)", st.idx, method[strings.LastIndex(method, "/")+1:])
	return st, nil
}

func (sv *server) Close() {
	sv.closes++
	sv.w.e.Logf("transport close")
}

func (s *sstream) Send(b []byte) error {
	e := s.sv.w.e
	if s.ctx.Err() != nil {
		return errors.New("wx51: stream closed")
	}
	var req v3discoverypb.DiscoveryRequest
	if err := proto.Unmarshal(b, &req); err != nil {
		e.Violate("harness", "Send of bytes that are no DiscoveryRequest: %v", err)
		return nil
	}
	typ := typeIdx(req.GetTypeUrl())
	names := append([]string{}, req.GetResourceNames()...)
	sort.Strings(names)
	e.Logf("server: stream %d request typ=%d ver=%q nonce=%q names=%v", s.idx, typ, req.GetVersionInfo(), req.GetResponseNonce(), names)
	if req.GetErrorDetail() != nil {
		// The scripted resources are all meant to be valid.
		e.Violate("harness", "client NACKed a scripted resource: %s", req.GetErrorDetail().GetMessage())
		return nil
	}
	if typ < 0 {
		return nil
	}
	changed := !s.seen[typ] || strings.Join(names, ",") != strings.Join(s.names[typ], ",")
	// names that were not requested before: answer them
	var add []string
	for _, n := range names {
		if !contains(s.names[typ], n) {
			add = append(add, n)
		}
	}
	s.seen[typ] = true
	s.names[typ] = names
	if !changed || len(add) == 0 {
		return nil
	}
	switch typ {
	case 0, 2:
		// state-of-the-world types: always the full set
		s.enqueue(typ, names)
	default:
		s.enqueue(typ, add)
	}
	return nil
}

func (s *sstream) Recv() ([]byte, error) {
	e := s.sv.w.e
	for {
		if s.ctx.Err() != nil {
			s.closed = true
			return nil, errors.New("wx51: stream closed")
		}
		if len(s.q) > 0 {
			m := s.q[0]
			s.q = s.q[1:]
			if m.delay > 0 {
				t := time.NewTimer(time.Duration(m.delay))
				select {
				case <-t.C:
				case <-s.ctx.Done():
					t.Stop()
					s.closed = true
					return nil, errors.New("wx51: stream closed")
				}
			}
			e.Logf("server: stream %d response %s", s.idx, m.desc)
			if m.typ <= 1 && e.SimNs() >= t0Ns {
				s.sv.updNs = append(s.sv.updNs, e.SimNs())
			}
			for _, v := range m.vers {
				if v.emitSeq == 0 {
					v.emitSeq = e.Seq
				}
			}
			return m.bytes, nil
		}
		select {
		case <-s.wake:
		case <-s.ctx.Done():
		}
	}
}
