package wx51

import (
	"testing"

	"google.golang.org/grpc/internal/zzverif/core"
)

func TestSimWorker(t *testing.T) {
	// protobuf, encoding/json and reflect keep process-global caches that grow
	// on first use of a message type / struct type: enough throw-away runs make
	// every reported run start from the same warmed state.
	core.Warmups = 16
	core.WorkerMain(t)
}
