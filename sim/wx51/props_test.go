package wx51

import "google.golang.org/grpc/internal/zzverif/core"

func init() { core.Register("C51", genC51, runC51) }
