package transport

import (
	"context"
	"fmt"
	"io"
	"testing/synctest"
	"time"

	"golang.org/x/net/http2"
	"google.golang.org/grpc/codes"
	"google.golang.org/grpc/internal/envconfig"
	"google.golang.org/grpc/internal/zzverif/core"
	"google.golang.org/grpc/mem"
	"google.golang.org/grpc/status"
)

// C05: the bytes an application reads from a stream are exactly the DATA
// payload bytes received for it, in order, once, including under
// receive-buffer compaction; end/error only after everything that arrived
// before it, nothing after it.
//
// A real recvBuffer is fed by one producer (the transport reader's role: DATA
// payloads built the way framer.readDataFrame builds them, then an error/EOF,
// then more puts) and optionally a second goroutine putting an error (transport
// close); a real recvBufferReader (server flavour, or client flavour with a
// ClientStream whose context cancellation closes the stream) is driven with
// Read(n)/ReadMessageHeader of arbitrary sizes. Every payload byte is a
// function of (frame index, offset).

type c05POp struct {
	Kind     string `json:"kind"` // burst | sleep | err | eof
	N        int    `json:"n,omitempty"`
	Lo       int    `json:"lo,omitempty"`
	Hi       int    `json:"hi,omitempty"`
	Mid      int    `json:"mid,omitempty"` // of 1024: a frame is 1025..4096 bytes (pooled) instead
	SizeSeed uint64 `json:"size_seed,omitempty"`
	Ns       int64  `json:"ns,omitempty"`
}

type c05ROp struct {
	Kind string `json:"kind"` // read | hdr | sleep
	N    int    `json:"n,omitempty"`
	Ns   int64  `json:"ns,omitempty"`
}

type c05Scenario struct {
	Sched      core.Sched `json:"sched"`
	Compaction bool       `json:"compaction"`
	Client     bool       `json:"client"`
	MultiErr   bool       `json:"multi_err"` // server flavour: more than one raw error put (client-side error puts are gated by closeStream)
	Producer   []c05POp   `json:"producer"`
	Reader     []c05ROp   `json:"reader"`       // repeated until a read fails
	ReaderAtNs int64      `json:"reader_at_ns"` // the application starts reading this late
	CloserAtNs int64      `json:"closer_at_ns"` // <0: no second error source
	CancelAtNs int64      `json:"cancel_at_ns"` // <0: the stream context is never cancelled
	AfterReads int        `json:"after_reads"`  // reads attempted after the first failure
	Hold       int        `json:"hold"`         // buffers the application keeps before freeing them
}

func (s *c05Scenario) SchedP() *core.Sched { return &s.Sched }
func (s *c05Scenario) Shape() string {
	fr, er := 0, 0
	for _, op := range s.Producer {
		switch op.Kind {
		case "burst":
			fr += op.N
		case "err", "eof":
			er++
		}
	}
	b := 0
	for fr>>b > 0 {
		b++
	}
	return fmt.Sprintf("compact=%v client=%v frames~2^%d errs=%d closer=%v cancel=%v rops=%d", s.Compaction, s.Client, b, er, s.CloserAtNs >= 0, s.CancelAtNs >= 0, len(s.Reader))
}

func (s *c05Scenario) errSources() int {
	n := 0
	for _, op := range s.Producer {
		if op.Kind == "err" || op.Kind == "eof" {
			n++
		}
	}
	if s.CloserAtNs >= 0 {
		n++
	}
	return n
}

func (s *c05Scenario) Validate() error {
	if n := s.errSources(); n == 0 || (n > 1 && !s.Client && !s.MultiErr) {
		return fmt.Errorf("%d error sources", n)
	}
	for _, op := range s.Producer {
		switch op.Kind {
		case "burst":
			if op.N < 0 || op.Lo < 1 || op.Hi < op.Lo || op.Hi > 1<<17 || op.Mid < 0 || op.N > 5000 {
				return fmt.Errorf("bad burst")
			}
		case "sleep":
			if op.Ns < 0 {
				return fmt.Errorf("negative sleep")
			}
		case "err", "eof":
		default:
			return fmt.Errorf("bad producer op %q", op.Kind)
		}
	}
	reads := 0
	for _, op := range s.Reader {
		switch op.Kind {
		case "read", "hdr":
			if op.N < 1 || op.N > 1<<20 {
				return fmt.Errorf("bad read size")
			}
			reads++
		case "sleep":
			if op.Ns < 0 {
				return fmt.Errorf("negative sleep")
			}
		default:
			return fmt.Errorf("bad reader op %q", op.Kind)
		}
	}
	if reads == 0 {
		return fmt.Errorf("reader never reads")
	}
	if s.AfterReads < 0 || s.Hold < 0 || s.Hold > 64 || s.ReaderAtNs < 0 {
		return fmt.Errorf("bad knobs")
	}
	return nil
}

func genC05(seed uint64, tier string) *c05Scenario {
	r := core.NewRand(seed)
	s := &c05Scenario{Sched: simGenSched(r, seed), Compaction: r.Chance(3, 4), Client: r.Chance(1, 2), CloserAtNs: -1, CancelAtNs: -1}
	scale := int64(core.Pick(r, 1, 1, 3, 10))
	sub := uint64(0)
	total := 0 // expected payload bytes of the run
	burst := func(n, lo, hi, mid int) c05POp {
		sub++
		n = max(1, min(n, (512<<10)/hi)) // at most ~512 KiB per burst
		total += n*(lo+hi)/2 + n*mid*2560/1024
		return c05POp{Kind: "burst", N: n, Lo: lo, Hi: hi, Mid: mid, SizeSeed: core.Mix(seed, 31, sub)}
	}
	errOp := func() c05POp { return c05POp{Kind: core.Pick(r, "eof", "eof", "err")} }
	big := r.Chance(2, 5) // a run with a long burst of tiny frames (compaction territory)
	if tier == "thorough" {
		big = r.Chance(1, 2)
	}
	if big {
		if r.Chance(1, 3) {
			s.Producer = append(s.Producer, burst(r.Range(1, 40), 1, core.Pick(r, 8, 300, 5000), 0))
			if r.Chance(1, 2) {
				s.Producer = append(s.Producer, c05POp{Kind: "sleep", Ns: int64(r.Intn(6)) * scale})
			}
		}
		hi := core.Pick(r, 1, 1, 3, 8, 24, 50)
		n := r.Range(1030, 1300)
		if r.Chance(1, 3) {
			n = r.Range(1300, 2400)
		}
		if hi >= 24 {
			n = r.Range(1100, 2600) // ~55-byte frames: a compaction about every 520 frames once rolling
		}
		mid := core.Pick(r, 0, 0, 2, 6)
		k := n
		if r.Chance(1, 3) {
			k = r.Range(1, n) // the error lands inside the burst
		}
		s.Producer = append(s.Producer, burst(k, 1, hi, mid))
		if k < n || r.Chance(1, 3) {
			s.Producer = append(s.Producer, errOp())
		}
		if k < n {
			s.Producer = append(s.Producer, burst(min(n-k, 60), 1, hi, mid))
		}
		if r.Chance(1, 2) {
			s.Producer = append(s.Producer, c05POp{Kind: "sleep", Ns: int64(r.Intn(6)) * scale})
			s.Producer = append(s.Producer, burst(r.Range(1, 600), 1, core.Pick(r, 1, 8, 50, 2000), mid))
		}
	} else {
		nb := r.Range(1, 6)
		if tier == "thorough" {
			nb = r.Range(1, 12)
		}
		for i := 0; i < nb; i++ {
			switch {
			case r.Chance(1, 4):
				s.Producer = append(s.Producer, c05POp{Kind: "sleep", Ns: int64(r.Intn(8)) * scale})
			case r.Chance(1, 8):
				s.Producer = append(s.Producer, errOp())
			default:
				hi := core.Pick(r, 1, 5, 30, 300, 1024, 1025, 4000, 16384, 16384, 65536)
				lo := 1
				if r.Chance(1, 4) {
					lo = hi
				}
				s.Producer = append(s.Producer, burst(r.Range(1, core.Pick(r, 3, 10, 40)), lo, hi, core.Pick(r, 0, 0, 30)))
			}
		}
	}
	s.Producer = append(s.Producer, errOp())
	// reader script
	stallFirst := big && r.Chance(3, 5) // let the backlog build before reading
	if stallFirst || r.Chance(1, 6) {
		s.ReaderAtNs = int64(r.Range(1, 8)) * scale
	}
	for k := r.Range(1, 6); k > 0; k-- {
		switch {
		case r.Chance(1, 6) && !big:
			s.Reader = append(s.Reader, c05ROp{Kind: "sleep", Ns: int64(r.Intn(8)) * scale})
		case r.Chance(1, 3):
			s.Reader = append(s.Reader, c05ROp{Kind: "hdr", N: core.Pick(r, 5, 5, 5, 1, 2, 9)})
		default:
			s.Reader = append(s.Reader, c05ROp{Kind: "read", N: core.Pick(r, 1, 2, 3, r.Range(1, 60), r.Range(1, 2000), r.Range(1, 20000), 16384, 1<<20)})
		}
	}
	if s.Reader[len(s.Reader)-1].Kind == "sleep" {
		s.Reader = append(s.Reader, c05ROp{Kind: "read", N: r.Range(1, 5000)})
	}
	// keep a run at a few thousand reads: the script's average read size must
	// not be tiny compared with the amount of data
	sum, cnt := 0, 0
	for _, op := range s.Reader {
		if op.Kind != "sleep" {
			sum += op.N
			cnt++
		}
	}
	if need := total / 1500; sum < need*cnt {
		s.Reader = append(s.Reader, c05ROp{Kind: "read", N: need * (cnt + 1)})
	}
	// mostly early, while the producer is still at work
	if r.Chance(1, 5) {
		s.CloserAtNs = int64(core.Pick(r, 0, r.Intn(3), r.Intn(8), r.Intn(20))) * scale
	}
	if r.Chance(1, 4) {
		s.CancelAtNs = int64(core.Pick(r, 0, r.Intn(3), r.Intn(8), r.Intn(20))) * scale
	}
	s.AfterReads = r.Range(0, 3)
	s.Hold = core.Pick(r, 0, 0, 1, 3, 8)
	// The transports normally put an error into a server stream's buffer once
	// (END_STREAM; a peer repeating END_STREAM after the handler returned makes
	// it twice) and gate client-side error puts with the stream state: one run
	// in eight (server flavour, multi_err) puts several raw errors, the other
	// server-flavour runs exactly one.
	if !s.Client {
		s.MultiErr = r.Chance(1, 4)
		if !s.MultiErr {
			var idx []int
			for i, op := range s.Producer {
				if op.Kind == "err" || op.Kind == "eof" {
					idx = append(idx, i)
				}
			}
			keep := idx[r.Intn(len(idx))]
			if s.CloserAtNs >= 0 && r.Chance(1, 2) {
				keep = -1
			} else {
				s.CloserAtNs = -1
			}
			var ops []c05POp
			for i, op := range s.Producer {
				if (op.Kind == "err" || op.Kind == "eof") && i != keep {
					continue
				}
				ops = append(ops, op)
			}
			s.Producer = ops
		}
	}
	return s
}

type c05Frame struct {
	size     int
	off      int64 // stream offset of its first byte
	start    int   // tick when put was called
	end      int   // tick when put returned (0: not yet)
	afterErr bool  // put was called after some error put had returned
}

type c05ErrPut struct {
	err   error
	start int
	end   int
	void  bool // nothing was put (lost the closeStream gate, or the put panicked)
	ctx   bool // put by the reader itself (ClientStream.Close on context cancellation) during the read call [start,end]
}

type c05Err struct{ id int }

func (e *c05Err) Error() string { return fmt.Sprintf("sim error %d", e.id) }

func c05Byte(idx int, off int) byte {
	h := uint32(idx+1) * 2654435761
	return byte(h>>13) + byte(off*31) + byte(off>>8)
}

type c05Held struct {
	b   mem.Buffer
	fi  int // frame index / offset of its first byte
	fo  int
	len int
}

type c05World struct {
	e       *core.Env
	s       *c05Scenario
	pool    *simPool
	rb      *recvBuffer
	cs      *ClientStream // client flavour only
	mySt    map[*status.Status]bool
	rdClose bool // the reader's own Close has been recorded
	frames  []c05Frame
	errs    []c05ErrPut
	tick    int
	inPut   bool
	// reader-side cursor into the expected stream
	fi, fo    int
	delivered int64
	held      []c05Held
	cancelled bool
	// quiescence state
	inRead    bool
	readCalls int
	puts      int
	progress  int
	running   int
	stop      bool
}

func (w *c05World) now() int { w.tick++; return w.tick }

// putData puts one DATA payload the way the transports do.
func (w *c05World) putData(size int) {
	idx := len(w.frames)
	var buf mem.Buffer
	if mem.IsBelowBufferPoolingThreshold(size) {
		b := make([]byte, size)
		for i := range b {
			b[i] = c05Byte(idx, i)
		}
		buf = mem.SliceBuffer(b)
	} else {
		h := w.pool.Get(size)
		b := *h
		for i := range b {
			b[i] = c05Byte(idx, i)
		}
		buf = mem.NewBuffer(h, w.pool)
	}
	off := int64(0)
	if idx > 0 {
		off = w.frames[idx-1].off + int64(w.frames[idx-1].size)
	}
	fr := c05Frame{size: size, off: off, start: w.now()}
	for _, ep := range w.errs {
		if ep.end != 0 && !ep.void {
			fr.afterErr = true
		}
	}
	w.frames = append(w.frames, fr)
	if len(w.rb.backlog) == 0 && len(w.rb.c) == 0 && w.rb.err == nil {
		w.e.Probe("fast_path_channel_used")
	}
	gets, puts := w.pool.gets, w.pool.puts
	w.inPut = true
	w.rb.put(recvMsg{buffer: buf})
	w.inPut = false
	w.frames[idx].end = w.now()
	w.progress++
	if w.pool.gets > gets {
		w.e.Probe("compaction_ran")
		w.e.Logf("compaction at frame %d (%d pooled frames released)", idx, w.pool.puts-puts)
		if w.pool.puts > puts {
			w.e.Probe("compaction_released_pooled")
		}
	}
}

func (w *c05World) putErr(who string, err error) {
	e := w.e
	i := len(w.errs)
	w.errs = append(w.errs, c05ErrPut{err: err, start: w.now()})
	e.Logf("%s put error %v (after %d frames)", who, err, len(w.frames))
	if w.cs != nil {
		// client side: every error reaches the buffer through closeStream,
		// which lets only the first caller write
		st := status.New(codes.Unknown, "sim")
		w.mySt[st] = true
		w.cs.ct.closeStream(w.cs, err, err != io.EOF, http2.ErrCodeCancel, st, nil, err == io.EOF)
		if w.cs.status != st {
			w.errs[i].void = true
			e.Probe("close_stream_gate_lost")
		}
	} else {
		for _, ep := range w.errs[:i] {
			if ep.end != 0 && !ep.void {
				e.Probe("error_put_after_error")
				break
			}
		}
		func() {
			defer func() {
				r := recover()
				if r == nil {
					return
				}
				w.errs[i].void = true
				e.Violate("error_put_panics", "recvBuffer.put(recvMsg{err: %v}) panicked (%d error puts before it): %v", err, i, r)
			}()
			w.rb.put(recvMsg{err: err})
		}()
	}
	w.errs[i].end = w.now()
	w.progress++
}

// verify compares n delivered bytes with the expected stream at the cursor.
func (w *c05World) verify(data []byte, what string) bool {
	for i := 0; i < len(data); i++ {
		for w.fi < len(w.frames) && w.fo >= w.frames[w.fi].size {
			w.fi, w.fo = w.fi+1, 0
		}
		if w.fi >= len(w.frames) {
			w.e.Violate("data_beyond_put", "%s delivered byte %d of the stream, but only %d bytes were ever put", what, w.delivered, w.delivered)
			return false
		}
		if want := c05Byte(w.fi, w.fo); data[i] != want {
			w.e.Violate("data_mismatch", "%s: stream byte %d (frame %d offset %d) is %#02x, want %#02x: bytes lost, duplicated, reordered or recycled", what, w.delivered, w.fi, w.fo, data[i], want)
			return false
		}
		w.fo++
		w.delivered++
	}
	for w.fi < len(w.frames) && w.fo >= w.frames[w.fi].size {
		w.fi, w.fo = w.fi+1, 0
	}
	return true
}

func (w *c05World) release(n int) {
	for len(w.held) > n {
		h := w.held[0]
		w.held = w.held[1:]
		// the application still owns this buffer: it must be intact
		d := h.b.ReadOnlyData()
		for i := 0; i < len(d); i += 97 {
			fi, fo := h.fi, h.fo+i
			for fo >= w.frames[fi].size {
				fo -= w.frames[fi].size
				fi++
			}
			if d[i] != c05Byte(fi, fo) {
				w.e.Violate("data_recycled_while_owned", "a buffer handed to the application changed before the application freed it (byte %d is %#02x)", i, d[i])
				break
			}
		}
		h.b.Free()
	}
}

// judgeTerminal applies the ordering rules to the first failed read.
func (w *c05World) judgeTerminal(err error, callStart, callEnd int) {
	e := w.e
	boundary := w.fo == 0
	full := w.fi // frames completely delivered (cursor normalised by verify)
	type cand struct{ s, e int }
	var cands []cand
	if st, ok := status.FromError(err); ok && st.Code() == codes.Canceled {
		if !w.cancelled {
			e.Violate("wrong_error", "read failed with %v although the stream context was never cancelled", err)
			return
		}
		if !w.s.Client {
			e.Probe("ctx_error_server")
			return // the server-side reader abandons the stream at once: any prefix is fine
		}
		// The client-side reader closes the stream on cancellation, which
		// appends the error behind everything already buffered; that happened
		// inside the read call recorded by noteReaderClose.
		e.Probe("ctx_error_client")
		for _, ep := range w.errs {
			if ep.ctx {
				cands = append(cands, cand{ep.start, ep.end})
			}
		}
		if len(cands) == 0 {
			e.Violate("wrong_error", "read failed with %v although the reader never closed the stream", err)
			return
		}
	} else {
		for _, ep := range w.errs {
			if ep.err == err && !ep.void {
				end := ep.end
				if end == 0 {
					end = w.tick + 1
				}
				cands = append(cands, cand{ep.start, end})
			}
		}
		if len(cands) == 0 {
			e.Violate("wrong_error", "read failed with %s, which was never put into the buffer", simErrStr(err))
			return
		}
	}
	if !boundary {
		e.Violate("error_inside_frame", "read failed with %v after delivering only %d of the %d bytes of frame %d", err, w.fo, w.frames[w.fi].size, w.fi)
		return
	}
	why := ""
	for _, c := range cands {
		// frames whose put returned before this error's put started must all be
		// delivered; frames whose put started after it returned must not be.
		lo, hi := 0, 0
		for _, fr := range w.frames {
			if fr.end != 0 && fr.end < c.s {
				lo++
			}
			if fr.start < c.e {
				hi++
			}
		}
		first := true
		for _, ep := range w.errs {
			if ep.end != 0 && ep.end < c.s && !ep.void {
				first = false
			}
		}
		switch {
		case !first:
			why = "an earlier error had already been put"
		case full < lo:
			why = fmt.Sprintf("only %d of the %d frames that arrived before it were delivered", full, lo)
		case full > hi:
			why = fmt.Sprintf("%d frames were delivered although only %d arrived before it", full, hi)
		default:
			return // consistent with this candidate
		}
	}
	switch {
	case why == "an earlier error had already been put":
		e.Violate("later_error_reported", "read failed with %v, but %s", err, why)
	case len(why) > 4 && why[:4] == "only":
		e.Violate("early_error", "read failed with %v, but %s (data lost at the end of the stream)", err, why)
	default:
		e.Violate("data_after_error", "read failed with %v, but %s", err, why)
	}
}

func runC05(e *core.Env, s *c05Scenario) {
	saved := envconfig.EnableReceiveBufferCompaction
	envconfig.EnableReceiveBufferCompaction = s.Compaction
	defer func() { envconfig.EnableReceiveBufferCompaction = saved }()

	w := &c05World{e: e, s: s, pool: newSimPool(e), mySt: map[*status.Status]bool{}}
	ctx, cancel := context.WithCancel(context.Background())
	defer cancel()
	var rd *recvBufferReader
	if s.Client {
		tdone := make(chan struct{})
		ct := &http2Client{controlBuf: newControlBuffer(tdone), streamsQuotaAvailable: make(chan struct{}, 1), streamQuota: 100}
		cs := &ClientStream{ct: ct, done: make(chan struct{}), headerChan: make(chan struct{})}
		cs.Stream.ctx = ctx
		cs.Stream.id = 1
		cs.Stream.buf.init(w.pool)
		w.rb = &cs.Stream.buf
		w.cs = cs
		rd = &recvBufferReader{ctx: ctx, ctxDone: ctx.Done(), recv: w.rb, clientStream: cs}
	} else {
		w.rb = &recvBuffer{}
		w.rb.init(w.pool)
		rd = &recvBufferReader{ctx: ctx, ctxDone: ctx.Done(), recv: w.rb}
	}
	quit := make(chan struct{})
	timers := 0 // closer/canceller still waiting for their instant
	maxSleep := int64(0)
	for _, op := range s.Producer {
		maxSleep = max(maxSleep, op.Ns)
	}
	readerCycle := int64(0)
	for _, op := range s.Reader {
		readerCycle += op.Ns
	}

	// producer: the transport reader's role
	w.running++
	go simGuard(e, "producer", func() {
		defer func() { w.running-- }()
		nerr := 0
		for _, op := range s.Producer {
			if w.stop {
				return
			}
			switch op.Kind {
			case "sleep":
				time.Sleep(time.Duration(op.Ns))
				w.progress++
			case "eof":
				w.putErr("producer", io.EOF)
			case "err":
				nerr++
				w.putErr("producer", &c05Err{id: nerr})
			case "burst":
				sr := core.NewRand(op.SizeSeed)
				e.Logf("burst n=%d %d..%d", op.N, op.Lo, op.Hi)
				for k := 0; k < op.N && !w.stop; k++ {
					sz := sr.Range(op.Lo, op.Hi)
					if op.Mid > 0 && sr.Intn(1024) < op.Mid {
						sz = sr.Range(1025, 4096)
					}
					w.putData(sz)
					if w.puts++; w.puts%1200 == 0 {
						// executing code takes time: keeps one virtual instant below
						// the runtime's spin-detection limit (50 000 scheduling points)
						time.Sleep(1)
					}
				}
			}
		}
	})
	if s.CloserAtNs >= 0 {
		timers++
		go simGuard(e, "closer", func() {
			defer func() { timers-- }()
			select {
			case <-time.After(time.Duration(s.CloserAtNs)):
				w.putErr("closer", &c05Err{id: 1000})
			case <-quit:
			}
		})
	}
	if s.CancelAtNs >= 0 {
		timers++
		go func() {
			defer func() { timers-- }()
			select {
			case <-time.After(time.Duration(s.CancelAtNs)):
				w.cancelled = true
				e.Logf("cancel")
				cancel()
			case <-quit:
			}
		}()
	}
	// reader: the application's role
	w.running++
	go simGuard(e, "reader", func() {
		defer func() { w.running-- }()
		defer func() { w.release(0) }()
		var terminal error
		after := 0
		hdr := make([]byte, 16)
		if s.ReaderAtNs > 0 {
			time.Sleep(time.Duration(s.ReaderAtNs))
			w.progress++
		}
		for {
			for _, op := range s.Reader {
				if w.stop {
					return
				}
				if op.Kind == "sleep" {
					if terminal == nil {
						time.Sleep(time.Duration(op.Ns))
						w.progress++
					}
					continue
				}
				if terminal != nil {
					if after >= s.AfterReads {
						return
					}
					after++
				}
				if w.rb.uncompactedSuffixLen > 0 && w.rb.uncompactedSuffixLen == len(w.rb.backlog) && rd.last == nil {
					e.Probe("load_from_uncompacted_suffix")
				}
				if w.readCalls%400 == 399 {
					time.Sleep(1) // as in the producer
				}
				callStart := w.now()
				w.readCalls++
				var got []byte
				var buf mem.Buffer
				var err error
				var n int
				w.inRead = true
				if op.Kind == "hdr" {
					h := hdr[:min(op.N, len(hdr))]
					n, err = rd.ReadMessageHeader(h)
					got = h[:max(n, 0)]
					if n < 0 || n > len(h) {
						e.Violate("read_overrun", "ReadMessageHeader(%d bytes) reported %d bytes", len(h), n)
						got = nil
					}
				} else {
					buf, err = rd.Read(op.N)
					if buf != nil {
						got = buf.ReadOnlyData()
						n = len(got)
						if n > op.N {
							e.Violate("read_overrun", "Read(%d) returned %d bytes", op.N, n)
						}
					}
				}
				w.inRead = false
				callEnd := w.now()
				w.progress++
				if w.stop {
					// the run is being torn down (after a violation): what this
					// call returned is no longer judged
					if buf != nil {
						buf.Free()
					}
					return
				}
				if w.cs != nil && !w.rdClose && w.cs.state == streamDone && !w.mySt[w.cs.status] {
					// closeStream sets state and status in one atomic step, and
					// none of the harness' closeStream calls owns this status:
					// the reader closed the stream during this call.
					w.rdClose = true
					w.errs = append(w.errs, c05ErrPut{ctx: true, start: callStart, end: callEnd})
					e.Logf("reader closed the stream (ctx)")
					if !w.cancelled {
						e.Violate("closed_without_cancel", "the reader closed the stream although its context was not cancelled")
					}
				}
				if terminal != nil {
					if err != terminal {
						e.Violate("error_not_sticky", "after failing with %v a later %s returned %s", terminal, op.Kind, simErrStr(err))
					}
					if len(got) > 0 {
						e.Violate("data_after_error", "%d bytes were delivered by a %s after the stream had failed with %v", len(got), op.Kind, terminal)
					}
					if buf != nil {
						buf.Free()
					}
					continue
				}
				if err != nil {
					terminal = err
					e.Logf("%s(%d) -> %v at byte %d (frame %d+%d)", op.Kind, op.N, err, w.delivered, w.fi, w.fo)
					if len(got) > 0 {
						e.Violate("data_with_error", "%s returned %d bytes together with error %v", op.Kind, len(got), err)
					}
					w.judgeTerminal(err, callStart, callEnd)
					w.release(0)
					if s.AfterReads == 0 {
						return
					}
					continue
				}
				fi, fo := w.fi, w.fo
				if !w.verify(got, op.Kind) {
					w.stop = true
					if buf != nil {
						buf.Free()
					}
					return
				}
				if rd.last != nil {
					e.Probe("split_last_buffer")
				}
				if buf != nil {
					w.held = append(w.held, c05Held{b: buf, fi: fi, fo: fo, len: len(got)})
					w.release(s.Hold)
				}
			}
		}
	})

	// A completed error put, or (without one) any completed DATA put that
	// has not been delivered, must end a read's wait.
	pending := func() bool {
		for _, ep := range w.errs {
			if ep.end != 0 && !ep.void {
				return true
			}
		}
		for i := w.fi; i < len(w.frames); i++ {
			if w.frames[i].end != 0 {
				return true
			}
		}
		return false
	}
	check := func() {
		if !w.inRead {
			return
		}
		call := w.readCalls
		if simConfirm(func() bool { return w.inRead && w.readCalls == call && pending() }) {
			e.Violate("reader_stuck", "a read is blocked at quiescence although undelivered data or an error is in the buffer (delivered %d bytes, %d frames and %d errors put)", w.delivered, len(w.frames), len(w.errs))
			w.stop = true
		} else {
			e.Probe("reader_waited")
		}
	}
	gap := time.Duration(max(maxSleep, s.ReaderAtNs) + readerCycle + 2)
	idle := simIdle{}
	for w.running > 0 && !w.stop {
		time.Sleep(gap)
		synctest.Wait()
		check()
		if idle.stalled(w.progress, gap) && w.running > 0 && !w.stop && timers == 0 {
			e.Violate("no_progress", "neither a put nor a read completed for %v although %d goroutines are unfinished", gap, w.running)
			w.stop = true
		}
	}
	stopped := w.stop
	w.stop = true
	close(quit)
	w.cancelled = true
	cancel()
	if stopped && w.rb.err == nil {
		// unblock a reader that is stuck for a reason already reported
		w.rb.put(recvMsg{err: io.ErrClosedPipe})
	}
	time.Sleep(gap)
	synctest.Wait()
	if stopped {
		return
	}
	// buffer accounting: everything before the reported error was delivered and
	// freed by the application, everything after it was dropped by put.
	live, bytes := w.pool.liveBytes()
	abandoned := !s.Client && w.cancelled
	switch {
	case live == 0:
	case abandoned:
		e.ProbeN("buffers_left_in_abandoned_stream", live)
	default:
		e.Violate("buffer_leak", "%d pooled buffers (%d bytes) were never returned to the pool although the stream was read to its end", live, bytes)
	}
	e.ProbeN("pool_gets", w.pool.gets)
}

func init() { core.Register("C05", genC05, runC05) }
