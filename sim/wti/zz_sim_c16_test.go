package transport

import (
	"fmt"
	"testing/synctest"
	"time"
	"unsafe"

	"golang.org/x/net/http2"
	"google.golang.org/grpc/internal/zzverif/core"
	"google.golang.org/grpc/mem"
)

// C16: control-frame throttling never deadlocks; close releases everything.
//
// A real controlBuffer is driven by "reader" goroutines (throttle(), then put
// the control items a transport reader produces), application-side producers
// (stream-creation requests via executeAndPut, DATA, window updates, stream
// clean-ups), one consumer in the role of loopy (get(true)/get(false), stalls)
// and finish()/done at a random point. maxQueuedControlBufferItems is a
// package variable in this tree and is set per run (limits 1..8).

type c16Op struct {
	Kind string `json:"kind"` // reader/producer: put | sleep ; consumer: getb | get | sleep | finish
	Item string `json:"item,omitempty"`
	Fail bool   `json:"fail,omitempty"` // hdr: the executeAndPut callback returns false
	N    int    `json:"n,omitempty"`    // consumer get: number of non-blocking gets
	Ns   int64  `json:"ns,omitempty"`
}

type c16Scenario struct {
	Sched       core.Sched `json:"sched"`
	Limit       int        `json:"limit"`
	Readers     [][]c16Op  `json:"readers"`       // every put is preceded by throttle()
	Producers   [][]c16Op  `json:"producers"`     // never call throttle()
	Consumer    []c16Op    `json:"consumer"`      // repeated until the buffer is closed
	FinishAtNs  int64      `json:"finish_at_ns"`  // <0: finish only after all scripts ended
	DoneDelayNs int64      `json:"done_delay_ns"` // done is closed this long after finish (<0: done at FinishAtNs, finish this long after it)
}

func (s *c16Scenario) SchedP() *core.Sched { return &s.Sched }
func (s *c16Scenario) Shape() string {
	n := 0
	for _, r := range s.Readers {
		n += len(r)
	}
	m := 0
	for _, p := range s.Producers {
		m += len(p)
	}
	return fmt.Sprintf("limit=%d readers=%d/%d producers=%d/%d fin=%v", s.Limit, len(s.Readers), n, len(s.Producers), m, s.FinishAtNs >= 0)
}

var c16ControlKinds = []string{"settings", "pingack", "rst", "inwu", "outwu", "goaway", "register", "abort"}

func c16KindOK(k string) bool {
	for _, c := range c16ControlKinds {
		if c == k {
			return true
		}
	}
	return k == "hdr" || k == "shdr" || k == "data"
}

func (s *c16Scenario) Validate() error {
	if s.Limit < 1 {
		return fmt.Errorf("limit < 1")
	}
	gets := 0
	for _, op := range s.Consumer {
		switch op.Kind {
		case "getb", "get":
			gets++
		case "sleep", "finish":
		default:
			return fmt.Errorf("bad consumer op %q", op.Kind)
		}
		if op.Ns < 0 || op.N < 0 {
			return fmt.Errorf("negative")
		}
	}
	if gets == 0 {
		return fmt.Errorf("consumer never gets")
	}
	for _, l := range append(append([][]c16Op{}, s.Readers...), s.Producers...) {
		for _, op := range l {
			if op.Kind != "sleep" && (op.Kind != "put" || !c16KindOK(op.Item)) {
				return fmt.Errorf("bad op %q/%q", op.Kind, op.Item)
			}
			if op.Ns < 0 {
				return fmt.Errorf("negative")
			}
		}
	}
	return nil
}

func genC16(seed uint64, tier string) *c16Scenario {
	r := core.NewRand(seed)
	s := &c16Scenario{Sched: simGenSched(r, seed), Limit: r.Range(1, 8)}
	if r.Chance(1, 3) {
		s.Limit = r.Range(1, 3)
	}
	scale := int64(core.Pick(r, 1, 1, 3, 10))
	maxOps := 10
	if tier == "thorough" {
		maxOps = 30
	}
	ctlBias := core.Pick(r, 4, 8, 12, 15) // of 16: share of control items among reader puts
	for i, n := 0, core.Pick(r, 1, 1, 2); i < n; i++ {
		var ops []c16Op
		for k := r.Range(2, maxOps+s.Limit); k > 0; k-- {
			switch {
			case r.Chance(1, 8):
				ops = append(ops, c16Op{Kind: "sleep", Ns: int64(r.Intn(10)) * scale})
			case r.Intn(16) < ctlBias:
				ops = append(ops, c16Op{Kind: "put", Item: c16ControlKinds[r.Intn(len(c16ControlKinds))]})
			default:
				ops = append(ops, c16Op{Kind: "put", Item: core.Pick(r, "shdr", "data", "hdr")})
			}
		}
		s.Readers = append(s.Readers, ops)
	}
	for i, n := 0, r.Range(0, 3); i < n; i++ {
		var ops []c16Op
		for k := r.Range(1, maxOps); k > 0; k-- {
			switch {
			case r.Chance(1, 6):
				ops = append(ops, c16Op{Kind: "sleep", Ns: int64(r.Intn(10)) * scale})
			case r.Chance(1, 3):
				ops = append(ops, c16Op{Kind: "put", Item: core.Pick(r, "outwu", "rst", "outwu", "register", "goaway")})
			default:
				op := c16Op{Kind: "put", Item: core.Pick(r, "hdr", "hdr", "data", "data", "shdr")}
				if op.Item == "hdr" && r.Chance(1, 8) {
					op.Fail = true
				}
				ops = append(ops, op)
			}
		}
		s.Producers = append(s.Producers, ops)
	}
	// consumer: stalls make the queue reach the limit, bursts drain it
	for k := r.Range(1, 6); k > 0; k-- {
		switch {
		case r.Chance(1, 3):
			s.Consumer = append(s.Consumer, c16Op{Kind: "sleep", Ns: int64(r.Range(1, 30)) * scale})
		case r.Chance(1, 2):
			s.Consumer = append(s.Consumer, c16Op{Kind: "get", N: r.Range(1, 2*s.Limit)})
		default:
			s.Consumer = append(s.Consumer, c16Op{Kind: "getb"})
		}
	}
	s.Consumer = append(s.Consumer, c16Op{Kind: "getb"})
	if r.Chance(1, 10) {
		s.Consumer = append(s.Consumer, c16Op{Kind: "finish"})
	}
	s.FinishAtNs = -1
	if r.Chance(1, 2) {
		// mostly at an instant at which scripts are likely to be putting
		s.FinishAtNs = int64(core.Pick(r, 0, r.Intn(4), r.Intn(12), r.Intn(60))) * scale
	}
	s.DoneDelayNs = int64(r.Range(-3, 20)) * scale
	if r.Chance(1, 5) {
		// client style: the connection dies (done) and finish() comes much
		// later, when the writer goroutine gets to exit - or never, if it was
		// not started yet. Long enough for a judgement to land in between.
		s.DoneDelayNs = -int64(r.Range(300, 3000)) * scale
	}
	return s
}

// c16IsControl is the checker's own classification, taken from the doc comment
// of maxQueuedControlBufferItems: every queued frame "other than HEADERS and
// DATA" counts towards the limit.
func c16IsControl(it any) bool {
	switch it.(type) {
	case *clientHeaders, *serverHeaders, *dataFrame:
		return false
	}
	return true
}

type c16Item struct {
	id       int
	kind     string
	it       cbItem
	accepted bool
	rejected bool
	consumed bool
	orphaned int
	bufKey   unsafe.Pointer // dataFrame: identity of its pooled buffer
	freed    int
}

type c16World struct {
	e      *core.Env
	s      *c16Scenario
	cb     *controlBuffer
	pool   *simPool
	done   chan struct{}
	items  []*c16Item
	byPtr  map[any]*c16Item
	byBuf  map[unsafe.Pointer]*c16Item
	tick   int
	finSt  int // tick at which the first finish() started (0: not yet)
	finEnd int // tick at which the first finish() returned
	doneCl bool
	// progress and state visible at quiescence
	progress  int
	running   int
	stop      bool
	inThr     []bool
	thrCalls  []int
	getCalls  int
	thrSeen   []bool
	inGetB    bool
	consumerX bool // consumer exited
}

func (w *c16World) now() int { w.tick++; return w.tick }

func (w *c16World) mk(kind string, fail bool) *c16Item {
	ci := &c16Item{id: len(w.items), kind: kind}
	switch kind {
	case "settings":
		ci.it = &incomingSettings{ss: []http2.Setting{{ID: http2.SettingMaxFrameSize, Val: 16384}}}
	case "pingack":
		ci.it = &ping{ack: true}
	case "rst":
		ci.it = &cleanupStream{streamID: uint32(2*ci.id + 1), rst: true, rstCode: http2.ErrCodeProtocol, onWrite: func() {}}
	case "inwu":
		ci.it = &incomingWindowUpdate{streamID: 1, increment: 1}
	case "outwu":
		ci.it = &outgoingWindowUpdate{streamID: 1, increment: 1}
	case "goaway":
		ci.it = &goAway{code: http2.ErrCodeNo, headsUp: true} // (incomingGoAway is zero-sized: no pointer identity)
	case "register":
		ci.it = &registerStream{streamID: uint32(2*ci.id + 1)}
	case "abort":
		ci.it = &earlyAbortStream{streamID: uint32(2*ci.id + 1), rst: true}
	case "shdr":
		ci.it = &serverHeaders{streamID: uint32(2*ci.id + 1)}
	case "hdr":
		ci.it = &clientHeaders{streamID: uint32(2*ci.id + 1), onOrphaned: func(err error) {
			ci.orphaned++
			w.e.Logf("orphaned #%d err=%v", ci.id, err)
			if err != ErrConnClosing {
				w.e.Violate("orphan_wrong_error", "onOrphaned of stream-creation request #%d got %s, want ErrConnClosing", ci.id, simErrStr(err))
			}
			if w.finSt == 0 {
				w.e.Violate("orphaned_before_close", "onOrphaned of stream-creation request #%d ran although finish() was never called", ci.id)
			}
		}}
	case "data":
		bp := w.pool.Get(1025 + ci.id%7)
		ci.bufKey = unsafe.Pointer(unsafe.SliceData(*bp))
		w.byBuf[ci.bufKey] = ci
		ci.it = &dataFrame{streamID: uint32(2*ci.id + 1), h: make([]byte, 5), data: mem.BufferSlice{mem.NewBuffer(bp, w.pool)}}
	default:
		panic("kind " + kind)
	}
	w.items = append(w.items, ci)
	w.byPtr[ci.it] = ci
	return ci
}

// put performs one put/executeAndPut and applies the call-level oracles.
func (w *c16World) put(who string, ci *c16Item, fail bool) {
	e := w.e
	start := w.now()
	finishedBefore := w.finEnd != 0
	e.Logf("%s put #%d %s", who, ci.id, ci.kind)
	var ok bool
	var err error
	fRan := false
	if ci.kind == "hdr" {
		ok, err = w.cb.executeAndPut(func() bool { fRan = true; return !fail }, ci.it)
	} else {
		err = w.cb.put(ci.it)
		ok = err == nil
	}
	w.progress++
	e.Logf("%s put #%d -> ok=%v err=%v", who, ci.id, ok, err)
	switch {
	case err != nil:
		ci.rejected = true
		if err != ErrConnClosing {
			e.Violate("put_wrong_error", "put of item #%d (%s) returned %s", ci.id, ci.kind, simErrStr(err))
		}
		if ok {
			e.Violate("put_result", "executeAndPut returned (true, %v)", err)
		}
		if w.finSt == 0 {
			e.Violate("closed_before_finish", "put of item #%d (%s) was refused with %v although finish() has not been called", ci.id, ci.kind, err)
		}
		if fRan {
			e.Violate("callback_after_close", "executeAndPut ran its callback and then refused item #%d with %v", ci.id, err)
		}
		if finishedBefore {
			e.Probe("put_after_finish")
		}
	case !ok:
		ci.rejected = true
		if !(ci.kind == "hdr" && fail && fRan) {
			e.Violate("put_result", "executeAndPut returned (false, nil) for item #%d (%s) although its callback did not refuse", ci.id, ci.kind)
		}
	default:
		ci.accepted = true
		if ci.kind == "hdr" && (fail || !fRan) {
			e.Violate("put_result", "executeAndPut accepted item #%d although its callback refused or did not run", ci.id)
		}
		if finishedBefore {
			e.Violate("accepted_after_close", "item #%d (%s) was accepted by a put that started after finish() had returned", ci.id, ci.kind)
		} else if w.finSt != 0 && w.finSt > start {
			e.Probe("put_raced_finish")
		}
	}
	if ci.rejected && ci.kind == "data" {
		// the caller keeps ownership of a refused DATA item
		ci.it.(*dataFrame).data.Free()
	}
}

func (w *c16World) finish(who string) {
	first := w.finSt == 0
	if first {
		w.finSt = w.now()
	}
	w.e.Logf("%s finish", who)
	w.cb.finish()
	if first {
		w.finEnd = w.now()
	}
	w.progress++
	w.e.Logf("%s finish returned", who)
}

func (w *c16World) closeDone(who string) {
	if !w.doneCl {
		w.doneCl = true
		w.e.Logf("%s done closed", who)
		close(w.done)
	}
}

// queuedControl walks the real list: ground truth for the throttle oracle.
func (w *c16World) queued() (control, total int) {
	for n := w.cb.list.head; n != nil; n = n.next {
		total++
		if c16IsControl(n.it) {
			control++
		}
	}
	return
}

func (w *c16World) check() {
	e := w.e
	ctl, _ := w.queued()
	if ctl > w.s.Limit {
		e.Probe("queue_above_limit")
	}
	for i, in := range w.inThr {
		if !in {
			continue
		}
		call := w.thrCalls[i]
		still := func(c func() bool) bool {
			return simConfirm(func() bool { return w.inThr[i] && w.thrCalls[i] == call && c() })
		}
		ctlNow := func() int { n, _ := w.queued(); return n }
		switch {
		case still(func() bool { return w.finEnd != 0 }):
			e.Violate("throttle_not_released_by_close", "reader %d is still inside throttle() at quiescence after finish() returned", i)
			w.stop = true
		case still(func() bool { return w.doneCl }):
			e.Violate("throttle_not_released_by_done", "reader %d is still inside throttle() at quiescence after the transport's done channel was closed", i)
			w.stop = true
		case still(func() bool { return w.finEnd == 0 && !w.doneCl && ctlNow() < w.s.Limit }):
			e.Violate("throttle_lost_wakeup", "reader %d is blocked in throttle() at quiescence while only %d control frames are queued (limit %d)", i, ctlNow(), w.s.Limit)
			w.stop = true
		case w.inThr[i] && w.thrCalls[i] == call:
			w.thrSeen[i] = true
			e.Probe("reader_throttled")
		}
	}
	if w.inGetB {
		call := w.getCalls
		still := func(c func() bool) bool {
			return simConfirm(func() bool { return w.inGetB && w.getCalls == call && c() })
		}
		total := func() int { _, n := w.queued(); return n }
		switch {
		case still(func() bool { return w.doneCl }):
			e.Violate("consumer_not_released_by_done", "get(true) still blocked at quiescence after done was closed")
			w.stop = true
		case still(func() bool { return total() > 0 && w.finSt == 0 }):
			e.Violate("consumer_lost_wakeup", "get(true) blocked at quiescence while %d items are queued", total())
			w.stop = true
		}
	}
}

func runC16(e *core.Env, s *c16Scenario) {
	saved := maxQueuedControlBufferItems
	maxQueuedControlBufferItems = s.Limit
	defer func() { maxQueuedControlBufferItems = saved }()

	w := &c16World{e: e, s: s, pool: newSimPool(e), done: make(chan struct{}), byPtr: map[any]*c16Item{}, byBuf: map[unsafe.Pointer]*c16Item{}}
	w.pool.onPut = func(k unsafe.Pointer) {
		if ci := w.byBuf[k]; ci != nil {
			ci.freed++
		}
	}
	w.cb = newControlBuffer(w.done)
	w.inThr = make([]bool, len(s.Readers))
	w.thrSeen = make([]bool, len(s.Readers))
	w.thrCalls = make([]int, len(s.Readers))
	quit := make(chan struct{})
	maxSleep := int64(0)
	consumerCycle := int64(0)
	for _, op := range s.Consumer {
		consumerCycle += op.Ns
	}

	script := func(who string, ops []c16Op, ri int) {
		defer func() { w.running-- }()
		for _, op := range ops {
			if w.stop {
				return
			}
			if op.Kind == "sleep" {
				time.Sleep(time.Duration(op.Ns))
				w.progress++
				continue
			}
			if ri >= 0 {
				w.inThr[ri], w.thrSeen[ri] = true, false
				w.thrCalls[ri]++
				w.cb.throttle()
				w.inThr[ri] = false
				w.progress++
				if w.thrSeen[ri] {
					if w.finSt == 0 && !w.doneCl {
						e.Probe("throttle_released_by_drain")
					} else {
						e.Probe("throttle_released_by_close")
					}
					e.Logf("%s throttle released", who)
				}
			}
			w.put(who, w.mk(op.Item, op.Fail), op.Fail)
		}
	}
	for i, ops := range s.Readers {
		for _, op := range ops {
			maxSleep = max(maxSleep, op.Ns)
		}
		w.running++
		go simGuard(e, "reader", func() { script(fmt.Sprintf("r%d", i), ops, i) })
	}
	for i, ops := range s.Producers {
		for _, op := range ops {
			maxSleep = max(maxSleep, op.Ns)
		}
		w.running++
		go simGuard(e, "producer", func() { script(fmt.Sprintf("p%d", i), ops, -1) })
	}
	// consumer (loopy role)
	go simGuard(e, "consumer", func() {
		defer func() { w.consumerX = true }()
		took := func(it any, started int) {
			ci := w.byPtr[it]
			if ci == nil {
				e.Violate("unknown_item", "get returned an item that was never put: %T", it)
				return
			}
			w.progress++
			e.Logf("get -> #%d %s", ci.id, ci.kind)
			if ci.consumed {
				e.Violate("item_delivered_twice", "item #%d (%s) was returned by get twice", ci.id, ci.kind)
			}
			ci.consumed = true
			if w.finEnd != 0 && started > w.finEnd {
				e.Violate("item_after_close", "get called after finish() returned still delivered item #%d (%s)", ci.id, ci.kind)
			}
			if df, ok := it.(*dataFrame); ok {
				df.data.Free() // the consumer owns what it dequeued
			}
		}
		for {
			for _, op := range s.Consumer {
				if w.stop {
					return
				}
				switch op.Kind {
				case "sleep":
					time.Sleep(time.Duration(op.Ns))
				case "finish":
					w.finish("consumer")
					return
				case "getb":
					st := w.now()
					w.inGetB = true
					w.getCalls++
					it, err := w.cb.get(true)
					w.inGetB = false
					if err != nil {
						e.Logf("get(true) -> %v", err)
						if w.finSt == 0 && !w.doneCl {
							e.Violate("get_spurious_error", "get(true) failed with %v before finish()/done", err)
						}
						return
					}
					if it == nil {
						e.Violate("get_nil", "get(true) returned (nil, nil)")
						continue
					}
					took(it, st)
				case "get":
					for k := 0; k < op.N; k++ {
						st := w.now()
						it, err := w.cb.get(false)
						if err != nil {
							e.Logf("get(false) -> %v", err)
							if w.finSt == 0 {
								e.Violate("get_spurious_error", "get(false) failed with %v before finish()", err)
							}
							return
						}
						if it == nil {
							break
						}
						took(it, st)
					}
				}
			}
		}
	})
	// closer (server style: finish then done; or done first)
	closerDone := s.FinishAtNs < 0
	if s.FinishAtNs >= 0 {
		go simGuard(e, "closer", func() {
			defer func() { closerDone = true }()
			sleep := func(d int64) bool {
				select {
				case <-time.After(time.Duration(d)):
					return true
				case <-quit:
					return false
				}
			}
			if s.DoneDelayNs < 0 {
				if !sleep(s.FinishAtNs) {
					return
				}
				w.closeDone("closer")
				if !sleep(-s.DoneDelayNs) {
					return
				}
				w.finish("closer")
				return
			}
			if !sleep(s.FinishAtNs) {
				return
			}
			w.finish("closer")
			if !sleep(s.DoneDelayNs) {
				return
			}
			w.closeDone("closer")
		})
	}

	gap := time.Duration(maxSleep + consumerCycle + 2)
	idle := simIdle{}
	for w.running > 0 && !w.stop {
		time.Sleep(gap)
		synctest.Wait()
		w.check()
		if idle.stalled(w.progress, gap) && w.running > 0 && !w.stop && closerDone {
			e.Violate("no_progress", "no put, get or throttle completed for %v although %d scripts are unfinished", gap, w.running)
			w.stop = true
		}
	}
	// teardown: close (if the script did not), judge, then release everything
	if w.finSt == 0 {
		simGuard(e, "root", func() { w.finish("root") })
	}
	synctest.Wait()
	w.check()
	if w.finEnd != 0 && !w.stop {
		// a put after close must be refused
		w.put("root", w.mk("hdr", false), false)
		w.put("root", w.mk("settings", false), false)
	}
	w.closeDone("root")
	close(quit)
	w.stop = true
	time.Sleep(gap)
	synctest.Wait()
	w.check()

	// exactly-once accounting
	for _, ci := range w.items {
		switch ci.kind {
		case "hdr":
			want := 0
			if ci.accepted && !ci.consumed {
				want = 1
			}
			if ci.orphaned != want {
				e.Violate("orphan_exactly_once", "stream-creation request #%d (accepted=%v consumed=%v): onOrphaned ran %d times, want %d", ci.id, ci.accepted, ci.consumed, ci.orphaned, want)
			}
			if want == 1 {
				e.Probe("orphaned")
			}
		case "data":
			if ci.freed != 1 {
				e.Violate("data_freed_exactly_once", "DATA item #%d (accepted=%v consumed=%v): buffer returned to the pool %d times, want 1", ci.id, ci.accepted, ci.consumed, ci.freed)
			}
			if ci.accepted && !ci.consumed {
				e.Probe("data_freed_by_finish")
			}
		}
	}
	if _, total := w.queued(); total != 0 {
		e.Violate("queue_not_empty_after_close", "%d items are still queued after finish()", total)
	}
}

func init() { core.Register("C16", genC16, runC16) }
