package transport

// World "wti": in-package simulation checks for unexported building blocks of
// internal/transport (recvBuffer/recvBufferReader, controlBuffer, writeQuota).
// The files of this directory are overlaid into /repo/internal/transport/ and
// compile as part of that package's test binary; every identifier introduced
// here starts with "sim"/"c05"/"c16"/"c17" to stay clear of the package's own.

import (
	"context"
	"fmt"
	"io"
	"runtime/debug"
	"testing"
	"testing/synctest"
	"time"
	"unsafe"

	"google.golang.org/grpc/grpclog"
	"google.golang.org/grpc/internal/zzverif/core"
	"google.golang.org/grpc/status"
)

func init() {
	grpclog.SetLoggerV2(grpclog.NewLoggerV2(io.Discard, io.Discard, io.Discard))
}

func TestSimWorker(t *testing.T) {
	// mem.Buffer objects and controlbuf item nodes live in sync.Pools whose
	// fast/slow paths differ in the number of scheduling points, and C05 runs
	// allocate megabytes with the GC switched off inside a run: every run
	// starts after two GC cycles (empty pools, bounded heap).
	core.GCBetween = true
	core.PCTPercent, core.PCTSDPercent, core.SDPercent = 5, 5, 10
	// Lazily initialised process state reached by the checks, warmed outside
	// the bubble so that it adds no scheduling points to whichever run is first.
	_ = ContextErr(context.Canceled)
	_ = ContextErr(context.DeadlineExceeded)
	_ = status.Convert(ContextErr(context.Canceled))
	core.WorkerMain(t)
}

func simGenSched(r *core.Rand, seed uint64) core.Sched {
	return core.Sched{SchedSeed: core.Mix(seed, 11), AuxSeed: core.Mix(seed, 12), YieldThr: core.Pick(r, uint32(0), 200, 700, 3300, 13000, 30000)}
}

// simGuard runs fn and turns a panic of the code under test into a violation
// (a panic on a non-root goroutine would otherwise kill the worker process).
func simGuard(e *core.Env, who string, fn func()) {
	defer func() {
		if r := recover(); r != nil {
			st := string(debug.Stack())
			if len(st) > 1500 {
				st = st[:1500]
			}
			e.Violate("panic", "%s: panic: %v\n%s", who, r, st)
		}
	}()
	fn()
}

// simPool is a mem.BufferPool that never reuses memory inside a run: every Get
// is a fresh allocation, every Put poisons the buffer. Double Puts, Puts of
// foreign buffers and buffers never returned are detected by identity.
type simPool struct {
	e       *core.Env
	live    map[unsafe.Pointer]int
	freed   map[unsafe.Pointer]bool
	gets    int
	puts    int
	foreign int
	keep    [][]byte // keeps freed memory reachable so addresses stay unique
	onPut   func(k unsafe.Pointer)
}

func newSimPool(e *core.Env) *simPool {
	return &simPool{e: e, live: map[unsafe.Pointer]int{}, freed: map[unsafe.Pointer]bool{}}
}

func (p *simPool) Get(n int) *[]byte {
	c := n
	if c == 0 {
		c = 1
	}
	b := make([]byte, n, c)
	p.live[unsafe.Pointer(unsafe.SliceData(b))] = n
	p.gets++
	return &b
}

func (p *simPool) Put(bp *[]byte) {
	if bp == nil {
		return
	}
	b := *bp
	k := unsafe.Pointer(unsafe.SliceData(b))
	if _, ok := p.live[k]; ok {
		delete(p.live, k)
		p.freed[k] = true
		p.puts++
		b = b[:cap(b)]
		for i := range b {
			b[i] = 0xDB
		}
		p.keep = append(p.keep, b)
		if p.onPut != nil {
			p.onPut(k)
		}
		return
	}
	if p.freed[k] {
		p.e.Violate("buffer_double_put", "a pooled buffer (cap %d) was returned to the pool twice", cap(b))
		return
	}
	p.foreign++
	p.e.Violate("buffer_foreign_put", "a buffer (cap %d) that did not come from the pool was returned to it", cap(b))
}

func (p *simPool) liveBytes() (n, total int) {
	for _, sz := range p.live {
		total += sz
	}
	return len(p.live), total
}

// simIdle decides "nothing moved for a whole check interval". The runtime
// injects 1 µs sleeps into a goroutine that passes 50 000 scheduling points at
// one virtual instant (spin detection), so a run is only called stalled when
// the progress counter stood still for the interval plus a margin far above that.
type simIdle struct {
	last  int
	since time.Time
	init  bool
}

func (i *simIdle) stalled(progress int, gap time.Duration) bool {
	now := time.Now()
	if !i.init || progress != i.last {
		i.init, i.last, i.since = true, progress, now
		return false
	}
	return now.Sub(i.since) >= gap+20*time.Microsecond
}

// simConfirm guards a quiescence oracle against the runtime's spin-detection
// sleeps (a goroutine that passed 50 000 scheduling points at one instant is
// put to sleep for 1 µs wherever it is, and then looks "blocked inside the
// call"): a suspicious state is only reported if it is still there, for the
// same call, at a second quiescent point well after such a sleep has ended.
func simConfirm(cond func() bool) bool {
	if !cond() {
		return false
	}
	time.Sleep(20 * time.Microsecond)
	synctest.Wait()
	return cond()
}

func simErrStr(err error) string {
	if err == nil {
		return "<nil>"
	}
	return fmt.Sprintf("%T(%v)", err, err)
}
