package transport

import (
	"fmt"
	"testing/synctest"
	"time"

	"google.golang.org/grpc/internal/zzverif/core"
)

// C17 (writeQuota clause): a sender blocked because its stream exceeded the
// write quota is released once the writer (loopy) has given enough back or the
// stream ends; the quota is back at its initial value once everything that was
// scheduled has been written. One sender per stream (gRPC forbids concurrent
// SendMsg on one stream), one loopy-role goroutine replenishing all streams.

type c17Write struct {
	Size  int32 `json:"size"`
	GapNs int64 `json:"gap_ns,omitempty"`
}

type c17Stream struct {
	Initial  int32      `json:"initial"`
	Writes   []c17Write `json:"writes"`
	DoneAtNs int64      `json:"done_at_ns"` // <0: the stream does not end during the run
}

type c17Scenario struct {
	Sched      core.Sched  `json:"sched"`
	Streams    []c17Stream `json:"streams"`
	LoopySeed  uint64      `json:"loopy_seed"`
	MaxChunk   int         `json:"max_chunk"`    // loopy writes (and replenishes) 1..MaxChunk bytes at a time
	LoopyGapNs int64       `json:"loopy_gap_ns"` // upper bound of loopy's pauses
	LoopyLazy  int         `json:"loopy_lazy"`   // of 16: how often loopy pauses after a chunk
}

func (s *c17Scenario) SchedP() *core.Sched { return &s.Sched }
func (s *c17Scenario) Shape() string {
	w, d := 0, 0
	for _, st := range s.Streams {
		w += len(st.Writes)
		if st.DoneAtNs >= 0 {
			d++
		}
	}
	return fmt.Sprintf("streams=%d writes=%d done=%d", len(s.Streams), w, d)
}
func (s *c17Scenario) Validate() error {
	if len(s.Streams) == 0 || s.MaxChunk < 1 || s.LoopyGapNs < 0 || s.LoopyLazy < 0 {
		return fmt.Errorf("bad scenario")
	}
	for _, st := range s.Streams {
		if st.Initial < 1 {
			return fmt.Errorf("initial quota < 1")
		}
		for _, w := range st.Writes {
			if w.Size < 1 || w.GapNs < 0 {
				return fmt.Errorf("bad write")
			}
		}
	}
	return nil
}

func genC17(seed uint64, tier string) *c17Scenario {
	r := core.NewRand(seed)
	s := &c17Scenario{Sched: simGenSched(r, seed), LoopySeed: core.Mix(seed, 21)}
	maxW := 8
	if tier == "thorough" {
		maxW = 24
	}
	ns := core.Pick(r, 1, 1, 1, 2, 3)
	scale := int64(core.Pick(r, 1, 1, 3, 10))
	// Quantities are small numbers times a byte unit, so that the quota often
	// lands on exactly 0 and a run stays at a few hundred replenish calls
	// whatever the unit is (defaultWriteQuota is 64 KiB, frames are <= 16 KiB).
	unit := core.Pick(r, 1, 1, 1, 7, 1024, 16384)
	szMaxAll := 1
	for i := 0; i < ns; i++ {
		base := core.Pick(r, 1, 2, 3, 4, 6, 8, 16, 64)
		st := c17Stream{Initial: int32(base * unit), DoneAtNs: -1}
		szMax := base * core.Pick(r, 1, 1, 2, 3)
		szMaxAll = max(szMaxAll, szMax)
		for k := r.Range(1, maxW); k > 0; k-- {
			b := r.Range(1, szMax)
			if r.Chance(1, 3) {
				b = r.Range(1, base) // small ones make the quota land on exactly 0
			}
			w := c17Write{Size: int32(b * unit)}
			if unit > 1 && r.Chance(1, 6) {
				w.Size += int32(r.Range(-1, 1))
			}
			if r.Chance(1, 3) {
				w.GapNs = int64(r.Intn(12)) * scale
			}
			st.Writes = append(st.Writes, w)
		}
		if r.Chance(1, 4) {
			st.DoneAtNs = int64(r.Intn(40)) * scale
		}
		s.Streams = append(s.Streams, st)
	}
	s.MaxChunk = max(core.Pick(r, 1, 2, 3, 5, 16), (szMaxAll+7)/8) * unit
	s.LoopyGapNs = int64(r.Intn(10)) * scale
	s.LoopyLazy = core.Pick(r, 0, 2, 8, 14)
	return s
}

type c17St struct {
	wq         writeQuota
	initial    int64
	done       chan struct{}
	doneClosed bool
	inGet      bool
	getCalls   int
	seenBlock  bool // the current get was seen blocked at a quiescent point
	got, rep   int64
	pending    int64
	exited     bool
}

func runC17(e *core.Env, s *c17Scenario) {
	sts := make([]*c17St, len(s.Streams))
	progress := 0
	running := 0
	stop := false
	maxGap := s.LoopyGapNs
	for i, sc := range s.Streams {
		st := &c17St{initial: int64(sc.Initial), done: make(chan struct{})}
		st.wq.init(sc.Initial, st.done)
		sts[i] = st
		for _, w := range sc.Writes {
			maxGap = max(maxGap, w.GapNs)
		}
	}
	quit := make(chan struct{}) // ends the stream-termination helpers early
	defer close(quit)
	closeDone := func(i int, why string) {
		st := sts[i]
		if !st.doneClosed {
			st.doneClosed = true
			e.Logf("s%d done (%s)", i, why)
			close(st.done)
		}
	}
	for i, sc := range s.Streams {
		st := sts[i]
		running++
		go simGuard(e, "writer", func() {
			defer func() { st.exited = true; running-- }()
			for wi, w := range sc.Writes {
				if w.GapNs > 0 {
					time.Sleep(time.Duration(w.GapNs))
				}
				if stop {
					return
				}
				if st.wq.quota <= 0 && len(st.wq.ch) == 1 {
					e.Probe("stale_token_at_get")
				}
				e.Logf("s%d w%d get(%d) quota=%d", i, wi, w.Size, st.wq.quota)
				st.inGet, st.seenBlock = true, false
				st.getCalls++
				err := st.wq.get(w.Size)
				st.inGet = false
				progress++
				if err != nil {
					e.Logf("s%d w%d get -> %v", i, wi, err)
					if err != errStreamDone {
						e.Violate("get_wrong_error", "stream %d: get returned %s, want errStreamDone", i, simErrStr(err))
					}
					if !st.doneClosed {
						e.Violate("spurious_stream_done", "stream %d: get(%d) failed with errStreamDone although the stream has not ended", i, w.Size)
					}
					if st.seenBlock {
						e.Probe("released_by_done")
					}
					return
				}
				st.got += int64(w.Size)
				st.pending += int64(w.Size)
				q := st.initial - st.got + st.rep
				e.Logf("s%d w%d got quota=%d", i, wi, q)
				if st.seenBlock {
					e.Probe("woken_by_replenish")
				}
				if q == 0 {
					e.Probe("quota_exactly_zero")
				} else if q < 0 {
					e.Probe("quota_negative")
				}
			}
		})
		if sc.DoneAtNs >= 0 {
			go func() {
				select {
				case <-time.After(time.Duration(sc.DoneAtNs)):
					closeDone(i, "script")
				case <-quit:
				}
			}()
		}
	}
	// loopy role
	lr := core.NewRand(s.LoopySeed)
	running++
	go simGuard(e, "loopy", func() {
		defer func() { running-- }()
		for !stop {
			var cand []int
			allExited := true
			for i, st := range sts {
				if st.pending > 0 {
					cand = append(cand, i)
				}
				if !st.exited {
					allExited = false
				}
			}
			if len(cand) == 0 {
				if allExited {
					return
				}
				time.Sleep(time.Duration(1 + lr.Intn(int(s.LoopyGapNs)+1)))
				continue
			}
			i := cand[lr.Intn(len(cand))]
			st := sts[i]
			n := int64(1 + lr.Intn(s.MaxChunk))
			n = min(n, st.pending)
			st.pending -= n
			st.wq.replenish(int(n))
			st.rep += n
			progress++
			e.Logf("s%d replenish(%d) quota=%d", i, n, st.initial-st.got+st.rep)
			if lr.Intn(16) < s.LoopyLazy {
				time.Sleep(time.Duration(lr.Intn(int(s.LoopyGapNs) + 1)))
			}
		}
	})

	// Quiescence checks (S4): every goroutine is durably blocked (in get, or
	// sleeping) when synctest.Wait returns.
	check := func() {
		for i, st := range sts {
			q := int64(st.wq.quota)
			if want := st.initial - st.got + st.rep; q != want {
				e.Violate("quota_ledger", "stream %d: quota is %d, but initial %d - granted %d + replenished %d = %d", i, q, st.initial, st.got, st.rep, want)
			}
			if st.inGet {
				call := st.getCalls
				still := func(c func() bool) bool {
					return simConfirm(func() bool { return st.inGet && st.getCalls == call && c() })
				}
				switch {
				case still(func() bool { return st.doneClosed }):
					e.Violate("writer_not_released_by_done", "stream %d: sender still blocked in get at quiescence although the stream has ended", i)
					stop = true
				case still(func() bool { return !st.doneClosed && st.wq.quota > 0 }):
					e.Violate("writer_not_woken", "stream %d: sender blocked in get at quiescence while quota is %d > 0 (lost wake-up)", i, st.wq.quota)
					stop = true
				case st.inGet && st.getCalls == call:
					st.seenBlock = true
					e.Probe("writer_blocked")
				}
			}
		}
	}
	gap := time.Duration(maxGap + 2)
	idle := simIdle{}
	for running > 0 && !stop {
		time.Sleep(gap)
		synctest.Wait()
		check()
		if idle.stalled(progress, gap) && running > 0 && !stop {
			e.Violate("no_progress", "no get returned and nothing was replenished for %v although %d goroutines are unfinished", gap, running)
			stop = true
		}
	}
	if stop {
		// release whatever is stuck so that the run can end
		stop = true
		for i := range sts {
			closeDone(i, "teardown")
		}
		time.Sleep(gap)
		synctest.Wait()
		return // goroutines still blocked now are reported as stuck_goroutines
	}
	for i, st := range sts {
		if st.pending != 0 || st.got != st.rep {
			e.Violate("harness", "stream %d: pending=%d got=%d rep=%d at the end", i, st.pending, st.got, st.rep)
		}
		if q := int64(st.wq.quota); q != st.initial {
			e.Violate("quota_not_restored", "stream %d: everything scheduled (%d bytes) was written, but the quota is %d instead of the initial %d", i, st.got, q, st.initial)
		}
	}
}

func init() { core.Register("C17wti", genC17, runC17) }
