// Package simnet is the simulated network: in-memory net.Listener/net.Conn
// whose segmentation, latency, stalls and faults are decided by the harness
// PRNG, with synchronous taps on every Write and every Read.
//
// It only works inside a detrt/synctest bubble: all internal state is mutated
// without locks (GOMAXPROCS=1, goroutines switch only at channel operations),
// blocking is done on channels so that it is "durable" for the fake clock.
package simnet

import (
	"context"
	"errors"
	"fmt"
	"io"
	"net"
	"os"
	"time"

	"google.golang.org/grpc/internal/zzverif/core"
)

// Cfg are the per-run network knobs (part of a scenario).
type Cfg struct {
	Seed        uint64 `json:"net_seed"`
	SegMax      int    `json:"seg_max"`       // max bytes per delivered segment; 0 = no splitting
	SegMin      int    `json:"seg_min"`       // min bytes per segment (>=1)
	LatencyNs   int64  `json:"latency_ns"`    // per-segment latency upper bound (0 = none)
	StallPct    int    `json:"stall_pct"`     // % of writes that stall the writer first
	StallNs     int64  `json:"stall_ns"`      // stall upper bound
	InflightCap int    `json:"inflight_cap"`  // bytes in flight per direction before Write blocks; 0 = unbounded
	ReadMax     int    `json:"read_max"`      // max bytes returned per Read; 0 = as asked
	DialDelayNs int64  `json:"dial_delay_ns"` // upper bound of dial latency
}

// Fault is one entry of a fault plan. Conn selects the n-th connection
// created in the run (0-based); Dir "c2s" or "s2c".
type Fault struct {
	Kind  string `json:"kind"`            // reset | cut_after | half_close | blackhole | heal | stall | dial_fail | dial_hang
	Conn  int    `json:"conn"`            // connection index (dial index for dial_* faults)
	Dir   string `json:"dir,omitempty"`   // c2s | s2c | both
	AtNs  int64  `json:"at_ns,omitempty"` // when (sim time since run start) for timed faults
	Bytes int    `json:"bytes,omitempty"` // cut_after: after this many more bytes in Dir
	DurNs int64  `json:"dur_ns,omitempty"`
}

type seg struct {
	data []byte
	at   time.Time
}

type half struct {
	segs     []seg
	qbytes   int
	lastAt   time.Time
	wclosed  bool  // writer side closed: EOF after drain
	rclosed  bool  // reader side closed locally
	reset    error // hard failure of the direction
	rsig     chan struct{}
	wsig     chan struct{}
	cutLeft  int // >0: reset the pair after this many more bytes are accepted
	cutArmed bool
	hole     bool // blackhole: accept and never deliver
	sink     bool // the reader is gone but cannot tell the writer (its direction is blackholed): writes vanish
	total    int64
	rdl, wdl time.Time
}

func newHalf() *half {
	return &half{rsig: make(chan struct{}, 1), wsig: make(chan struct{}, 1)}
}

func wake(c chan struct{}) {
	select {
	case c <- struct{}{}:
	default:
	}
}

// Pair is one established connection.
type Pair struct {
	Index  int
	Addr   string
	C, S   *Conn // client end, server end
	c2s    *half
	s2c    *half
	net    *Net
	Closed bool
}

// Conn is one end of a Pair.
type Conn struct {
	P        *Pair
	IsClient bool
	r, w     *half
	name     string
	// OnWrite is called synchronously with the bytes of every Write before
	// they enter the network; OnRead with the bytes every Read returns.
	OnWrite func(p []byte)
	OnRead  func(p []byte)
	// Stall, when set, is consulted before every write (writer-side slow node).
	local, remote Addr
	closeCh       chan struct{}
}

// Addr is a simnet address.
type Addr struct{ Net_, Str string }

func (a Addr) Network() string { return a.Net_ }
func (a Addr) String() string  { return a.Str }

// DialEvent records one dial attempt.
type DialEvent struct {
	Seq    uint64
	AtNs   int64
	Addr   string
	Result string // ok | fail | hang | refused
	Conn   int
}

// Net is the simulated network of one run.
type Net struct {
	E         *core.Env
	R         *core.Rand
	Cfg       Cfg
	lis       map[string]*Listener
	Pairs     []*Pair
	Dials     []DialEvent
	faults    []Fault
	OnConn    func(p *Pair) // called when a pair is created, before either side sees it
	dialCount int
	AddrNet   string // Network() reported by conn addresses (default "tcp")
	done      chan struct{}
	stalled   int // writers currently inside an injected stall
}

// Shutdown stops the fault-plan goroutines; call it at the end of a run.
func (n *Net) Shutdown() {
	select {
	case <-n.done:
	default:
		close(n.done)
	}
}

// New creates the network of a run and arms the fault plan.
func New(e *core.Env, cfg Cfg, faults []Fault) *Net {
	if cfg.SegMin < 1 {
		cfg.SegMin = 1
	}
	n := &Net{E: e, R: core.NewRand(cfg.Seed), Cfg: cfg, lis: map[string]*Listener{}, faults: faults, AddrNet: "tcp", done: make(chan struct{})}
	for i := range faults {
		f := faults[i]
		switch f.Kind {
		case "reset", "half_close", "blackhole", "heal", "stall":
			go n.timedFault(f)
		}
	}
	return n
}

func (n *Net) timedFault(f Fault) {
	select {
	case <-time.After(time.Duration(f.AtNs)):
	case <-n.done:
		return
	}
	if f.Conn < 0 || f.Conn >= len(n.Pairs) {
		return
	}
	p := n.Pairs[f.Conn]
	if p.Closed {
		return
	}
	dirs := []*half{}
	switch f.Dir {
	case "c2s":
		dirs = append(dirs, p.c2s)
	case "s2c":
		dirs = append(dirs, p.s2c)
	default:
		dirs = append(dirs, p.c2s, p.s2c)
	}
	switch f.Kind {
	case "reset":
		n.E.Fault("reset")
		n.E.Logf("net fault reset conn=%d", p.Index)
		p.Reset()
	case "half_close":
		for _, h := range dirs {
			if !h.wclosed {
				n.E.Fault("half_close")
				h.wclosed = true
				wake(h.rsig)
			}
		}
	case "blackhole":
		for _, h := range dirs {
			h.hole = true
		}
		n.E.Fault("blackhole")
		n.E.Logf("net fault blackhole conn=%d dir=%s", p.Index, f.Dir)
	case "heal":
		for _, h := range dirs {
			if h.hole {
				h.hole = false
				// a close that could not be announced through the hole is
				// announced now: the closed end's peer sees its writes fail
				for _, c := range []*Conn{p.C, p.S} {
					if c.w == h && c.r.sink {
						c.r.sink = false
						if c.r.reset == nil {
							c.r.reset = errors.New("simnet: broken pipe")
						}
						wake(c.r.wsig)
					}
				}
				n.E.Fault("heal")
				now := time.Now()
				for i := range h.segs {
					if h.segs[i].at.After(now) && h.segs[i].at.Sub(now) > time.Hour*1000 {
						h.segs[i].at = now
					}
				}
				wake(h.rsig)
			}
		}
	case "stall":
		for _, h := range dirs {
			t := time.Now().Add(time.Duration(f.DurNs))
			if t.After(h.lastAt) {
				h.lastAt = t
				n.E.Fault("stall")
			}
		}
	}
}

// Reset fails both directions immediately.
func (p *Pair) Reset() {
	err := errors.New("simnet: connection reset by peer")
	for _, h := range []*half{p.c2s, p.s2c} {
		if h.reset == nil {
			h.reset = err
		}
		h.segs = nil
		h.qbytes = 0
		wake(h.rsig)
		wake(h.wsig)
	}
}

// Listener implements net.Listener.
type Listener struct {
	n      *Net
	addr   string
	ch     chan *Conn
	done   chan struct{}
	closed bool
}

// Listen creates a listener on a simulated address.
func (n *Net) Listen(addr string) *Listener {
	l := &Listener{n: n, addr: addr, ch: make(chan *Conn, 64), done: make(chan struct{})}
	n.lis[addr] = l
	return l
}

func (l *Listener) Accept() (net.Conn, error) {
	select {
	case c := <-l.ch:
		return c, nil
	case <-l.done:
		return nil, errors.New("simnet: listener closed")
	}
}

func (l *Listener) Close() error {
	if !l.closed {
		l.closed = true
		close(l.done)
	drain:
		for {
			select {
			case c := <-l.ch:
				c.P.Reset()
			default:
				break drain
			}
		}
	}
	return nil
}

func (l *Listener) Addr() net.Addr { return Addr{l.n.AddrNet, l.addr} }

// Dialer returns a function usable with grpc.WithContextDialer.
func (n *Net) Dialer() func(ctx context.Context, addr string) (net.Conn, error) {
	return func(ctx context.Context, addr string) (net.Conn, error) { return n.Dial(ctx, addr) }
}

// Dial connects to a simulated address.
func (n *Net) Dial(ctx context.Context, addr string) (net.Conn, error) {
	idx := n.dialCount
	n.dialCount++
	ev := DialEvent{Seq: n.E.Next(), AtNs: n.E.SimNs(), Addr: addr, Conn: -1}
	for _, f := range n.faults {
		if f.Conn != idx {
			continue
		}
		switch f.Kind {
		case "dial_fail":
			n.E.Fault("dial_fail")
			ev.Result = "fail"
			n.Dials = append(n.Dials, ev)
			n.E.Logf("dial %d %s -> injected failure", idx, addr)
			if f.DurNs > 0 {
				select {
				case <-time.After(time.Duration(f.DurNs)):
				case <-ctx.Done():
				}
			}
			return nil, errors.New("simnet: injected dial failure")
		case "dial_hang":
			n.E.Fault("dial_hang")
			ev.Result = "hang"
			n.Dials = append(n.Dials, ev)
			n.E.Logf("dial %d %s -> injected hang", idx, addr)
			<-ctx.Done()
			return nil, ctx.Err()
		}
	}
	if n.Cfg.DialDelayNs > 0 {
		d := time.Duration(n.R.Intn(int(n.Cfg.DialDelayNs) + 1))
		select {
		case <-time.After(d):
		case <-ctx.Done():
			ev.Result = "fail"
			n.Dials = append(n.Dials, ev)
			return nil, ctx.Err()
		}
	}
	l := n.lis[addr]
	if l == nil || l.closed {
		ev.Result = "refused"
		n.Dials = append(n.Dials, ev)
		n.E.Logf("dial %d %s -> refused", idx, addr)
		return nil, errors.New("simnet: connection refused")
	}
	p := &Pair{Index: len(n.Pairs), Addr: addr, c2s: newHalf(), s2c: newHalf(), net: n}
	p.C = &Conn{P: p, IsClient: true, r: p.s2c, w: p.c2s, name: fmt.Sprintf("c%d", p.Index), closeCh: make(chan struct{}), local: Addr{n.AddrNet, fmt.Sprintf("client:%d", 40000+p.Index)}, remote: Addr{n.AddrNet, addr}}
	p.S = &Conn{P: p, IsClient: false, r: p.c2s, w: p.s2c, name: fmt.Sprintf("s%d", p.Index), closeCh: make(chan struct{}), local: Addr{n.AddrNet, addr}, remote: Addr{n.AddrNet, fmt.Sprintf("client:%d", 40000+p.Index)}}
	for _, f := range n.faults {
		if f.Kind == "cut_after" && f.Conn == p.Index {
			for _, h := range pickDirs(p, f.Dir) {
				h.cutArmed = true
				h.cutLeft = f.Bytes
			}
		}
	}
	n.Pairs = append(n.Pairs, p)
	ev.Result, ev.Conn = "ok", p.Index
	n.Dials = append(n.Dials, ev)
	n.E.Logf("dial %d %s -> conn %d", idx, addr, p.Index)
	if n.OnConn != nil {
		n.OnConn(p)
	}
	select {
	case l.ch <- p.S:
	default:
		return nil, errors.New("simnet: accept queue full")
	}
	return p.C, nil
}

func pickDirs(p *Pair, dir string) []*half {
	switch dir {
	case "c2s":
		return []*half{p.c2s}
	case "s2c":
		return []*half{p.s2c}
	}
	return []*half{p.c2s, p.s2c}
}

type timeoutErr struct{}

func (timeoutErr) Error() string   { return "simnet: i/o timeout" }
func (timeoutErr) Timeout() bool   { return true }
func (timeoutErr) Temporary() bool { return true }
func (timeoutErr) Is(t error) bool { return t == os.ErrDeadlineExceeded }

func (c *Conn) Read(p []byte) (int, error) {
	h := c.r
	for {
		if h.rclosed {
			return 0, net.ErrClosed
		}
		if h.reset != nil {
			return 0, h.reset
		}
		now := time.Now()
		if !h.rdl.IsZero() && !now.Before(h.rdl) {
			return 0, timeoutErr{}
		}
		var wait time.Duration = -1
		if len(h.segs) > 0 {
			s := &h.segs[0]
			if !s.at.After(now) {
				if len(p) == 0 {
					return 0, nil
				}
				max := len(p)
				if rm := c.P.net.Cfg.ReadMax; rm > 0 && max > rm {
					max = rm
				}
				n := copy(p[:max], s.data)
				s.data = s.data[n:]
				h.qbytes -= n
				if len(s.data) == 0 {
					h.segs = h.segs[1:]
				}
				wake(h.wsig)
				if c.OnRead != nil {
					c.OnRead(p[:n])
				}
				return n, nil
			}
			wait = s.at.Sub(now)
		} else if h.wclosed {
			return 0, io.EOF
		}
		if !h.rdl.IsZero() {
			if d := h.rdl.Sub(now); wait < 0 || d < wait {
				wait = d
			}
		}
		if wait >= 0 {
			t := time.NewTimer(wait)
			select {
			case <-h.rsig:
				t.Stop()
			case <-t.C:
			}
		} else {
			<-h.rsig
		}
	}
}

func (c *Conn) Write(p []byte) (int, error) {
	h := c.w
	n := c.P.net
	if h.wclosed || h.reset != nil {
		if h.reset != nil {
			return 0, h.reset
		}
		return 0, net.ErrClosed
	}
	if h.sink {
		if c.OnWrite != nil && len(p) > 0 {
			c.OnWrite(p)
		}
		h.total += int64(len(p))
		return len(p), nil
	}
	if c.OnWrite != nil && len(p) > 0 {
		c.OnWrite(p)
	}
	if n.Cfg.StallPct > 0 && n.R.Intn(100) < n.Cfg.StallPct && n.Cfg.StallNs > 0 {
		d := time.Duration(n.R.Intn(int(n.Cfg.StallNs)) + 1)
		n.E.Probe("net_writer_stalled")
		t := time.NewTimer(d)
		n.stalled++
		select {
		case <-t.C:
		case <-c.closeCh:
			t.Stop()
		case <-n.done:
			t.Stop()
		}
		n.stalled--
		if h.reset != nil {
			return 0, h.reset
		}
		if h.wclosed {
			return 0, net.ErrClosed
		}
	}
	written := 0
	for len(p) > 0 {
		sz := len(p)
		if n.Cfg.SegMax > 0 {
			hi := n.Cfg.SegMax
			if hi > len(p) {
				hi = len(p)
			}
			lo := n.Cfg.SegMin
			if lo > hi {
				lo = hi
			}
			sz = n.R.Range(lo, hi)
		}
		for n.Cfg.InflightCap > 0 && h.qbytes > 0 && h.qbytes+sz > n.Cfg.InflightCap && h.reset == nil && !h.wclosed {
			now := time.Now()
			if !h.wdl.IsZero() && !now.Before(h.wdl) {
				return written, timeoutErr{}
			}
			n.E.Probe("net_backpressure")
			if !h.wdl.IsZero() {
				t := time.NewTimer(h.wdl.Sub(now))
				select {
				case <-h.wsig:
					t.Stop()
				case <-t.C:
				}
			} else {
				<-h.wsig
			}
		}
		if h.reset != nil {
			return written, h.reset
		}
		if h.wclosed {
			return written, net.ErrClosed
		}
		if h.cutArmed && sz >= h.cutLeft {
			// deliver exactly cutLeft more bytes, then the connection dies
			sz = h.cutLeft
			if sz > 0 {
				c.enqueue(h, p[:sz])
				written += sz
			}
			n.E.Fault("cut_after")
			n.E.Logf("net fault cut conn=%d at byte %d of %s", c.P.Index, h.total, c.name)
			// bytes already accepted are delivered, then EOF/reset: model a
			// connection that is cut cleanly after exactly this byte
			h.cutArmed = false
			c.P.cutAfterDrain(h)
			return written, errors.New("simnet: connection reset by peer")
		}
		if h.cutArmed {
			h.cutLeft -= sz
		}
		c.enqueue(h, p[:sz])
		written += sz
		p = p[sz:]
	}
	return written, nil
}

// cutAfterDrain: the direction h stops accepting data; the reader of h gets the
// bytes queued so far and then a reset; the opposite direction is reset now.
func (p *Pair) cutAfterDrain(h *half) {
	h.wclosed = true
	other := p.c2s
	if h == p.c2s {
		other = p.s2c
	}
	if other.reset == nil {
		other.reset = errors.New("simnet: connection reset by peer")
	}
	other.segs, other.qbytes = nil, 0
	wake(other.rsig)
	wake(other.wsig)
	wake(h.rsig)
}

func (c *Conn) enqueue(h *half, b []byte) {
	n := c.P.net
	at := time.Now()
	if n.Cfg.LatencyNs > 0 {
		at = at.Add(time.Duration(n.R.Intn(int(n.Cfg.LatencyNs) + 1)))
	}
	if at.Before(h.lastAt) {
		at = h.lastAt
	}
	if h.hole {
		at = at.Add(time.Hour * 24 * 365 * 10)
	} else {
		h.lastAt = at
	}
	d := make([]byte, len(b))
	copy(d, b)
	h.segs = append(h.segs, seg{d, at})
	h.qbytes += len(b)
	h.total += int64(len(b))
	wake(h.rsig)
}

func (c *Conn) Close() error {
	if c.r.rclosed && c.w.wclosed {
		return nil
	}
	// set the flags before close(): closing a channel is a scheduling point and
	// a second Close of the same conn must see the first one's guard
	c.r.rclosed = true
	c.w.wclosed = true
	c.P.net.E.Logf("net close %s", c.name)
	close(c.closeCh)
	// unread inbound data is dropped; the peer's further writes fail - unless
	// the direction towards the peer is blackholed: then nothing (FIN, RST) can
	// tell the peer, and its writes keep vanishing until the hole heals
	if c.r.reset == nil {
		if c.w.hole {
			c.r.sink = true
		} else {
			c.r.reset = errors.New("simnet: broken pipe")
		}
	}
	c.r.segs, c.r.qbytes = nil, 0
	wake(c.r.rsig)
	wake(c.r.wsig)
	wake(c.w.rsig)
	wake(c.w.wsig)
	if c.P.C.r.rclosed && c.P.S.r.rclosed {
		c.P.Closed = true
	}
	return nil
}

func (c *Conn) LocalAddr() net.Addr  { return c.local }
func (c *Conn) RemoteAddr() net.Addr { return c.remote }
func (c *Conn) SetDeadline(t time.Time) error {
	c.SetReadDeadline(t)
	return c.SetWriteDeadline(t)
}
func (c *Conn) SetReadDeadline(t time.Time) error {
	c.r.rdl = t
	wake(c.r.rsig)
	return nil
}
func (c *Conn) SetWriteDeadline(t time.Time) error {
	c.w.wdl = t
	wake(c.w.wsig)
	return nil
}

// Quiet reports whether no bytes are in flight in either direction.
func (p *Pair) Quiet() bool { return p.c2s.qbytes == 0 && p.s2c.qbytes == 0 }

// BytesSent returns the bytes accepted so far per direction.
func (p *Pair) BytesSent() (c2s, s2c int64) { return p.c2s.total, p.s2c.total }

// InFlightDelay returns how long until the last byte currently queued in any
// direction of any live connection becomes deliverable (0 if nothing is
// pending; blackholed bytes are ignored).
func (n *Net) InFlightDelay() time.Duration {
	now := time.Now()
	var d time.Duration
	if n.stalled > 0 {
		d = 1
	}
	for _, p := range n.Pairs {
		for _, h := range []*half{p.c2s, p.s2c} {
			if h.reset != nil || h.rclosed {
				continue
			}
			for _, s := range h.segs {
				if x := s.at.Sub(now); x > d && x < 1000*time.Hour {
					d = x
				}
			}
		}
	}
	return d
}
