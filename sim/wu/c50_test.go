package wu

import (
	"context"
	"errors"
	"fmt"
	"sort"
	"sync"
	"time"

	v3endpointpb "github.com/envoyproxy/go-control-plane/envoy/config/endpoint/v3"
	v3lrspb "github.com/envoyproxy/go-control-plane/envoy/service/load_stats/v3"
	"google.golang.org/grpc/internal/xds/clients"
	"google.golang.org/grpc/internal/xds/clients/lrsclient"
	"google.golang.org/grpc/internal/zzverif/core"
	"google.golang.org/protobuf/proto"
	"google.golang.org/protobuf/types/known/durationpb"
)

// C50: load reports neither lose nor double count load.
//
// The load store's snapshot function is unexported, so the snapshots are taken
// the way production takes them: by the real LRS stream goroutine of a real
// lrsclient.LRSClient, which is given a scripted clients.Transport. Every
// LoadStatsRequest it sends is one snapshot; Stop() produces the final one.

type c50Op struct {
	Kind string `json:"kind"` // start | finish | fail | drop | load | sleep
	Rep  int    `json:"rep,omitempty"`
	Loc  int    `json:"loc,omitempty"`
	Cat  int    `json:"cat,omitempty"`
	Name int    `json:"name,omitempty"`
	Val  int    `json:"val,omitempty"`
	Gap  int64  `json:"gap_ns,omitempty"`
}

type c50Scenario struct {
	Sched       core.Sched `json:"sched"`
	IntervalNs  int64      `json:"interval_ns"`
	AllClusters bool       `json:"all_clusters"` // else the server asks for cluster 0 only
	Workers     [][]c50Op  `json:"workers"`
	TailNs      int64      `json:"tail_ns"`
}

const (
	c50NRep  = 2
	c50NLoc  = 3
	c50NCat  = 3
	c50NName = 2
)

var (
	c50Clusters = [c50NRep]string{"cluster-0", "cluster-1"}
	c50Services = [c50NRep]string{"eds-0", "eds-1"}
	c50Cats     = [c50NCat]string{"", "lb", "throttle"}
	c50Names    = [c50NName]string{"m.zero", "m.one"}
)

func c50Loc(i int) clients.Locality {
	return clients.Locality{Region: "r", Zone: "z", SubZone: fmt.Sprintf("sz%d", i)}
}

func (s *c50Scenario) SchedP() *core.Sched { return &s.Sched }
func (s *c50Scenario) Shape() string {
	n := 0
	for _, w := range s.Workers {
		n += len(w)
	}
	return fmt.Sprintf("workers=%d ops=%d all=%v", len(s.Workers), n, s.AllClusters)
}
func (s *c50Scenario) Validate() error {
	if s.IntervalNs < 1 || s.TailNs < 0 || len(s.Workers) > 8 {
		return errors.New("bad interval/tail/workers")
	}
	n := 0
	for _, w := range s.Workers {
		for _, op := range w {
			n++
			switch op.Kind {
			case "start", "finish", "fail", "drop", "load", "sleep":
			default:
				return fmt.Errorf("bad op %+v", op)
			}
			if op.Rep < 0 || op.Rep >= c50NRep || op.Loc < 0 || op.Loc >= c50NLoc || op.Cat < 0 || op.Cat >= c50NCat || op.Name < 0 || op.Name >= c50NName || op.Val < 0 || op.Val > 1000 || op.Gap < 0 {
				return fmt.Errorf("bad op %+v", op)
			}
		}
	}
	if n > 400 {
		return errors.New("too many ops")
	}
	return nil
}

func genC50(seed uint64, tier string) *c50Scenario {
	r := core.NewRand(seed)
	s := &c50Scenario{Sched: genSched(r, seed)}
	s.IntervalNs = int64(core.Pick(r, 1, 2, 3, 5, 8, 20))
	s.AllClusters = r.Chance(3, 4)
	s.TailNs = int64(r.Intn(2) * r.Intn(30))
	maxOps := 10
	if tier == "thorough" {
		maxOps = 30
	}
	nrep, nloc := r.Range(1, c50NRep), r.Range(1, c50NLoc)
	for i, nw := 0, r.Range(2, 6); i < nw; i++ {
		var ops []c50Op
		for k := r.Range(2, maxOps); k > 0; k-- {
			op := c50Op{Rep: r.Intn(nrep), Loc: r.Intn(nloc), Gap: int64(r.Intn(2) * r.Intn(4))}
			switch x := r.Intn(20); {
			case x < 6:
				op.Kind = "start"
			case x < 10:
				op.Kind = "finish"
			case x < 12:
				op.Kind = "fail"
			case x < 15:
				op.Kind, op.Cat = "drop", r.Intn(c50NCat)
			case x < 19:
				op.Kind, op.Name, op.Val = "load", r.Intn(c50NName), r.Range(0, 8)
			default:
				op.Kind, op.Gap = "sleep", int64(r.Intn(12))
			}
			ops = append(ops, op)
		}
		s.Workers = append(s.Workers, ops)
	}
	return s
}

// c50Counters: one set per (reporter, locality) / (reporter, category).
type c50LocCount struct {
	startInv, startRet int           // CallStarted invoked / returned
	finInv, finRet     int           // CallFinished invoked / returned
	succ, errd         int           // finished OK / with error (invoked)
	loadN              [c50NName]int // CallServerLoad invoked
	loadSum            [c50NName]float64
	loadRetN           [c50NName]int // CallServerLoad returned
	loadRetSum         [c50NName]float64
	wsLoadN            [c50NName]int // loadRetN/loadRetSum when the current snapshot window began
	wsLoadSum          [c50NName]float64
	inLast             bool // the latest report had an entry for this locality
	// in-progress bounds over the current snapshot window
	minLo, maxHi int
	// reported so far
	rIssued, rSucc, rErr uint64
	rLoadN               [c50NName]uint64
	rLoadSum             [c50NName]float64
}

func (c *c50LocCount) lo() int { return c.startRet - c.finInv }
func (c *c50LocCount) hi() int { return c.startInv - c.finRet }

type c50H struct {
	e         *core.Env
	s         *c50Scenario
	loc       [c50NRep][c50NLoc]c50LocCount
	drops     [c50NRep][c50NCat]int    // CallDropped invoked
	rDrops    [c50NRep][c50NCat]uint64 // reported per category ("" is never itemised)
	rTotDrops [c50NRep]uint64
	nreports  int
	nstreams  int
	stopping  bool
}

// ---- scripted transport

type c50TB struct{ h *c50H }

func (b c50TB) Build(clients.ServerIdentifier) (clients.Transport, error) { return &c50Tr{h: b.h}, nil }

type c50Tr struct{ h *c50H }

func (t *c50Tr) Close() {}
func (t *c50Tr) NewStream(ctx context.Context, method string) (clients.Stream, error) {
	t.h.nstreams++
	t.h.e.Logf("lrs stream #%d %s", t.h.nstreams, method)
	return &c50Stream{h: t.h, ctx: ctx}, nil
}

type c50Stream struct {
	h     *c50H
	ctx   context.Context
	nsend int
	nrecv int
}

func (st *c50Stream) Recv() ([]byte, error) {
	st.nrecv++
	if st.nrecv == 1 {
		resp := &v3lrspb.LoadStatsResponse{LoadReportingInterval: durationpb.New(time.Duration(st.h.s.IntervalNs))}
		if st.h.s.AllClusters {
			resp.SendAllClusters = true
		} else {
			resp.Clusters = []string{c50Clusters[0]}
		}
		return proto.Marshal(resp)
	}
	<-st.ctx.Done()
	return nil, st.ctx.Err()
}

func (st *c50Stream) Send(b []byte) error {
	st.nsend++
	var req v3lrspb.LoadStatsRequest
	if err := proto.Unmarshal(b, &req); err != nil {
		st.h.e.Violate("report_malformed", "LoadStatsRequest does not unmarshal: %v", err)
		return nil
	}
	if st.nsend == 1 {
		if req.GetNode() == nil || len(req.GetClusterStats()) != 0 {
			st.h.e.Violate("report_malformed", "first request on the stream must carry the node and no stats")
		}
		return nil
	}
	st.h.report(&req)
	return nil
}

// report is called at the invocation of Send: the snapshot it carries was
// taken between the return of the previous report's Send and now.
func (h *c50H) report(req *v3lrspb.LoadStatsRequest) {
	e := h.e
	h.nreports++
	e.Logf("report #%d clusters=%d", h.nreports, len(req.GetClusterStats()))
	seenRep := [c50NRep]bool{}
	seenLoc := [c50NRep][c50NLoc]bool{}
	for _, cs := range req.GetClusterStats() {
		rep := -1
		for i := range c50Clusters {
			if cs.GetClusterName() == c50Clusters[i] && cs.GetClusterServiceName() == c50Services[i] {
				rep = i
			}
		}
		if rep < 0 || seenRep[rep] {
			e.Violate("report_malformed", "report names unknown or repeated cluster %q/%q", cs.GetClusterName(), cs.GetClusterServiceName())
			continue
		}
		seenRep[rep] = true
		if !h.s.AllClusters && rep != 0 {
			e.Violate("unrequested_cluster", "report contains cluster %q which the server did not ask for", cs.GetClusterName())
		}
		h.rTotDrops[rep] += cs.GetTotalDroppedRequests()
		e.Logf(" rep%d total_drops=%d", rep, cs.GetTotalDroppedRequests())
		tot := 0
		for c := range c50Cats {
			tot += h.drops[rep][c]
		}
		if h.rTotDrops[rep] > uint64(tot) {
			e.Violate("overcount", "cluster %d: %d drops reported so far but only %d recorded", rep, h.rTotDrops[rep], tot)
		}
		dr := append([]*v3endpointpb.ClusterStats_DroppedRequests{}, cs.GetDroppedRequests()...)
		sort.Slice(dr, func(i, j int) bool { return dr[i].GetCategory() < dr[j].GetCategory() })
		for _, d := range dr {
			cat := -1
			for i := 1; i < c50NCat; i++ {
				if d.GetCategory() == c50Cats[i] {
					cat = i
				}
			}
			if cat < 0 {
				e.Violate("report_malformed", "report itemises unknown drop category %q", d.GetCategory())
				continue
			}
			h.rDrops[rep][cat] += d.GetDroppedCount()
			e.Logf(" rep%d drops[%s]=%d", rep, d.GetCategory(), d.GetDroppedCount())
			if h.rDrops[rep][cat] > uint64(h.drops[rep][cat]) {
				e.Violate("overcount", "cluster %d category %q: %d drops reported so far but only %d recorded", rep, d.GetCategory(), h.rDrops[rep][cat], h.drops[rep][cat])
			}
		}
		ls := append([]*v3endpointpb.UpstreamLocalityStats{}, cs.GetUpstreamLocalityStats()...)
		sort.Slice(ls, func(i, j int) bool { return ls[i].GetLocality().GetSubZone() < ls[j].GetLocality().GetSubZone() })
		for _, l := range ls {
			li := -1
			for i := 0; i < c50NLoc; i++ {
				if c50Loc(i).SubZone == l.GetLocality().GetSubZone() && l.GetLocality().GetRegion() == "r" && l.GetLocality().GetZone() == "z" {
					li = i
				}
			}
			if li < 0 || seenLoc[rep][li] {
				e.Violate("report_malformed", "report names unknown or repeated locality %v", l.GetLocality())
				continue
			}
			seenLoc[rep][li] = true
			c := &h.loc[rep][li]
			c.rIssued += l.GetTotalIssuedRequests()
			c.rSucc += l.GetTotalSuccessfulRequests()
			c.rErr += l.GetTotalErrorRequests()
			ip := l.GetTotalRequestsInProgress()
			e.Logf(" rep%d loc%d issued=%d ok=%d err=%d inprogress=%d window=[%d,%d]", rep, li, l.GetTotalIssuedRequests(), l.GetTotalSuccessfulRequests(), l.GetTotalErrorRequests(), ip, c.minLo, c.maxHi)
			if c.rIssued > uint64(c.startInv) || c.rSucc > uint64(c.succ) || c.rErr > uint64(c.errd) {
				e.Violate("overcount", "cluster %d locality %d: reported so far issued/ok/err=%d/%d/%d, recorded %d/%d/%d", rep, li, c.rIssued, c.rSucc, c.rErr, c.startInv, c.succ, c.errd)
			}
			if ip < uint64(c.minLo) || ip > uint64(c.maxHi) {
				e.Violate("in_progress_bounds", "cluster %d locality %d: report says %d in progress, but started-finished was within [%d,%d] during the snapshot window", rep, li, ip, c.minLo, c.maxHi)
			}
			if c.minLo != c.maxHi {
				e.Probe("in_progress_changed_during_window")
			}
			if ip == 0 && l.GetTotalIssuedRequests() == 0 && l.GetTotalSuccessfulRequests() == 0 && l.GetTotalErrorRequests() == 0 {
				e.Probe("locality_reported_for_server_loads_only")
			}
			ms := append([]*v3endpointpb.EndpointLoadMetricStats{}, l.GetLoadMetricStats()...)
			sort.Slice(ms, func(i, j int) bool { return ms[i].GetMetricName() < ms[j].GetMetricName() })
			for _, m := range ms {
				ni := -1
				for i := range c50Names {
					if c50Names[i] == m.GetMetricName() {
						ni = i
					}
				}
				if ni < 0 {
					e.Violate("report_malformed", "report names unknown metric %q", m.GetMetricName())
					continue
				}
				c.rLoadN[ni] += m.GetNumRequestsFinishedWithMetric()
				c.rLoadSum[ni] += m.GetTotalMetricValue()
				e.Logf(" rep%d loc%d load[%s] n=%d sum=%v", rep, li, m.GetMetricName(), m.GetNumRequestsFinishedWithMetric(), m.GetTotalMetricValue())
				if c.rLoadN[ni] > uint64(c.loadN[ni]) || c.rLoadSum[ni] > c.loadSum[ni] {
					e.Violate("overcount", "cluster %d locality %d metric %q: reported so far n=%d sum=%v, recorded n=%d sum=%v", rep, li, m.GetMetricName(), c.rLoadN[ni], c.rLoadSum[ni], c.loadN[ni], c.loadSum[ni])
				}
			}
			// The locality is in this report, so its server loads were swept:
			// everything recorded before the snapshot window began must have
			// been reported by now.
			for ni := range c50Names {
				if c.rLoadN[ni] < uint64(c.wsLoadN[ni]) || c.rLoadSum[ni] < c.wsLoadSum[ni] {
					e.Violate("server_load_lost", "cluster %d locality %d metric %q: n=%d sum=%v were recorded before this report's snapshot began, but only n=%d sum=%v reported so far", rep, li, c50Names[ni], c.wsLoadN[ni], c.wsLoadSum[ni], c.rLoadN[ni], c.rLoadSum[ni])
				}
			}
		}
	}
	// A locality that is left out of a report has, by the report format, no
	// request in progress.
	for rep := range h.loc {
		if !h.s.AllClusters && rep != 0 {
			continue
		}
		for li := range h.loc[rep] {
			c := &h.loc[rep][li]
			if !seenLoc[rep][li] && c.minLo > 0 {
				e.Violate("in_progress_bounds", "cluster %d locality %d is missing from the report although at least %d request(s) were in progress during the whole snapshot window", rep, li, c.minLo)
			}
			// next window starts when this Send returns; nothing runs between
			// here and that return.
			c.minLo, c.maxHi = c.lo(), c.hi()
			c.wsLoadN, c.wsLoadSum = c.loadRetN, c.loadRetSum
			c.inLast = seenLoc[rep][li]
		}
	}
}

func runC50(e *core.Env, s *c50Scenario) {
	h := &c50H{e: e, s: s}
	client, err := lrsclient.New(lrsclient.Config{Node: clients.Node{ID: "sim-node"}, TransportBuilder: c50TB{h: h}})
	if err != nil {
		panic(err)
	}
	store, err := client.ReportLoad(clients.ServerIdentifier{ServerURI: "lrs.sim"})
	if err != nil {
		panic(err)
	}
	var reps [c50NRep]*lrsclient.PerClusterReporter
	for i := range reps {
		reps[i] = store.ReporterForCluster(c50Clusters[i], c50Services[i])
	}
	var wg sync.WaitGroup
	for wi, ops := range s.Workers {
		wg.Add(1)
		go func() {
			defer wg.Done()
			var open, started [c50NRep][c50NLoc]int
			for oi, op := range ops {
				nsleep(op.Gap)
				c := &h.loc[op.Rep][op.Loc]
				who := fmt.Sprintf("w%d.%d", wi, oi)
				switch op.Kind {
				case "start":
					e.Logf("%s start rep%d loc%d", who, op.Rep, op.Loc)
					c.startInv++
					if c.hi() > c.maxHi {
						c.maxHi = c.hi()
					}
					reps[op.Rep].CallStarted(c50Loc(op.Loc))
					c.startRet++
					open[op.Rep][op.Loc]++
					started[op.Rep][op.Loc]++
				case "finish", "fail":
					if open[op.Rep][op.Loc] == 0 {
						continue
					}
					open[op.Rep][op.Loc]--
					e.Logf("%s %s rep%d loc%d", who, op.Kind, op.Rep, op.Loc)
					c.finInv++
					if c.lo() < c.minLo {
						c.minLo = c.lo()
					}
					var cerr error
					if op.Kind == "fail" {
						cerr = errors.New("rpc failed")
						c.errd++
					} else {
						c.succ++
					}
					reps[op.Rep].CallFinished(c50Loc(op.Loc), cerr)
					c.finRet++
				case "load":
					// server load is reported for an RPC this worker has started
					if started[op.Rep][op.Loc] == 0 {
						continue
					}
					e.Logf("%s load rep%d loc%d %s=%d", who, op.Rep, op.Loc, c50Names[op.Name], op.Val)
					c.loadN[op.Name]++
					c.loadSum[op.Name] += float64(op.Val)
					reps[op.Rep].CallServerLoad(c50Loc(op.Loc), c50Names[op.Name], float64(op.Val))
					c.loadRetN[op.Name]++
					c.loadRetSum[op.Name] += float64(op.Val)
				case "drop":
					e.Logf("%s drop rep%d cat=%q", who, op.Rep, c50Cats[op.Cat])
					h.drops[op.Rep][op.Cat]++
					reps[op.Rep].CallDropped(c50Cats[op.Cat])
				}
			}
		}()
	}
	wg.Wait()
	nsleep(s.TailNs)
	if h.nreports > 0 {
		e.Probe("periodic_reports")
	}
	before := h.nreports
	h.stopping = true
	ctx, cancel := context.WithTimeout(context.Background(), time.Hour)
	store.Stop(ctx) // sends the final report and waits for the stream goroutine
	cancel()
	e.Logf("stopped reports=%d", h.nreports)
	if h.nreports == before {
		// Without a final report nothing can be said about conservation. (The
		// final report is skipped only if the stream never got established.)
		e.Violate("no_final_report", "Stop() returned without a final load report")
		return
	}
	if h.nstreams > 1 {
		e.Probe("stream_restarted_during_stop")
	}
	for rep := range h.loc {
		if !s.AllClusters && rep != 0 {
			continue
		}
		tot := 0
		for c := range c50Cats {
			tot += h.drops[rep][c]
			if c > 0 && h.rDrops[rep][c] != uint64(h.drops[rep][c]) {
				e.Violate("drops_conservation", "cluster %d category %q: %d drops recorded, %d reported in total", rep, c50Cats[c], h.drops[rep][c], h.rDrops[rep][c])
			}
		}
		if h.rTotDrops[rep] != uint64(tot) {
			e.Violate("drops_conservation", "cluster %d: %d drops recorded, %d reported in total", rep, tot, h.rTotDrops[rep])
		}
		for li := range h.loc[rep] {
			c := &h.loc[rep][li]
			if c.rIssued != uint64(c.startInv) || c.rSucc != uint64(c.succ) || c.rErr != uint64(c.errd) {
				e.Violate("requests_conservation", "cluster %d locality %d: recorded issued/ok/err=%d/%d/%d, reports total %d/%d/%d", rep, li, c.startInv, c.succ, c.errd, c.rIssued, c.rSucc, c.rErr)
			}
			for ni := range c50Names {
				if c.rLoadN[ni] == uint64(c.loadN[ni]) && c.rLoadSum[ni] == c.loadSum[ni] {
					continue
				}
				if c.inLast {
					// (kept apart from the next oracle: that one had a known
					// cause, repaired by /repo commit b5e8867, which needs the
					// locality to be absent from the final report)
					e.Violate("server_load_lost", "cluster %d locality %d metric %q: recorded n=%d sum=%v, reports total n=%d sum=%v although the final report covers the locality", rep, li, c50Names[ni], c.loadN[ni], c.loadSum[ni], c.rLoadN[ni], c.rLoadSum[ni])
				} else {
					e.Violate("server_load_conservation", "cluster %d locality %d metric %q: recorded n=%d sum=%v, reports total n=%d sum=%v", rep, li, c50Names[ni], c.loadN[ni], c.loadSum[ni], c.rLoadN[ni], c.rLoadSum[ni])
				}
			}
		}
	}
}

func init() { core.Register("C50", genC50, runC50) }

// Protobuf builds its per-message coder tables lazily on first use (typed
// atomics = scheduling points). Touch every message type a report can contain
// once at process start, outside any run, so that no run pays for it.
func init() {
	req := &v3lrspb.LoadStatsRequest{ClusterStats: []*v3endpointpb.ClusterStats{{
		ClusterName: "w", ClusterServiceName: "w", TotalDroppedRequests: 1,
		DroppedRequests:    []*v3endpointpb.ClusterStats_DroppedRequests{{Category: "w", DroppedCount: 1}},
		LoadReportInterval: durationpb.New(time.Second),
		UpstreamLocalityStats: []*v3endpointpb.UpstreamLocalityStats{{
			TotalSuccessfulRequests: 1, TotalRequestsInProgress: 1, TotalErrorRequests: 1, TotalIssuedRequests: 1,
			LoadMetricStats: []*v3endpointpb.EndpointLoadMetricStats{{MetricName: "w", NumRequestsFinishedWithMetric: 1, TotalMetricValue: 1}},
			CpuUtilization:  &v3endpointpb.UnnamedEndpointLoadMetricStats{NumRequestsFinishedWithMetric: 1, TotalMetricValue: 1},
		}},
	}}}
	b, _ := proto.Marshal(req)
	_ = proto.Unmarshal(b, &v3lrspb.LoadStatsRequest{})
	resp := &v3lrspb.LoadStatsResponse{Clusters: []string{"w"}, SendAllClusters: true, LoadReportingInterval: durationpb.New(time.Second)}
	b, _ = proto.Marshal(resp)
	_ = proto.Unmarshal(b, &v3lrspb.LoadStatsResponse{})
}
