package wu

import (
	"fmt"
	"sync"
	"time"

	"github.com/anishathalye/porcupine"
	"google.golang.org/grpc/internal/cache"
	"google.golang.org/grpc/internal/grpcsync"
	"google.golang.org/grpc/internal/zzverif/core"
)

// C57: expiring cache (internal/cache.TimeoutCache), one-shot event
// (grpcsync.Event) and reference counted wrapper (grpcsync.RefCounted).
//
// One scenario exercises one of the three primitives (Kind).

type c57Op struct {
	// cache: add | remove | clear | clearcb | len | sleep
	// event: fire | has | poll | wait | sleep
	// ref:   acquire | tryacquire | release | sleep
	Kind string `json:"kind"`
	Key  int    `json:"key,omitempty"`
	Gap  int64  `json:"gap_ns,omitempty"` // sleep before the op
}

type c57Scenario struct {
	Sched     core.Sched `json:"sched"`
	Kind      string     `json:"kind"` // cache | event | ref
	TimeoutNs int64      `json:"timeout_ns,omitempty"`
	Actors    [][]c57Op  `json:"actors"`
}

func (s *c57Scenario) SchedP() *core.Sched { return &s.Sched }
func (s *c57Scenario) Shape() string {
	n := 0
	for _, a := range s.Actors {
		n += len(a)
	}
	return fmt.Sprintf("%s actors=%d ops=%d", s.Kind, len(s.Actors), n)
}

const c57MaxKeys = 4

func (s *c57Scenario) Validate() error {
	ok := map[string]map[string]bool{
		"cache": {"add": true, "remove": true, "clear": true, "clearcb": true, "len": true, "sleep": true},
		"event": {"fire": true, "has": true, "poll": true, "wait": true, "sleep": true},
		"ref":   {"acquire": true, "tryacquire": true, "release": true, "sleep": true},
	}[s.Kind]
	if ok == nil {
		return fmt.Errorf("bad kind %q", s.Kind)
	}
	if s.TimeoutNs < 0 || len(s.Actors) > 8 {
		return fmt.Errorf("bad timeout/actors")
	}
	for _, a := range s.Actors {
		for _, op := range a {
			if !ok[op.Kind] || op.Key < 0 || op.Key >= c57MaxKeys || op.Gap < 0 {
				return fmt.Errorf("bad op %+v", op)
			}
		}
	}
	return nil
}

func genC57(seed uint64, tier string) *c57Scenario {
	r := core.NewRand(seed)
	s := &c57Scenario{Sched: genSched(r, seed)}
	maxOps := 6
	if tier == "thorough" {
		maxOps = 10
	}
	gap := func() int64 {
		if r.Chance(1, 2) {
			return 0
		}
		return int64(r.Intn(5))
	}
	switch r.Intn(10) {
	case 0, 1, 2, 3, 4, 5:
		s.Kind = "cache"
		s.TimeoutNs = int64(r.Range(0, 6))
		nk := r.Range(1, 3)
		for i, na := 0, r.Range(2, 4); i < na; i++ {
			var ops []c57Op
			for k := r.Range(1, maxOps); k > 0; k-- {
				op := c57Op{Key: r.Intn(nk), Gap: gap()}
				switch x := r.Intn(20); {
				case x < 8:
					op.Kind = "add"
				case x < 15:
					op.Kind = "remove"
				case x < 16:
					op.Kind = "clear"
				case x < 17:
					op.Kind = "clearcb"
				case x < 18:
					op.Kind = "len"
				default:
					op.Kind, op.Gap = "sleep", int64(r.Intn(8))
				}
				ops = append(ops, op)
			}
			s.Actors = append(s.Actors, ops)
		}
	case 6, 7:
		s.Kind = "event"
		for i, na := 0, r.Range(2, 6); i < na; i++ {
			var ops []c57Op
			for k := r.Range(1, 3); k > 0; k-- {
				ops = append(ops, c57Op{Kind: core.Pick(r, "fire", "fire", "fire", "has", "poll", "wait"), Gap: gap()})
			}
			s.Actors = append(s.Actors, ops)
		}
	default:
		s.Kind = "ref"
		for i, na := 0, r.Range(2, 5); i < na; i++ {
			var ops []c57Op
			for k := r.Range(1, maxOps); k > 0; k-- {
				ops = append(ops, c57Op{Kind: core.Pick(r, "acquire", "tryacquire", "tryacquire", "release", "release", "release"), Gap: gap()})
			}
			s.Actors = append(s.Actors, ops)
		}
	}
	return s
}

func runC57(e *core.Env, s *c57Scenario) {
	switch s.Kind {
	case "cache":
		runC57Cache(e, s)
	case "event":
		runC57Event(e, s)
	case "ref":
		runC57Ref(e, s)
	}
}

// ---------------------------------------------------------------- cache

type c57Entry struct {
	id, key   int
	add       span
	addInvNs  int64
	addRetNs  int64
	added     bool // Add returned (item, true)
	cb        int
	cbSeq     uint64
	removed   int
	inClearCB bool // the callback ran while a Clear(true) was in progress
}

type c57Clear struct {
	sp    span
	invNs int64
	run   bool
}

// porcupine model of the cache: key -> entry id (-1: absent).
type c57State [c57MaxKeys]int

type c57In struct {
	op      string // add remove clear clearcb len cb
	key, id int
}
type c57Out struct {
	id int
	ok bool
	n  int
}

var c57Model = porcupine.Model{
	Init: func() any {
		var st c57State
		for i := range st {
			st[i] = -1
		}
		return st
	},
	Step: func(state, input, output any) (bool, any) {
		st, in, out := state.(c57State), input.(c57In), output.(c57Out)
		switch in.op {
		case "add":
			if st[in.key] >= 0 {
				return !out.ok && out.id == st[in.key], st
			}
			if !out.ok || out.id != in.id {
				return false, st
			}
			st[in.key] = in.id
			return true, st
		case "remove":
			if st[in.key] < 0 {
				return !out.ok, st
			}
			if !out.ok || out.id != st[in.key] {
				return false, st
			}
			st[in.key] = -1
			return true, st
		case "clear":
			for i := range st {
				st[i] = -1
			}
			return true, st
		case "clearcb":
			// entries leave the map through their own "cb" operations, whose
			// intervals end inside this Clear; see runC57Cache.
			return true, st
		case "cb":
			if st[in.key] != in.id {
				return false, st
			}
			st[in.key] = -1
			return true, st
		case "len":
			n := 0
			for _, v := range st {
				if v >= 0 {
					n++
				}
			}
			return n == out.n, st
		}
		return false, st
	},
}

func runC57Cache(e *core.Env, s *c57Scenario) {
	timeout := time.Duration(s.TimeoutNs)
	c := cache.NewTimeoutCache(timeout)
	var entries []*c57Entry
	var clears []*c57Clear
	var hist []porcupine.Operation
	nops := 0
	rec := func(client int, in c57In, out c57Out, sp span) {
		hist = append(hist, porcupine.Operation{ClientId: client, Input: in, Output: out, Call: int64(sp.inv), Return: int64(sp.ret)})
	}
	clearCBActive := func() bool {
		for _, cl := range clears {
			if cl.run && cl.sp.ret == 0 {
				return true
			}
		}
		return false
	}
	callback := func(en *c57Entry) func() {
		return func() {
			en.cb++
			en.cbSeq = e.Next()
			en.inClearCB = clearCBActive()
			e.Logf("cb entry=%d key=%d n=%d", en.id, en.key, en.cb)
			if en.cb > 1 {
				e.Violate("callback_more_than_once", "expiry callback of entry %d (key %d) ran %d times", en.id, en.key, en.cb)
			}
			if en.removed > 0 {
				e.Violate("callback_after_remove", "expiry callback of entry %d (key %d) ran although Remove had returned it", en.id, en.key)
			}
			if !en.inClearCB && e.SimNs() < en.addInvNs+s.TimeoutNs {
				e.Violate("callback_before_timeout", "entry %d added at t>=%d ns with timeout %d ns expired at t=%d ns", en.id, en.addInvNs, s.TimeoutNs, e.SimNs())
			}
			if !en.inClearCB && e.SimNs() == en.addInvNs+s.TimeoutNs {
				e.Probe("expired_on_time")
			}
		}
	}
	var wg sync.WaitGroup
	for ai, ops := range s.Actors {
		nops += len(ops)
		wg.Add(1)
		go func() {
			defer wg.Done()
			for oi, op := range ops {
				nsleep(op.Gap)
				switch op.Kind {
				case "add":
					en := &c57Entry{id: len(entries), key: op.Key, addInvNs: e.SimNs()}
					entries = append(entries, en)
					en.add.inv = e.Next()
					got, ok := c.Add(op.Key, en.id, callback(en))
					en.add.ret = e.Next()
					en.addRetNs = e.SimNs()
					en.added = ok
					gid, _ := got.(int)
					e.Logf("a%d.%d add key=%d id=%d -> %d %v", ai, oi, op.Key, en.id, gid, ok)
					rec(ai, c57In{op: "add", key: op.Key, id: en.id}, c57Out{id: gid, ok: ok}, en.add)
					if ok && gid != en.id {
						e.Violate("add_result", "Add(key %d, item %d) returned (%v, true)", op.Key, en.id, got)
					}
					if !ok {
						if gid < 0 || gid >= len(entries) || gid == en.id || entries[gid].key != op.Key || !entries[gid].added && entries[gid].add.ret != 0 {
							e.Violate("add_result", "Add(key %d) returned (%v, false) which is not an entry added under that key", op.Key, got)
						} else {
							e.Probe("add_found_existing")
						}
					}
				case "remove":
					sp := span{inv: e.Next()}
					got, ok := c.Remove(op.Key)
					sp.ret = e.Next()
					gid := -1
					if ok {
						gid, _ = got.(int)
					}
					e.Logf("a%d.%d remove key=%d -> %d %v", ai, oi, op.Key, gid, ok)
					rec(ai, c57In{op: "remove", key: op.Key}, c57Out{id: gid, ok: ok}, sp)
					if !ok {
						if got != nil {
							e.Violate("remove_result", "Remove(key %d) returned (%v, false)", op.Key, got)
						}
						break
					}
					if gid < 0 || gid >= len(entries) || entries[gid].key != op.Key {
						e.Violate("remove_result", "Remove(key %d) returned (%v, true) which was never added under that key", op.Key, got)
						break
					}
					en := entries[gid]
					en.removed++
					if en.removed > 1 {
						e.Violate("removed_twice", "entry %d (key %d) was returned by %d Remove calls", en.id, en.key, en.removed)
					}
					if en.cb > 0 {
						e.Violate("callback_after_remove", "Remove returned entry %d (key %d) whose expiry callback had already run", en.id, en.key)
					}
					if e.SimNs() >= en.addInvNs+s.TimeoutNs {
						e.Probe("remove_at_or_after_expiry_instant")
					}
				case "clear", "clearcb":
					cl := &c57Clear{run: op.Kind == "clearcb", invNs: e.SimNs()}
					clears = append(clears, cl)
					cl.sp.inv = e.Next()
					before := 0
					for _, en := range entries {
						before += en.cb
					}
					c.Clear(cl.run)
					after := 0
					for _, en := range entries {
						after += en.cb
					}
					cl.sp.ret = e.Next()
					e.Logf("a%d.%d %s", ai, oi, op.Kind)
					rec(ai, c57In{op: op.Kind}, c57Out{}, cl.sp)
					if cl.run && after > before {
						e.Probe("clear_ran_callbacks")
					}
				case "len":
					sp := span{inv: e.Next()}
					n := c.Len()
					sp.ret = e.Next()
					e.Logf("a%d.%d len -> %d", ai, oi, n)
					rec(ai, c57In{op: "len"}, c57Out{n: n}, sp)
				}
			}
		}()
	}
	wg.Wait()
	// Let every timer fire: an entry that is still cached expires now.
	time.Sleep(timeout + 1)
	sp := span{inv: e.Next()}
	n := c.Len()
	sp.ret = e.Next()
	rec(len(s.Actors), c57In{op: "len"}, c57Out{n: n}, sp)
	if n != 0 {
		e.Violate("entry_never_expired", "Len()=%d after every timeout has passed", n)
	}
	for _, en := range entries {
		if en.cb > 0 {
			// The entry left the map (expiry, or Clear with callbacks) at some
			// point after Add was invoked and before the callback started.
			rec(len(s.Actors)+1+en.id, c57In{op: "cb", key: en.key, id: en.id}, c57Out{}, span{en.add.inv, en.cbSeq})
		}
		if !en.added {
			if en.cb > 0 || en.removed > 0 {
				e.Violate("phantom_entry", "entry %d was rejected by Add but later removed/expired", en.id)
			}
			continue
		}
		if en.cb+en.removed > 0 {
			continue
		}
		// Neither returned by Remove nor expired: only a Clear(false) that
		// overlapped the entry's life explains it.
		explained := false
		for _, cl := range clears {
			if !cl.run && cl.sp.ret > en.add.inv && cl.invNs <= en.addRetNs+s.TimeoutNs {
				explained = true
			}
		}
		if explained {
			e.Probe("cleared_silently")
		} else {
			e.Violate("lost_entry", "entry %d (key %d) was neither removed nor cleared without callbacks, yet its callback never ran", en.id, en.key)
		}
	}
	if nops+len(entries)+1 <= maxLinOps {
		linCheck(e, "cache_not_linearizable", c57Model, hist, func(o porcupine.Operation) string {
			in, out := o.Input.(c57In), o.Output.(c57Out)
			return fmt.Sprintf("[%d,%d] %s k=%d id=%d -> id=%d ok=%v n=%d", o.Call, o.Return, in.op, in.key, in.id, out.id, out.ok, out.n)
		})
	}
}

// ---------------------------------------------------------------- event

func runC57Event(e *core.Env, s *c57Scenario) {
	ev := grpcsync.NewEvent()
	invoked, returned, trues, winReturned := 0, 0, 0, false
	fire := func(who string) {
		invoked++
		e.Logf("%s fire", who)
		r, pv := func() (r bool, pv any) {
			defer func() { pv = recover() }()
			return ev.Fire(), nil
		}()
		if pv != nil {
			e.Violate("fire_panicked", "Fire panicked: %v", pv)
		}
		returned++
		e.Logf("%s fire -> %v", who, r)
		if r {
			trues++
			winReturned = true
			if trues > 1 {
				e.Violate("fired_twice", "%d calls of Fire returned true", trues)
			}
		}
		if !r && trues == 0 {
			e.Probe("loser_returned_before_winner")
		}
	}
	var wg sync.WaitGroup
	for ai, ops := range s.Actors {
		wg.Add(1)
		go func() {
			defer wg.Done()
			for oi, op := range ops {
				nsleep(op.Gap)
				who := fmt.Sprintf("a%d.%d", ai, oi)
				switch op.Kind {
				case "fire":
					fire(who)
				case "has":
					retBefore := returned
					r := ev.HasFired()
					e.Logf("%s has -> %v", who, r)
					if r && invoked == 0 {
						e.Violate("fired_without_fire", "HasFired()=true before any Fire was invoked")
					}
					if !r && retBefore > 0 {
						e.Violate("not_fired_after_fire", "HasFired()=false after a Fire call had returned")
					}
				case "poll":
					winBefore := winReturned
					closed := false
					select {
					case <-ev.Done():
						closed = true
					default:
					}
					e.Logf("%s poll -> %v", who, closed)
					if closed && invoked == 0 {
						e.Violate("fired_without_fire", "Done() closed before any Fire was invoked")
					}
					if !closed && winBefore {
						e.Violate("done_open_after_fire", "Done() still open after Fire had returned true")
					}
				case "wait":
					<-ev.Done()
					e.Logf("%s woke", who)
					if invoked == 0 {
						e.Violate("fired_without_fire", "Done() closed before any Fire was invoked")
					}
					if !ev.HasFired() {
						e.Violate("not_fired_after_fire", "HasFired()=false after Done() was closed")
					}
				}
			}
		}()
	}
	// Release waiters of scenarios without (or with late) firers.
	nsleep(100)
	if invoked == 0 {
		fire("root")
	}
	wg.Wait()
	if trues != 1 {
		e.Violate("fired_count", "%d of %d Fire calls returned true, want exactly 1", trues, invoked)
	}
	if invoked > 1 {
		e.Probe("concurrent_firers")
	}
}

// ---------------------------------------------------------------- refcount

func runC57Ref(e *core.Env, s *c57Scenario) {
	held := 0 // references owned by actors: +1 after a successful acquire returned, -1 before Decrement is invoked
	zero := 0
	rc := grpcsync.NewRefCounted(7, func() {
		zero++
		e.Logf("onZero n=%d held=%d", zero, held)
		if zero > 1 {
			e.Violate("cleanup_twice", "onZero ran %d times", zero)
		}
		if held > 0 {
			e.Violate("cleanup_while_referenced", "onZero ran while %d reference(s) were still held", held)
		}
	})
	held = 1 // the initial reference belongs to actor 0
	var wg sync.WaitGroup
	for ai, ops := range s.Actors {
		wg.Add(1)
		go func() {
			defer wg.Done()
			mine := 0
			if ai == 0 {
				mine = 1
			}
			release := func(who string) {
				mine--
				held--
				e.Logf("%s release", who)
				rc.Decrement()
			}
			for oi, op := range ops {
				nsleep(op.Gap)
				who := fmt.Sprintf("a%d.%d", ai, oi)
				switch {
				case op.Kind == "acquire" && mine > 0:
					// Increment is legal only while the caller holds a reference.
					rc.Increment()
					mine++
					held++
					e.Logf("%s increment", who)
					if zero > 0 {
						e.Violate("cleanup_while_referenced", "onZero had run although the incrementing actor held a reference")
					}
				case op.Kind == "acquire" || op.Kind == "tryacquire":
					zeroBefore := zero
					ok := rc.TryIncrement()
					if ok {
						mine++
						held++
					}
					e.Logf("%s tryincrement -> %v", who, ok)
					if ok && zeroBefore > 0 {
						e.Violate("acquired_after_cleanup", "TryIncrement succeeded after onZero had run")
					}
					if ok && zero > 0 {
						e.Violate("cleanup_while_referenced", "TryIncrement succeeded but onZero has run")
					}
					if !ok {
						e.Probe("tryincrement_rejected_after_cleanup")
					}
					if ok && mine == 1 {
						e.Probe("speculative_acquire_ok")
					}
				case op.Kind == "release" && mine > 0:
					release(who)
				}
			}
			for mine > 0 {
				release(fmt.Sprintf("a%d.end", ai))
			}
		}()
	}
	wg.Wait()
	if zero != 1 {
		e.Violate("cleanup_count", "onZero ran %d times after every reference was released, want 1", zero)
	}
	if rc.TryIncrement() {
		e.Violate("acquired_after_cleanup", "TryIncrement succeeded after the count had reached zero")
	}
}

func init() { core.Register("C57", genC57, runC57) }
