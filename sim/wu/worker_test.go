// Package wu is the "primitives" world: real grpc-go building blocks driven
// directly by harness goroutines under the deterministic scheduler.
package wu

import (
	"testing"

	"google.golang.org/grpc/internal/zzverif/core"
)

func TestSimWorker(t *testing.T) {
	core.GCBetween = false
	// few goroutines, races a few scheduling points wide: uniform picks find
	// them fastest here (measured); keep the other modes for diversity
	core.PCTPercent, core.PCTSDPercent, core.SDPercent = 5, 5, 10
	core.WorkerMain(t)
}
