// Package wu is the "primitives" world: real grpc-go building blocks driven
// directly by harness goroutines under the deterministic scheduler.
package wu

import (
	"testing"

	"google.golang.org/grpc/internal/zzverif/core"
)

func TestSimWorker(t *testing.T) {
	core.GCBetween = false
	core.WorkerMain(t)
}
