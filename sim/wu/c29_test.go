package wu

import (
	"fmt"
	"sync"
	"time"

	"google.golang.org/grpc/internal/idle"
	"google.golang.org/grpc/internal/zzverif/core"
)

// C29: a channel never goes idle under an active RPC.

type c29Op struct {
	Kind string `json:"kind"` // call | exit | sleep
	Hold int64  `json:"hold_ns,omitempty"`
	Gap  int64  `json:"gap_ns,omitempty"`
}

type c29Scenario struct {
	Sched     core.Sched `json:"sched"`
	TimeoutNs int64      `json:"timeout_ns"`
	Callers   [][]c29Op  `json:"callers"`
	CloseAtNs int64      `json:"close_at_ns"` // <0: close after all callers are done
	TailNs    int64      `json:"tail_ns"`     // idle time after the callers finish (lets the timer fire)
	// The channel's ExitIdleMode/EnterIdleMode take this long (a real channel
	// rebuilds or tears down its resolver and balancer there): 0 = instant,
	// <0 = one bare scheduling point, >0 = virtual nanoseconds. The channel
	// counts as idle until ExitIdleMode has returned and from the moment
	// EnterIdleMode is entered.
	ExitHoldNs  int64 `json:"exit_hold_ns,omitempty"`
	EnterHoldNs int64 `json:"enter_hold_ns,omitempty"`
}

func (s *c29Scenario) SchedP() *core.Sched { return &s.Sched }
func (s *c29Scenario) Shape() string {
	n := 0
	for _, c := range s.Callers {
		n += len(c)
	}
	return fmt.Sprintf("callers=%d ops=%d close=%v", len(s.Callers), n, s.CloseAtNs >= 0)
}

func genSched(r *core.Rand, seed uint64) core.Sched {
	return core.Sched{SchedSeed: core.Mix(seed, 11), AuxSeed: core.Mix(seed, 12), YieldThr: core.Pick(r, uint32(0), 200, 700, 3300, 13000, 30000)}
}

func genC29(seed uint64, tier string) *c29Scenario {
	r := core.NewRand(seed)
	s := &c29Scenario{Sched: genSched(r, seed)}
	scale := int64(core.Pick(r, 1, 10, 100, 1000, 100000))
	s.TimeoutNs = int64(r.Range(1, 40)) * scale
	nc := r.Range(1, 5)
	maxOps := 6
	if tier == "thorough" {
		maxOps = 14
	}
	for i := 0; i < nc; i++ {
		var ops []c29Op
		for k := r.Range(1, maxOps); k > 0; k-- {
			switch {
			case r.Chance(1, 8):
				ops = append(ops, c29Op{Kind: "exit"})
			case r.Chance(1, 8):
				ops = append(ops, c29Op{Kind: "sleep", Gap: int64(r.Intn(60)) * scale})
			case r.Chance(1, 4):
				// the next operation starts at the very instant the idle timer
				// (re-armed when this call ends) fires, or one tick around it
				ops = append(ops, c29Op{Kind: "call", Hold: int64(r.Intn(50)) * scale * int64(r.Intn(2)), Gap: max(0, s.TimeoutNs+int64(core.Pick(r, -1, 0, 0, 0, 1)))})
			default:
				ops = append(ops, c29Op{Kind: "call", Hold: int64(r.Intn(50)) * scale * int64(r.Intn(2)), Gap: int64(r.Intn(80)) * scale * int64(r.Intn(2))})
			}
		}
		s.Callers = append(s.Callers, ops)
	}
	s.CloseAtNs = -1
	if r.Chance(1, 4) {
		s.CloseAtNs = int64(r.Intn(200)) * scale
	}
	s.TailNs = int64(r.Intn(100)) * scale
	if r.Chance(1, 2) {
		s.ExitHoldNs = int64(core.Pick(r, -1, -1, 1, r.Intn(30), r.Intn(100))) * scale
		if s.ExitHoldNs < 0 {
			s.ExitHoldNs = -1
		}
	}
	if r.Chance(1, 4) {
		s.EnterHoldNs = int64(core.Pick(r, -1, 1, r.Intn(30))) * scale
		if s.EnterHoldNs < 0 {
			s.EnterHoldNs = -1
		}
	}
	return s
}

type c29Enforcer struct {
	e                   *core.Env
	idle                bool // state as driven by the callbacks; the manager starts idle
	active              int  // RPCs between OnCallBegin's return and OnCallEnd's invocation
	closed              bool // Close has been invoked (checks are off from here on)
	enters              int
	exits               int
	exitHold, enterHold int64
	mu                  sync.Mutex // only a scheduling point
}

func (c *c29Enforcer) hold(d int64) {
	switch {
	case d < 0:
		c.mu.Lock()
		c.mu.Unlock()
	case d > 0:
		time.Sleep(time.Duration(d))
	}
}

func (c *c29Enforcer) ExitIdleMode() {
	c.e.Logf("cb exit idle=%v active=%d", c.idle, c.active)
	if !c.idle {
		c.e.Violate("alternation", "ExitIdleMode while not idle (exits=%d enters=%d)", c.exits, c.enters)
	}
	c.hold(c.exitHold)
	c.idle = false
	c.exits++
}

func (c *c29Enforcer) EnterIdleMode() {
	c.e.Logf("cb enter idle=%v active=%d", c.idle, c.active)
	if c.idle {
		c.e.Violate("alternation", "EnterIdleMode while already idle (exits=%d enters=%d)", c.exits, c.enters)
	}
	if c.active > 0 && !c.closed {
		c.e.Violate("idle_under_active_rpc", "EnterIdleMode while %d RPC(s) are between start and end", c.active)
	}
	c.idle = true
	c.enters++
	c.hold(c.enterHold)
}

func runC29(e *core.Env, s *c29Scenario) {
	enf := &c29Enforcer{e: e, idle: true, exitHold: s.ExitHoldNs, enterHold: s.EnterHoldNs}
	m := idle.NewManager(enf, time.Duration(s.TimeoutNs))
	var wg sync.WaitGroup
	for ci, ops := range s.Callers {
		wg.Add(1)
		go func() {
			defer wg.Done()
			for oi, op := range ops {
				switch op.Kind {
				case "call":
					e.Logf("c%d.%d begin", ci, oi)
					wasClosed := enf.closed
					m.OnCallBegin()
					if !wasClosed && !enf.closed {
						if enf.idle {
							e.Violate("begin_returned_while_idle", "OnCallBegin returned while the channel is idle (caller %d op %d)", ci, oi)
						}
					}
					enf.active++
					e.Logf("c%d.%d began idle=%v", ci, oi, enf.idle)
					if op.Hold > 0 {
						time.Sleep(time.Duration(op.Hold))
					}
					if !enf.closed && enf.idle {
						e.Violate("idle_under_active_rpc", "channel is idle while RPC of caller %d op %d is active", ci, oi)
					}
					enf.active--
					m.OnCallEnd()
					e.Logf("c%d.%d ended", ci, oi)
					if op.Gap > 0 {
						time.Sleep(time.Duration(op.Gap))
					}
				case "exit":
					m.ExitIdleMode()
					e.Logf("c%d.%d exitidle", ci, oi)
				case "sleep":
					time.Sleep(time.Duration(op.Gap))
				}
			}
		}()
	}
	if s.CloseAtNs >= 0 {
		wg.Add(1)
		go func() {
			defer wg.Done()
			time.Sleep(time.Duration(s.CloseAtNs))
			enf.closed = true
			e.Logf("close")
			m.Close()
		}()
	}
	wg.Wait()
	if s.TailNs > 0 {
		time.Sleep(time.Duration(s.TailNs))
	}
	if enf.enters > 0 {
		e.Probe("entered_idle")
	}
	if enf.enters > 1 {
		e.Probe("entered_idle_twice")
	}
	enf.closed = true
	m.Close()
	// a timer callback may still be inside a slow Enter/ExitIdleMode
	if g := max(s.ExitHoldNs, 0) + max(s.EnterHoldNs, 0); g > 0 {
		time.Sleep(time.Duration(2*g + 1))
	}
}

func init() { core.Register("C29wu", genC29, runC29) }
