package wu

import (
	"io"
	"time"

	"github.com/anishathalye/porcupine"
	"google.golang.org/grpc/grpclog"
	"google.golang.org/grpc/internal/zzverif/core"
)

// Shared helpers of the C31/C50/C54/C57 checks.

func init() {
	grpclog.SetLoggerV2(grpclog.NewLoggerV2(io.Discard, io.Discard, io.Discard))
}

// maxLinOps bounds the histories handed to porcupine (cost control).
const maxLinOps = 40

// span is the [invoke, return] interval of one harness-side call in event
// sequence numbers (e.Next()). ret==0: not yet returned.
type span struct{ inv, ret uint64 }

func nsleep(ns int64) {
	if ns > 0 {
		time.Sleep(time.Duration(ns))
	}
}

// linCheck runs porcupine over a short history. Unknown (time-out) is counted
// but never reported. The checker's goroutine lives in the bubble and never
// blocks, so no virtual time passes while it works.
func linCheck(e *core.Env, oracle string, model porcupine.Model, ops []porcupine.Operation, describe func(porcupine.Operation) string) {
	if len(ops) == 0 {
		return
	}
	if len(ops) > maxLinOps {
		e.Probe("lin_skipped_long_history")
		return
	}
	switch porcupine.CheckOperationsTimeout(model, ops, 0) {
	case porcupine.Ok:
		e.Probe("lin_checked")
	case porcupine.Unknown:
		e.Probe("lin_unknown")
	case porcupine.Illegal:
		msg := ""
		for i, o := range ops {
			if i > 0 {
				msg += "; "
			}
			msg += describe(o)
		}
		e.Violate(oracle, "history is not linearizable: %s", msg)
	}
}
