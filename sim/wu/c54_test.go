package wu

import (
	"context"
	"errors"
	"fmt"
	"sync"
	"time"

	"google.golang.org/grpc/codes"
	"google.golang.org/grpc/health"
	healthpb "google.golang.org/grpc/health/grpc_health_v1"
	"google.golang.org/grpc/internal/zzverif/core"
	"google.golang.org/grpc/metadata"
	"google.golang.org/grpc/status"
)

// C54: health.Server Watch streams converge to the latest status.
//
// One mutator goroutine issues SetServingStatus/Shutdown/Resume (they are
// mutually exclusive inside the server anyway, so a single issuer loses no
// behaviour and makes the status history exactly known); Watch streams, with
// slow and failing senders, and Check callers run concurrently with it.

type c54Op struct {
	Kind   string `json:"kind"` // set | shutdown | resume | sleep
	Svc    int    `json:"svc,omitempty"`
	Status int    `json:"status,omitempty"` // healthpb.HealthCheckResponse_ServingStatus
	Gap    int64  `json:"gap_ns,omitempty"`
}

type c54Watcher struct {
	Svc         int     `json:"svc"`
	StartNs     int64   `json:"start_ns"`
	SendDelayNs []int64 `json:"send_delay_ns,omitempty"` // Send blocks this long, cycled
	FailAtSend  int     `json:"fail_at_send,omitempty"`  // k>0: the k-th Send fails
	CancelAtNs  int64   `json:"cancel_at_ns"`            // <0: cancelled by the harness at the end
}

type c54Check struct {
	Svc int   `json:"svc"`
	Gap int64 `json:"gap_ns,omitempty"`
}

type c54Scenario struct {
	Sched    core.Sched   `json:"sched"`
	Mutator  []c54Op      `json:"mutator"`
	Watchers []c54Watcher `json:"watchers"`
	Checkers [][]c54Check `json:"checkers,omitempty"`
}

const c54NSvc = 3

var c54Names = [c54NSvc]string{"", "svc.one", "svc.two"}

func (s *c54Scenario) SchedP() *core.Sched { return &s.Sched }
func (s *c54Scenario) Shape() string {
	return fmt.Sprintf("mut=%d watch=%d check=%d", len(s.Mutator), len(s.Watchers), len(s.Checkers))
}
func (s *c54Scenario) Validate() error {
	if len(s.Mutator) > 100 || len(s.Watchers) > 8 || len(s.Checkers) > 4 {
		return errors.New("too large")
	}
	for _, op := range s.Mutator {
		switch op.Kind {
		case "set", "shutdown", "resume", "sleep":
		default:
			return fmt.Errorf("bad op %+v", op)
		}
		if op.Svc < 0 || op.Svc >= c54NSvc || op.Status < 0 || op.Status > 3 || op.Gap < 0 {
			return fmt.Errorf("bad op %+v", op)
		}
	}
	for _, w := range s.Watchers {
		if w.Svc < 0 || w.Svc >= c54NSvc || w.StartNs < 0 || w.FailAtSend < 0 {
			return fmt.Errorf("bad watcher %+v", w)
		}
		for _, d := range w.SendDelayNs {
			if d < 0 {
				return fmt.Errorf("bad watcher %+v", w)
			}
		}
	}
	for _, c := range s.Checkers {
		for _, op := range c {
			if op.Svc < 0 || op.Svc >= c54NSvc || op.Gap < 0 {
				return fmt.Errorf("bad check %+v", op)
			}
		}
	}
	return nil
}

func genC54(seed uint64, tier string) *c54Scenario {
	r := core.NewRand(seed)
	s := &c54Scenario{Sched: genSched(r, seed)}
	maxOps := 10
	if tier == "thorough" {
		maxOps = 24
	}
	nsvc := r.Range(1, c54NSvc)
	lifecycle := r.Chance(1, 2)
	for k := r.Range(1, maxOps); k > 0; k-- {
		op := c54Op{Kind: "set", Svc: r.Intn(nsvc), Status: core.Pick(r, 1, 2, 1, 2, 1, 2, 0, 3), Gap: int64(r.Intn(2) * r.Intn(6))}
		switch {
		case lifecycle && r.Chance(1, 8):
			op = c54Op{Kind: "shutdown", Gap: op.Gap}
		case lifecycle && r.Chance(1, 8):
			op = c54Op{Kind: "resume", Gap: op.Gap}
		case r.Chance(1, 10):
			op = c54Op{Kind: "sleep", Gap: int64(r.Intn(20))}
		}
		s.Mutator = append(s.Mutator, op)
	}
	slow := r.Chance(2, 3)
	for i, n := 0, r.Range(1, 4); i < n; i++ {
		w := c54Watcher{Svc: r.Intn(nsvc), StartNs: int64(r.Intn(2) * r.Intn(12)), CancelAtNs: -1}
		if slow {
			for k := r.Range(1, 3); k > 0; k-- {
				w.SendDelayNs = append(w.SendDelayNs, int64(r.Intn(2)*r.Intn(12)))
			}
		}
		if r.Chance(1, 8) {
			w.FailAtSend = r.Range(1, 3)
		}
		if r.Chance(1, 6) {
			w.CancelAtNs = int64(r.Intn(30))
		}
		s.Watchers = append(s.Watchers, w)
	}
	for i, n := 0, r.Intn(3); i < n; i++ {
		var ops []c54Check
		for k := r.Range(1, 6); k > 0; k-- {
			ops = append(ops, c54Check{Svc: r.Intn(nsvc), Gap: int64(r.Intn(2) * r.Intn(8))})
		}
		s.Checkers = append(s.Checkers, ops)
	}
	return s
}

// c54Seg is a maximal period during which a service had one status. The
// change into it happened somewhere in [startLo, .], the change out of it
// somewhere in [., endHi] (the bounds are the invoke/return stamps of the
// mutator calls).
type c54Seg struct {
	val            int // -1: not registered
	startLo, endHi uint64
}

// visible is what a Watch stream reports for a model value.
func c54Visible(v int) int {
	if v < 0 {
		return int(healthpb.HealthCheckResponse_SERVICE_UNKNOWN)
	}
	return v
}

type c54World struct {
	e        *core.Env
	hist     [c54NSvc][]c54Seg
	cur      [c54NSvc]int
	changes  [c54NSvc]int // number of visible changes so far
	shutdown bool
}

type c54Stream struct {
	w         *c54World
	id        int
	sc        c54Watcher
	ctx       context.Context
	cancel    context.CancelFunc
	watchInv  uint64
	nsend     int
	lastSent  int
	matched   int // index of the history segment the previous send was matched to
	failed    bool
	returned  bool
	changesAt int
}

func (st *c54Stream) SetHeader(metadata.MD) error  { return nil }
func (st *c54Stream) SendHeader(metadata.MD) error { return nil }
func (st *c54Stream) SetTrailer(metadata.MD)       {}
func (st *c54Stream) Context() context.Context     { return st.ctx }
func (st *c54Stream) SendMsg(any) error            { panic("SendMsg must not be used directly") }
func (st *c54Stream) RecvMsg(any) error            { panic("RecvMsg must not be used directly") }

func (st *c54Stream) Send(r *healthpb.HealthCheckResponse) error {
	w, e := st.w, st.w.e
	seq := e.Next()
	v := int(r.GetStatus())
	st.nsend++
	e.Logf("w%d send#%d %d", st.id, st.nsend, v)
	if st.failed || st.returned {
		e.Violate("send_after_end", "watcher %d: Send after the stream had failed or Watch had returned", st.id)
	}
	if st.nsend > 1 && v == st.lastSent {
		e.Violate("duplicate_status", "watcher %d (service %q) was sent status %d twice in a row", st.id, c54Names[st.sc.Svc], v)
	}
	// The statuses sent must be a subsequence of the service's status history
	// starting at the subscription, each one already held when it is sent.
	h := w.hist[st.sc.Svc]
	k := st.matched + 1
	for ; k < len(h); k++ {
		if st.nsend == 1 && h[k].endHi < st.watchInv {
			continue // over before Watch was invoked
		}
		if h[k].startLo > seq {
			k = len(h) // cannot have begun yet, nor can any later one
			break
		}
		if c54Visible(h[k].val) == v {
			break
		}
	}
	if k >= len(h) {
		if st.nsend == 1 {
			e.Violate("first_status", "watcher %d (service %q): first message %d is not a status the service had between the Watch call and the send (history %v)", st.id, c54Names[st.sc.Svc], v, c54Hist(h))
		} else {
			e.Violate("status_never_held", "watcher %d (service %q): message %d (%d) is not a status the service had after the previously sent one (history %v)", st.id, c54Names[st.sc.Svc], st.nsend, v, c54Hist(h))
		}
	} else {
		st.matched = k
	}
	if st.nsend == 1 && w.cur[st.sc.Svc] < 0 && v == int(healthpb.HealthCheckResponse_SERVICE_UNKNOWN) {
		e.Probe("first_service_unknown")
	}
	if w.changes[st.sc.Svc]-st.changesAt >= 2 {
		e.Probe("coalesced_updates")
	}
	st.changesAt = w.changes[st.sc.Svc]
	st.lastSent = v
	if len(st.sc.SendDelayNs) > 0 {
		if d := st.sc.SendDelayNs[(st.nsend-1)%len(st.sc.SendDelayNs)]; d > 0 {
			e.Probe("slow_send")
			time.Sleep(time.Duration(d))
		}
	}
	if st.sc.FailAtSend == st.nsend {
		e.Fault("send_error")
		st.failed = true
		return errors.New("simulated transport failure")
	}
	if st.ctx.Err() != nil {
		e.Fault("send_on_cancelled_stream")
		st.failed = true
		return st.ctx.Err()
	}
	return nil
}

func c54Hist(h []c54Seg) string {
	s := ""
	for _, g := range h {
		end := fmt.Sprint(g.endHi)
		if g.endHi == never {
			end = "-"
		}
		s += fmt.Sprintf("{%d from>=%d until<=%s}", g.val, g.startLo, end)
	}
	return s
}

func runC54(e *core.Env, s *c54Scenario) {
	w := &c54World{e: e}
	srv := health.NewServer()
	for i := range w.cur {
		w.cur[i] = -1
	}
	w.cur[0] = int(healthpb.HealthCheckResponse_SERVING) // "" is registered SERVING by NewServer
	for i := range w.hist {
		w.hist[i] = []c54Seg{{val: w.cur[i], startLo: 0, endHi: never}}
	}

	var mwg, wwg sync.WaitGroup
	// mutator
	mwg.Add(1)
	go func() {
		defer mwg.Done()
		for oi, op := range s.Mutator {
			nsleep(op.Gap)
			next := w.cur
			switch op.Kind {
			case "set":
				if !w.shutdown {
					next[op.Svc] = op.Status
				} else {
					e.Probe("set_ignored_in_shutdown")
				}
			case "shutdown", "resume":
				to := int(healthpb.HealthCheckResponse_NOT_SERVING)
				if op.Kind == "resume" {
					to = int(healthpb.HealthCheckResponse_SERVING)
				}
				for i := range next {
					if next[i] >= 0 {
						next[i] = to
					}
				}
			default:
				continue
			}
			inv := e.Next()
			e.Logf("m%d %s svc=%d st=%d", oi, op.Kind, op.Svc, op.Status)
			var changed []int
			for i := range next {
				if next[i] != w.cur[i] {
					changed = append(changed, i)
					w.hist[i] = append(w.hist[i], c54Seg{val: next[i], startLo: inv, endHi: never})
					if c54Visible(next[i]) != c54Visible(w.cur[i]) {
						w.changes[i]++
					}
				}
			}
			w.cur = next
			switch op.Kind {
			case "set":
				srv.SetServingStatus(c54Names[op.Svc], healthpb.HealthCheckResponse_ServingStatus(op.Status))
			case "shutdown":
				srv.Shutdown()
				w.shutdown = true
			case "resume":
				srv.Resume()
				w.shutdown = false
			}
			ret := e.Next()
			for _, i := range changed {
				h := w.hist[i]
				h[len(h)-2].endHi = ret
			}
		}
	}()
	// watchers
	streams := make([]*c54Stream, len(s.Watchers))
	for wi, wsc := range s.Watchers {
		ctx, cancel := context.WithCancel(context.Background())
		st := &c54Stream{w: w, id: wi, sc: wsc, ctx: ctx, cancel: cancel, matched: -1}
		streams[wi] = st
		wwg.Add(1)
		go func() {
			defer wwg.Done()
			nsleep(wsc.StartNs)
			if w.shutdown {
				e.Probe("watch_started_during_shutdown")
			}
			st.changesAt = w.changes[wsc.Svc]
			st.watchInv = e.Next()
			e.Logf("w%d watch svc=%d", wi, wsc.Svc)
			err := srv.Watch(&healthpb.HealthCheckRequest{Service: c54Names[wsc.Svc]}, st)
			st.returned = true
			e.Logf("w%d watch returned %v", wi, status.Code(err))
			if err == nil {
				e.Violate("watch_returned_nil", "watcher %d: Watch returned nil", wi)
			}
			if st.ctx.Err() == nil && !st.failed {
				e.Violate("watch_returned_early", "watcher %d: Watch returned (%v) although the stream neither failed nor was cancelled", wi, err)
			}
		}()
		if wsc.CancelAtNs >= 0 {
			wwg.Add(1)
			go func() {
				defer wwg.Done()
				nsleep(wsc.CancelAtNs)
				e.Logf("w%d cancel", wi)
				e.Fault("stream_cancelled")
				cancel()
			}()
		}
	}
	// checkers
	for ci, ops := range s.Checkers {
		mwg.Add(1)
		go func() {
			defer mwg.Done()
			for oi, op := range ops {
				nsleep(op.Gap)
				c54Check1(e, w, srv, fmt.Sprintf("c%d.%d", ci, oi), op.Svc)
			}
		}()
	}
	mwg.Wait()
	// Quiescence: every pending (slow) Send completes, every update is consumed.
	time.Sleep(time.Second)
	for i := 0; i < c54NSvc; i++ {
		c54Check1(e, w, srv, "final", i)
	}
	for _, st := range streams {
		if st.failed || st.returned || st.ctx.Err() != nil {
			continue
		}
		want := c54Visible(w.cur[st.sc.Svc])
		if st.nsend == 0 {
			e.Violate("no_first_message", "watcher %d (service %q) was never sent a status", st.id, c54Names[st.sc.Svc])
		} else if st.lastSent != want {
			e.Violate("not_converged", "watcher %d (service %q): last status sent is %d but the service's status is %d (history %v)", st.id, c54Names[st.sc.Svc], st.lastSent, want, c54Hist(w.hist[st.sc.Svc]))
		} else {
			e.Probe("converged")
		}
	}
	for _, st := range streams {
		st.cancel()
	}
	wwg.Wait() // every Watch returns once its stream is cancelled (else: stuck_goroutines)
}

// c54Check1 calls Check and compares with the statuses the service had while
// the call was in progress.
func c54Check1(e *core.Env, w *c54World, srv *health.Server, who string, svc int) {
	inv := e.Next()
	resp, err := srv.Check(context.Background(), &healthpb.HealthCheckRequest{Service: c54Names[svc]})
	ret := e.Next()
	got := -1
	switch {
	case err == nil:
		got = int(resp.GetStatus())
	case status.Code(err) == codes.NotFound:
	default:
		e.Violate("check_error", "%s: Check(%q) failed with %v", who, c54Names[svc], err)
		return
	}
	e.Logf("%s check svc=%d -> %d", who, svc, got)
	for _, g := range w.hist[svc] {
		if g.val == got && g.startLo < ret && g.endHi > inv {
			return
		}
	}
	e.Violate("check_not_latest", "%s: Check(%q) returned %d (-1: NotFound) which is not the service's status during the call (history %v, shutdown=%v)", who, c54Names[svc], got, c54Hist(w.hist[svc]), w.shutdown)
}

func init() { core.Register("C54", genC54, runC54) }
