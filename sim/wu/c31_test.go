package wu

import (
	"context"
	"fmt"
	"sync"
	"testing/synctest"
	"time"

	"github.com/anishathalye/porcupine"
	"google.golang.org/grpc/internal/buffer"
	"google.golang.org/grpc/internal/grpcsync"
	"google.golang.org/grpc/internal/zzverif/core"
)

// C31: CallbackSerializer (Kind "cs"), buffer.Unbounded (Kind "ub") and PubSub
// (Kind "ps"). One scenario exercises one of the three.

type c31Op struct {
	// cs: try | or | wait | sleep
	// ub: put | sleep
	// ps: pub | sub | unsub | sleep
	Kind string `json:"kind"`
	Gap  int64  `json:"gap_ns,omitempty"`  // sleep before the op
	Hold int64  `json:"hold_ns,omitempty"` // cs: the callback blocks this long
	Nest bool   `json:"nest,omitempty"`    // cs: the callback schedules a child callback
}

type c31Scenario struct {
	Sched      core.Sched `json:"sched"`
	Kind       string     `json:"kind"`
	Actors     [][]c31Op  `json:"actors"`
	CancelAtNs int64      `json:"cancel_at_ns"` // cs/ps: cancel the context, ub: Close; <0: after the actors are done
	Consumers  int        `json:"consumers,omitempty"`
	// ub: delay between a receive and the Load that follows it, cycled per receive
	LoadDelayNs []int64 `json:"load_delay_ns,omitempty"`
}

func (s *c31Scenario) SchedP() *core.Sched { return &s.Sched }
func (s *c31Scenario) Shape() string {
	n := 0
	for _, a := range s.Actors {
		n += len(a)
	}
	return fmt.Sprintf("%s actors=%d ops=%d cancel=%v cons=%d", s.Kind, len(s.Actors), n, s.CancelAtNs >= 0, s.Consumers)
}

func (s *c31Scenario) Validate() error {
	ok := map[string]map[string]bool{
		"cs": {"try": true, "or": true, "wait": true, "sleep": true},
		"ub": {"put": true, "sleep": true},
		"ps": {"pub": true, "sub": true, "unsub": true, "sleep": true},
	}[s.Kind]
	if ok == nil {
		return fmt.Errorf("bad kind %q", s.Kind)
	}
	if len(s.Actors) > 8 || s.Consumers < 0 || s.Consumers > 3 {
		return fmt.Errorf("bad actors/consumers")
	}
	n := 0
	for _, a := range s.Actors {
		for _, op := range a {
			n++
			if !ok[op.Kind] || op.Gap < 0 || op.Hold < 0 {
				return fmt.Errorf("bad op %+v", op)
			}
		}
	}
	if n > 200 {
		return fmt.Errorf("too many ops")
	}
	for _, d := range s.LoadDelayNs {
		if d < 0 {
			return fmt.Errorf("bad delay")
		}
	}
	return nil
}

func genC31(seed uint64, tier string) *c31Scenario {
	r := core.NewRand(seed)
	s := &c31Scenario{Sched: genSched(r, seed), CancelAtNs: -1}
	maxOps := 6
	if tier == "thorough" {
		maxOps = 12
	}
	gap := func() int64 {
		if r.Chance(2, 3) {
			return 0
		}
		return int64(r.Intn(5))
	}
	if r.Chance(2, 3) {
		s.CancelAtNs = int64(r.Intn(12))
	}
	switch r.Intn(10) {
	case 0, 1, 2, 3:
		s.Kind = "cs"
		holdy := r.Chance(1, 2)
		for i, na := 0, r.Range(1, 4); i < na; i++ {
			var ops []c31Op
			for k := r.Range(1, maxOps); k > 0; k-- {
				op := c31Op{Kind: core.Pick(r, "try", "try", "or", "or", "wait", "sleep"), Gap: gap()}
				if op.Kind == "sleep" {
					op.Gap = int64(r.Intn(10))
				} else {
					if holdy && r.Chance(1, 3) {
						op.Hold = int64(r.Range(1, 4))
					}
					op.Nest = r.Chance(1, 8)
				}
				ops = append(ops, op)
			}
			s.Actors = append(s.Actors, ops)
		}
	case 4, 5, 6, 7:
		s.Kind = "ub"
		s.Consumers = core.Pick(r, 1, 1, 1, 2)
		for k := r.Range(0, 4); k > 0; k-- {
			s.LoadDelayNs = append(s.LoadDelayNs, int64(r.Intn(4)))
		}
		for i, na := 0, r.Range(1, 3); i < na; i++ {
			var ops []c31Op
			for k := r.Range(1, maxOps); k > 0; k-- {
				op := c31Op{Kind: "put", Gap: gap()}
				if r.Chance(1, 8) {
					op = c31Op{Kind: "sleep", Gap: int64(r.Intn(10))}
				}
				ops = append(ops, op)
			}
			s.Actors = append(s.Actors, ops)
		}
	default:
		s.Kind = "ps"
		if r.Chance(1, 2) {
			s.CancelAtNs = -1
		}
		for i, na := 0, r.Range(2, 4); i < na; i++ {
			var ops []c31Op
			for k := r.Range(1, maxOps); k > 0; k-- {
				op := c31Op{Kind: core.Pick(r, "pub", "pub", "pub", "sub", "sub", "unsub", "sleep"), Gap: gap()}
				if op.Kind == "sleep" {
					op.Gap = int64(r.Intn(10))
				}
				ops = append(ops, op)
			}
			s.Actors = append(s.Actors, ops)
		}
	}
	return s
}

func runC31(e *core.Env, s *c31Scenario) {
	switch s.Kind {
	case "cs":
		runC31CS(e, s)
	case "ub":
		runC31UB(e, s)
	case "ps":
		runC31PS(e, s)
	}
}

const never = ^uint64(0)

// ---------------------------------------------------------------- serializer

type c31Item struct {
	id      int
	kind    string // try | or | wait
	who     string
	sub     span
	execSeq uint64
	execN   int
	failN   int
	err     error
}

func runC31CS(e *core.Env, s *c31Scenario) {
	ctx, cancel := context.WithCancel(context.Background())
	cs := grpcsync.NewCallbackSerializer(ctx)
	var items []*c31Item
	running := false
	cancelInv, doneSeq := never, never

	var submit func(who, kind string, hold int64, nest bool)
	submit = func(who, kind string, hold int64, nest bool) {
		it := &c31Item{id: len(items), kind: kind, who: who}
		items = append(items, it)
		cb := func(ctx context.Context) {
			if running {
				e.Violate("callbacks_overlap", "callback %d (%s) started while another callback was running", it.id, it.who)
			}
			running = true
			it.execN++
			it.execSeq = e.Next()
			e.Logf("exec %d (%s) n=%d", it.id, it.who, it.execN)
			if it.execN > 1 {
				e.Violate("callback_ran_twice", "callback %d (%s) ran %d times", it.id, it.who, it.execN)
			}
			if it.failN > 0 {
				e.Violate("rejected_callback_ran", "callback %d (%s) ran although its submitter was told it was rejected", it.id, it.who)
			}
			if doneSeq != never {
				e.Violate("ran_after_done", "callback %d (%s) ran after Done() was closed", it.id, it.who)
			}
			if hold > 0 {
				time.Sleep(time.Duration(hold))
				if !running {
					e.Violate("callbacks_overlap", "another callback finished while callback %d was running", it.id)
				}
			}
			if nest {
				e.Probe("nested_schedule")
				submit(who+".child", "try", 0, false)
			}
			running = false
		}
		onFail := func() {
			it.failN++
			e.Logf("fail %d (%s)", it.id, it.who)
		}
		e.Logf("submit %d %s (%s)", it.id, kind, who)
		it.sub.inv = e.Next()
		switch kind {
		case "try":
			cs.TrySchedule(cb)
		case "or":
			cs.ScheduleOr(cb, onFail)
		case "wait":
			it.err = cs.ScheduleAndWait(cb)
			if it.err != nil {
				it.failN++
			}
			if it.err == nil && it.execN == 0 {
				e.Violate("wait_returned_early", "ScheduleAndWait of callback %d (%s) returned nil before the callback ran", it.id, it.who)
			}
			if it.err != nil && it.err != grpcsync.ErrSerializerClosed {
				e.Violate("wait_error", "ScheduleAndWait returned %v", it.err)
			}
		}
		it.sub.ret = e.Next()
		e.Logf("submitted %d fail=%d", it.id, it.failN)
	}

	var wg, awg sync.WaitGroup
	for ai, ops := range s.Actors {
		awg.Add(1)
		go func() {
			defer awg.Done()
			for oi, op := range ops {
				nsleep(op.Gap)
				if op.Kind != "sleep" {
					submit(fmt.Sprintf("a%d.%d", ai, oi), op.Kind, op.Hold, op.Nest)
				}
			}
		}()
	}
	doCancel := func() {
		if cancelInv != never {
			return
		}
		pending := 0
		for _, it := range items {
			if it.sub.ret != 0 && it.failN == 0 && it.execN == 0 {
				pending++
			}
		}
		if pending > 0 {
			e.Probe("cancel_with_backlog")
		}
		if running {
			e.Probe("cancel_while_callback_runs")
		}
		e.Logf("cancel")
		cancelInv = e.Next()
		cancel()
	}
	wg.Add(1)
	go func() {
		defer wg.Done()
		<-cs.Done()
		doneSeq = e.Next()
		e.Logf("done")
		if cancelInv == never {
			e.Violate("done_without_cancel", "Done() closed although the context was never cancelled")
		}
	}()
	if s.CancelAtNs >= 0 {
		wg.Add(1)
		go func() {
			defer wg.Done()
			nsleep(s.CancelAtNs)
			doCancel()
		}()
	}
	// An actor blocked in ScheduleAndWait on a live serializer must get its
	// turn; with a scripted cancel it is released by the rejection.
	awg.Wait()
	doCancel()
	wg.Wait()
	// A submission after Done must be rejected.
	submit("late.or", "or", 0, false)
	submit("late.wait", "wait", 0, false)
	submit("late.try", "try", 0, false)
	synctest.Wait()

	for _, it := range items {
		accepted := it.failN == 0 // try: unknown, see below
		if it.failN > 1 {
			e.Violate("failure_reported_twice", "onFailure of callback %d (%s) ran %d times", it.id, it.who, it.failN)
		}
		switch {
		case it.kind != "try" && accepted:
			if it.execN != 1 {
				e.Violate("accepted_callback_lost", "callback %d (%s, %s) was accepted but ran %d times", it.id, it.kind, it.who, it.execN)
			}
			if it.sub.inv > doneSeq {
				e.Violate("accepted_after_done", "callback %d (%s) submitted after Done() was accepted", it.id, it.who)
			}
		case it.kind != "try" && !accepted:
			e.Probe("rejected")
			if it.execN != 0 {
				e.Violate("rejected_callback_ran", "callback %d (%s) was rejected but ran", it.id, it.who)
			}
			if it.sub.ret < cancelInv {
				e.Violate("rejected_before_shutdown", "callback %d (%s) was rejected before the context was cancelled", it.id, it.who)
			}
		case it.kind == "try":
			if it.sub.ret < cancelInv && it.execN != 1 {
				e.Violate("accepted_callback_lost", "callback %d (TrySchedule, %s) submitted before cancellation ran %d times", it.id, it.who, it.execN)
			}
			if it.sub.inv > doneSeq && it.execN != 0 {
				e.Violate("accepted_after_done", "callback %d (TrySchedule, %s) submitted after Done() ran", it.id, it.who)
			}
			if it.sub.inv > cancelInv && it.execN == 1 {
				e.Probe("try_after_cancel_still_ran")
			}
		}
		if it.execN > 0 && it.execSeq > doneSeq {
			e.Violate("ran_after_done", "callback %d (%s) ran after Done() was closed", it.id, it.who)
		}
	}
	// FIFO: a was certainly queued before b was submitted => a runs first.
	accHi := func(it *c31Item) uint64 {
		if it.execSeq < it.sub.ret {
			return it.execSeq
		}
		return it.sub.ret
	}
	for _, a := range items {
		for _, b := range items {
			if a.execN == 0 || b.execN == 0 || a == b {
				continue
			}
			if accHi(a) < b.sub.inv && a.execSeq > b.execSeq {
				e.Violate("fifo", "callback %d (%s) was queued before callback %d (%s) was submitted but ran after it", a.id, a.who, b.id, b.who)
			}
		}
	}
}

// ---------------------------------------------------------------- unbounded

type ubState struct {
	q      string // queued values, one byte each
	closed bool
}
type ubIn struct {
	op string // put get close
	v  int
}
type ubOut struct {
	v  int
	ok bool
}

var ubModel = porcupine.Model{
	Init: func() any { return ubState{} },
	Step: func(state, input, output any) (bool, any) {
		st, in, out := state.(ubState), input.(ubIn), output.(ubOut)
		switch in.op {
		case "put":
			if st.closed {
				return !out.ok, st
			}
			if !out.ok {
				return false, st
			}
			st.q += string([]byte{byte(in.v + 1)})
			return true, st
		case "get":
			if len(st.q) == 0 {
				// an empty open queue blocks the receiver
				return st.closed && !out.ok, st
			}
			if !out.ok || int(st.q[0])-1 != out.v {
				return false, st
			}
			st.q = st.q[1:]
			return true, st
		case "close":
			st.closed = true
			return true, st
		}
		return false, st
	},
}

type ubVal struct {
	put     span
	err     error
	recvSeq uint64
	recvN   int
}

func runC31UB(e *core.Env, s *c31Scenario) {
	b := buffer.NewUnbounded[int]()
	var vals []*ubVal
	var hist []porcupine.Operation
	rec := func(client int, in ubIn, out ubOut, sp span) {
		hist = append(hist, porcupine.Operation{ClientId: client, Input: in, Output: out, Call: int64(sp.inv), Return: int64(sp.ret)})
	}
	closeInv, closeRet, eosSeq := never, never, never
	betweenRecvAndLoad := 0
	nrecv := 0
	doClose := func(client int) {
		out := 0
		for _, v := range vals {
			if v.put.ret != 0 && v.err == nil && v.recvN == 0 {
				out++
			}
		}
		if out >= 2 {
			e.Probe("close_with_backlog")
		}
		if betweenRecvAndLoad > 0 {
			e.Probe("close_between_recv_and_load")
		}
		sp := span{inv: e.Next()}
		if closeInv == never {
			closeInv = sp.inv
		}
		e.Logf("close")
		b.Close()
		sp.ret = e.Next()
		if closeRet == never {
			closeRet = sp.ret
		}
		rec(client, ubIn{op: "close"}, ubOut{}, sp)
	}
	var pwg, cwg sync.WaitGroup
	for ai, ops := range s.Actors {
		pwg.Add(1)
		go func() {
			defer pwg.Done()
			for oi, op := range ops {
				nsleep(op.Gap)
				if op.Kind != "put" {
					continue
				}
				id := len(vals)
				v := &ubVal{}
				vals = append(vals, v)
				e.Logf("a%d.%d put %d", ai, oi, id)
				v.put.inv = e.Next()
				v.err = b.Put(id)
				v.put.ret = e.Next()
				e.Logf("a%d.%d put %d -> %v", ai, oi, id, v.err != nil)
				rec(ai, ubIn{op: "put", v: id}, ubOut{ok: v.err == nil}, v.put)
				if v.err != nil {
					e.Probe("put_rejected")
					if closeInv == never {
						e.Violate("put_rejected_before_close", "Put(%d) failed although Close was never called", id)
					}
				} else if v.put.inv > closeRet {
					e.Violate("put_accepted_after_close", "Put(%d) invoked after Close had returned succeeded", id)
				}
			}
		}()
	}
	ncons := s.Consumers
	if ncons < 1 {
		ncons = 1
	}
	for ci := 0; ci < ncons; ci++ {
		cwg.Add(1)
		go func() {
			defer cwg.Done()
			for {
				sp := span{inv: e.Next()}
				id, ok := <-b.Get()
				sp.ret = e.Next()
				if !ok {
					e.Logf("c%d eos", ci)
					if eosSeq == never {
						eosSeq = sp.ret
					}
					if closeInv == never {
						e.Violate("eos_without_close", "read channel closed although Close was never called")
					}
					rec(100+ci, ubIn{op: "get"}, ubOut{}, sp)
					return
				}
				e.Logf("c%d recv %d", ci, id)
				rec(100+ci, ubIn{op: "get"}, ubOut{v: id, ok: true}, sp)
				if id < 0 || id >= len(vals) {
					e.Violate("phantom_value", "received %d which was never Put", id)
				} else {
					v := vals[id]
					v.recvN++
					if v.recvN > 1 {
						e.Violate("delivered_twice", "value %d was delivered %d times", id, v.recvN)
					}
					v.recvSeq = sp.ret
					if v.put.ret != 0 && v.err != nil {
						e.Violate("rejected_value_delivered", "value %d was delivered although Put returned an error", id)
					}
				}
				betweenRecvAndLoad++
				if len(s.LoadDelayNs) > 0 {
					nsleep(s.LoadDelayNs[nrecv%len(s.LoadDelayNs)])
				}
				nrecv++
				betweenRecvAndLoad--
				b.Load()
			}
		}()
	}
	if s.CancelAtNs >= 0 {
		pwg.Add(1)
		go func() {
			defer pwg.Done()
			nsleep(s.CancelAtNs)
			doClose(50)
		}()
	}
	pwg.Wait()
	doClose(51) // idempotent second Close when the scripted one has happened
	cwg.Wait()  // every consumer must see end-of-stream (else: stuck_goroutines)

	for id, v := range vals {
		if v.err != nil {
			if v.recvN != 0 {
				e.Violate("rejected_value_delivered", "value %d was delivered although Put returned an error", id)
			}
			continue
		}
		if v.recvN != 1 {
			e.Violate("value_lost", "value %d was accepted by Put but delivered %d times before end-of-stream", id, v.recvN)
			continue
		}
		// (with several consumers a value handed to a blocked receiver is
		// stamped only when that receiver runs again: order oracles on receive
		// stamps hold for a single consumer only; porcupine covers the rest)
		if ncons == 1 && v.recvSeq > eosSeq {
			e.Violate("eos_before_drained", "end-of-stream was signalled before value %d was consumed", id)
		}
	}
	for ia, a := range vals {
		for ib, c := range vals {
			if ncons == 1 && a.recvN == 1 && c.recvN == 1 && a.put.ret < c.put.inv && a.recvSeq > c.recvSeq {
				e.Violate("fifo", "value %d was Put before value %d but delivered after it", ia, ib)
			}
		}
	}
	if len(vals) < 200 {
		linCheck(e, "unbounded_not_linearizable", ubModel, hist, func(o porcupine.Operation) string {
			in, out := o.Input.(ubIn), o.Output.(ubOut)
			return fmt.Sprintf("[%d,%d] %s %d -> %d %v", o.Call, o.Return, in.op, in.v, out.v, out.ok)
		})
	}
}

// ---------------------------------------------------------------- pubsub

type psPub struct{ sp span }

type psSub struct {
	e       *core.Env
	id      int
	who     string
	sub     span
	unsub   span
	cancel  func()
	got     []int
	gotSeq  []uint64
	deliver func(s *psSub, v int)
}

func (s *psSub) OnMessage(msg any) { s.deliver(s, msg.(int)) }

func runC31PS(e *core.Env, s *c31Scenario) {
	ctx, cancel := context.WithCancel(context.Background())
	ps := grpcsync.NewPubSub(ctx)
	var pubs []*psPub
	var subs []*psSub
	cancelInv, doneSeq := never, never
	deliver := func(su *psSub, v int) {
		seq := e.Next()
		e.Logf("deliver sub=%d v=%d", su.id, v)
		if su.unsub.ret != 0 {
			e.Violate("delivered_after_unsubscribe", "subscriber %d got value %d after its unsubscribe call had returned", su.id, v)
		}
		if doneSeq != never {
			e.Violate("delivered_after_done", "subscriber %d got value %d after Done() was closed", su.id, v)
		}
		if v < 0 || v >= len(pubs) {
			e.Violate("phantom_value", "subscriber %d got %d which was never published", su.id, v)
			return
		}
		for _, g := range su.got {
			if g == v {
				e.Violate("delivered_twice", "subscriber %d got value %d twice", su.id, v)
			}
		}
		su.got = append(su.got, v)
		su.gotSeq = append(su.gotSeq, seq)
	}
	var wg sync.WaitGroup
	for ai, ops := range s.Actors {
		wg.Add(1)
		go func() {
			defer wg.Done()
			var mine []*psSub
			for oi, op := range ops {
				nsleep(op.Gap)
				switch op.Kind {
				case "pub":
					p := &psPub{}
					v := len(pubs)
					pubs = append(pubs, p)
					e.Logf("a%d.%d publish %d", ai, oi, v)
					p.sp.inv = e.Next()
					ps.Publish(v)
					p.sp.ret = e.Next()
				case "sub":
					su := &psSub{e: e, id: len(subs), who: fmt.Sprintf("a%d.%d", ai, oi), deliver: deliver}
					subs = append(subs, su)
					mine = append(mine, su)
					e.Logf("a%d.%d subscribe %d", ai, oi, su.id)
					su.sub.inv = e.Next()
					su.cancel = ps.Subscribe(su)
					su.sub.ret = e.Next()
				case "unsub":
					if len(mine) == 0 {
						break
					}
					su := mine[0]
					mine = mine[1:]
					e.Logf("a%d.%d unsubscribe %d", ai, oi, su.id)
					su.unsub.inv = e.Next()
					su.cancel()
					su.unsub.ret = e.Next()
				}
			}
		}()
	}
	doCancel := func() {
		if cancelInv == never {
			e.Logf("cancel")
			cancelInv = e.Next()
			cancel()
		}
	}
	if s.CancelAtNs >= 0 {
		wg.Add(1)
		go func() {
			defer wg.Done()
			nsleep(s.CancelAtNs)
			doCancel()
		}()
	}
	wg.Wait()
	synctest.Wait() // the serializer has drained
	// definitelyBefore: publish a certainly preceded publish b.
	before := func(a, b int) bool { return pubs[a].sp.ret < pubs[b].sp.inv }
	type pair [2]int
	seen := map[pair]int{} // ordered pair -> subscriber that saw it
	for _, su := range subs {
		for i, a := range su.got {
			if su.gotSeq[i] < pubs[a].sp.inv {
				e.Violate("phantom_value", "subscriber %d got %d before it was published", su.id, a)
			}
			for _, b := range su.got[i+1:] {
				if before(b, a) {
					e.Violate("publish_order", "subscriber %d got %d before %d although %d was published first", su.id, a, b, b)
				}
				if o, ok := seen[pair{b, a}]; ok && o != su.id {
					e.Violate("publish_order", "subscribers %d and %d saw values %d and %d in different orders", o, su.id, a, b)
				}
				seen[pair{a, b}] = su.id
			}
		}
		if len(su.got) > 0 {
			first := su.got[0]
			for b := range pubs {
				if before(first, b) && pubs[b].sp.ret < su.sub.inv {
					e.Violate("first_not_latest", "subscriber %d first got %d although %d had been published after it before the subscription", su.id, first, b)
				}
			}
			if pubs[first].sp.ret < su.sub.inv {
				e.Probe("got_latest_at_subscription")
			}
		}
		if su.unsub.inv != 0 {
			e.Probe("unsubscribed")
			continue
		}
		// Still subscribed at quiescence: everything published after the
		// subscription (and before cancellation) must have arrived, and the
		// last value it saw must be the latest.
		has := map[int]bool{}
		for _, g := range su.got {
			has[g] = true
		}
		for b := range pubs {
			if pubs[b].sp.ret > cancelInv {
				continue
			}
			if su.sub.ret < pubs[b].sp.inv && !has[b] {
				e.Violate("missed_value", "subscriber %d (subscribed, never unsubscribed) did not get value %d published after its subscription", su.id, b)
			}
			if su.sub.ret < cancelInv && pubs[b].sp.ret < su.sub.inv {
				// something was published before the subscription: the
				// subscriber must at least have got a value.
				if len(su.got) == 0 {
					e.Violate("missed_value", "subscriber %d got nothing although value %d had been published before it subscribed", su.id, b)
					break
				}
			}
		}
		if n := len(su.got); n > 0 && su.sub.ret < cancelInv {
			last := su.got[n-1]
			for b := range pubs {
				if before(last, b) && pubs[b].sp.ret < cancelInv {
					e.Violate("not_latest_at_quiescence", "subscriber %d last got %d although %d was published later", su.id, last, b)
				}
			}
		}
	}
	doCancel()
	<-ps.Done()
	doneSeq = e.Next()
	synctest.Wait()
}

func init() { core.Register("C31", genC31, runC31) }
