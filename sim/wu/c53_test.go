package wu

import (
	"fmt"
	"sync"
	"unsafe"

	"google.golang.org/grpc/mem"

	"google.golang.org/grpc/internal/zzverif/core"
)

// C53 (mem API part): pooled buffers are returned to their pool exactly once,
// only after every reference (Ref copies, slices, splits, readers,
// materialised buffers) has been freed; a live reference always reads the
// original bytes; zeroing pools hand out zeros; Get(n) has len n, cap >= n.
//
// 1..3 goroutines execute generated operation sequences on a shared table of
// handles (one handle = one owned reference). A reference model tracks, per
// pooled root, which handles exist; a tracking pool records and poisons every
// Put. Reference counts are atomics, so every Ref/Free is a scheduling point.

type c53Op struct {
	Kind string `json:"kind"` // new copy ref free slice split read check mat matbuf reader pool
	H    int    `json:"h"`    // handle slot the op works on
	A    int    `json:"a,omitempty"`
	B    int    `json:"b,omitempty"`
	N    int    `json:"n,omitempty"`
}

type c53Scenario struct {
	Sched   core.Sched `json:"sched"`
	Workers [][]c53Op  `json:"workers"`
	Slots   int        `json:"slots"`
}

func (s *c53Scenario) SchedP() *core.Sched { return &s.Sched }
func (s *c53Scenario) Shape() string {
	n := 0
	k := map[string]bool{}
	for _, w := range s.Workers {
		n += len(w)
		for _, o := range w {
			k[o.Kind] = true
		}
	}
	return fmt.Sprintf("w=%d ops=%d kinds=%d", len(s.Workers), n, len(k))
}
func (s *c53Scenario) Validate() error {
	if s.Slots < 1 || s.Slots > 64 {
		return fmt.Errorf("slots")
	}
	return nil
}

func genC53wu(seed uint64, tier string) *c53Scenario {
	r := core.NewRand(seed)
	s := &c53Scenario{Sched: genSched(r, seed), Slots: r.Range(2, 8)}
	nw := r.Range(1, 3)
	maxOps := 14
	if tier == "thorough" {
		maxOps = 40
	}
	sizes := []int{0, 1, 5, 1023, 1024, 1025, 2000, 4096, 5000, 20000}
	for w := 0; w < nw; w++ {
		var ops []c53Op
		for k := r.Range(3, maxOps); k > 0; k-- {
			o := c53Op{H: r.Intn(s.Slots), A: r.Intn(100), B: r.Intn(101), N: core.Pick(r, sizes...)}
			switch x := r.Intn(20); {
			case x < 3:
				o.Kind = "new"
			case x < 4:
				o.Kind = "copy"
			case x < 7:
				o.Kind = "ref"
			case x < 11:
				o.Kind = "free"
			case x < 14:
				o.Kind = "slice"
				if r.Chance(1, 4) { // full range
					o.A, o.B = 0, 100
				}
			case x < 15:
				o.Kind = "split"
			case x < 16:
				o.Kind = "read"
			case x < 17:
				o.Kind = "check"
			case x < 18:
				o.Kind = core.Pick(r, "mat", "matbuf")
			case x < 19:
				o.Kind = "reader"
			default:
				o.Kind = "pool"
			}
			ops = append(ops, o)
		}
		s.Workers = append(s.Workers, ops)
	}
	return s
}

// ---- tracking pool with identity ----

type c53Root struct {
	id       int
	mem      []byte // the pooled memory (full capacity)
	puts     int
	handles  int // handles created and whose Free has not yet been started
	inFlight int // handles whose Free has started but not returned
	pooled   bool
}

type c53Pool struct {
	e     *core.Env
	roots map[unsafe.Pointer]*c53Root
	all   []*c53Root
}

func (p *c53Pool) Get(n int) *[]byte {
	c := n
	if c == 0 {
		c = 1
	}
	b := make([]byte, n, c+int(uintptr(n)%7)) // capacity sometimes larger than length
	r := &c53Root{id: len(p.all), mem: b[:cap(b)], pooled: true}
	p.roots[unsafe.Pointer(unsafe.SliceData(b))] = r
	p.all = append(p.all, r)
	return &b
}

func (p *c53Pool) Put(bp *[]byte) {
	b := *bp
	r := p.roots[unsafe.Pointer(unsafe.SliceData(b))]
	if r == nil {
		p.e.Violate("foreign_put", "a buffer that did not come from the pool was returned to it (len %d)", len(b))
		return
	}
	r.puts++
	if r.puts > 1 {
		p.e.Violate("double_put", "the memory of root %d was returned to the pool %d times", r.id, r.puts)
	}
	if r.handles > 0 {
		p.e.Violate("put_while_referenced", "the memory of root %d was returned to the pool while %d reference(s) are still live", r.id, r.handles)
	}
	for i := range r.mem {
		r.mem[i] = 0xDB
	}
}

func c53Pat(root, i int) byte { return byte(root*131 + i*7 + i>>8) }

// handle = one owned reference
type c53Handle struct {
	buf  mem.Buffer
	root *c53Root // nil: not pooled (below the pooling threshold: plain slice)
	base int      // pattern id (root id for pooled, synthetic for unpooled)
	off  int
	n    int
	obj  int // identity of the underlying buffer object
	busy bool
}

type c53Run struct {
	e     *core.Env
	pool  *c53Pool
	slots []*c53Handle
	objs  map[int]int // handles per object
	nobj  int
	nbase int
}

func (w *c53Run) expect(h *c53Handle) []byte {
	b := make([]byte, h.n)
	for i := range b {
		b[i] = c53Pat(h.base, h.off+i)
	}
	return b
}

func (w *c53Run) guard(what string, f func()) (ok bool) {
	defer func() {
		if r := recover(); r != nil {
			w.e.Violate("panic", "%s panicked: %v", what, r)
			ok = false
		}
	}()
	f()
	return true
}

func (w *c53Run) checkData(h *c53Handle, what string) {
	var got []byte
	if !w.guard("ReadOnlyData during "+what, func() { got = h.buf.ReadOnlyData() }) {
		return
	}
	want := w.expect(h)
	if len(got) != len(want) {
		w.e.Violate("wrong_length", "%s: a live reference has %d bytes, expected %d", what, len(got), len(want))
		return
	}
	for i := range got {
		if got[i] != want[i] {
			w.e.Violate("wrong_data", "%s: a live reference reads %#x at offset %d, the original byte is %#x", what, got[i], i, want[i])
			return
		}
	}
}

func (w *c53Run) add(slot int, h *c53Handle) {
	if h.root != nil {
		h.root.handles++
	}
	w.objs[h.obj]++
	if old := w.slots[slot]; old != nil {
		// slot occupied: park the new handle in any free slot, else free it
		for i := range w.slots {
			if w.slots[i] == nil {
				w.slots[i] = h
				return
			}
		}
		w.free(h)
		return
	}
	w.slots[slot] = h
}

func (w *c53Run) free(h *c53Handle) {
	if h.root != nil {
		h.root.handles--
		h.root.inFlight++
	}
	w.objs[h.obj]--
	w.guard("Free", func() { h.buf.Free() })
	if h.root != nil {
		h.root.inFlight--
		r := h.root
		if r.handles == 0 && r.inFlight == 0 && r.puts != 1 {
			w.e.Violate("not_returned", "every reference to root %d has been freed but its memory was returned to the pool %d times (want exactly 1)", r.id, r.puts)
		}
		if r.handles == 0 && r.inFlight == 0 {
			w.e.Probe("root_fully_released")
		}
	}
}

func (w *c53Run) newRoot(n int, viaCopy bool) *c53Handle {
	w.nbase++
	base := 1000 + w.nbase
	data := make([]byte, n)
	for i := range data {
		data[i] = c53Pat(base, i)
	}
	var buf mem.Buffer
	if viaCopy {
		buf = mem.Copy(data, w.pool)
	} else {
		bp := w.pool.Get(n)
		copy(*bp, data)
		buf = mem.NewBuffer(bp, w.pool)
	}
	h := &c53Handle{buf: buf, base: base, n: n}
	w.nobj++
	h.obj = w.nobj
	h.root = w.rootOf(buf)
	return h
}

// rootOf finds the pooled root a buffer's memory belongs to (by address; other
// goroutines may have called Get in between, so "the latest Get" is not it).
// Memory below the pooling threshold is kept as a plain slice that the pool
// never sees again: not tracked.
func (w *c53Run) rootOf(buf mem.Buffer) *c53Root {
	d := buf.ReadOnlyData()
	if cap(d) == 0 {
		return nil
	}
	r := w.pool.roots[unsafe.Pointer(unsafe.SliceData(d))]
	if r == nil {
		return nil
	}
	if _, isSlice := buf.(mem.SliceBuffer); isSlice {
		r.pooled = false
		return nil
	}
	return r
}

func runC53wu(e *core.Env, s *c53Scenario) {
	w := &c53Run{e: e, pool: &c53Pool{e: e, roots: map[unsafe.Pointer]*c53Root{}}, slots: make([]*c53Handle, s.Slots), objs: map[int]int{}}
	var wg sync.WaitGroup
	for wi, ops := range s.Workers {
		wg.Add(1)
		go func() {
			defer wg.Done()
			for oi, op := range ops {
				w.step(wi, oi, op)
			}
		}()
	}
	wg.Wait()
	// release everything that is left; afterwards every pooled root must have
	// been returned exactly once
	for i, h := range w.slots {
		if h != nil {
			w.slots[i] = nil
			w.checkData(h, "final check")
			w.free(h)
		}
	}
	for _, r := range w.pool.all {
		if r.pooled && r.puts != 1 && (r.handles == 0) {
			e.Violate("not_returned", "root %d: all references freed at the end but returned to the pool %d times", r.id, r.puts)
		}
	}
}

func (w *c53Run) take(slot int) *c53Handle {
	h := w.slots[slot%len(w.slots)]
	if h == nil || h.busy {
		return nil
	}
	return h
}

func (w *c53Run) step(wi, oi int, op c53Op) {
	e := w.e
	slot := op.H % len(w.slots)
	switch op.Kind {
	case "new", "copy":
		h := w.newRoot(op.N, op.Kind == "copy")
		e.Logf("w%d.%d %s n=%d pooled=%v", wi, oi, op.Kind, op.N, h.root != nil)
		w.add(slot, h)
	case "ref":
		h := w.take(slot)
		if h == nil {
			return
		}
		h.busy = true
		ok := w.guard("Ref", func() { h.buf.Ref() })
		h.busy = false
		if ok {
			nh := &c53Handle{buf: h.buf, root: h.root, base: h.base, off: h.off, n: h.n, obj: h.obj}
			w.add((slot+1+op.A)%len(w.slots), nh)
			e.Probe("ref")
		}
	case "free":
		h := w.take(slot)
		if h == nil {
			return
		}
		w.slots[slot] = nil
		w.checkData(h, "check before Free")
		w.free(h)
	case "slice":
		h := w.take(slot)
		if h == nil {
			return
		}
		a := op.A * h.n / 100
		b := op.B * h.n / 100
		if a > b {
			a, b = b, a
		}
		h.busy = true
		var nb mem.Buffer
		ok := w.guard("Slice", func() { nb = h.buf.Slice(a, b) })
		h.busy = false
		if !ok {
			return
		}
		nh := &c53Handle{buf: nb, root: h.root, base: h.base, off: h.off + a, n: b - a}
		if b-a == 0 {
			nh.root = nil // empty buffers hold no reference
			w.nobj++
			nh.obj = w.nobj
		} else if a == 0 && b == h.n {
			nh.obj = h.obj // may be the same object with one more reference
			if h.root != nil {
				e.Probe("full_range_slice")
				if h.off != 0 || h.n != len(h.root.mem) {
					e.Probe("full_range_slice_of_view")
				}
			}
		} else {
			w.nobj++
			nh.obj = w.nobj
		}
		w.checkData(nh, "Slice result")
		w.add((slot+1+op.N)%len(w.slots), nh)
	case "split":
		h := w.take(slot)
		if h == nil || w.objs[h.obj] != 1 {
			return // SplitUnsafe mutates the object: sole owner only
		}
		n := op.A * h.n / 100
		h.busy = true
		var l, rr mem.Buffer
		ok := w.guard("SplitUnsafe", func() { l, rr = mem.SplitUnsafe(h.buf, n) })
		h.busy = false
		if !ok {
			return
		}
		right := &c53Handle{buf: rr, root: h.root, base: h.base, off: h.off + n, n: h.n - n}
		w.nobj++
		right.obj = w.nobj
		h.buf, h.n = l, n
		if _, isSlice := l.(mem.SliceBuffer); isSlice {
			// plain slices: both halves are independent views, no refcount
		}
		e.Probe("split")
		w.checkData(h, "SplitUnsafe left")
		w.checkData(right, "SplitUnsafe right")
		w.add((slot+1)%len(w.slots), right)
	case "read":
		h := w.take(slot)
		if h == nil || w.objs[h.obj] != 1 {
			return
		}
		dst := make([]byte, op.A*h.n/100+op.N%3)
		want := w.expect(h)
		w.slots[slot] = nil
		if h.root != nil {
			// the reference may be consumed (freed) by the call
			h.root.handles--
			h.root.inFlight++
		}
		w.objs[h.obj]--
		var n int
		var rest mem.Buffer
		ok := w.guard("ReadUnsafe", func() { n, rest = mem.ReadUnsafe(dst, h.buf) })
		if h.root != nil {
			h.root.inFlight--
		}
		if !ok {
			return
		}
		for i := 0; i < n; i++ {
			if dst[i] != want[i] {
				e.Violate("wrong_data", "ReadUnsafe returned %#x at offset %d, the original byte is %#x", dst[i], i, want[i])
				break
			}
		}
		wantN := min(len(dst), h.n)
		if n != wantN {
			e.Violate("wrong_length", "ReadUnsafe copied %d bytes, expected %d", n, wantN)
		}
		if rest != nil {
			nh := &c53Handle{buf: rest, root: h.root, base: h.base, off: h.off + n, n: h.n - n, obj: h.obj}
			w.add(slot, nh)
			w.checkData(nh, "ReadUnsafe remainder")
		} else if h.root != nil {
			r := h.root
			if r.handles == 0 && r.inFlight == 0 && r.puts != 1 {
				e.Violate("not_returned", "ReadUnsafe consumed the last reference to root %d but its memory was returned %d times", r.id, r.puts)
			}
		}
		e.Probe("read_unsafe")
	case "check":
		if h := w.take(slot); h != nil {
			h.busy = true
			w.checkData(h, "check")
			h.busy = false
		}
	case "mat", "matbuf", "reader":
		// a BufferSlice over up to three live handles (the slice borrows them)
		var hs []*c53Handle
		for k := 0; k < 3; k++ {
			if h := w.take((slot + k) % len(w.slots)); h != nil {
				dup := false
				for _, x := range hs {
					if x == h {
						dup = true
					}
				}
				if !dup {
					h.busy = true
					hs = append(hs, h)
				}
			}
		}
		if len(hs) == 0 {
			return
		}
		var bs mem.BufferSlice
		var want []byte
		for _, h := range hs {
			bs = append(bs, h.buf)
			want = append(want, w.expect(h)...)
		}
		switch op.Kind {
		case "mat":
			var got []byte
			if w.guard("Materialize", func() { got = bs.Materialize() }) && string(got) != string(want) {
				e.Violate("wrong_data", "Materialize returned different bytes than the referenced ones (%d vs %d bytes)", len(got), len(want))
			}
		case "matbuf":
			var nb mem.Buffer
			if w.guard("MaterializeToBuffer", func() { nb = bs.MaterializeToBuffer(w.pool) }) {
				if string(nb.ReadOnlyData()) != string(want) {
					e.Violate("wrong_data", "MaterializeToBuffer holds different bytes than the referenced ones")
				}
				// a single-element slice is returned by reference (one more
				// reference to the same root); otherwise it is a fresh pooled root
				var root *c53Root
				if len(hs) == 1 {
					root = hs[0].root
				} else {
					root = w.rootOf(nb)
				}
				if root != nil {
					root.inFlight++ // created and freed right away
				}
				w.guard("Free of materialised buffer", func() { nb.Free() })
				if root != nil {
					root.inFlight--
					if r := root; r.handles == 0 && r.inFlight == 0 && r.puts != 1 {
						e.Violate("not_returned", "materialised buffer (root %d) freed but returned to the pool %d times", r.id, r.puts)
					}
				}
				e.Probe("materialize_to_buffer")
			}
		case "reader":
			// Reader takes its own references and releases them as it goes / on Close
			for _, h := range hs {
				if h.root != nil {
					h.root.handles++ // the reader's reference
				}
			}
			var rd *mem.Reader
			if !w.guard("Reader", func() { rd = bs.Reader() }) {
				break
			}
			got := make([]byte, 0, len(want))
			chunk := make([]byte, op.A+1)
			stopAt := len(want) * op.B / 100
			for len(got) < stopAt {
				var n int
				var err error
				if !w.guard("Reader.Read", func() { n, err = rd.Read(chunk) }) {
					break
				}
				got = append(got, chunk[:n]...)
				if err != nil || n == 0 {
					break
				}
			}
			if string(got) != string(want[:len(got)]) {
				e.Violate("wrong_data", "Reader returned bytes that differ from the referenced ones")
			}
			if rd.Remaining() != len(want)-len(got) {
				e.Violate("wrong_length", "Reader.Remaining() = %d after reading %d of %d bytes", rd.Remaining(), len(got), len(want))
			}
			for _, h := range hs {
				if h.root != nil {
					h.root.handles--
					h.root.inFlight++
				}
			}
			w.guard("Reader.Close", func() { rd.Close() })
			for _, h := range hs {
				if h.root != nil {
					h.root.inFlight--
				}
			}
			e.Probe("reader")
		}
		for _, h := range hs {
			h.busy = false
			w.checkData(h, "after "+op.Kind)
		}
	case "pool":
		// real pools: Get(n) has length n, capacity >= n; zeroing pools hand out
		// zeros even for recycled memory
		var p mem.BufferPool
		switch op.A % 3 {
		case 0:
			p = mem.DefaultBufferPool()
		case 1:
			p = mem.NewTieredBufferPool(256, 4096, 65536)
		default:
			p, _ = mem.NewBinaryTieredBufferPool(8, 12, 16)
		}
		if p == nil {
			return
		}
		for k := 0; k < 3; k++ {
			n := op.N + k*op.B
			bp := p.Get(n)
			if len(*bp) != n || cap(*bp) < n {
				e.Violate("pool_get_shape", "Get(%d) returned len %d cap %d", n, len(*bp), cap(*bp))
			}
			for i, c := range *bp {
				if c != 0 {
					e.Violate("pool_not_zeroed", "Get(%d) from a zeroing pool returned a non-zero byte %#x at offset %d", n, c, i)
					break
				}
			}
			for i := range *bp {
				(*bp)[i] = 0xA5
			}
			if (op.A/3)%2 == 1 && n > 1 {
				// Put accepts a prefix of what Get returned (the transport
				// strips DATA frame padding by re-slicing the handle): the
				// bytes behind the prefix are dirty and must be zeroed too when
				// the memory is handed out again
				*bp = (*bp)[:n/2]
				p.Put(bp)
				e.Probe("real_pool_put_shortened")
				bp = p.Get(n)
				for i, c := range *bp {
					if c != 0 {
						e.Violate("pool_not_zeroed", "Get(%d) after a Put of a %d-byte prefix returned a non-zero byte %#x at offset %d", n, n/2, c, i)
						break
					}
				}
			}
			p.Put(bp)
		}
		e.Probe("real_pool_roundtrip")
	}
}

func init() { core.Register("C53wu", genC53wu, runC53wu) }
