package wts

import (
	"encoding/hex"
	"fmt"
	"sort"
	"strings"
	"time"

	"golang.org/x/net/http2"
	"golang.org/x/net/http2/hpack"

	"google.golang.org/grpc/internal/zzverif/tap"
)

// ---- scripted (root-driven) peer timelines: used by C12 and C26 ----

// Mut is one raw byte mutation of an encoded frame.
type Mut struct {
	Off int   `json:"off"` // byte offset modulo the encoding's length
	Xor uint8 `json:"xor"`
}

// POp is one step of the peer timeline. The root goroutine executes the steps
// in order.
type POp struct {
	Op     string `json:"op"` // dial preface headers data window_update settings settings_ack ping rst goaway raw frame close settle sleep wait_ret unpark
	Conn   int    `json:"conn,omitempty"`
	Stream uint32 `json:"stream,omitempty"`
	Tag    uint32 `json:"tag_id,omitempty"`
	// headers
	Fields       []KV  `json:"fields,omitempty"`
	EndStream    bool  `json:"end_stream,omitempty"`
	Frags        []int `json:"frags,omitempty"`
	NoEndHeaders bool  `json:"no_end_headers,omitempty"`
	Pad          int   `json:"pad,omitempty"` // headers: >0 padded; data: >0 padded with pad-1 bytes
	// data: N payload bytes; Msg: the payload is a gRPC message with an N byte body
	N   int  `json:"n,omitempty"`
	Msg bool `json:"msg,omitempty"`
	// window_update: N = increment; settings flood: N = repetitions; sleep/wait: Ns
	Ns       int64       `json:"ns,omitempty"`
	Code     uint32      `json:"code,omitempty"`
	Settings [][2]uint32 `json:"settings,omitempty"`
	Ack      bool        `json:"ack,omitempty"`
	Hex      string      `json:"hex,omitempty"`
	Type     uint8       `json:"type,omitempty"`
	Flags    uint8       `json:"flags,omitempty"`
	Len      int         `json:"len,omitempty"` // frame: declared length override when > 0
	Mut      []Mut       `json:"mut,omitempty"`
	Trunc    int         `json:"trunc,omitempty"`
	NoDyn    bool        `json:"no_dyn,omitempty"` // dial: HPACK encoder without dynamic table
	NoAck    bool        `json:"no_ack,omitempty"` // dial: do not acknowledge SETTINGS / PING
	NoGrant  bool        `json:"no_grant,omitempty"` // dial: never send WINDOW_UPDATE for received DATA
}

func mutate(b []byte, ms []Mut, trunc int) []byte {
	if len(ms) == 0 && trunc <= 0 {
		return b
	}
	b = append([]byte{}, b...)
	for _, m := range ms {
		if len(b) > 0 && m.Off >= 0 {
			b[m.Off%len(b)] ^= m.Xor
		}
	}
	if trunc > 0 && trunc < len(b) {
		b = b[:trunc]
	}
	return b
}

func kvFields(kv []KV) []hpack.HeaderField {
	var out []hpack.HeaderField
	for _, p := range kv {
		out = append(out, hpack.HeaderField{Name: p.key(), Value: p.val()})
	}
	return out
}

// ReqRec is a request header block as the server received it (decoded by the
// tap at delivery).
type ReqRec struct {
	Conn     int
	Stream   uint32
	Tag      uint32
	HaveTag  bool
	Seq      uint64
	Illegal  []string // statement-level reasons why no handler may run for it
	Ambig    bool     // legality not decidable from the statement: no assertion
	Path     string
	HavePath bool
	Valid    bool // fully conforming request (for the REFUSED_STREAM clause)
	MustRefuse bool
	SureActive int
}

type connReqState struct {
	maxGood   uint32 // highest id among well-formed request header blocks delivered
	maxAny    uint32 // highest id among all HEADERS frames delivered
	touched   map[uint32]int // frames delivered per stream id besides its first HEADERS
	hdrs      map[uint32]int
	srvGoAway bool
	timeouts  map[uint32]bool
	// suspect: the tap reported a stream-level parse error on this connection.
	// After such an error the shared tap may deliver its events one frame late
	// (it does not drain a CONTINUATION that followed the broken HEADERS), so
	// "delivered before the handler started" is no longer a reliable fact.
	suspect bool
}

// reqLog classifies delivered request headers (oracle side of C12 / C26).
type reqLog struct {
	w      *World
	conns  map[int]*connReqState
	byTag  map[uint32][]*ReqRec
	all    []*ReqRec
	intent map[uint32][]string // tag -> illegality known by construction (unmutated frames only)
}

func newReqLog(w *World) *reqLog {
	return &reqLog{w: w, conns: map[int]*connReqState{}, byTag: map[uint32][]*ReqRec{}, intent: map[uint32][]string{}}
}

func (l *reqLog) conn(i int) *connReqState {
	c := l.conns[i]
	if c == nil {
		c = &connReqState{touched: map[uint32]int{}, hdrs: map[uint32]int{}, timeouts: map[uint32]bool{}}
		l.conns[i] = c
	}
	return c
}

func validTimeout(s string) bool {
	// gRPC over HTTP/2: Timeout = TimeoutValue TimeoutUnit; TimeoutValue =
	// positive integer as ASCII string of at most 8 digits; unit one of HMSmun
	if len(s) < 2 || len(s) > 9 {
		return false
	}
	for i := 0; i < len(s)-1; i++ {
		if s[i] < '0' || s[i] > '9' {
			return false
		}
	}
	return strings.IndexByte("HMSmun", s[len(s)-1]) >= 0
}

// contentTypeClass: +1 clearly valid, -1 clearly invalid, 0 borderline.
func contentTypeClass(v string) int {
	const base = "application/grpc"
	if v == base {
		return 1
	}
	if strings.HasPrefix(v, base+"+") || strings.HasPrefix(v, base+";") {
		if len(v) > len(base)+1 {
			return 1
		}
		return 0
	}
	if strings.HasPrefix(strings.ToLower(v), base) && !strings.HasPrefix(v, base) {
		return 0 // case variants: not decided here
	}
	return -1
}

// binClass: +1 decodable base64, -1 clearly undecodable, 0 borderline.
func binClass(v string) int {
	t := strings.TrimRight(v, "=")
	for i := 0; i < len(t); i++ {
		c := t[i]
		if !(c >= 'A' && c <= 'Z' || c >= 'a' && c <= 'z' || c >= '0' && c <= '9' || c == '+' || c == '/') {
			return -1
		}
	}
	if len(t)%4 == 1 {
		return -1
	}
	if len(v) != len(t) && len(v)%4 != 0 {
		return 0 // wrong amount of padding
	}
	if len(v)-len(t) > 2 {
		return 0
	}
	return 1
}

// delivered: a HEADERS frame of the peer has been read by the server.
func (l *reqLog) delivered(f *tap.Frame) {
	c := l.conn(f.Conn)
	if f.Type != http2.FrameHeaders {
		if f.StreamID != 0 {
			c.touched[f.StreamID]++
		}
		return
	}
	id := f.StreamID
	c.hdrs[id]++
	if f.HdrInvalid {
		c.suspect = true
	}
	if c.hdrs[id] > 1 || f.HdrInvalid {
		// a second header block, or a stream error reported by the frame parser
		// (the tap reports every stream-level parse error as an invalid HEADERS)
		c.touched[id]++
	}
	defer func() {
		if id > c.maxAny {
			c.maxAny = id
		}
	}()
	if f.HdrInvalid || f.HdrTrunc {
		return
	}
	r := &ReqRec{Conn: f.Conn, Stream: id, Seq: f.Seq}
	if id%2 == 0 {
		r.Illegal = append(r.Illegal, "even_stream_id")
	} else if id <= c.maxGood {
		r.Illegal = append(r.Illegal, "stream_id_not_increasing")
	} else if id <= c.maxAny {
		r.Ambig = true // below an id that only a malformed header block used
	}
	if id > c.maxGood && id%2 == 1 {
		// only a legal id opens a stream; an even id is a connection error and
		// does not move the highest stream id the client has opened
		c.maxGood = id
	}
	valid := len(r.Illegal) == 0 && !r.Ambig
	var methods, cts, auths, paths, tags []string
	for _, hf := range f.Fields {
		switch {
		case hf.Name == ":method":
			methods = append(methods, hf.Value)
		case hf.Name == ":path":
			paths = append(paths, hf.Value)
		case hf.Name == ":authority":
			auths = append(auths, hf.Value)
		case hf.Name == "content-type":
			cts = append(cts, hf.Value)
		case hf.Name == "x-sim-rpc":
			tags = append(tags, hf.Value)
		case hf.Name == "grpc-timeout":
			c.timeouts[id] = true
			if !validTimeout(hf.Value) {
				r.Illegal = append(r.Illegal, "malformed_grpc_timeout")
			}
			valid = false // a deadline may end the stream at any time
		case hf.Name == "connection" || hf.Name == "host" || hf.Name == "grpc-encoding":
			valid = false
		case strings.HasSuffix(hf.Name, "-bin"):
			switch binClass(hf.Value) {
			case -1:
				r.Illegal = append(r.Illegal, "undecodable_bin_metadata")
			case 0:
				r.Ambig = true
			}
		}
	}
	if len(methods) != 1 || methods[0] != "POST" {
		r.Illegal = append(r.Illegal, "method_not_post")
	}
	if len(auths) > 1 {
		r.Illegal = append(r.Illegal, "duplicate_authority")
	}
	good, bad := 0, 0
	for _, v := range cts {
		switch contentTypeClass(v) {
		case 1:
			good++
		case -1:
			bad++
		}
	}
	switch {
	case len(cts) == 0 || bad == len(cts):
		r.Illegal = append(r.Illegal, "invalid_content_type")
	case good == len(cts):
	default:
		r.Ambig = true
	}
	if len(cts) != 1 {
		valid = false
	}
	if len(paths) == 1 {
		r.Path, r.HavePath = paths[0], true
	} else {
		valid = false
	}
	if len(tags) == 1 {
		r.Tag, r.HaveTag = ParseTag(tags[0])
	}
	r.Valid = valid && len(r.Illegal) == 0 && !r.Ambig && r.HaveTag
	if r.Valid && l.w.cfg.MaxStreams > 0 && !c.srvGoAway && !c.suspect {
		// REFUSED_STREAM clause: how many streams are certainly still active on
		// this connection right now? Parked handlers whose streams the peer has
		// not touched since their HEADERS (no RST, no DATA, no deadline).
		n := 0
		for _, h := range l.w.Inv {
			if l.w.unparked {
				break // released handlers may finish at any moment from now on
			}
			if h.Conn != f.Conn || !h.Parked || h.Released || h.Returned || !h.HaveTag {
				continue
			}
			recs := l.byTag[h.Tag]
			if len(recs) != 1 || !recs[0].Valid {
				continue
			}
			if c.touched[recs[0].Stream] == 0 {
				n++
			}
		}
		r.SureActive = n
		if uint32(n) >= l.w.cfg.MaxStreams {
			r.MustRefuse = true
			l.w.e.Probe("excess_stream_sent")
		}
	}
	if r.HaveTag {
		l.byTag[r.Tag] = append(l.byTag[r.Tag], r)
	}
	l.all = append(l.all, r)
	if len(r.Illegal) > 0 {
		l.w.e.Probe("illegal_request_delivered")
		for _, why := range r.Illegal {
			l.w.e.Probe("illegal_" + why)
		}
	}
}

// invoked: a handler starts; check it against the delivered requests.
func (l *reqLog) invoked(h *HInv) {
	e := l.w.e
	if !h.HaveTag {
		if h.TagStr == "" {
			e.Probe("handler_untagged")
		} else {
			e.Probe("handler_garbled_tag")
		}
		return
	}
	if why := l.intent[h.Tag]; len(why) > 0 {
		e.Violate("handler_for_illegal_request", "a handler (%s %q) ran for request tag %d, which the peer sent only inside a header block with: %s", h.Kind, h.Method, h.Tag, strings.Join(why, ","))
	}
	recs := l.byTag[h.Tag]
	for _, r := range recs {
		if r.MustRefuse && r.Conn == h.Conn {
			e.Violate("excess_stream_reached_handler", "a handler ran for conn %d stream %d (tag %d) although %d >= MaxConcurrentStreams=%d streams were certainly active when its HEADERS arrived", r.Conn, r.Stream, r.Tag, r.SureActive, l.w.cfg.MaxStreams)
		}
	}
}

// checkInvocations: at the end of the run, every handler invocation must be
// covered by a legal request delivered to the server (the delivery records are
// complete by then even where the tap reported them late).
func (l *reqLog) checkInvocations() {
	e := l.w.e
	seen := map[uint32]bool{}
	for _, h := range l.w.Inv {
		if !h.HaveTag || seen[h.Tag] {
			continue
		}
		seen[h.Tag] = true
		recs := l.byTag[h.Tag]
		if len(recs) == 0 {
			if len(l.intent[h.Tag]) > 0 {
				continue // reported when it ran
			}
			if c := l.conns[h.Conn]; c != nil && c.suspect {
				e.Probe("handler_request_not_seen_by_lagging_tap")
				continue
			}
			e.Violate("handler_without_request", "a handler (%s %q) ran with request tag %d, but no well-formed request header block with that tag was delivered to the server", h.Kind, h.Method, h.Tag)
			continue
		}
		legal := 0
		var why []string
		for _, r := range recs {
			if len(r.Illegal) == 0 {
				legal++
			} else {
				why = append(why, fmt.Sprintf("conn %d stream %d: %s", r.Conn, r.Stream, strings.Join(r.Illegal, ",")))
			}
		}
		if n := len(l.w.invByTag[h.Tag]); n > legal {
			e.Violate("handler_for_illegal_request", "%d handler invocation(s) (%s %q) for request tag %d, but only %d legal request(s) with that tag were delivered; illegal: %s", n, h.Kind, h.Method, h.Tag, legal, strings.Join(why, "; "))
		}
	}
}

// hook is installed as the world's frame hook.
func (l *reqLog) hook(f *tap.Frame) {
	if f.From == 'c' && f.Phase == 'd' {
		l.delivered(f)
	}
	if f.From == 's' && f.Phase == 'w' && f.Type == http2.FrameGoAway {
		l.conn(f.Conn).srvGoAway = true
	}
}

// checkRefused: at quiescence every excess stream must have been answered
// with RST_STREAM(REFUSED_STREAM), unless the connection broke down.
func (l *reqLog) checkRefused() {
	e := l.w.e
	for _, r := range l.all {
		if !r.MustRefuse {
			continue
		}
		p := l.w.peerByPair[r.Conn]
		c := l.conn(r.Conn)
		if p == nil || p.Closed || p.dead || c.srvGoAway || len(p.GoAways) > 0 || p.wErr != nil {
			e.Probe("excess_stream_conn_gone")
			continue
		}
		st := p.S[r.Stream]
		if st == nil || !st.Rst {
			e.Violate("excess_stream_not_refused", "conn %d stream %d (tag %d) arrived while %d >= MaxConcurrentStreams=%d streams were certainly active, but the peer saw no RST_STREAM for it at quiescence (headers=%v trailers=%v)", r.Conn, r.Stream, r.Tag, r.SureActive, l.w.cfg.MaxStreams, st != nil && st.GotHdr, st != nil && st.GotTrailer)
			continue
		}
		if st.RstCode != http2.ErrCodeRefusedStream {
			e.Violate("excess_stream_not_refused", "conn %d stream %d (tag %d): excess stream answered with RST_STREAM(%v), want REFUSED_STREAM", r.Conn, r.Stream, r.Tag, st.RstCode)
			continue
		}
		e.Probe("excess_stream_refused")
	}
}

// ---- executing a timeline ----

type scriptRun struct {
	w     *World
	conns []*Peer
	log   *reqLog
}

func (s *scriptRun) peer(i int) *Peer {
	if i < 0 || i >= len(s.conns) {
		return nil
	}
	return s.conns[i]
}

func (s *scriptRun) exec(i int, op *POp) {
	w := s.w
	e := w.e
	if op.Op == "dial" {
		p := w.Dial()
		s.conns = append(s.conns, p)
		if p == nil {
			return
		}
		if op.NoAck {
			p.AutoAckSettings, p.AutoAckPing = false, false
		}
		if op.NoDyn {
			p.henc.SetMaxDynamicTableSize(0)
		}
		p.AutoGrant = !op.NoGrant
		e.Logf("op %d dial -> peer %d (conn %d)", i, p.N, p.Idx)
		return
	}
	switch op.Op {
	case "settle":
		w.Settle()
		return
	case "sleep":
		time.Sleep(time.Duration(op.Ns))
		return
	case "unpark":
		w.Unpark()
		return
	}
	p := s.peer(op.Conn)
	if p == nil {
		return
	}
	defer func() {
		// after corrupted or hand-made bytes the server's HPACK decoder state may
		// differ from the peer's encoder state: what later header blocks decode
		// to is then known only from the tap, not from the peer's intent
		if len(op.Mut) > 0 || op.Trunc > 0 || op.Op == "raw" || op.Op == "frame" || op.Op == "continuation" {
			p.desync = true
		}
	}()
	switch op.Op {
	case "preface":
		var ss []http2.Setting
		for _, kv := range op.Settings {
			ss = append(ss, http2.Setting{ID: http2.SettingID(kv[0]), Val: kv[1]})
		}
		b := append([]byte(clientPreface), rawFrame(http2.FrameSettings, 0, 0, settingsPayload(ss))...)
		p.Write(mutate(b, op.Mut, op.Trunc))
	case "headers":
		fields := kvFields(op.Fields)
		if op.Tag != 0 {
			fields = append(fields, TagField(op.Tag))
			if len(op.Mut) == 0 && op.Trunc == 0 && !p.desync {
				na := 0
				for _, f := range fields {
					if f.Name == ":authority" {
						na++
					}
				}
				if na > 1 {
					s.log.intent[op.Tag] = append(s.log.intent[op.Tag], "duplicate_authority")
					e.Probe("illegal_duplicate_authority")
				}
			}
		}
		st := p.stream(op.Stream)
		st.Opened = true
		var b []byte
		for _, f := range HeaderFrames(op.Stream, p.EncodeHeaders(fields), op.EndStream, !op.NoEndHeaders, op.Frags, op.Pad) {
			b = append(b, f...)
		}
		b = mutate(b, op.Mut, op.Trunc)
		if w.trace {
			e.Logf("op %d headers bytes %x", i, b)
		}
		p.Write(b)
	case "continuation":
		var fl http2.Flags
		if !op.NoEndHeaders {
			fl = http2.FlagHeadersEndHeaders
		}
		b, _ := hex.DecodeString(op.Hex)
		p.Write(mutate(rawFrame(http2.FrameContinuation, fl, op.Stream, b), op.Mut, op.Trunc))
	case "data":
		var payload []byte
		if op.Msg {
			payload = GrpcMsg(op.Tag, 0, op.N)
		} else {
			payload = make([]byte, op.N)
			tap.FillPat(payload, op.Tag, 'c', 7)
		}
		p.Write(mutate(DataFrame(op.Stream, payload, op.EndStream, op.Pad-1), op.Mut, op.Trunc))
	case "window_update":
		p.Write(mutate(rawFrame(http2.FrameWindowUpdate, 0, op.Stream, u32(uint32(op.N))), op.Mut, op.Trunc))
	case "settings":
		var ss []http2.Setting
		for _, kv := range op.Settings {
			ss = append(ss, http2.Setting{ID: http2.SettingID(kv[0]), Val: kv[1]})
		}
		one := rawFrame(http2.FrameSettings, 0, 0, settingsPayload(ss))
		var b []byte
		for k := 0; k < max(op.N, 1); k++ {
			b = append(b, one...)
		}
		p.Write(mutate(b, op.Mut, op.Trunc))
	case "settings_ack":
		p.Write(mutate(rawFrame(http2.FrameSettings, http2.FlagSettingsAck, 0, nil), op.Mut, op.Trunc))
	case "ping":
		var d [8]byte
		hb, _ := hex.DecodeString(op.Hex)
		copy(d[:], hb)
		var fl http2.Flags
		if op.Ack {
			fl = http2.FlagPingAck
		}
		one := rawFrame(http2.FramePing, fl, op.Stream, d[:])
		var b []byte
		for k := 0; k < max(op.N, 1); k++ {
			b = append(b, one...)
		}
		p.Write(mutate(b, op.Mut, op.Trunc))
	case "rst":
		p.Write(mutate(rawFrame(http2.FrameRSTStream, 0, op.Stream, u32(op.Code)), op.Mut, op.Trunc))
	case "goaway":
		p.Write(mutate(rawFrame(http2.FrameGoAway, 0, 0, append(u32(op.Stream), u32(op.Code)...)), op.Mut, op.Trunc))
	case "frame":
		b, _ := hex.DecodeString(op.Hex)
		n := len(b)
		if op.Len > 0 {
			n = op.Len
		}
		p.Write(mutate(rawFrameLen(http2.FrameType(op.Type), http2.Flags(op.Flags), op.Stream, b, n), op.Mut, op.Trunc))
	case "raw":
		b, _ := hex.DecodeString(op.Hex)
		p.Write(b)
	case "close":
		p.Flush()
		p.Close()
	case "wait_ret":
		// wait (bounded) until the handler of the tag has returned
		d := time.Duration(op.Ns)
		if d <= 0 {
			d = time.Second
		}
		ok := p.WaitFor(d, func() bool {
			for _, h := range w.invByTag[op.Tag] {
				if h.Returned {
					return true
				}
			}
			return false
		})
		e.Logf("op %d wait_ret tag=%d -> %v", i, op.Tag, ok)
	}
}

// usableAfterwards: a conforming RPC on a NEW connection must succeed.
func (s *scriptRun) usableAfterwards(tag uint32) {
	w := s.w
	e := w.e
	p := w.Dial()
	if p == nil {
		e.Violate("server_unusable", "dial of a new connection failed after the hostile phase")
		return
	}
	p.AutoGrant = true
	w.scripts[tag] = []HOp{{Op: "recv_all"}, {Op: "send", N: 20}, {Op: "return", Code: 0}}
	p.Preface()
	p.Headers(1, ReqFields("/sim.Svc/Final", tag), false)
	p.Data(1, GrpcMsg(tag, 0, 10), true, -1)
	ok := p.WaitFor(30*time.Second, func() bool { st := p.S[1]; return st != nil && (st.Ended || st.Rst) || p.Closed })
	st := p.S[1]
	if !ok || st == nil || !st.Ended || !st.HaveStatus || st.Status != "0" || st.Msgs != 1 {
		e.Violate("server_unusable", "conforming RPC on a new connection after the hostile phase did not succeed: done=%v closed=%v(%s) stream=%+v handler_ran=%d", ok, p.Closed, p.CloseErr, dumpStream(st), len(w.invByTag[tag]))
		return
	}
	e.Probe("final_rpc_ok")
}

func dumpStream(st *PStream) string {
	if st == nil {
		return "<nil>"
	}
	return fmt.Sprintf("{hdr=%v trailer=%v status=%q http=%q data=%d msgs=%d rst=%v(%v) ended=%v}", st.GotHdr, st.GotTrailer, st.Status, st.HTTPStatus, st.DataBytes, st.Msgs, st.Rst, st.RstCode, st.Ended)
}

func sortedTags(m map[uint32][]*ReqRec) []uint32 {
	ks := make([]uint32, 0, len(m))
	for k := range m {
		ks = append(ks, k)
	}
	sort.Slice(ks, func(i, j int) bool { return ks[i] < ks[j] })
	return ks
}
