package wts

import (
	"bytes"
	"context"
	"encoding/binary"
	"net"
	"strconv"
	"time"

	"golang.org/x/net/http2"
	"golang.org/x/net/http2/hpack"

	"google.golang.org/grpc/internal/zzverif/simnet"
	"google.golang.org/grpc/internal/zzverif/tap"
)

// The scripted HTTP/2 client peer. It is a STUB owned by the simulator: it
// writes frames byte by byte as told (conforming or hostile) and keeps a
// record of what the real server sent back. Frames received from the server
// are decoded by the wire tap at the moment the peer's Read returns them
// (phase 'd' from 's'); the peer's state machine runs inside that callback.

const clientPreface = "PRI * HTTP/2.0\r\n\r\nSM\r\n\r\n"

// PStream is the peer's view of one stream.
type PStream struct {
	ID         uint32
	GotHdr     bool
	Hdr        []hpack.HeaderField
	GotTrailer bool // a HEADERS with END_STREAM arrived (trailers or trailers-only)
	Trailer    []hpack.HeaderField
	Status     string // grpc-status
	HaveStatus bool
	HTTPStatus string
	DataBytes  int64
	DataFrames int
	Rst        bool
	RstCode    http2.ErrCode
	Ended      bool
	EndNs      int64
	HdrFrames  int
	AfterEnd   int // frames that arrived after END_STREAM/RST for this stream
	// send side (peer as sender)
	SendWin int64 // remaining stream credit as known to the peer
	WaitingCredit bool // a conforming sender is blocked on this stream for lack of credit
	Sent    int64
	Opened  bool
	// receive side (peer as receiver): bytes received and not yet granted back
	Ungranted int64
	// message reassembly of the response (count only)
	pfx    [5]byte
	pfxN   int
	msgLen int
	msgOff int
	inMsg  bool
	Msgs   int
}

// GoAwayRx is a GOAWAY received by the peer.
type GoAwayRx struct {
	Last  uint32
	Code  http2.ErrCode
	Debug string
	Seq   uint64
	AtNs  int64
}

// PingRx is a PING received by the peer.
type PingRx struct {
	Ack  bool
	Data [8]byte
	AtNs int64
	Seq  uint64
}

// Peer is one scripted client connection.
type Peer struct {
	w    *World
	Idx  int // simnet pair index
	N    int // peer number in dial order
	c    net.Conn
	pair *simnet.Pair
	ct   *tap.ConnTap

	outq  [][]byte
	wsig  chan struct{}
	wIdle bool
	wErr  error
	stop  chan struct{}
	dead  bool

	hbuf  bytes.Buffer
	henc  *hpack.Encoder
	noDyn bool
	desync bool // the server's HPACK state may have diverged from henc

	S        map[uint32]*PStream
	GoAways  []GoAwayRx
	Pings    []PingRx
	Settings []http2.Setting // every setting received, in order
	SrvIWS   int64           // server's SETTINGS_INITIAL_WINDOW_SIZE as received
	SrvMCS   int64           // -1: not advertised
	SetAcks  int             // SETTINGS acks received
	ConnWin  int64           // connection-level send credit as known to the peer
	ConnSent int64
	RxFrames int
	RxBytes  int64
	NextID   uint32 // next stream id a conforming driver uses
	DrainAcked bool // a PING that followed a GOAWAY has been acknowledged

	Closed   bool // the peer's Read failed: the server closed/reset the connection
	CloseErr string
	ClosedNs int64
	closedBy string // "peer" when the peer closed first

	AutoAckSettings bool
	AutoAckPing     bool
	AutoGrant       bool // grant back every received DATA byte at once (stream and connection)
	PingAckDelayNs  int64
	// receive-side grant policy hook (called for every DATA frame delivered to the peer)
	OnData func(p *Peer, st *PStream, f *tap.Frame)
	// OnRx is called for every frame delivered to the peer, after the state update
	OnRx func(p *Peer, f *tap.Frame)

	waiters []chan struct{} // one buffered channel per goroutine inside WaitFor
}

// notify wakes every goroutine inside WaitFor. It may be called from any
// goroutine (also from tap callbacks running on server goroutines): each wake
// is a non-blocking send, which is idempotent, so a yield inside notify is
// harmless.
func (p *Peer) notify() {
	ws := p.waiters
	for _, c := range ws {
		select {
		case c <- struct{}{}:
		default:
		}
	}
}

// WaitFor blocks until cond holds or the timeout passes; it reports whether
// cond held. Only harness goroutines other than tap callbacks may call it.
func (p *Peer) WaitFor(d time.Duration, cond func() bool) bool {
	var tc <-chan time.Time
	var t *time.Timer
	if d >= 0 {
		t = time.NewTimer(d)
		defer t.Stop()
		tc = t.C
	}
	if cond() {
		return true
	}
	me := make(chan struct{}, 1)
	p.waiters = append(append([]chan struct{}{}, p.waiters...), me)
	defer func() {
		ws := make([]chan struct{}, 0, len(p.waiters))
		for _, c := range p.waiters {
			if c != me {
				ws = append(ws, c)
			}
		}
		p.waiters = ws
	}()
	for !cond() {
		select {
		case <-me:
		case <-tc:
			return cond()
		case <-p.stop:
			return cond()
		}
	}
	return true
}

// Dial opens a new connection to the simulated server address and starts the
// reader and writer goroutines. Nothing is written yet.
func (w *World) Dial() *Peer {
	c, err := w.net.Dial(context.Background(), "srv0")
	if err != nil {
		w.e.Logf("peer dial failed: %v", err)
		return nil
	}
	pair := w.net.Pairs[len(w.net.Pairs)-1]
	p := &Peer{w: w, Idx: pair.Index, N: len(w.peers), c: c, pair: pair, ct: w.taps[pair.Index], wsig: make(chan struct{}, 1), stop: make(chan struct{}), S: map[uint32]*PStream{}, SrvIWS: 65535, SrvMCS: -1, ConnWin: 65535, NextID: 1, AutoAckSettings: true, AutoAckPing: true}
	p.henc = hpack.NewEncoder(&p.hbuf)
	w.peers = append(w.peers, p)
	w.peerByPair[pair.Index] = p
	w.helpers.Add(2)
	go p.reader()
	go p.writer()
	return p
}

func (p *Peer) reader() {
	defer p.w.helpers.Done()
	buf := make([]byte, 65536)
	for {
		_, err := p.c.Read(buf)
		if err != nil {
			if !p.Closed {
				p.Closed = true
				p.CloseErr = err.Error()
				p.ClosedNs = p.w.e.SimNs()
				if p.closedBy == "" {
					p.closedBy = "server"
				}
				p.w.e.Logf("peer %d read ends: %v (by %s)", p.N, err, p.closedBy)
			}
			p.notify()
			return
		}
	}
}

func (p *Peer) writer() {
	defer p.w.helpers.Done()
	for {
		for len(p.outq) == 0 {
			if !p.wIdle {
				p.wIdle = true
				p.notify()
			}
			select {
			case <-p.wsig:
			case <-p.stop:
				return
			}
		}
		p.wIdle = false
		b := p.outq[0]
		p.outq = p.outq[1:]
		if p.wErr != nil {
			continue
		}
		if _, err := p.c.Write(b); err != nil {
			p.wErr = err
			p.w.e.Logf("peer %d write error: %v", p.N, err)
		}
	}
}

// Write queues bytes; one call = one Write on the connection.
func (p *Peer) Write(b []byte) {
	if p.dead || len(b) == 0 {
		return
	}
	p.outq = append(p.outq, b)
	select {
	case p.wsig <- struct{}{}:
	default:
	}
}

// Flush waits until the writer goroutine has handed everything to simnet.
func (p *Peer) Flush() {
	p.WaitFor(-1, func() bool { return (len(p.outq) == 0 && p.wIdle) || p.wErr != nil })
}

// Close closes the peer's end of the connection.
func (p *Peer) Close() {
	if p.dead {
		return
	}
	p.dead = true
	if p.closedBy == "" {
		p.closedBy = "peer"
	}
	close(p.stop)
	p.c.Close()
}

// ---- frame construction ----

func rawFrame(typ http2.FrameType, flags http2.Flags, stream uint32, payload []byte) []byte {
	return rawFrameLen(typ, flags, stream, payload, len(payload))
}

// rawFrameLen builds a frame whose declared length may differ from the payload.
func rawFrameLen(typ http2.FrameType, flags http2.Flags, stream uint32, payload []byte, declared int) []byte {
	b := make([]byte, 9+len(payload))
	b[0], b[1], b[2] = byte(declared>>16), byte(declared>>8), byte(declared)
	b[3] = byte(typ)
	b[4] = byte(flags)
	binary.BigEndian.PutUint32(b[5:], stream)
	copy(b[9:], payload)
	return b
}

func settingsPayload(ss []http2.Setting) []byte {
	b := make([]byte, 0, 6*len(ss))
	for _, s := range ss {
		b = append(b, byte(s.ID>>8), byte(s.ID), byte(s.Val>>24), byte(s.Val>>16), byte(s.Val>>8), byte(s.Val))
	}
	return b
}

func u32(v uint32) []byte {
	b := make([]byte, 4)
	binary.BigEndian.PutUint32(b, v)
	return b
}

// Preface queues the client preface and the initial SETTINGS frame.
func (p *Peer) Preface(ss ...http2.Setting) {
	b := append([]byte(clientPreface), rawFrame(http2.FrameSettings, 0, 0, settingsPayload(ss))...)
	p.Write(b)
}

func (p *Peer) SendSettings(ss ...http2.Setting) {
	p.Write(rawFrame(http2.FrameSettings, 0, 0, settingsPayload(ss)))
}
func (p *Peer) SettingsAck() { p.Write(rawFrame(http2.FrameSettings, http2.FlagSettingsAck, 0, nil)) }
func (p *Peer) Ping(ack bool, data [8]byte) {
	var fl http2.Flags
	if ack {
		fl = http2.FlagPingAck
	}
	p.Write(rawFrame(http2.FramePing, fl, 0, data[:]))
}
func (p *Peer) WindowUpdate(stream, inc uint32) {
	p.Write(rawFrame(http2.FrameWindowUpdate, 0, stream, u32(inc)))
}
func (p *Peer) Rst(stream uint32, code http2.ErrCode) {
	p.Write(rawFrame(http2.FrameRSTStream, 0, stream, u32(uint32(code))))
	if st := p.S[stream]; st != nil {
		st.Opened = false
	}
}
func (p *Peer) GoAway(last uint32, code http2.ErrCode, debug []byte) {
	p.Write(rawFrame(http2.FrameGoAway, 0, 0, append(append(u32(last), u32(uint32(code))...), debug...)))
}

// EncodeHeaders HPACK-encodes a field list with the connection's encoder.
func (p *Peer) EncodeHeaders(fields []hpack.HeaderField) []byte {
	p.hbuf.Reset()
	for _, f := range fields {
		p.henc.WriteField(f)
	}
	return append([]byte{}, p.hbuf.Bytes()...)
}

// HeaderFrames builds HEADERS (+CONTINUATION) frames from a header block. frags
// are the fragment sizes (the remainder goes into a last fragment); pad > 0
// adds padding to the HEADERS frame.
func HeaderFrames(stream uint32, block []byte, endStream, endHeaders bool, frags []int, pad int) [][]byte {
	var parts [][]byte
	rest := block
	for _, n := range frags {
		if n < 0 {
			n = 0
		}
		if n > len(rest) {
			n = len(rest)
		}
		parts = append(parts, rest[:n])
		rest = rest[n:]
	}
	if len(rest) > 0 || len(parts) == 0 {
		parts = append(parts, rest)
	}
	var out [][]byte
	for i, part := range parts {
		last := i == len(parts)-1
		var fl http2.Flags
		if last && endHeaders {
			fl |= http2.FlagHeadersEndHeaders
		}
		if i == 0 {
			if endStream {
				fl |= http2.FlagHeadersEndStream
			}
			payload := part
			if pad > 0 {
				if pad > 255 {
					pad = 255
				}
				fl |= http2.FlagHeadersPadded
				payload = append(append([]byte{byte(pad)}, part...), make([]byte, pad)...)
			}
			out = append(out, rawFrame(http2.FrameHeaders, fl, stream, payload))
		} else {
			out = append(out, rawFrame(http2.FrameContinuation, fl, stream, part))
		}
	}
	return out
}

// Headers sends a request header block on a stream in one write.
func (p *Peer) Headers(stream uint32, fields []hpack.HeaderField, endStream bool) {
	st := p.stream(stream)
	st.Opened = true
	st.SendWin = p.SrvIWS
	var b []byte
	for _, f := range HeaderFrames(stream, p.EncodeHeaders(fields), endStream, true, nil, 0) {
		b = append(b, f...)
	}
	p.Write(b)
}

// DataFrame builds a DATA frame; pad >= 0 adds the PADDED flag with pad bytes.
func DataFrame(stream uint32, payload []byte, endStream bool, pad int) []byte {
	var fl http2.Flags
	if endStream {
		fl |= http2.FlagDataEndStream
	}
	if pad >= 0 {
		if pad > 255 {
			pad = 255
		}
		fl |= http2.FlagDataPadded
		payload = append(append([]byte{byte(pad)}, payload...), make([]byte, pad)...)
	}
	return rawFrame(http2.FrameData, fl, stream, payload)
}

// Data sends a DATA frame and charges the peer's send-side windows with the
// whole frame payload (padding included), as RFC 9113 §6.9.1 prescribes.
func (p *Peer) Data(stream uint32, payload []byte, endStream bool, pad int) {
	f := DataFrame(stream, payload, endStream, pad)
	n := int64(len(f) - 9)
	st := p.stream(stream)
	st.SendWin -= n
	st.Sent += n
	p.ConnWin -= n
	p.ConnSent += n
	p.Write(f)
}

// GrpcMsg returns the 5-byte prefix plus the attributable pattern payload of
// message idx of request tag.
func GrpcMsg(tag uint32, idx, n int) []byte {
	b := make([]byte, 5+n)
	binary.BigEndian.PutUint32(b[1:], uint32(n))
	tap.FillPat(b[5:], tag, 'c', idx)
	return b
}

// ReqFields is the header list of a conforming gRPC request.
func ReqFields(path string, tag uint32, extra ...hpack.HeaderField) []hpack.HeaderField {
	f := []hpack.HeaderField{
		{Name: ":method", Value: "POST"},
		{Name: ":scheme", Value: "http"},
		{Name: ":path", Value: path},
		{Name: ":authority", Value: "srv0"},
		{Name: "content-type", Value: "application/grpc"},
		{Name: "te", Value: "trailers"},
	}
	if tag != 0 {
		f = append(f, TagField(tag))
	}
	return append(f, extra...)
}

// TagField is the request tag header. It is sent as a never-indexed literal so
// that no later (possibly corrupted) header block can refer to it through the
// HPACK dynamic table.
func TagField(tag uint32) hpack.HeaderField {
	return hpack.HeaderField{Name: "x-sim-rpc", Value: TagString(tag), Sensitive: true}
}

// TagString renders a tag as the decimal number tag*100000+check(tag): purely
// numeric (the tap ledger attributes streams by parsing x-sim-rpc as a number)
// and with a check part so that byte mutations do not turn one valid tag into
// another. Tags must be below 40000.
func TagString(tag uint32) string { return strconv.FormatUint(uint64(WireTag(tag)), 10) }

// WireTag is the number carried in x-sim-rpc; it also keys the attributable
// payload pattern of the response.
func WireTag(tag uint32) uint32 { return tag*100000 + tagSum(tag) }

func tagSum(tag uint32) uint32 {
	x := uint64(tag)*0x9e3779b97f4a7c15 + 0x1234567
	x ^= x >> 29
	x *= 0xbf58476d1ce4e5b9
	x ^= x >> 32
	return uint32(x % 100000)
}

// ParseTag is the inverse of TagString; ok is false for anything else.
func ParseTag(s string) (uint32, bool) {
	if len(s) == 0 || len(s) > 10 || s[0] == '0' || s[0] == '+' {
		return 0, false
	}
	v, err := strconv.ParseUint(s, 10, 32)
	if err != nil {
		return 0, false
	}
	tag := uint32(v / 100000)
	if tag == 0 || tag >= 40000 || WireTag(tag) != uint32(v) {
		return 0, false
	}
	return tag, true
}

func (p *Peer) stream(id uint32) *PStream {
	st := p.S[id]
	if st == nil {
		st = &PStream{ID: id, SendWin: p.SrvIWS}
		p.S[id] = st
	}
	return st
}

// onFrame: a frame from the server has been read by the peer.
func (p *Peer) onFrame(f *tap.Frame) {
	p.RxFrames++
	switch f.Type {
	case http2.FrameSettings:
		if f.Ack() {
			p.SetAcks++
			break
		}
		for _, s := range f.Settings {
			p.Settings = append(p.Settings, s)
			switch s.ID {
			case http2.SettingInitialWindowSize:
				d := int64(s.Val) - p.SrvIWS
				p.SrvIWS = int64(s.Val)
				for _, st := range p.S {
					st.SendWin += d
				}
			case http2.SettingMaxConcurrentStreams:
				p.SrvMCS = int64(s.Val)
			}
		}
		if p.AutoAckSettings {
			p.SettingsAck()
		}
	case http2.FramePing:
		p.Pings = append(p.Pings, PingRx{Ack: f.Ack(), Data: f.PingData, AtNs: f.SimNs, Seq: f.Seq})
		if !f.Ack() && p.AutoAckPing {
			if p.PingAckDelayNs > 0 {
				d := f.PingData
				p.w.helpers.Add(1)
				go func() {
					defer p.w.helpers.Done()
					select {
					case <-time.After(time.Duration(p.PingAckDelayNs)):
						p.Ping(true, d)
						if len(p.GoAways) > 0 {
							p.DrainAcked = true
						}
						p.notify()
					case <-p.stop:
					}
				}()
			} else {
				p.Ping(true, f.PingData)
				if len(p.GoAways) > 0 {
					p.DrainAcked = true
				}
			}
		}
	case http2.FrameWindowUpdate:
		if f.StreamID == 0 {
			p.ConnWin += int64(f.Increment)
		} else {
			p.stream(f.StreamID).SendWin += int64(f.Increment)
		}
	case http2.FrameGoAway:
		p.GoAways = append(p.GoAways, GoAwayRx{Last: f.LastStreamID, Code: f.ErrCode, Debug: string(f.DebugData), Seq: f.Seq, AtNs: f.SimNs})
	case http2.FrameRSTStream:
		st := p.stream(f.StreamID)
		if st.Ended || st.Rst {
			st.AfterEnd++
		}
		if !st.Rst {
			st.RstCode = f.ErrCode // the first RST_STREAM is the server's answer; later ones react to later frames
		}
		st.Rst = true
		st.Opened = false
		if st.EndNs == 0 {
			st.EndNs = f.SimNs
		}
	case http2.FrameHeaders:
		st := p.stream(f.StreamID)
		if st.Ended || st.Rst {
			st.AfterEnd++
		}
		st.HdrFrames++
		if !st.GotHdr && !f.EndStream() {
			st.GotHdr = true
			st.Hdr = f.Fields
			if v := f.Header(":status"); len(v) > 0 {
				st.HTTPStatus = v[0]
			}
		} else {
			if !st.GotHdr {
				if v := f.Header(":status"); len(v) > 0 {
					st.HTTPStatus = v[0]
				}
			}
			st.Trailer = f.Fields
			if f.EndStream() {
				st.GotTrailer = true
			}
			if v := f.Header("grpc-status"); len(v) > 0 {
				st.Status, st.HaveStatus = v[0], true
			}
		}
		if f.EndStream() {
			st.Ended = true
			st.Opened = false
			st.EndNs = f.SimNs
		}
	case http2.FrameData:
		st := p.stream(f.StreamID)
		if st.Ended || st.Rst {
			st.AfterEnd++
		}
		st.DataBytes += int64(f.Length)
		st.DataFrames++
		st.Ungranted += int64(f.Length)
		p.RxBytes += int64(f.Length)
		st.feed(f.Data)
		if f.EndStream() {
			st.Ended = true
			st.Opened = false
			st.EndNs = f.SimNs
		}
		if p.AutoGrant && f.Length > 0 {
			b := rawFrame(http2.FrameWindowUpdate, 0, 0, u32(uint32(f.Length)))
			if !st.Ended {
				b = append(b, rawFrame(http2.FrameWindowUpdate, 0, f.StreamID, u32(uint32(f.Length)))...)
			}
			st.Ungranted = 0
			p.Write(b)
		}
		if p.OnData != nil {
			p.OnData(p, st, f)
		}
	}
	if p.OnRx != nil {
		p.OnRx(p, f)
	}
	p.notify()
}

// feed counts complete gRPC messages in the response payload.
func (st *PStream) feed(b []byte) {
	for len(b) > 0 {
		if !st.inMsg {
			n := copy(st.pfx[st.pfxN:], b)
			st.pfxN += n
			b = b[n:]
			if st.pfxN < 5 {
				return
			}
			st.pfxN = 0
			st.msgLen = int(binary.BigEndian.Uint32(st.pfx[1:]))
			st.msgOff = 0
			st.inMsg = true
			if st.msgLen == 0 {
				st.inMsg = false
				st.Msgs++
			}
			continue
		}
		n := st.msgLen - st.msgOff
		if n > len(b) {
			n = len(b)
		}
		st.msgOff += n
		b = b[n:]
		if st.msgOff == st.msgLen {
			st.inMsg = false
			st.Msgs++
		}
	}
}

// LastGoAway returns the most recent GOAWAY, if any.
func (p *Peer) LastGoAway() *GoAwayRx {
	if len(p.GoAways) == 0 {
		return nil
	}
	return &p.GoAways[len(p.GoAways)-1]
}

// ---- conforming sender helpers ----

// FinalGoAway returns the GOAWAY that ends stream creation on this connection:
// the first one whose last-stream-id is below 2^31-1, or the second GOAWAY.
func (p *Peer) FinalGoAway() *GoAwayRx {
	for i := range p.GoAways {
		if p.GoAways[i].Last != 1<<31-1 || i >= 1 {
			return &p.GoAways[i]
		}
	}
	return nil
}

// SendData sends payload on a stream as a conforming sender: frames of at most
// maxFrame bytes, never beyond the stream or connection credit the server has
// advertised; it waits for credit when needed. abort() is polled while waiting.
// It reports whether everything was written.
func (p *Peer) SendData(id uint32, payload []byte, endStream bool, maxFrame int, abort func() bool) bool {
	if maxFrame <= 0 || maxFrame > 16384 {
		maxFrame = 16384
	}
	st := p.stream(id)
	for {
		if abort != nil && abort() {
			return false
		}
		if len(payload) == 0 {
			if endStream {
				p.Data(id, nil, true, -1)
			}
			return true
		}
		n := len(payload)
		if n > maxFrame {
			n = maxFrame
		}
		if int64(n) > st.SendWin {
			n = int(st.SendWin)
		}
		if int64(n) > p.ConnWin {
			n = int(p.ConnWin)
		}
		if n <= 0 {
			p.w.e.Probe("peer_waited_for_credit")
			st.WaitingCredit = true
			ok := p.WaitFor(-1, func() bool {
				return (st.SendWin > 0 && p.ConnWin > 0) || p.Closed || p.dead || (abort != nil && abort())
			})
			st.WaitingCredit = false
			if !ok || p.Closed || p.dead {
				return false
			}
			continue
		}
		last := n == len(payload)
		p.Data(id, payload[:n], last && endStream, -1)
		payload = payload[n:]
		if last {
			return true
		}
	}
}
