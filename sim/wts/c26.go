package wts

import (
	"encoding/hex"
	"fmt"
	"strings"

	"google.golang.org/grpc/internal/zzverif/core"
	"google.golang.org/grpc/internal/zzverif/simnet"
)

// C26: requests are dispatched only to the registered method.

type c26Scenario struct {
	Sched  core.Sched `json:"sched"`
	Net    simnet.Cfg `json:"net"`
	Server ServerCfg  `json:"server"`
	Ops    []POp      `json:"ops"`
	Trace  bool       `json:"trace,omitempty"`
}

func (s *c26Scenario) SchedP() *core.Sched { return &s.Sched }
func (s *c26Scenario) Shape() string {
	n := 0
	for _, o := range s.Ops {
		if o.Op == "headers" {
			n++
		}
	}
	return fmt.Sprintf("svcs=%d reqs=%d unknown=%v workers=%d", len(s.Server.Services), n, !s.Server.NoUnknown, s.Server.NumWorkers)
}
func (s *c26Scenario) Validate() error {
	seen := map[string]bool{}
	for _, d := range s.Server.Services {
		if seen[d.name()] {
			return fmt.Errorf("duplicate service")
		}
		seen[d.name()] = true
		ms := map[string]bool{}
		for _, m := range append(append([]string{}, d.Unary...), d.Streams...) {
			if ms[m] || strings.Contains(m, "/") {
				return fmt.Errorf("bad method set")
			}
			ms[m] = true
		}
	}
	if len(s.Ops) == 0 || s.Ops[0].Op != "dial" {
		return fmt.Errorf("no dial")
	}
	return nil
}

var c26SvcNames = []string{"sim.Svc", "a", "a.b", "a.b/c", "a/b", "x.y.Z", "", "/lead", "trail/", "sérv", "A.B", "a.b/c/d", "svc with space", "a//b"}
var c26Methods = []string{"M", "c", "d", "m", "b", "", "Μ", "Method2", "M ", "%2F"}

// pathClass is the oracle's reading of the statement: a path has the form
// "/" service "/" method where the method contains no slash, so the split is at
// the last slash. kind: "malformed", "registered", "other".
func pathClass(reg map[string]map[string]string, path string, have bool) (kind, svc, mth string) {
	if !have || !strings.HasPrefix(path, "/") {
		return "malformed", "", ""
	}
	rest := path[1:]
	i := strings.LastIndex(rest, "/")
	if i < 0 {
		return "malformed", "", ""
	}
	svc, mth = rest[:i], rest[i+1:]
	if ms, ok := reg[svc]; ok {
		if _, ok := ms[mth]; ok {
			return "registered", svc, mth
		}
	}
	return "other", svc, mth
}

func registryOf(c *ServerCfg) map[string]map[string]string {
	reg := map[string]map[string]string{}
	for _, d := range c.Services {
		ms := map[string]string{}
		for _, m := range d.Unary {
			ms[m] = "unary"
		}
		for _, m := range d.Streams {
			ms[m] = "stream"
		}
		reg[d.name()] = ms
	}
	return reg
}

func genC26(seed uint64, tier string) *c26Scenario {
	r := core.NewRand(seed)
	s := &c26Scenario{Sched: genSched(r, seed), Net: genNet(r, seed, false)}
	s.Server.NoUnknown = r.Chance(1, 2)
	if r.Chance(1, 4) {
		s.Server.NumWorkers = uint32(r.Range(1, 3))
	}
	names := append([]string{}, c26SvcNames...)
	for i := len(names) - 1; i > 0; i-- {
		j := r.Intn(i + 1)
		names[i], names[j] = names[j], names[i]
	}
	ns := r.Range(1, 5)
	// nested-looking pairs are the interesting registries: make them likely
	if r.Chance(1, 2) {
		names = append([]string{"a.b", "a.b/c"}, names...)
	}
	seen := map[string]bool{}
	for _, n := range names {
		if len(s.Server.Services) >= ns {
			break
		}
		if seen[n] {
			continue
		}
		seen[n] = true
		d := SvcDesc{}
		if n == "" || strings.ContainsAny(n, "é") {
			d.NameHex = hex.EncodeToString([]byte(n))
			if n == "" {
				d.NameHex = ""
			}
		}
		d.Name = n
		ms := append([]string{}, c26Methods...)
		for i := len(ms) - 1; i > 0; i-- {
			j := r.Intn(i + 1)
			ms[i], ms[j] = ms[j], ms[i]
		}
		for _, m := range ms[:r.Range(1, 4)] {
			if r.Chance(1, 2) {
				d.Unary = append(d.Unary, m)
			} else {
				d.Streams = append(d.Streams, m)
			}
		}
		s.Server.Services = append(s.Server.Services, d)
	}
	reg := registryOf(&s.Server)
	var full []string
	for _, d := range s.Server.Services {
		for m := range reg[d.name()] {
			_ = m
		}
		for _, m := range append(append([]string{}, d.Unary...), d.Streams...) {
			full = append(full, "/"+d.name()+"/"+m)
		}
	}
	nconn := r.Range(1, 2)
	for c := 0; c < nconn; c++ {
		s.Ops = append(s.Ops, POp{Op: "dial", Conn: c, NoDyn: r.Chance(1, 3)}, POp{Op: "preface", Conn: c})
	}
	nreq := r.Range(4, 16)
	if tier == "thorough" {
		nreq = r.Range(4, 40)
	}
	next := make([]uint32, nconn)
	for i := range next {
		next[i] = 1
	}
	for i := 0; i < nreq; i++ {
		base := core.Pick(r, full...)
		p := base
		switch r.Intn(22) {
		case 0, 1, 2, 3, 4, 5:
		case 6:
			p = base[1:] // no leading slash
		case 7:
			p = "/" + base
		case 8:
			p = base + "/"
		case 9: // known service, unknown method
			p = base[:strings.LastIndex(base, "/")+1] + core.Pick(r, "Nope", "", "m2", "M/x")
		case 10: // unknown service, known method
			p = "/no.Such" + base[strings.LastIndex(base, "/"):]
		case 11:
			p = strings.ToUpper(base)
		case 12: // split at another slash
			if k := strings.Index(base[1:], "/"); k >= 0 {
				p = base[:k+1] + "/" + base[k+1:]
			}
		case 13:
			p = core.Pick(r, "", "/", "//", "///", "*", "/sim.Svc", "sim.Svc/M", "/ /", "/?", "http://srv0/sim.Svc/M")
		case 14:
			p = strings.Replace(base, "/", "%2F", 1)
		case 15:
			p = base + core.Pick(r, "?x=1", "#f", " ", "é", ";v=1")
		case 16: // service only, or method only
			p = base[:strings.LastIndex(base, "/")]
		case 17:
			p = base[strings.LastIndex(base, "/"):]
		case 18: // drop the last path component: "/a.b/c/d" -> "/a.b/c"
			p = base[:strings.LastIndex(base, "/")]
			if k := strings.LastIndex(p, "/"); k > 0 && r.Chance(1, 2) {
				p = p[:k]
			}
		case 19:
			p = base + "/" + core.Pick(r, c26Methods...)
		case 20:
			p = "/" + core.Pick(r, c26SvcNames...) + "/" + core.Pick(r, c26Methods...)
		default:
			p = "" // no :path at all (see below)
		}
		conn := r.Intn(nconn)
		tag := uint32(i + 1)
		fields := []KV{{K: ":method", V: "POST"}, {K: ":scheme", V: "http"}}
		if !(p == "" && r.Chance(1, 2)) {
			fields = append(fields, KV{K: ":path", VHex: hex.EncodeToString([]byte(p))})
			if p == "" {
				fields[len(fields)-1] = KV{K: ":path", V: ""}
			}
		}
		fields = append(fields, KV{K: ":authority", V: "srv0"}, KV{K: "content-type", V: "application/grpc"}, KV{K: "te", V: "trailers"})
		id := next[conn]
		next[conn] += 2
		s.Ops = append(s.Ops, POp{Op: "headers", Conn: conn, Stream: id, Tag: tag, Fields: fields})
		s.Ops = append(s.Ops, POp{Op: "data", Conn: conn, Stream: id, Tag: tag, N: r.Intn(40), Msg: true, EndStream: true})
		if r.Chance(1, 6) {
			s.Ops = append(s.Ops, POp{Op: "sleep", Ns: int64(core.Pick(r, 1, 1000, 1000000))})
		}
	}
	return s
}

func runC26(e *core.Env, s *c26Scenario) {
	def := []HOp{{Op: "recv_all"}, {Op: "send", N: 3}, {Op: "return", Code: 0}}
	w := NewWorld(e, s.Net, nil, &s.Server, nil, def)
	w.trace = s.Trace
	reg := registryOf(&s.Server)
	sr := &scriptRun{w: w}
	sr.log = newReqLog(w)
	w.hook = sr.log.hook
	w.onInvoke = func(h *HInv) {
		sr.log.invoked(h)
		if !h.HaveTag || h.Kind == "unknown" {
			return
		}
		// a registered handler started: the delivered path must name exactly it
		for _, r := range sr.log.byTag[h.Tag] {
			kind, svc, mth := pathClass(reg, r.Path, r.HavePath)
			if kind != "registered" || svc != h.Svc || mth != h.Mth {
				e.Violate("wrong_handler", "request tag %d with :path %q (present=%v, class %s) reached the handler registered as service %q method %q", h.Tag, r.Path, r.HavePath, kind, h.Svc, h.Mth)
			}
		}
	}
	for i := range s.Ops {
		sr.exec(i, &s.Ops[i])
	}
	w.Settle()
	sr.log.checkInvocations()
	for _, tag := range sortedTags(sr.log.byTag) {
		recs := sr.log.byTag[tag]
		if len(recs) != 1 {
			continue
		}
		r := recs[0]
		if len(r.Illegal) > 0 {
			continue
		}
		kind, svc, mth := pathClass(reg, r.Path, r.HavePath)
		inv := w.invByTag[tag]
		p := w.peerByPair[r.Conn]
		var st *PStream
		if p != nil {
			st = p.S[r.Stream]
		}
		e.Probe("path_" + kind)
		switch kind {
		case "malformed":
			if len(inv) > 0 {
				e.Violate("malformed_path_reached_handler", "request tag %d with malformed :path %q (present=%v) reached a handler (%s %q/%q)", tag, r.Path, r.HavePath, inv[0].Kind, inv[0].Svc, inv[0].Mth)
			}
		case "registered":
			if len(inv) != 1 || inv[0].Kind == "unknown" || inv[0].Svc != svc || inv[0].Mth != mth {
				got := "no handler"
				if len(inv) > 0 {
					got = fmt.Sprintf("%d invocation(s), first %s %q/%q", len(inv), inv[0].Kind, inv[0].Svc, inv[0].Mth)
				}
				e.Violate("registered_method_not_reached", "request tag %d with :path %q names registered service %q method %q but got %s (peer saw %s)", tag, r.Path, svc, mth, got, dumpStream(st))
			} else if st == nil || !st.HaveStatus || st.Status != "0" {
				e.Violate("registered_method_status", "request tag %d with :path %q ran its registered handler, which returned OK, but the peer saw %s", tag, r.Path, dumpStream(st))
			} else {
				e.Probe("registered_" + reg[svc][mth] + "_ok")
				if strings.Contains(svc, "/") {
					e.Probe("registered_nested_service_ok")
				}
			}
		default:
			if s.Server.NoUnknown {
				if len(inv) > 0 {
					e.Violate("unregistered_path_reached_handler", "request tag %d with :path %q (service %q method %q not registered, no unknown-service handler) reached a handler (%s %q/%q)", tag, r.Path, svc, mth, inv[0].Kind, inv[0].Svc, inv[0].Mth)
				} else if st == nil || !st.HaveStatus || st.Status != "12" {
					e.Violate("unregistered_path_status", "request tag %d with unregistered :path %q must yield UNIMPLEMENTED (12), peer saw %s", tag, r.Path, dumpStream(st))
				} else {
					e.Probe("unimplemented_ok")
				}
			} else {
				if len(inv) != 1 || inv[0].Kind != "unknown" {
					got := "no handler"
					if len(inv) > 0 {
						got = fmt.Sprintf("%d invocation(s), first %s %q/%q", len(inv), inv[0].Kind, inv[0].Svc, inv[0].Mth)
					}
					e.Violate("unknown_service_handler_not_reached", "request tag %d with unregistered :path %q must reach the unknown-service handler, got %s", tag, r.Path, got)
				} else {
					e.Probe("unknown_handler_ok")
				}
			}
		}
	}
	w.Teardown()
}

func init() { core.Register("C26", genC26, runC26) }
