// Package wts is the "server transport vs scripted peer" world: a real
// grpc.Server (http2Server, loopy writer, controlbuf, flow control, handler
// dispatch) serves on a simnet listener; the client is a scripted HTTP/2 peer
// (stub) that the harness drives frame by frame. The wire tap decodes both
// directions independently; server frames count from the moment they are
// written (phase 'w' from 's'), the peer's frames from the moment the server
// has read them (phase 'd' from 'c').
package wts

import (
	"bytes"
	"context"
	"encoding/hex"
	"fmt"
	"io"
	"os"
	"runtime"
	"sort"
	"strconv"
	"strings"
	"sync"
	"testing/synctest"
	"time"

	"golang.org/x/net/http2"
	"google.golang.org/grpc"
	"google.golang.org/grpc/codes"
	"google.golang.org/grpc/grpclog"
	"google.golang.org/grpc/keepalive"
	"google.golang.org/grpc/mem"
	"google.golang.org/grpc/metadata"
	"google.golang.org/grpc/peer"
	"google.golang.org/grpc/status"

	"google.golang.org/grpc/internal/zzverif/core"
	"google.golang.org/grpc/internal/zzverif/simnet"
	"google.golang.org/grpc/internal/zzverif/tap"
)

func init() {
	if os.Getenv("SIM_GRPCLOG") != "" { // debugging only
		grpclog.SetLoggerV2(grpclog.NewLoggerV2WithVerbosity(os.Stderr, os.Stderr, os.Stderr, 2))
		return
	}
	grpclog.SetLoggerV2(grpclog.NewLoggerV2(io.Discard, io.Discard, io.Discard))
}

// ---- raw codec ----

type Msg struct{ B []byte }

type rawCodec struct{}

func (rawCodec) Name() string { return "simraw" }
func (rawCodec) Marshal(v any) (mem.BufferSlice, error) {
	m, ok := v.(*Msg)
	if !ok {
		return nil, fmt.Errorf("rawCodec: %T", v)
	}
	return mem.BufferSlice{mem.SliceBuffer(m.B)}, nil
}
func (rawCodec) Unmarshal(data mem.BufferSlice, v any) error {
	m, ok := v.(*Msg)
	if !ok {
		return fmt.Errorf("rawCodec: %T", v)
	}
	m.B = data.Materialize()
	return nil
}

// ---- scenario parts shared by the checks of this world ----

type KV struct {
	K    string `json:"k"`
	V    string `json:"v,omitempty"`
	VHex string `json:"v_hex,omitempty"` // arbitrary bytes
	KHex string `json:"k_hex,omitempty"`
}

func (p KV) val() string {
	if p.VHex != "" {
		b, _ := hex.DecodeString(p.VHex)
		return string(b)
	}
	return p.V
}

func (p KV) key() string {
	if p.KHex != "" {
		b, _ := hex.DecodeString(p.KHex)
		return string(b)
	}
	return p.K
}

// HOp is one step of a handler script.
type HOp struct {
	Op   string `json:"op"` // recv recv_all send sleep sleep_hard park set_header send_header set_trailer wait_ctx return
	N    int    `json:"n,omitempty"`
	Ns   int64  `json:"ns,omitempty"`
	Code int    `json:"code,omitempty"`
	Msg  string `json:"msg,omitempty"`
	MD   []KV   `json:"md,omitempty"`
}

// HScript is the handler script of the request carrying a given tag.
type HScript struct {
	Tag uint32 `json:"tag_id"`
	Ops []HOp  `json:"ops"`
}

// SvcDesc describes a service the harness registers with the real server.
type SvcDesc struct {
	Name    string   `json:"name,omitempty"`
	NameHex string   `json:"name_hex,omitempty"`
	Unary   []string `json:"unary,omitempty"`
	Streams []string `json:"streams,omitempty"`
}

func (s SvcDesc) name() string {
	if s.NameHex != "" {
		b, _ := hex.DecodeString(s.NameHex)
		return string(b)
	}
	return s.Name
}

type ServerCfg struct {
	MaxStreams   uint32    `json:"max_streams,omitempty"`
	StreamWindow int32     `json:"stream_window,omitempty"`
	ConnWindow   int32     `json:"conn_window,omitempty"`
	Static       bool      `json:"static_window,omitempty"`
	WriteBuf     int       `json:"write_buf,omitempty"` // -1: unbuffered, 0: default
	ReadBuf      int       `json:"read_buf,omitempty"`
	NumWorkers   uint32    `json:"num_workers,omitempty"`
	MaxRecv      int       `json:"max_recv,omitempty"`
	KATimeNs     int64     `json:"ka_time_ns,omitempty"`
	KATimeoutNs  int64     `json:"ka_timeout_ns,omitempty"`
	KAEnforce    bool      `json:"ka_enforce,omitempty"`
	KAMinTimeNs  int64     `json:"ka_min_time_ns,omitempty"`
	KAPermit     bool      `json:"ka_permit_without_stream,omitempty"`
	Services     []SvcDesc `json:"services,omitempty"`
	NoUnknown    bool      `json:"no_unknown_handler,omitempty"` // do not install the UnknownServiceHandler
}

// HInv is one handler invocation.
type HInv struct {
	Tag      uint32
	TagStr   string
	HaveTag  bool
	Method   string // full method as the handler sees it
	Kind     string // unknown | stream | unary
	Svc, Mth string // registered identity (Kind != unknown)
	Conn     int
	StartSeq uint64
	StartNs  int64
	EndSeq   uint64
	Returned bool
	Ret      *status.Status
	Parked   bool
	Released bool
	InRecv   bool  // the handler is inside RecvMsg right now
	Recvd    []int // sizes of the messages the handler received
	RecvErr  string
	RecvEOF  bool
	BadRecv  string // first payload mismatch
}

// World is the run state shared by all checks of this world.
type World struct {
	e         *core.Env
	net       *simnet.Net
	led       *tap.Ledger
	srv       *grpc.Server
	cfg       *ServerCfg
	serveDone chan struct{}
	helpers   sync.WaitGroup
	taps      map[int]*tap.ConnTap
	peers     []*Peer
	peerByPair map[int]*Peer
	scripts   map[uint32][]HOp
	defScript []HOp
	Inv       []*HInv
	invByTag  map[uint32][]*HInv
	active    map[int]int
	MaxActive map[int]int
	parkCh    chan struct{}
	unparked  bool
	// hook sees every frame event before the ledger
	hook func(f *tap.Frame)
	// onInvoke is called at the start of every handler invocation
	onInvoke func(h *HInv)
	// ledgerClient: also feed the peer's written frames to the ledger
	// (conforming peers only)
	ledgerOn  bool
	sStarted  map[uint32][]int
	sSubmit   map[uint32][]int
	checkRecv bool
	trace     bool
	stopped   bool
}

func (w *World) Submitted(k tap.StreamKey) []int {
	if k.Dir == 's' {
		return w.sSubmit[k.RPC/100000]
	}
	return nil
}
func (w *World) Started(k tap.StreamKey) []int {
	if k.Dir == 's' {
		return w.sStarted[k.RPC/100000]
	}
	return nil
}

func kvToMD(kv []KV) metadata.MD {
	md := metadata.MD{}
	for _, p := range kv {
		md.Append(p.key(), p.val())
	}
	return md
}

// NewWorld builds the network, the tap and the real server and starts serving.
func NewWorld(e *core.Env, ncfg simnet.Cfg, faults []simnet.Fault, cfg *ServerCfg, scripts []HScript, def []HOp) *World {
	w := &World{e: e, cfg: cfg, taps: map[int]*tap.ConnTap{}, peerByPair: map[int]*Peer{}, scripts: map[uint32][]HOp{}, defScript: def, invByTag: map[uint32][]*HInv{}, active: map[int]int{}, MaxActive: map[int]int{}, parkCh: make(chan struct{}), sStarted: map[uint32][]int{}, sSubmit: map[uint32][]int{}}
	for _, s := range scripts {
		w.scripts[s.Tag] = s.Ops
	}
	w.net = simnet.New(e, ncfg, faults)
	w.led = tap.NewLedger(e, w)
	w.led.CheckMCS = false
	w.led.CheckBytes, w.led.CheckWindows, w.led.CheckStreams = false, false, false
	w.net.OnConn = func(p *simnet.Pair) { w.taps[p.Index] = tap.Attach(e, p, w.sink) }

	sopts := []grpc.ServerOption{grpc.ForceServerCodecV2(rawCodec{})}
	if !cfg.NoUnknown {
		sopts = append(sopts, grpc.UnknownServiceHandler(func(_ any, ss grpc.ServerStream) error {
			return w.streamHandler("unknown", "", "", ss)
		}))
	}
	if cfg.Static {
		if cfg.StreamWindow <= 0 && cfg.ConnWindow <= 0 {
			// default sizes, but without the BDP estimator
			sopts = append(sopts, grpc.StaticStreamWindowSize(65535))
		}
		if cfg.StreamWindow > 0 {
			sopts = append(sopts, grpc.StaticStreamWindowSize(cfg.StreamWindow))
		}
		if cfg.ConnWindow > 0 {
			sopts = append(sopts, grpc.StaticConnWindowSize(cfg.ConnWindow))
		}
	} else {
		if cfg.StreamWindow > 0 {
			sopts = append(sopts, grpc.InitialWindowSize(cfg.StreamWindow))
		}
		if cfg.ConnWindow > 0 {
			sopts = append(sopts, grpc.InitialConnWindowSize(cfg.ConnWindow))
		}
	}
	if cfg.MaxStreams > 0 {
		sopts = append(sopts, grpc.MaxConcurrentStreams(cfg.MaxStreams))
	}
	if cfg.WriteBuf != 0 {
		sopts = append(sopts, grpc.WriteBufferSize(max(cfg.WriteBuf, 0)))
	}
	if cfg.ReadBuf != 0 {
		sopts = append(sopts, grpc.ReadBufferSize(max(cfg.ReadBuf, 0)))
	}
	if cfg.NumWorkers > 0 {
		sopts = append(sopts, grpc.NumStreamWorkers(cfg.NumWorkers))
	}
	if cfg.MaxRecv > 0 {
		sopts = append(sopts, grpc.MaxRecvMsgSize(cfg.MaxRecv))
	}
	if cfg.KATimeNs > 0 {
		sopts = append(sopts, grpc.KeepaliveParams(keepalive.ServerParameters{Time: time.Duration(cfg.KATimeNs), Timeout: time.Duration(cfg.KATimeoutNs)}))
	}
	if cfg.KAEnforce {
		sopts = append(sopts, grpc.KeepaliveEnforcementPolicy(keepalive.EnforcementPolicy{MinTime: time.Duration(cfg.KAMinTimeNs), PermitWithoutStream: cfg.KAPermit}))
	}
	w.srv = grpc.NewServer(sopts...)
	for i := range cfg.Services {
		w.register(cfg.Services[i])
	}
	w.serveDone = make(chan struct{}, 1)
	lis := w.net.Listen("srv0")
	go func() { w.srv.Serve(lis); w.serveDone <- struct{}{} }()
	return w
}

// register builds a real grpc.ServiceDesc for a described service.
func (w *World) register(d SvcDesc) {
	name := d.name()
	sd := &grpc.ServiceDesc{ServiceName: name, HandlerType: (*any)(nil)}
	for _, m := range d.Unary {
		m := m
		sd.Methods = append(sd.Methods, grpc.MethodDesc{MethodName: m, Handler: func(_ any, ctx context.Context, dec func(any) error, _ grpc.UnaryServerInterceptor) (any, error) {
			return w.unaryHandler(name, m, ctx, dec)
		}})
	}
	for _, m := range d.Streams {
		m := m
		sd.Streams = append(sd.Streams, grpc.StreamDesc{StreamName: m, ServerStreams: true, ClientStreams: true, Handler: func(_ any, ss grpc.ServerStream) error {
			return w.streamHandler("stream", name, m, ss)
		}})
	}
	w.srv.RegisterService(sd, struct{}{})
}

func connOf(ctx context.Context) int {
	if p, ok := peer.FromContext(ctx); ok && p.Addr != nil {
		s := p.Addr.String()
		if i := strings.LastIndex(s, ":"); i >= 0 {
			if n, err := strconv.Atoi(s[i+1:]); err == nil {
				return n - 40000
			}
		}
	}
	return -1
}

func (w *World) begin(kind, svc, mth string, ctx context.Context) *HInv {
	e := w.e
	h := &HInv{Kind: kind, Svc: svc, Mth: mth, Conn: connOf(ctx), StartNs: e.SimNs()}
	h.Method, _ = grpc.Method(ctx)
	md, _ := metadata.FromIncomingContext(ctx)
	if v := md.Get("x-sim-rpc"); len(v) >= 1 {
		h.TagStr = v[0]
		if len(v) == 1 {
			h.Tag, h.HaveTag = ParseTag(v[0])
		}
	}
	w.Inv = append(w.Inv, h)
	if h.HaveTag {
		w.invByTag[h.Tag] = append(w.invByTag[h.Tag], h)
	}
	w.active[h.Conn]++
	if w.active[h.Conn] > w.MaxActive[h.Conn] {
		w.MaxActive[h.Conn] = w.active[h.Conn]
	}
	e.Logf("handler start kind=%s svc=%q mth=%q method=%q tag=%q conn=%d active=%d", kind, svc, mth, h.Method, h.TagStr, h.Conn, w.active[h.Conn])
	h.StartSeq = e.Seq
	if w.cfg.MaxStreams > 0 && uint32(w.active[h.Conn]) > w.cfg.MaxStreams {
		e.Violate("max_concurrent_streams_exceeded", "%d handlers run concurrently on conn %d; MaxConcurrentStreams is %d", w.active[h.Conn], h.Conn, w.cfg.MaxStreams)
	}
	if w.onInvoke != nil {
		w.onInvoke(h)
	}
	return h
}

func (w *World) end(h *HInv, s *status.Status) error {
	h.Returned, h.Ret = true, s
	w.active[h.Conn]--
	w.e.Logf("handler return tag=%q conn=%d code=%v", h.TagStr, h.Conn, s.Code())
	h.EndSeq = w.e.Seq
	for _, p := range w.peers {
		if p.Idx == h.Conn {
			// wake harness goroutines waiting for handler progress; this runs on a
			// server goroutine, so no blocking operation: closing a channel is one
			// scheduling point and nothing else
			p.notify()
		}
	}
	return s.Err()
}

func (w *World) unaryHandler(svc, mth string, ctx context.Context, dec func(any) error) (any, error) {
	h := w.begin("unary", svc, mth, ctx)
	m := &Msg{}
	if err := dec(m); err != nil {
		h.RecvErr = err.Error()
		return nil, w.end(h, status.Convert(err))
	}
	h.Recvd = append(h.Recvd, len(m.B))
	b := make([]byte, 3)
	tap.FillPat(b, WireTag(h.Tag), 's', 0)
	w.sStarted[h.Tag] = append(w.sStarted[h.Tag], len(b))
	w.sSubmit[h.Tag] = append(w.sSubmit[h.Tag], len(b))
	w.end(h, status.New(codes.OK, ""))
	return &Msg{B: b}, nil
}

// streamHandler runs the script of the request's tag.
func (w *World) streamHandler(kind, svc, mth string, ss grpc.ServerStream) error {
	e := w.e
	ctx := ss.Context()
	h := w.begin(kind, svc, mth, ctx)
	script, ok := w.scripts[h.Tag]
	if !ok || !h.HaveTag {
		script = w.defScript
	}
	tag := h.Tag
	recvOne := func() error {
		m := &Msg{}
		h.InRecv = true
		err := ss.RecvMsg(m)
		h.InRecv = false
		if err != nil {
			if err != io.EOF {
				h.RecvErr = err.Error()
			} else {
				h.RecvEOF = true
			}
			return err
		}
		idx := len(h.Recvd)
		h.Recvd = append(h.Recvd, len(m.B))
		if w.checkRecv && h.BadRecv == "" {
			if off := tap.CheckPat(m.B, tag, 'c', idx, 0); off >= 0 {
				h.BadRecv = fmt.Sprintf("message %d offset %d", idx, off)
			}
		}
		return nil
	}
	for oi, op := range script {
		switch op.Op {
		case "recv":
			err := recvOne()
			e.Logf("h tag=%d op %d recv -> %v", tag, oi, errStr(err))
			if err != nil && err != io.EOF {
				return w.end(h, status.Convert(err))
			}
		case "recv_all":
			for {
				err := recvOne()
				if err == io.EOF {
					break
				}
				if err != nil {
					e.Logf("h tag=%d op %d recv_all -> %v", tag, oi, errStr(err))
					return w.end(h, status.Convert(err))
				}
				if op.Ns > 0 {
					time.Sleep(time.Duration(op.Ns))
				}
			}
		case "send":
			b := make([]byte, op.N)
			tap.FillPat(b, WireTag(tag), 's', len(w.sStarted[tag]))
			w.sStarted[tag] = append(w.sStarted[tag], op.N)
			err := ss.SendMsg(&Msg{B: b})
			e.Logf("h tag=%d op %d send %d -> %v", tag, oi, op.N, errStr(err))
			if err != nil {
				return w.end(h, status.Convert(err))
			}
			w.sSubmit[tag] = append(w.sSubmit[tag], op.N)
		case "sleep":
			select {
			case <-time.After(time.Duration(op.Ns)):
			case <-ctx.Done():
				return w.end(h, status.FromContextError(ctx.Err()))
			}
		case "sleep_hard":
			time.Sleep(time.Duration(op.Ns))
		case "park":
			h.Parked = true
			e.Logf("h tag=%d parked", tag)
			<-w.parkCh
			h.Released = true
		case "set_header":
			grpc.SetHeader(ctx, kvToMD(op.MD))
		case "send_header":
			grpc.SendHeader(ctx, kvToMD(op.MD))
		case "set_trailer":
			grpc.SetTrailer(ctx, kvToMD(op.MD))
		case "wait_ctx":
			<-ctx.Done()
			return w.end(h, status.FromContextError(ctx.Err()))
		case "return":
			return w.end(h, status.New(codes.Code(op.Code), op.Msg))
		}
	}
	return w.end(h, status.New(codes.OK, ""))
}

func errStr(err error) string {
	if err == nil {
		return "nil"
	}
	if err == io.EOF {
		return "EOF"
	}
	if s, ok := status.FromError(err); ok {
		return s.Code().String()
	}
	return "non-status:" + err.Error()
}

// sink receives every frame event of every connection.
func (w *World) sink(f *tap.Frame) {
	if w.trace {
		w.e.Logf("frame conn=%d %c%c %v stream=%d len=%d flags=%x inc=%d code=%v last=%d", f.Conn, f.From, f.Phase, f.Type, f.StreamID, f.Length, f.Flags, f.Increment, f.ErrCode, f.LastStreamID)
	}
	if f.From == 's' && f.Phase == 'd' {
		if p := w.peerByPair[f.Conn]; p != nil {
			p.onFrame(f)
		}
	}
	if w.hook != nil {
		w.hook(f)
	}
	if w.ledgerOn {
		// the ledger audits the SERVER as a sender; of the peer's own writes it only
		// needs the request HEADERS (stream -> request tag attribution)
		if f.From == 'c' && f.Phase == 'w' && f.Type != http2.FrameHeaders {
			return
		}
		w.led.Sink(f)
	}
}

// Unpark releases every parked handler (after reaching quiescence, so that
// "parked" is a stable fact whenever the oracles look at it).
func (w *World) Unpark() {
	if w.unparked {
		return
	}
	w.Settle()
	w.unparked = true
	close(w.parkCh)
}

// Settle reaches quiescence in the sense of soundness rule S4: every goroutine
// durably blocked and no byte still travelling on the simulated network.
func (w *World) Settle() {
	quiet := 0
	// A round counts as quiet only if nothing is in flight, no event was logged
	// since the previous round (a frame ping-pong at one virtual instant keeps
	// logging) and no goroutine sits in a sleep that the runtime's spin guard
	// injected at a busy instant (rt/mkpatch.py: escalating 1us<<3k sleeps; such
	// a goroutine looks durably blocked to synctest.Wait although it has work).
	step := time.Duration(w.net.Cfg.LatencyNs+w.net.Cfg.DialDelayNs) + 10*time.Microsecond
	if w.net.Cfg.StallPct > 0 {
		step += time.Duration(w.net.Cfg.StallNs)
	}
	last := uint64(0)
	for i := 0; i < 20000; i++ {
		synctest.Wait()
		d := w.net.InFlightDelay()
		sp := spinSleeping()
		if d <= 0 && w.e.Seq == last && sp == 0 {
			quiet++
			if quiet >= 4 {
				// runtime.Stack stops the world and may leave a preemption request on
				// this goroutine: absorb it here, then make sure nothing has moved
				time.Sleep(time.Nanosecond)
				synctest.Wait()
				if w.e.Seq == last && w.net.InFlightDelay() <= 0 {
					return
				}
				quiet = 0
			}
		} else {
			quiet = 0
		}
		last = w.e.Seq
		time.Sleep(d + step + sp)
	}
	synctest.Wait()
	w.e.Probe("settle_gave_up")
}

var stackBuf = make([]byte, 1<<20)

// spinSleeping returns the longest remaining-style duration of a spin-guard
// sleep some bubble goroutine is in (0: none). In a traceback such a sleep is
// time.Sleep(d) with d = 1000<<(3*level) ns; a scripted sleep of exactly such a
// duration is mistaken for one, which only postpones the quiescent point.
func spinSleeping() time.Duration {
	n := runtime.Stack(stackBuf, true)
	b := stackBuf[:n]
	var longest time.Duration
	for len(b) > 0 {
		i := bytes.Index(b, []byte("\n\n"))
		g := b
		if i >= 0 {
			g, b = b[:i], b[i+2:]
		} else {
			b = nil
		}
		nl := bytes.IndexByte(g, '\n')
		if nl < 0 {
			continue
		}
		hdr, rest := g[:nl], g[nl+1:]
		if !bytes.Contains(hdr, []byte("[sleep")) || !bytes.Contains(hdr, []byte("synctest bubble")) || !bytes.HasPrefix(rest, []byte("time.Sleep(0x")) {
			continue
		}
		var v int64
		for _, c := range rest[len("time.Sleep(0x"):] {
			if c >= '0' && c <= '9' {
				v = v<<4 | int64(c-'0')
			} else if c >= 'a' && c <= 'f' {
				v = v<<4 | int64(c-'a'+10)
			} else {
				break
			}
		}
		for lv := 0; lv <= 8; lv++ {
			if v == 1000<<(3*lv) && time.Duration(v) > longest {
				longest = time.Duration(v)
			}
		}
	}
	return longest
}

// Teardown closes the peers and the server and waits for every goroutine.
func (w *World) Teardown() {
	if !w.unparked {
		w.unparked = true
		close(w.parkCh)
	}
	for _, p := range w.peers {
		p.Close()
	}
	if !w.stopped {
		w.stopped = true
		w.srv.Stop()
	}
	<-w.serveDone
	w.net.Shutdown()
	w.helpers.Wait()
	// timer-driven stragglers (loopy's 1 s close grace, handler sleeps, ...)
	time.Sleep(time.Hour)
	synctest.Wait()
	w.e.Notes["ledger"] = w.led.Summary()
}

func sortedU32(m map[uint32]*PStream) []uint32 {
	ids := make([]uint32, 0, len(m))
	for k := range m {
		ids = append(ids, k)
	}
	sort.Slice(ids, func(i, j int) bool { return ids[i] < ids[j] })
	return ids
}

var _ = http2.FrameData
