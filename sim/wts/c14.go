package wts

import (
	"fmt"
	"strconv"
	"time"

	"golang.org/x/net/http2"

	"google.golang.org/grpc/internal/zzverif/core"
	"google.golang.org/grpc/internal/zzverif/simnet"
	"google.golang.org/grpc/internal/zzverif/tap"
)

// C14wts: server half of C14. Server.GracefulStop at an arbitrary point against
// a conforming peer that keeps opening streams.

type c14Stream struct {
	Conn    int   `json:"conn"`
	StartNs int64 `json:"start_ns"`
	Msgs    []int `json:"msgs"`   // request message sizes
	GapNs   int64 `json:"gap_ns"` // pause before each request message
	// handler: receive everything, sleep, send, return
	HSleepNs int64 `json:"h_sleep_ns,omitempty"`
	HSend    []int `json:"h_send,omitempty"`
	HCode    int   `json:"h_code,omitempty"`
	HEarly   bool  `json:"h_early,omitempty"` // handler does not read the request
	// AtPingAck: open the stream StartNs after the peer acknowledged the PING
	// that follows the first GOAWAY, so that its HEADERS race with the final GOAWAY
	AtPingAck bool `json:"at_ping_ack,omitempty"`
	// EndOnHeaders is never generated: the request ends with END_STREAM on the
	// HEADERS frame instead of on a DATA frame (legal HTTP/2, unusual gRPC); kept
	// for a demonstration replay
	EndOnHeaders bool `json:"end_on_headers,omitempty"`
}

type c14Conn struct {
	PingAckDelayNs int64 `json:"ping_ack_delay_ns,omitempty"`
	NoPingAck      bool  `json:"no_ping_ack,omitempty"`
	DialNs         int64 `json:"dial_ns,omitempty"`
	// CutAtAck: the peer acknowledges the PING that follows the first GOAWAY and
	// closes its end of the connection CutDelayNs later, so that the server's
	// reader meets the end of the connection while loopy is handling the final
	// GOAWAY that the acknowledgement released (seeded change C12b). The
	// per-connection drain oracles do not apply to such a connection; the
	// process-level ones (no panic, GracefulStop returns, ledger) do.
	CutAtAck   bool  `json:"cut_at_ack,omitempty"`
	CutDelayNs int64 `json:"cut_delay_ns,omitempty"`
}

type c14Scenario struct {
	Sched    core.Sched  `json:"sched"`
	Net      simnet.Cfg  `json:"net"`
	Server   ServerCfg   `json:"server"`
	Conns    []c14Conn   `json:"conns"`
	Streams  []c14Stream `json:"streams"`
	StopAtNs int64       `json:"stop_at_ns"`
	Trace    bool        `json:"trace,omitempty"`
}

func (s *c14Scenario) SchedP() *core.Sched { return &s.Sched }
func (s *c14Scenario) Shape() string {
	before := 0
	for _, st := range s.Streams {
		if st.StartNs < s.StopAtNs {
			before++
		}
	}
	return fmt.Sprintf("conns=%d streams=%d before_stop=%d lat=%d", len(s.Conns), len(s.Streams), before, s.Net.LatencyNs)
}
func (s *c14Scenario) Validate() error {
	if len(s.Conns) == 0 {
		return fmt.Errorf("no connection")
	}
	for _, st := range s.Streams {
		if st.Conn < 0 || st.Conn >= len(s.Conns) {
			return fmt.Errorf("bad conn")
		}
	}
	return nil
}

func genC14(seed uint64, tier string) *c14Scenario {
	r := core.NewRand(seed)
	s := &c14Scenario{Sched: genSched(r, seed), Net: genNet(r, seed, false)}
	if r.Chance(1, 3) {
		s.Net.LatencyNs = int64(core.Pick(r, 1000, 100000, 3000000, 40000000))
		if s.Net.SegMax == 0 {
			s.Net.SegMax = 50000
		}
	}
	if r.Chance(1, 4) {
		s.Server.NumWorkers = uint32(r.Range(1, 3))
	}
	if r.Chance(1, 4) {
		s.Server.WriteBuf = core.Pick(r, -1, 200, 4096)
	}
	nconn := r.Range(1, 3)
	for c := 0; c < nconn; c++ {
		cc := c14Conn{}
		switch r.Intn(5) {
		case 0:
			cc.PingAckDelayNs = int64(core.Pick(r, 1000, 1000000, 200000000, 3000000000))
		case 1:
			cc.NoPingAck = true
		}
		if c > 0 && r.Chance(1, 3) {
			cc.DialNs = int64(r.Intn(50)) * 1000000
		}
		if !cc.NoPingAck && r.Chance(1, 4) {
			cc.CutAtAck = true
			cc.CutDelayNs = int64(core.Pick(r, 0, 0, 0, 1, 1000, 1000000))
		}
		s.Conns = append(s.Conns, cc)
	}
	scale := int64(core.Pick(r, 1000, 100000, 1000000, 10000000)) // time unit
	n := r.Range(3, 14)
	if tier == "thorough" {
		n = r.Range(3, 30)
	}
	span := int64(n) * scale
	s.StopAtNs = int64(r.Intn(int(span/1000)+1)) * 1000
	if r.Chance(1, 10) {
		s.StopAtNs = 0
	}
	if r.Chance(1, 10) {
		s.StopAtNs = span * 3
	}
	for i := 0; i < n; i++ {
		st := c14Stream{Conn: r.Intn(nconn), StartNs: int64(r.Intn(int(span/100)+1)) * 100}
		if r.Chance(1, 3) {
			// cluster around the stop so that HEADERS race with the GOAWAYs
			st.StartNs = s.StopAtNs + int64(r.Range(-3, 12))*int64(core.Pick(r, 1, 100, 10000, 1000000))
			if st.StartNs < 0 {
				st.StartNs = 0
			}
		}
		if r.Chance(1, 4) {
			st.AtPingAck = true
			st.StartNs = int64(core.Pick(r, 0, 0, 0, 1, 100, 10000))
		}
		for k := r.Range(0, 3); k > 0; k-- {
			st.Msgs = append(st.Msgs, core.Pick(r, 0, 1, 10, 300, 5000))
		}
		if r.Chance(1, 2) {
			st.GapNs = int64(r.Intn(4)) * scale / 2
		}
		if r.Chance(2, 3) {
			st.HSleepNs = int64(r.Intn(6)) * scale
		}
		for k := r.Range(0, 2); k > 0; k-- {
			st.HSend = append(st.HSend, core.Pick(r, 0, 5, 100, 4000, 20000))
		}
		st.HCode = core.Pick(r, 0, 0, 0, 3, 13)
		st.HEarly = r.Chance(1, 6)
		s.Streams = append(s.Streams, st)
	}
	return s
}

type c14Rec struct {
	spec    *c14Stream
	tag     uint32
	conn    int // peer number
	id      uint32
	sent    bool
	aborted bool
}

func runC14(e *core.Env, s *c14Scenario) {
	var scripts []HScript
	for i := range s.Streams {
		st := &s.Streams[i]
		var ops []HOp
		if !st.HEarly {
			ops = append(ops, HOp{Op: "recv_all"})
		}
		if st.HSleepNs > 0 {
			ops = append(ops, HOp{Op: "sleep_hard", Ns: st.HSleepNs})
		}
		for _, n := range st.HSend {
			ops = append(ops, HOp{Op: "send", N: n})
		}
		ops = append(ops, HOp{Op: "return", Code: st.HCode})
		scripts = append(scripts, HScript{Tag: uint32(i + 1), Ops: ops})
	}
	w := NewWorld(e, s.Net, nil, &s.Server, scripts, []HOp{{Op: "return"}})
	w.trace = s.Trace
	w.checkRecv = true
	w.ledgerOn = true
	w.led.CheckBytes, w.led.CheckStreams, w.led.CheckWindows = true, true, true
	// GOAWAY / PING frames as the server writes them
	type gaw struct {
		last uint32
		code http2.ErrCode
		seq  uint64
	}
	goaways := map[int][]gaw{}
	pingAfterFirst := map[int]bool{}
	// request HEADERS delivered to the server after it had written its first GOAWAY
	duringDrain := map[int]map[uint32]bool{}
	w.hook = func(f *tap.Frame) {
		if f.From == 'c' && f.Phase == 'd' && f.Type == http2.FrameHeaders && len(goaways[f.Conn]) > 0 {
			if duringDrain[f.Conn] == nil {
				duringDrain[f.Conn] = map[uint32]bool{}
			}
			duringDrain[f.Conn][f.StreamID] = true
		}
		if f.From != 's' || f.Phase != 'w' {
			return
		}
		switch f.Type {
		case http2.FrameGoAway:
			goaways[f.Conn] = append(goaways[f.Conn], gaw{f.LastStreamID, f.ErrCode, f.Seq})
		case http2.FramePing:
			if !f.Ack() && len(goaways[f.Conn]) == 1 {
				pingAfterFirst[f.Conn] = true
			}
		}
	}
	peers := make([]*Peer, len(s.Conns))
	recs := make([]*c14Rec, len(s.Streams))
	var hw = &w.helpers
	dial := func(c int) {
		cc := s.Conns[c]
		if cc.DialNs > 0 {
			time.Sleep(time.Duration(cc.DialNs))
		}
		p := w.Dial()
		if p == nil {
			e.Probe("dial_refused_after_stop")
			return
		}
		p.AutoGrant = true
		p.AutoAckPing = !cc.NoPingAck
		p.PingAckDelayNs = cc.PingAckDelayNs
		p.Preface()
		peers[c] = p
	}
	for c := range s.Conns {
		if s.Conns[c].DialNs == 0 {
			dial(c)
		} else {
			hw.Add(1)
			go func() { defer hw.Done(); dial(c) }()
		}
	}
	cut := make([]bool, len(s.Conns))
	for c := range s.Conns {
		cc := s.Conns[c]
		if !cc.CutAtAck {
			continue
		}
		hw.Add(1)
		go func() {
			defer hw.Done()
			time.Sleep(time.Duration(cc.DialNs))
			p := peers[c]
			if p == nil {
				return
			}
			p.WaitFor(-1, func() bool { return p.DrainAcked || p.Closed || p.dead })
			if !p.DrainAcked || p.Closed || p.dead {
				return
			}
			p.Flush()
			if cc.CutDelayNs > 0 {
				time.Sleep(time.Duration(cc.CutDelayNs))
			}
			if p.Closed || p.dead {
				return
			}
			cut[c] = true
			e.Probe("conn_cut_at_drain_ack")
			p.Close()
		}()
	}
	for i := range s.Streams {
		rec := &c14Rec{spec: &s.Streams[i], tag: uint32(i + 1)}
		recs[i] = rec
		hw.Add(1)
		go func() {
			defer hw.Done()
			sp := rec.spec
			if sp.AtPingAck {
				time.Sleep(time.Duration(s.Conns[sp.Conn].DialNs))
				if p := peers[sp.Conn]; p != nil {
					p.WaitFor(-1, func() bool { return p.DrainAcked || p.Closed || p.dead })
				}
			}
			time.Sleep(time.Duration(sp.StartNs))
			p := peers[sp.Conn]
			if p == nil || p.Closed || p.dead || p.FinalGoAway() != nil {
				e.Probe("stream_not_opened_after_final_goaway")
				return
			}
			if len(p.GoAways) > 0 {
				e.Probe("stream_opened_between_goaways")
			}
			if sp.AtPingAck {
				e.Probe("stream_opened_at_ping_ack")
			}
			id := p.NextID
			p.NextID += 2
			rec.id, rec.sent, rec.conn = id, true, p.N
			abort := func() bool {
				if p.Closed || p.dead {
					return true
				}
				if g := p.FinalGoAway(); g != nil && id > g.Last {
					return true
				}
				return false
			}
			// like every gRPC client, end the request with END_STREAM on a DATA frame
			// (grpc-go never delivers io.EOF to a handler for END_STREAM on HEADERS)
			if sp.EndOnHeaders {
				p.Headers(id, ReqFields("/sim.Svc/M", rec.tag), true)
				p.WaitFor(-1, func() bool { st := p.S[id]; return st.Ended || st.Rst || abort() })
				return
			}
			p.Headers(id, ReqFields("/sim.Svc/M", rec.tag), false)
			if len(sp.Msgs) == 0 {
				p.SendData(id, nil, true, 0, abort)
			}
			for k, n := range sp.Msgs {
				if sp.GapNs > 0 {
					time.Sleep(time.Duration(sp.GapNs))
				}
				if !p.SendData(id, GrpcMsg(rec.tag, k, n), k == len(sp.Msgs)-1, 0, abort) {
					rec.aborted = true
					return
				}
			}
			p.WaitFor(-1, func() bool { st := p.S[id]; return st.Ended || st.Rst || abort() })
		}()
	}
	time.Sleep(time.Duration(s.StopAtNs))
	stopReturned := false
	hw.Add(1)
	go func() {
		defer hw.Done()
		e.Logf("GracefulStop called")
		w.stopped = true
		w.srv.GracefulStop()
		stopReturned = true
		e.Logf("GracefulStop returned")
	}()
	// every handler sleeps a bounded time; the peer acks or the server's own
	// timer ends the wait for the ping ack
	time.Sleep(30 * time.Second)
	w.Settle()

	// ---- oracles ----
	if !stopReturned {
		e.Violate("graceful_stop_hangs", "GracefulStop has not returned at quiescence although every stream could finish")
	}
	running := 0
	for _, h := range w.Inv {
		if !h.Returned {
			running++
		}
	}
	if running > 0 && stopReturned {
		e.Violate("graceful_stop_returned_early", "GracefulStop returned while %d handlers were still running", running)
	}
	for c, p := range peers {
		if p == nil {
			continue
		}
		if cut[c] {
			// the peer left in the middle of the drain: nothing is owed to it
			continue
		}
		gs := goaways[p.Idx]
		if len(gs) == 0 {
			// legitimate only when the connection never got as far as accepting a
			// stream (GracefulStop raced with the handshake)
			n := 0
			for _, h := range w.Inv {
				if h.Conn == p.Idx {
					n++
				}
			}
			if n > 0 {
				e.Violate("no_goaway", "conn %d: %d handlers ran but the server wrote no GOAWAY when it drained the connection", c, n)
			} else {
				e.Probe("conn_never_served")
			}
			continue
		}
		for i := 1; i < len(gs); i++ {
			if gs[i].last > gs[i-1].last {
				e.Violate("goaway_id_increased", "conn %d: GOAWAY last-stream-id went from %d to %d (RFC 9113 6.8)", c, gs[i-1].last, gs[i].last)
			}
		}
		if len(gs) >= 2 {
			e.Probe("two_goaways")
			if gs[0].last == 1<<31-1 {
				e.Probe("first_goaway_maxint")
			}
			if pingAfterFirst[p.Idx] {
				e.Probe("ping_after_first_goaway")
			}
		}
		final := gs[len(gs)-1]
		if final.code != http2.ErrCodeNo {
			e.Violate("goaway_code", "conn %d: graceful drain ended with GOAWAY code %v", c, final.code)
		}
		// highest id for which a handler ran
		var accepted uint32
		ran := map[uint32]int{}
		for _, rec := range recs {
			if !rec.sent || rec.spec.Conn != c {
				continue
			}
			n := len(w.invByTag[rec.tag])
			ran[rec.id] = n
			if n > 0 && rec.id > accepted {
				accepted = rec.id
			}
		}
		if final.last != accepted {
			e.Violate("final_goaway_id", "conn %d: final GOAWAY last-stream-id is %d but the highest stream id the server accepted (a handler ran for it) is %d", c, final.last, accepted)
		}
		for _, rec := range recs {
			if !rec.sent || rec.spec.Conn != c {
				continue
			}
			n := ran[rec.id]
			st := p.S[rec.id]
			if n > 1 {
				e.Violate("handler_ran_twice", "conn %d stream %d: %d handler invocations", c, rec.id, n)
			}
			if rec.id > final.last {
				e.Probe("stream_above_final_goaway")
				if n > 0 {
					e.Violate("handler_above_goaway", "conn %d: a handler ran for stream %d, above the final GOAWAY last-stream-id %d", c, rec.id, final.last)
				}
				continue
			}
			// stream <= final id: served to completion, status reaches the peer
			if n == 0 {
				e.Violate("accepted_stream_not_served", "conn %d: stream %d <= final GOAWAY id %d but no handler ran for it", c, rec.id, final.last)
				continue
			}
			h := w.invByTag[rec.tag][0]
			if !h.Returned {
				e.Violate("accepted_stream_not_served", "conn %d: handler of stream %d (<= final GOAWAY id %d) has not finished at quiescence", c, rec.id, final.last)
				continue
			}
			want := strconv.Itoa(int(h.Ret.Code()))
			if st == nil || !st.Ended || !st.HaveStatus || st.Status != want {
				name := "accepted_stream_status_lost"
				if duringDrain[p.Idx][rec.id] {
					// the stream was accepted between the first and the final GOAWAY
					name = "drain_lost_stream_accepted_after_first_goaway"
				}
				e.Violate(name, "conn %d: stream %d (<= final GOAWAY id %d): handler returned %s but the peer saw %s (request aborted=%v)", c, rec.id, final.last, want, dumpStream(st), rec.aborted)
				continue
			}
			if !rec.spec.HEarly && h.RecvErr == "" && len(h.Recvd) != len(rec.spec.Msgs) {
				e.Violate("accepted_stream_request_lost", "conn %d stream %d: handler received %d of %d request messages", c, rec.id, len(h.Recvd), len(rec.spec.Msgs))
			}
			if h.BadRecv != "" {
				e.Violate("request_payload_mismatch", "conn %d stream %d: %s", c, rec.id, h.BadRecv)
			}
			if st.Msgs != len(rec.spec.HSend) {
				e.Violate("accepted_stream_response_lost", "conn %d stream %d: peer received %d of %d response messages before the status", c, rec.id, st.Msgs, len(rec.spec.HSend))
			}
			e.Probe("stream_served_to_completion")
			if h.StartNs >= s.StopAtNs {
				e.Probe("stream_accepted_after_stop_call")
			}
		}
		if p.Closed {
			e.Probe("conn_closed_after_drain")
		}
	}
	w.Teardown()
}

func init() { core.Register("C14wts", genC14, runC14) }
