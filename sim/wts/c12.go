package wts

import (
	"encoding/hex"
	"fmt"

	"google.golang.org/grpc/internal/zzverif/core"
	"google.golang.org/grpc/internal/zzverif/simnet"
)

// C12: a misbehaving client cannot crash the server or reach a handler
// illegally.

type c12Scenario struct {
	Sched   core.Sched `json:"sched"`
	Net     simnet.Cfg `json:"net"`
	Server  ServerCfg  `json:"server"`
	Scripts []HScript  `json:"scripts"`
	Def     []HOp      `json:"def_script,omitempty"`
	Ops     []POp      `json:"ops"`
	Trace   bool       `json:"trace,omitempty"`
}

func (s *c12Scenario) SchedP() *core.Sched { return &s.Sched }

func (s *c12Scenario) Shape() string {
	kinds := map[string]int{}
	muts := 0
	for _, o := range s.Ops {
		kinds[o.Op]++
		if len(o.Mut) > 0 || o.Trunc > 0 {
			muts++
		}
	}
	return fmt.Sprintf("ops=%d dial=%d hdr=%d data=%d mut=%d mcs=%d", len(s.Ops), kinds["dial"], kinds["headers"], kinds["data"], muts, s.Server.MaxStreams)
}

func (s *c12Scenario) Validate() error {
	n := 0
	for _, o := range s.Ops {
		if o.Op == "dial" {
			n++
		}
	}
	if n == 0 {
		return fmt.Errorf("no connection")
	}
	return nil
}

func genSched(r *core.Rand, seed uint64) core.Sched {
	return core.Sched{SchedSeed: core.Mix(seed, 11), AuxSeed: core.Mix(seed, 12), YieldThr: core.Pick(r, uint32(0), 60, 200, 700, 2000, 6500)}
}

func genNet(r *core.Rand, seed uint64, hostile bool) simnet.Cfg {
	c := simnet.Cfg{Seed: core.Mix(seed, 21)}
	switch r.Intn(4) {
	case 0:
	case 1:
		c.SegMax = core.Pick(r, 1, 7, 100, 1000, 16384)
		if hostile && c.SegMax == 1 {
			c.SegMax = 3
		}
	case 2:
		c.SegMax = core.Pick(r, 9, 500, 5000, 40000)
		c.LatencyNs = int64(core.Pick(r, 0, 1000, 100000, 2000000))
	default:
		c.SegMax = core.Pick(r, 0, 13, 300, 20000)
		c.LatencyNs = int64(core.Pick(r, 0, 50000, 1000000))
		c.ReadMax = core.Pick(r, 0, 5, 64, 5000)
	}
	return c
}

// netBudget bounds the payload bytes of a scenario so that tiny segments or
// tiny reads (every one of them is a simulator event) do not make a run slow.
func netBudget(c simnet.Cfg, want int) int {
	per := 3000
	if c.SegMax > 0 && c.SegMax*per < want {
		want = c.SegMax * per
	}
	if c.ReadMax > 0 && c.ReadMax*per < want {
		want = c.ReadMax * per
	}
	return want
}

// c12gen carries the generator state of one connection.
type c12gen struct {
	r      *core.Rand
	s      *c12Scenario
	tag    uint32
	conn   int
	nextID uint32
	opened []uint32
}

func (g *c12gen) newTag(script []HOp) uint32 {
	g.tag++
	g.s.Scripts = append(g.s.Scripts, HScript{Tag: g.tag, Ops: script})
	return g.tag
}

func (g *c12gen) add(o POp) {
	o.Conn = g.conn
	g.s.Ops = append(g.s.Ops, o)
}

func (g *c12gen) id() uint32 {
	id := g.nextID
	g.nextID += 2
	if g.r.Chance(1, 10) {
		g.nextID += uint32(2 * g.r.Intn(5))
	}
	g.opened = append(g.opened, id)
	return id
}

var goodBin = []string{"AAEC", "AAE", "AAE=", "", "3q2+7w==", "3q2+7w"}
var badBin = []string{"!!!!", "a", "ab*d", "AAEC!", "====x", "abcde"}
var badTimeouts = []string{"", "S", "1", "abc", "123456789S", "1x", "-1S", "1.5S", " 1S", "1S ", "12 S", "0x1S", "1s", "٣S"}
var goodTimeouts = []string{"1H", "10M", "100S", "5000m", "99999999u", "12345678n", "1S"}
var badCT = []string{"text/html", "application/grpcx", "application/json", "", "application/grp", "grpc", "application/grpc-web"}
var goodCT = []string{"application/grpc", "application/grpc+proto", "application/grpc+simraw", "application/grpc;charset=x", "application/grpc+json"}
var edgeCT = []string{"application/grpc+", "application/grpc;", "Application/Grpc", "APPLICATION/GRPC+proto"}
var badMethods = []string{"GET", "PUT", "post", "", "POST ", "OPTIONS", "CONNECT"}

// request builds a request header list with 0..2 defects from the grammar.
func (g *c12gen) request(path string, defects int) []KV {
	r := g.r
	method, ct := "POST", core.Pick(r, goodCT...)
	f := map[string][]KV{}
	order := []string{":method", ":scheme", ":path", ":authority", "content-type", "te"}
	f[":method"] = []KV{{K: ":method", V: method}}
	f[":scheme"] = []KV{{K: ":scheme", V: "http"}}
	f[":path"] = []KV{{K: ":path", V: path}}
	f[":authority"] = []KV{{K: ":authority", V: "srv0"}}
	f["content-type"] = []KV{{K: "content-type", V: ct}}
	f["te"] = []KV{{K: "te", V: "trailers"}}
	var extra []KV
	if r.Chance(1, 3) {
		extra = append(extra, KV{K: "x-user", V: "v"})
	}
	if r.Chance(1, 4) {
		extra = append(extra, KV{K: "x-ok-bin", V: core.Pick(r, goodBin...)})
	}
	if r.Chance(1, 8) {
		extra = append(extra, KV{K: "grpc-timeout", V: core.Pick(r, goodTimeouts...)})
	}
	shuffle := false
	for d := 0; d < defects; d++ {
		switch r.Intn(16) {
		case 0:
			f[":method"] = []KV{{K: ":method", V: core.Pick(r, badMethods...)}}
		case 1:
			delete(f, ":method")
		case 2:
			f["content-type"] = []KV{{K: "content-type", V: core.Pick(r, badCT...)}}
		case 3:
			delete(f, "content-type")
		case 4:
			extra = append(extra, KV{K: "grpc-timeout", V: core.Pick(r, badTimeouts...)})
		case 5:
			f[":authority"] = append(f[":authority"], KV{K: ":authority", V: core.Pick(r, "srv0", "other", "")})
		case 6:
			extra = append(extra, KV{K: core.Pick(r, "x-bad-bin", "grpc-trace-bin", "a-bin"), V: core.Pick(r, badBin...)})
		case 7:
			delete(f, ":path")
		case 8:
			f["content-type"] = []KV{{K: "content-type", V: core.Pick(r, edgeCT...)}}
		case 9:
			extra = append(extra, KV{K: "connection", V: "keep-alive"})
		case 10:
			extra = append(extra, KV{K: "host", V: "h1"})
			if r.Chance(1, 2) {
				extra = append(extra, KV{K: "host", V: "h2"})
			}
		case 11:
			extra = append(extra, KV{K: core.Pick(r, "X-Upper", ":foo", "bad name", ""), V: "v"})
		case 12:
			shuffle = true
		case 13:
			f["content-type"] = append(f["content-type"], KV{K: "content-type", V: core.Pick(r, append(badCT, goodCT...)...)})
		case 14:
			extra = append(extra, KV{K: "x-ctl", VHex: hex.EncodeToString([]byte{'a', byte(r.Intn(32)), 'b'})})
		case 15:
			extra = append(extra, KV{K: "grpc-timeout", V: core.Pick(r, "0S", "1n", "0n")})
		}
	}
	var out []KV
	for _, k := range order {
		out = append(out, f[k]...)
	}
	out = append(out, extra...)
	if shuffle {
		for i := len(out) - 1; i > 0; i-- {
			j := r.Intn(i + 1)
			out[i], out[j] = out[j], out[i]
		}
	}
	return out
}

func (g *c12gen) script() []HOp {
	r := g.r
	switch r.Intn(8) {
	case 0:
		return []HOp{{Op: "recv_all"}, {Op: "send", N: r.LogUniform(1, 40000)}, {Op: "return", Code: r.Intn(17)}}
	case 1:
		return []HOp{{Op: "send", N: r.LogUniform(1, 60000)}, {Op: "return"}}
	case 2:
		return []HOp{{Op: "sleep_hard", Ns: int64(core.Pick(r, 1000, 1000000, 50000000))}, {Op: "return", Code: r.Intn(17)}}
	case 3:
		return []HOp{{Op: "wait_ctx"}}
	case 4:
		return []HOp{{Op: "recv"}, {Op: "send", N: r.Intn(100)}, {Op: "recv"}, {Op: "return"}}
	case 5:
		return []HOp{{Op: "send_header"}, {Op: "sleep", Ns: int64(core.Pick(r, 1000, 2000000))}, {Op: "return", Code: 5}}
	case 6:
		return []HOp{{Op: "return", Code: r.Intn(17)}}
	default:
		return []HOp{{Op: "recv_all"}, {Op: "return"}}
	}
}

func (g *c12gen) mutMaybe(o *POp, pct int) {
	if g.r.Intn(100) < pct {
		for k := g.r.Range(1, 3); k > 0; k-- {
			o.Mut = append(o.Mut, Mut{Off: g.r.Intn(4096), Xor: uint8(1 << g.r.Intn(8))})
		}
	}
}

// segReqs: a burst of requests with defects and follow-up frames.
func (g *c12gen) segReqs(n int) {
	r := g.r
	for i := 0; i < n; i++ {
		defects := core.Pick(r, 0, 0, 1, 1, 1, 2)
		tag := g.newTag(g.script())
		id := g.id()
		// stream id defects (kill the connection, so they are rare)
		if r.Chance(1, 25) {
			switch r.Intn(4) {
			case 0:
				id++ // even
			case 1:
				if len(g.opened) > 1 {
					id = g.opened[r.Intn(len(g.opened)-1)] // reused
				}
			case 2:
				if id > 4 {
					id -= 4 // decreasing (maybe unused)
				}
			default:
				id = 0
			}
		}
		o := POp{Op: "headers", Stream: id, Tag: tag, Fields: g.request(core.Pick(r, "/sim.Svc/M", "/a/b", "/x.Y/Z"), defects), EndStream: r.Chance(1, 4)}
		if r.Chance(1, 6) {
			for k := r.Range(1, 3); k > 0; k-- {
				o.Frags = append(o.Frags, r.Range(0, 30))
			}
		}
		if r.Chance(1, 10) {
			o.Pad = r.Range(1, 40)
		}
		if r.Chance(1, 40) {
			o.NoEndHeaders = true
		}
		g.mutMaybe(&o, 4)
		g.add(o)
		// follow-ups
		for k := r.Intn(3); k > 0; k-- {
			g.follow(id, tag)
		}
		if r.Chance(1, 5) {
			g.add(POp{Op: "sleep", Ns: int64(core.Pick(r, 1, 1000, 1000000, 100000000))})
		}
	}
}

func (g *c12gen) anyStream() uint32 {
	r := g.r
	switch {
	case len(g.opened) > 0 && r.Chance(3, 4):
		return g.opened[r.Intn(len(g.opened))]
	case r.Chance(1, 2):
		return g.nextID + uint32(2*r.Intn(4)) // idle
	default:
		return uint32(r.Intn(12))
	}
}

// follow: one frame referring to a stream.
func (g *c12gen) follow(id, tag uint32) {
	r := g.r
	var o POp
	switch r.Intn(12) {
	case 0, 1, 2:
		o = POp{Op: "data", Stream: id, Tag: tag, N: r.LogUniform(1, 3000), Msg: true, EndStream: r.Chance(2, 3)}
	case 3:
		o = POp{Op: "data", Stream: id, Tag: tag, N: r.Intn(50), EndStream: r.Chance(1, 2), Pad: r.Intn(20)}
	case 4:
		o = POp{Op: "data", Stream: id, N: 0, EndStream: true} // END_STREAM, possibly repeated
	case 5:
		o = POp{Op: "rst", Stream: id, Code: uint32(r.Intn(14))}
	case 6:
		o = POp{Op: "window_update", Stream: id, N: core.Pick(r, 0, 1, 65535, 1<<31-1)}
	case 7:
		o = POp{Op: "window_update", Stream: 0, N: core.Pick(r, 1, 1000, 1<<31-1)}
	case 8:
		o = POp{Op: "data", Stream: g.anyStream(), N: r.Intn(200), EndStream: r.Chance(1, 2)}
	case 9:
		o = POp{Op: "frame", Type: uint8(core.Pick(r, 2, 2, 5, 10, 0x42)), Stream: id, Hex: hex.EncodeToString(make([]byte, core.Pick(r, 0, 4, 5, 8)))}
	case 10:
		o = POp{Op: "ping", Hex: "0102030405060708", Ack: r.Chance(1, 3)}
	default:
		o = POp{Op: "settings", Settings: [][2]uint32{{uint32(r.Range(1, 7)), uint32(core.Pick(r, 0, 1, 100, 16384, 65535, 1<<24, 1<<31-1))}}}
	}
	g.mutMaybe(&o, 3)
	g.add(o)
}

// segMCS: fill the connection with parked streams, then send excess streams.
func (g *c12gen) segMCS() {
	r := g.r
	n := int(g.s.Server.MaxStreams)
	for i := 0; i < n; i++ {
		tag := g.newTag([]HOp{{Op: "park"}})
		g.add(POp{Op: "headers", Stream: g.id(), Tag: tag, Fields: g.request("/sim.Svc/Park", 0), EndStream: r.Chance(1, 3)})
	}
	g.add(POp{Op: "settle"})
	for k := r.Range(1, 3); k > 0; k-- {
		tag := g.newTag(g.script())
		defects := core.Pick(r, 0, 0, 0, 1)
		g.add(POp{Op: "headers", Stream: g.id(), Tag: tag, Fields: g.request("/sim.Svc/Excess", defects), EndStream: r.Chance(1, 2)})
	}
	g.add(POp{Op: "settle"})
	if r.Chance(1, 2) {
		g.add(POp{Op: "unpark"})
	}
}

// segRapidReset: open and reset more streams than MaxConcurrentStreams whose
// handlers ignore cancellation.
func (g *c12gen) segRapidReset() {
	r := g.r
	n := int(g.s.Server.MaxStreams) + r.Range(1, 4)
	for i := 0; i < n; i++ {
		var sc []HOp
		if r.Chance(1, 2) {
			sc = []HOp{{Op: "park"}}
		} else {
			sc = []HOp{{Op: "sleep_hard", Ns: int64(core.Pick(r, 1000000, 50000000, 1000000000))}}
		}
		tag := g.newTag(sc)
		id := g.id()
		g.add(POp{Op: "headers", Stream: id, Tag: tag, Fields: g.request("/sim.Svc/RR", 0)})
		g.add(POp{Op: "rst", Stream: id, Code: 8})
		if r.Chance(1, 4) {
			g.add(POp{Op: "sleep", Ns: int64(core.Pick(r, 1, 1000, 100000))})
		}
	}
	g.add(POp{Op: "settle"})
}

// segConnAbuse: connection-level misbehaviour; most of these make the server
// drop the connection.
func (g *c12gen) segConnAbuse() {
	r := g.r
	switch r.Intn(10) {
	case 0: // SETTINGS flood
		g.add(POp{Op: "settings", N: r.Range(20, 300), Settings: [][2]uint32{{4, uint32(r.Range(0, 100000))}}})
	case 1: // PING flood
		g.add(POp{Op: "ping", N: r.Range(3, 100), Hex: "aabbccddeeff0011"})
	case 2: // CONTINUATION out of place
		g.add(POp{Op: "continuation", Stream: g.anyStream(), Hex: "00"})
	case 3: // oversized frame
		g.add(POp{Op: "frame", Type: uint8(core.Pick(r, 0, 1, 4, 6)), Stream: g.anyStream(), Len: core.Pick(r, 16385, 70000, 1<<24-1), Hex: "0000"})
	case 4: // window overflow on the connection
		g.add(POp{Op: "window_update", Stream: 0, N: 1<<31 - 1})
		g.add(POp{Op: "window_update", Stream: 0, N: 1<<31 - 1})
	case 5: // garbage
		b := make([]byte, r.Range(1, 60))
		for i := range b {
			b[i] = byte(r.Intn(256))
		}
		g.add(POp{Op: "raw", Hex: hex.EncodeToString(b)})
	case 6: // DATA on stream 0 / PUSH_PROMISE / GOAWAY from the client
		g.add(core.Pick(r, POp{Op: "data", Stream: 0, N: 3}, POp{Op: "frame", Type: 5, Stream: g.anyStream(), Hex: "0000000200"}, POp{Op: "goaway", Stream: uint32(r.Intn(9)), Code: uint32(r.Intn(3))}))
	case 7: // HPACK dynamic table size update beyond the limit, as a header block
		g.add(POp{Op: "frame", Type: 1, Flags: 4, Stream: g.id(), Hex: "3fe1ff03"})
	case 8: // bad SETTINGS values
		g.add(POp{Op: "settings", Settings: [][2]uint32{{core.Pick(r, uint32(2), 4, 5), core.Pick(r, uint32(2), 1<<31, 100, 1<<24)}}})
	default: // truncated frame: everything after it is out of sync
		o := POp{Op: "headers", Stream: g.id(), Tag: g.newTag(g.script()), Fields: g.request("/sim.Svc/T", 0), Trunc: r.Range(1, 30)}
		g.add(o)
	}
}

// segRecipe: response larger than the stream window, no WINDOW_UPDATE ever, so
// the trailers stay queued behind blocked DATA and the stream stays active
// after its handler returned; then END_STREAM is sent twice.
func (g *c12gen) segRecipe() {
	r := g.r
	win := g.s.Ops[g.dialIdx()].Settings
	_ = win
	n := r.Range(1, 3)
	var ids []uint32
	for i := 0; i < n; i++ {
		sz := r.Range(200, 60000)
		sc := []HOp{{Op: "send", N: sz}, {Op: "return", Code: r.Intn(3)}}
		if r.Chance(1, 3) {
			sc = append([]HOp{{Op: "recv"}}, sc...)
		}
		tag := g.newTag(sc)
		id := g.id()
		ids = append(ids, id)
		g.add(POp{Op: "headers", Stream: id, Tag: tag, Fields: g.request("/sim.Svc/R", 0)})
		if r.Chance(1, 2) {
			g.add(POp{Op: "data", Stream: id, N: 0, EndStream: true})
		}
	}
	g.add(core.Pick(r, POp{Op: "settle"}, POp{Op: "sleep", Ns: 1000000}, POp{Op: "sleep", Ns: 1}))
	for _, id := range ids {
		for k := r.Range(1, 3); k > 0; k-- {
			g.add(POp{Op: "data", Stream: id, N: 0, EndStream: true})
		}
	}
	g.add(POp{Op: "settle"})
}

func (g *c12gen) dialIdx() int {
	for i := len(g.s.Ops) - 1; i >= 0; i-- {
		if g.s.Ops[i].Op == "dial" && g.s.Ops[i].Conn == g.conn {
			return i
		}
	}
	return 0
}

func genC12(seed uint64, tier string) *c12Scenario {
	r := core.NewRand(seed)
	s := &c12Scenario{Sched: genSched(r, seed), Net: genNet(r, seed, true)}
	s.Server = ServerCfg{MaxStreams: uint32(r.Range(1, 8))}
	if r.Chance(1, 4) {
		s.Server.NumWorkers = uint32(r.Range(1, 3))
	}
	if r.Chance(1, 4) {
		s.Server.WriteBuf = core.Pick(r, -1, 100, 4096)
	}
	if r.Chance(1, 4) {
		s.Server.ReadBuf = core.Pick(r, -1, 64, 4096)
	}
	s.Def = []HOp{{Op: "return", Code: 0}}
	nconn := r.Range(1, 3)
	segs := 3
	if tier == "thorough" {
		nconn = r.Range(1, 4)
		segs = 5
	}
	var tag uint32
	for c := 0; c < nconn; c++ {
		g := &c12gen{r: r, s: s, tag: tag, conn: c, nextID: 1}
		recipe := r.Chance(1, 6)
		d := POp{Op: "dial", NoDyn: r.Chance(1, 3), NoAck: r.Chance(1, 8), NoGrant: recipe || r.Chance(1, 8)}
		g.add(d)
		pre := POp{Op: "preface"}
		if recipe {
			pre.Settings = [][2]uint32{{4, uint32(core.Pick(r, 0, 1, 5, 100, 150))}}
		} else if r.Chance(1, 3) {
			pre.Settings = [][2]uint32{{uint32(r.Range(1, 6)), uint32(core.Pick(r, 0, 1, 4096, 16384, 65535, 1<<20))}}
		}
		if r.Chance(1, 50) {
			pre.Mut = []Mut{{Off: r.Intn(24), Xor: 0x20}}
		}
		g.add(pre)
		if recipe {
			g.segRecipe()
		}
		for k := r.Range(1, segs); k > 0; k-- {
			switch r.Intn(10) {
			case 0, 1, 2, 3, 4:
				g.segReqs(r.Range(1, 8))
			case 5, 6:
				g.segMCS()
			case 7:
				g.segRapidReset()
			case 8:
				if recipe {
					g.segRecipe()
				} else {
					g.segReqs(r.Range(1, 4))
				}
			default:
				g.segConnAbuse()
			}
		}
		if r.Chance(1, 3) {
			g.segConnAbuse()
		}
		if r.Chance(1, 4) {
			g.add(POp{Op: "settle"})
			g.add(POp{Op: "close"})
		}
		tag = g.tag
	}
	return s
}

const c12FinalTag = 39999

func runC12(e *core.Env, s *c12Scenario) {
	w := NewWorld(e, s.Net, nil, &s.Server, s.Scripts, s.Def)
	w.trace = s.Trace
	sr := &scriptRun{w: w}
	sr.log = newReqLog(w)
	w.hook = sr.log.hook
	w.onInvoke = sr.log.invoked
	for i := range s.Ops {
		sr.exec(i, &s.Ops[i])
	}
	w.Settle()
	sr.log.checkRefused()
	sr.log.checkInvocations()
	w.Unpark()
	w.Settle()
	sr.usableAfterwards(c12FinalTag)
	for _, p := range w.peers {
		if p.ct != nil && p.ct.SR.Dead {
			e.Probe("tap_gave_up_on_garbage")
			e.Logf("tap of conn %d (delivered to server) stopped decoding: %s", p.Idx, p.ct.SR.DeadWhy)
		}
		if p.Closed && p.closedBy == "server" {
			e.Probe("conn_closed_by_server")
		}
		if len(p.GoAways) > 0 {
			e.Probe("goaway_received")
		}
		for _, id := range sortedU32(p.S) {
			st := p.S[id]
			if st.Rst {
				e.Probe("rst_received")
			}
			if st.HaveStatus && st.HTTPStatus != "" && st.HTTPStatus != "200" {
				e.Probe("early_abort_http_" + st.HTTPStatus)
			}
		}
	}
	for _, h := range w.Inv {
		if h.Returned {
			e.Probe("handler_returned")
		}
	}
	e.ProbeN("handlers", len(w.Inv))
	for c, n := range w.MaxActive {
		if w.cfg.MaxStreams > 0 && uint32(n) == w.cfg.MaxStreams && c >= 0 {
			e.Probe("handlers_at_max_concurrent_streams")
		}
	}
	w.Teardown()
}

func init() { core.Register("C12", genC12, runC12) }
