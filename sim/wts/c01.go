package wts

import (
	"fmt"
	"time"

	"golang.org/x/net/http2"

	"google.golang.org/grpc/internal/zzverif/core"
	"google.golang.org/grpc/internal/zzverif/simnet"
	"google.golang.org/grpc/internal/zzverif/tap"
)

// C01wts / C02wts / C03wts: the real server as SENDER against a scripted
// receiver that does what only a scripted peer can do: tiny initial windows,
// SETTINGS_INITIAL_WINDOW_SIZE raised and lowered mid-stream, WINDOW_UPDATEs of
// any size in adversarial order, RST_STREAM mid-response.

type c01Stream struct {
	Req      []int `json:"req,omitempty"` // request message sizes (small)
	HRecv    bool  `json:"h_recv,omitempty"`
	HSend    []int `json:"h_send"`
	HSleepNs int64 `json:"h_sleep_ns,omitempty"` // before each send
	HCode    int   `json:"h_code,omitempty"`
	HPark    bool  `json:"h_park,omitempty"` // after the sends the handler parks (no trailers) until the drain phase
}

type c01Act struct {
	AfterNs int64  `json:"after_ns,omitempty"`
	Kind    string `json:"kind"` // open wu_stream wu_conn iws rst check burst
	Stream  int    `json:"stream,omitempty"`
	N       int    `json:"n,omitempty"`
	K       int    `json:"k,omitempty"` // burst: number of updates
}

type c01Scenario struct {
	Sched   core.Sched  `json:"sched"`
	Net     simnet.Cfg  `json:"net"`
	Server  ServerCfg   `json:"server"`
	Oracles string      `json:"oracles"` // which ledger toggles are on: any of "w" (windows) "b" (bytes) "s" (streams) "l" (liveness)
	PeerIWS int         `json:"peer_iws"`
	Policy  int         `json:"policy"` // reactive grant policy, see runC01
	Streams []c01Stream `json:"streams"`
	Acts    []c01Act    `json:"acts"`
	Trace   bool        `json:"trace,omitempty"`
}

func (s *c01Scenario) SchedP() *core.Sched { return &s.Sched }
func (s *c01Scenario) Shape() string {
	k := map[string]int{}
	for _, a := range s.Acts {
		k[a.Kind]++
	}
	return fmt.Sprintf("iws=%d pol=%d streams=%d acts=%d iwschg=%d rst=%d checks=%d", s.PeerIWS, s.Policy, len(s.Streams), len(s.Acts), k["iws"], k["rst"], k["check"])
}
func (s *c01Scenario) Validate() error {
	if len(s.Streams) == 0 {
		return fmt.Errorf("no streams")
	}
	for _, a := range s.Acts {
		if a.Stream < 0 || a.Stream >= len(s.Streams) {
			return fmt.Errorf("bad stream index")
		}
		if a.Kind == "iws" && (a.N < 0 || a.N > 1<<22) {
			return fmt.Errorf("bad iws")
		}
		if a.N < 0 || a.N > 1<<24 || a.K > 1000 {
			return fmt.Errorf("bad n")
		}
	}
	if s.PeerIWS < 0 || s.PeerIWS > 1<<22 {
		return fmt.Errorf("bad iws")
	}
	return nil
}

var c01IWS = []int{0, 1, 2, 7, 100, 4096, 16383, 16384, 16385, 65535, 100000, 1 << 20}

func genRespSize(r *core.Rand, win int) int {
	if win < 16 {
		win = 16
	}
	switch r.Intn(10) {
	case 0:
		return 0
	case 1:
		return r.Range(1, 20)
	case 2:
		return 16384 - 5 + r.Range(-2, 2)
	case 3:
		return win - 5 + r.Range(-2, 2)
	case 4:
		return r.Range(win, 4*win)
	case 5:
		return 16384*r.Range(1, 3) + r.Range(-6, 1)
	default:
		return r.LogUniform(1, 2*win)
	}
}

// genC01ConnEdge: the connection window (fixed at 65535, never granted
// reactively) runs out while streams with many tiny messages are being served,
// so that it is exhausted inside or right before a 5-byte message header; then
// the peer grants connection credit in steps of 1..4 bytes.
func genC01ConnEdge(r *core.Rand, s *c01Scenario, tier string) {
	s.PeerIWS = core.Pick(r, 65535, 100000, 1<<20)
	s.Policy = core.Pick(r, 0, 1, 4)
	// > 64 KiB must flow: no tiny segments or reads here
	if s.Net.SegMax > 0 && s.Net.SegMax < 1000 {
		s.Net.SegMax = 1000
	}
	if s.Net.ReadMax > 0 && s.Net.ReadMax < 1000 {
		s.Net.ReadMax = 0
	}
	nb := r.Range(1, 2)
	left := 65535 + r.Range(-3000, 200)
	for i := 0; i < nb; i++ {
		st := c01Stream{}
		tot := left / (nb - i)
		if i == nb-1 {
			tot = left
		}
		left -= tot
		for tot > 0 {
			n := r.Range(1000, 30000)
			if n > tot {
				n = tot
			}
			tot -= n
			st.HSend = append(st.HSend, max(n-5, 0))
		}
		s.Streams = append(s.Streams, st)
	}
	for i := r.Range(1, 3); i > 0; i-- {
		st := c01Stream{HRecv: r.Chance(1, 2)}
		for k := r.Range(15, 50); k > 0; k-- {
			st.HSend = append(st.HSend, r.Intn(13))
		}
		if r.Chance(1, 3) {
			st.HSleepNs = int64(core.Pick(r, 1, 1000))
		}
		s.Streams = append(s.Streams, st)
	}
	order := make([]int, len(s.Streams))
	for i := range order {
		order[i] = i
	}
	for i := len(order) - 1; i > 0; i-- {
		j := r.Intn(i + 1)
		order[i], order[j] = order[j], order[i]
	}
	for _, i := range order {
		s.Acts = append(s.Acts, c01Act{Kind: "open", Stream: i})
	}
	s.Acts = append(s.Acts, c01Act{Kind: "check", AfterNs: 1000000})
	for k := r.Range(3, 14); k > 0; k-- {
		a := c01Act{AfterNs: int64(core.Pick(r, 0, 1, 1000, 1000000))}
		switch x := r.Intn(10); {
		case x < 5:
			a.Kind, a.N, a.K = "burst_conn", r.Range(1, 4), r.Range(1, 3)
		case x < 7:
			a.Kind = "check"
		case x < 9:
			a.Kind, a.N = "wu_conn", core.Pick(r, 5, 6, 20, 1000, 65535)
		default:
			a.Kind, a.N, a.Stream = "wu_stream", core.Pick(r, 1, 1000), r.Intn(len(s.Streams))
		}
		s.Acts = append(s.Acts, a)
	}
}

// genC01Boundary: streams whose first response message ends exactly where the
// peer's stream window ends (so the stream is idle with zero quota, not parked
// as waiting), and which queue more data later, while bulk senders with plenty
// of stream and connection credit are still being written (writer stalls keep
// them busy over virtual time); after the initial grants the peer is silent:
// no WINDOW_UPDATE, SETTINGS or PING that could wake the writer again. Static
// server windows, so the server sends no BDP pings either.
func genC01Boundary(r *core.Rand, s *c01Scenario, tier string) {
	s.Net = simnet.Cfg{Seed: s.Net.Seed, SegMax: core.Pick(r, 0, 20000, 70000)}
	s.Net.StallPct = core.Pick(r, 20, 50, 80)
	s.Net.StallNs = int64(core.Pick(r, 1000000, 10000000, 40000000))
	s.Server.Static = true
	s.Server.WriteBuf = core.Pick(r, 0, 0, 4096, 70000, -1)
	w := core.Pick(r, 100, 1000, 4096, 16384, 65535)
	s.PeerIWS = w
	s.Policy = 0
	nbulk := r.Range(1, 2)
	nz := r.Range(1, 5)
	var bulk []int
	for i := 0; i < nbulk; i++ {
		st := c01Stream{}
		for k := r.Range(1, 2); k > 0; k-- {
			st.HSend = append(st.HSend, r.Range(100000, 400000))
		}
		bulk = append(bulk, len(s.Streams))
		s.Streams = append(s.Streams, st)
	}
	for i := 0; i < nz; i++ {
		st := c01Stream{HRecv: r.Chance(1, 3), HPark: r.Chance(2, 3), HCode: core.Pick(r, 0, 0, 9)}
		st.HSleepNs = int64(core.Pick(r, 1000, 1000000, 5000000, 30000000))
		first := w - 5
		if r.Chance(1, 5) {
			first += core.Pick(r, -1, 1) // just off the boundary
		}
		st.HSend = []int{first}
		for k := r.Range(1, 2); k > 0; k-- {
			st.HSend = append(st.HSend, core.Pick(r, 0, 1, 20, 3000))
		}
		s.Streams = append(s.Streams, st)
	}
	order := make([]int, len(s.Streams))
	for i := range order {
		order[i] = i
	}
	for i := len(order) - 1; i > 0; i-- {
		j := r.Intn(i + 1)
		order[i], order[j] = order[j], order[i]
	}
	s.Acts = append(s.Acts, c01Act{Kind: "wu_conn", N: 1 << 22})
	for _, i := range order {
		s.Acts = append(s.Acts, c01Act{Kind: "open", Stream: i, AfterNs: int64(core.Pick(r, 0, 0, 1, 1000, 1000000))})
		for _, b := range bulk {
			if b == i {
				s.Acts = append(s.Acts, c01Act{Kind: "wu_stream", Stream: i, N: 1 << 20})
			}
		}
	}
	if r.Chance(1, 4) {
		// lower the initial window while the streams are active
		s.Acts = append(s.Acts, c01Act{Kind: "iws", N: core.Pick(r, w/2, w-1, 1), AfterNs: int64(core.Pick(r, 1000, 1000000, 10000000))})
	}
	// silence, long enough for every stall and handler sleep
	s.Acts = append(s.Acts, c01Act{Kind: "check", AfterNs: 20000000000})
}

func genC01(seed uint64, tier string, oracles string) *c01Scenario {
	r := core.NewRand(seed)
	s := &c01Scenario{Sched: genSched(r, seed), Net: genNet(r, seed, false), Oracles: oracles}
	bshare := 4
	if oracles == "l" {
		bshare = 3 // the liveness check gets more of the silent-peer scenarios
	}
	if r.Chance(1, bshare) {
		genC01Boundary(r, s, tier)
		return s
	}
	if r.Chance(1, 5) {
		if r.Chance(1, 3) {
			s.Server.WriteBuf = core.Pick(r, -1, 100, 4096)
		}
		genC01ConnEdge(r, s, tier)
		return s
	}
	// loopy batching: occasional writer stalls
	if r.Chance(1, 4) {
		s.Net.StallPct = core.Pick(r, 5, 30)
		s.Net.StallNs = int64(core.Pick(r, 1000, 1000000, 50000000))
	}
	if r.Chance(1, 3) {
		s.Server.WriteBuf = core.Pick(r, -1, 100, 4096, 70000)
	}
	s.PeerIWS = core.Pick(r, c01IWS...)
	s.Policy = r.Intn(5)
	n := r.Range(1, 6)
	if tier == "thorough" {
		n = r.Range(1, 12)
	}
	// a window of w bytes costs one round trip per w bytes: keep runs cheap
	budget := 250000
	switch {
	case s.PeerIWS < 100:
		budget = 2500
	case s.PeerIWS < 5000:
		budget = 40000
	}
	win := s.PeerIWS
	if win > 70000 {
		win = 70000
	}
	for i := 0; i < n; i++ {
		st := c01Stream{HRecv: r.Chance(1, 2), HCode: core.Pick(r, 0, 0, 0, 2, 14)}
		for k := r.Range(0, 2); k > 0; k-- {
			st.Req = append(st.Req, core.Pick(r, 0, 1, 50, 1000))
		}
		for k := r.Range(0, 4); k > 0; k-- {
			sz := genRespSize(r, win)
			if sz > budget {
				sz = budget
			}
			budget -= sz
			st.HSend = append(st.HSend, sz)
		}
		if r.Chance(1, 3) {
			st.HSleepNs = int64(core.Pick(r, 1000, 1000000, 30000000))
		}
		s.Streams = append(s.Streams, st)
	}
	nap := func() int64 { return int64(core.Pick(r, 0, 0, 1, 1000, 1000000, 20000000, 300000000)) }
	opened := 0
	order := r.Intn(3) // 0: all streams first, 1: interleaved, 2: grants first
	if order == 0 {
		for ; opened < n; opened++ {
			s.Acts = append(s.Acts, c01Act{Kind: "open", Stream: opened, AfterNs: nap() * int64(r.Intn(2))})
		}
	}
	na := r.Range(4, 30)
	if tier == "thorough" {
		na = r.Range(4, 80)
	}
	for i := 0; i < na; i++ {
		a := c01Act{AfterNs: nap(), Stream: r.Intn(n)}
		switch x := r.Intn(20); {
		case opened < n && (x < 4 || (order == 1 && x < 8)):
			a.Kind, a.Stream = "open", opened
			opened++
		case x < 9:
			a.Kind, a.N = "wu_stream", core.Pick(r, 1, 2, 5, 100, 1000, 16384, 65535, 1<<20)
		case x < 12:
			a.Kind, a.N = "wu_conn", core.Pick(r, 1, 5, 1000, 16384, 65535, 1<<20)
		case x < 15:
			a.Kind, a.N = "iws", core.Pick(r, c01IWS...)
		case x < 16:
			a.Kind = "rst"
		case x < 18:
			a.Kind = "check"
		default:
			a.Kind, a.N, a.K = "burst", core.Pick(r, 1, 1, 2, 3), r.Range(2, 40)
			if r.Chance(1, 3) {
				a.Stream = -1 // connection
			}
		}
		if a.Stream < 0 && a.Kind != "burst" {
			a.Stream = 0
		}
		s.Acts = append(s.Acts, a)
	}
	for ; opened < n; opened++ {
		s.Acts = append(s.Acts, c01Act{Kind: "open", Stream: opened, AfterNs: nap()})
	}
	minIWS := s.PeerIWS
	for i := range s.Acts {
		if s.Acts[i].Stream < 0 {
			s.Acts[i].Stream = 0
			s.Acts[i].Kind = "burst_conn"
		}
		if s.Acts[i].Kind == "iws" && s.Acts[i].N < minIWS {
			minIWS = s.Acts[i].N
		}
	}
	// a window of w bytes costs one round trip per w bytes: keep runs cheap by
	// shrinking the responses when the window gets tiny at some point
	total := 0
	for _, st := range s.Streams {
		for _, n := range st.HSend {
			total += n
		}
	}
	limit := netBudget(s.Net, 250000)
	switch {
	case minIWS < 100:
		limit = min(limit, 2500)
	case minIWS < 5000:
		limit = min(limit, 40000)
	}
	if total > limit {
		for i := range s.Streams {
			for k := range s.Streams[i].HSend {
				s.Streams[i].HSend[k] = int(int64(s.Streams[i].HSend[k]) * int64(limit) / int64(total))
			}
		}
	}
	return s
}

// miniLedger is the liveness oracle's own view of the server's send windows
// (S3: peer grants count from delivery, SETTINGS from the server's ACK).
type miniLedger struct {
	connSent, connUpd int64
	iws               int64
	pend              []int64
	sent, upd         map[uint32]int64
	srvEnded, srvRst  map[uint32]bool
	peerRst           map[uint32]bool
	minAvail          int64
}

func (m *miniLedger) hook(f *tap.Frame) {
	switch {
	case f.From == 's' && f.Phase == 'w':
		switch f.Type {
		case http2.FrameData:
			m.connSent += int64(f.Length)
			m.sent[f.StreamID] += int64(f.Length)
			if f.EndStream() {
				m.srvEnded[f.StreamID] = true
			}
		case http2.FrameHeaders:
			if f.EndStream() {
				m.srvEnded[f.StreamID] = true
			}
		case http2.FrameRSTStream:
			m.srvRst[f.StreamID] = true
		case http2.FrameSettings:
			if f.Ack() && len(m.pend) > 0 {
				if m.pend[0] >= 0 {
					m.iws = m.pend[0]
				}
				m.pend = m.pend[1:]
			}
		}
	case f.From == 'c' && f.Phase == 'd':
		switch f.Type {
		case http2.FrameWindowUpdate:
			if f.StreamID == 0 {
				m.connUpd += int64(f.Increment)
			} else {
				m.upd[f.StreamID] += int64(f.Increment)
			}
		case http2.FrameSettings:
			if !f.Ack() {
				v := int64(-1)
				for _, s := range f.Settings {
					if s.ID == http2.SettingInitialWindowSize {
						v = int64(s.Val)
					}
				}
				m.pend = append(m.pend, v)
			}
		case http2.FrameRSTStream:
			m.peerRst[f.StreamID] = true
		}
	}
}

func runC01(e *core.Env, s *c01Scenario) {
	var scripts []HScript
	for i := range s.Streams {
		st := &s.Streams[i]
		var ops []HOp
		if st.HRecv {
			ops = append(ops, HOp{Op: "recv_all"})
		}
		for _, n := range st.HSend {
			if st.HSleepNs > 0 {
				ops = append(ops, HOp{Op: "sleep", Ns: st.HSleepNs})
			}
			ops = append(ops, HOp{Op: "send", N: n})
		}
		if st.HPark {
			ops = append(ops, HOp{Op: "park"})
		}
		ops = append(ops, HOp{Op: "return", Code: st.HCode})
		scripts = append(scripts, HScript{Tag: uint32(i + 1), Ops: ops})
	}
	w := NewWorld(e, s.Net, nil, &s.Server, scripts, []HOp{{Op: "return"}})
	w.trace = s.Trace
	w.ledgerOn = true
	has := func(c byte) bool {
		for i := 0; i < len(s.Oracles); i++ {
			if s.Oracles[i] == c {
				return true
			}
		}
		return false
	}
	w.led.CheckWindows, w.led.CheckBytes, w.led.CheckStreams = has('w'), has('b'), has('s')
	ml := &miniLedger{iws: 65535, sent: map[uint32]int64{}, upd: map[uint32]int64{}, srvEnded: map[uint32]bool{}, srvRst: map[uint32]bool{}, peerRst: map[uint32]bool{}}
	w.hook = ml.hook
	p := w.Dial()
	if p == nil {
		e.Violate("harness", "dial failed")
		w.Teardown()
		return
	}
	p.AutoGrant = false
	draining := false
	const maxGrant = 1 << 30
	granted := map[uint32]int64{} // per stream (0 = connection): total increments sent
	grant := func(id uint32, n int64) {
		if n <= 0 {
			return
		}
		if granted[id]+n > maxGrant {
			n = maxGrant - granted[id]
			if n <= 0 {
				return
			}
		}
		granted[id] += n
		p.WindowUpdate(id, uint32(n))
	}
	// reactive policies: 0 none; 1 grant every received byte back at once on the
	// stream only; 2 on the connection only; 3 one-byte updates for every byte;
	// 4 grant the stream when 1000 bytes are pending
	p.OnData = func(p *Peer, st *PStream, f *tap.Frame) {
		n := int64(f.Length)
		if n == 0 {
			return
		}
		if draining {
			grant(0, n)
			if !st.Ended {
				grant(st.ID, n)
			}
			return
		}
		if p.RxFrames > 6000 {
			return // cost bound: no more reactive grants until the drain phase
		}
		switch s.Policy {
		case 1:
			if !st.Ended {
				grant(st.ID, n)
			}
		case 2:
			grant(0, n)
		case 3:
			if p.RxBytes > 3000 {
				grant(0, n)
				if !st.Ended {
					grant(st.ID, n)
				}
				return
			}
			for i := int64(0); i < n && i < 64; i++ {
				grant(0, 1)
				if !st.Ended {
					grant(st.ID, 1)
				}
			}
		case 4:
			if st.Ungranted >= 1000 && !st.Ended {
				grant(st.ID, st.Ungranted)
				st.Ungranted = 0
			}
		}
	}
	p.Preface(http2.Setting{ID: http2.SettingInitialWindowSize, Val: uint32(s.PeerIWS)})
	ids := make([]uint32, len(s.Streams))
	check := func(where string) {
		w.Settle()
		if !has('l') {
			return
		}
		if len(ml.pend) > 0 || p.Closed {
			e.Probe("check_skipped")
			return
		}
		connAvail := 65535 + ml.connUpd - ml.connSent
		for i := range s.Streams {
			id := ids[i]
			if id == 0 || ml.peerRst[id] || ml.srvRst[id] {
				continue
			}
			tag := uint32(i + 1)
			var queued int64
			for _, n := range w.sSubmit[tag] {
				queued += int64(5 + n)
			}
			wire := ml.sent[id]
			avail := ml.iws + ml.upd[id] - wire
			if avail < 0 {
				e.Probe("negative_stream_window")
			}
			returned := false
			for _, h := range w.invByTag[tag] {
				returned = returned || h.Returned
			}
			if ml.srvEnded[id] {
				if queued > wire {
					e.Violate("trailers_before_data", "%s: stream %d ended with %d of %d queued response bytes on the wire", where, id, wire, queued)
				}
				continue
			}
			if queued > wire {
				if avail > 0 && connAvail > 0 {
					e.Violate("stream_starved", "%s: at quiescence stream %d has %d queued response bytes not on the wire although its window is %d and the connection window is %d", where, id, queued-wire, avail, connAvail)
				} else {
					e.Probe("stream_waits_for_window_at_quiescence")
					if returned {
						e.Probe("trailers_queued_behind_data")
					}
				}
			} else if returned {
				e.Violate("trailers_not_written", "%s: at quiescence the handler of stream %d has returned and all %d response bytes are on the wire, but the stream has not been ended", where, id, wire)
			}
		}
	}
	for ai := range s.Acts {
		a := &s.Acts[ai]
		if a.AfterNs > 0 {
			time.Sleep(time.Duration(a.AfterNs))
		}
		if p.Closed {
			break
		}
		id := ids[a.Stream]
		switch a.Kind {
		case "open":
			if id != 0 {
				continue
			}
			id = p.NextID
			p.NextID += 2
			ids[a.Stream] = id
			tag := uint32(a.Stream + 1)
			p.Headers(id, ReqFields("/sim.Svc/M", tag), false)
			spec := &s.Streams[a.Stream]
			for k, n := range spec.Req {
				p.SendData(id, GrpcMsg(tag, k, n), k == len(spec.Req)-1, 0, nil)
			}
			if len(spec.Req) == 0 {
				p.SendData(id, nil, true, 0, nil)
			}
		case "wu_stream":
			if id != 0 {
				if st := p.S[id]; st != nil && (st.Ended || st.Rst) {
					e.Probe("update_for_closed_stream")
				}
				grant(id, int64(a.N))
			}
		case "wu_conn":
			grant(0, int64(a.N))
		case "burst", "burst_conn":
			for k := 0; k < a.K; k++ {
				if a.Kind == "burst_conn" {
					grant(0, int64(a.N))
				} else if id != 0 {
					grant(id, int64(a.N))
				}
			}
		case "iws":
			e.Logf("peer SETTINGS initial window %d", a.N)
			p.SendSettings(http2.Setting{ID: http2.SettingInitialWindowSize, Val: uint32(a.N)})
			e.Probe("iws_changed_mid_stream")
		case "rst":
			if id != 0 {
				if st := p.S[id]; st == nil || !(st.Ended || st.Rst) {
					e.Probe("rst_mid_response")
				}
				p.Rst(id, http2.ErrCodeCancel)
			}
		case "check":
			check(fmt.Sprintf("act %d", ai))
		}
	}
	check("end of timeline")
	w.Unpark()
	// drain: open every window and let everything finish
	draining = true
	if !p.Closed {
		p.SendSettings(http2.Setting{ID: http2.SettingInitialWindowSize, Val: 1 << 20})
		grant(0, 1<<24)
		for i := range ids {
			if ids[i] == 0 {
				ids[i] = p.NextID
				p.NextID += 2
				tag := uint32(i + 1)
				p.Headers(ids[i], ReqFields("/sim.Svc/M", tag), false)
				p.SendData(ids[i], nil, true, 0, nil)
			}
			if st := p.S[ids[i]]; st != nil && !st.Ended && !st.Rst {
				grant(ids[i], 1<<20)
			}
		}
	}
	time.Sleep(time.Second)
	check("after drain")
	if has('l') || has('b') {
		for i := range s.Streams {
			id := ids[i]
			if id == 0 || ml.peerRst[id] {
				continue
			}
			st := p.S[id]
			if st == nil || !(st.Ended || st.Rst) {
				e.Violate("stream_not_finished", "after the peer opened all windows stream %d still has no END_STREAM at quiescence (peer saw %s)", id, dumpStream(st))
			} else if st.Ended && !st.Rst {
				e.Probe("stream_completed")
			}
		}
	}
	if p.Closed {
		e.Violate("connection_lost", "the server closed the connection of a conforming peer: %s (GOAWAY %v)", p.CloseErr, p.GoAways)
	}
	w.Teardown()
}

func init() {
	core.Register("C01wts", func(seed uint64, tier string) *c01Scenario { return genC01(seed, tier, "w") }, runC01)
	core.Register("C02wts", func(seed uint64, tier string) *c01Scenario { return genC01(seed, tier, "bs") }, runC01)
	core.Register("C03wts", func(seed uint64, tier string) *c01Scenario { return genC01(seed, tier, "l") }, runC01)
}
