package wts

import (
	"fmt"
	"sort"
	"time"

	"golang.org/x/net/http2"

	"google.golang.org/grpc/internal/zzverif/core"
	"google.golang.org/grpc/internal/zzverif/simnet"
	"google.golang.org/grpc/internal/zzverif/tap"
)

// C15wts: server half of C15 under virtual time. Zero network latency, no
// segmentation: a frame is delivered at the instant it is written.

type c15Scenario struct {
	Sched  core.Sched `json:"sched"`
	Server ServerCfg  `json:"server"`
	Kind   string     `json:"kind"` // silent | active | pings
	// silent / active: absolute times at which the peer sends one complete
	// innocuous frame (unknown type, empty); nothing else is ever sent and
	// server PINGs are not acknowledged
	Frames []int64 `json:"frames_ns,omitempty"`
	// Trickle (never generated): instead of whole frames, one BYTE of a 9-byte
	// frame at each of the times; kept for a demonstration replay
	Trickle bool `json:"trickle,omitempty"`
	// pings: client PING times; a stream may be open during the whole sequence;
	// its handler sends a message at each SrvSends time
	Stream   bool    `json:"stream,omitempty"`
	Pings    []int64 `json:"pings_ns,omitempty"`
	SrvSends []int64 `json:"srv_sends_ns,omitempty"`
	TailNs   int64   `json:"tail_ns"`
	Trace    bool    `json:"trace,omitempty"`
}

func (s *c15Scenario) SchedP() *core.Sched { return &s.Sched }
func (s *c15Scenario) Shape() string {
	return fmt.Sprintf("%s time=%d timeout=%d min=%d permit=%v enforce=%v stream=%v frames=%d pings=%d sends=%d", s.Kind, s.Server.KATimeNs, s.Server.KATimeoutNs, s.Server.KAMinTimeNs, s.Server.KAPermit, s.Server.KAEnforce, s.Stream, len(s.Frames), len(s.Pings), len(s.SrvSends))
}
func (s *c15Scenario) Validate() error {
	for _, l := range [][]int64{s.Frames, s.Pings, s.SrvSends} {
		for i := range l {
			if l[i] < 0 || (i > 0 && l[i] < l[i-1]) {
				return fmt.Errorf("times must be non-negative and sorted")
			}
		}
	}
	if len(s.SrvSends) > 0 && !s.Stream {
		return fmt.Errorf("server sends need a stream")
	}
	if s.Server.KATimeNs > 0 && s.Server.KATimeNs < int64(time.Second) {
		return fmt.Errorf("keepalive time below 1 s is clamped by grpc")
	}
	return nil
}

const twoHours = int64(2 * time.Hour)

// c15Threshold: the minimum distance between client pings that the statement
// tolerates.
func c15Threshold(s *c15Scenario) int64 {
	min := s.Server.KAMinTimeNs
	if !s.Server.KAEnforce || min == 0 {
		min = int64(5 * time.Minute) // documented default of keepalive.EnforcementPolicy.MinTime
	}
	if s.Stream || (s.Server.KAEnforce && s.Server.KAPermit) {
		return min
	}
	return twoHours
}

func genC15(seed uint64, tier string) *c15Scenario {
	r := core.NewRand(seed)
	s := &c15Scenario{Sched: genSched(r, seed)}
	eps := func() int64 { return int64(core.Pick(r, 1, 1000, 1000000)) }
	switch r.Intn(3) {
	case 0, 1:
		s.Kind = core.Pick(r, "silent", "active")
		T := int64(core.Pick(r, 1, 10, 60, 3600, 7200)) * int64(time.Second)
		TO := int64(core.Pick(r, 1, 1000, 20000, 3600000)) * int64(time.Millisecond)
		if r.Chance(1, 5) {
			TO = T + eps()
		}
		s.Server.KATimeNs, s.Server.KATimeoutNs = T, TO
		s.Stream = r.Chance(1, 3)
		t := int64(0)
		if s.Kind == "silent" {
			// a few frames at arbitrary instants, then silence
			for k := r.Intn(5); k > 0; k-- {
				t += int64(r.Intn(int(T/1000)+1)) * 1000
				if r.Chance(1, 4) {
					t += TO / 2 // inside the server's wait for a ping ack
				}
				if r.Chance(1, 2) {
					t += eps()
				}
				s.Frames = append(s.Frames, t)
			}
		} else {
			for k := r.Range(3, 25); k > 0; k-- {
				switch r.Intn(4) {
				case 0:
					t += T
				case 1:
					t += T - eps()
				case 2:
					t += T / 2
				default:
					t += int64(r.Intn(int(T/1000))+1) * 1000
				}
				s.Frames = append(s.Frames, t)
			}
		}
		s.TailNs = T + TO + int64(time.Second)
	default:
		s.Kind = "pings"
		s.Server.KAEnforce = r.Chance(4, 5)
		if s.Server.KAEnforce {
			s.Server.KAMinTimeNs = int64(core.Pick(r, 1, 10, 300, 3600)) * int64(time.Second)
			s.Server.KAPermit = r.Chance(1, 2)
		}
		s.Stream = r.Chance(1, 2)
		th := c15Threshold(s)
		t := int64(core.Pick(r, 0, 1000, 1000000000))
		s.Pings = append(s.Pings, t)
		compliant := r.Chance(1, 2)
		n := r.Range(3, 10)
		for i := 0; i < n; i++ {
			var gap int64
			if compliant || r.Chance(1, 3) {
				gap = core.Pick(r, th, th, th+eps(), 2*th, th+int64(time.Second))
			} else {
				gap = core.Pick(r, th-eps(), th-eps(), th/2, th/1000, 1, 0)
				if gap < 0 {
					gap = 0
				}
			}
			t += gap
			s.Pings = append(s.Pings, t)
		}
		if s.Stream && r.Chance(1, 3) {
			for k := r.Range(1, 3); k > 0; k-- {
				s.SrvSends = append(s.SrvSends, int64(r.Intn(int(t/1000)+1))*1000)
			}
			sort.Slice(s.SrvSends, func(i, j int) bool { return s.SrvSends[i] < s.SrvSends[j] })
		}
		s.TailNs = int64(time.Second)
	}
	return s
}

func runC15(e *core.Env, s *c15Scenario) {
	var script []HOp
	prev := int64(0)
	for _, at := range s.SrvSends {
		script = append(script, HOp{Op: "sleep", Ns: at - prev}, HOp{Op: "send", N: 10})
		prev = at
	}
	script = append(script, HOp{Op: "park"})
	w := NewWorld(e, simnet.Cfg{Seed: s.Sched.AuxSeed}, nil, &s.Server, []HScript{{Tag: 1, Ops: script}}, []HOp{{Op: "return"}})
	w.trace = s.Trace
	type ev struct {
		ns  int64
		seq uint64
	}
	var pings, srvHD []ev
	var eyc, otherGoAway []ev
	var lastRx int64
	srvPings := 0
	w.hook = func(f *tap.Frame) {
		switch {
		case f.From == 'c' && f.Phase == 'd':
			if f.Type == http2.FramePing && !f.Ack() {
				pings = append(pings, ev{f.SimNs, f.Seq})
			}
		case f.From == 's' && f.Phase == 'w':
			switch f.Type {
			case http2.FrameHeaders, http2.FrameData:
				srvHD = append(srvHD, ev{f.SimNs, f.Seq})
			case http2.FrameGoAway:
				if f.ErrCode == http2.ErrCodeEnhanceYourCalm {
					eyc = append(eyc, ev{f.SimNs, f.Seq})
				} else {
					otherGoAway = append(otherGoAway, ev{f.SimNs, f.Seq})
				}
			case http2.FramePing:
				if !f.Ack() {
					srvPings++
				}
			}
		}
	}
	t0 := time.Now()
	at := func(ns int64) {
		if d := time.Duration(ns) - time.Since(t0); d > 0 {
			time.Sleep(d)
		}
	}
	p := w.Dial()
	if p == nil {
		e.Violate("harness", "dial failed")
		w.Teardown()
		return
	}
	p.AutoGrant = true
	p.AutoAckPing = s.Kind == "pings"
	p.Preface()
	if s.Stream {
		p.Headers(1, ReqFields("/sim.Svc/KA", 1), false)
		p.Data(1, nil, true, -1)
	}
	p.Flush()
	w.Settle()
	lastRx = e.SimNs() // preface, SETTINGS ack and request were delivered by now
	innocuous := rawFrame(http2.FrameType(0x42), 0, 0, nil)
	allGapsOK := true // so far a byte arrived at least once every Time
	switch s.Kind {
	case "silent", "active":
		for i, ns := range s.Frames {
			at(ns)
			if p.Closed {
				break
			}
			if e.SimNs()-lastRx > s.Server.KATimeNs {
				allGapsOK = false
			}
			if s.Trickle {
				p.Write(innocuous[i%9 : i%9+1])
			} else {
				p.Write(innocuous)
			}
			p.Flush()
			lastRx = e.SimNs()
		}
	case "pings":
		for i, ns := range s.Pings {
			at(ns)
			if p.Closed {
				break
			}
			p.Ping(false, [8]byte{byte(i), 1, 2, 3})
			p.Flush()
		}
	}
	time.Sleep(time.Duration(s.TailNs))
	w.Settle()
	const slack = int64(time.Millisecond)
	T, TO := s.Server.KATimeNs, s.Server.KATimeoutNs
	switch s.Kind {
	case "silent", "active":
		if !p.Closed {
			// (a) nothing received any more: closed no later than last_rx + Time + Timeout
			e.Violate("dead_peer_not_closed", "the peer has been silent since t=%d and acknowledges no PING, but at t=%d (> last_rx + Time %d + Timeout %d) the connection is still open (server pings: %d)", lastRx, e.SimNs(), T, TO, srvPings)
		} else {
			c := p.ClosedNs
			if c > lastRx+T+TO+slack {
				e.Violate("dead_peer_closed_late", "silent since t=%d, Time=%d Timeout=%d: connection closed at t=%d, %d ns after the bound", lastRx, T, TO, c, c-(lastRx+T+TO))
			} else {
				e.Probe("dead_peer_closed_in_time")
				if c == lastRx+T+TO {
					e.Probe("dead_peer_closed_exactly_at_bound")
				}
			}
			// (b) while some byte arrives at least once every Time, keepalive never
			// closes the connection
			if allGapsOK && c < lastRx+T {
				e.Violate("keepalive_closed_active_conn", "the server closed the connection at t=%d, only %d ns after the last byte (t=%d), although a byte had arrived at least once every Time=%d ns", c, c-lastRx, lastRx, T)
			} else if allGapsOK && len(s.Frames) > 2 {
				e.Probe("active_conn_spared")
			}
		}
		if srvPings > 0 {
			e.Probe("server_keepalive_ping_sent")
		}
	case "pings":
		th := c15Threshold(s)
		early := 0
		firstHD := int64(-1)
		if len(srvHD) > 0 {
			firstHD = int64(srvHD[0].seq)
		}
		mustAt := -1
		for i := 1; i < len(pings); i++ {
			if pings[i].ns-pings[i-1].ns < th {
				early++
				e.Probe("too_early_ping")
				if early == 3 && mustAt < 0 {
					mustAt = i
				}
			} else if pings[i].ns-pings[i-1].ns == th {
				e.Probe("ping_exactly_at_min_time")
			}
		}
		if early == 0 {
			// (c) a compliant client is never told to calm down
			if len(eyc) > 0 {
				e.Violate("compliant_pings_punished", "GOAWAY(ENHANCE_YOUR_CALM) at t=%d although all %d client pings were at least %d ns apart (stream open=%v, permit without stream=%v)", eyc[0].ns, len(pings), th, s.Stream, s.Server.KAPermit)
			} else {
				e.Probe("compliant_pings_tolerated")
			}
			if p.Closed && len(otherGoAway) == 0 && len(eyc) == 0 {
				e.Violate("compliant_pings_punished", "the server closed the connection of a compliant, ping-acknowledging client at t=%d", p.ClosedNs)
			}
		}
		if mustAt >= 0 {
			// (d) third too-early ping, no server-sent headers/data before it
			sep := firstHD >= 0 && uint64(firstHD) < pings[mustAt].seq
			if sep {
				e.Probe("early_pings_separated_by_server_data")
			} else if len(eyc) == 0 {
				e.Violate("ping_abuse_tolerated", "ping %d (t=%d) is the third ping less than %d ns after its predecessor, the server sent no headers or data in between, but no GOAWAY(ENHANCE_YOUR_CALM) was written (pings delivered: %d, stream open=%v)", mustAt, pings[mustAt].ns, th, len(pings), s.Stream)
			} else {
				e.Probe("ping_abuse_goaway_sent")
				if eyc[0].seq < pings[mustAt].seq {
					e.Probe("goaway_before_third_early_ping")
				}
			}
		}
	}
	w.Teardown()
}

func init() { core.Register("C15wts", genC15, runC15) }
