package wts

import (
	"encoding/binary"
	"fmt"
	"time"

	"golang.org/x/net/http2"

	"google.golang.org/grpc/internal/zzverif/core"
	"google.golang.org/grpc/internal/zzverif/simnet"
	"google.golang.org/grpc/internal/zzverif/tap"
)

// C04wts: the real server as RECEIVER. The scripted peer is a sender that
// tracks the windows the server advertised and (class A) stays within them
// using every byte of credit, or (class B) exceeds a stream window by 1..n
// bytes at a chosen moment.

type c04Stream struct {
	StartNs  int64 `json:"start_ns,omitempty"`
	Msgs     []int `json:"msgs"`               // message body sizes
	Declared int   `json:"declared,omitempty"` // >0: one more message whose prefix declares this length; only DeclSent bytes of its body are ever sent
	DeclSent int   `json:"decl_sent,omitempty"`
	MaxFrame int   `json:"max_frame,omitempty"`
	PadPct   int   `json:"pad_pct,omitempty"`
	PadMax   int   `json:"pad_max,omitempty"`
	GapNs    int64 `json:"gap_ns,omitempty"`
	// handler
	HMode        string `json:"h_mode"` // all | some | none
	HK           int    `json:"h_k,omitempty"`
	HReadSleepNs int64  `json:"h_read_sleep_ns,omitempty"`
	HHoldNs      int64  `json:"h_hold_ns,omitempty"`
	HCode        int    `json:"h_code,omitempty"`
	HPark        bool   `json:"h_park,omitempty"` // some/none: hold by parking until the final check instead of sleeping
	// padding-only DATA frames (PADDED, zero data bytes; RFC 9113 6.1): sprinkled
	// before data frames with PadOnlyPct, and one burst of PadOnlyTotal
	// flow-controlled bytes once PadOnlyAt request bytes have been sent; every
	// such frame is 1..PadOnlyMax+1 bytes and stays within the credit
	PadOnlyPct   int `json:"pad_only_pct,omitempty"`
	PadOnlyAt    int `json:"pad_only_at,omitempty"`
	PadOnlyTotal int `json:"pad_only_total,omitempty"`
	PadOnlyMax   int `json:"pad_only_max,omitempty"`
	// class B: after ExcessAt payload bytes the peer sends a frame that is
	// ExcessBy bytes larger than its stream (or connection) credit
	ExcessAt   int  `json:"excess_at,omitempty"`
	ExcessBy   int  `json:"excess_by,omitempty"`
	ExcessConn bool `json:"excess_conn,omitempty"`
}

type c04Scenario struct {
	Sched   core.Sched  `json:"sched"`
	Net     simnet.Cfg  `json:"net"`
	Server  ServerCfg   `json:"server"`
	Class   string      `json:"class"`      // A | B
	RTTNs   int64       `json:"rtt_ns"`     // delay of the peer's PING acks (fake RTT for the BDP estimator)
	Streams []c04Stream `json:"streams"`
	Trace   bool        `json:"trace,omitempty"`
}

func (s *c04Scenario) SchedP() *core.Sched { return &s.Sched }
func (s *c04Scenario) Shape() string {
	nb := 0
	for _, st := range s.Streams {
		if st.ExcessBy > 0 {
			nb++
		}
	}
	return fmt.Sprintf("class=%s static=%v sw=%d cw=%d streams=%d excess=%d rtt=%d", s.Class, s.Server.Static, s.Server.StreamWindow, s.Server.ConnWindow, len(s.Streams), nb, s.RTTNs)
}
func (s *c04Scenario) Validate() error {
	if len(s.Streams) == 0 {
		return fmt.Errorf("no streams")
	}
	for _, st := range s.Streams {
		if st.ExcessBy < 0 || st.ExcessBy > 16000 || st.Declared < 0 || st.PadMax > 255 || st.PadOnlyMax > 255 || st.PadOnlyMax < 0 || st.PadOnlyTotal < 0 || st.PadOnlyTotal > 1<<21 {
			return fmt.Errorf("bad stream")
		}
		for _, n := range st.Msgs {
			if n < 0 || n > 1<<22 {
				return fmt.Errorf("bad msg")
			}
		}
	}
	return nil
}

func genC04(seed uint64, tier string) *c04Scenario {
	r := core.NewRand(seed)
	s := &c04Scenario{Sched: genSched(r, seed), Net: genNet(r, seed, false), Class: "A"}
	if r.Chance(1, 3) {
		s.Class = "B"
	}
	s.Server.Static = r.Chance(1, 2) || s.Class == "B"
	s.Server.StreamWindow = int32(core.Pick(r, 0, 65535, 65536, 100000, 1<<20))
	s.Server.ConnWindow = int32(core.Pick(r, 0, 65535, 70000, 1<<20))
	if r.Chance(1, 4) {
		s.Server.ReadBuf = core.Pick(r, -1, 64, 4096)
	}
	s.RTTNs = int64(core.Pick(r, 0, 1000, 1000000, 20000000, 200000000))
	if !s.Server.Static && s.RTTNs > 0 && s.Net.LatencyNs == 0 {
		s.Net.LatencyNs = 0
	}
	win := int(s.Server.StreamWindow)
	if win < 65535 {
		win = 65535
	}
	huge := !s.Server.Static && r.Chance(1, 5)
	if huge {
		s.Server.MaxRecv = 1<<31 - 1
	}
	n := r.Range(1, 5)
	if tier == "thorough" {
		n = r.Range(1, 10)
	}
	budget := netBudget(s.Net, 600000)
	for i := 0; i < n; i++ {
		st := c04Stream{StartNs: int64(core.Pick(r, 0, 0, 1000, 1000000, 50000000)), HMode: core.Pick(r, "all", "all", "all", "some", "none"), HCode: core.Pick(r, 0, 0, 5)}
		for k := r.Range(1, 5); k > 0; k-- {
			var sz int
			switch r.Intn(8) {
			case 0:
				sz = 0
			case 1:
				sz = r.Range(1, 30)
			case 2:
				sz = win - 5 + r.Range(-2, 2)
			case 3:
				sz = r.Range(win, 3*win)
			case 4:
				sz = 16384*r.Range(1, 3) + r.Range(-6, 1)
			default:
				sz = r.LogUniform(1, 2*win)
			}
			if sz > budget {
				sz = budget
			}
			budget -= sz
			st.Msgs = append(st.Msgs, sz)
		}
		st.MaxFrame = core.Pick(r, 0, 0, 16384, 1000, 100, 9)
		if st.MaxFrame > 0 && st.MaxFrame < 1000 {
			// tiny frames are expensive: keep the stream short
			tot := 0
			for k := range st.Msgs {
				if tot+st.Msgs[k] > 300*st.MaxFrame {
					st.Msgs[k] = max(300*st.MaxFrame-tot, 0)
				}
				tot += st.Msgs[k]
			}
		}
		if r.Chance(1, 3) {
			st.PadPct = core.Pick(r, 10, 50, 100)
			st.PadMax = core.Pick(r, 0, 1, 30, 255)
		}
		if r.Chance(1, 3) {
			st.GapNs = int64(core.Pick(r, 1000, 1000000, 30000000))
		}
		switch st.HMode {
		case "all":
			if r.Chance(1, 2) {
				st.HReadSleepNs = int64(core.Pick(r, 1000, 1000000, 40000000, 500000000))
			}
		case "some":
			st.HK = r.Range(1, len(st.Msgs))
			st.HHoldNs = int64(core.Pick(r, 0, 1000000, 1000000000))
		default:
			st.HHoldNs = int64(core.Pick(r, 0, 1000000, 1000000000, 5000000000))
		}
		if huge && r.Chance(1, 2) {
			st.Declared = core.Pick(r, 1<<31-1-5, 1<<31-6-65535, 1<<30, 1<<31-1)
			st.DeclSent = r.Range(0, min(100000, budget))
			if st.MaxFrame > 0 && st.MaxFrame < 1000 {
				st.DeclSent = min(st.DeclSent, 100*st.MaxFrame)
			}
			budget -= st.DeclSent
			st.HMode = "all"
		}
		s.Streams = append(s.Streams, st)
	}
	if s.Class == "A" && r.Chance(1, 7) && netBudget(s.Net, 600000) >= 300000 {
		// padding-heavy: hundreds of small frames with up to 255 bytes of padding
		// each, so the padding alone is several times the stream window
		s.Server.StreamWindow = int32(core.Pick(r, 0, 65535, 65536))
		s.Streams = s.Streams[:0]
		for i := r.Range(1, 2); i > 0; i-- {
			mf := core.Pick(r, 20, 50, 100)
			st := c04Stream{HMode: "all", MaxFrame: mf, PadPct: 100, PadMax: 255}
			tot := mf * r.Range(400, 700)
			for tot > 0 {
				m := min(r.Range(1000, 30000), tot)
				st.Msgs = append(st.Msgs, m)
				tot -= m + 5
			}
			s.Streams = append(s.Streams, st)
		}
	}
	if s.Class == "A" {
		for i := range s.Streams {
			if r.Chance(1, 4) {
				s.Streams[i].PadOnlyPct = core.Pick(r, 5, 30, 100)
				s.Streams[i].PadOnlyMax = core.Pick(r, 0, 1, 40, 255)
			}
		}
	}
	if s.Class == "A" && r.Chance(1, 5) && netBudget(s.Net, 600000) >= 300000 {
		// padding-only frames worth one to several stream windows, before, between
		// or after the messages, with the handler reading, reading k messages and
		// then holding, or not reading at all (holding handlers park until the
		// final check, so the stream is still open then)
		s.Server.StreamWindow = int32(core.Pick(r, 0, 65535, 65536, 100000))
		if r.Chance(2, 3) {
			s.Server.Static = true
		}
		win := max(int(s.Server.StreamWindow), 65535)
		s.Streams = s.Streams[:0]
		for i := r.Range(1, 3); i > 0; i-- {
			st := c04Stream{HMode: core.Pick(r, "all", "all", "some", "none"), StartNs: int64(core.Pick(r, 0, 1000, 1000000)), HPark: true, HCode: core.Pick(r, 0, 5)}
			for k := r.Range(1, 3); k > 0; k-- {
				st.Msgs = append(st.Msgs, core.Pick(r, 0, 10, 3000, 20000, win-5, win+1000))
			}
			at := 0
			switch st.HMode {
			case "all":
				if r.Chance(1, 2) {
					st.HReadSleepNs = int64(core.Pick(r, 1000, 1000000, 40000000))
				}
				tot := 0
				for _, m := range st.Msgs {
					tot += 5 + m
				}
				at = core.Pick(r, 0, tot/2, tot-1, r.Intn(tot+1))
			case "some":
				st.HK = r.Range(1, len(st.Msgs))
				for _, m := range st.Msgs[:st.HK] {
					at += 5 + m
				}
				st.Msgs = append(st.Msgs, 100) // something left to send after the burst
			}
			st.PadOnlyAt = at
			st.PadOnlyTotal = win*core.Pick(r, 1, 1, 2, 3) + core.Pick(r, -300, 0, 1, 300)
			st.PadOnlyMax = core.Pick(r, 255, 255, 100, 7, 0)
			if st.PadOnlyMax < 100 {
				st.PadOnlyTotal = min(st.PadOnlyTotal, 2500*(st.PadOnlyMax+1)) // cost bound; not a window's worth
			}
			if r.Chance(1, 3) {
				st.PadPct, st.PadMax = core.Pick(r, 10, 50), core.Pick(r, 1, 30, 255)
			}
			s.Streams = append(s.Streams, st)
		}
	}
	if s.Class == "A" && r.Chance(1, 7) && netBudget(s.Net, 600000) >= 600000 {
		// data for streams the server has already closed: handlers return at once
		// while (network latency) a window's worth of DATA is still in flight;
		// connection-level credit for those bytes must still come back, or the
		// streams that start later starve
		s.Net.LatencyNs = int64(core.Pick(r, 1000000, 5000000, 40000000))
		if s.Net.SegMax == 0 {
			s.Net.SegMax = 20000
		}
		s.Server.ConnWindow = int32(core.Pick(r, 0, 65535, 70000))
		s.Streams = s.Streams[:0]
		for i := r.Range(2, 4); i > 0; i-- {
			s.Streams = append(s.Streams, c04Stream{HMode: "none", Msgs: []int{r.Range(60000, 150000)}, HCode: core.Pick(r, 0, 5)})
		}
		for i := r.Range(1, 2); i > 0; i-- {
			s.Streams = append(s.Streams, c04Stream{HMode: "all", StartNs: int64(core.Pick(r, 50000000, 200000000)), Msgs: []int{r.Range(50000, 100000), r.Range(1, 50000)}})
		}
	}
	if s.Class == "B" {
		for k := r.Range(1, 2); k > 0; k-- {
			st := &s.Streams[r.Intn(n)]
			tot := 0
			for _, m := range st.Msgs {
				tot += 5 + m
			}
			// The excess is decidable from outside only while the application is not
			// reading (otherwise the server may already have decided grants that
			// are not on the wire yet): the handler holds for 5 s without reading.
			st.HMode = core.Pick(r, "none", "none", "some")
			st.HHoldNs = 5000000000
			lo := 0
			if st.HMode == "some" {
				st.HK = r.Range(1, len(st.Msgs))
				for _, m := range st.Msgs[:st.HK] {
					lo += 5 + m
				}
			}
			st.ExcessAt = lo + r.Intn(max(min(tot, 60000)-lo, 0)+1)
			st.ExcessBy = core.Pick(r, 1, 1, 2, 5, 100, 5000)
			st.ExcessConn = r.Chance(1, 5)
			st.Declared = 0
			st.GapNs = 0
		}
	}
	return s
}

type c04Rec struct {
	spec      *c04Stream
	tag       uint32
	id        uint32
	sentBytes int  // message bytes (prefix + body) handed to the connection
	done      bool // everything sent
	aborted   bool
	excessTry bool // the peer sent its over-credit frame
	padBurstDone bool
	padOnlyBytes int
	excessQuiet bool // ... while the handler was holding (not reading): the excess is decidable
	excessWas int  // credit it had when it did
}

// c04Led is the oracle's view of what the server granted (from the moment the
// server wrote it, S3) and received (from the moment it was delivered).
type c04Led struct {
	e          *core.Env
	iws        int64
	upd        map[uint32]int64
	connUpd    int64
	recv       map[uint32]int64 // flow-controlled bytes delivered per stream
	data       map[uint32]int64 // message bytes (without padding) delivered per stream
	connRecv   int64
	overAt     map[uint32]int64 // stream -> message bytes delivered before the first frame that truly exceeded the stream window
	connOver   bool
	srvRst     map[uint32]http2.ErrCode
	srvClosed  map[uint32]bool // END_STREAM or RST_STREAM written by the server
	overClosed map[uint32]bool // the window was exceeded only after the server had closed the stream
	srvGoAway  []http2.ErrCode
	padded     int
}

func (l *c04Led) hook(f *tap.Frame) {
	switch {
	case f.From == 's' && f.Phase == 'w':
		switch f.Type {
		case http2.FrameSettings:
			for _, s := range f.Settings {
				if s.ID == http2.SettingInitialWindowSize {
					l.iws = int64(s.Val)
				}
			}
		case http2.FrameWindowUpdate:
			if f.StreamID == 0 {
				l.connUpd += int64(f.Increment)
			} else {
				l.upd[f.StreamID] += int64(f.Increment)
			}
		case http2.FrameRSTStream:
			if _, ok := l.srvRst[f.StreamID]; !ok {
				l.srvRst[f.StreamID] = f.ErrCode
			}
			l.srvClosed[f.StreamID] = true
		case http2.FrameHeaders:
			if f.EndStream() {
				l.srvClosed[f.StreamID] = true
			}
		case http2.FrameGoAway:
			l.srvGoAway = append(l.srvGoAway, f.ErrCode)
		}
	case f.From == 'c' && f.Phase == 'd' && f.Type == http2.FrameData:
		id := f.StreamID
		if f.Flags&http2.FlagDataPadded != 0 {
			l.padded++
		}
		l.recv[id] += int64(f.Length)
		l.connRecv += int64(f.Length)
		if _, over := l.overAt[id]; !over && l.recv[id] > l.iws+l.upd[id] {
			l.overAt[id] = l.data[id]
			l.overClosed[id] = l.srvClosed[id]
			l.e.Probe("stream_window_truly_exceeded")
			l.e.Logf("stream %d: window exceeded by %d at delivery", id, l.recv[id]-l.iws-l.upd[id])
		}
		if !l.connOver && l.connRecv > 65535+l.connUpd {
			l.connOver = true
			l.e.Probe("conn_window_truly_exceeded")
		}
		l.data[id] += int64(len(f.Data))
	}
}

func runC04(e *core.Env, s *c04Scenario) {
	var scripts []HScript
	for i := range s.Streams {
		st := &s.Streams[i]
		var ops []HOp
		switch st.HMode {
		case "all":
			ops = append(ops, HOp{Op: "recv_all", Ns: st.HReadSleepNs})
		case "some":
			for k := 0; k < st.HK; k++ {
				ops = append(ops, HOp{Op: "recv"})
			}
			if st.HPark {
				ops = append(ops, HOp{Op: "park"})
			} else {
				ops = append(ops, HOp{Op: "sleep_hard", Ns: st.HHoldNs})
			}
		default:
			if st.HPark {
				ops = append(ops, HOp{Op: "park"})
			} else {
				ops = append(ops, HOp{Op: "sleep_hard", Ns: st.HHoldNs})
			}
		}
		ops = append(ops, HOp{Op: "return", Code: st.HCode})
		scripts = append(scripts, HScript{Tag: uint32(i + 1), Ops: ops})
	}
	w := NewWorld(e, s.Net, nil, &s.Server, scripts, []HOp{{Op: "return"}})
	w.trace = s.Trace
	w.checkRecv = true
	led := &c04Led{e: e, iws: 65535, upd: map[uint32]int64{}, recv: map[uint32]int64{}, data: map[uint32]int64{}, overAt: map[uint32]int64{}, srvRst: map[uint32]http2.ErrCode{}, srvClosed: map[uint32]bool{}, overClosed: map[uint32]bool{}}
	w.hook = led.hook
	p := w.Dial()
	if p == nil {
		e.Violate("harness", "dial failed")
		w.Teardown()
		return
	}
	p.AutoGrant = true
	p.PingAckDelayNs = s.RTTNs
	const maxWin = 1<<31 - 1
	p.OnRx = func(p *Peer, f *tap.Frame) {
		// advertised windows never exceed 2^31-1 (peer's view, RFC 9113 6.9.1)
		switch f.Type {
		case http2.FrameWindowUpdate:
			if f.StreamID == 0 {
				if p.ConnWin > maxWin {
					e.Violate("window_overflow", "the connection window advertised by the server reached %d > 2^31-1 (WINDOW_UPDATE of %d)", p.ConnWin, f.Increment)
				}
			} else if st := p.S[f.StreamID]; st != nil && st.SendWin > maxWin {
				e.Violate("window_overflow", "the window of stream %d advertised by the server reached %d > 2^31-1 (WINDOW_UPDATE of %d)", f.StreamID, st.SendWin, f.Increment)
			}
			if f.Increment > 1<<20 {
				e.Probe("window_update_over_1MiB")
			}
		case http2.FrameSettings:
			for _, id := range sortedU32(p.S) {
				if st := p.S[id]; st.Opened && st.SendWin > maxWin {
					e.Violate("window_overflow", "SETTINGS_INITIAL_WINDOW_SIZE=%d raised the window of stream %d to %d > 2^31-1", p.SrvIWS, id, st.SendWin)
				}
			}
			if !f.Ack() && p.SrvIWS > 65535 && len(p.Settings) > 2 {
				e.Probe("bdp_window_growth")
			}
		}
	}
	p.Preface()
	// the server's SETTINGS (and initial connection WINDOW_UPDATE) must be known
	// before a conforming sender uses the stream window
	p.WaitFor(time.Second, func() bool { return len(p.Settings) > 0 || p.Closed })
	w.Settle()
	recs := make([]*c04Rec, len(s.Streams))
	for i := range s.Streams {
		rec := &c04Rec{spec: &s.Streams[i], tag: uint32(i + 1)}
		recs[i] = rec
		w.helpers.Add(1)
		go func() {
			defer w.helpers.Done()
			c04Send(w, p, s, rec)
		}()
	}
	// long enough for every handler sleep and every fake RTT
	time.Sleep(40 * time.Second)
	w.Settle()

	// ---- oracles ----
	classB := false
	for _, rec := range recs {
		if rec.spec.ExcessBy > 0 {
			classB = true
		}
	}
	anyOver := len(led.overAt) > 0 || led.connOver
	if !anyOver {
		// nothing exceeded any window the server had advertised: no rejection, ever
		for _, id := range sortedU32(p.S) {
			if c, ok := led.srvRst[id]; ok && c == http2.ErrCodeFlowControl {
				e.Violate("conforming_peer_rejected", "stream %d got RST_STREAM(FLOW_CONTROL_ERROR) although the peer stayed within the advertised windows (delivered %d, advertised %d)", id, led.recv[id], led.iws+led.upd[id])
			}
		}
		if len(led.srvGoAway) > 0 || p.Closed {
			e.Violate("conforming_peer_rejected", "the server ended the connection of a peer that stayed within the advertised windows: GOAWAY %v closed=%v (%s)", led.srvGoAway, p.Closed, p.CloseErr)
		}
	}
	for _, rec := range recs {
		if rec.id == 0 {
			continue
		}
		id := rec.id
		st := p.S[id]
		var h *HInv
		if inv := w.invByTag[rec.tag]; len(inv) > 0 {
			h = inv[0]
		}
		if h != nil && h.BadRecv != "" {
			e.Violate("request_payload_mismatch", "stream %d: handler received wrong bytes: %s", id, h.BadRecv)
		}
		if pre, over := led.overAt[id]; over {
			// class B: the excess must be rejected and must not reach the application
			code, rst := led.srvRst[id]
			if led.overClosed[id] {
				e.Probe("excess_on_closed_stream") // dropped with the stream: nothing to reject
			} else if !rec.excessQuiet {
				e.Probe("excess_while_application_reading") // grants may have been decided but not yet written
			} else if !(rst && code == http2.ErrCodeFlowControl) && len(led.srvGoAway) == 0 && !p.Closed {
				e.Violate("excess_not_rejected", "stream %d: the peer exceeded the advertised stream window (delivered %d > advertised %d) but at quiescence there is neither RST_STREAM(FLOW_CONTROL_ERROR) (rst=%v code=%v) nor a connection error", id, led.recv[id], led.iws+led.upd[id], rst, code)
			} else {
				e.Probe("excess_rejected")
			}
			if h != nil {
				// complete messages inside the in-window prefix
				fit, off := 0, int64(0)
				for _, m := range rec.spec.Msgs {
					if off+int64(5+m) > pre {
						break
					}
					off += int64(5 + m)
					fit++
				}
				if len(h.Recvd) > fit {
					e.Violate("excess_delivered", "stream %d: the handler received %d messages but only %d fit into the %d message bytes delivered before the window was exceeded", id, len(h.Recvd), fit, pre)
				}
			}
			continue
		}
		if anyOver {
			continue // a connection error may legitimately end everything
		}
		// class A stream: never wedged
		if st != nil && st.WaitingCredit && st.SendWin <= 0 && h != nil && !h.InRecv && !h.Returned {
			// the handler is not reading: the stream window may legitimately be held
			// back by delivered data it has not consumed, but by nothing else
			consumed := int64(0)
			for _, n := range h.Recvd {
				consumed += int64(5 + n)
			}
			if led.data[id] <= consumed {
				e.Violate("receiver_wedged", "stream %d: at quiescence the peer has no stream window left (%d; it sent %d bytes of padding-only frames) although every one of the %d message bytes delivered so far has been consumed by the handler, which holds without reading: credit for bytes the application never has to read was not returned", id, st.SendWin, rec.padOnlyBytes, led.data[id])
			} else {
				e.Probe("stream_window_held_by_unread_data")
			}
		}
		if st != nil && st.WaitingCredit && h != nil && h.InRecv && !h.Returned {
			e.Violate("receiver_wedged", "stream %d: at quiescence the handler waits in RecvMsg (received %d messages) while the peer has %d more bytes but no credit (stream window %d, connection window %d): a WINDOW_UPDATE was lost", id, len(h.Recvd), c04Total(rec.spec)-rec.sentBytes, st.SendWin, p.ConnWin)
		}
		if st != nil && st.WaitingCredit {
			e.Probe("peer_blocked_at_quiescence_handler_not_reading")
			if p.ConnWin <= 0 && !classB {
				e.Violate("connection_window_wedged", "at quiescence the connection window is %d although connection-level credit does not depend on the application reading (stream %d blocked)", p.ConnWin, id)
			}
		}
		if rec.done && h != nil && rec.spec.HMode == "all" && rec.spec.Declared == 0 {
			if !h.Returned || h.RecvErr != "" || len(h.Recvd) != len(rec.spec.Msgs) {
				e.Violate("conforming_request_lost", "stream %d: the peer sent %d messages within the windows; handler returned=%v received=%d err=%q", id, len(rec.spec.Msgs), h.Returned, len(h.Recvd), h.RecvErr)
			} else {
				e.Probe("request_fully_received")
				// everything delivered has been read: how much of the window is back?
				if st != nil && p.SrvIWS > 0 {
					pct := int(st.SendWin * 100 / p.SrvIWS)
					if pct < 100 {
						e.Probe("window_not_fully_restored_after_read")
					}
					if pct < 75 {
						e.Probe("window_restored_below_75pct")
					}
				}
			}
		}
	}
	if !anyOver && !p.Closed && !classB {
		// connection level: credit does not depend on application reads
		if p.ConnWin <= 0 {
			e.Violate("connection_window_wedged", "at quiescence the connection window advertised to the peer is %d", p.ConnWin)
		}
	}
	if classB && !anyOver {
		e.Probe("intended_excess_was_within_window")
	}
	if led.connOver && len(led.srvGoAway) == 0 && !p.Closed {
		e.Probe("conn_excess_accepted") // RFC 9113 6.9: a receiver MAY reject; grpc-go does not enforce the connection window
	}
	if led.padded > 0 {
		e.ProbeN("padded_data_frames", led.padded)
	}
	w.Teardown()
}

func c04Total(sp *c04Stream) int {
	t := 0
	for _, m := range sp.Msgs {
		t += 5 + m
	}
	if sp.Declared > 0 {
		t += 5 + sp.DeclSent
	}
	return t
}

// c04Send is the sender goroutine of one stream.
func c04Send(w *World, p *Peer, s *c04Scenario, rec *c04Rec) {
	e := w.e
	sp := rec.spec
	time.Sleep(time.Duration(sp.StartNs))
	if p.Closed || p.dead {
		return
	}
	id := p.NextID
	p.NextID += 2
	rec.id = id
	p.Headers(id, ReqFields("/sim.Svc/M", rec.tag), false)
	st := p.stream(id)
	r := core.NewRand(core.Mix(s.Net.Seed, uint64(rec.tag), 77))
	abort := func() bool { return p.Closed || p.dead || st.Ended || st.Rst }
	maxFrame := sp.MaxFrame
	if maxFrame <= 0 || maxFrame > 16384 {
		maxFrame = 16384
	}
	// the byte stream of the request
	var buf []byte
	for k, n := range sp.Msgs {
		buf = append(buf, GrpcMsg(rec.tag, k, n)...)
	}
	if sp.Declared > 0 {
		b := make([]byte, 5+sp.DeclSent)
		binary.BigEndian.PutUint32(b[1:], uint32(sp.Declared))
		tap.FillPat(b[5:], rec.tag, 'c', len(sp.Msgs))
		buf = append(buf, b...)
	}
	// padOnly sends total flow-controlled bytes as PADDED DATA frames without any
	// data, never beyond the credit; false when the stream ended meanwhile
	padOnly := func(total int) bool {
		for total > 0 {
			if abort() {
				return false
			}
			credit := min(st.SendWin, p.ConnWin)
			if credit <= 0 {
				e.Probe("peer_waited_for_credit")
				st.WaitingCredit = true
				p.WaitFor(-1, func() bool { return (st.SendWin > 0 && p.ConnWin > 0) || abort() })
				st.WaitingCredit = false
				continue
			}
			sz := min(1+r.Intn(sp.PadOnlyMax+1), total, int(credit))
			p.Data(id, nil, false, sz-1)
			rec.padOnlyBytes += sz
			total -= sz
			e.Probe("padding_only_frame_sent")
		}
		return true
	}
	gapAt := 0
	if sp.PadOnlyTotal > 0 && len(buf) == 0 {
		rec.padBurstDone = true
		padOnly(sp.PadOnlyTotal)
	}
	for len(buf) > 0 {
		if abort() {
			rec.aborted = true
			return
		}
		if sp.ExcessBy > 0 && !rec.excessTry && rec.sentBytes >= sp.ExcessAt {
			// class B: from here on the peer ignores the window until it has sent
			// ExcessBy bytes more than its credit (frames of at most 16 KiB; junk
			// once the request bytes run out)
			p.Flush()
			time.Sleep(time.Duration(s.Net.LatencyNs)*3 + 20*time.Millisecond)
			credit := st.SendWin
			if sp.ExcessConn {
				credit = p.ConnWin
			}
			rec.excessTry, rec.excessWas = true, int(credit)
			if inv := w.invByTag[rec.tag]; len(inv) == 1 && !inv[0].InRecv && !inv[0].Returned {
				rec.excessQuiet = true
			}
			if credit < 0 || abort() || (sp.ExcessConn && credit+int64(sp.ExcessBy) > st.SendWin) || credit+int64(sp.ExcessBy) > int64(netBudget(s.Net, 300000)) {
				e.Probe("excess_attempt_skipped")
				continue
			}
			e.Logf("peer exceeds %s credit %d by %d on stream %d", map[bool]string{false: "stream", true: "connection"}[sp.ExcessConn], credit, sp.ExcessBy, id)
			e.Probe("excess_frame_sent")
			// junk after the real request: the start of one more message that never
			// completes (declared 4,000,000 bytes), so it cannot be mistaken for data
			junk := []byte{0, 0x00, 0x3d, 0x09, 0x00}
			junkOff := 0
			for left := int(credit) + sp.ExcessBy; left > 0; {
				n := min(left, 16384)
				if !sp.ExcessConn {
					// exceed the stream window only: stay within the connection window
					if p.ConnWin <= 0 {
						p.WaitFor(-1, func() bool { return p.ConnWin > 0 || abort() })
						if abort() {
							return
						}
						continue
					}
					n = min(n, int(p.ConnWin))
				}
				payload := make([]byte, n)
				k := copy(payload, buf)
				buf = buf[k:]
				rec.sentBytes += k
				for ; k < n; k++ {
					if junkOff < len(junk) {
						payload[k] = junk[junkOff]
					}
					junkOff++
				}
				p.Data(id, payload, false, -1)
				left -= n
			}
			return // whatever happens, the peer sends nothing more on this stream
		}
		if sp.PadOnlyTotal > 0 && !rec.padBurstDone && rec.sentBytes >= sp.PadOnlyAt {
			rec.padBurstDone = true
			if !padOnly(sp.PadOnlyTotal) {
				rec.aborted = true
				return
			}
			continue
		}
		if sp.PadOnlyPct > 0 && r.Intn(100) < sp.PadOnlyPct && min(st.SendWin, p.ConnWin) > 0 {
			padOnly(1 + r.Intn(sp.PadOnlyMax+1))
		}
		credit := min(st.SendWin, p.ConnWin)
		if credit <= 0 {
			e.Probe("peer_waited_for_credit")
			st.WaitingCredit = true
			p.WaitFor(-1, func() bool { return (st.SendWin > 0 && p.ConnWin > 0) || abort() })
			st.WaitingCredit = false
			continue
		}
		e.Probe("peer_frame_within_credit")
		n := min(len(buf), maxFrame)
		pad := -1
		if sp.PadPct > 0 && r.Intn(100) < sp.PadPct && credit >= 2 {
			pad = r.Intn(sp.PadMax + 1)
			// the whole frame (pad length byte + data + padding) is flow-controlled
			if int64(1+n+pad) > credit {
				if int64(1+pad) >= credit {
					pad = int(credit) - 2
				}
				n = min(n, int(credit)-1-pad)
			}
			if 1+n+pad > 16384 {
				n = 16384 - 1 - pad
			}
		} else if int64(n) > credit {
			n = int(credit)
		}
		if int64(n) == credit || (pad >= 0 && int64(1+n+pad) == credit) {
			e.Probe("peer_used_every_byte_of_credit")
		}
		last := n == len(buf) && sp.Declared == 0
		p.Data(id, buf[:n], last, pad)
		buf = buf[n:]
		rec.sentBytes += n
		if sp.GapNs > 0 && rec.sentBytes-gapAt > 20000 {
			gapAt = rec.sentBytes
			time.Sleep(time.Duration(sp.GapNs))
		}
	}
	if len(sp.Msgs) == 0 && sp.Declared == 0 {
		p.Data(id, nil, true, -1)
	}
	rec.done = true
	p.WaitFor(-1, func() bool { return st.Ended || st.Rst || p.Closed || p.dead })
}

func init() { core.Register("C04wts", genC04, runC04) }
