package weightedroundrobin

import (
	"fmt"
	"math"
	"strings"
	"sync"
	"sync/atomic"
	"time"
	"unsafe"

	v3orcapb "github.com/cncf/xds/go/xds/data/orca/v3"
	"google.golang.org/grpc/balancer"
	"google.golang.org/grpc/connectivity"
	iserviceconfig "google.golang.org/grpc/internal/serviceconfig"
	istats "google.golang.org/grpc/internal/stats"
	"google.golang.org/grpc/internal/zzverif/core"
	"google.golang.org/grpc/resolver"
)

// C36 weighted round robin.
//
// Simulation part (decides the clauses that involve time and schedules): the
// registered weighted_round_robin policy (endpointsharding + pick_first
// children underneath) is built through its balancer.Builder on a recording
// fake ClientConn. A timeline on the fake clock delivers resolver updates
// (endpoint set, config: blackout / expiration / update period / penalty /
// OOB on-off), connection losses (the endpoint reconnects and starts over),
// backend load changes, per-call load reports (Pick + Done with an ORCA
// report, from the timeline goroutine and from bursts of concurrent picker
// goroutines) and out-of-band reports (through the real orca producer on a
// scripted stream). Event times sit on a grid that coincides with the weight
// update ticker. After every instant the scheduler of the published picker is
// read and compared with a reference of gRFC A58 evaluated at the picker's
// latest update instant (creation, then every weight_update_period):
//
//	weight = qps/(utilization + eps/qps*penalty) of the latest usable report
//	0 before the first report since the endpoint (re)connected
//	0 if now-last_report >= expiration (and the blackout starts over)
//	0 if now-first_report < blackout
//
// Rider (pure, input generation only): scheduler arithmetic, see c36Rider.

type c36Cfg struct {
	OOB        bool    `json:"oob,omitempty"`
	OOBMs      int64   `json:"oob_ms,omitempty"`
	BlackoutMs int64   `json:"blackout_ms"`
	ExpireMs   int64   `json:"expire_ms"`
	UpdateMs   int64   `json:"update_ms"`
	Penalty    float64 `json:"penalty"`
}

type c36Load struct {
	Qps float64 `json:"qps"`
	Eps float64 `json:"eps,omitempty"`
	App float64 `json:"app,omitempty"`
	Cpu float64 `json:"cpu,omitempty"`
}

type c36Ev struct {
	AtMs int64    `json:"at_ms"`
	Kind string   `json:"kind"` // resolver | down | load | call | burst | oob | observe
	Ep   int      `json:"ep,omitempty"`
	Eps  []int    `json:"eps,omitempty"`
	Cfg  *c36Cfg  `json:"cfg,omitempty"`
	Load *c36Load `json:"load,omitempty"`
	N    int      `json:"n,omitempty"` // call: number of picks; burst: picks per goroutine
	G    int      `json:"g,omitempty"` // burst: goroutines
}

type c36Rider struct {
	Weights []float64 `json:"weights,omitempty"`
	Start   uint32    `json:"start,omitempty"`
	Full    bool      `json:"full,omitempty"` // walk a whole period of 65535*n sequence numbers
	Picks   int       `json:"picks,omitempty"`
}

type c36Scenario struct {
	Sched core.Sched `json:"sched"`
	NEp   int        `json:"n_ep"`
	Evs   []c36Ev    `json:"evs"`
	Rider c36Rider   `json:"rider"`
}

func (s *c36Scenario) SchedP() *core.Sched { return &s.Sched }
func (s *c36Scenario) Shape() string {
	k := map[string]int{}
	for _, ev := range s.Evs {
		k[ev.Kind]++
	}
	return fmt.Sprintf("ep=%d res=%d down=%d load=%d call=%d burst=%d oob=%d rider=%d/%v", s.NEp, k["resolver"], k["down"], k["load"], k["call"], k["burst"], k["oob"], len(s.Rider.Weights), s.Rider.Full)
}
func (s *c36Scenario) Validate() error {
	if s.NEp < 1 || s.NEp > 8 {
		return fmt.Errorf("bad endpoint count")
	}
	last := int64(0)
	for i, ev := range s.Evs {
		if ev.AtMs < last || ev.Ep < 0 || ev.Ep >= s.NEp || ev.N < 0 || ev.G < 0 || ev.N > 1000 || ev.G > 16 {
			return fmt.Errorf("bad event %d", i)
		}
		last = ev.AtMs
		switch ev.Kind {
		case "resolver":
			if ev.Cfg == nil || ev.Cfg.UpdateMs < 100 || ev.Cfg.BlackoutMs < 0 || ev.Cfg.ExpireMs < 0 || ev.Cfg.Penalty < 0 || ev.Cfg.OOBMs < 0 {
				return fmt.Errorf("bad config in event %d", i)
			}
			seen := map[int]bool{}
			for _, x := range ev.Eps {
				if x < 0 || x >= s.NEp || seen[x] {
					return fmt.Errorf("bad endpoint list in event %d", i)
				}
				seen[x] = true
			}
		case "load":
			if ev.Load == nil || ev.Load.Qps < 0 || ev.Load.Eps < 0 || ev.Load.App < 0 || ev.Load.Cpu < 0 {
				return fmt.Errorf("bad load in event %d", i)
			}
		case "down", "call", "burst", "oob", "observe":
		default:
			return fmt.Errorf("bad kind %q", ev.Kind)
		}
	}
	if len(s.Evs) == 0 || s.Evs[0].Kind != "resolver" {
		return fmt.Errorf("first event must be a resolver update")
	}
	for _, w := range s.Rider.Weights {
		if w < 0 || math.IsNaN(w) || math.IsInf(w, 0) {
			return fmt.Errorf("bad rider weight")
		}
	}
	if len(s.Rider.Weights) > 6 || s.Rider.Picks < 0 || s.Rider.Picks > 100000 {
		return fmt.Errorf("bad rider")
	}
	return nil
}

func c36GenCfg(r *core.Rand) *c36Cfg {
	c := &c36Cfg{
		BlackoutMs: core.Pick(r, int64(0), 0, 0, 100, 300, 500, 1000, 2000),
		ExpireMs:   core.Pick(r, int64(300), 500, 1000, 2000, 3000, 180000),
		UpdateMs:   core.Pick(r, int64(100), 100, 200, 500, 1000),
		Penalty:    core.Pick(r, 1.0, 1.0, 0, 0.5, 2, 10),
	}
	if r.Chance(1, 3) {
		c.OOB, c.OOBMs = true, core.Pick(r, int64(100), 1000, 10000)
	}
	return c
}

func c36GenLoad(r *core.Rand) *c36Load {
	l := &c36Load{Qps: float64(r.Range(1, 40)) * core.Pick(r, 1.0, 1.0, 10, 0.5)}
	switch r.Intn(6) {
	case 0:
		l.Cpu = float64(r.Range(1, 20)) / 20
	case 1:
		l.App, l.Cpu = float64(r.Range(1, 30))/20, float64(r.Range(1, 20))/20
	default:
		l.App = float64(r.Range(1, 20)) / 20
	}
	if r.Chance(1, 3) {
		l.Eps = float64(r.Intn(int(l.Qps) + 1))
	}
	if r.Chance(1, 10) {
		// unusable report
		if r.Chance(1, 2) {
			l.Qps = 0
		} else {
			l.App, l.Cpu = 0, 0
		}
	}
	return l
}

func genC36(seed uint64, tier string) *c36Scenario {
	r := core.NewRand(seed)
	s := &c36Scenario{Sched: simGenSched(r, seed)}
	s.NEp = core.Pick(r, 1, 2, 2, 3, 3, 4, 5)
	all := func() []int {
		var xs []int
		for i := 0; i < s.NEp; i++ {
			xs = append(xs, i)
		}
		return xs
	}
	subset := func() []int {
		xs := all()
		if r.Chance(1, 2) {
			return xs
		}
		var out []int
		for _, x := range xs {
			if r.Chance(3, 4) {
				out = append(out, x)
			}
		}
		if len(out) == 0 {
			out = xs[:1]
		}
		// order of the resolver list varies
		for i := len(out) - 1; i > 0; i-- {
			j := r.Intn(i + 1)
			out[i], out[j] = out[j], out[i]
		}
		return out
	}
	cfg := c36GenCfg(r)
	s.Evs = append(s.Evs, c36Ev{AtMs: 0, Kind: "resolver", Eps: subset(), Cfg: cfg})
	for i := 0; i < s.NEp; i++ {
		s.Evs = append(s.Evs, c36Ev{AtMs: 0, Kind: "load", Ep: i, Load: c36GenLoad(r)})
	}
	if r.Chance(3, 4) {
		// every endpoint reports early, so that weights become usable
		for i := 0; i < s.NEp; i++ {
			s.Evs = append(s.Evs, c36Ev{AtMs: 0, Kind: "oob", Ep: i})
		}
		s.Evs = append(s.Evs, c36Ev{AtMs: 0, Kind: "call", N: 2 * s.NEp})
	}
	n := r.Range(8, 30)
	if tier == "thorough" {
		n = r.Range(15, 80)
	}
	t := int64(0)
	grid := core.Pick(r, int64(50), 100, 100, 100, 250)
	for i := 0; i < n; i++ {
		switch r.Intn(10) {
		case 0, 1, 2:
			// same instant
		case 3:
			t += int64(r.Intn(40)) // off the grid
		default:
			t += grid * int64(core.Pick(r, 1, 1, 1, 2, 3, 5, 10, 20))
			if r.Chance(1, 12) {
				t += 1000 * int64(r.Range(1, 4))
			}
		}
		ev := c36Ev{AtMs: t, Ep: r.Intn(s.NEp)}
		switch d := r.Intn(40); {
		case d < 3:
			ev.Kind, ev.Eps = "resolver", subset()
			if r.Chance(1, 2) {
				cfg = c36GenCfg(r)
			}
			ev.Cfg = cfg
		case d < 6:
			ev.Kind = "down"
		case d < 10:
			ev.Kind, ev.Load = "load", c36GenLoad(r)
		case d < 22:
			ev.Kind, ev.N = "call", core.Pick(r, 1, 1, 2, 3, 5, 8)
		case d < 26:
			ev.Kind, ev.G, ev.N = "burst", r.Range(2, 4), core.Pick(r, 1, 2, 5, 20)
		case d < 34:
			ev.Kind = "oob"
		default:
			ev.Kind = "observe"
		}
		s.Evs = append(s.Evs, ev)
	}
	s.Evs = append(s.Evs, c36Ev{AtMs: t + cfg.UpdateMs, Kind: "observe"}, c36Ev{AtMs: t + 2*cfg.UpdateMs + cfg.BlackoutMs, Kind: "observe"})

	// rider
	nw := core.Pick(r, 1, 2, 2, 3, 3, 4, 6)
	for i := 0; i < nw; i++ {
		var w float64
		switch r.Intn(8) {
		case 0:
			w = 0
		case 1:
			w = 1
		case 2:
			w = float64(r.Range(1, 1000)) * 1e-3
		case 3:
			w = float64(r.Range(1, 1000)) * 1e3
		default:
			w = float64(r.Range(1, 100))
		}
		s.Rider.Weights = append(s.Rider.Weights, w)
	}
	if r.Chance(1, 8) {
		// all equal
		for i := range s.Rider.Weights {
			s.Rider.Weights[i] = s.Rider.Weights[0]
		}
	}
	s.Rider.Start = uint32(r.Uint64())
	if r.Chance(1, 6) {
		s.Rider.Start = math.MaxUint32 - uint32(r.Intn(100000))
	}
	s.Rider.Picks = r.Range(10, 400)
	full := 24
	if tier == "thorough" {
		full = 8
	}
	if nw <= 3 && r.Chance(1, full) {
		s.Rider.Full = true
	}
	return s
}

// ---- reference ----

const c36Unset = int64(-1)

// c36Cand is one possible state of an endpoint's weight bookkeeping.
type c36Cand struct {
	has   bool
	lastT int64 // time of the latest usable report
	w     float64
	nes   int64 // start of the current uninterrupted run of reports (blackout reference), or unset
}

type c36Step struct {
	kind string // report | reset | eval
	w    float64
	pk   *c36Picker
}

type c36Ep struct {
	idx     int
	present bool
	load    c36Load
	cands   []c36Cand
	steps   []c36Step // of the current instant
}

type c36Picker struct {
	p      *picker
	t0     int64
	cfg    c36Cfg
	eps    []int       // endpoint index of each weightedPicker
	expect [][]float64 // acceptable weights per endpoint at the latest update
	lastU  int64
	nextU  int64 // next ticker instant (only with >= 2 endpoints)
}

func c36AddCand(cs []c36Cand, c c36Cand) []c36Cand {
	for _, x := range cs {
		if x == c {
			return cs
		}
	}
	return append(cs, c)
}

func c36AddW(ws []float64, w float64) []float64 {
	for _, x := range ws {
		if x == w {
			return ws
		}
	}
	return append(ws, w)
}

// c36Eval: acceptable weights of the state at an update at time t, and the
// states after it (an update that finds the report expired restarts the
// blackout). Exact coincidences with a period end go both ways.
func c36Eval(cs []c36Cand, t int64, cfg *c36Cfg) (ws []float64, after []c36Cand) {
	E, B := cfg.ExpireMs*1e6, cfg.BlackoutMs*1e6
	for _, c := range cs {
		if !c.has {
			ws = c36AddW(ws, 0)
			after = c36AddCand(after, c)
			continue
		}
		age := t - c.lastT
		if age >= E {
			ws = c36AddW(ws, 0)
			x := c
			x.nes = c36Unset
			after = c36AddCand(after, x)
			if age > E {
				continue
			}
		}
		after = c36AddCand(after, c)
		if B != 0 && (c.nes == c36Unset || t-c.nes <= B) {
			ws = c36AddW(ws, 0)
			if c.nes == c36Unset || t-c.nes < B {
				continue
			}
		}
		ws = c36AddW(ws, c.w)
	}
	return ws, after
}

// c36Report applies a usable report at time t. If the previous report was
// older than the expiration period and no update has noticed, both readings
// (blackout restarts / does not restart) are kept.
func c36Report(cs []c36Cand, t int64, w float64, cfg *c36Cfg) []c36Cand {
	var out []c36Cand
	for _, c := range cs {
		x := c
		if c.has && c.nes != c36Unset && t-c.lastT >= cfg.ExpireMs*1e6 {
			y := c
			y.has, y.lastT, y.w, y.nes = true, t, w, t
			out = c36AddCand(out, y)
		}
		x.has, x.lastT, x.w = true, t, w
		if x.nes == c36Unset {
			x.nes = t
		}
		out = c36AddCand(out, x)
	}
	return out
}

// c36Weight is the A58 formula; ok=false for a report that carries no usable
// weight.
func c36Weight(l *c36Load, penalty float64) (float64, bool) {
	util := l.App
	if util == 0 {
		util = l.Cpu
	}
	if util == 0 || l.Qps == 0 {
		return 0, false
	}
	return l.Qps / (util + l.Eps/l.Qps*penalty), true
}

// c36Sched is the reference of the scheduler choice for a weight vector:
// scaled so that the largest weight is 65535; zero weights get the mean of the
// others; round robin when fewer than two are non-zero or all are equal.
func c36Sched(ws []float64) (rr bool, scaled []float64) {
	n := len(ws)
	nz, max, sum := 0, 0.0, 0.0
	for _, w := range ws {
		if w > 0 {
			nz++
			sum += w
			if w > max {
				max = w
			}
		}
	}
	if n < 2 || nz < 2 {
		return true, nil
	}
	mean := sum / float64(nz)
	scaled = make([]float64, n)
	for i, w := range ws {
		if w == 0 {
			w = mean
		}
		scaled[i] = w * 65535 / max
	}
	return false, scaled
}

// c36Match: does the observed scheduler fit one of the acceptable weight vectors?
func c36Match(obs scheduler, sets [][]float64) (bool, string) {
	n := len(sets)
	idx := make([]int, n)
	ws := make([]float64, n)
	var tried []string
	for iter := 0; iter < 5000; iter++ {
		for i := range ws {
			ws[i] = sets[i][idx[i]]
		}
		rr, scaled := c36Sched(ws)
		switch o := obs.(type) {
		case *rrScheduler:
			if int(o.numSCs) == n {
				if rr {
					return true, ""
				}
				lo, hi := math.Inf(1), math.Inf(-1)
				for _, x := range scaled {
					lo, hi = math.Min(lo, math.Round(x)), math.Max(hi, math.Round(x))
				}
				if hi-lo <= 1 {
					return true, ""
				}
			}
		case *edfScheduler:
			if !rr && len(o.weights) == n {
				ok := true
				for i, x := range scaled {
					if math.Abs(float64(o.weights[i])-x) > 1.0 {
						ok = false
					}
				}
				if ok {
					return true, ""
				}
			}
		}
		if len(tried) < 4 {
			if rr {
				tried = append(tried, fmt.Sprintf("%v->rr", ws))
			} else {
				tried = append(tried, fmt.Sprintf("%v->%.1f", ws, scaled))
			}
		}
		k := 0
		for k < n {
			idx[k]++
			if idx[k] < len(sets[k]) {
				break
			}
			idx[k] = 0
			k++
		}
		if k == n {
			break
		}
	}
	return false, strings.Join(tried, "; ")
}

func c36SchedString(s scheduler) string {
	switch o := s.(type) {
	case *rrScheduler:
		return fmt.Sprintf("rr(%d)", o.numSCs)
	case *edfScheduler:
		return fmt.Sprintf("edf%v", o.weights)
	}
	return fmt.Sprintf("%T", s)
}

type c36World struct {
	e    *core.Env
	cc   *simCC
	b    *wrrBalancer
	eps  []*c36Ep
	cfg  c36Cfg
	live *c36Picker // published wrr picker (nil: none)
	// tick: the picker whose ticker fires at the current instant
	tick      *c36Picker
	tickA     [][]c36Cand // per endpoint of tick: states in which the tick has not happened yet
	tickW     [][]float64 // acceptable weights collected for the tick
	now       int64
	t0        time.Time
	instEvals int
}

func (w *c36World) ns() int64 { return int64(time.Since(w.t0)) }

func (w *c36World) epOfAddr(addr string) int {
	var i int
	fmt.Sscanf(addr, "ep%d", &i)
	return i
}

func c36Endpoint(i int) resolver.Endpoint {
	return resolver.Endpoint{Addresses: []resolver.Address{{Addr: fmt.Sprintf("ep%d", i)}}}
}

// onState: a picker was published (called inside the policy, b.mu held).
func (w *c36World) onState(s balancer.State) {
	p, ok := s.Picker.(*picker)
	if !ok {
		if w.live != nil {
			w.e.Logf("wrr picker withdrawn")
		}
		w.live = nil
		return
	}
	ewToEp := map[*endpointWeight]int{}
	for ep, ew := range w.b.endpointToWeight.All() {
		ewToEp[ew] = w.epOfAddr(ep.Addresses[0].Addr)
	}
	pk := &c36Picker{p: p, t0: w.ns(), cfg: w.cfg}
	for _, wp := range p.weightedPickers {
		i, ok := ewToEp[wp.weightedEndpoint]
		if !ok {
			w.e.Violate("harness", "picker refers to an unknown endpoint weight")
			i = 0
		}
		pk.eps = append(pk.eps, i)
		// the creation evaluates every endpoint of the picker now
		w.eps[i].steps = append(w.eps[i].steps, c36Step{kind: "eval", pk: pk})
	}
	pk.expect = make([][]float64, len(pk.eps))
	pk.lastU = pk.t0
	if len(pk.eps) >= 2 {
		pk.nextU = pk.t0 + pk.cfg.UpdateMs*1e6
	} else {
		pk.nextU = math.MaxInt64
	}
	w.live = pk
	w.e.Logf("wrr picker over %v period %dms", pk.eps, pk.cfg.UpdateMs)
	w.e.Probe("picker_published")
}

// fold processes the steps of the instant that ends now for every endpoint.
func (w *c36World) fold() {
	t := w.now
	for _, ep := range w.eps {
		ti := -1
		if w.tick != nil {
			for k, x := range w.tick.eps {
				if x == ep.idx {
					ti = k
				}
			}
		}
		// A: the coincident tick has not happened yet; B: it has (or there is none)
		var A, B []c36Cand
		var tw []float64
		tcfg := &w.cfg
		if ti >= 0 {
			A = ep.cands
			tcfg = &w.tick.cfg
		} else {
			B = ep.cands
		}
		boundary := func() {
			if ti < 0 {
				return
			}
			ws, after := c36Eval(A, t, tcfg)
			for _, x := range ws {
				tw = c36AddW(tw, x)
			}
			for _, c := range after {
				B = c36AddCand(B, c)
			}
		}
		for _, st := range ep.steps {
			boundary()
			switch st.kind {
			case "report":
				A, B = c36Report(A, t, st.w, &w.cfg), c36Report(B, t, st.w, &w.cfg)
			case "reset":
				fresh := []c36Cand{{nes: c36Unset}}
				if len(A) > 0 {
					A = fresh
				}
				B = fresh
			case "eval":
				var ws []float64
				var nA, nB []c36Cand
				if len(A) > 0 {
					ws, nA = c36Eval(A, t, &st.pk.cfg)
				}
				if len(B) > 0 {
					var ws2 []float64
					ws2, nB = c36Eval(B, t, &st.pk.cfg)
					for _, x := range ws2 {
						ws = c36AddW(ws, x)
					}
				}
				A, B = nA, nB
				for k, x := range st.pk.eps {
					if x == ep.idx {
						st.pk.expect[k] = ws
					}
				}
			}
		}
		boundary()
		if ti >= 0 {
			if w.tick == w.live {
				// the ticker goroutine has run by now
				w.tick.expect[ti] = tw
				ep.cands = B
			} else {
				// the picker was replaced during this instant: its last tick may not have happened
				cs := B
				for _, c := range A {
					cs = c36AddCand(cs, c)
				}
				ep.cands = cs
			}
		} else {
			ep.cands = B
		}
		if len(ep.cands) > 1 {
			w.e.Probe("model_ambiguous_state")
		}
		if len(ep.cands) > 64 {
			ep.cands = ep.cands[:64] // cannot happen with the generated timelines
			w.e.Violate("harness", "reference state explosion")
		}
		ep.steps = nil
	}
	if w.tick != nil && w.tick == w.live {
		w.tick.lastU = t
		w.tick.nextU = t + w.tick.cfg.UpdateMs*1e6
		w.e.Probe("tick_coincides_with_events")
	}
	w.tick = nil
}

// quietTicks processes ticker instants strictly before t (no other event there).
func (w *c36World) quietTicks(t int64) {
	for w.live != nil && w.live.nextU < t {
		u := w.live.nextU
		for k, i := range w.live.eps {
			ws, after := c36Eval(w.eps[i].cands, u, &w.live.cfg)
			w.live.expect[k] = ws
			w.eps[i].cands = after
		}
		w.live.lastU = u
		w.live.nextU = u + w.live.cfg.UpdateMs*1e6
		w.e.Probe("tick_quiet")
	}
}

func (w *c36World) observe(what string) {
	pk := w.live
	if pk == nil {
		return
	}
	sp := (*scheduler)(atomic.LoadPointer(&pk.p.scheduler))
	if sp == nil || *sp == nil {
		w.e.Violate("weight_timeline", "%s: published picker has no scheduler", what)
		return
	}
	obs := *sp
	for k := range pk.expect {
		if len(pk.expect[k]) == 0 {
			w.e.Violate("harness", "%s: no expectation for endpoint %d", what, pk.eps[k])
			return
		}
	}
	ok, tried := c36Match(obs, pk.expect)
	nonzero := 0
	for _, s := range pk.expect {
		for _, x := range s {
			if x > 0 {
				nonzero++
				break
			}
		}
	}
	if nonzero >= 2 {
		w.e.Probe("two_or_more_usable_weights")
	}
	if _, isEdf := obs.(*edfScheduler); isEdf {
		w.e.Probe("edf_in_force")
	}
	w.e.Logf("%s: scheduler %s at update %dms, acceptable weights %v", what, c36SchedString(obs), pk.lastU/1e6, pk.expect)
	if !ok {
		w.e.Violate("weight_timeline", "%s: scheduler in force is %s (endpoints %v, last weight update at %d ms, blackout %d ms, expiration %d ms, period %d ms); the load reports give per-endpoint weights %v, i.e. %s", what, c36SchedString(obs), pk.eps, pk.lastU/1e6, pk.cfg.BlackoutMs, pk.cfg.ExpireMs, pk.cfg.UpdateMs, pk.expect, tried)
	}
}

func (w *c36World) report(ep int, l *c36Load, how string) {
	if wt, ok := c36Weight(l, w.cfg.Penalty); ok {
		w.eps[ep].steps = append(w.eps[ep].steps, c36Step{kind: "report", w: wt})
		w.e.Logf("report %s ep%d weight %v", how, ep, wt)
		w.e.Probe("report_" + how)
	} else {
		w.e.Probe("report_unusable")
	}
}

func c36Proto(l *c36Load) *v3orcapb.OrcaLoadReport {
	return &v3orcapb.OrcaLoadReport{RpsFractional: l.Qps, Eps: l.Eps, ApplicationUtilization: l.App, CpuUtilization: l.Cpu}
}

// pick does one Pick + Done on the published picker. It may be called from
// any goroutine.
func (w *c36World) pick(who string, withLoad bool) {
	st := w.cc.last
	pk := w.live
	res, err := st.Picker.Pick(balancer.PickInfo{FullMethodName: "/s/m"})
	if err != nil {
		if st.ConnectivityState == connectivity.Ready {
			w.e.Violate("pick_valid", "%s: pick on a READY picker failed: %v", who, err)
		}
		return
	}
	sc, _ := res.SubConn.(*simSC)
	if sc == nil {
		w.e.Violate("pick_valid", "%s: pick returned no SubConn", who)
		return
	}
	ep := w.epOfAddr(sc.addr)
	if pk != nil {
		in := false
		for _, x := range pk.eps {
			if x == ep {
				in = true
			}
		}
		if !in || sc.state != connectivity.Ready || sc.shut {
			w.e.Violate("pick_valid", "%s: pick returned %v (state %v) which is not one of the picker's READY endpoints %v", who, sc, sc.state, pk.eps)
		}
	}
	if res.Done != nil {
		di := balancer.DoneInfo{}
		l := w.eps[ep].load
		if withLoad {
			di.ServerLoad = c36Proto(&l)
		}
		res.Done(di)
		if withLoad && pk != nil && !pk.cfg.OOB {
			w.report(ep, &l, "per_call")
		}
	}
}

func runC36(e *core.Env, s *c36Scenario) {
	c36RunRider(e, &s.Rider)

	w := &c36World{e: e, t0: time.Now()}
	w.cc = newSimCC(e)
	for i := 0; i < s.NEp; i++ {
		w.eps = append(w.eps, &c36Ep{idx: i, load: c36Load{}})
	}
	w.b = bb{}.Build(w.cc, balancer.BuildOptions{}).(*wrrBalancer)
	w.cc.onState = w.onState
	w.cc.onDeliver = func(sc *simSC, st connectivity.State) {
		if st == connectivity.Ready {
			ep := w.eps[w.epOfAddr(sc.addr)]
			ep.steps = append(ep.steps, c36Step{kind: "reset"})
			e.Probe("endpoint_connected")
		}
	}

	i := 0
	for i < len(s.Evs) {
		t := s.Evs[i].AtMs * 1e6
		if d := t - w.ns(); d > 0 {
			time.Sleep(time.Duration(d))
		}
		w.now = w.ns()
		w.quietTicks(w.now)
		if w.live != nil && w.live.nextU == w.now {
			w.tick = w.live
		}
		for ; i < len(s.Evs) && s.Evs[i].AtMs*1e6 == t; i++ {
			ev := &s.Evs[i]
			e.Logf("ev %d %s ep%d", i, ev.Kind, ev.Ep)
			switch ev.Kind {
			case "resolver":
				w.cfg = *ev.Cfg
				lc := &lbConfig{
					EnableOOBLoadReport:     ev.Cfg.OOB,
					BlackoutPeriod:          iserviceconfig.Duration(time.Duration(ev.Cfg.BlackoutMs) * time.Millisecond),
					WeightExpirationPeriod:  iserviceconfig.Duration(time.Duration(ev.Cfg.ExpireMs) * time.Millisecond),
					WeightUpdatePeriod:      iserviceconfig.Duration(time.Duration(ev.Cfg.UpdateMs) * time.Millisecond),
					ErrorUtilizationPenalty: ev.Cfg.Penalty,
				}
				if ev.Cfg.OOB {
					lc.OOBReportingPeriod = iserviceconfig.Duration(time.Duration(ev.Cfg.OOBMs) * time.Millisecond)
				}
				var rs resolver.State
				in := map[int]bool{}
				for _, x := range ev.Eps {
					rs.Endpoints = append(rs.Endpoints, c36Endpoint(x))
					in[x] = true
				}
				for _, ep := range w.eps {
					if in[ep.idx] && !ep.present {
						ep.steps = append(ep.steps, c36Step{kind: "reset"})
					}
					ep.present = in[ep.idx]
				}
				if err := w.b.UpdateClientConnState(balancer.ClientConnState{ResolverState: rs, BalancerConfig: lc}); err != nil {
					e.Violate("harness", "UpdateClientConnState: %v", err)
				}
			case "down":
				for _, sc := range w.cc.subs {
					if !sc.shut && sc.state == connectivity.Ready && w.epOfAddr(sc.addr) == ev.Ep {
						e.Probe("connection_lost")
						e.Fault("connection_lost")
						sc.deliver(connectivity.Idle, nil)
					}
				}
			case "load":
				w.eps[ev.Ep].load = *ev.Load
			case "call":
				for k := 0; k < ev.N; k++ {
					w.pick(fmt.Sprintf("ev%d.%d", i, k), true)
				}
			case "burst":
				pk := w.live
				var idx0 uint32
				var sp0 unsafe.Pointer
				if pk != nil {
					idx0, sp0 = pk.p.idx.Load(), (atomic.LoadPointer(&pk.p.scheduler))
				}
				var wg sync.WaitGroup
				for g := 0; g < ev.G; g++ {
					wg.Add(1)
					go func() {
						defer wg.Done()
						for k := 0; k < ev.N; k++ {
							w.pick(fmt.Sprintf("ev%d.g%d.%d", i, g, k), k%2 == 0)
						}
					}()
				}
				wg.Wait()
				e.Probe("burst")
				if pk != nil && pk == w.live {
					idx1, sp1 := pk.p.idx.Load(), (atomic.LoadPointer(&pk.p.scheduler))
					if sp0 != sp1 {
						e.Probe("scheduler_replaced_during_burst")
					} else if idx1 >= idx0 {
						used, picks, n := int(idx1-idx0), ev.G*ev.N, len(pk.eps)
						if used > n*(picks+1) {
							e.Violate("pick_terminates_within_n", "ev %d: %d picks on %s consumed %d sequence numbers (n=%d)", i, picks, c36SchedString(*(*scheduler)(sp1)), used, n)
						}
					}
				}
			case "oob":
				sent := false
				for _, sc := range w.cc.subs {
					if sc.shut || sc.state != connectivity.Ready || w.epOfAddr(sc.addr) != ev.Ep {
						continue
					}
					if st := sc.liveStream(); st != nil {
						l := w.eps[ev.Ep].load
						before := st.recvs
						st.push(c36Proto(&l))
						w.cc.settle()
						if st.recvs == before+1 {
							w.report(ev.Ep, &l, "oob")
							sent = true
						} else {
							e.Probe("oob_report_not_consumed")
						}
					}
				}
				if !sent {
					e.Probe("oob_without_stream")
				}
			case "observe":
			}
			w.cc.settle()
		}
		w.fold()
		w.observe(fmt.Sprintf("t=%dms", w.now/1e6))
	}
	w.b.Close()
	w.cc.settle()
	time.Sleep(time.Second)
	w.cc.settle()
}

func init() { core.Register("C36", genC36, runC36) }

// ---- rider: scheduler arithmetic (pure function of the weight vector) ----

type c36Stuck struct{}

var c36NoMetrics = istats.NewMetricsRecorderList(nil)

func c36RunRider(e *core.Env, rd *c36Rider) {
	n := len(rd.Weights)
	if n == 0 {
		return
	}
	now := time.Now()
	p := &picker{cfg: &lbConfig{WeightExpirationPeriod: iserviceconfig.Duration(time.Hour)}}
	for _, wt := range rd.Weights {
		ew := &endpointWeight{weightVal: wt, cfg: p.cfg, metricsRecorder: c36NoMetrics}
		if wt > 0 {
			ew.lastUpdated, ew.nonEmptySince = now, now
		}
		p.weightedPickers = append(p.weightedPickers, pickerWeightedEndpoint{weightedEndpoint: ew})
	}
	p.idx.Store(rd.Start)
	sch := p.newScheduler(false)
	sets := make([][]float64, n)
	for i, wt := range rd.Weights {
		sets[i] = []float64{wt}
	}
	if ok, tried := c36Match(sch, sets); !ok {
		e.Violate("rider_scheduler_choice", "weights %v give scheduler %s; reference: %s", rd.Weights, c36SchedString(sch), tried)
		return
	}
	ws := make([]uint64, n)
	if o, ok := sch.(*edfScheduler); ok {
		for i, x := range o.weights {
			ws[i] = uint64(x)
		}
		e.Probe("rider_edf")
	} else {
		for i := range ws {
			ws[i] = 1
		}
		e.Probe("rider_rr")
	}
	picks := rd.Picks
	period := uint64(65535) * uint64(n)
	if _, rr := sch.(*rrScheduler); rr {
		period = uint64(n)
	}
	wraps := uint64(rd.Start)+period+uint64(n) >= 1<<32
	if rd.Full && !wraps {
		e.Probe("rider_full_period")
		picks = 0
	}
	// same weights, same nextIndex, but a plain counter as the sequence source
	// (no atomics: the rider needs no scheduling points)
	ctr := rd.Start
	inPick := 0
	inc := func() uint32 {
		ctr++
		if inPick++; inPick > 8*n+64 {
			panic(c36Stuck{})
		}
		return ctr
	}
	defer func() {
		if r := recover(); r != nil {
			if _, ok := r.(c36Stuck); !ok {
				panic(r)
			}
			e.Violate("rider_pick_terminates", "weights %v (%s): a pick from sequence number %d did not terminate within %d sequence numbers (n=%d)", rd.Weights, c36SchedString(sch), ctr-uint32(inPick), inPick, n)
		}
	}()
	var run scheduler
	switch o := sch.(type) {
	case *edfScheduler:
		run = &edfScheduler{weights: o.weights, inc: inc}
	case *rrScheduler:
		run = &rrScheduler{numSCs: o.numSCs, inc: inc}
	default:
		e.Violate("rider_scheduler_choice", "unknown scheduler %T", sch)
		return
	}
	counts := make([]uint64, n)
	// synchronise with a picked position first, then count
	run.nextIndex()
	inPick = 0
	start := ctr
	prev := start
	for k := 0; ; k++ {
		if rd.Full && !wraps {
			if uint64(prev-start) >= period {
				break
			}
		} else if k >= picks {
			break
		}
		inPick = 0
		i := run.nextIndex()
		cur := ctr
		if i < 0 || i >= n {
			e.Violate("rider_pick_terminates", "nextIndex returned %d for %d endpoints", i, n)
			return
		}
		if cur > prev && int(cur-prev) > n {
			e.Violate("rider_pick_terminates", "weights %v (%s): a pick consumed %d sequence numbers (from %d), more than n=%d", rd.Weights, c36SchedString(sch), cur-prev, prev, n)
			return
		}
		counts[i]++
		prev = cur
	}
	if rd.Full && !wraps {
		if uint64(prev-start) != period {
			e.Violate("rider_proportional", "weights %v (%s): the window of %d sequence numbers from a picked position does not end on a picked position (ended after %d)", rd.Weights, c36SchedString(sch), period, prev-start)
			return
		}
		for i := 0; i < n; i++ {
			for j := i + 1; j < n; j++ {
				if counts[i]*ws[j] != counts[j]*ws[i] {
					e.Violate("rider_proportional", "weights %v (%s): over %d consecutive sequence numbers endpoint %d was chosen %d times and endpoint %d %d times, not in proportion %d:%d", rd.Weights, c36SchedString(sch), period, i, counts[i], j, counts[j], ws[i], ws[j])
					return
				}
			}
		}
	}
}
