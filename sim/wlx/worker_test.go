// Package wlx is the LB-policy world for the xDS policies: the real priority
// and outlier_detection balancers (obtained through balancer.Get, i.e. behind
// balancer.Builder) are driven through a recording fake balancer.ClientConn /
// SubConn implemented here, with stub child policies registered once under
// unique names. Resolver/config updates, child state updates, call results
// (picker Done callbacks) and the policies' own timers (fake clock) are the
// stimuli; there is no network and no real channel.
//
// Balancer API contract kept by the harness: every call INTO one policy
// instance (UpdateClientConnState, ResolverError, ExitIdle, Close, SubConn
// state / health listeners) is made by the run's root goroutine, hence never
// concurrently with another; child policies, the policies' timers and the
// Pick()/Done() callers run on their own goroutines.
package wlx

import (
	"io"
	"testing"

	"google.golang.org/grpc/grpclog"
	"google.golang.org/grpc/internal/zzverif/core"
)

func init() {
	grpclog.SetLoggerV2(grpclog.NewLoggerV2(io.Discard, io.Discard, io.Discard))
}

func TestSimWorker(t *testing.T) {
	core.GCBetween = false
	core.WorkerMain(t)
}
