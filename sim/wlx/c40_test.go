package wlx

// C40: outlier detection ejects by the gRFC A50 rules.
//
// System under test: the real outlier_detection balancer
// (balancer.Get(outlierdetection.Name)) with its gracefulswitch child wrapper,
// call counters, subConnWrappers and interval timer.
// Harness: recording parent ClientConn + fake SubConns (connectivity and health
// updates are delivered by the root goroutine, like the channel's serializer),
// one stub child policy (creates one SubConn per address, registers a health
// listener on every READY SubConn as a petiole policy does, publishes pickers
// that avoid SubConns whose health is not READY), caller goroutines doing
// Pick + Done on the parent's latest picker, config/resolver updates by the
// root goroutine.
//
// Oracle = an independent A50 evaluator that FOLLOWS the observation: at every
// instant at which something can happen (a predicted interval sweep, a config
// update) the set of ejected endpoints seen by the child (health listener of
// each endpoint's first SubConn: TRANSIENT_FAILURE or silence = ejected) is
// compared with what A50 allows given the same per-endpoint success/failure
// counts of the interval:
//
//	eject_without_cause     a newly ejected endpoint had >= request_volume calls
//	                        and met the success-rate (rate < mean - stdev*factor/1000
//	                        over the endpoints with enough volume, at least
//	                        minimum_hosts of them) or failure-percentage criterion
//	                        of an algorithm whose enforcement percentage is not 0
//	eject_over_max_percent  the k-th ejection of a sweep happened while
//	                        (ejected before it)/(current endpoints)*100 < max_ejection_percent
//	uneject_early / uneject_overdue   un-ejection happens at the first sweep with
//	                        now > ejection time + min(base*multiplier, max(base, max_ejection_time))
//	                        (now == that instant is accepted either way), multiplier
//	                        +1 per ejection, -1 per sweep while not ejected, floor 0
//	change_outside_sweep    ejection state only changes at a sweep or a config update
//	noop_not_unejected      after a config without either algorithm nothing is ejected
//	fresh_endpoint_ejected  an endpoint (re-)added by a resolver update starts un-ejected
//	child_view_mismatch     every READY SubConn of an endpoint shows the child the same
//	                        thing: TRANSIENT_FAILURE/silence while ejected, its real
//	                        health otherwise
//
// What the observation leaves open is kept as a set of possible model states
// ("worlds"): a Done racing with the sweep's counter swap may be counted in
// this interval, the next, or lost; a config update at the very instant of a
// sweep may come before or after it (and grpc-go may then sweep twice); an
// endpoint that meets both criteria in one sweep, or that is still ejected and
// meets a criterion again, may have its multiplier bumped again. A violation
// is reported only if no world explains the observation.

import (
	"context"
	"errors"
	"fmt"
	"math"
	"sort"
	"strconv"
	"strings"
	"testing/synctest"
	"time"

	"google.golang.org/grpc/balancer"
	"google.golang.org/grpc/connectivity"
	estats "google.golang.org/grpc/experimental/stats"
	"google.golang.org/grpc/internal"
	iserviceconfig "google.golang.org/grpc/internal/serviceconfig"
	"google.golang.org/grpc/internal/xds/balancer/outlierdetection"
	"google.golang.org/grpc/internal/zzverif/core"
	"google.golang.org/grpc/resolver"
	"google.golang.org/grpc/serviceconfig"
)

const c40StubName = "zzverif_wlx_c40_stub"

func init() {
	balancer.Register(c40Builder{})
	core.Register("C40", genC40, runC40)
}

// ---------------------------------------------------------------- scenario

type c40SR struct {
	Stdev    uint32 `json:"stdev"`
	Enf      uint32 `json:"enf"`
	MinHosts uint32 `json:"min_hosts"`
	ReqVol   uint32 `json:"req_vol"`
}

type c40FP struct {
	Thr      uint32 `json:"thr"`
	Enf      uint32 `json:"enf"`
	MinHosts uint32 `json:"min_hosts"`
	ReqVol   uint32 `json:"req_vol"`
}

type c40Cfg struct {
	IntervalMs int64  `json:"interval_ms"`
	BaseMs     int64  `json:"base_ms"`
	MaxMs      int64  `json:"max_ms"`
	MaxPct     uint32 `json:"max_pct"`
	SR         *c40SR `json:"sr,omitempty"`
	FP         *c40FP `json:"fp,omitempty"`
	Eps        []int  `json:"eps"` // indices into Pool
}

func (c *c40Cfg) noop() bool { return c.SR == nil && c.FP == nil }

type c40Call struct {
	Ep   int `json:"ep"`
	Addr int `json:"addr,omitempty"`
	Ok   int `json:"ok,omitempty"`
	Fail int `json:"fail,omitempty"`
	// DoneAtSweep: every call is picked now and finished at the instant of the
	// next predicted sweep (so that Done races with the counter swap).
	DoneAtSweep bool `json:"done_at_sweep,omitempty"`
}

type c40Flap struct {
	Ep   int    `json:"ep"`
	Addr int    `json:"addr"` // index >= 1: never the endpoint's first SubConn (the observation point)
	Kind string `json:"kind"` // reconnect | health | recreate
}

type c40Step struct {
	// WaitKind "ns": sleep WaitNs; "sweep": sleep until the next predicted sweep + OffNs.
	WaitKind string    `json:"wait_kind"`
	WaitNs   int64     `json:"wait_ns"`
	OffNs    int64     `json:"off_ns,omitempty"`
	Cfg      *c40Cfg   `json:"cfg,omitempty"`
	Calls    []c40Call `json:"calls,omitempty"`
	Flaps    []c40Flap `json:"flaps,omitempty"`
}

type c40Scenario struct {
	Sched  core.Sched `json:"sched"`
	Pool   [][]string `json:"pool"` // endpoint -> addresses (all distinct)
	Steps  []c40Step  `json:"steps"`
	TailNs int64      `json:"tail_ns"`
	// StrictConverse (never generated): also assert the converse the statement
	// does not claim -- criteria met with certainty, enforcement 100, room under
	// max_ejection_percent => ejected. Used to keep replayable evidence of
	// grpc-go's ejected-endpoint counter leak (oracle ejection_suppressed).
	StrictConverse bool `json:"strict_converse,omitempty"`
}

func (s *c40Scenario) SchedP() *core.Sched { return &s.Sched }

func (s *c40Scenario) Shape() string {
	cfgs, calls, racy, flaps := 0, 0, 0, 0
	for _, st := range s.Steps {
		if st.Cfg != nil {
			cfgs++
		}
		for _, c := range st.Calls {
			calls += c.Ok + c.Fail
			if c.DoneAtSweep {
				racy++
			}
		}
		flaps += len(st.Flaps)
	}
	return fmt.Sprintf("pool=%d steps=%d cfgs=%d calls=%d racy=%d flaps=%d", len(s.Pool), len(s.Steps), cfgs, calls/8, racy, flaps)
}

func (s *c40Scenario) Validate() error {
	seen := map[string]bool{}
	for _, ep := range s.Pool {
		if len(ep) == 0 {
			return errors.New("empty endpoint")
		}
		for _, a := range ep {
			if a == "" || seen[a] {
				return errors.New("duplicate or empty address")
			}
			seen[a] = true
		}
	}
	for _, st := range s.Steps {
		if st.WaitKind != "ns" && st.WaitKind != "sweep" {
			return errors.New("bad wait kind")
		}
		if st.WaitNs < 0 || st.WaitNs > int64(time.Hour) {
			return errors.New("bad wait")
		}
		if c := st.Cfg; c != nil {
			// Domain restrictions (inputs the check does not cover): interval >= 1 ms
			// (0 would fire without advancing the clock), request volumes >= 1 (0
			// makes the success rate 0/0).
			if c.IntervalMs < 1 || c.BaseMs < 0 || c.MaxMs < 0 || c.MaxPct > 100 {
				return errors.New("bad config")
			}
			if c.SR != nil && (c.SR.ReqVol < 1 || c.SR.Enf > 100) {
				return errors.New("bad sr")
			}
			if c.FP != nil && (c.FP.ReqVol < 1 || c.FP.Enf > 100 || c.FP.Thr > 100) {
				return errors.New("bad fp")
			}
			dup := map[int]bool{}
			for _, i := range c.Eps {
				if i < 0 || i >= len(s.Pool) || dup[i] {
					return errors.New("bad endpoint index")
				}
				dup[i] = true
			}
		}
		for _, c := range st.Calls {
			if c.Ep < 0 || c.Ep >= len(s.Pool) || c.Addr < 0 || c.Ok < 0 || c.Fail < 0 || c.Ok+c.Fail > 200 {
				return errors.New("bad call")
			}
		}
		for _, f := range st.Flaps {
			if f.Ep < 0 || f.Ep >= len(s.Pool) || f.Addr < 1 {
				return errors.New("bad flap")
			}
			if f.Kind != "reconnect" && f.Kind != "health" && f.Kind != "recreate" {
				return errors.New("bad flap kind")
			}
		}
	}
	return nil
}

func genC40(seed uint64, tier string) *c40Scenario {
	r := core.NewRand(seed)
	s := &c40Scenario{Sched: genSched(r, seed)}
	np := r.Range(2, 8)
	if r.Chance(1, 5) {
		np = r.Range(1, 10)
	}
	for i := 0; i < np; i++ {
		var ep []string
		for j := core.Pick(r, 1, 1, 2, 2, 3); j > 0; j-- {
			ep = append(ep, fmt.Sprintf("e%da%d", i, len(ep)))
		}
		s.Pool = append(s.Pool, ep)
	}
	// persistent character of each endpoint: probability (of 8) that a call fails
	bad := make([]int, np)
	for i := range bad {
		switch {
		case r.Chance(1, 4):
			bad[i] = core.Pick(r, 8, 8, 7, 5)
		case r.Chance(1, 5):
			bad[i] = core.Pick(r, 1, 2, 3)
		}
	}
	enf := func() uint32 { return core.Pick(r, uint32(100), 100, 100, 100, 100, 0, 50, 99, 1) }
	mkCfg := func() *c40Cfg {
		c := &c40Cfg{
			IntervalMs: int64(core.Pick(r, 1000, 1000, 3000, 10000)),
			BaseMs:     int64(core.Pick(r, 0, 500, 1000, 1000, 2500, 3000, 30000)),
			MaxMs:      int64(core.Pick(r, 0, 1000, 4000, 4000, 20000, 300000)),
			MaxPct:     core.Pick(r, uint32(0), 10, 10, 25, 34, 50, 50, 100, 100),
		}
		if r.Chance(7, 10) {
			c.SR = &c40SR{Stdev: core.Pick(r, uint32(0), 500, 1000, 1900, 1900), Enf: enf(), MinHosts: uint32(r.Range(1, min(5, np+1))), ReqVol: uint32(r.Range(1, 6))}
		}
		if r.Chance(6, 10) {
			c.FP = &c40FP{Thr: core.Pick(r, uint32(0), 30, 50, 85, 85, 100), Enf: enf(), MinHosts: uint32(r.Range(1, min(5, np+1))), ReqVol: uint32(r.Range(1, 6))}
		}
		return c
	}
	cur := mkCfg()
	if cur.noop() && r.Chance(3, 4) {
		cur.FP = &c40FP{Thr: 50, Enf: 100, MinHosts: 1, ReqVol: uint32(r.Range(1, 4))}
	}
	for i := 0; i < np; i++ {
		if r.Chance(5, 6) || len(cur.Eps) == 0 && i == np-1 {
			cur.Eps = append(cur.Eps, i)
		}
	}
	clone := func(c *c40Cfg) *c40Cfg {
		d := *c
		d.Eps = append([]int{}, c.Eps...)
		if c.SR != nil {
			x := *c.SR
			d.SR = &x
		}
		if c.FP != nil {
			x := *c.FP
			d.FP = &x
		}
		return &d
	}
	inCur := func(i int) bool {
		for _, x := range cur.Eps {
			if x == i {
				return true
			}
		}
		return false
	}
	var savedSR *c40Cfg
	maxSteps := 14
	if tier == "thorough" {
		maxSteps = 40
	}
	n := r.Range(4, maxSteps)
	racy := r.Intn(4) // 0: no racing Dones, 3: many
	for i := 0; i < n; i++ {
		var st c40Step
		st.WaitKind = "ns"
		iv := cur.IntervalMs * int64(time.Millisecond)
		switch x := r.Intn(100); {
		case i == 0:
		case x < 30:
			st.WaitKind = "sweep"
			st.WaitNs = iv
			st.OffNs = -int64(r.Range(1, 900)) * int64(time.Millisecond) / 10
		case x < 50:
			st.WaitKind = "sweep"
			st.WaitNs = iv
			st.OffNs = int64(core.Pick(r, 0, 0, 0, -1, 1))
		case x < 70:
			st.WaitNs = int64(r.Intn(1000)) * iv / 1000
		case x < 80:
			st.WaitNs = 0
		case x < 95:
			st.WaitNs = int64(r.Range(1, 8))*iv + int64(r.Intn(3))*iv/3
		default:
			st.WaitNs = int64(r.Range(9, 30)) * iv
		}
		if i == 0 {
			st.Cfg = clone(cur)
		} else if cur.noop() && savedSR != nil && r.Chance(1, 2) {
			// back from the no-op config to the algorithms used before it
			cur.SR, cur.FP = savedSR.SR, savedSR.FP
			savedSR = nil
			st.Cfg = clone(cur)
		} else if r.Chance(1, 4) {
			switch x := r.Intn(100); {
			case x < 20: // remove an endpoint (bad ones preferably: they are the ejected ones)
				if len(cur.Eps) > 1 {
					at := r.Intn(len(cur.Eps))
					for try := 0; try < 4 && bad[cur.Eps[at]] < 5; try++ {
						at = r.Intn(len(cur.Eps))
					}
					cur.Eps = append(cur.Eps[:at], cur.Eps[at+1:]...)
				}
			case x < 40: // (re-)add one
				for try := 0; try < 6; try++ {
					if k := r.Intn(np); !inCur(k) {
						cur.Eps = append(cur.Eps, k)
						break
					}
				}
			case x < 52: // no-op config
				if !cur.noop() {
					savedSR = clone(cur)
				}
				cur.SR, cur.FP = nil, nil
			case x < 70: // new knobs
				eps := cur.Eps
				cur = mkCfg()
				cur.Eps = eps
			case x < 78:
				cur.IntervalMs = int64(core.Pick(r, 500, 1000, 3000, 10000))
			case x < 86:
				cur.MaxPct = core.Pick(r, uint32(0), 10, 34, 50, 100)
			case x < 93:
				cur.BaseMs = int64(core.Pick(r, 0, 1000, 3000, 30000))
				cur.MaxMs = int64(core.Pick(r, 0, 1000, 4000, 300000))
			default: // identical config again
			}
			st.Cfg = clone(cur)
		}
		// calls
		atSweep := st.WaitKind == "sweep" && st.OffNs == 0
		if len(cur.Eps) > 0 && r.Chance(9, 10) {
			vol := 1
			if cur.SR != nil {
				vol = max(vol, int(cur.SR.ReqVol))
			}
			if cur.FP != nil {
				vol = max(vol, int(cur.FP.ReqVol))
			}
			for _, ei := range cur.Eps {
				if r.Chance(1, 6) || atSweep && r.Chance(2, 3) {
					continue
				}
				k := vol + r.Intn(3) - r.Intn(2)*r.Intn(vol+1)
				if k <= 0 {
					continue
				}
				c := c40Call{Ep: ei, Addr: r.Intn(len(s.Pool[ei]))}
				if atSweep {
					k = min(k, 2)
				}
				for ; k > 0; k-- {
					if r.Intn(8) < bad[ei] {
						c.Fail++
					} else {
						c.Ok++
					}
				}
				if racy > 0 && r.Intn(16) < racy {
					c.DoneAtSweep = true
					c.Ok, c.Fail = min(c.Ok, 1+r.Intn(2)), min(c.Fail, 1+r.Intn(2))
				}
				st.Calls = append(st.Calls, c)
			}
			if r.Chance(1, 10) && np > 0 { // a call for an endpoint that may not be configured
				st.Calls = append(st.Calls, c40Call{Ep: r.Intn(np), Ok: 1, Fail: r.Intn(2)})
			}
		}
		if r.Chance(1, 6) {
			for k := r.Range(1, 2); k > 0; k-- {
				ei := r.Intn(np)
				if len(s.Pool[ei]) > 1 {
					st.Flaps = append(st.Flaps, c40Flap{Ep: ei, Addr: r.Range(1, len(s.Pool[ei])-1), Kind: core.Pick(r, "reconnect", "health", "recreate")})
				}
			}
		}
		s.Steps = append(s.Steps, st)
	}
	s.TailNs = int64(core.Pick(r, 0, 1, 3, 12)) * cur.IntervalMs * int64(time.Millisecond)
	return s
}

// ---------------------------------------------------------------- fakes and stub

func c40EpKey(addrs []string) string {
	a := append([]string{}, addrs...)
	sort.Strings(a)
	return strings.Join(a, ",")
}

type c40SC struct {
	internal.EnforceSubConnEmbedding
	h         *c40H
	id        int
	addr      string
	inc       int // endpoint incarnation the address belonged to when the SubConn was created
	listener  func(balancer.SubConnState)
	state     connectivity.State
	healthL   func(balancer.SubConnState)
	healthGen int
	shut      bool
}

func (sc *c40SC) UpdateAddresses([]resolver.Address) {}
func (sc *c40SC) GetOrBuildProducer(balancer.ProducerBuilder) (balancer.Producer, func()) {
	return nil, func() {}
}

func (sc *c40SC) deliver(st connectivity.State) func() {
	return func() {
		if sc.h.closed || (sc.shut && st != connectivity.Shutdown) {
			return
		}
		sc.state = st
		if st != connectivity.Ready {
			sc.healthL = nil
			sc.healthGen++
		}
		sc.h.e.Logf("sc%d %s -> %v", sc.id, sc.addr, st)
		if sc.listener != nil {
			sc.listener(balancer.SubConnState{ConnectivityState: st})
		}
	}
}

func (sc *c40SC) Connect() {
	if sc.shut || sc.state != connectivity.Idle {
		return
	}
	sc.state = connectivity.Connecting
	sc.h.q = append(sc.h.q, sc.deliver(connectivity.Connecting), sc.deliver(connectivity.Ready))
}

func (sc *c40SC) Shutdown() {
	if sc.shut {
		return
	}
	sc.shut = true
	sc.h.q = append(sc.h.q, sc.deliver(connectivity.Shutdown))
}

func (sc *c40SC) RegisterHealthListener(l func(balancer.SubConnState)) {
	sc.healthL = l
	sc.healthGen++
	if l != nil {
		sc.h.q = append(sc.h.q, sc.healthDelivery())
	}
}

// healthDelivery: the channel reports the (always healthy) health state to the
// currently registered listener.
func (sc *c40SC) healthDelivery() func() {
	g := sc.healthGen
	return func() {
		if sc.h.closed || sc.shut || sc.healthGen != g || sc.healthL == nil || sc.state != connectivity.Ready {
			return
		}
		sc.h.e.Logf("sc%d %s health READY", sc.id, sc.addr)
		sc.healthL(balancer.SubConnState{ConnectivityState: connectivity.Ready})
	}
}

type c40Metric struct {
	t    int64
	name string
}

type c40Rec struct {
	estats.UnimplementedMetricsRecorder
	h *c40H
}

func (r c40Rec) RecordInt64Count(hd *estats.Int64CountHandle, _ int64, labels ...string) {
	n := "enforced"
	if strings.Contains(hd.Descriptor().Name, "unenforced") {
		n = "unenforced"
		if len(labels) > 0 {
			n += ":" + labels[len(labels)-1]
		}
	}
	r.h.e.Logf("metric %s", n)
	r.h.metrics = append(r.h.metrics, c40Metric{t: r.h.now(), name: n})
}

type c40CC struct {
	internal.EnforceClientConnEmbedding
	h *c40H
}

func (c *c40CC) NewSubConn(addrs []resolver.Address, opts balancer.NewSubConnOptions) (balancer.SubConn, error) {
	h := c.h
	if len(addrs) != 1 {
		return nil, errors.New("wlx: one address per SubConn")
	}
	sc := &c40SC{h: h, id: len(h.scs), addr: addrs[0].Addr, inc: -1, listener: opts.StateListener, state: connectivity.Idle}
	if k, ok := h.addrKey[sc.addr]; ok {
		if inc, ok := h.curInc[k]; ok {
			sc.inc = inc
		}
	}
	h.scs = append(h.scs, sc)
	h.e.Logf("newsc sc%d %s inc=%d", sc.id, sc.addr, sc.inc)
	return sc, nil
}
func (c *c40CC) RemoveSubConn(balancer.SubConn)                        {}
func (c *c40CC) UpdateAddresses(balancer.SubConn, []resolver.Address) {}
func (c *c40CC) ResolveNow(resolver.ResolveNowOptions)                {}
func (c *c40CC) Target() string                                       { return "wlx" }
func (c *c40CC) MetricsRecorder() estats.MetricsRecorder              { return c40Rec{h: c.h} }
func (c *c40CC) UpdateState(s balancer.State) {
	h := c.h
	counted := 1
	if h.curCfg == nil {
		counted = -1
	} else if h.cfgInFlight {
		if h.prevNoop != h.curCfg.noop() {
			counted = -1
		} else if h.prevNoop {
			counted = 0
		}
	} else if h.curCfg.noop() {
		counted = 0
	}
	h.pickers = append(h.pickers, counted)
	h.parentPicker = s.Picker
	h.e.Logf("parent state=%v picker#%d counted=%d", s.ConnectivityState, len(h.pickers)-1, counted)
}

type c40ChildCfg struct {
	serviceconfig.LoadBalancingConfig
	H *c40H
}

type c40Builder struct{}

func (c40Builder) Name() string { return c40StubName }
func (c40Builder) Build(cc balancer.ClientConn, _ balancer.BuildOptions) balancer.Balancer {
	return &c40Stub{cc: cc, subs: map[string]*c40SSC{}}
}

// c40SSC is the stub child's view of one SubConn.
type c40SSC struct {
	sc         balancer.SubConn
	epk, addr  string
	first      bool // the endpoint's first address: the observation point
	state      connectivity.State
	healthReg  bool
	healthSeen bool
	lastHealth connectivity.State
	dead       bool
}

// view: what the child sees for a READY SubConn with a registered health listener.
func (s *c40SSC) view() (ejected, known bool) {
	if s.dead || s.state != connectivity.Ready || !s.healthReg {
		return false, false
	}
	return !s.healthSeen || s.lastHealth == connectivity.TransientFailure, true
}

type c40Stub struct {
	h      *c40H
	cc     balancer.ClientConn
	subs   map[string]*c40SSC // epk|addr
	order  []string
	closed bool
}

func (st *c40Stub) newSub(epk, addr string, first bool) {
	ssc := &c40SSC{epk: epk, addr: addr, first: first, state: connectivity.Idle}
	sc, err := st.cc.NewSubConn([]resolver.Address{{Addr: addr}}, balancer.NewSubConnOptions{StateListener: func(s balancer.SubConnState) { st.onState(ssc, s) }})
	if err != nil {
		st.h.e.Logf("stub: NewSubConn(%s): %v", addr, err)
		return
	}
	ssc.sc = sc
	k := epk + "|" + addr
	if _, ok := st.subs[k]; !ok {
		st.order = append(st.order, k)
	}
	st.subs[k] = ssc
	sc.Connect()
}

func (st *c40Stub) UpdateClientConnState(s balancer.ClientConnState) error {
	cfg, ok := s.BalancerConfig.(*c40ChildCfg)
	if !ok || cfg == nil || cfg.H == nil {
		return nil
	}
	if st.h == nil {
		st.h = cfg.H
		st.h.stub = st
	}
	want := map[string]bool{}
	for _, ep := range s.ResolverState.Endpoints {
		var as []string
		for _, a := range ep.Addresses {
			as = append(as, a.Addr)
		}
		epk := c40EpKey(as)
		for i, a := range as {
			k := epk + "|" + a
			want[k] = true
			if cur := st.subs[k]; cur == nil || cur.dead {
				st.newSub(epk, a, i == 0)
			}
		}
	}
	for _, k := range st.order {
		if ssc := st.subs[k]; ssc != nil && !ssc.dead && !want[k] {
			ssc.dead = true
			ssc.sc.Shutdown()
		}
	}
	st.publish()
	return nil
}

func (st *c40Stub) onState(ssc *c40SSC, s balancer.SubConnState) {
	if st.closed || ssc.dead && s.ConnectivityState != connectivity.Shutdown {
		return
	}
	ssc.state = s.ConnectivityState
	ssc.healthReg, ssc.healthSeen = false, false
	switch s.ConnectivityState {
	case connectivity.Ready:
		ssc.healthReg = true
		ssc.sc.RegisterHealthListener(func(hs balancer.SubConnState) { st.onHealth(ssc, hs) })
	case connectivity.Idle:
		ssc.sc.Connect()
	case connectivity.Shutdown:
		ssc.dead = true
		return
	}
	st.publish()
}

func (st *c40Stub) onHealth(ssc *c40SSC, hs balancer.SubConnState) {
	if st.closed || ssc.dead {
		return
	}
	h := st.h
	was, _ := ssc.view()
	ssc.healthSeen = true
	ssc.lastHealth = hs.ConnectivityState
	now, _ := ssc.view()
	h.e.Logf("child health %s %v", ssc.addr, hs.ConnectivityState)
	if hs.ConnectivityState == connectivity.TransientFailure || was != now {
		h.ejEvents = append(h.ejEvents, h.now())
	}
	st.publish()
}

// recreate: the child replaces one of its SubConns (as pick_first does after a
// connection loss).
func (st *c40Stub) recreate(epk, addr string) {
	k := epk + "|" + addr
	ssc := st.subs[k]
	if st.closed || ssc == nil || ssc.dead {
		return
	}
	ssc.dead = true
	ssc.sc.Shutdown()
	st.newSub(epk, addr, false)
	st.publish()
}

func (st *c40Stub) ResolverError(error)                                          {}
func (st *c40Stub) UpdateSubConnState(balancer.SubConn, balancer.SubConnState) {}
func (st *c40Stub) ExitIdle()                                                    {}
func (st *c40Stub) Close() {
	st.closed = true
	for _, k := range st.order {
		if ssc := st.subs[k]; ssc != nil && !ssc.dead {
			ssc.dead = true
			ssc.sc.Shutdown()
		}
	}
}

type c40Picker struct{ snap map[string]balancer.SubConn }

func (p *c40Picker) Pick(info balancer.PickInfo) (balancer.PickResult, error) {
	sc := p.snap[info.FullMethodName]
	if sc == nil {
		return balancer.PickResult{}, balancer.ErrNoSubConnAvailable
	}
	return balancer.PickResult{SubConn: sc}, nil
}

func (st *c40Stub) publish() {
	if st.closed || st.h == nil {
		return
	}
	p := &c40Picker{snap: map[string]balancer.SubConn{}}
	for _, k := range st.order {
		ssc := st.subs[k]
		if ej, known := ssc.view(); known && !ej {
			p.snap[ssc.addr] = ssc.sc
		}
	}
	state := connectivity.Connecting
	if len(p.snap) > 0 {
		state = connectivity.Ready
	}
	st.cc.UpdateState(balancer.State{ConnectivityState: state, Picker: p})
}

// ---------------------------------------------------------------- model

type c40Done struct {
	t   int64
	inc int
	ok  bool
	pi  int // index of the parent picker the call went through (h.pickers[pi]: 1 counted, 0 not counted (no-op picker), -1 unknown)
}

type c40EpState struct {
	inc     int
	ejected bool
	ts      int64
	mult    int64
}

// c40W is one possible state of the A50 machine.
type c40W struct {
	cfgIdx     int // index into h.cfgs, -1 none
	eps        map[string]*c40EpState
	timerStart int64
	nextFire   int64
	lastSwap   int64
	removedEj  int // informational: endpoints removed from the resolver while ejected
	multiEj    int // informational: extra ejections of one endpoint
}

func (w *c40W) clone() *c40W {
	c := *w
	c.eps = make(map[string]*c40EpState, len(w.eps))
	for k, v := range w.eps {
		x := *v
		c.eps[k] = &x
	}
	return &c
}

func (w *c40W) keys() []string {
	ks := make([]string, 0, len(w.eps))
	for k := range w.eps {
		ks = append(ks, k)
	}
	sort.Strings(ks)
	return ks
}

func (w *c40W) sig() string {
	b := make([]byte, 0, 64+48*len(w.eps))
	b = strconv.AppendInt(b, int64(w.cfgIdx), 10)
	b = append(b, '/')
	b = strconv.AppendInt(b, w.timerStart, 10)
	b = append(b, '/')
	b = strconv.AppendInt(b, w.nextFire, 10)
	b = append(b, '/')
	b = strconv.AppendInt(b, w.lastSwap, 10)
	for _, k := range w.keys() {
		s := w.eps[k]
		b = append(b, ';')
		b = append(b, k...)
		b = append(b, ':')
		b = strconv.AppendInt(b, int64(s.inc), 10)
		if s.ejected {
			b = append(b, 'E')
		} else {
			b = append(b, 'u')
		}
		b = strconv.AppendInt(b, s.ts, 10)
		b = append(b, ':')
		b = strconv.AppendInt(b, s.mult, 10)
	}
	return string(b)
}

type c40Fail struct{ oracle, msg string }

type c40H struct {
	e      *core.Env
	s      *c40Scenario
	b      balancer.Balancer
	q      []func()
	scs    []*c40SC
	stub   *c40Stub
	closed bool

	parentPicker balancer.Picker
	pickers      []int // per parent picker: counted status of calls made through it

	cfgs        []*c40Cfg
	cfgIncs     []map[string]int
	curCfg      *c40Cfg
	prevNoop    bool
	cfgInFlight bool
	curInc      map[string]int    // endpoint key -> incarnation
	addrKey     map[string]string // address -> endpoint key (current resolver state)
	nextInc     int

	dones    []c40Done
	ejEvents []int64
	metrics  []c40Metric
	seenEj   int
	seenMet  int

	worlds      []*c40W
	dead        bool // a violation was reported or the model gave up: no further judging
	giveUp      bool // set by sweep: too much uncertainty to enumerate
	infoOK      bool // sweep may evaluate the informational missed_ejection probes (unambiguous instant)
	lastProc    int64
	lastCfgT    int64
	callers     int
	everEjected map[string]bool // endpoint keys removed from the resolver while ejected
}

func (h *c40H) now() int64 { return h.e.SimNs() }

func (h *c40H) settle() {
	for {
		for len(h.q) > 0 {
			f := h.q[0]
			h.q = h.q[1:]
			f()
		}
		synctest.Wait()
		if len(h.q) == 0 {
			return
		}
	}
}

// observe returns, per current endpoint key, whether the child sees it ejected.
func (h *c40H) observe() map[string]bool {
	out := map[string]bool{}
	if h.stub == nil {
		return out
	}
	for _, k := range h.stub.order {
		ssc := h.stub.subs[k]
		if ssc == nil || ssc.dead || !ssc.first {
			continue
		}
		if _, cur := h.curInc[ssc.epk]; !cur {
			continue
		}
		if ej, known := ssc.view(); known {
			out[ssc.epk] = ej
		}
	}
	return out
}

type c40Cnt struct{ s, f, su, fu int }

// counts of world w for a sweep at t.
func (h *c40H) counts(w *c40W, t int64) (map[int]*c40Cnt, int) {
	byInc := map[int]*c40Cnt{}
	for _, s := range w.eps {
		byInc[s.inc] = &c40Cnt{}
	}
	unc := 0
	for i := len(h.dones) - 1; i >= 0; i-- {
		d := h.dones[i]
		if d.t < w.lastSwap {
			break
		}
		c := byInc[d.inc]
		counted := h.pickers[d.pi]
		if c == nil || counted == 0 || d.t > t {
			continue
		}
		certain := counted == 1 && d.t > w.lastSwap && d.t < t
		switch {
		case certain && d.ok:
			c.s++
		case certain:
			c.f++
		case d.ok:
			c.su++
			unc++
		default:
			c.fu++
			unc++
		}
	}
	return byInc, unc
}

type c40Elig struct{ sr, fp, srStrict, fpStrict bool }

// c40Eval is the A50 evaluation of one interval: which endpoints meet which
// criterion. "possibly" versions include the borderline (float rounding /
// equality) cases, "strict" versions exclude them.
func c40Eval(cfg *c40Cfg, keys []string, s, f []int, out []c40Elig, idx []int) []c40Elig {
	for i := range out {
		out[i] = c40Elig{}
	}
	idx = idx[:0]
	if cfg.SR != nil {
		for i := range keys {
			if uint32(s[i]+f[i]) >= cfg.SR.ReqVol {
				idx = append(idx, i)
			}
		}
		if len(idx) > 0 && uint32(len(idx)) >= cfg.SR.MinHosts {
			mean := 0.0
			for _, i := range idx {
				mean += float64(s[i]) / float64(s[i]+f[i])
			}
			mean /= float64(len(idx))
			v := 0.0
			for _, i := range idx {
				d := float64(s[i])/float64(s[i]+f[i]) - mean
				v += d * d
			}
			sd := math.Sqrt(v / float64(len(idx)))
			thr := mean - sd*(float64(cfg.SR.Stdev)/1000)
			for _, i := range idx {
				rate := float64(s[i]) / float64(s[i]+f[i])
				out[i].sr = rate < thr+1e-9
				out[i].srStrict = rate < thr-1e-9
			}
		}
	}
	if cfg.FP != nil {
		enough := 0
		for i := range keys {
			if uint32(s[i]+f[i]) >= cfg.FP.ReqVol {
				enough++
			}
		}
		for i := range keys {
			tot := s[i] + f[i]
			if uint32(tot) < cfg.FP.ReqVol {
				continue
			}
			// A50: "if the number of addresses is less than minimum_hosts, stop";
			// grpc-go counts only the hosts with enough volume. The possibly-
			// version takes the weaker reading, the strict one the stronger.
			if uint32(len(keys)) >= cfg.FP.MinHosts {
				out[i].fp = f[i]*100 >= int(cfg.FP.Thr)*tot
			}
			if uint32(enough) >= cfg.FP.MinHosts {
				out[i].fpStrict = f[i]*100 > int(cfg.FP.Thr)*tot
			}
		}
	}
	return out
}

func c40EjectionTime(cfg *c40Cfg, mult int64) int64 {
	base := cfg.BaseMs * int64(time.Millisecond)
	return min(base*mult, max(base, cfg.MaxMs*int64(time.Millisecond)))
}

// sweep applies one interval sweep at t to world w, following the observation
// obs (endpoint key -> ejected; missing = not observable, no constraint).
// It returns the possible successor worlds or the reason why there is none.
func (h *c40H) sweep(w *c40W, t int64, obs map[string]bool, blind bool) ([]*c40W, *c40Fail) {
	cfg := h.cfgs[w.cfgIdx]
	keys := w.keys()
	n := len(keys)
	byInc, unc := h.counts(w, t)
	if unc > 0 {
		h.e.Probe("done_racing_with_sweep")
	}
	base := w.clone()
	base.lastSwap, base.timerStart, base.nextFire = t, t, t+cfg.IntervalMs*int64(time.Millisecond)

	// Which endpoints may meet a criterion, over all ways to resolve the uncertain calls.
	type acc struct{ any, both, strictAll bool }
	poss := make([]acc, n)
	for i := range poss {
		poss[i].strictAll = true
	}
	var newEj []int
	E0 := 0
	for i, k := range keys {
		st := w.eps[k]
		if st.ejected {
			E0++
		}
		if o, known := obs[k]; known && !blind && o && !st.ejected {
			newEj = append(newEj, i)
		}
	}
	explained := false
	if !cfg.noop() {
		s, f := make([]int, n), make([]int, n)
		combos := 1
		limit := max(512, 8192/max(1, len(h.worlds)))
		for _, k := range keys {
			c := byInc[w.eps[k].inc]
			combos *= (c.su + 1) * (c.fu + 1)
			if combos > limit {
				break
			}
		}
		if combos > limit {
			// Too many calls raced with this sweep to enumerate what was counted:
			// nothing can be said about this sweep or, reliably, about what follows.
			h.e.Probe("too_many_uncertain_calls")
			h.giveUp = true
			return nil, nil
		} else {
			elBuf, idxBuf := make([]c40Elig, n), make([]int, 0, n)
			var rec func(i int)
			rec = func(i int) {
				if i == n {
					el := c40Eval(cfg, keys, s, f, elBuf, idxBuf)
					ok := true
					for _, j := range newEj {
						if !(el[j].sr && cfg.SR.Enf > 0) && !(el[j].fp && cfg.FP.Enf > 0) {
							ok = false
						}
					}
					for j := range el {
						if !(el[j].srStrict && cfg.SR.Enf == 100) && !(el[j].fpStrict && cfg.FP.Enf == 100) {
							poss[j].strictAll = false
						}
					}
					if !ok {
						return
					}
					explained = true
					for j := range el {
						a := el[j].sr && cfg.SR.Enf > 0
						b := el[j].fp && cfg.FP.Enf > 0
						if a || b {
							poss[j].any = true
						}
						if a && b {
							poss[j].both = true
						}
					}
					return
				}
				c := byInc[w.eps[keys[i]].inc]
				for a := 0; a <= c.su; a++ {
					for b := 0; b <= c.fu; b++ {
						s[i], f[i] = c.s+a, c.f+b
						rec(i + 1)
					}
				}
			}
			rec(0)
		}
	} else {
		explained = len(newEj) == 0
		for i := range poss {
			poss[i].strictAll = false
		}
	}
	if !explained {
		var d []string
		for _, j := range newEj {
			c := byInc[w.eps[keys[j]].inc]
			d = append(d, fmt.Sprintf("%s (ok=%d..%d fail=%d..%d)", keys[j], c.s, c.s+c.su, c.f, c.f+c.fu))
		}
		var all []string
		for _, k := range keys {
			c := byInc[w.eps[k].inc]
			all = append(all, fmt.Sprintf("%s=%d/%d", k, c.s, c.f))
		}
		return nil, &c40Fail{"eject_without_cause", fmt.Sprintf("sweep at %d: newly ejected %v do not meet any enforced criterion of %s; interval counts ok/fail: %v", t, d, c40CfgStr(cfg), all)}
	}
	if j := len(newEj); j > 0 {
		h.e.ProbeN("ejections", j)
		// the j-th ejection happened with E0+j-1 endpoints ejected
		if uint64(E0+j-1)*100 >= uint64(cfg.MaxPct)*uint64(n) {
			return nil, &c40Fail{"eject_over_max_percent", fmt.Sprintf("sweep at %d: %d new ejection(s) with %d of %d endpoints already ejected and max_ejection_percent=%d", t, j, E0, n, cfg.MaxPct)}
		}
	}
	// Build successor worlds endpoint by endpoint.
	outs := []*c40W{base}
	fork := func(k string, alts []c40EpState) {
		if len(outs)*len(alts) > 64 {
			h.giveUp = true
			alts = alts[:1]
		}
		var next []*c40W
		for _, o := range outs {
			for ai, a := range alts {
				x := o
				if ai < len(alts)-1 {
					x = o.clone()
				}
				v := a
				v.inc = x.eps[k].inc
				x.eps[k] = &v
				next = append(next, x)
			}
		}
		outs = next
	}
	for i, k := range keys {
		st := *w.eps[k]
		o, known := obs[k]
		if blind {
			known = false
		}
		X := c40EjectionTime(cfg, st.mult)
		switch {
		case !st.ejected && known && o: // newly ejected
			alts := []c40EpState{{ejected: true, ts: t, mult: st.mult + 1}}
			if poss[i].both {
				h.e.Probe("meets_both_criteria")
				alts = append(alts, c40EpState{ejected: true, ts: t, mult: st.mult + 2})
			}
			fork(k, alts)
		case !st.ejected: // stays un-ejected (or not observable: nothing can be said, assume it stays)
			if known && !o && poss[i].strictAll && h.infoOK && unc == 0 {
				// informational: A50 would have ejected this endpoint unless max_ejection_percent forbade it
				if uint64(E0+len(newEj))*100 < uint64(cfg.MaxPct)*uint64(n) {
					h.e.Probe("missed_ejection")
					if h.s.StrictConverse {
						h.e.Violate("ejection_suppressed", "sweep at %d: %s meets an enforced (100%%) criterion of %s with %d of %d endpoints ejected, yet was not ejected; endpoints removed while ejected so far: %d, multiple ejections of one endpoint so far: %d", t, k, c40CfgStr(cfg), E0+len(newEj), n, w.removedEj, w.multiEj)
					}
					leak := w.removedEj+w.multiEj > 0
					for j, k2 := range keys { // an endpoint ejected twice in this very sweep inflates grpc-go's counter as well
						if (w.eps[k2].ejected && poss[j].any) || (!w.eps[k2].ejected && obs[k2] && poss[j].both) {
							leak = true
						}
					}
					if leak {
						h.e.Probe("missed_ejection_after_count_leak")
					} else {
						h.e.Probe("missed_ejection_unexplained")
						if _, ok := h.e.Notes["missed_ejection_unexplained"]; !ok {
							h.e.Notes["missed_ejection_unexplained"] = fmt.Sprintf("t=%d ep=%s cfg=%s E0=%d new=%d n=%d", t, k, c40CfgStr(cfg), E0, len(newEj), n)
						}
					}
				} else {
					h.e.Probe("max_percent_held_back_ejection")
				}
			}
			m := st.mult
			if m > 0 {
				m--
			}
			fork(k, []c40EpState{{mult: m}})
		case known && !o: // un-ejected now
			h.e.Probe("unejections")
			if t < st.ts+X {
				return nil, &c40Fail{"uneject_early", fmt.Sprintf("sweep at %d: %s un-ejected %d ns after its ejection at %d; multiplier %d, %s require %d ns", t, k, t-st.ts, st.ts, st.mult, c40CfgStr(cfg), X)}
			}
			fork(k, []c40EpState{{mult: st.mult}})
		default: // stays ejected (or not observable)
			var alts []c40EpState
			if !known || t <= st.ts+X {
				alts = append(alts, st)
			}
			if poss[i].any { // met a criterion again while ejected: grpc-go ejects it anew
				h.e.Probe("re_ejection_possible")
				alts = append(alts, c40EpState{ejected: true, ts: t, mult: st.mult + 1})
				if poss[i].both {
					alts = append(alts, c40EpState{ejected: true, ts: t, mult: st.mult + 2})
				}
			}
			if len(alts) == 0 {
				return nil, &c40Fail{"uneject_overdue", fmt.Sprintf("sweep at %d: %s is still ejected %d ns after its ejection at %d; multiplier %d, %s allow %d ns", t, k, t-st.ts, st.ts, st.mult, c40CfgStr(cfg), X)}
			}
			fork(k, alts)
		}
	}
	for _, o := range outs {
		for _, k := range keys {
			if o.eps[k].mult > w.eps[k].mult+1 || (w.eps[k].ejected && o.eps[k].ts == t) {
				o.multiEj++
				break
			}
		}
	}
	return outs, nil
}

func c40CfgStr(c *c40Cfg) string {
	s := fmt.Sprintf("{interval=%dms base=%dms max=%dms max_pct=%d", c.IntervalMs, c.BaseMs, c.MaxMs, c.MaxPct)
	if c.SR != nil {
		s += fmt.Sprintf(" sr{stdev=%d enf=%d min_hosts=%d vol=%d}", c.SR.Stdev, c.SR.Enf, c.SR.MinHosts, c.SR.ReqVol)
	}
	if c.FP != nil {
		s += fmt.Sprintf(" fp{thr=%d enf=%d min_hosts=%d vol=%d}", c.FP.Thr, c.FP.Enf, c.FP.MinHosts, c.FP.ReqVol)
	}
	return s + "}"
}

// applyCfg applies config cfgIdx (A50 "on config update") at t.
func (h *c40H) applyCfg(w *c40W, cfgIdx int, t int64) *c40W {
	o := w.clone()
	cfg := h.cfgs[cfgIdx]
	incs := h.cfgIncs[cfgIdx]
	for k, st := range o.eps {
		if inc, ok := incs[k]; !ok || inc != st.inc {
			if st.ejected {
				o.removedEj++
			}
			delete(o.eps, k)
		}
	}
	for k, inc := range incs {
		if _, ok := o.eps[k]; !ok {
			o.eps[k] = &c40EpState{inc: inc}
		}
	}
	o.cfgIdx = cfgIdx
	o.nextFire = -1
	if cfg.noop() {
		o.timerStart = -1
		for _, st := range o.eps {
			st.ejected, st.ts, st.mult = false, 0, 0
		}
		return o
	}
	iv := cfg.IntervalMs * int64(time.Millisecond)
	if o.timerStart < 0 {
		o.timerStart, o.lastSwap = t, t
		o.nextFire = t + iv
	} else {
		o.nextFire = max(t, o.timerStart+iv)
	}
	return o
}

// c40Intermediate lists the ejected sets that may hold between two sweeps
// made at the same instant, given the state before (w) and the observation
// after both. An endpoint ejected by the first sweep cannot be un-ejected by
// the second (no time passes), so: not ejected before and after -> not ejected
// in between; ejected before, not after -> un-ejected by the first; otherwise
// either.
func c40Intermediate(w *c40W, obs map[string]bool) []map[string]bool {
	base := map[string]bool{}
	var free []string
	for _, k := range w.keys() {
		fin, known := obs[k]
		if !known {
			continue
		}
		pre := w.eps[k].ejected
		switch {
		case !fin:
			base[k] = false
		case len(free) < 6:
			free = append(free, k)
			base[k] = pre
		default:
			base[k] = fin
		}
	}
	out := []map[string]bool{}
	for bits := 0; bits < 1<<len(free); bits++ {
		m := make(map[string]bool, len(base))
		for k, v := range base {
			m[k] = v
		}
		for i, k := range free {
			m[k] = bits&(1<<i) != 0
		}
		out = append(out, m)
	}
	return out
}

// matches: world o agrees with the observation (used when no sweep follows).
func (h *c40H) matches(o *c40W, obs map[string]bool, prev *c40W, afterNoop bool) *c40Fail {
	for _, k := range o.keys() {
		v, known := obs[k]
		if !known {
			continue
		}
		st := o.eps[k]
		if v == st.ejected {
			continue
		}
		switch {
		case v && afterNoop:
			return &c40Fail{"noop_not_unejected", fmt.Sprintf("endpoint %s is still ejected after a config without success_rate_ejection and failure_percentage_ejection", k)}
		case v && (prev == nil || prev.eps[k] == nil || prev.eps[k].inc != st.inc):
			return &c40Fail{"fresh_endpoint_ejected", fmt.Sprintf("endpoint %s was just added by the resolver and is ejected", k)}
		case v:
			return &c40Fail{"change_outside_sweep", fmt.Sprintf("endpoint %s became ejected although no interval sweep happened", k)}
		default:
			return &c40Fail{"change_outside_sweep", fmt.Sprintf("endpoint %s became un-ejected although no interval sweep happened and the config is not a no-op", k)}
		}
	}
	return nil
}

// process judges instant t (after quiescence). cfgIdx >= 0: a config update was made at t.
func (h *c40H) process(t int64, cfgIdx int) {
	if h.dead {
		return
	}
	e := h.e
	obs := h.observe()
	// child_view_mismatch: all READY SubConns of an endpoint show the same thing.
	if h.stub != nil {
		for _, k := range h.stub.order {
			ssc := h.stub.subs[k]
			if ssc == nil || ssc.dead || ssc.first {
				continue
			}
			if _, cur := h.curInc[ssc.epk]; !cur {
				continue
			}
			want, ok1 := obs[ssc.epk]
			got, ok2 := ssc.view()
			if ok1 && ok2 {
				e.Probe("secondary_subconn_compared")
				if want != got {
					e.Violate("child_view_mismatch", "endpoint %s: first SubConn shows ejected=%v but SubConn %s shows ejected=%v to the child", ssc.epk, want, ssc.addr, got)
					h.dead = true
					return
				}
			}
		}
	}
	// ejection-related events must carry the time of a judged instant
	for ; h.seenEj < len(h.ejEvents); h.seenEj++ {
		if et := h.ejEvents[h.seenEj]; et != t {
			e.Violate("change_outside_sweep", "the child saw an ejection/un-ejection at %d, which is neither a predicted sweep nor a config update instant (judging %d)", et, t)
			h.dead = true
			return
		}
	}
	nEnf := 0
	for ; h.seenMet < len(h.metrics); h.seenMet++ {
		m := h.metrics[h.seenMet]
		if m.t != t {
			e.Violate("change_outside_sweep", "ejection metric %q recorded at %d, which is neither a predicted sweep nor a config update instant (judging %d)", m.name, m.t, t)
			h.dead = true
			return
		}
		if m.name == "enforced" {
			nEnf++
		}
	}
	var next []*c40W
	var fails []*c40Fail
	add := func(ws ...*c40W) { next = append(next, ws...) }
	anySweep := false
	for _, w := range h.worlds {
		due := w.nextFire == t
		if due {
			anySweep = true
		}
		switch {
		case cfgIdx < 0 && !due:
			if f := h.matches(w, obs, w, false); f != nil {
				fails = append(fails, f)
			} else {
				add(w)
			}
		case cfgIdx < 0:
			h.infoOK = len(h.worlds) == 1
			ws, f := h.sweep(w, t, obs, false)
			h.infoOK = false
			if f != nil {
				fails = append(fails, f)
			}
			add(ws...)
		default:
			cfg := h.cfgs[cfgIdx]
			// [C] or, when the new config leaves the timer due right now, [C, S]
			tryCS := func(w0 *c40W, sweeps int) {
				ws := []*c40W{h.applyCfg(w0, cfgIdx, t)}
				if sweeps == 2 {
					// Two sweeps at one instant: what the first one left behind is
					// not observable; try every intermediate ejected set from which
					// the second sweep can reach the observation.
					var nx []*c40W
					for _, m := range c40Intermediate(ws[0], obs) {
						r, f := h.sweep(ws[0], t, m, false)
						if f != nil {
							fails = append(fails, f)
						}
						nx = append(nx, r...)
					}
					ws = nx
					sweeps = 1
				}
				for i := 0; i < sweeps; i++ {
					var nx []*c40W
					for _, x := range ws {
						r, f := h.sweep(x, t, obs, false)
						if f != nil {
							fails = append(fails, f)
						}
						nx = append(nx, r...)
					}
					ws = nx
				}
				for _, x := range ws {
					if f := h.matches(x, obs, w0, cfg.noop()); f != nil {
						fails = append(fails, f)
					} else {
						add(x)
					}
				}
			}
			afterC := h.applyCfg(w, cfgIdx, t)
			if !due {
				if afterC.nextFire == t {
					tryCS(w, 1)
				} else {
					tryCS(w, 0)
				}
				break
			}
			e.Probe("config_update_at_sweep_instant")
			// [S, C]: sweep with the old config and endpoints first. What it did to
			// endpoints that the config removes, or did before a no-op config, is
			// not observable.
			if w.cfgIdx >= 0 {
				o2 := map[string]bool{}
				for k, v := range obs {
					if st := w.eps[k]; st != nil && h.cfgIncs[cfgIdx][k] == st.inc {
						o2[k] = v
					}
				}
				ws, f := h.sweep(w, t, o2, cfg.noop())
				if f != nil {
					fails = append(fails, f)
				}
				for _, x := range ws {
					y := h.applyCfg(x, cfgIdx, t)
					if f := h.matches(y, obs, x, cfg.noop()); f != nil {
						fails = append(fails, f)
					} else {
						add(y)
					}
				}
			}
			// [C, S]: the already fired timer runs its sweep after the config
			// update (with the new config); [C, S, S] when the update re-armed the
			// timer for this very instant as well.
			tryCS(w, 1)
			if afterC.nextFire == t {
				tryCS(w, 2)
			}
		}
	}
	if h.giveUp {
		e.Probe("model_gave_up")
		h.dead = true
		return
	}
	if anySweep {
		e.Probe("sweeps_judged")
	}
	if len(next) == 0 {
		f := fails[0]
		for _, x := range fails { // prefer the most specific reason
			if x.oracle != "change_outside_sweep" {
				f = x
				break
			}
		}
		e.Violate(f.oracle, "%s", f.msg)
		h.dead = true
		return
	}
	if len(next) > 1 { // drop duplicates
		seen := map[string]*c40W{}
		uniq := next[:0]
		for _, w := range next {
			sg := w.sig()
			if first := seen[sg]; first != nil {
				// informational counters: remember that a count leak was possible
				first.removedEj, first.multiEj = max(first.removedEj, w.removedEj), max(first.multiEj, w.multiEj)
				continue
			}
			seen[sg] = w
			uniq = append(uniq, w)
		}
		next = uniq
	}
	if len(next) > 1 {
		e.Probe("several_possible_worlds")
	}
	if len(next) > 24 {
		e.Probe("model_gave_up")
		h.dead = true
		return
	}
	// Informational bookkeeping only: more enforced-ejection metric events than
	// ejections visible afterwards means an endpoint was ejected more than once,
	// or ejected and removed by the resolver at this instant; either inflates
	// grpc-go's ejected-endpoint counter (see the missed_ejection probes).
	if nEnf > 0 {
		vis := 0
		for _, st := range next[0].eps {
			if st.ejected && st.ts == t {
				vis++
			}
		}
		if nEnf > vis {
			for _, w := range next {
				w.multiEj += nEnf - vis
			}
		}
	}
	h.worlds = next
	h.lastProc = t
	var d []string
	for _, k := range next[0].keys() {
		if st := next[0].eps[k]; st.ejected || st.mult > 0 {
			d = append(d, fmt.Sprintf("%s:ej=%v,m=%d", k, st.ejected, st.mult))
		}
	}
	e.Logf("judged t=%d worlds=%d next=%d %v", t, len(next), next[0].nextFire, d)
}

// nextSweep: earliest predicted sweep instant >= now over all worlds (-1: none).
func (h *c40H) nextSweep() int64 {
	best := int64(-1)
	now := h.now()
	for _, w := range h.worlds {
		if w.nextFire >= now && (best < 0 || w.nextFire < best) {
			best = w.nextFire
		}
	}
	return best
}

// advance sleeps until target, stopping at (and judging) every predicted sweep on the way.
func (h *c40H) advance(target int64) {
	for {
		nf := h.nextSweep()
		if h.dead || nf < 0 || nf >= target {
			break
		}
		if d := nf - h.now(); d > 0 {
			time.Sleep(time.Duration(d))
		}
		h.settle()
		h.process(nf, -1)
	}
	if d := target - h.now(); d > 0 {
		time.Sleep(time.Duration(d))
	}
}

func (h *c40H) update(c *c40Cfg) {
	e := h.e
	// resolver state + incarnations
	newInc := map[string]int{}
	h.addrKey = map[string]string{}
	var eps []resolver.Endpoint
	var names []string
	for _, i := range c.Eps {
		if i < 0 || i >= len(h.s.Pool) {
			continue
		}
		k := c40EpKey(h.s.Pool[i])
		if _, dup := newInc[k]; dup {
			continue
		}
		if inc, ok := h.curInc[k]; ok {
			newInc[k] = inc
		} else {
			newInc[k] = h.nextInc
			h.nextInc++
			if h.everEjected[k] {
				e.Probe("endpoint_readded_after_removal_while_ejected")
			}
		}
		var ep resolver.Endpoint
		for _, a := range h.s.Pool[i] {
			ep.Addresses = append(ep.Addresses, resolver.Address{Addr: a})
			h.addrKey[a] = k
		}
		eps = append(eps, ep)
		names = append(names, k)
	}
	if len(h.worlds) > 0 {
		for k, st := range h.worlds[0].eps {
			if _, ok := newInc[k]; !ok && st.ejected {
				e.Probe("endpoint_removed_while_ejected")
				h.everEjected[k] = true
			}
		}
	}
	h.curInc = newInc
	h.prevNoop = h.curCfg == nil || h.curCfg.noop()
	h.curCfg = c
	h.cfgs = append(h.cfgs, c)
	h.cfgIncs = append(h.cfgIncs, newInc)
	if c.noop() {
		e.Probe("noop_config")
	}
	lb := &outlierdetection.LBConfig{
		Interval:           iserviceconfig.Duration(time.Duration(c.IntervalMs) * time.Millisecond),
		BaseEjectionTime:   iserviceconfig.Duration(time.Duration(c.BaseMs) * time.Millisecond),
		MaxEjectionTime:    iserviceconfig.Duration(time.Duration(c.MaxMs) * time.Millisecond),
		MaxEjectionPercent: c.MaxPct,
		ChildPolicy:        &iserviceconfig.BalancerConfig{Name: c40StubName, Config: &c40ChildCfg{H: h}},
	}
	if c.SR != nil {
		lb.SuccessRateEjection = &outlierdetection.SuccessRateEjection{StdevFactor: c.SR.Stdev, EnforcementPercentage: c.SR.Enf, MinimumHosts: c.SR.MinHosts, RequestVolume: c.SR.ReqVol}
	}
	if c.FP != nil {
		lb.FailurePercentageEjection = &outlierdetection.FailurePercentageEjection{Threshold: c.FP.Thr, EnforcementPercentage: c.FP.Enf, MinimumHosts: c.FP.MinHosts, RequestVolume: c.FP.ReqVol}
	}
	e.Logf("config #%d %s eps=%v", len(h.cfgs)-1, c40CfgStr(c), names)
	h.cfgInFlight = true
	err := h.b.UpdateClientConnState(balancer.ClientConnState{ResolverState: resolver.State{Endpoints: eps}, BalancerConfig: lb})
	h.cfgInFlight = false
	// When UpdateClientConnState has returned, the picker the parent holds
	// counts calls iff the new config is not a no-op (A50: "the picker ... if
	// both fields are unset does not count"); whatever was published during the
	// update ended with a picker built for the new config or left an equivalent one.
	if n := len(h.pickers); n > 0 {
		h.pickers[n-1] = 1
		if c.noop() {
			h.pickers[n-1] = 0
		}
	}
	e.Logf("config done err=%v", err)
}

func (h *c40H) call(c c40Call) {
	if c.Ep < 0 || c.Ep >= len(h.s.Pool) {
		return
	}
	addrs := h.s.Pool[c.Ep]
	addr := addrs[c.Addr%len(addrs)]
	h.callers++
	go func() {
		defer func() { h.callers-- }()
		for i := 0; i < c.Ok+c.Fail; i++ {
			ok := i >= c.Fail
			if h.closed || h.parentPicker == nil {
				return
			}
			pi := len(h.pickers) - 1
			res, err := h.parentPicker.Pick(balancer.PickInfo{FullMethodName: addr, Ctx: context.Background()})
			if err != nil {
				h.e.Logf("pick %s: %v", addr, err)
				continue
			}
			fsc, _ := res.SubConn.(*c40SC)
			if fsc == nil {
				h.e.Violate("harness_internal", "picked SubConn is %T", res.SubConn)
				return
			}
			if c.DoneAtSweep {
				if nf := h.nextSweep(); nf > h.now() {
					time.Sleep(time.Duration(nf - h.now()))
				}
			}
			if h.closed {
				return
			}
			h.e.Logf("done %s inc=%d ok=%v picker#%d", addr, fsc.inc, ok, pi)
			h.dones = append(h.dones, c40Done{t: h.now(), inc: fsc.inc, ok: ok, pi: pi})
			var derr error
			if !ok {
				derr = errors.New("wlx: call failed")
			}
			if res.Done != nil {
				res.Done(balancer.DoneInfo{Err: derr})
			}
		}
	}()
}

func (h *c40H) flap(f c40Flap) {
	if h.stub == nil || f.Ep < 0 || f.Ep >= len(h.s.Pool) || f.Addr < 1 {
		return
	}
	addrs := h.s.Pool[f.Ep]
	if len(addrs) < 2 {
		return
	}
	addr := addrs[1+(f.Addr-1)%(len(addrs)-1)]
	epk := c40EpKey(addrs)
	ssc := h.stub.subs[epk+"|"+addr]
	if ssc == nil || ssc.dead {
		return
	}
	fsc := h.fakeOf(addr)
	if fsc == nil {
		return
	}
	h.e.Logf("flap %s %s", f.Kind, addr)
	h.e.Probe("flap_" + f.Kind)
	switch f.Kind {
	case "reconnect":
		if fsc.state == connectivity.Ready {
			h.q = append(h.q, fsc.deliver(connectivity.Idle))
		}
	case "health":
		if fsc.healthL != nil {
			h.q = append(h.q, fsc.healthDelivery())
		}
	case "recreate":
		h.stub.recreate(epk, addr)
	}
}

// fakeOf: the live fake SubConn for addr.
func (h *c40H) fakeOf(addr string) *c40SC {
	for i := len(h.scs) - 1; i >= 0; i-- {
		if sc := h.scs[i]; sc.addr == addr && !sc.shut {
			return sc
		}
	}
	return nil
}

func runC40(e *core.Env, s *c40Scenario) {
	h := &c40H{e: e, s: s, curInc: map[string]int{}, addrKey: map[string]string{}, everEjected: map[string]bool{}}
	h.worlds = []*c40W{{cfgIdx: -1, eps: map[string]*c40EpState{}, timerStart: -1, nextFire: -1}}
	h.b = balancer.Get(outlierdetection.Name).Build(&c40CC{h: h}, balancer.BuildOptions{})
	for si := range s.Steps {
		st := &s.Steps[si]
		target := h.now() + st.WaitNs
		if st.WaitKind == "sweep" {
			if nf := h.nextSweep(); nf >= 0 {
				target = max(h.now(), nf+st.OffNs)
				e.Probe("step_aligned_with_sweep")
			}
		}
		h.advance(target)
		t := h.now()
		e.Logf("step %d", si)
		for _, c := range st.Calls {
			h.call(c)
		}
		cfgIdx := -1
		if st.Cfg != nil {
			// at most one config update per instant
			if len(h.cfgs) > 0 && h.lastCfgT == t {
				h.settle()
				h.process(t, -1)
				time.Sleep(1)
				t = h.now()
			}
			h.update(st.Cfg)
			h.lastCfgT = t
			cfgIdx = len(h.cfgs) - 1
		}
		for _, f := range st.Flaps {
			h.flap(f)
		}
		h.settle()
		h.process(t, cfgIdx)
	}
	h.advance(h.now() + s.TailNs)
	h.settle()
	h.process(h.now(), -1)
	// let callers waiting for a sweep finish
	for guard := 0; h.callers > 0 && guard < 4; guard++ {
		nf := h.nextSweep()
		if nf < 0 {
			break
		}
		h.advance(nf + 1)
		h.settle()
	}
	e.Logf("close")
	h.closed = true
	h.b.Close()
	h.q = nil
	synctest.Wait()
	if h.callers > 0 {
		// callers parked until a sweep that the model no longer predicts (dead model): give them time
		time.Sleep(time.Hour)
		synctest.Wait()
	}
}
