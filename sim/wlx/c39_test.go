package wlx

// C39: the priority policy routes through the best available priority.
//
// System under test: the real priority balancer (balancer.Get(priority.Name)),
// including its balancergroup, gracefulswitch wrappers and timeout cache.
// Harness: a recording parent ClientConn, stub child policies (two registered
// names so that a config can change a child's policy), scripted child state
// reports made from goroutines of their own, config updates / ResolverError /
// ExitIdle / Close made by the root goroutine.
//
// Oracle = reference model of the statement, evaluated at quiescence (every
// goroutine of the bubble durably blocked, hence every queued child update and
// every due timer handled):
//
//   - which children are running is OBSERVED, not predicted: ExitIdle() on the
//     policy reaches exactly the children that are currently started, and the
//     stubs record Build / UpdateClientConnState / Close;
//   - per running child the model keeps the state of its failover ("initial
//     connection") timer as gRFC A56 defines it: 10 s from the moment the child
//     is (re)started; cancelled by READY, IDLE and TRANSIENT_FAILURE;
//     re-armed by CONNECTING unless TRANSIENT_FAILURE was seen more recently
//     than READY/IDLE or the timer is already pending; expiry counts as a
//     failure. Where the observation leaves the order of same-instant events
//     open (a report made at the very instant the child is restarted, a config
//     update that may or may not have restarted a child) the model keeps the
//     set of possible timer states and an assertion needs all of them to agree;
//   - a child is usable iff its latest reported state is READY or IDLE or its
//     failover timer is pending.
//
// Assertions (with priorities c0..cn-1 of the latest config and u the index of
// the lowest started child):
//
//	started_prefix   the started children are exactly c0..cu, one live child
//	                 policy instance each, nothing outside the config
//	lower_not_closed / failover_early   no ci, i<u, is usable (READY/IDLE resp.
//	                 still within its timeout): lower priorities run only after
//	                 every higher one failed or timed out, and are closed once a
//	                 higher one is READY
//	failover_missing cu is usable or u == n-1
//	parent_picker    the last state given to the parent is cu's latest state
//	                 and picker (CONNECTING + "no SubConn available" while cu
//	                 has not reported yet)
//	all_removed      with an empty priority list nothing is started and the
//	                 parent is in TRANSIENT_FAILURE
//	child_leaked_after_close   after Close every child policy ever built is closed

import (
	"errors"
	"fmt"
	"sort"
	"strings"
	"sync"
	"testing/synctest"
	"time"

	"google.golang.org/grpc/balancer"
	"google.golang.org/grpc/connectivity"
	estats "google.golang.org/grpc/experimental/stats"
	"google.golang.org/grpc/internal"
	iserviceconfig "google.golang.org/grpc/internal/serviceconfig"
	"google.golang.org/grpc/internal/xds/balancer/priority"
	"google.golang.org/grpc/internal/zzverif/core"
	"google.golang.org/grpc/resolver"
	"google.golang.org/grpc/serviceconfig"
)

// gRFC A56: "failover timer ... 10 seconds".
const c39InitTimeout = int64(10 * time.Second)

const (
	c39StubA = "zzverif_wlx_c39_stub_a"
	c39StubB = "zzverif_wlx_c39_stub_b"
)

func init() {
	balancer.Register(c39Builder{c39StubA})
	balancer.Register(c39Builder{c39StubB})
	core.Register("C39", genC39, runC39)
}

// ---------------------------------------------------------------- scenario

type c39Prio struct {
	Name     string `json:"name"`
	Policy   int    `json:"policy,omitempty"`     // 0: stub a, otherwise stub b
	OnUpdate string `json:"on_update,omitempty"`  // state reported inline from every UpdateClientConnState
	OnResErr string `json:"on_res_err,omitempty"` // state reported inline from ResolverError
}

type c39Cfg struct {
	Prios []c39Prio `json:"prios"`
}

type c39Up struct {
	Child  string   `json:"child"`
	States []string `json:"states"` // C R I T, reported in this order by one goroutine
}

type c39Step struct {
	// WaitKind "ns": sleep WaitNs. "deadline": sleep until the earliest pending
	// failover deadline of the model plus OffNs (WaitNs if none is pending).
	WaitKind string  `json:"wait_kind"`
	WaitNs   int64   `json:"wait_ns"`
	OffNs    int64   `json:"off_ns,omitempty"`
	Cfg      *c39Cfg `json:"cfg,omitempty"`
	Ups      []c39Up `json:"ups,omitempty"`
	ResErr   bool    `json:"res_err,omitempty"`
	// NoCheck: do not wait for quiescence after this step (the next step's
	// stimuli then overlap with whatever this one left running).
	NoCheck bool `json:"no_check,omitempty"`
}

type c39Scenario struct {
	Sched  core.Sched `json:"sched"`
	Steps  []c39Step  `json:"steps"`
	TailNs int64      `json:"tail_ns"`
	// RawPolicyRace (never generated): let reports of a child race with a
	// config update that changes that child's policy TYPE. The statement
	// quantifies over configs that add, remove or reorder priorities; a type
	// change is exercised too, but by default quiesced (see runC39), because a
	// report queued by the old, cached instance is applied by grpc-go to the
	// new instance built under the same name (kept as a finding, replay file
	// replays/C39-policy-type-race.json).
	RawPolicyRace bool `json:"raw_policy_race,omitempty"`
}

func (s *c39Scenario) SchedP() *core.Sched { return &s.Sched }

func (s *c39Scenario) Shape() string {
	cfgs, ups, dl := 0, 0, 0
	for _, st := range s.Steps {
		if st.Cfg != nil {
			cfgs++
		}
		ups += len(st.Ups)
		if st.WaitKind == "deadline" {
			dl++
		}
	}
	return fmt.Sprintf("steps=%d cfgs=%d ups=%d dl=%d", len(s.Steps), cfgs, ups, dl)
}

func c39ParseState(s string) (connectivity.State, bool) {
	switch s {
	case "C":
		return connectivity.Connecting, true
	case "R":
		return connectivity.Ready, true
	case "I":
		return connectivity.Idle, true
	case "T":
		return connectivity.TransientFailure, true
	}
	return 0, false
}

func (s *c39Scenario) Validate() error {
	okState := func(x string, empty bool) bool {
		if x == "" {
			return empty
		}
		_, ok := c39ParseState(x)
		return ok
	}
	for _, st := range s.Steps {
		if st.WaitKind != "ns" && st.WaitKind != "deadline" {
			return fmt.Errorf("bad wait kind %q", st.WaitKind)
		}
		if st.WaitNs < 0 || st.WaitNs > int64(2*time.Hour) {
			return fmt.Errorf("bad wait")
		}
		if st.Cfg != nil {
			for _, p := range st.Cfg.Prios {
				if p.Name == "" || !okState(p.OnUpdate, true) || !okState(p.OnResErr, true) {
					return fmt.Errorf("bad prio %+v", p)
				}
			}
		}
		for _, u := range st.Ups {
			if u.Child == "" {
				return fmt.Errorf("empty child")
			}
			for _, x := range u.States {
				if !okState(x, false) {
					return fmt.Errorf("bad state %q", x)
				}
			}
		}
	}
	return nil
}

func genSched(r *core.Rand, seed uint64) core.Sched {
	return core.Sched{SchedSeed: core.Mix(seed, 11), AuxSeed: core.Mix(seed, 12), YieldThr: core.Pick(r, uint32(0), 200, 700, 3300, 13000, 30000)}
}

func genC39(seed uint64, tier string) *c39Scenario {
	r := core.NewRand(seed)
	s := &c39Scenario{Sched: genSched(r, seed)}
	pool := []string{"p0", "p1", "p2", "p3", "p4", "p5"}
	states := []string{"C", "R", "I", "T"}
	mkPrio := func(name string) c39Prio {
		p := c39Prio{Name: name}
		switch {
		case r.Chance(1, 6):
			p.OnUpdate = "C"
		case r.Chance(1, 20):
			p.OnUpdate = core.Pick(r, "R", "T", "I")
		}
		if r.Chance(1, 10) {
			p.OnResErr = core.Pick(r, "T", "T", "C")
		}
		return p
	}
	var cur []c39Prio
	var removed []string
	has := func(n string) bool {
		for _, p := range cur {
			if p.Name == n {
				return true
			}
		}
		return false
	}
	fresh := func() (string, bool) {
		for try := 0; try < 8; try++ {
			n := pool[r.Intn(len(pool))]
			if !has(n) {
				return n, true
			}
		}
		return "", false
	}
	for k := r.Range(1, 4); k > 0; k-- {
		if n, ok := fresh(); ok {
			cur = append(cur, mkPrio(n))
		}
	}
	snapshot := func() *c39Cfg { return &c39Cfg{Prios: append([]c39Prio{}, cur...)} }
	maxSteps := 10
	if tier == "thorough" {
		maxSteps = 26
	}
	n := r.Range(3, maxSteps)
	// How eager the run is to fail the top priorities (otherwise most runs sit on p0).
	failBias := r.Intn(4)
	for i := 0; i < n; i++ {
		var st c39Step
		st.WaitKind = "ns"
		switch x := r.Intn(100); {
		case i == 0:
		case x < 18:
		case x < 45:
			st.WaitNs = int64(r.Intn(12000))*int64(time.Millisecond) + int64(r.Intn(3))
		case x < 52:
			st.WaitNs = int64(c39InitTimeout) + int64(r.Range(-1, 1))
		case x < 77:
			st.WaitKind = "deadline"
			st.WaitNs = int64(r.Intn(5000)) * int64(time.Millisecond)
			if r.Chance(3, 10) {
				st.OffNs = int64(core.Pick(r, -1, 1))
			}
		case x < 87:
			st.WaitNs = int64(r.Range(10, 40)) * int64(time.Second)
		default:
			// around the 15 min sub-balancer cache timeout
			st.WaitNs = int64(core.Pick(r, 1, 5, 14, 15, 15, 16, 31))*int64(time.Minute) + int64(r.Range(-1, 1))*int64(r.Intn(2))*int64(11*time.Second)
			if st.WaitNs < 0 {
				st.WaitNs = 0
			}
		}
		if i == 0 || r.Chance(3, 10) {
			if i > 0 {
				switch x := r.Intn(100); {
				case x < 22: // add
					if nm, ok := fresh(); ok {
						at := r.Intn(len(cur) + 1)
						if r.Chance(1, 2) {
							at = 0
						}
						cur = append(cur[:at], append([]c39Prio{mkPrio(nm)}, cur[at:]...)...)
					}
				case x < 40: // remove
					if len(cur) > 0 {
						at := r.Intn(len(cur))
						removed = append(removed, cur[at].Name)
						cur = append(cur[:at], cur[at+1:]...)
					}
				case x < 55: // swap
					if len(cur) > 1 {
						a, b := r.Intn(len(cur)), r.Intn(len(cur))
						cur[a], cur[b] = cur[b], cur[a]
					}
				case x < 65: // move the last to the front
					if len(cur) > 1 {
						l := cur[len(cur)-1]
						cur = append([]c39Prio{l}, cur[:len(cur)-1]...)
					}
				case x < 72: // reverse
					for a, b := 0, len(cur)-1; a < b; a, b = a+1, b-1 {
						cur[a], cur[b] = cur[b], cur[a]
					}
				case x < 82: // change a child's policy
					if len(cur) > 0 {
						at := r.Intn(len(cur))
						cur[at].Policy = 1 - cur[at].Policy
					}
				case x < 86: // remove everything
					for _, p := range cur {
						removed = append(removed, p.Name)
					}
					cur = nil
				case x < 92: // re-add something removed earlier
					if len(removed) > 0 {
						nm := removed[r.Intn(len(removed))]
						if !has(nm) {
							cur = append(cur, mkPrio(nm))
						}
					}
				default: // same priorities again
				}
			}
			st.Cfg = snapshot()
		}
		for k := core.Pick(r, 0, 1, 1, 1, 2, 2, 3); k > 0 && i > 0; k-- {
			var u c39Up
			switch {
			case len(cur) == 0 || (len(removed) > 0 && r.Chance(1, 12)):
				if len(removed) == 0 {
					continue
				}
				u.Child = removed[r.Intn(len(removed))]
			case r.Chance(3, 5):
				u.Child = cur[r.Intn(min(len(cur), 2))].Name
			default:
				u.Child = cur[r.Intn(len(cur))].Name
			}
			for m := core.Pick(r, 1, 1, 1, 2, 2, 3); m > 0; m-- {
				x := states[r.Intn(len(states))]
				if failBias > 0 && r.Intn(4) < failBias && r.Chance(1, 2) {
					x = "T"
				}
				u.States = append(u.States, x)
			}
			st.Ups = append(st.Ups, u)
		}
		st.ResErr = r.Chance(1, 20)
		st.NoCheck = r.Chance(3, 20)
		s.Steps = append(s.Steps, st)
	}
	s.TailNs = int64(core.Pick(r, 0, 1, 11, 1000)) * int64(time.Second)
	return s
}

// ---------------------------------------------------------------- stubs

// c39ChildCfg is the config object a stub child receives; the run's world is
// reachable through it (the builders are process-global, the world is per run).
type c39ChildCfg struct {
	serviceconfig.LoadBalancingConfig
	W        *c39World
	Child    string
	Ver      int
	OnUpdate string
	OnResErr string
}

type c39Builder struct{ name string }

func (b c39Builder) Name() string { return b.name }
func (b c39Builder) Build(cc balancer.ClientConn, _ balancer.BuildOptions) balancer.Balancer {
	return &c39Inst{cc: cc, builder: b.name, id: -1}
}

type c39Report struct {
	t  int64
	st connectivity.State
	p  *c39Picker
}

// c39Elem is one possible state of a child's failover timer.
type c39Elem struct {
	seenRI bool  // READY/IDLE seen more recently than TRANSIENT_FAILURE (or nothing seen yet)
	dl     int64 // absolute deadline of the pending timer, -1: none
}

type c39Inst struct {
	w       *c39World // nil until the first UpdateClientConnState binds the instance to a run
	id      int
	child   string
	builder string
	cc      balancer.ClientConn
	cfg     *c39ChildCfg

	mu     sync.Mutex // serialises this child's own reports, as a real policy's mutex would
	serial int
	closed bool
	probed int

	reports []c39Report
	// possActive: the instance may currently be started in the policy (it was
	// at the last probe, or received UpdateClientConnState since).
	possActive bool
	P          []c39Elem
	starts     int

	buildT, closeT int64
	// decisive: the instance has made a READY/IDLE/TRANSIENT_FAILURE report of its own.
	decisive bool
}

// staleHazard: this live instance replaced, at one and the same instant, an
// instance of the same child that was closed at that instant after having made
// a report at that instant, and has not yet made a READY/IDLE/TRANSIENT_FAILURE
// report of its own. grpc-go attributes queued child updates by NAME, so the
// dead instance's report may have been applied to this one (known finding
// "stale_update_from_closed_child").
func (in *c39Inst) staleHazard() *c39Inst {
	if in.closed || in.decisive || in.w == nil {
		return nil
	}
	for _, old := range in.w.insts {
		if n := len(old.reports); old != in && old.child == in.child && old.closed && old.closeT == in.buildT && n > 0 && old.reports[n-1].t == in.buildT {
			return old
		}
	}
	return nil
}

func (in *c39Inst) UpdateClientConnState(s balancer.ClientConnState) error {
	cfg, ok := s.BalancerConfig.(*c39ChildCfg)
	if !ok || cfg == nil || cfg.W == nil {
		return nil
	}
	w := cfg.W
	if in.w == nil {
		in.w = w
		in.id = len(w.insts)
		in.child = cfg.Child
		w.insts = append(w.insts, in)
		w.e.Logf("build inst=%d child=%s policy=%s", in.id, in.child, in.builder[len(in.builder)-1:])
		in.buildT = w.now()
	}
	in.cfg = cfg
	w.onUCCS(in)
	if cfg.OnUpdate != "" {
		st, _ := c39ParseState(cfg.OnUpdate)
		in.report(st)
	}
	return nil
}

func (in *c39Inst) ResolverError(error) {
	if in.w == nil || in.cfg == nil || in.cfg.OnResErr == "" {
		return
	}
	st, _ := c39ParseState(in.cfg.OnResErr)
	in.report(st)
}

func (in *c39Inst) UpdateSubConnState(balancer.SubConn, balancer.SubConnState) {}

func (in *c39Inst) Close() {
	if in.w == nil {
		return
	}
	in.closed = true
	in.closeT = in.w.now()
	in.w.onClose(in)
}

func (in *c39Inst) ExitIdle() {
	if in.w != nil {
		in.probed = in.w.probeGen
	}
}

// report makes one child state report (UpdateState with a fresh picker).
func (in *c39Inst) report(st connectivity.State) {
	in.mu.Lock()
	defer in.mu.Unlock()
	if in.closed {
		return // a closed policy does not report (a report racing with Close still can: the lock above yields)
	}
	in.serial++
	p := &c39Picker{inst: in, serial: in.serial}
	in.w.onReport(in, st, p)
	in.cc.UpdateState(balancer.State{ConnectivityState: st, Picker: p})
}

type c39Picker struct {
	inst   *c39Inst
	serial int
}

type c39PickErr struct{ p *c39Picker }

func (e *c39PickErr) Error() string {
	return fmt.Sprintf("stub picker %d.%d", e.p.inst.id, e.p.serial)
}

func (p *c39Picker) Pick(balancer.PickInfo) (balancer.PickResult, error) {
	return balancer.PickResult{}, &c39PickErr{p}
}

// c39Ident describes whose picker this is by using it (robust against wrappers).
func c39Ident(p balancer.Picker) (stub *c39Picker, desc string) {
	if p == nil {
		return nil, "nil"
	}
	_, err := p.Pick(balancer.PickInfo{})
	var pe *c39PickErr
	if errors.As(err, &pe) {
		return pe.p, fmt.Sprintf("stub:%d.%d", pe.p.inst.id, pe.p.serial)
	}
	switch {
	case err == nil:
		return nil, "ok?"
	case errors.Is(err, balancer.ErrNoSubConnAvailable):
		return nil, "queue"
	case errors.Is(err, priority.ErrAllPrioritiesRemoved):
		return nil, "all-removed"
	}
	return nil, "err"
}

// c39CC is the parent ClientConn.
type c39CC struct {
	internal.EnforceClientConnEmbedding
	w *c39World
}

func (c *c39CC) NewSubConn([]resolver.Address, balancer.NewSubConnOptions) (balancer.SubConn, error) {
	return nil, errors.New("wlx: C39 stubs do not create SubConns")
}
func (c *c39CC) RemoveSubConn(balancer.SubConn)                        {}
func (c *c39CC) UpdateAddresses(balancer.SubConn, []resolver.Address) {}
func (c *c39CC) ResolveNow(resolver.ResolveNowOptions)                {}
func (c *c39CC) Target() string                                       { return "wlx" }
func (c *c39CC) MetricsRecorder() estats.MetricsRecorder {
	return estats.UnimplementedMetricsRecorder{}
}
func (c *c39CC) UpdateState(s balancer.State) {
	w := c.w
	_, d := c39Ident(s.Picker)
	w.parentN++
	w.parentLast = s
	if w.closedPolicy {
		w.updatesAfterClose++
	}
	w.e.Logf("parent state=%v picker=%s", s.ConnectivityState, d)
}

// ---------------------------------------------------------------- world + model

type c39World struct {
	e     *core.Env
	insts []*c39Inst

	cfg         *c39Cfg // latest config whose UpdateClientConnState has been called
	cfgVer      int
	cfgInFlight bool

	parentN           int
	parentLast        balancer.State
	closedPolicy      bool
	updatesAfterClose int

	probeGen int
	pending  int // reporter goroutines still running
	rootBusy bool
	lastU    int
	lastCfgV int
}

func (w *c39World) now() int64 { return w.e.SimNs() }

func c39Expire(e c39Elem, t int64) c39Elem {
	if e.dl >= 0 && e.dl <= t {
		// gRFC A56: expiry of the failover timer is treated as a failure of the child.
		return c39Elem{seenRI: false, dl: -1}
	}
	return e
}

func c39Apply(e c39Elem, st connectivity.State, t int64) c39Elem {
	e = c39Expire(e, t)
	switch st {
	case connectivity.Ready, connectivity.Idle:
		return c39Elem{seenRI: true, dl: -1}
	case connectivity.TransientFailure:
		return c39Elem{seenRI: false, dl: -1}
	case connectivity.Connecting:
		if e.seenRI && e.dl < 0 {
			e.dl = t + c39InitTimeout
		}
	}
	return e
}

func c39AddElem(set []c39Elem, e c39Elem) []c39Elem {
	for _, x := range set {
		if x == e {
			return set
		}
	}
	return append(set, e)
}

// startCands: the possible timer states right after the instance has been
// (re)started at instant t, given that the reports it made at this same instant
// before the start was observed may have been handled before or after it
// (whatever was handled before is superseded by the restart; the child's latest
// state known at the restart is applied to the restarted child).
func (w *c39World) startCands(in *c39Inst, t int64) []c39Elem {
	var same []c39Report
	var prev *c39Report
	for i := range in.reports {
		if in.reports[i].t == t {
			same = append(same, in.reports[i])
		} else {
			prev = &in.reports[i]
		}
	}
	var out []c39Elem
	for j := 0; j <= len(same); j++ {
		e := c39Elem{seenRI: true, dl: t + c39InitTimeout}
		if j == 0 {
			if prev != nil {
				e = c39Apply(e, prev.st, t)
			}
		} else {
			e = c39Apply(e, same[j-1].st, t)
		}
		for _, r := range same[j:] {
			e = c39Apply(e, r.st, t)
		}
		out = c39AddElem(out, e)
	}
	return out
}

func (w *c39World) onUCCS(in *c39Inst) {
	t := w.now()
	cands := w.startCands(in, t)
	w.e.Logf("uccs inst=%d child=%s ver=%d inflight=%v", in.id, in.child, in.cfg.Ver, w.cfgInFlight)
	if len(cands) > 1 {
		w.e.Probe("start_with_same_instant_reports")
	}
	if w.cfgInFlight && in.possActive {
		// Either the config was merely forwarded to a running child, or the
		// child was stopped and restarted at this instant.
		for _, c := range cands {
			in.P = c39AddElem(in.P, c)
		}
	} else {
		if in.starts > 0 {
			w.e.Probe("child_restarted")
		}
		in.P = cands
		in.starts++
	}
	in.possActive = true
}

func (w *c39World) onReport(in *c39Inst, st connectivity.State, p *c39Picker) {
	t := w.now()
	w.e.Logf("report inst=%d child=%s %v serial=%d", in.id, in.child, st, p.serial)
	if w.cfgInFlight {
		w.e.Probe("report_during_config_update")
	}
	for _, e := range in.P {
		if e.dl == t {
			w.e.Probe("report_at_timer_deadline")
			break
		}
	}
	in.reports = append(in.reports, c39Report{t: t, st: st, p: p})
	if st != connectivity.Connecting {
		in.decisive = true
	}
	if in.possActive {
		var np []c39Elem
		for _, e := range in.P {
			np = c39AddElem(np, c39Apply(e, st, t))
		}
		in.P = np
	}
}

func (w *c39World) onClose(in *c39Inst) {
	w.e.Logf("close inst=%d child=%s", in.id, in.child)
	if !w.rootBusy {
		w.e.Probe("child_closed_by_timer") // sub-balancer cache timeout
	}
	in.possActive = false
	in.P = nil
}

func (w *c39World) nextDeadline() int64 {
	t := w.now()
	best := int64(-1)
	for _, in := range w.insts {
		if in.closed || !in.possActive {
			continue
		}
		for _, e := range in.P {
			if e.dl > t && (best < 0 || e.dl < best) {
				best = e.dl
			}
		}
	}
	return best
}

const (
	c39Usable = iota
	c39Unusable
	c39Unknown
)

// usability of a started child instance at time t (after expiring its timers).
func (in *c39Inst) usability() (int, string) {
	if n := len(in.reports); n > 0 {
		switch in.reports[n-1].st {
		case connectivity.Ready, connectivity.Idle:
			return c39Usable, "ready/idle"
		case connectivity.TransientFailure:
			return c39Unusable, "transient failure"
		}
	}
	pend, none := 0, 0
	for _, e := range in.P {
		if e.dl >= 0 {
			pend++
		} else {
			none++
		}
	}
	switch {
	case pend > 0 && none == 0:
		return c39Usable, "within its initial timeout"
	case none > 0 && pend == 0:
		return c39Unusable, "timed out / no timer"
	}
	return c39Unknown, "timer state ambiguous"
}

func (in *c39Inst) keep(pending bool) {
	var np []c39Elem
	for _, e := range in.P {
		if (e.dl >= 0) == pending {
			np = append(np, e)
		}
	}
	if len(np) > 0 {
		in.P = np
	}
}

// settle waits until every goroutine of the bubble is durably blocked.
func (w *c39World) settle() {
	synctest.Wait()
	if w.pending != 0 {
		w.e.Violate("harness_internal", "%d reporter goroutine(s) still running at quiescence", w.pending)
	}
}

// c39Env routes oracle failures: while a started child is exposed to the known
// stale-update defect (see c39Inst.staleHazard) they are reported under one
// oracle name of their own, so that the finding can be told apart.
type c39Env struct {
	*core.Env
	w *c39World
}

func (e c39Env) Violate(oracle, format string, a ...any) {
	for _, in := range e.w.insts {
		if old := in.staleHazard(); old != nil {
			e.Env.Violate("stale_update_from_closed_child", "[%s] %s; child %s#%d replaced %s#%d, which reported at the instant it was closed", oracle, fmt.Sprintf(format, a...), in.child, in.id, in.child, old.id)
			return
		}
	}
	e.Env.Violate(oracle, format, a...)
}

// check evaluates the oracles at quiescence.
func (w *c39World) check(b balancer.Balancer) {
	e := c39Env{w.e, w}
	t := w.now()
	if w.cfg == nil {
		return
	}
	for _, in := range w.insts {
		for i := range in.P {
			in.P[i] = c39Expire(in.P[i], t)
		}
		var np []c39Elem
		for _, x := range in.P {
			np = c39AddElem(np, x)
		}
		in.P = np
	}
	// Probe which children are started.
	w.probeGen++
	w.rootBusy = true
	b.ExitIdle()
	w.rootBusy = false
	active := map[string][]*c39Inst{}
	var desc []string
	for _, in := range w.insts {
		if in.probed == w.probeGen && !in.closed {
			active[in.child] = append(active[in.child], in)
			desc = append(desc, fmt.Sprintf("%s#%d", in.child, in.id))
		} else {
			in.possActive = false
			in.P = nil
		}
	}
	_, pd := c39Ident(w.parentLast.Picker)
	e.Logf("check active=[%s] parent=%v/%s", strings.Join(desc, " "), w.parentLast.ConnectivityState, pd)

	var names []string
	inCfg := map[string]bool{}
	for _, p := range w.cfg.Prios {
		if !inCfg[p.Name] {
			inCfg[p.Name] = true
			names = append(names, p.Name)
		}
	}
	var extra []string
	for c := range active {
		if !inCfg[c] {
			extra = append(extra, c)
		}
	}
	sort.Strings(extra)
	if len(extra) > 0 {
		e.Violate("started_prefix", "children %v are started but not in the config %v", extra, names)
		return
	}
	if len(names) == 0 {
		e.Probe("all_priorities_removed")
		if len(active) > 0 {
			e.Violate("all_removed", "children still started with an empty priority list: %v", desc)
		}
		if w.parentLast.ConnectivityState != connectivity.TransientFailure {
			e.Violate("all_removed", "parent state is %v with an empty priority list", w.parentLast.ConnectivityState)
		}
		w.lastU = -1
		return
	}
	u := -1
	for i, nm := range names {
		if len(active[nm]) > 1 {
			e.Violate("started_prefix", "child %s has %d started policy instances", nm, len(active[nm]))
			return
		}
		if len(active[nm]) == 1 {
			if u != i-1 {
				e.Violate("started_prefix", "child %s (priority %d) is started while priority %d (%s) is not; config %v started %v", nm, i, i-1, names[i-1], names, desc)
				return
			}
			u = i
		}
	}
	if u < 0 {
		e.Violate("started_prefix", "no child is started; config %v", names)
		return
	}
	for i := 0; i < u; i++ {
		in := active[names[i]][0]
		us, why := in.usability()
		switch us {
		case c39Usable:
			if why == "ready/idle" {
				e.Violate("lower_not_closed", "priority %d (%s) is %v but priorities down to %d (%s) are still started", i, names[i], in.reports[len(in.reports)-1].st, u, names[u])
			} else {
				e.Violate("failover_early", "priority %d (%s) is still within its initial timeout (%v) but priority %d (%s) is started", i, names[i], in.P, u, names[u])
			}
			return
		case c39Unknown:
			e.Probe("ambiguous_timer_resolved")
			in.keep(false)
		}
	}
	cu := active[names[u]][0]
	if u < len(names)-1 {
		us, why := cu.usability()
		switch us {
		case c39Unusable:
			e.Violate("failover_missing", "priority %d (%s) has failed (%s) and is the lowest started although priority %d (%s) exists", u, names[u], why, u+1, names[u+1])
			return
		case c39Unknown:
			e.Probe("ambiguous_timer_resolved")
			cu.keep(true)
		}
	}
	// The picker given to the parent is the one of the child in use.
	ps, _ := c39Ident(w.parentLast.Picker)
	if n := len(cu.reports); n > 0 {
		last := cu.reports[n-1]
		if w.parentLast.ConnectivityState != last.st || ps != last.p {
			e.Violate("parent_picker", "child in use is %s#%d (priority %d) whose latest report is %v/stub:%d.%d, but the parent was last given %v/%s", cu.child, cu.id, u, last.st, cu.id, last.p.serial, w.parentLast.ConnectivityState, pd)
		}
	} else {
		if w.parentLast.ConnectivityState != connectivity.Connecting || pd != "queue" {
			e.Violate("parent_picker", "child in use %s#%d (priority %d) has not reported yet, but the parent was last given %v/%s", cu.child, cu.id, u, w.parentLast.ConnectivityState, pd)
		}
	}
	// probes
	if u > 0 {
		e.Probe("lower_priority_in_use")
		hi := active[names[u-1]][0]
		if n := len(hi.reports); n == 0 || hi.reports[n-1].st == connectivity.Connecting {
			e.Probe("failover_after_timeout")
		} else {
			e.Probe("failover_after_tf")
		}
	}
	if w.lastCfgV == w.cfgVer && w.lastU > u && u >= 0 {
		e.Probe("higher_priority_recovered")
	}
	if us, why := cu.usability(); us == c39Usable && why != "ready/idle" {
		e.Probe("in_use_within_timeout")
	}
	w.lastU, w.lastCfgV = u, w.cfgVer
}

func (w *c39World) buildCfg(c *c39Cfg) *priority.LBConfig {
	w.cfgVer++
	out := &priority.LBConfig{Children: map[string]*priority.Child{}}
	for _, p := range c.Prios {
		if _, dup := out.Children[p.Name]; dup {
			continue
		}
		name := c39StubA
		if p.Policy != 0 {
			name = c39StubB
		}
		out.Priorities = append(out.Priorities, p.Name)
		out.Children[p.Name] = &priority.Child{Config: &iserviceconfig.BalancerConfig{
			Name:   name,
			Config: &c39ChildCfg{W: w, Child: p.Name, Ver: w.cfgVer, OnUpdate: p.OnUpdate, OnResErr: p.OnResErr},
		}}
	}
	return out
}

func (w *c39World) liveInst(child string) *c39Inst {
	for i := len(w.insts) - 1; i >= 0; i-- {
		if in := w.insts[i]; in.child == child && !in.closed {
			return in
		}
	}
	return nil
}

func runC39(e *core.Env, s *c39Scenario) {
	w := &c39World{e: e, lastU: -1}
	b := balancer.Get(priority.Name).Build(&c39CC{w: w}, balancer.BuildOptions{})
	for si := range s.Steps {
		st := &s.Steps[si]
		// wait
		d := st.WaitNs
		if st.WaitKind == "deadline" {
			if dl := w.nextDeadline(); dl >= 0 {
				d = dl + st.OffNs - w.now()
				e.Probe("step_at_timer_deadline")
			}
		}
		if d > 0 {
			time.Sleep(time.Duration(d))
		}
		e.Logf("step %d", si)
		// A config that changes the policy type of a child is outside the
		// statement's quantifier: exercised, but not raced with that child's reports.
		changed := map[string]bool{}
		if st.Cfg != nil && w.cfg != nil && !s.RawPolicyRace {
			old := map[string]int{}
			for _, p := range w.cfg.Prios {
				old[p.Name] = p.Policy
			}
			for _, in := range w.insts {
				if !in.closed {
					old[in.child] = map[string]int{c39StubA: 0, c39StubB: 1}[in.builder]
				}
			}
			for _, p := range st.Cfg.Prios {
				if o, ok := old[p.Name]; ok && (o != 0) != (p.Policy != 0) {
					changed[p.Name] = true
				}
			}
			if len(changed) > 0 {
				w.settle()
				e.Probe("policy_type_change")
			}
		}
		// child reports, each sequence on a goroutine of its own
		for _, up := range st.Ups {
			if changed[up.Child] {
				continue
			}
			if in := w.liveInst(up.Child); in != nil && !s.RawPolicyRace && w.cfg != nil {
				// An instance of a type that is no longer the configured one (it
				// lingers in the sub-balancer cache) stays silent: see RawPolicyRace.
				stale := false
				for _, p := range w.cfg.Prios {
					if p.Name == up.Child && (p.Policy != 0) != (in.builder == c39StubB) {
						stale = true
					}
				}
				if stale {
					e.Probe("stale_type_instance_silenced")
					continue
				}
			}
			in := w.liveInst(up.Child)
			if in == nil {
				e.Logf("no live instance of %s", up.Child)
				continue
			}
			var sts []connectivity.State
			for _, x := range up.States {
				if v, ok := c39ParseState(x); ok {
					sts = append(sts, v)
				}
			}
			w.pending++
			go func() {
				for _, v := range sts {
					in.report(v)
				}
				w.pending--
			}()
		}
		// calls into the policy, by the root goroutine only
		if st.Cfg != nil {
			cfg := w.buildCfg(st.Cfg)
			e.Logf("config %v", cfg.Priorities)
			w.cfg = st.Cfg
			w.cfgInFlight, w.rootBusy = true, true
			err := b.UpdateClientConnState(balancer.ClientConnState{BalancerConfig: cfg})
			w.cfgInFlight, w.rootBusy = false, false
			e.Logf("config done err=%v", err)
		}
		if st.ResErr {
			w.rootBusy = true
			b.ResolverError(errors.New("wlx: resolver error"))
			w.rootBusy = false
		}
		if !st.NoCheck {
			w.settle()
			w.check(b)
		}
	}
	if s.TailNs > 0 {
		time.Sleep(time.Duration(s.TailNs))
	}
	w.settle()
	w.check(b)
	w.rootBusy = true
	w.closedPolicy = true
	e.Logf("close policy")
	b.Close()
	synctest.Wait()
	for _, in := range w.insts {
		if !in.closed {
			e.Violate("child_leaked_after_close", "child policy instance %s#%d was never closed", in.child, in.id)
		}
	}
	if w.updatesAfterClose > 0 {
		e.Probe("parent_update_after_close")
	}
}
