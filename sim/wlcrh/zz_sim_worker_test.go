package ringhash

// World "wlcrh": in-package simulation check for ring_hash (property C37).
// The files of this directory are overlaid into /repo/balancer/ringhash/ and
// compile as part of that package's test binary (the package's own tests are
// compiled along but never run); every identifier introduced here starts with
// "c37"/"sim".

import (
	"io"
	"testing"

	"google.golang.org/grpc/grpclog"
	"google.golang.org/grpc/internal/zzverif/core"
)

func init() {
	grpclog.SetLoggerV2(grpclog.NewLoggerV2(io.Discard, io.Discard, io.Discard))
}

func TestSimWorker(t *testing.T) {
	core.GCBetween = false
	core.Warmups = 20
	core.WorkerMain(t)
}

func simGenSched(r *core.Rand, seed uint64) core.Sched {
	return core.Sched{SchedSeed: core.Mix(seed, 11), AuxSeed: core.Mix(seed, 12), YieldThr: core.Pick(r, uint32(0), 200, 700, 3300, 13000, 30000)}
}
